import Autd3.Model.Wire
/-!
Model of the code that decides *where* and *in which order* per-device work runs (property C10):

* `OperationHandler::pack` (`autd3-driver/src/firmware/operation/mod.rs`): the iterator chain
  `geometry.iter().zip(tx.iter_mut()).filter(|(dev, _)| dev.enable).zip(operations.iter_mut())`,
  consumed either by `try_for_each` (serial) or by `par_bridge().try_for_each` (thread pool);
* `OperationHandler::{generate, is_done}` and the loop of `Sender::send_impl`
  (`autd3/src/controller/sender/mod.rs`): pack → send → stop when every operation is done;
* `ParallelMode::is_parallel` and the `parallel_threshold` of the datagram options;
* the operation vector built by `Sender::group_send` (`autd3/src/controller/group.rs`).

The per-device work itself is a parameter (`step`); it is instantiated with `Wire.packOp2`.
A *schedule* is the order in which the tasks of one `pack` call are executed; the serial code
uses the order of the iterator, the thread pool may use any other.
-/
namespace Autd3.ParPack
open Autd3.Wire

/-- one item of the zipped iterator: `((dev, tx), op)` as indices into `geometry`, `tx`, `operations` -/
structure Task where
  dev : Nat
  tx : Nat
  op : Nat
deriving Repr, DecidableEq, Inhabited

/-- the iterator chain of `pack`, with the devices numbered from `s` and the operations from `k`
(`pairing` is the instance `s = k = 0`; the offsets exist for the induction only).
`en` = the `enable` flags of `geometry.iter()`, `nTx = tx.len()`, `nOps = operations.len()`. -/
def pairingFrom (en : List Bool) (s nTx k nOps : Nat) : List Task :=
  ((((en.zipIdx s).zip (List.range' s nTx)).filter (fun p => p.1.1)).zip (List.range' k nOps)).map
    (fun p => { dev := p.1.1.2, tx := p.1.2, op := p.2 })

def pairing (en : List Bool) (nTx nOps : Nat) : List Task := pairingFrom en 0 nTx 0 nOps

/-- `Geometry::devices()`: `iter().filter(|dev| dev.enable)`, as device indices (numbered from `s`) -/
def devicesFrom (en : List Bool) (s : Nat) : List Nat := ((en.zipIdx s).filter (fun p => p.1)).map (·.2)
def devices (en : List Bool) : List Nat := devicesFrom en 0

/-- `Geometry::num_devices()` — the number of *enabled* devices -/
def numDevices (en : List Bool) : Nat := (devices en).length

/-! ### executing the tasks of one `pack` call -/

/-- the two slices `pack` borrows mutably -/
structure Cells (α β : Type) where
  ops : Array α
  tx : Array β
deriving Repr

/-- the closure body of `try_for_each` for one item.  `step dev op tx` returns what is left in the
two cells (Rust mutates them in place, also on the error path) and the error, if any.  The two
`none` branches are dead for tasks coming from `pairing` (`zip` cannot leave its slices). -/
def runTask {α β ε : Type} (step : Nat → α → β → α × β × Option ε) (t : Task) (c : Cells α β) :
    Cells α β × Option ε :=
  match c.ops[t.op]?, c.tx[t.tx]? with
  | some o, some x =>
    let r := step t.dev o x
    ({ ops := c.ops.setIfInBounds t.op r.1, tx := c.tx.setIfInBounds t.tx r.2.1 }, r.2.2)
  | _, _ => (c, none)

/-- `try_for_each` over the tasks in the given order: stops at the first error -/
def runTasks {α β ε : Type} (step : Nat → α → β → α × β × Option ε) :
    List Task → Cells α β → Cells α β × Option ε
  | [], c => (c, none)
  | t :: ts, c =>
    match runTask step t c with
    | (c', some e) => (c', some e)
    | (c', none) => runTasks step ts c'

/-! ### schedules (orders in which the thread pool may run the tasks) -/

def insertAt {α : Type} : Nat → α → List α → List α
  | 0, x, l => x :: l
  | _ + 1, x, [] => [x]
  | i + 1, x, y :: l => y :: insertAt i x l

/-- a reordering of `l` driven by the numbers `rs` (element `j` is inserted at position
`rs[j] mod (current length + 1)` of the already shuffled tail); `rs = []` is the identity -/
def shuffle {α : Type} : List Nat → List α → List α
  | _, [] => []
  | [], x :: l => x :: l
  | r :: rs, x :: l => let s := shuffle rs l; insertAt (r % (s.length + 1)) x s

/-! ### `OperationHandler::pack` on the `Wire` model -/

abbrev Slot := Option (Op × Op)

/-- `if let Some((op1, op2)) = op { Self::pack_op2(op1, op2, dev, tx) } else { Ok(()) }`.
`numTr dev` is `dev.num_transducers()`. -/
def devStep (numTr : Nat → Nat) (dev : Nat) (o : Slot) (t : Tx) : Slot × Tx × Option Err :=
  match o with
  | none => (none, t, none)
  | some (o1, o2) =>
    match packOp2 o1 o2 (numTr dev) t with
    | .ok (o1', o2', t') => (some (o1', o2'), t', none)
    | .error (e, t') => (some (o1, o2), t', some e)

/-- `OperationHandler::pack(operations, geometry, tx, parallel)` with the tasks executed in the order
`sched tasks` (`sched = id`: the serial branch) -/
def pack (numTr : Nat → Nat) (en : List Bool) (sched : List Task → List Task) (c : Cells Slot Tx) :
    Cells Slot Tx × Option Err :=
  runTasks (devStep numTr) (sched (pairing en c.tx.size c.ops.size)) c

/-- `OperationHandler::is_done` -/
def isDone (ops : Array Slot) : Bool :=
  ops.all fun o => match o with | none => true | some (o1, o2) => o1.done && o2.done

/-- `OperationHandler::generate`: one `Some(generator.generate(dev))` per *enabled* device -/
def generate (gen : Nat → Op × Op) (en : List Bool) : Array Slot :=
  ((devices en).map fun d => some (gen d)).toArray

structure SendRes where
  /-- every frame handed to `link.send`: the `tx` slice of all devices (enabled or not) -/
  frames : List (Array Tx)
  cells : Cells Slot Tx
  /-- `none` = `Ok(())`; `some (some e)` = `Err(e)` from `pack`; `some none` = the model ran out of fuel -/
  result : Option (Option Err)

/-- the loop of `Sender::send_impl` (without link and timing): pack, send, stop when done.
`sched i` is the schedule of the `i`-th `pack` call. -/
def sendLoop (numTr : Nat → Nat) (en : List Bool) (sched : Nat → List Task → List Task) :
    (fuel : Nat) → (i : Nat) → Cells Slot Tx → List (Array Tx) → SendRes
  | 0, _, c, acc => { frames := acc, cells := c, result := some none }
  | fuel + 1, i, c, acc =>
    match pack numTr en (sched i) c with
    | (c', some e) => { frames := acc, cells := c', result := some (some e) }
    | (c', none) =>
      let acc := acc ++ [c'.tx]
      if isDone c'.ops then { frames := acc, cells := c', result := none }
      else sendLoop numTr en sched fuel (i + 1) c' acc

/-- what `Datagram::operation_generator` refuses at the integer level, before any operation exists
(`datagram/stm/{foci,gain}/mod.rs`: number of foci, total size; everything else is checked in
`pack`).  `Sender::send` evaluates it first (`s.operation_generator(self.geometry, parallel)?`),
whatever the devices. -/
def genCheck : Dg → Option Err
  | .fociStm n _ _ _ _ _ records =>
    if n = 0 ∨ n > Autd3.Gen.Drv.FOCI_STM_FOCI_NUM_MAX then some (.fociStmNumFociOutOfRange n)
    else
      let total := (records.size / n) * n
      if total < Autd3.Gen.Drv.STM_BUF_SIZE_MIN ∨ total > Autd3.Gen.Drv.FOCI_STM_BUF_SIZE_MAX then
        some (.fociStmTotalSizeOutOfRange total)
      else none
  | .gainStm _ _ _ _ _ patterns =>
    if patterns.size < Autd3.Gen.Drv.STM_BUF_SIZE_MIN ∨ patterns.size > Autd3.Gen.Drv.GAIN_STM_BUF_SIZE_MAX then
      some (.gainStmSizeOutOfRange patterns.size)
    else none
  | _ => none

/-- `impl Datagram for (D1, D2)`: both generators are built, the first error wins -/
def genCheckPair (a b : Dg) : Option Err :=
  match genCheck a with
  | some e => some e
  | none => genCheck b

/-- `Sender::send`: build the generator (or fail before anything is packed), one operation pair per
enabled device, then the loop -/
def send (numTr : Nat → Nat) (en : List Bool) (sched : Nat → List Task → List Task) (fuel : Nat)
    (check : Option Err) (gen : Nat → Op × Op) (tx : Array Tx) : SendRes :=
  match check with
  | some e => { frames := [], cells := { ops := #[], tx := tx }, result := some (some e) }
  | none => sendLoop numTr en sched fuel 0 { ops := generate gen en, tx := tx } []

/-! ### the parallel decision -/

inductive ParallelMode where
  | auto | on | off
deriving Repr, DecidableEq

/-- `ParallelMode::is_parallel(self, num_devices, parallel_threshold)` -/
def isParallel (m : ParallelMode) (numDevices parallelThreshold : Nat) : Bool :=
  match m with
  | .on => true
  | .off => false
  | .auto => numDevices > parallelThreshold

def usizeMax : Nat := 18446744073709551615

/-- `Datagram::option().parallel_threshold` of the datagrams of the `Wire` model
(`DatagramOption::default()` = `usize::MAX`; every `#[derive(Gain)]` datagram, GainSTM and
PulseWidthEncoder: 4; FociSTM: 4 when
`foci.len() * N ≥ 4000`, i.e. from 4000 focus records on) -/
def thresholdOf : Dg → Nat
  | .pwe _ => 4
  | .gain .. => 4
  | .gainStm .. => 4
  | .fociStm _ _ _ _ _ _ records => if records.size ≥ 4000 then 4 else usizeMax
  | _ => usizeMax

/-- `impl Datagram for (D1, D2)`: `option().parallel_threshold` is the minimum -/
def thresholdPair (a b : Nat) : Nat := min a b

/-- what `Sender::send` computes before anything else -/
def sendDecision (m : ParallelMode) (en : List Bool) (threshold : Nat) : Bool :=
  isParallel m (numDevices en) threshold

/-! ### `Sender::group_send`: the operation vector -/

/-- one round of the `filters.into_iter().try_for_each` body:
`operations.iter_mut().zip(self.geometry.devices()).filter(|(_, dev)| filter[dev.idx()])
 .for_each(|(op, dev)| *op = Some(generator.generate(dev)))`.
`filter` is the `BitVec` over *all* devices belonging to one key.  `none` = index panic of `filter[..]`. -/
def groupRoundGo {γ : Type} (filter : List Bool) (gen : Nat → γ) :
    List (Option γ) → List Nat → Option (List (Option γ))
  | op :: ops, d :: ds =>
    match filter[d]? with
    | none => none
    | some b => (groupRoundGo filter gen ops ds).map fun r => (if b then some (gen d) else op) :: r
  | ops, _ => some ops

def groupRound {γ : Type} (en : List Bool) (filter : List Bool) (gen : Nat → γ) (ops : List (Option γ)) :
    Option (List (Option γ)) :=
  groupRoundGo filter gen ops (devices en)

/-- `filters`: for key `k`, the `BitVec::from_fn(num_devices, ..)` with the bits of the *enabled*
devices whose key is `k` -/
def groupFilter (en : List Bool) (keys : List (Option Nat)) (k : Nat) : List Bool :=
  (en.zip keys).map fun p => p.1 && p.2 == some k

/-- the operation vector of `group_send`: starts as `devices().map(|_| None)`, then one round per key
in the order `order` (the iteration order of the `HashMap` of filters) -/
def groupOps {γ : Type} (en : List Bool) (keys : List (Option Nat)) (gen : Nat → Nat → γ) (order : List Nat) :
    Option (List (Option γ)) :=
  order.foldlM (fun ops k => groupRound en (groupFilter en keys k) (gen k) ops) ((devices en).map fun _ => none)

end Autd3.ParPack
