import Autd3.Model.PbCodecF32
import Autd3.Gen.DriverConsts
import Autd3.Gen.Layout
/-!
# Rejection paths of the driver (C05)

Size-level model of what `Sender::send` does with a datagram, for one device:

* `Datagram::operation_generator`                      ↦ `Dg1.generate` / `Dg.generate`
  (`datagram/stm/{foci,gain}/mod.rs`, `autd3-derive/src/modulation.rs`, `autd3-core/src/datagram/tuple.rs`)
* `STMConfig::into_sampling_config`                    ↦ `StmCfg.intoSamplingConfig`
* `SamplingConfig::division` (only *whether* it fails) ↦ `SCfg.validate`
* `STMFocus::create` / `to_fixed_num`                  ↦ `createFocus` / `toFixedNum` (exact binary32)
* every `Operation::pack` that can refuse              ↦ `Op.pack` (sizes and errors only, no payload bytes)
* `OperationHandler::pack_op2`                         ↦ `packOp2`
* `Sender::send_impl` (pack → link.send → is_done?)    ↦ `sendLoop`, `send`

The answer of the model is `(result, frames handed to the link before the result)`.  Panics of the
Rust code (remainder / division by zero, `usize` underflow, `send as u8 - 1`) are explicit
`Res.panic` values.  Floats travel as IEEE-754 binary32 bit patterns (`Nat < 2^32`).
The payload *bytes* are modelled in `Model/Wire.lean`; here only the control flow that decides
"refuse / how many frames went out first" is mirrored, in the order the Rust code checks things.
-/
namespace Autd3.Reject
open Autd3.PbCodec
open Autd3.Gen.Drv
open Autd3.Gen

/-- `AUTDDriverError` variants reachable on the rejection paths (payload values dropped);
`sc*` are `AUTDDriverError::SamplingConfig(SamplingConfigError::*)`. -/
inductive ErrKind where
  | modulationSizeOutOfRange
  | invalidSilencerCompletionTime
  | silencerCompletionTimeOutOfRange
  | scFreqOutOfRangeF
  | scFreqInvalidF
  | scPeriodOutOfRange
  | scPeriodInvalid
  | stmPeriodInvalid
  | fociStmTotalSizeOutOfRange
  | fociStmNumFociOutOfRange
  | fociStmPointOutOfRange
  | gainStmSizeOutOfRange
  | invalidTransitionMode
deriving Repr, DecidableEq, Inhabited

/-- `Result<α, AUTDDriverError>` plus "the Rust code panics here" -/
inductive Res (α : Type) where
  | ok (a : α)
  | err (k : ErrKind)
  | panic (site : String)
deriving Repr, DecidableEq

def Res.bind {α β : Type} (r : Res α) (f : α → Res β) : Res β :=
  match r with
  | .ok a => f a
  | .err k => .err k
  | .panic s => .panic s

instance : Monad Res where
  pure := .ok
  bind := Res.bind

def Res.isOk {α : Type} : Res α → Bool
  | .ok _ => true
  | _ => false

def Res.isPanic {α : Type} : Res α → Bool
  | .panic _ => true
  | _ => false

-- ------------------------------------------------------------------------------------------------
-- constants (tied to the crates by the `consts` line of the `reject` stream)

/-- `ULTRASOUND_FREQ.hz()` -/
def ULTRASOUND_FREQ : Nat := 40000
/-- `ULTRASOUND_PERIOD.as_nanos()` -/
def ULTRASOUND_PERIOD_NS : Nat := 25000
/-- `FOCI_STM_FIXED_NUM_UNIT = 0.025 * mm` as binary32 -/
def FIXED_NUM_UNIT : Nat := 0x3ccccccd
/-- `size_of::<SilencerFixedCompletionTime>()` (tag, flag, two u16) -/
def SilencerFixedCompletionTime_size : Nat := 6
/-- `tx.payload().len()` -/
def payloadSize : Nat := EC_OUTPUT_FRAME_SIZE - DrvLayout.Header_size

-- ------------------------------------------------------------------------------------------------
-- binary32 helpers on bit patterns

/-- `n as f32` (round to nearest, ties to even) -/
def f32OfNat (n : Nat) : Nat := if n = 0 then 0 else F32.roundPos n 1

/-- order-preserving key of a non-NaN pattern (`-0.0` and `0.0` both map to 0) -/
def f32Key (b : Nat) : Int :=
  if F32.sign b = 1 then -((b % 0x80000000 : Nat) : Int) else ((b % 0x80000000 : Nat) : Int)

/-- `a <= b` on `f32` (false when either is NaN) -/
def f32Le (a b : Nat) : Bool := !F32.isNaN a && !F32.isNaN b && decide (f32Key a ≤ f32Key b)

/-- `1e-6_f64 = EPS_NUM · 2^-72` exactly -/
def EPS_NUM : Nat := 4722366482869645

/-- `autd3_core::utils::float::is_integer(q as f64)` for a finite positive `q`:
`0.5 - (fract - 0.5).abs() < 1e-6`.  For `q ≥ 1` every intermediate is a multiple of `2^-23` below 1,
so the `f64` evaluation is exact and the test is `min(fract, 1 - fract) < 1e-6`. -/
def isIntegerF32 (q : Nat) : Bool :=
  if !F32.isFinite q then false else
  let v := F32.mant q * 2 ^ F32.eoff q        -- |q| in units of 2^-149
  let r := v % 2 ^ 149                        -- fract · 2^149
  let d := min r (2 ^ 149 - r)
  decide (d * 2 ^ 72 < EPS_NUM * 2 ^ 149)

/-- `x.round() as i32`: round half away from zero, saturating cast, NaN ↦ 0 -/
def roundToI32 (b : Nat) : Int :=
  if F32.isNaN b then 0
  else if F32.isInf b then (if F32.sign b = 1 then -2147483648 else 2147483647)
  else
    let v : Nat := F32.mant b * 2 ^ F32.eoff b      -- |x| · 2^149
    let m : Nat := (2 * v + 2 ^ 149) / 2 ^ 150      -- ⌊|x| + 1/2⌋
    if F32.sign b = 1 then (if m > 2147483648 then -2147483648 else -(m : Int))
    else (if m > 2147483647 then 2147483647 else (m : Int))

/-- `STMFocus::to_fixed_num` -/
def toFixedNum (x : Nat) : Int := roundToI32 (F32.div x FIXED_NUM_UNIT)

/-- a point as three binary32 patterns -/
abbrev P3 := Nat × Nat × Nat

/-- `STMFocus::create` (after `transform` by the identity isometry of a device at the origin, which
returns finite points unchanged and turns a point with a non-finite coordinate into NaNs) -/
def createFocus (p : P3) : Except ErrKind (Int × Int × Int) :=
  let (x, y, z) := p
  if !(F32.isFinite x && F32.isFinite y && F32.isFinite z) then .error .fociStmPointOutOfRange else
  let ix := toFixedNum x
  let iy := toFixedNum y
  let iz := toFixedNum z
  if !(FOCI_STM_FIXED_NUM_LOWER_X ≤ ix ∧ ix ≤ (FOCI_STM_FIXED_NUM_UPPER_X : Int))
      || !(FOCI_STM_FIXED_NUM_LOWER_Y ≤ iy ∧ iy ≤ (FOCI_STM_FIXED_NUM_UPPER_Y : Int))
      || !(FOCI_STM_FIXED_NUM_LOWER_Z ≤ iz ∧ iz ≤ (FOCI_STM_FIXED_NUM_UPPER_Z : Int)) then
    .error .fociStmPointOutOfRange
  else .ok (ix, iy, iz)

-- ------------------------------------------------------------------------------------------------
-- sampling configurations

/-- `autd3_core::SamplingConfig` -/
inductive SCfg where
  | division (d : Nat)            -- NonZeroU16
  | freq (bits : Nat)             -- Freq<f32>
  | period (ns : Nat)             -- Duration
  | freqNearest (bits : Nat)
  | periodNearest (ns : Nat)
deriving Repr, DecidableEq, Inhabited

/-- `40000.0_f32` -/
def FREQ_MAX : Nat := f32OfNat ULTRASOUND_FREQ
/-- `freq_max / u16::MAX as f32` -/
def FREQ_MIN : Nat := F32.div FREQ_MAX (f32OfNat 65535)

/-- does `SamplingConfig::division()` fail, and how (the division value itself is C06's business) -/
def SCfg.validate : SCfg → Except ErrKind Unit
  | .division _ => .ok ()
  | .freq f =>
    if !(f32Le FREQ_MIN f && f32Le f FREQ_MAX) then .error .scFreqOutOfRangeF
    else if !isIntegerF32 (F32.div FREQ_MAX f) then .error .scFreqInvalidF
    else .ok ()
  | .period ns =>
    if !(ULTRASOUND_PERIOD_NS ≤ ns ∧ ns ≤ 65535 * ULTRASOUND_PERIOD_NS) then .error .scPeriodOutOfRange
    else if ns % ULTRASOUND_PERIOD_NS ≠ 0 then .error .scPeriodInvalid
    else .ok ()
  | .freqNearest _ => .ok ()
  | .periodNearest _ => .ok ()

/-- `autd3_driver::datagram::STMConfig` -/
inductive StmCfg where
  | freq (bits : Nat)
  | period (ns : Nat)
  | sampling (s : SCfg)
  | freqNearest (bits : Nat)
  | periodNearest (ns : Nat)
deriving Repr, DecidableEq, Inhabited

/-- `Duration / (size as u32)`: the cast truncates, the division panics on zero -/
def durDivU32 (p size : Nat) : Res Nat :=
  let d := size % 4294967296
  if d = 0 then .panic "Duration / 0" else .ok (p / d)

/-- `STMConfig::into_sampling_config(size)` -/
def StmCfg.intoSamplingConfig (c : StmCfg) (size : Nat) : Res SCfg :=
  match c with
  | .freq f => .ok (.freq (F32.mul f (f32OfNat size)))
  | .period p =>
    if size = 0 ∨ p % size ≠ 0 then .err .stmPeriodInvalid
    else (durDivU32 p size).bind fun q => .ok (.period q)
  | .sampling s => .ok s
  | .freqNearest f => .ok (.freqNearest (F32.mul f (f32OfNat size)))
  | .periodNearest p =>
    if size = 0 then .err .stmPeriodInvalid
    else (durDivU32 p size).bind fun q => .ok (.periodNearest q)

def liftE {α : Type} : Except ErrKind α → Res α
  | .ok a => .ok a
  | .error e => .err e

-- ------------------------------------------------------------------------------------------------
-- silencer completion time

/-- the `validate` closure of `SilencerFixedCompletionTimeOp::pack` -/
def silencerSteps (ns : Nat) : Except ErrKind Nat :=
  let v := ns * ULTRASOUND_FREQ
  if v % 1000000000 ≠ 0 then .error .invalidSilencerCompletionTime else
  let v := v / 1000000000
  if v = 0 ∨ v > 65535 then .error .silencerCompletionTimeOutOfRange else .ok v

-- ------------------------------------------------------------------------------------------------
-- datagrams and operations

/-- focal points of a `FociSTM`: pattern index → focus index → point -/
abbrev Points := Nat → Nat → P3

/-- one (non-tuple) datagram, reduced to what the rejection paths look at -/
inductive Dg1 where
  /-- `Modulation` with `len` samples -/
  | modulation (len : Nat) (cfg : SCfg)
  /-- `FociSTM<n>` with `size` patterns (also `Line`/`Circle` with `n = 1`) -/
  | fociStm (n size : Nat) (cfg : StmCfg) (pts : Points)
  /-- `GainSTM` with `size` gains; `mode` 0 = PhaseIntensityFull, 1 = PhaseFull, 2 = PhaseHalf -/
  | gainStm (mode size : Nat) (cfg : StmCfg)
  /-- `Gain` wrapped in `WithSegment` with `Option<TransitionMode>` (mode byte) -/
  | gain (tr : Option Nat)
  /-- `SwapSegment::Gain(_, mode)` -/
  | swapGain (mode : Nat)
  /-- `SwapSegment::{Modulation, FociSTM, GainSTM}` -/
  | swapOther
  /-- `Silencer<FixedCompletionTime>` (nanoseconds) -/
  | silencerTime (intensity phase : Nat)
  /-- any single-frame datagram that cannot be refused by the driver (`Clear`, `Synchronize`, …) of `sz` bytes -/
  | simple (sz : Nat)

inductive Dg where
  | single (d : Dg1)
  | pair (a b : Dg1)

/-- per-device operation state -/
inductive Op where
  | mod (len sent : Nat) (done : Bool) (cfg : SCfg)
  | foci (n size sent : Nat) (cfg : SCfg) (pts : Points)
  | gstm (mode size sent : Nat) (cfg : SCfg)
  | gain (tr : Option Nat) (done : Bool)
  | swapGain (mode : Nat) (done : Bool)
  | swapOther (done : Bool)
  | silTime (intensity phase : Nat) (done : Bool)
  | simple (sz : Nat) (done : Bool)
  | null

def Op.isDone : Op → Bool
  | .mod _ _ done _ => done
  | .foci _ size sent _ _ => size == sent
  | .gstm _ size sent _ => sent == size
  | .gain _ done => done
  | .swapGain _ done => done
  | .swapOther done => done
  | .silTime _ _ done => done
  | .simple _ done => done
  | .null => true

def Op.required (numTr : Nat) : Op → Nat
  | .mod _ sent _ _ => (if sent = 0 then DrvLayout.ModulationHead_size else DrvLayout.ModulationSubseq_size) + 2
  | .foci n _ sent _ _ => (if sent = 0 then DrvLayout.FociSTMHead_size else DrvLayout.FociSTMSubseq_size) + 8 * n
  | .gstm _ _ sent _ => (if sent = 0 then DrvLayout.GainSTMHead_size else DrvLayout.GainSTMSubseq_size) + numTr * 2
  | .gain _ _ => DrvLayout.Gain_size + numTr * 2
  | .swapGain _ _ => DrvLayout.SwapSegmentT_size
  | .swapOther _ => DrvLayout.SwapSegmentTWithTransition_size
  | .silTime _ _ _ => SilencerFixedCompletionTime_size
  | .simple sz _ => sz
  | .null => 0

/-- does `STMFocus::create` refuse the point -/
def focusBad (p : P3) : Bool :=
  match createFocus p with
  | .error _ => true
  | .ok _ => false

/-- does `STMFocus::create` refuse one of the `n` foci of pattern `i` (checked in order `0, 1, …`) -/
def patternBad (pts : Points) (i : Nat) : Nat → Bool
  | 0 => false
  | j + 1 => patternBad pts i j || focusBad (pts i j)

/-- is any of the patterns `from, …, from + cnt - 1` refused (`try_for_each` stops at the first) -/
def scanBad (pts : Points) (n : Nat) (from_ : Nat) : Nat → Bool
  | 0 => false
  | cnt + 1 => patternBad pts from_ n || scanBad pts n (from_ + 1) cnt

/-- `Operation::pack(device, tx)` with `tx.len() = avail`: new state and reported size -/
def Op.pack (numTr : Nat) (avail : Nat) : Op → Res (Op × Nat)
  | .null => .ok (.null, 0)
  | .simple sz _ => .ok (.simple sz true, sz)
  | .swapOther _ => .ok (.swapOther true, DrvLayout.SwapSegmentTWithTransition_size)
  | .swapGain mode _ =>
    if mode ≠ TRANSITION_MODE_IMMEDIATE then .err .invalidTransitionMode
    else .ok (.swapGain mode true, DrvLayout.SwapSegmentT_size)
  | .silTime i p _ =>
    match silencerSteps i with
    | .error e => .err e
    | .ok _ =>
      match silencerSteps p with
      | .error e => .err e
      | .ok _ => .ok (.silTime i p true, SilencerFixedCompletionTime_size)
  | .gain tr _ =>
    match tr with
    | some m =>
      if m ≠ TRANSITION_MODE_IMMEDIATE then .err .invalidTransitionMode
      else if avail < DrvLayout.Gain_size then .panic "gain: tx[size_of::<Gain>()..]"
      else .ok (.gain tr true, DrvLayout.Gain_size + numTr * 2)
    | none =>
      if avail < DrvLayout.Gain_size then .panic "gain: tx[size_of::<Gain>()..]"
      else .ok (.gain tr true, DrvLayout.Gain_size + numTr * 2)
  | .mod len sent done cfg =>
    if len < MOD_BUF_SIZE_MIN ∨ len > MOD_BUF_SIZE_MAX then .err .modulationSizeOutOfRange else
    let isFirst := sent = 0
    let hoff := if isFirst then DrvLayout.ModulationHead_size else DrvLayout.ModulationSubseq_size
    if avail < hoff then .panic "modulation: tx.len() - offset" else
    let maxMod := if isFirst then min (avail - hoff) 254 else avail - hoff
    let sendNum := min (len - sent) maxMod
    let sent' := sent + sendNum
    let done' := done || (len == sent')
    let size := hoff + ((sendNum + 1) / 2) * 2
    if isFirst then
      match cfg.validate with          -- `freq_div: self.config.division()?`
      | .error e => .err e
      | .ok _ => .ok (.mod len sent' done' cfg, size)
    else .ok (.mod len sent' done' cfg, size)
  | .foci n size sent cfg pts =>
    if n = 0 ∨ n > FOCI_STM_FOCI_NUM_MAX then .err .fociStmNumFociOutOfRange else
    let total := size * n
    if total < STM_BUF_SIZE_MIN ∨ total > FOCI_STM_BUF_SIZE_MAX then .err .fociStmTotalSizeOutOfRange else
    let isFirst := sent = 0
    let hoff := if isFirst then DrvLayout.FociSTMHead_size else DrvLayout.FociSTMSubseq_size
    if avail < hoff then .panic "foci: tx.len() - offset" else
    let maxSend := (avail - hoff) / (8 * n)
    let sendNum := min (size - sent) maxSend
    if scanBad pts n sent sendNum then .err .fociStmPointOutOfRange else
    let sent' := sent + sendNum
    if isFirst then
      match cfg.validate with
      | .error e => .err e
      | .ok _ => .ok (.foci n size sent' cfg pts, DrvLayout.FociSTMHead_size + 8 * sendNum * n)
    else .ok (.foci n size sent' cfg pts, DrvLayout.FociSTMSubseq_size + 8 * sendNum * n)
  | .gstm mode size sent cfg =>
    if size < STM_BUF_SIZE_MIN ∨ size > GAIN_STM_BUF_SIZE_MAX then .err .gainStmSizeOutOfRange else
    let isFirst := sent = 0
    let hoff := if isFirst then DrvLayout.GainSTMHead_size else DrvLayout.GainSTMSubseq_size
    if avail < hoff then .panic "gainstm: tx[offset..]" else
    let perFrame := if mode = 0 then 1 else if mode = 1 then 2 else 4
    let send := min perFrame (size - sent)
    if send = 0 then .panic "gainstm: send as u8 - 1" else
    let sent' := sent + send
    if isFirst then
      match cfg.validate with
      | .error e => .err e
      | .ok _ => .ok (.gstm mode size sent' cfg, hoff + numTr * 2)
    else .ok (.gstm mode size sent' cfg, hoff + numTr * 2)

/-- `OperationHandler::pack_op2` for one device -/
def packOp2 (numTr : Nat) (o1 o2 : Op) : Res (Op × Op) :=
  match o1.isDone, o2.isDone with
  | true, true => .ok (o1, o2)
  | true, false => (o2.pack numTr payloadSize).bind fun (o2', _) => .ok (o1, o2')
  | false, true => (o1.pack numTr payloadSize).bind fun (o1', _) => .ok (o1', o2)
  | false, false =>
    (o1.pack numTr payloadSize).bind fun (o1', s1) =>
      if payloadSize < s1 then .panic "pack_op2: payload.len() - op1_size"
      else if payloadSize - s1 ≥ o2.required numTr then
        (o2.pack numTr (payloadSize - s1)).bind fun (o2', _) => .ok (o1', o2')
      else .ok (o1', o2)

/-- `Sender::send_impl`: pack, hand the frame to the link, stop when every operation is done.
Result and the number of frames the link received. -/
def sendLoop (numTr : Nat) : Nat → Op → Op → Nat → Res Unit × Nat
  | 0, _, _, frames => (.panic "model: out of fuel", frames)
  | fuel + 1, o1, o2, frames =>
    match packOp2 numTr o1 o2 with
    | .err e => (.err e, frames)
    | .panic s => (.panic s, frames)
    | .ok (o1', o2') =>
      if o1'.isDone && o2'.isDone then (.ok (), frames + 1)
      else sendLoop numTr fuel o1' o2' (frames + 1)

-- ------------------------------------------------------------------------------------------------
-- Datagram::operation_generator

/-- `operation_generator` of one datagram followed by `OperationGenerator::generate` -/
def Dg1.generate : Dg1 → Res Op
  | .modulation len cfg => .ok (.mod len 0 false cfg)
  | .fociStm n size cfg pts =>
    if n = 0 ∨ n > FOCI_STM_FOCI_NUM_MAX then .err .fociStmNumFociOutOfRange else
    let total := size * n
    if total < STM_BUF_SIZE_MIN ∨ total > FOCI_STM_BUF_SIZE_MAX then .err .fociStmTotalSizeOutOfRange else
    (cfg.intoSamplingConfig size).bind fun sc =>
      match sc.validate with
      | .error e => .err e
      | .ok _ => .ok (.foci n size 0 sc pts)
  | .gainStm mode size cfg =>
    if size < STM_BUF_SIZE_MIN ∨ size > GAIN_STM_BUF_SIZE_MAX then .err .gainStmSizeOutOfRange else
    (cfg.intoSamplingConfig size).bind fun sc =>
      match sc.validate with
      | .error e => .err e
      | .ok _ => .ok (.gstm mode size 0 sc)
  | .gain tr => .ok (.gain tr false)
  | .swapGain mode => .ok (.swapGain mode false)
  | .swapOther => .ok (.swapOther false)
  | .silencerTime i p => .ok (.silTime i p false)
  | .simple sz => .ok (.simple sz false)

/-- a single datagram has `O2 = NullOp`; the tuple impl evaluates both members' generators and then
prefers the first member's error -/
def Dg.generate : Dg → Res (Op × Op)
  | .single d => d.generate.bind fun o => .ok (o, .null)
  | .pair a b =>
    match a.generate, b.generate with
    | .panic s, _ => .panic s
    | _, .panic s => .panic s
    | .err e, _ => .err e
    | _, .err e => .err e
    | .ok oa, .ok ob => .ok (oa, ob)

/-- upper bound on the number of frames an operation still needs -/
def Op.work : Op → Nat
  | .mod len sent _ _ => len - sent + 1
  | .foci _ size sent _ _ => size - sent + 1
  | .gstm _ size sent _ => size - sent + 1
  | .null => 0
  | _ => 1

/-- `Sender::send(d)`: the result, and how many frames reached the link before it -/
def send (numTr : Nat) (d : Dg) : Res Unit × Nat :=
  match d.generate with
  | .err e => (.err e, 0)
  | .panic s => (.panic s, 0)
  | .ok (o1, o2) => sendLoop numTr (o1.work + o2.work + 1) o1 o2 0

/-- `Sender::send(d)` under an enable mask. `OperationHandler::generate` builds operations for the enabled
devices only and `OperationHandler::pack` packs for them only; every enabled device gets the same operations, so
with at least one enabled device the serial packer behaves as in `send`. With *no* enabled device the generator is
still built (its errors are reported, nothing sent), the operation list is empty, `pack` does nothing, the tx
buffer is handed to the link once as it is, `wait_msg_processed` has nobody to wait for and `is_done([])` holds:
`Ok` after one frame, whatever pack-time validation would have said. -/
def sendMasked (numTr : Nat) (anyEnabled : Bool) (d : Dg) : Res Unit × Nat :=
  if anyEnabled then send numTr d
  else match d.generate with
    | .err e => (.err e, 0)
    | .panic s => (.panic s, 0)
    | .ok _ => (.ok (), 1)

end Autd3.Reject
