/-!
# `Ctl` — the controller's send loop over a scripted link  (C04, C11)

Mirror of
* `autd3/src/controller/sender/mod.rs`  (`Sender::send`, `send_impl`, `send_receive`, `wait_msg_processed`)
* `autd3/src/controller/mod.rs`         (`open_with_option`/`open_impl`, `close_impl`, `Drop`, `fetch_firminfo`,
                                          `firmware_version`, `fpga_state`)
* `autd3-driver/src/firmware/cpu/mod.rs` (`check_if_msg_is_processed`, `check_firmware_err`)
* `autd3-driver/src/error.rs`            (`AUTDDriverError::firmware_err`)
* `autd3-driver/src/firmware/operation/mod.rs` (`OperationHandler::pack`/`pack_op`: the message-id rule, `is_done`)
* `autd3-firmware-emulator/src/cpu/emulator.rs` (`ecat_recv`: the duplicate-id check)

The asynchronous copy (`autd3/src/async/controller/**`) is the same text modulo `async`/`.await`
(`Props/C11.lean` proves that on the token level); the only behavioural difference is `Drop`,
which is `dropAsync` below.

The other party is a **script**: what the link answers to each call, and — because the code reads
the wall clock — for every poll the boolean `start.elapsed() > timeout` (`late`).  Everything the
link is asked is recorded as a `Call` trace; the correspondence stream compares result and trace
with what a scripted `Link`/`AsyncLink` saw from the real controller.

An *operation* is abstracted to the number of frames it still needs (`ops : List Nat`, one entry per
**enabled** device, as built by `OperationHandler::generate` from `geometry.devices()`): that is all
`send_impl` looks at (`pack` consumes one, `is_done` asks for zero).

`Device::enable` is part of the state (`St.enable`, one flag per device, in device order): `pack`
skips disabled devices (their `TxMessage` — and so their message id — stays as it is),
`wait_msg_processed` waits for enabled devices only (`!dev.enable || processed`) and scans only
their acknowledgements for firmware errors, `firmware_version` lists enabled devices only,
`close_impl` enables every device before it sends.  The link still sees and fills one slot per
device, enabled or not.
No imports: this file is linked into `autd3model`.
-/
namespace Autd3.Ctl

/-- `MSG_ID_MAX` (`firmware/cpu/mod.rs`) -/
abbrev MSG_ID_MAX : Nat := 0x7F

/-- the part of `AUTDDriverError` / `AUTDError` the send path can produce -/
inductive Err where
  | linkClosed
  | confirmResponseFailed
  | link (msg : String)
  | notSupportedTag
  | invalidMessageID
  | invalidInfoType
  | invalidGainSTMMode
  | invalidSegmentTransition
  | missTransitionTime
  | invalidSilencerSettings
  | invalidTransitionMode
  | unknownFirmwareError (ack : Nat)
  /-- `D::Error` from `operation_generator` (before anything touches the link) -/
  | generator
  /-- `AUTDError::ReadFirmwareVersionFailed(check_if_msg_is_processed(..))` -/
  | readFirmwareVersionFailed (processed : List Bool)
  deriving DecidableEq, Repr, Inhabited

/-- `AUTDDriverError::firmware_err` -/
def firmwareErr (ack : Nat) : Err :=
  if ack = 0x80 then .notSupportedTag
  else if ack = 0x81 then .invalidMessageID
  else if ack = 0x84 then .invalidInfoType
  else if ack = 0x85 then .invalidGainSTMMode
  else if ack = 0x88 then .invalidSegmentTransition
  else if ack = 0x8B then .missTransitionTime
  else if ack = 0x8E then .invalidSilencerSettings
  else if ack = 0x8F then .invalidTransitionMode
  else .unknownFirmwareError ack

/-- result of a call into the controller.  `stuck` is not a Rust value: the script ran out while the
real loop would still be polling / sending (the theorems show when that cannot happen). -/
inductive Res where
  | ok
  | err (e : Err)
  | stuck
  deriving DecidableEq, Repr, Inhabited

/-- `RxMessage` -/
structure Rx where
  data : Nat
  ack : Nat
  deriving DecidableEq, Repr, Inhabited

/-- what the model keeps of a `TxMessage`: `header.msg_id` and the tag byte of slot 1 -/
structure Tx where
  msgId : Nat
  tag : Nat
  deriving DecidableEq, Repr, Inhabited

/-- `Controller { geometry, tx_buf, rx_buf }` — all persist across sends; of the geometry only
`Device::enable` (per device, in order) matters here -/
structure St where
  tx : List Tx
  rx : List Rx
  enable : List Bool
  deriving DecidableEq, Repr, Inhabited

/-- everything the link is asked, with its answer -/
inductive Call where
  | open (ok : Bool)
  | close (ok : Bool)
  | update (ok : Bool)
  | isOpen (b : Bool)
  /-- `link.send(tx)`: the frame as the link sees it, and whether it answered `Ok` -/
  | send (tx : List Tx) (ok : Bool)
  /-- `link.receive(rx)`: `none` = `Err`, `some rx` = the buffer contents afterwards -/
  | recv (rx : Option (List Rx))
  deriving DecidableEq, Repr, Inhabited

/-! ## the script -/

/-- one turn of the `wait_msg_processed` loop -/
structure Poll where
  /-- answer of `link.is_open()` at the top of the loop -/
  isOpen : Bool
  /-- answer of `link.receive`: `none` = `Err`, `some rx` = what the link writes (per device) -/
  recv : Option (List Rx)
  /-- `start.elapsed() > timeout`, evaluated after this poll -/
  late : Bool
  deriving DecidableEq, Repr, Inhabited

/-- one turn of the `send_impl` loop -/
structure FrameScript where
  /-- `link.is_open()` in `send_receive` -/
  isOpen : Bool
  /-- `link.send(tx)` answers `Ok` -/
  sendOk : Bool
  polls : List Poll
  deriving DecidableEq, Repr, Inhabited

/-- the link's behaviour during one `send_impl`; a frame's script may depend on the frame -/
structure SendScript where
  updateOk : Bool
  frames : List (List Tx → FrameScript)
  deriving Inhabited

/-! ## `firmware/cpu/mod.rs` -/

/-- `check_firmware_err` -/
def checkFirmwareErr (r : Rx) : Except Err Unit :=
  if r.ack &&& 0x80 ≠ 0 then .error (firmwareErr r.ack) else .ok ()

/-- `check_if_msg_is_processed` (a `zip`: stops at the shorter side) -/
def checkIfMsgIsProcessed : List Tx → List Rx → List Bool
  | t :: ts, r :: rs => (t.msgId == r.ack) :: checkIfMsgIsProcessed ts rs
  | _, _ => []

/-- `geometry.iter().zip(rx.iter()).filter(|(dev, _)| dev.enable).try_fold((), |_, (_, r)| check_firmware_err(r))`:
the first **enabled** device (in order) whose acknowledgement has the error bit -/
def firstFirmwareErr : List Bool → List Rx → Option Err
  | e :: es, r :: rs =>
    if e then
      match checkFirmwareErr r with
      | .error x => some x
      | .ok () => firstFirmwareErr es rs
    else firstFirmwareErr es rs
  | _, _ => none

/-- `geometry.iter().zip(check_if_msg_is_processed(tx, rx)).all(|(dev, processed)| !dev.enable || processed)` -/
def allProcessed (en : List Bool) (processed : List Bool) : Bool :=
  (en.zip processed).all fun dp => !dp.1 || dp.2

/-! ## `Geometry` -/

/-- the entries of a per-device list that belong to enabled devices, in order
(`geometry.iter().zip(xs).filter(|(dev, _)| dev.enable)`; with `xs` the devices themselves this is
`Geometry::devices()`) -/
def masked {α : Type} : List Bool → List α → List α
  | true :: es, x :: xs => x :: masked es xs
  | false :: es, _ :: xs => masked es xs
  | _, _ => []

/-! ## `OperationHandler` -/

/-- `pack_op2`/`pack_op` for one device: a finished operation leaves the frame alone, otherwise
`msg_id += 1; msg_id &= MSG_ID_MAX` and one frame of the operation is consumed -/
def packOp (tag : Nat) (t : Tx) (rem : Nat) : Tx × Nat :=
  if rem = 0 then (t, 0)
  else ({ msgId := (t.msgId + 1) &&& MSG_ID_MAX, tag := tag }, rem - 1)

/-- `OperationHandler::generate`: one operation per **enabled** device
(`geometry.devices().map(|dev| Some(generator.generate(dev)))`); `perDev` is what the generator
answers for each device index -/
def generate (en : List Bool) (perDev : List Nat) : List Nat := masked en perDev

/-- `OperationHandler::pack`:
`geometry.iter().zip(tx.iter_mut()).filter(|(dev, _)| dev.enable).zip(operations.iter_mut())` —
a disabled device's frame is skipped (and consumes no operation); the walk ends when the devices, the
frames or the operations run out -/
def pack (tag : Nat) : List Bool → List Tx → List Nat → List Tx × List Nat
  | false :: es, t :: ts, ops =>
    let q := pack tag es ts ops
    (t :: q.1, q.2)
  | true :: es, t :: ts, r :: rs =>
    let p := packOp tag t r
    let q := pack tag es ts rs
    (p.1 :: q.1, p.2 :: q.2)
  | _, ts, ops => (ts, ops)

/-- `OperationHandler::is_done` -/
def isDone (ops : List Nat) : Bool := ops.all (· == 0)

/-! ## `Sender` -/

/-- the link writes into a buffer of fixed length: extra entries are dropped, missing ones keep
their old contents -/
def recvInto : List Rx → List Rx → List Rx
  | [], _ => []
  | o :: os, [] => o :: os
  | _ :: os, n :: ns => n :: recvInto os ns

/-- the tail of `wait_msg_processed` after `break` -/
def afterLoop (tz : Bool) (en : List Bool) (rx : List Rx) : Res :=
  match firstFirmwareErr en rx with
  | some e => .err e
  | none => if tz then .ok else .err .confirmResponseFailed

/-- `wait_msg_processed`; `tz` is `timeout == Duration::ZERO`, `en` the devices' `enable` flags -/
def waitMsgProcessed (tz : Bool) (en : List Bool) (tx : List Tx) : List Rx → List Poll → Res × List Rx × List Call
  | rx, [] => (.stuck, rx, [])
  | rx, p :: ps =>
    if !p.isOpen then (.err .linkClosed, rx, [.isOpen false])
    else
      match p.recv with
      | none => (.err (.link "receive"), rx, [.isOpen true, .recv none])
      | some new =>
        let rx' := recvInto rx new
        if allProcessed en (checkIfMsgIsProcessed tx rx') then (.ok, rx', [.isOpen true, .recv (some rx')])
        else if p.late then (afterLoop tz en rx', rx', [.isOpen true, .recv (some rx')])
        else
          let w := waitMsgProcessed tz en tx rx' ps
          (w.1, w.2.1, .isOpen true :: .recv (some rx') :: w.2.2)

/-- `send_receive` -/
def sendReceive (tz : Bool) (st : St) (f : FrameScript) : Res × St × List Call :=
  if !f.isOpen then (.err .linkClosed, st, [.isOpen false])
  else if !f.sendOk then (.err (.link "send"), st, [.isOpen true, .send st.tx false])
  else
    let w := waitMsgProcessed tz st.enable st.tx st.rx f.polls
    (w.1, { st with rx := w.2.1 }, .isOpen true :: .send st.tx true :: w.2.2)

/-- the loop of `send_impl`: pack → send_receive → is_done.  One frame script is consumed per turn. -/
def sendLoop (tz : Bool) (tag : Nat) : St → List Nat → List (List Tx → FrameScript) → Res × St × List Call
  | st, _, [] => (.stuck, st, [])
  | st, ops, f :: fs =>
    let p := pack tag st.enable st.tx ops
    let st1 : St := { st with tx := p.1 }
    let s := sendReceive tz st1 (f p.1)
    match s.1 with
    | .ok =>
      if isDone p.2 then (.ok, s.2.1, s.2.2)
      else
        let l := sendLoop tz tag s.2.1 p.2 fs
        (l.1, l.2.1, s.2.2 ++ l.2.2)
    | r => (r, s.2.1, s.2.2)

/-- `send_impl` -/
def sendImpl (tz : Bool) (tag : Nat) (st : St) (ops : List Nat) (sc : SendScript) : Res × St × List Call :=
  if !sc.updateOk then (.err (.link "update"), st, [.update false])
  else
    let l := sendLoop tz tag st ops sc.frames
    (l.1, l.2.1, .update true :: l.2.2)

/-- what `Sender::send` needs to know of a datagram: the frames the operation generated for device
`i` would take (`frames[i]`; asked for enabled devices only), the tag of its first slot,
`option().timeout` in ms, and whether `operation_generator` fails -/
structure Datagram where
  frames : List Nat
  tag : Nat
  timeoutMs : Nat := 200
  genFail : Bool := false
  deriving Repr, Inhabited

/-- `Sender::send`: `timeout = option.timeout.unwrap_or(datagram.option().timeout)`; the operations
are generated for the enabled devices -/
def send (optTimeoutMs : Option Nat) (d : Datagram) (st : St) (sc : SendScript) : Res × St × List Call :=
  let timeout := optTimeoutMs.getD d.timeoutMs
  if d.genFail then (.err .generator, st, [])
  else sendImpl (timeout == 0) d.tag st (generate st.enable d.frames) sc

/-! ## `Controller` -/

def TAG_CLEAR : Nat := 0x01
def TAG_FIRM_INFO : Nat := 0x03
def TAG_MODULATION : Nat := 0x10
def TAG_SILENCER : Nat := 0x21
def TAG_FORCE_FAN : Nat := 0x60

/-- a datagram that takes one frame on each of `n` devices, default option -/
def oneFrame (n tag : Nat) : Datagram := { frames := List.replicate n 1, tag := tag }

structure CloseScript where
  isOpen : Bool
  silencer : SendScript
  staticNull : SendScript
  clear : SendScript
  closeOk : Bool
  deriving Inhabited

/-- `[a, b, c, d].into_iter().try_fold((), |_, x| x)`: the first non-`Ok` -/
def firstFailure : List Res → Res
  | [] => .ok
  | .ok :: rs => firstFailure rs
  | r :: _ => r

/-- `close_impl` (default `SenderOption`: the datagrams' own timeouts).  If the link is open every
device is enabled first (`geometry.iter_mut().for_each(|dev| dev.enable = true)`).  All three sends
and `link.close()` are evaluated before the results are folded. -/
def closeImpl (st0 : St) (c : CloseScript) : Res × St × List Call :=
  if !c.isOpen then (.ok, st0, [.isOpen false])
  else
    let st : St := { st0 with enable := st0.enable.map fun _ => true }
    let n := st.tx.length
    let a := send none (oneFrame n TAG_SILENCER) st c.silencer
    let b := send none (oneFrame n TAG_MODULATION) a.2.1 c.staticNull
    let d := send none (oneFrame n TAG_CLEAR) b.2.1 c.clear
    -- `Ok(self.link.close()?)` sits inside the array literal: a failing `close` leaves the function
    -- at once with the link's error, whatever the three sends returned
    let r : Res := if c.closeOk then firstFailure [a.1, b.1, d.1] else .err (.link "close")
    (r, d.2.1,
      .isOpen true :: (a.2.2 ++ b.2.2 ++ d.2.2 ++ [.close c.closeOk]))

/-- what the link answers when a controller is dropped: `Drop` asks `is_open`, and (sync copy) if the
answer is yes calls `close_impl`, which asks again -/
structure DropScript where
  isOpen : Bool
  close : CloseScript
  deriving Inhabited

/-- `impl Drop for Controller` (sync): closes if the link still says open -/
def dropSync (st : St) (d : DropScript) : List Call :=
  if !d.isOpen then [.isOpen false] else .isOpen true :: (closeImpl st d.close).2.2

/-- `impl Drop for r#async::Controller` on a current-thread runtime: asks, then does nothing -/
def dropAsync (d : DropScript) : List Call := [.isOpen d.isOpen]

structure OpenScript where
  openOk : Bool
  forceFan : SendScript
  clearSync : SendScript
  /-- consulted only when `open_impl` fails and the half-built controller is dropped -/
  drop : DropScript
  deriving Inhabited

/-- `Controller::open_with_option` + `open_impl`: a fresh geometry (every device enabled), zeroed
buffers, a throw-away `ForceFan` whose result is ignored, then `(Clear, Synchronize)`.  On failure the
controller is dropped. -/
def openWithOption (isAsync : Bool) (n : Nat) (optTimeoutMs : Option Nat) (o : OpenScript) :
    Res × Option St × List Call :=
  if !o.openOk then (.err (.link "open"), none, [.open false])
  else
    let st0 : St := { tx := List.replicate n ⟨0, 0⟩, rx := List.replicate n ⟨0, 0⟩, enable := List.replicate n true }
    let a := send optTimeoutMs (oneFrame n TAG_FORCE_FAN) st0 o.forceFan
    let b := send optTimeoutMs (oneFrame n TAG_CLEAR) a.2.1 o.clearSync
    match b.1 with
    | .ok => (.ok, some b.2.1, .open true :: (a.2.2 ++ b.2.2))
    | r =>
      (r, none, .open true :: (a.2.2 ++ b.2.2 ++
        (if isAsync then dropAsync o.drop else dropSync b.2.1 o.drop)))

/-- `Controller::close(self)`: `close_impl`, then `self` is dropped (`Drop` asks `is_open` again;
`dropOpen` is the link's answer, `false` after a close) -/
def close (isAsync : Bool) (st : St) (c : CloseScript) (drop : DropScript) : Res × List Call :=
  let r := closeImpl st c
  (r.1, r.2.2 ++ (if isAsync then dropAsync drop else dropSync r.2.1 drop))

/-! ### `Drop` of the asynchronous copy, by tokio runtime flavour (additive; C11)

`impl<L: AsyncLink> Drop for r#async::Controller<L>` (`autd3/src/async/controller/mod.rs`):
```
if !self.link.is_open() { return; }
match Handle::current().runtime_flavor() {
    CurrentThread => {}
    MultiThread => block_in_place(|| Handle::current().block_on(async { let _ = self.close_impl().await; })),
```
`dropAsync` above is the `CurrentThread` arm; on a multi-thread runtime the async copy closes like the
sync one. -/

/-- `tokio::runtime::RuntimeFlavor` (the two arms `Drop` implements) -/
inductive Flavor where
  | currentThread
  | multiThread
  deriving DecidableEq, Repr, Inhabited

/-- `impl Drop for r#async::Controller` on a runtime of flavour `f` -/
def dropAsyncOn (f : Flavor) (st : St) (d : DropScript) : List Call :=
  if !d.isOpen then [.isOpen false]
  else
    match f with
    | .currentThread => [.isOpen true]
    | .multiThread => .isOpen true :: (closeImpl st d.close).2.2

/-- which controller is dropped: the sync copy (`none`) or the async copy on a runtime of the given flavour -/
def dropOn (fl : Option Flavor) (st : St) (d : DropScript) : List Call :=
  match fl with
  | none => dropSync st d
  | some f => dropAsyncOn f st d

/-- `openWithOption` with the runtime flavour made explicit (`none` = sync copy) -/
def openWithOptionOn (fl : Option Flavor) (n : Nat) (optTimeoutMs : Option Nat) (o : OpenScript) :
    Res × Option St × List Call :=
  if !o.openOk then (.err (.link "open"), none, [.open false])
  else
    let st0 : St := { tx := List.replicate n ⟨0, 0⟩, rx := List.replicate n ⟨0, 0⟩, enable := List.replicate n true }
    let a := send optTimeoutMs (oneFrame n TAG_FORCE_FAN) st0 o.forceFan
    let b := send optTimeoutMs (oneFrame n TAG_CLEAR) a.2.1 o.clearSync
    match b.1 with
    | .ok => (.ok, some b.2.1, .open true :: (a.2.2 ++ b.2.2))
    | r => (r, none, .open true :: (a.2.2 ++ b.2.2 ++ dropOn fl b.2.1 o.drop))

/-- `close` with the runtime flavour made explicit (`none` = sync copy) -/
def closeOn (fl : Option Flavor) (st : St) (c : CloseScript) (drop : DropScript) : Res × List Call :=
  let r := closeImpl st c
  (r.1, r.2.2 ++ dropOn fl r.2.1 drop)

/-- `fetch_firminfo`: on failure the error is replaced by the per-device processed flags computed
from the buffers as they are — for **every** device, enabled or not (`check_if_msg_is_processed`
is not filtered); on success the data bytes of every device -/
def fetchFirminfo (st : St) (sc : SendScript) : Except Res (List Nat) × St × List Call :=
  let s := send none (oneFrame st.tx.length TAG_FIRM_INFO) st sc
  match s.1 with
  | .ok => (.ok (s.2.1.rx.map (·.data)), s.2.1, s.2.2)
  | .stuck => (.error .stuck, s.2.1, s.2.2)
  | .err _ => (.error (.err (.readFirmwareVersionFailed (checkIfMsgIsProcessed s.2.1.tx s.2.1.rx))), s.2.1, s.2.2)

/-- `firmware_version`: six `fetch_firminfo`s, stopping at the first failure; the answer is, per
**enabled** device (`geometry.devices()`), `(idx, [cpu_major, cpu_minor, fpga_major, fpga_minor,
fpga_functions])` -/
def firmwareVersion (st : St) : List SendScript → Except Res (List (Nat × List Nat)) × St × List Call
  | [s1, s2, s3, s4, s5, s6] =>
    let a := fetchFirminfo st s1
    match a.1 with
    | .error r => (.error r, a.2.1, a.2.2)
    | .ok cpuMajor =>
    let b := fetchFirminfo a.2.1 s2
    match b.1 with
    | .error r => (.error r, b.2.1, a.2.2 ++ b.2.2)
    | .ok cpuMinor =>
    let c := fetchFirminfo b.2.1 s3
    match c.1 with
    | .error r => (.error r, c.2.1, a.2.2 ++ b.2.2 ++ c.2.2)
    | .ok fpgaMajor =>
    let d := fetchFirminfo c.2.1 s4
    match d.1 with
    | .error r => (.error r, d.2.1, a.2.2 ++ b.2.2 ++ c.2.2 ++ d.2.2)
    | .ok fpgaMinor =>
    let e := fetchFirminfo d.2.1 s5
    match e.1 with
    | .error r => (.error r, e.2.1, a.2.2 ++ b.2.2 ++ c.2.2 ++ d.2.2 ++ e.2.2)
    | .ok fpgaFunctions =>
    let f := fetchFirminfo e.2.1 s6
    match f.1 with
    | .error r => (.error r, f.2.1, a.2.2 ++ b.2.2 ++ c.2.2 ++ d.2.2 ++ e.2.2 ++ f.2.2)
    | .ok _ =>
      let get (l : List Nat) (i : Nat) : Nat := (l[i]?).getD 0
      (.ok ((masked st.enable (List.range st.enable.length)).map fun i =>
          (i, [get cpuMajor i, get cpuMinor i, get fpgaMajor i, get fpgaMinor i, get fpgaFunctions i])),
        f.2.1, a.2.2 ++ b.2.2 ++ c.2.2 ++ d.2.2 ++ e.2.2 ++ f.2.2)
  | _ => (.error .stuck, st, [])

/-- `fpga_state`: `FPGAState::from_rx` = `Some(data)` iff bit 7 of `data` is set; every device,
enabled or not -/
def fpgaState (st : St) (isOpen : Bool) (recv : Option (List Rx)) :
    Except Err (List (Option Nat)) × St × List Call :=
  if !isOpen then (.error .linkClosed, st, [.isOpen false])
  else
    match recv with
    | none => (.error (.link "receive"), st, [.isOpen true, .recv none])
    | some new =>
      let rx := recvInto st.rx new
      (.ok (rx.map fun r => if r.data &&& 0x80 ≠ 0 then some r.data else none), { st with rx := rx },
        [.isOpen true, .recv (some rx)])

/-! ## the device's side of the message id (`CPUEmulator::ecat_recv`) -/

/-- `last_msg_id` and `ack` of a device -/
structure Dev where
  lastMsgId : Nat
  ack : Nat
  deriving DecidableEq, Repr, Inhabited

/-- `ecat_recv` on a frame with header id `msgId` whose payload handlers answer `h` (the last
handler's return value; `< 0x80` = success).  Returns the new state and whether the payload was
handed to the handlers at all. -/
def ecatRecv (d : Dev) (msgId : Nat) (h : Nat) : Dev × Bool :=
  if d.lastMsgId = msgId then (d, false)
  else if msgId &&& 0x80 ≠ 0 then ({ lastMsgId := msgId, ack := 0x81 }, false)
  else if h &&& 0x80 ≠ 0 then ({ lastMsgId := msgId, ack := h }, true)
  else ({ lastMsgId := msgId, ack := msgId }, true)

/-- a frame reaches every device (`Link::send` of a link that delivers); payload handlers succeed -/
def deliver : List Dev → List Tx → List (Dev × Bool)
  | d :: ds, t :: ts => ecatRecv d t.msgId 0 :: deliver ds ts
  | _, _ => []

/-- the behaviour of a link in front of devices `ds` during one frame: the frame is delivered, every
poll returns the devices' acknowledgements; the clock runs out after the first poll (a device
does not change its mind without a new frame, so more polls would return the same) -/
def devFrame (ds : List Dev) (tx : List Tx) : FrameScript :=
  { isOpen := true, sendOk := true,
    polls := [{ isOpen := true, recv := some ((deliver ds tx).map fun p => { data := 0, ack := p.1.ack }), late := true }] }

structure DevRun where
  res : Res
  st : St
  ds : List Dev
  /-- per device: was the payload of the (single) frame handed to the handlers? -/
  processed : List Bool
  trace : List Call

/-- `Sender::send` of a one-frame datagram through a delivering link -/
def devSend (optTimeoutMs : Option Nat) (d : Datagram) (st : St) (ds : List Dev) : DevRun :=
  let tx' := (pack d.tag st.enable st.tx (generate st.enable d.frames)).1
  let r := send optTimeoutMs d st { updateOk := true, frames := [devFrame ds] }
  let after := deliver ds tx'
  { res := r.1, st := r.2.1, ds := after.map (·.1), processed := after.map (·.2), trace := r.2.2 }

/-- `open_impl` in front of devices left in state `ds` by a previous session -/
def openOnDevices (optTimeoutMs : Option Nat) (ds : List Dev) : DevRun × DevRun :=
  let n := ds.length
  let st0 : St := { tx := List.replicate n ⟨0, 0⟩, rx := List.replicate n ⟨0, 0⟩, enable := List.replicate n true }
  let a := devSend optTimeoutMs (oneFrame n TAG_FORCE_FAN) st0 ds
  let b := devSend optTimeoutMs (oneFrame n TAG_CLEAR) a.st a.ds
  (a, b)

end Autd3.Ctl
