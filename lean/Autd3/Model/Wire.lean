import Autd3.Model.FwBasic
import Autd3.Gen.DriverConsts
/-!
Driver model: every `Operation::pack` of `autd3-driver/src/firmware/operation/*.rs` and
`OperationHandler::{pack_op, pack_op2}` (mod.rs), for one device.  A datagram is given at the
integer level (what the user supplied after the SDK's own float→integer conversions): sample bytes,
drive words (`phase | intensity << 8`), 64-bit focus records, sampling division, loop count, segment,
transition (mode byte, 64-bit value).  The tx payload is modelled statefully (622 bytes that keep
stale content between frames, exactly like the `TxMessage` buffer that is re-used by the sender).
-/
namespace Autd3.Wire
open Autd3.Fw (rd)
open Autd3.Gen.Drv
open Autd3.Gen

/-- errors returned by `pack` (the subset of `AUTDDriverError` reachable at this level) -/
inductive Err where
  | invalidTransitionMode
  | modulationSizeOutOfRange (n : Nat)
  | fociStmTotalSizeOutOfRange (n : Nat)
  | fociStmNumFociOutOfRange (n : Nat)
  | gainStmSizeOutOfRange (n : Nat)
deriving Repr, DecidableEq

/-- `Option<TransitionMode>` as (mode byte, value) -/
abbrev Tr := Option (Nat × Nat)

inductive Dg where
  | clear | sync
  | forceFan (v : Bool) | readsFpgaState (v : Bool)
  | cpuGpioOut (v : Nat) | gpioIn (flags : Nat)
  | debug (vals : Array Nat)                    -- four 64-bit `DebugValue`s
  | phaseCorr (bytes : Array Nat)               -- one byte per transducer
  | pwe (table : Array Nat)                     -- 256 16-bit entries
  | silencerSteps (i p : Nat) (strict : Bool) | silencerRate (i p : Nat)
  | gain (seg : Nat) (tr : Tr) (drives : Array Nat)
  | modulation (seg : Nat) (tr : Tr) (rep div : Nat) (samples : Array Nat)
  | fociStm (n seg : Nat) (tr : Tr) (rep div soundSpeed : Nat) (records : Array Nat)
  | gainStm (mode seg : Nat) (tr : Tr) (rep div : Nat) (patterns : Array (Array Nat))
  | swapGain (seg mode value : Nat) | swapMod (seg mode value : Nat)
  | swapFoci (seg mode value : Nat) | swapGainStm (seg mode value : Nat)
  | firmInfo (ty : Nat)
  | null
deriving Repr, Inhabited

structure Op where
  dg : Dg
  sent : Nat := 0
  done : Bool := false
deriving Repr, Inhabited

def Op.ofDg (d : Dg) : Op := { dg := d, done := match d with | .null => true | _ => false }

def put8 (b : Array Nat) (i v : Nat) : Array Nat := b.setIfInBounds i (v % 256)
def put16 (b : Array Nat) (i v : Nat) : Array Nat := put8 (put8 b i v) (i + 1) (v / 256)
def put64 (b : Array Nat) (i v : Nat) : Array Nat :=
  put16 (put16 (put16 (put16 b i v) (i + 2) (v / 65536)) (i + 4) (v / 4294967296)) (i + 6) (v / 281474976710656)
def putZeros (b : Array Nat) (i n : Nat) : Array Nat := Id.run do
  let mut b := b
  for k in [0:n] do b := put8 b (i + k) 0
  return b
def putBytes (b : Array Nat) (i : Nat) (src : Array Nat) (from_ n : Nat) : Array Nat := Id.run do
  let mut b := b
  for k in [0:n] do b := put8 b (i + k) (rd src (from_ + k))
  return b
def putWords (b : Array Nat) (i : Nat) (ws : Array Nat) (n : Nat) : Array Nat := Id.run do
  let mut b := b
  for k in [0:n] do b := put16 b (i + 2 * k) (rd ws k)
  return b

def trMode (t : Tr) : Nat := match t with | some (m, _) => m | none => TRANSITION_MODE_NONE
def trValue (t : Tr) : Nat := match t with | some (_, v) => v | none => 0

/-- `required_size` -/
def Op.required (o : Op) (numTr : Nat) : Nat :=
  match o.dg with
  | .clear => DrvLayout.Clear_size
  | .sync => DrvLayout.Sync_size
  | .forceFan _ => DrvLayout.ForceFan_size
  | .readsFpgaState _ => DrvLayout.ReadsFPGAState_size
  | .cpuGpioOut _ => DrvLayout.CpuGPIOOut_size
  | .gpioIn _ => DrvLayout.EmulateGPIOIn_size
  | .debug _ => DrvLayout.DebugSetting_size
  | .phaseCorr _ => DrvLayout.PhaseCorr_size + ((numTr + 1) / 2) * 2
  | .pwe _ => DrvLayout.Pwe_size + PWE_BUF_SIZE * 2
  | .silencerSteps .. => DrvLayout.SilencerFixedCompletionSteps_size
  | .silencerRate .. => DrvLayout.SilencerFixedUpdateRate_size
  | .gain .. => DrvLayout.Gain_size + numTr * 2
  | .modulation .. => (if o.sent = 0 then DrvLayout.ModulationHead_size else DrvLayout.ModulationSubseq_size) + 2
  | .fociStm n .. => (if o.sent = 0 then DrvLayout.FociSTMHead_size else DrvLayout.FociSTMSubseq_size) + 8 * n
  | .gainStm .. => (if o.sent = 0 then DrvLayout.GainSTMHead_size else DrvLayout.GainSTMSubseq_size) + numTr * 2
  | .swapGain .. => DrvLayout.SwapSegmentT_size
  | .swapMod .. | .swapFoci .. | .swapGainStm .. => DrvLayout.SwapSegmentTWithTransition_size
  | .firmInfo _ => DrvLayout.FirmInfo_size
  | .null => 0

def swapWithTransition (b : Array Nat) (off tag seg mode value : Nat) : Array Nat :=
  let b := putZeros b off DrvLayout.SwapSegmentTWithTransition_size
  let b := put8 b (off + DrvLayout.SwapSegmentTWithTransition_tag_off) tag
  let b := put8 b (off + DrvLayout.SwapSegmentTWithTransition_segment_off) seg
  let b := put8 b (off + DrvLayout.SwapSegmentTWithTransition_transition_mode_off) mode
  put64 b (off + DrvLayout.SwapSegmentTWithTransition_transition_value_off) value

/-- two-byte operations `{ tag, value }` -/
def tagValue (b : Array Nat) (off tag v : Nat) : Array Nat := put8 (put8 b off tag) (off + 1) v

/-- `Operation::pack` into `payload[off..]` (`avail = 622 - off` bytes).  Returns the new op state,
the payload and the size reported by the operation. -/
def Op.pack (o : Op) (numTr : Nat) (b : Array Nat) (off : Nat) : Except Err (Op × Array Nat × Nat) :=
  let avail := b.size - off
  match o.dg with
  | .null => .ok (o, b, 0)
  | .clear => .ok ({ o with done := true }, tagValue b off TAG_Clear 0, DrvLayout.Clear_size)
  | .sync => .ok ({ o with done := true }, tagValue b off TAG_Sync 0, DrvLayout.Sync_size)
  | .forceFan v => .ok ({ o with done := true }, tagValue b off TAG_ForceFan (if v then 1 else 0), DrvLayout.ForceFan_size)
  | .readsFpgaState v => .ok ({ o with done := true }, tagValue b off TAG_ReadsFPGAState (if v then 1 else 0), DrvLayout.ReadsFPGAState_size)
  | .cpuGpioOut v => .ok ({ o with done := true }, tagValue b off TAG_CpuGPIOOut v, DrvLayout.CpuGPIOOut_size)
  | .gpioIn f => .ok ({ o with done := true }, tagValue b off TAG_EmulateGPIOIn f, DrvLayout.EmulateGPIOIn_size)
  | .firmInfo ty => .ok ({ o with done := true }, tagValue b off TAG_FirmwareVersion ty, DrvLayout.FirmInfo_size)
  | .debug vals =>
    let b := putZeros b off DrvLayout.DebugSetting_value_off
    let b := put8 b off TAG_Debug
    let b := Id.run do
      let mut b := b
      for k in [0:4] do b := put64 b (off + DrvLayout.DebugSetting_value_off + 8 * k) (rd vals k)
      return b
    .ok ({ o with done := true }, b, DrvLayout.DebugSetting_size)
  | .phaseCorr bytes =>
    let b := tagValue b off TAG_PhaseCorrection 0
    -- `chunks_mut(1).zip(dev.iter())`: one byte per transducer, bounded by the space available
    let n := min numTr (avail - DrvLayout.PhaseCorr_size)
    let b := putBytes b (off + DrvLayout.PhaseCorr_size) bytes 0 n
    .ok ({ o with done := true }, b, DrvLayout.PhaseCorr_size + ((numTr + 1) / 2) * 2)
  | .pwe table =>
    let b := tagValue b off TAG_ConfigPulseWidthEncoder 0
    let n := min PWE_BUF_SIZE ((avail - DrvLayout.Pwe_size + 1) / 2)
    let b := putWords b (off + DrvLayout.Pwe_size) table n
    .ok ({ o with done := true }, b, DrvLayout.Pwe_size + PWE_BUF_SIZE * 2)
  | .silencerSteps i p strict =>
    let b := tagValue b off TAG_Silencer (if strict then SilencerControlFlags_STRICT_MODE else SilencerControlFlags_NONE)
    let b := put16 b (off + DrvLayout.SilencerFixedCompletionSteps_value_intensity_off) i
    let b := put16 b (off + DrvLayout.SilencerFixedCompletionSteps_value_phase_off) p
    .ok ({ o with done := true }, b, DrvLayout.SilencerFixedCompletionSteps_size)
  | .silencerRate i p =>
    let b := tagValue b off TAG_Silencer SilencerControlFlags_FIXED_UPDATE_RATE
    let b := put16 b (off + DrvLayout.SilencerFixedUpdateRate_value_intensity_off) i
    let b := put16 b (off + DrvLayout.SilencerFixedUpdateRate_value_phase_off) p
    .ok ({ o with done := true }, b, DrvLayout.SilencerFixedUpdateRate_size)
  | .gain seg tr drives =>
    match tr with
    | some (m, _) => if m ≠ TRANSITION_MODE_IMMEDIATE then .error .invalidTransitionMode else
      let b := put8 b (off + DrvLayout.Gain_tag_off) TAG_Gain
      let b := put8 b (off + DrvLayout.Gain_segment_off) seg
      let b := put8 b (off + DrvLayout.Gain_flag_off) GainControlFlags_UPDATE
      let b := put8 b (off + 3) 0
      let b := putWords b (off + DrvLayout.Gain_size) drives (min numTr ((avail - DrvLayout.Gain_size + 1) / 2))
      .ok ({ o with done := true }, b, DrvLayout.Gain_size + numTr * 2)
    | none =>
      let b := put8 b (off + DrvLayout.Gain_tag_off) TAG_Gain
      let b := put8 b (off + DrvLayout.Gain_segment_off) seg
      let b := put8 b (off + DrvLayout.Gain_flag_off) GainControlFlags_NONE
      let b := put8 b (off + 3) 0
      let b := putWords b (off + DrvLayout.Gain_size) drives (min numTr ((avail - DrvLayout.Gain_size + 1) / 2))
      .ok ({ o with done := true }, b, DrvLayout.Gain_size + numTr * 2)
  | .swapGain seg mode _ =>
    if mode ≠ TRANSITION_MODE_IMMEDIATE then .error .invalidTransitionMode
    else .ok ({ o with done := true }, tagValue b off TAG_GainSwapSegment seg, DrvLayout.SwapSegmentT_size)
  | .swapMod seg mode value =>
    .ok ({ o with done := true }, swapWithTransition b off TAG_ModulationSwapSegment seg mode value, DrvLayout.SwapSegmentTWithTransition_size)
  | .swapFoci seg mode value =>
    .ok ({ o with done := true }, swapWithTransition b off TAG_FociSTMSwapSegment seg mode value, DrvLayout.SwapSegmentTWithTransition_size)
  | .swapGainStm seg mode value =>
    .ok ({ o with done := true }, swapWithTransition b off TAG_GainSTMSwapSegment seg mode value, DrvLayout.SwapSegmentTWithTransition_size)
  | .modulation seg tr rep div samples =>
    -- length check before the first frame (nothing of an over-long buffer is written)
    if samples.size < MOD_BUF_SIZE_MIN ∨ samples.size > MOD_BUF_SIZE_MAX then .error (.modulationSizeOutOfRange samples.size) else
    let isFirst := o.sent = 0
    let hoff := if isFirst then DrvLayout.ModulationHead_size else DrvLayout.ModulationSubseq_size
    let maxMod := if isFirst then min (avail - hoff) 254 else avail - hoff
    let sendNum := min (samples.size - o.sent) maxMod
    let b := putBytes b (off + hoff) samples o.sent sendNum
    let sent := o.sent + sendNum
    let flag := if seg = 1 then ModulationControlFlags_SEGMENT else ModulationControlFlags_NONE
    let last := samples.size = sent
    let flag := if last then flag ||| ModulationControlFlags_END ||| (if tr.isSome then ModulationControlFlags_TRANSITION else 0) else flag
    let o := { o with sent := sent, done := o.done || last }
    if isFirst then
      let b := put8 b (off + DrvLayout.ModulationHead_tag_off) TAG_Modulation
      let b := put8 b (off + DrvLayout.ModulationHead_flag_off) (ModulationControlFlags_BEGIN ||| flag)
      let b := put8 b (off + DrvLayout.ModulationHead_size_off) sendNum
      let b := put8 b (off + DrvLayout.ModulationHead_transition_mode_off) (trMode tr)
      let b := put16 b (off + DrvLayout.ModulationHead_freq_div_off) div
      let b := put16 b (off + DrvLayout.ModulationHead_rep_off) rep
      let b := put64 b (off + DrvLayout.ModulationHead_transition_value_off) (trValue tr)
      .ok (o, b, DrvLayout.ModulationHead_size + ((sendNum + 1) / 2) * 2)
    else
      let b := put8 b (off + DrvLayout.ModulationSubseq_tag_off) TAG_Modulation
      let b := put8 b (off + DrvLayout.ModulationSubseq_flag_off) flag
      let b := put16 b (off + DrvLayout.ModulationSubseq_size_off) sendNum
      .ok (o, b, DrvLayout.ModulationSubseq_size + ((sendNum + 1) / 2) * 2)
  | .fociStm n seg tr rep div soundSpeed records =>
    if n = 0 ∨ n > FOCI_STM_FOCI_NUM_MAX then .error (.fociStmNumFociOutOfRange n) else
    let size := records.size / n
    let total := size * n
    if total < STM_BUF_SIZE_MIN ∨ total > FOCI_STM_BUF_SIZE_MAX then .error (.fociStmTotalSizeOutOfRange total) else
    let isFirst := o.sent = 0
    let hoff := if isFirst then DrvLayout.FociSTMHead_size else DrvLayout.FociSTMSubseq_size
    let maxSend := (avail - hoff) / (8 * n)
    let sendNum := min (size - o.sent) maxSend
    let b := Id.run do
      let mut b := b
      for k in [0:sendNum * n] do b := put64 b (off + hoff + 8 * k) (rd records (o.sent * n + k))
      return b
    let sent := o.sent + sendNum
    let last := size = sent
    let flag := if last then FociSTMControlFlags_END ||| (if tr.isSome then FociSTMControlFlags_TRANSITION else FociSTMControlFlags_NONE) else FociSTMControlFlags_NONE
    let o := { o with sent := sent, done := last }
    if isFirst then
      let b := putZeros b off DrvLayout.FociSTMHead_size
      let b := put8 b (off + DrvLayout.FociSTMHead_tag_off) TAG_FociSTM
      let b := put8 b (off + DrvLayout.FociSTMHead_flag_off) (flag ||| FociSTMControlFlags_BEGIN)
      let b := put8 b (off + DrvLayout.FociSTMHead_send_num_off) sendNum
      let b := put8 b (off + DrvLayout.FociSTMHead_segment_off) seg
      let b := put8 b (off + DrvLayout.FociSTMHead_transition_mode_off) (trMode tr)
      let b := put8 b (off + DrvLayout.FociSTMHead_num_foci_off) n
      let b := put16 b (off + DrvLayout.FociSTMHead_sound_speed_off) soundSpeed
      let b := put16 b (off + DrvLayout.FociSTMHead_freq_div_off) div
      let b := put16 b (off + DrvLayout.FociSTMHead_rep_off) rep
      let b := put64 b (off + DrvLayout.FociSTMHead_transition_value_off) (trValue tr)
      .ok (o, b, DrvLayout.FociSTMHead_size + 8 * sendNum * n)
    else
      let b := put8 b (off + DrvLayout.FociSTMSubseq_tag_off) TAG_FociSTM
      let b := put8 b (off + DrvLayout.FociSTMSubseq_flag_off) flag
      let b := put8 b (off + DrvLayout.FociSTMSubseq_send_num_off) sendNum
      let b := put8 b (off + DrvLayout.FociSTMSubseq_segment_off) seg
      .ok (o, b, DrvLayout.FociSTMSubseq_size + 8 * sendNum * n)
  | .gainStm mode seg tr rep div patterns =>
    let size := patterns.size
    if size < STM_BUF_SIZE_MIN ∨ size > GAIN_STM_BUF_SIZE_MAX then .error (.gainStmSizeOutOfRange size) else
    let isFirst := o.sent = 0
    let hoff := if isFirst then DrvLayout.GainSTMHead_size else DrvLayout.GainSTMSubseq_size
    let nTr := min numTr ((avail - hoff) / 2)
    let perFrame := if mode = GainSTMMode_PhaseIntensityFull then 1 else if mode = GainSTMMode_PhaseFull then 2 else 4
    let send := min perFrame (size - o.sent)
    let b := Id.run do
      let mut b := b
      for j in [0:send] do
        let g := patterns[o.sent + j]!
        for t in [0:nTr] do
          let w := rd g t
          let p := off + hoff + 2 * t
          if mode = GainSTMMode_PhaseIntensityFull then
            b := put16 b p w
          else if mode = GainSTMMode_PhaseFull then
            b := put8 b (p + j) (w % 256)
          else
            -- 4-bit field `j` of the little-endian u16 := phase >> 4
            let nib := (w % 256) / 16
            let byte := p + j / 2
            let old := rd b byte
            b := put8 b byte (if j % 2 = 0 then (old / 16) * 16 + nib else (old % 16) + nib * 16)
      return b
    let sent := o.sent + send
    let last := sent = size
    let flag := if last then GainSTMControlFlags_END ||| (if tr.isSome then GainSTMControlFlags_TRANSITION else GainSTMControlFlags_NONE) else GainSTMControlFlags_NONE
    let flag := if seg = 1 then flag ||| GainSTMControlFlags_SEGMENT else flag
    let flag := if (send - 1) % 2 = 1 then flag ||| GainSTMControlFlags_SEND_BIT0 else flag
    let flag := if ((send - 1) / 2) % 2 = 1 then flag ||| GainSTMControlFlags_SEND_BIT1 else flag
    let o := { o with sent := sent, done := last }
    if isFirst then
      let b := put8 b (off + DrvLayout.GainSTMHead_tag_off) TAG_GainSTM
      let b := put8 b (off + DrvLayout.GainSTMHead_flag_off) (GainSTMControlFlags_BEGIN ||| flag)
      let b := put8 b (off + DrvLayout.GainSTMHead_mode_off) mode
      let b := put8 b (off + DrvLayout.GainSTMHead_transition_mode_off) (trMode tr)
      let b := put16 b (off + DrvLayout.GainSTMHead_freq_div_off) div
      let b := put16 b (off + DrvLayout.GainSTMHead_rep_off) rep
      let b := put64 b (off + DrvLayout.GainSTMHead_transition_value_off) (trValue tr)
      .ok (o, b, DrvLayout.GainSTMHead_size + numTr * 2)
    else
      let b := put8 b (off + DrvLayout.GainSTMSubseq_tag_off) TAG_GainSTM
      let b := put8 b (off + DrvLayout.GainSTMSubseq_flag_off) flag
      .ok (o, b, DrvLayout.GainSTMSubseq_size + numTr * 2)

/-- the per-device transmit buffer (`TxMessage`): header + 622-byte payload -/
structure Tx where
  msgId : Nat := 0
  slot2 : Nat := 0
  payload : Array Nat := Array.replicate (EC_OUTPUT_FRAME_SIZE - DrvLayout.Header_size) 0
deriving Repr

def Tx.frame (t : Tx) : Array Nat :=
  #[t.msgId % 256, 0, t.slot2 % 256, (t.slot2 / 256) % 256] ++ t.payload

/-- `pack_op` -/
def packOp (o : Op) (numTr : Nat) (t : Tx) : Except Err (Op × Tx × Nat) :=
  let t := { t with msgId := ((t.msgId + 1) % 256) &&& MSG_ID_MAX, slot2 := 0 }
  match o.pack numTr t.payload 0 with
  | .error e => .error e
  | .ok (o, b, sz) => .ok (o, { t with payload := b }, sz)

/-- `pack_op2` — note: when `pack_op` fails the message id has already been advanced in Rust (the
header is mutated in place); the model returns the advanced `Tx` alongside the error. -/
def packOp2 (o1 o2 : Op) (numTr : Nat) (t : Tx) : Except (Err × Tx) (Op × Op × Tx) :=
  let bumped := { t with msgId := ((t.msgId + 1) % 256) &&& MSG_ID_MAX, slot2 := 0 }
  match o1.done, o2.done with
  | true, true => .ok (o1, o2, t)
  | true, false =>
    match packOp o2 numTr t with
    | .error e => .error (e, bumped)
    | .ok (o2, t, _) => .ok (o1, o2, t)
  | false, true =>
    match packOp o1 numTr t with
    | .error e => .error (e, bumped)
    | .ok (o1, t, _) => .ok (o1, o2, t)
  | false, false =>
    match packOp o1 numTr t with
    | .error e => .error (e, bumped)
    | .ok (o1, t, sz1) =>
      if t.payload.size - sz1 ≥ o2.required numTr then
        match o2.pack numTr t.payload sz1 with
        | .error e => .error (e, t)
        | .ok (o2, b, _) => .ok (o1, o2, { t with payload := b, slot2 := sz1 })
      else .ok (o1, o2, t)

end Autd3.Wire
