import Autd3.Gen.Tables
import Autd3.Gen.Foci
import Autd3.Model.PbCodecF32
/-!
# C07 — where a focus appears: firmware FociSTM phase, Focus gain, device pose

Three executable pieces, all run by `Drv/C07.lean` and all the subject of `Props/C07.lean`:

* **firmware** (`fwDrive`): mirror of `FPGAEmulator::foci_stm_drives_inplace`
  (`autd3-firmware-emulator/src/fpga/emulator/stm/foci.rs`) for one transducer, on the decoded 64-bit
  records (`STMFocus` bitfield: x, y, z 18-bit signed, 8-bit intensity/offset) and the sound-speed word.
  Integer arithmetic only; compared **exactly** with the emulator.
* **driver record bytes** (`ioBytes`): `FociSTMOp::pack` puts the intensity in the first record and
  `phase_offset[i] - phase_offset[0]` in the others.
* **float-evaluated SDK quantities** (Focus gain phase byte, fixed-point record coordinates, sound
  speed word, transducer positions of an `AUTD3` device): the SDK computes these in `f32` through
  nalgebra; the model does not imitate the rounding sequence.  It takes the `f32` **inputs** as bit
  patterns, turns each into the exact integer `value · 2^149`, computes the ideal real-number answer
  exactly (comparisons of squares instead of square roots) and decides whether the implementation's
  integer output lies in the admissible set `|output − ideal| ≤ 1/2 + ε`, where `ε` is an explicit
  bound on the accumulated `f32` evaluation error (stated next to each test).

Lengths are millimetres (`METER = 1000`), the sound speed is mm/s, fixed-point unit 1/`UNITS_PER_MM` mm.
-/
namespace Autd3.Foci
open Autd3.Gen Autd3.Gen.Foci
open Autd3.PbCodec

/-! ## firmware side -/

/-- `as i16` of the low 16 bits -/
def signed16 (v : Nat) : Int :=
  if v % 65536 < 32768 then ((v % 65536 : Nat) : Int) else ((v % 65536 : Nat) : Int) - 65536
/-- sign extension of an 18-bit bitfield member declared `i32` -/
def signed18 (v : Nat) : Int :=
  if v % 262144 < 131072 then ((v % 262144 : Nat) : Int) else ((v % 262144 : Nat) : Int) - 262144

/-- one focus record of the STM BRAM -/
structure Rec where
  x : Int
  y : Int
  z : Int
  /-- intensity (first record of a pattern) or phase offset (the others) -/
  io : Nat
deriving Repr, DecidableEq

/-- decode the 64-bit `STMFocus` bitfield: x bits 0..17, y 18..35, z 36..53, intensity 54..61 -/
def Rec.ofWord (f : Nat) : Rec :=
  { x := signed18 f, y := signed18 (f / 262144), z := signed18 (f / 68719476736),
    io := (f / 18014398509481984) % 256 }

/-- `tr_pos` entry: x in bits 16..31, y in bits 0..15, z in bits 32..47, each `as i16` -/
def trX (tr : Nat) : Int := signed16 (Tables.trPos tr / 65536)
def trY (tr : Nat) : Int := signed16 (Tables.trPos tr)
def trZ (tr : Nat) : Int := signed16 (Tables.trPos tr / 4294967296)

/-- squared distance focus ↔ transducer in fixed-point units² (`i64` after the F16 repair) -/
def d2 (r : Rec) (tr : Nat) : Int :=
  (r.x - trX tr) * (r.x - trX tr) + (r.y - trY tr) * (r.y - trY tr) + (r.z - trZ tr) * (r.z - trZ tr)

/-- `q = (isqrt(d2) << 14) / sound_speed` -/
def qOf (c : Nat) (r : Rec) (tr : Nat) : Nat := (Nat.sqrt (d2 r tr).toNat * 2 ^ Q_SHIFT) / c

/-- the fold over the foci of one pattern: sums of `sin_table[q % 256]` and `sin_table[(q + 64) % 256]`;
the first focus (index 0) has offset 0, the others add their record byte -/
def accum (c tr : Nat) : Nat → List Rec → Nat × Nat → Nat × Nat
  | _, [], acc => acc
  | i, r :: rs, acc =>
    let offset := if i = 0 then 0 else r.io
    let q := qOf c r tr + offset
    accum c tr (i + 1) rs (acc.1 + Tables.sinTable (q % 256), acc.2 + Tables.sinTable ((q + 64) % 256))

/-- intensity of a pattern: the byte of its first record (`0x00` if there is none) -/
def intensityOf : List Rec → Nat
  | [] => 0
  | r :: _ => r.io

/-- the two 7-bit averages fed to the arctangent table -/
def avg7 (sum nf : Nat) : Nat := (sum / nf) / 2

/-- `(sin << 7) | cos` look-up -/
def atanLookup (s c : Nat) : Nat := Tables.atanTable (s * 128 ||| c)

/-- `foci_stm_drives_inplace` for one transducer (before phase correction): `(phase, intensity)`.
Panics of the Rust code are `.error`: division by a zero sound-speed word inside the fold, division by
a zero focus count after it. -/
def fwDrive (c : Nat) (recs : List Rec) (tr : Nat) : Except String (Nat × Nat) :=
  if recs.length = 0 then .error "div0:num_foci"
  else if c = 0 then .error "div0:sound_speed"
  else
    let acc := accum c tr 0 recs (0, 0)
    .ok (atanLookup (avg7 acc.1 recs.length) (avg7 acc.2 recs.length), intensityOf recs)

/-- all transducers of a device -/
def fwDrives (c : Nat) (recs : List Rec) (numTr : Nat) : Except String (List (Nat × Nat)) :=
  (List.range numTr).mapM (fwDrive c recs)

/-! ## driver side: the byte of each record -/

/-- `FociSTMOp::pack`: first record ↦ intensity, record `i > 0` ↦ `phase_offset[i] - phase_offset[0]`
(wrapping `u8`) -/
def ioBytes (intensity : Nat) : List Nat → List Nat
  | [] => []
  | o0 :: rest => intensity % 256 :: rest.map (fun o => (o % 256 + 256 - o0 % 256) % 256)

/-! ## exact values of `f32` inputs -/

/-- `2^149`: every finite binary32 is an integer multiple of `2^-149` -/
def sigma : Nat := 2 ^ 149

/-- `value · 2^149` of a finite binary32 bit pattern -/
def f32Scaled (b : Nat) : Option Int :=
  if b < 4294967296 ∧ F32.isFinite b then
    some ((if F32.sign b = 1 then -1 else 1) * ((F32.mant b * 2 ^ F32.eoff b : Nat) : Int))
  else none

structure V3 where
  x : Int
  y : Int
  z : Int
deriving Repr, DecidableEq

def V3.sub (a b : V3) : V3 := ⟨a.x - b.x, a.y - b.y, a.z - b.z⟩
def V3.norm2 (a : V3) : Int := a.x * a.x + a.y * a.y + a.z * a.z
def V3.abs1 (a : V3) : Int := (a.x.natAbs + a.y.natAbs + a.z.natAbs : Nat)
def V3.get (a : V3) (i : Nat) : Int := if i = 0 then a.x else if i = 1 then a.y else a.z

/-! ## Focus gain: admissible phase bytes

`Focus::calc`: `Phase::from(-(pos - tr).norm() * wavenumber * rad) + phase_offset` with
`wavenumber = 2π·f / c` and `Phase::from(θ) = round(θ / 2π · 256) & 0xFF`.  Over the reals the two `2π`
cancel: the ideal value is `−S`, `S = 256·f·‖pos − tr‖ / c` phase steps.  The `f32` evaluation (three
subtractions, `norm`, five multiplications/divisions, all relative error ≤ 2^-24 each; measured
≤ 2^-22.3 · S) is allowed a relative error of `2^-20`: byte `b` is admissible iff `b ≡ −n + offset`
for an integer `n` with `|S − n| ≤ 1/2 + S / 2^20`. -/

/-- `256 · ULTRASOUND_FREQ`: phase steps per (mm travelled / (mm/s)) -/
def stepsK : Nat := 256 * ULTRASOUND_FREQ

/-- `n − 1/2 ≤ S·(1 + 2^-20)` with `S = stepsK·√D2 / C`, decided on squares -/
def focusLow (D2 C n : Int) : Bool :=
  decide (2 * n - 1 ≤ 0) ||
  decide (((2 * n - 1) * C * 1048576) * ((2 * n - 1) * C * 1048576)
            ≤ ((2 * stepsK * 1048577 : Nat) : Int) * ((2 * stepsK * 1048577 : Nat) : Int) * D2)

/-- `S·(1 − 2^-20) ≤ n + 1/2` -/
def focusHigh (D2 C n : Int) : Bool :=
  decide (0 ≤ 2 * n + 1) &&
  decide (((2 * stepsK * 1048575 : Nat) : Int) * ((2 * stepsK * 1048575 : Nat) : Int) * D2
            ≤ ((2 * n + 1) * C * 1048576) * ((2 * n + 1) * C * 1048576))

def focusTest (D2 C n : Int) : Bool := focusLow D2 C n && focusHigh D2 C n

/-- `⌊S⌋` (`⌊√x⌋ = isqrt ⌊x⌋`) -/
def focusFloor (D2 C : Int) : Nat := Nat.sqrt ((stepsK * stepsK * D2.toNat) / (C.toNat * C.toNat))

/-- the admissible phase bytes for squared distance `D2` (scaled by `σ²`), sound speed `C` (scaled by
`σ`) and phase offset `off` -/
def focusBytes (D2 C : Int) (off : Nat) : List Nat :=
  let n0 := focusFloor D2 C
  (([n0 - 1, n0, n0 + 1, n0 + 2].filter fun n => focusTest D2 C (n : Nat)).map
    fun n => (off % 256 + 256 - n % 256) % 256).eraseDups

/-! ## device pose

A pose is the position of transducer 0 and a rotation quaternion `q = (w, x, y, z) ≠ 0`; the rotation
matrix is `R(q) = M(q) / |q|²` with `M` integer-polynomial in `q` (no normalisation needed). -/

structure Quat where
  w : Int
  x : Int
  y : Int
  z : Int
deriving Repr, DecidableEq

def Quat.n2 (q : Quat) : Int := q.w * q.w + q.x * q.x + q.y * q.y + q.z * q.z

/-- rows of `|q|² · R(q)` -/
def Quat.row (q : Quat) (i : Nat) : V3 :=
  if i = 0 then
    ⟨q.w * q.w + q.x * q.x - q.y * q.y - q.z * q.z, 2 * (q.x * q.y - q.z * q.w), 2 * (q.x * q.z + q.y * q.w)⟩
  else if i = 1 then
    ⟨2 * (q.x * q.y + q.z * q.w), q.w * q.w - q.x * q.x + q.y * q.y - q.z * q.z, 2 * (q.y * q.z - q.x * q.w)⟩
  else
    ⟨2 * (q.x * q.z - q.y * q.w), 2 * (q.y * q.z + q.x * q.w), q.w * q.w - q.x * q.x - q.y * q.y + q.z * q.z⟩

def dot (a b : V3) : Int := a.x * b.x + a.y * b.y + a.z * b.z

/-- `M(q) · v` -/
def Quat.mul (q : Quat) (v : V3) : V3 := ⟨dot (q.row 0) v, dot (q.row 1) v, dot (q.row 2) v⟩
/-- `M(q)ᵀ · v` -/
def Quat.mulT (q : Quat) (v : V3) : V3 :=
  ⟨(q.row 0).x * v.x + (q.row 1).x * v.y + (q.row 2).x * v.z,
   (q.row 0).y * v.x + (q.row 1).y * v.y + (q.row 2).y * v.z,
   (q.row 0).z * v.x + (q.row 1).z * v.y + (q.row 2).z * v.z⟩

/-- numerators of the device-local coordinates of the global point `p`: the local point is
`R(q)ᵀ (p − t0) = localNum / |q|²` (what `Device::inv` — the inverse of translation(t0)·rotation —
computes) -/
def localNum (q : Quat) (t0 p : V3) : V3 := q.mulT (p.sub t0)

/-- **fixed-point record coordinate** `X` against the ideal `L = UNITS_PER_MM · localNum / (|q|²·σ)`:
`|X − L| ≤ 1/2 + UNITS_PER_MM·(A·2^-22 + B·2^-19) / σ` where `A = ‖p‖₁ + ‖t0‖₁` and `B = ‖p − t0‖₁`
(scaled by `σ`).  The `A` term covers the cancellation of two numbers of that magnitude in the `f32`
evaluation of the inverse isometry (measured ≤ 2^-24.6·A); the `B` term covers the rotation itself:
the stored quaternion is unit only up to a few ulps (`|q|² − 1` up to 3·10^-7 observed) and nalgebra's
rotation formula assumes a unit quaternion, which scales the local vector by that much.
Multiplied through by `|q|²·σ·2^23`. -/
def recOk1 (X num n2 A B : Int) : Bool :=
  decide (((X * n2 * sigma - UNITS_PER_MM * num).natAbs : Int) * 8388608
            ≤ n2 * sigma * 4194304 + 2 * UNITS_PER_MM * A * n2 + 16 * UNITS_PER_MM * B * n2)

def recOk (q : Quat) (t0 p : V3) (r : Rec) : Bool :=
  let num := localNum q t0 p
  let A := p.abs1 + t0.abs1
  let B := (p.sub t0).abs1
  recOk1 r.x num.x q.n2 A B && recOk1 r.y num.y q.n2 A B && recOk1 r.z num.z q.n2 A B

/-- **sound-speed word** `cw` against `SOUND_SPEED_SCALE · c / METER`: `|cw − ideal| ≤ 1/2 + 1/64`
(one `f32` division: error ≤ 2^-24 · 25600) -/
def ssOk (cw : Nat) (C : Int) : Bool :=
  decide ((((cw : Int) * METER * sigma - SOUND_SPEED_SCALE * C).natAbs : Int) * 64 ≤ 33 * METER * sigma)

/-- ideal local grid point of transducer `i` times `TRANS_SPACING_DEN` (mm): `(gx·num, gy·num, 0)` -/
def gridNum (i : Nat) : V3 :=
  ⟨((gridId i).1 * TRANS_SPACING_NUM : Nat), ((gridId i).2 * TRANS_SPACING_NUM : Nat), 0⟩

/-- **transducer position** of an `AUTD3` device: stored `t` (scaled) against the ideal
`pos + R(q)·grid_i`; per coordinate `|t − ideal| ≤ (|pos| + 250 mm)·2^-18`.
Multiplied through by `TRANS_SPACING_DEN · |q|² · 2^18`. -/
def trOk1 (t pos rl n2 : Int) : Bool :=
  decide (((t * TRANS_SPACING_DEN * n2 - pos * TRANS_SPACING_DEN * n2 - sigma * rl).natAbs : Int) * 262144
            ≤ ((pos.natAbs : Int) + 250 * sigma) * TRANS_SPACING_DEN * n2)

def trOk (q : Quat) (pos : V3) (i : Nat) (t : V3) : Bool :=
  let rl := q.mul (gridNum i)
  trOk1 t.x pos.x rl.x q.n2 && trOk1 t.y pos.y rl.y q.n2 && trOk1 t.z pos.z rl.z q.n2

end Autd3.Foci
