import Autd3.Gen.PbCodec
import Autd3.Model.PbCodecF32
/-
Model of the remote-link conversions of `autd3-protobuf` (as REPAIRED by fix-1 and fix-2: length checks):

  * `traits/driver/firmware/cpu/datagram/tx.rs`   `From<&[TxMessage]> for TxRawData`,
                                                  `FromMessage<TxRawData> for Vec<TxMessage>`
  * `traits/driver/firmware/cpu/datagram/rx.rs`   `From<Vec<RxMessage>> for pb::RxMessage`,
                                                  `FromMessage<pb::RxMessage> for Vec<RxMessage>`
  * `traits/driver/geometry/mod.rs`               `From<&Geometry> for pb::Geometry`,
                                                  `FromMessage<pb::Geometry> for Geometry`
  * `autd3-link-simulator/src/lib.rs`             `SimulatorInner::{send, receive}`

Bytes are `Nat`s (`< 256` in every real input; no theorem needs that), a frame is a `List Nat` of
`TX_MESSAGE_SIZE` bytes, `f32`s travel as bit patterns.  Sizes come from `Gen/PbCodec.lean`
(regenerated from the struct definitions on every run).  Panics and memory-unsafe copies are values.
Imports only the generated constants and the Mathlib-free `F32`: linked into `autd3model`.
-/
namespace Autd3.PbCodec
open Autd3.Gen.PbCodec

inductive Panic where
  /-- `copy_nonoverlapping` / `copy_from_slice` with a count that exceeds source or destination -/
  | copyOutOfBounds
  /-- `Result::unwrap` on `Err` -/
  | unwrapOnErr
deriving DecidableEq, Repr

/-- what `from_msg` can answer besides `Ok`: the crate's `AUTDProtoBufError::DataParseError`, or (in
the model only) a panic / out-of-bounds access made visible as a value -/
inductive Err where
  | dataParseError
  | panic (p : Panic)
deriving DecidableEq, Repr

/-! ## Transmit frames -/

/-- `pb::TxRawData { data: Vec<u8>, n: u32 }` -/
structure TxRawData where
  data : List Nat
  n : Nat
deriving DecidableEq, Repr

/-- `<[TxMessage]>::as_bytes()`: the frames one after another (no padding: `repr(C)`, size = stride) -/
def asBytes (frames : List (List Nat)) : List Nat := frames.flatten

/-- `impl From<&[TxMessage]> for TxRawData`: `data: value.as_bytes().to_vec(), n: value.len() as _`
(`as u32` truncates) -/
def encodeTx (frames : List (List Nat)) : TxRawData :=
  { data := asBytes frames, n := frames.length % 4294967296 }

/-- `std::ptr::copy_nonoverlapping(src, dst, count)` over byte buffers, bounds made explicit: reading
`count` bytes from `src` and writing them at the start of `dst` is only defined when both hold
`count` bytes; anything else is undefined behaviour in Rust and a `Panic` value here. -/
def copyNonoverlapping (src dst : List Nat) (count : Nat) : Except Panic (List Nat) :=
  if count ≤ src.length ∧ count ≤ dst.length then .ok (src.take count ++ dst.drop count)
  else .error .copyOutOfBounds

/-- view a byte buffer as `n` elements of `size` bytes (`Vec<TxMessage>` over its allocation) -/
def chunks (size : Nat) : Nat → List Nat → List (List Nat)
  | 0, _ => []
  | n + 1, buf => buf.take size :: chunks size n (buf.drop size)

/-- `impl FromMessage<TxRawData> for Vec<TxMessage>` (repaired):
```
let n = msg.n as usize;
if n.checked_mul(size_of::<TxMessage>()) != Some(msg.data.len()) { return Err(DataParseError); }
let mut tx = vec![TxMessage::new_zeroed(); n];
unsafe { copy_nonoverlapping(msg.data.as_ptr(), tx.as_mut_ptr() as _, msg.data.len()); }
Ok(tx)
``` -/
def decodeTx (msg : TxRawData) : Except Err (List (List Nat)) :=
  let n := msg.n
  if n * TX_MESSAGE_SIZE ≠ msg.data.length then .error .dataParseError
  else
    let tx := List.replicate (n * TX_MESSAGE_SIZE) 0
    match copyNonoverlapping msg.data tx msg.data.length with
    | .error p => .error (.panic p)
    | .ok buf => .ok (chunks TX_MESSAGE_SIZE n buf)

/-! ## Receive messages -/

/-- `autd3_core::link::RxMessage { data: u8, ack: u8 }` -/
structure Rx where
  data : Nat
  ack : Nat
deriving DecidableEq, Repr

/-- `impl From<Vec<RxMessage>> for pb::RxMessage`: `data: value.as_bytes().to_vec()` -/
def encodeRx : List Rx → List Nat
  | [] => []
  | r :: rest => r.data :: r.ack :: encodeRx rest

/-- the elements of a byte buffer whose length is a multiple of 2 -/
def rxOfBytes : List Nat → List Rx
  | d :: a :: rest => ⟨d, a⟩ :: rxOfBytes rest
  | _ => []

/-- `<[RxMessage]>::ref_from_bytes(bytes)` (zerocopy): `Err(SizeError)` unless the length is a whole
number of elements (alignment is 1, so no alignment error) -/
def refFromBytes (bytes : List Nat) : Option (List Rx) :=
  if bytes.length % RX_MESSAGE_SIZE ≠ 0 then none else some (rxOfBytes bytes)

/-- `impl FromMessage<pb::RxMessage> for Vec<RxMessage>` (repaired):
`ref_from_bytes(..).map_err(|_| DataParseError)?.to_vec()` -/
def decodeRx (data : List Nat) : Except Err (List Rx) :=
  match refFromBytes data with
  | none => .error .dataParseError
  | some rx => .ok rx

/-! ## The simulator link -/

/-- `<[T]>::copy_from_slice`: panics unless the lengths are equal -/
def copyFromSlice {α : Type} (dst src : List α) : Except Panic (List α) :=
  if dst.length = src.length then .ok src else .error .copyOutOfBounds

/-- `SimulatorInner::send`: the request carried to the server -/
def linkSend (tx : List (List Nat)) : TxRawData := encodeTx tx

/-- `SimulatorInner::receive(rx)` on the reply `msg`: new contents of `rx` and the returned flag -/
def linkReceive (rx : List Rx) (msg : List Nat) : Except Err (List Rx × Bool) :=
  match decodeRx msg with
  | .error e => .error e
  | .ok rx' =>
    if rx.length = rx'.length then
      match copyFromSlice rx rx' with
      | .error p => .error (.panic p)
      | .ok r => .ok (r, true)
    else .ok (rx, false)

/-! ## Geometry -/

/-- three / four `f32` bit patterns -/
structure V3 where
  x : Nat
  y : Nat
  z : Nat
deriving DecidableEq, Repr

/-- quaternion `w + i·𝐢 + j·𝐣 + k·𝐤` (nalgebra field names) -/
structure Quat where
  w : Nat
  i : Nat
  j : Nat
  k : Nat
deriving DecidableEq, Repr

/-- what the property calls a device pose plus its sound speed, as read through the public accessors
`dev[0].position()`, `dev.rotation()`, `dev.sound_speed` -/
structure Pose where
  pos : V3
  rot : Quat
  soundSpeed : Nat
deriving DecidableEq, Repr

/-- `pb::Quaternion { w, x, y, z }` -/
structure QuatMsg where
  w : Nat
  x : Nat
  y : Nat
  z : Nat
deriving DecidableEq, Repr

/-- `pb::geometry::Autd3 { pos: Option<Point3>, rot: Option<Quaternion>, sound_speed: Option<f32> }` -/
structure DevMsg where
  pos : Option V3
  rot : Option QuatMsg
  soundSpeed : Option Nat
deriving DecidableEq, Repr

/-- `impl From<UnitQuaternion> for pb::Quaternion`: `w: value.w, x: value.i, y: value.j, z: value.k` -/
def quatToMsg (q : Quat) : QuatMsg := { w := q.w, x := q.i, y := q.j, z := q.k }

/-- `impl From<&Geometry> for pb::Geometry` -/
def encodeGeometry (g : List Pose) : List DevMsg :=
  g.map fun dev =>
    { pos := some dev.pos, rot := some (quatToMsg dev.rot), soundSpeed := some dev.soundSpeed }

/-- `UnitQuaternion::from_quaternion(Quaternion::new(w, x, y, z))` = `Unit::new_normalize`:
`n = coords.norm()` with nalgebra's 4-vector dot product over `coords = [i, j, k, w]`
(`a = i·i; b = j·j; c = k·k; d = w·w; a += c; b += d; a + b`), then every component divided by `n`. -/
def normalize (m : QuatMsg) : Quat :=
  let (i, j, k, w) := (m.x, m.y, m.z, m.w)
  let a := F32.mul i i
  let b := F32.mul j j
  let c := F32.mul k k
  let d := F32.mul w w
  let a := F32.add a c
  let b := F32.add b d
  let n2 := F32.add 0 (F32.add a b)        -- `res = 0; res += col.dotc(&col)`
  let n := F32.sqrt n2
  { w := F32.div w n, i := F32.div i n, j := F32.div j n, k := F32.div k n }

/-- `UnitQuaternion::identity()` -/
def quatIdentity : Quat := { w := F32.one, i := 0, j := 0, k := 0 }

/-- nalgebra `Vector3::cross` -/
def cross (a b : V3) : V3 :=
  { x := F32.sub (F32.mul a.y b.z) (F32.mul a.z b.y),
    y := F32.sub (F32.mul a.z b.x) (F32.mul a.x b.z),
    z := F32.sub (F32.mul a.x b.y) (F32.mul a.y b.x) }

/-- `UnitQuaternion × Vector3`: `t = q.vector × v · 2; t · q.scalar + q.vector × t + v` -/
def rotate (q : Quat) (v : V3) : V3 :=
  let qv : V3 := ⟨q.i, q.j, q.k⟩
  let c := cross qv v
  let t : V3 := ⟨F32.mul c.x F32.two, F32.mul c.y F32.two, F32.mul c.z F32.two⟩
  let c2 := cross qv t
  { x := F32.add (F32.add (F32.mul t.x q.w) c2.x) v.x,
    y := F32.add (F32.add (F32.mul t.y q.w) c2.y) v.y,
    z := F32.add (F32.add (F32.mul t.z q.w) c2.z) v.z }

/-- position of transducer 0 of `Device::from(AUTD3 { pos, rot })`: `isometry * Point3::new(0·s, 0·s, 0.)`
= `rot.transform_point(origin) + translation` -/
def firstTransducer (pos : V3) (rot : Quat) : V3 :=
  let p := rotate rot ⟨0, 0, 0⟩
  { x := F32.add p.x pos.x, y := F32.add p.y pos.y, z := F32.add p.z pos.z }

/-- one element of `impl FromMessage<pb::Geometry> for Geometry`, observed through the accessors -/
def decodeDevice (m : DevMsg) : Pose :=
  let pos := match m.pos with
    | some p => p                          -- `Point3::new(msg.x as _, msg.y as _, msg.z as _)`
    | none => ⟨0, 0, 0⟩                    -- `Point3::origin()`
  let rot := match m.rot with
    | some q => normalize q
    | none => quatIdentity
  -- `let mut dev: Device = AUTD3 { pos, rot }.into();`
  let p0 := firstTransducer pos rot
  let ss := match m.soundSpeed with
    | some s => s                          -- `dev.sound_speed = sound_speed`
    | none => DEFAULT_SOUND_SPEED_BITS     -- `Device::new`: `340.0 * METER`
  { pos := p0, rot := rot, soundSpeed := ss }

/-- `impl FromMessage<pb::Geometry> for Geometry` (cannot fail: every inner `from_msg` is `Ok`) -/
def decodeGeometry (msg : List DevMsg) : Except Err (List Pose) := .ok (msg.map decodeDevice)

end Autd3.PbCodec
