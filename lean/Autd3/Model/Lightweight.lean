/-!
# Model of the lightweight (gRPC) protocol conversions (C20)

Mirrors, field by field and in evaluation order,

* the client side: `DatagramLightweight::into_datagram_lightweight`, `IntoLightweightGain::into_lightweight`
  and the `From<..>` impls of `autd3-protobuf/src/traits/**` (`toMsg` functions), and
  `lightweight::Datagram::into_lightweight` / `Controller::{send, group_send}` of `lightweight/client.rs`;
* the server side: the `FromMessage::from_msg` impls (`fromMsg` functions) and `gain_into_boxed`,
  `modulation_into_boxed`, `into_boxed_datagram`, `into_datagram_tuple`, `send`, `group_send` of
  `lightweight/server/*.rs`.

Conventions.
* A *datagram* (`Gain`, `Modulation`, …, `Dg`, `Tuple`) is the SDK value: every option field present.
* A *message* (`M…`) mirrors the prost struct: every `optional`/message-typed field is an `Option`, every
  `oneof` an `Option` of a sum type, `repeated` a `List`.
* `f32` values are opaque 32-bit patterns (`Nat`); the conversions only move them (`x * Hz`, `x * rad`,
  `x * Pa`, `Point3::new`, `UnitVector3::new_unchecked` build wrappers without arithmetic).
* Integers are `Nat`/`Int`; Rust's `as` casts are written as `%`, `u8::try_from`/`NonZero*::try_from` as explicit
  error branches. `Duration`s are nanoseconds (`Nat`); a `Duration` is below `2^64·10^9` ns by its type.
* Results are `Except Err`: `parse` = `AUTDProtoBufError::DataParseError`, `int` = `TryFromInt`,
  `enumv` = `UnknownEnumValue`, `status` = `Status` (WaitableSleeper on non-Windows), `driver` = an
  `AUTDDriverError` raised by the conversion itself, `panic` = the Rust code would abort (index out of range,
  `unwrap` on `None`, `unreachable!()`).

Only core is imported (this file is linked into `autd3model`).
-/
namespace Autd3.Lw

inductive Err
  | parse | int | enumv | status | driver | panic
  deriving DecidableEq, Repr, Inhabited

abbrev R := Except Err

/-- `opt.ok_or(AUTDProtoBufError::DataParseError)?` -/
def okOr {α : Type} : Option α → R α
  | some a => .ok a
  | none => .error .parse

/-- `u8::try_from(v: u32)?` -/
def u8TryFrom (v : Nat) : R Nat := if v < 256 then .ok v else .error .int
/-- `u16::try_from(v: u32)?` -/
def u16TryFrom (v : Nat) : R Nat := if v < 65536 then .ok v else .error .int
/-- `NonZero*::try_from(v)?` / `NonZero*::new(v).ok_or(..)` with the given error -/
def nonZero (e : Err) (v : Nat) : R Nat := if v = 0 then .error e else .ok v

/-- `opt.map(f).transpose()?.unwrap_or(d)` -/
def optOr {α β : Type} (o : Option α) (f : α → R β) (d : β) : R β :=
  match o with
  | none => .ok d
  | some a => f a

/-- `iter.map(f).collect::<Result<Vec<_>, _>>()?` : stops at the first error -/
def mapR {α β : Type} (f : α → R β) : List α → R (List β)
  | [] => .ok []
  | a :: as => do
    let b ← f a
    let bs ← mapR f as
    pure (b :: bs)

/-! ## Leaf values -/

/-- `Point3` / `UnitVector3` / `Vector3`: three `f32` bit patterns -/
structure P3 where
  x : Nat
  y : Nat
  z : Nat
  deriving DecidableEq, Repr, Inhabited

/-- `Segment::try_from(i32)` (prost enum): 0 ↦ S0, 1 ↦ S1 -/
def segmentFromMsg (v : Int) : R Nat :=
  if v = 0 then .ok 0 else if v = 1 then .ok 1 else .error .enumv

/-- `segment as u8 as i32` (the datagram's segment is 0 or 1) -/
def segmentToMsg (s : Nat) : Int := Int.ofNat (s % 256)

/-! ### SamplingConfig -/

inductive SamplingCfg
  | division (div : Nat)
  | freq (f : Nat)
  | freqNearest (f : Nat)
  | period (ns : Nat)
  | periodNearest (ns : Nat)
  deriving DecidableEq, Repr, Inhabited

inductive MSamplingV
  | division (div : Nat)
  | freq (f : Nat)
  | freqNearest (f : Nat)
  | period (ns : Nat)
  | periodNearest (ns : Nat)
  deriving DecidableEq, Repr, Inhabited

structure MSampling where
  variant : Option MSamplingV
  deriving DecidableEq, Repr, Inhabited

/-- `From<SamplingConfig> for pb::SamplingConfig` (`div.get() as u32`, `as_nanos() as u64`) -/
def SamplingCfg.toMsg : SamplingCfg → MSampling
  | .division d => ⟨some (.division d)⟩
  | .freq f => ⟨some (.freq f)⟩
  | .freqNearest f => ⟨some (.freqNearest f)⟩
  | .period ns => ⟨some (.period (ns % 2^64))⟩
  | .periodNearest ns => ⟨some (.periodNearest (ns % 2^64))⟩

def SamplingCfg.fromMsg (m : MSampling) : R SamplingCfg := do
  match ← okOr m.variant with
  | .division d => do
    let d ← u16TryFrom d
    let d ← nonZero .int d
    pure (.division d)
  | .freq f => pure (.freq f)
  | .freqNearest f => pure (.freqNearest f)
  | .period ns => pure (.period ns)
  | .periodNearest ns => pure (.periodNearest ns)

/-- `SamplingConfig::FREQ_4K` = `Freq(4000.0 Hz)` -/
def freq4k : SamplingCfg := .freq 0x457A0000

/-! ### TransitionMode, LoopBehavior -/

inductive Transition
  | syncIdx
  | sysTime (t : Nat)
  | gpio (g : Nat)
  | ext
  | immediate
  deriving DecidableEq, Repr, Inhabited

inductive MTransitionV
  | syncIdx
  | sysTime (t : Nat)
  | gpio (g : Int)
  | ext
  | immediate
  deriving DecidableEq, Repr, Inhabited

structure MTransition where
  mode : Option MTransitionV
  deriving DecidableEq, Repr, Inhabited

def Transition.toMsg : Transition → MTransition
  | .syncIdx => ⟨some .syncIdx⟩
  | .sysTime t => ⟨some (.sysTime t)⟩
  | .gpio g => ⟨some (.gpio (Int.ofNat g))⟩
  | .ext => ⟨some .ext⟩
  | .immediate => ⟨some .immediate⟩

/-- `GpioIn::try_from(i32)`: 0..3 -/
def gpioFromMsg (v : Int) : R Nat :=
  if v = 0 then .ok 0 else if v = 1 then .ok 1 else if v = 2 then .ok 2 else if v = 3 then .ok 3
  else .error .enumv

def Transition.fromMsg (m : MTransition) : R Transition := do
  match ← okOr m.mode with
  | .syncIdx => pure .syncIdx
  | .sysTime t => pure (.sysTime t)
  | .gpio g => do
    let g ← gpioFromMsg g
    pure (.gpio g)
  | .ext => pure .ext
  | .immediate => pure .immediate

inductive Loop
  | infinite
  | finite (rep : Nat)
  deriving DecidableEq, Repr, Inhabited

inductive MLoopV
  | infinite
  | finite (rep : Nat)
  deriving DecidableEq, Repr, Inhabited

structure MLoop where
  variant : Option MLoopV
  deriving DecidableEq, Repr, Inhabited

def Loop.toMsg : Loop → MLoop
  | .infinite => ⟨some .infinite⟩
  | .finite r => ⟨some (.finite r)⟩

def Loop.fromMsg (m : MLoop) : R Loop := do
  match ← okOr m.variant with
  | .infinite => pure .infinite
  | .finite r => do
    let r ← u16TryFrom r
    let r ← nonZero .int r
    pure (.finite r)

/-! ## Option structures of the SDK and their `Default`s

The server substitutes `…::default()` of the SDK type for an absent optional field. The defaults are *parameters*
of the model (`Defaults`): the correspondence stream reads them from the real `Default` impls, the theorems hold
for every value of them. -/

/-- `FocusOption` / `BesselOption` / `PlaneOption`: identical shape and identical conversion code -/
structure IPOpt where
  intensity : Nat
  phaseOffset : Nat
  deriving DecidableEq, Repr, Inhabited

inductive Constraint
  | normalize
  | multiply (v : Nat)
  | uniform (v : Nat)
  | clamp (lo hi : Nat)
  deriving DecidableEq, Repr, Inhabited

structure SineOpt where
  intensity : Nat
  offset : Nat
  phase : Nat
  clamp : Bool
  cfg : SamplingCfg
  deriving DecidableEq, Repr, Inhabited

structure SquareOpt where
  low : Nat
  high : Nat
  duty : Nat
  cfg : SamplingCfg
  deriving DecidableEq, Repr, Inhabited

structure Defaults where
  focus : IPOpt
  bessel : IPOpt
  plane : IPOpt
  naiveC : Constraint
  gsC : Constraint
  gsRepeat : Nat
  gspatC : Constraint
  gspatRepeat : Nat
  lmC : Constraint
  lmEps1 : Nat
  lmEps2 : Nat
  lmTau : Nat
  lmKMax : Nat
  greedyC : Constraint
  greedyPhaseDiv : Nat
  sine : SineOpt
  square : SquareOpt
  staticIntensity : Nat
  /-- `FixedCompletionSteps::default()` -/
  stepsIntensity : Nat
  stepsPhase : Nat
  stepsStrict : Bool
  /-- `FixedCompletionTime::default()` (nanoseconds) -/
  timeIntensityNs : Nat
  timePhaseNs : Nat
  timeStrict : Bool
  /-- `ControlPoint::default().phase_offset`, `ControlPoints::<N>::default().intensity` -/
  cpOffset : Nat
  cpsIntensity : Nat
  /-- `GainSTMOption::default().mode` -/
  gainStmMode : Nat
  deriving DecidableEq, Repr, Inhabited

/-- the values of the SDK at the time of writing (used by `example`s only) -/
def Defaults.sdk : Defaults where
  focus := ⟨255, 0⟩
  bessel := ⟨255, 0⟩
  plane := ⟨255, 0⟩
  naiveC := .clamp 0 255
  gsC := .clamp 0 255
  gsRepeat := 100
  gspatC := .clamp 0 255
  gspatRepeat := 100
  lmC := .clamp 0 255
  lmEps1 := 0x322BCC77
  lmEps2 := 0x322BCC77
  lmTau := 0x3A83126F
  lmKMax := 5
  greedyC := .uniform 255
  greedyPhaseDiv := 16
  sine := ⟨255, 128, 0, false, freq4k⟩
  square := ⟨0, 255, 0x3F000000, freq4k⟩
  staticIntensity := 255
  stepsIntensity := 10
  stepsPhase := 40
  stepsStrict := true
  timeIntensityNs := 250000
  timePhaseNs := 1000000
  timeStrict := true
  cpOffset := 0
  cpsIntensity := 255
  gainStmMode := 0

/-! ## Gains -/

structure MIPOpt where
  intensity : Option Nat
  phaseOffset : Option Nat
  deriving DecidableEq, Repr, Inhabited

def IPOpt.toMsg (o : IPOpt) : MIPOpt := ⟨some o.intensity, some o.phaseOffset⟩

/-- `let default = …Option::default()`; `EmitIntensity::from_msg` / `Phase::from_msg`: `u8::try_from(msg.value)?` -/
def IPOpt.fromMsg (dflt : IPOpt) (m : MIPOpt) : R IPOpt := do
  let i ← optOr m.intensity u8TryFrom dflt.intensity
  let p ← optOr m.phaseOffset u8TryFrom dflt.phaseOffset
  pure ⟨i, p⟩

inductive MConstraintV
  | normalize
  | multiply (v : Nat)
  | uniform (v : Option Nat)
  | clamp (lo hi : Option Nat)
  deriving DecidableEq, Repr, Inhabited

structure MConstraint where
  variant : Option MConstraintV
  deriving DecidableEq, Repr, Inhabited

def Constraint.toMsg : Constraint → MConstraint
  | .normalize => ⟨some .normalize⟩
  | .multiply v => ⟨some (.multiply v)⟩
  | .uniform v => ⟨some (.uniform (some v))⟩
  | .clamp a b => ⟨some (.clamp (some a) (some b))⟩

def Constraint.fromMsg (m : MConstraint) : R Constraint := do
  match ← okOr m.variant with
  | .normalize => pure .normalize
  | .multiply v => pure (.multiply v)
  | .uniform v => do
    let v ← okOr v
    let v ← u8TryFrom v
    pure (.uniform v)
  | .clamp a b => do
    let a ← okOr a
    let a ← u8TryFrom a
    let b ← okOr b
    let b ← u8TryFrom b
    pure (.clamp a b)

structure MHolo where
  pos : Option P3
  amp : Option Nat
  deriving DecidableEq, Repr, Inhabited

/-- `to_holo!` -/
def holoToMsg (h : P3 × Nat) : MHolo := ⟨some h.1, some h.2⟩

def holoFromMsg (h : MHolo) : R (P3 × Nat) := do
  let p ← okOr h.pos
  let a ← okOr h.amp
  pure (p, a)

inductive Gain
  | focus (pos : P3) (opt : IPOpt)
  | bessel (pos dir : P3) (theta : Nat) (opt : IPOpt)
  | plane (dir : P3) (opt : IPOpt)
  | uniform (intensity phase : Nat)
  | null
  | naive (foci : List (P3 × Nat)) (c : Constraint)
  | gs (foci : List (P3 × Nat)) (c : Constraint) (repeatN : Nat)
  | gspat (foci : List (P3 × Nat)) (c : Constraint) (repeatN : Nat)
  | lm (foci : List (P3 × Nat)) (c : Constraint) (eps1 eps2 tau kMax : Nat) (initial : List Nat)
  | greedy (foci : List (P3 × Nat)) (c : Constraint) (phaseDiv : Nat)
  deriving DecidableEq, Repr, Inhabited

structure MNaiveOpt where
  constraint : Option MConstraint
  deriving DecidableEq, Repr, Inhabited
/-- `GsOption` and `GspatOption` -/
structure MGsOpt where
  constraint : Option MConstraint
  repeatN : Option Nat
  deriving DecidableEq, Repr, Inhabited
structure MLmOpt where
  constraint : Option MConstraint
  eps1 : Option Nat
  eps2 : Option Nat
  tau : Option Nat
  kMax : Option Nat
  initial : List Nat
  deriving DecidableEq, Repr, Inhabited
structure MGreedyOpt where
  constraint : Option MConstraint
  phaseDiv : Option Nat
  deriving DecidableEq, Repr, Inhabited

inductive MGainV
  | focus (pos : Option P3) (option : Option MIPOpt)
  | bessel (pos dir : Option P3) (theta : Option Nat) (option : Option MIPOpt)
  | plane (dir : Option P3) (option : Option MIPOpt)
  | uniform (intensity phase : Option Nat)
  | null
  | naive (holo : List MHolo) (option : Option MNaiveOpt)
  | gs (holo : List MHolo) (option : Option MGsOpt)
  | gspat (holo : List MHolo) (option : Option MGsOpt)
  | lm (holo : List MHolo) (option : Option MLmOpt)
  | greedy (holo : List MHolo) (option : Option MGreedyOpt)
  deriving DecidableEq, Repr, Inhabited

/-- message `Gain { oneof gain }` -/
structure MGain where
  gain : Option MGainV
  deriving DecidableEq, Repr, Inhabited

/-- `IntoLightweightGain::into_lightweight` (`repeat.get() as u64`, `k_max.get() as u64`, `phase_div.get() as u32`) -/
def Gain.toMsg : Gain → MGain
  | .focus p o => ⟨some (.focus (some p) (some o.toMsg))⟩
  | .bessel p d t o => ⟨some (.bessel (some p) (some d) (some t) (some o.toMsg))⟩
  | .plane d o => ⟨some (.plane (some d) (some o.toMsg))⟩
  | .uniform i p => ⟨some (.uniform (some i) (some p))⟩
  | .null => ⟨some .null⟩
  | .naive f c => ⟨some (.naive (f.map holoToMsg) (some ⟨some c.toMsg⟩))⟩
  | .gs f c r => ⟨some (.gs (f.map holoToMsg) (some ⟨some c.toMsg, some (r % 2^64)⟩))⟩
  | .gspat f c r => ⟨some (.gspat (f.map holoToMsg) (some ⟨some c.toMsg, some (r % 2^64)⟩))⟩
  | .lm f c e1 e2 tau k ini =>
    ⟨some (.lm (f.map holoToMsg) (some ⟨some c.toMsg, some e1, some e2, some tau, some (k % 2^64), ini⟩))⟩
  | .greedy f c pd => ⟨some (.greedy (f.map holoToMsg) (some ⟨some c.toMsg, some (pd % 2^32)⟩))⟩

/-- `usize::try_from(u64)?` on a 64-bit target always succeeds; then `NonZeroUsize::try_from` -/
def gsRepeatFromMsg (o : Option Nat) (d : Nat) : R Nat := optOr o (nonZero .int) d

/-- the `FromMessage<…>` impl of each gain (fields in the order the struct literal evaluates them) -/
def MGainV.fromMsg (D : Defaults) : MGainV → R Gain
  | .focus pos option => do
    let p ← okOr pos
    let o ← okOr option
    let o ← IPOpt.fromMsg D.focus o
    pure (.focus p o)
  | .bessel pos dir theta option => do
    let p ← okOr pos
    let d ← okOr dir
    let t ← okOr theta
    let o ← okOr option
    let o ← IPOpt.fromMsg D.bessel o
    pure (.bessel p d t o)
  | .plane dir option => do
    let d ← okOr dir
    let o ← okOr option
    let o ← IPOpt.fromMsg D.plane o
    pure (.plane d o)
  | .uniform intensity phase => do
    let p ← okOr phase
    let p ← u8TryFrom p
    let i ← okOr intensity
    let i ← u8TryFrom i
    pure (.uniform i p)
  | .null => pure .null
  | .naive holo option => do
    let f ← mapR holoFromMsg holo
    let o ← okOr option
    let c ← optOr o.constraint Constraint.fromMsg D.naiveC
    pure (.naive f c)
  | .gs holo option => do
    let f ← mapR holoFromMsg holo
    let o ← okOr option
    let r ← gsRepeatFromMsg o.repeatN D.gsRepeat
    let c ← optOr o.constraint Constraint.fromMsg D.gsC
    pure (.gs f c r)
  | .gspat holo option => do
    let f ← mapR holoFromMsg holo
    let o ← okOr option
    let r ← gsRepeatFromMsg o.repeatN D.gspatRepeat
    let c ← optOr o.constraint Constraint.fromMsg D.gspatC
    pure (.gspat f c r)
  | .lm holo option => do
    let f ← mapR holoFromMsg holo
    let o ← okOr option
    let e1 := o.eps1.getD D.lmEps1
    let e2 := o.eps2.getD D.lmEps2
    let tau := o.tau.getD D.lmTau
    let k ← gsRepeatFromMsg o.kMax D.lmKMax
    let c ← optOr o.constraint Constraint.fromMsg D.lmC
    pure (.lm f c e1 e2 tau k o.initial)
  | .greedy holo option => do
    let f ← mapR holoFromMsg holo
    let o ← okOr option
    let pd ← optOr o.phaseDiv (fun v => do let v ← u8TryFrom v; nonZero .int v) D.greedyPhaseDiv
    let c ← optOr o.constraint Constraint.fromMsg D.greedyC
    pure (.greedy f c pd)

/-- `gain_into_boxed` (server/gain.rs) and the identical `match gain.gain` inside `GainSTM::from_msg` -/
def Gain.fromMsg (D : Defaults) (m : MGain) : R Gain := do
  let g ← okOr m.gain
  g.fromMsg D

/-! ## Modulations -/

structure MSineOpt where
  config : Option MSampling
  intensity : Option Nat
  offset : Option Nat
  phase : Option Nat
  clamp : Option Bool
  deriving DecidableEq, Repr, Inhabited

def SineOpt.toMsg (o : SineOpt) : MSineOpt :=
  ⟨some o.cfg.toMsg, some o.intensity, some o.offset, some o.phase, some o.clamp⟩

/-- note `clamp: msg.clamp.unwrap_or(false)` (a literal, not `default.clamp`) -/
def SineOpt.fromMsg (dflt : SineOpt) (m : MSineOpt) : R SineOpt := do
  let i ← optOr m.intensity u8TryFrom dflt.intensity
  let off ← optOr m.offset u8TryFrom dflt.offset
  let ph := m.phase.getD dflt.phase
  let cl := m.clamp.getD false
  let cfg ← optOr m.config SamplingCfg.fromMsg dflt.cfg
  pure ⟨i, off, ph, cl, cfg⟩

structure MSquareOpt where
  config : Option MSampling
  low : Option Nat
  high : Option Nat
  duty : Option Nat
  deriving DecidableEq, Repr, Inhabited

def SquareOpt.toMsg (o : SquareOpt) : MSquareOpt :=
  ⟨some o.cfg.toMsg, some o.low, some o.high, some o.duty⟩

def SquareOpt.fromMsg (dflt : SquareOpt) (m : MSquareOpt) : R SquareOpt := do
  let lo ← optOr m.low u8TryFrom dflt.low
  let hi ← optOr m.high u8TryFrom dflt.high
  let duty := m.duty.getD dflt.duty
  let cfg ← optOr m.config SamplingCfg.fromMsg dflt.cfg
  pure ⟨lo, hi, duty, cfg⟩

/-- `freq` is a `u32` for the exact modes and an `f32` bit pattern for the float and nearest modes -/
inductive Modulation
  | static (intensity : Nat)
  | sineExact (freq : Nat) (opt : SineOpt)
  | sineExactFloat (freq : Nat) (opt : SineOpt)
  | sineNearest (freq : Nat) (opt : SineOpt)
  | squareExact (freq : Nat) (opt : SquareOpt)
  | squareExactFloat (freq : Nat) (opt : SquareOpt)
  | squareNearest (freq : Nat) (opt : SquareOpt)
  deriving DecidableEq, Repr, Inhabited

inductive MModulationV
  | static (intensity : Option Nat)
  | sineExact (freq : Nat) (option : Option MSineOpt)
  | sineExactFloat (freq : Nat) (option : Option MSineOpt)
  | sineNearest (freq : Nat) (option : Option MSineOpt)
  | squareExact (freq : Nat) (option : Option MSquareOpt)
  | squareExactFloat (freq : Nat) (option : Option MSquareOpt)
  | squareNearest (freq : Nat) (option : Option MSquareOpt)
  deriving DecidableEq, Repr, Inhabited

structure MModulation where
  modulation : Option MModulationV
  deriving DecidableEq, Repr, Inhabited

def Modulation.toMsg : Modulation → MModulation
  | .static i => ⟨some (.static (some i))⟩
  | .sineExact f o => ⟨some (.sineExact f (some o.toMsg))⟩
  | .sineExactFloat f o => ⟨some (.sineExactFloat f (some o.toMsg))⟩
  | .sineNearest f o => ⟨some (.sineNearest f (some o.toMsg))⟩
  | .squareExact f o => ⟨some (.squareExact f (some o.toMsg))⟩
  | .squareExactFloat f o => ⟨some (.squareExactFloat f (some o.toMsg))⟩
  | .squareNearest f o => ⟨some (.squareNearest f (some o.toMsg))⟩

def MModulationV.fromMsg (D : Defaults) : MModulationV → R Modulation
  | .static i => do
    let i ← optOr i u8TryFrom D.staticIntensity
    pure (.static i)
  | .sineExact f o => do
    let o ← okOr o
    let o ← SineOpt.fromMsg D.sine o
    pure (.sineExact f o)
  | .sineExactFloat f o => do
    let o ← okOr o
    let o ← SineOpt.fromMsg D.sine o
    pure (.sineExactFloat f o)
  | .sineNearest f o => do
    let o ← okOr o
    let o ← SineOpt.fromMsg D.sine o
    pure (.sineNearest f o)
  | .squareExact f o => do
    let o ← okOr o
    let o ← SquareOpt.fromMsg D.square o
    pure (.squareExact f o)
  | .squareExactFloat f o => do
    let o ← okOr o
    let o ← SquareOpt.fromMsg D.square o
    pure (.squareExactFloat f o)
  | .squareNearest f o => do
    let o ← okOr o
    let o ← SquareOpt.fromMsg D.square o
    pure (.squareNearest f o)

/-- `modulation_into_boxed` (server/modulation.rs) -/
def Modulation.fromMsg (D : Defaults) (m : MModulation) : R Modulation := do
  let v ← okOr m.modulation
  v.fromMsg D

/-! ## Silencer, SwapSegment -/

/-- `time` carries `Duration`s in nanoseconds -/
inductive Silencer
  | rate (intensity phase : Nat)
  | steps (intensity phase : Nat) (strict : Bool)
  | time (intensityNs phaseNs : Nat) (strict : Bool)
  deriving DecidableEq, Repr, Inhabited

inductive MSilencerV
  | rate (valueIntensity valuePhase : Nat)
  | time (valueIntensity valuePhase : Option Nat) (strictMode : Option Bool)
  | steps (valueIntensity valuePhase : Option Nat) (strictMode : Option Bool)
  deriving DecidableEq, Repr, Inhabited

structure MSilencer where
  config : Option MSilencerV
  deriving DecidableEq, Repr, Inhabited

/-- a completion time the message can carry: whole microseconds that fit `u32`
(`into_datagram_lightweight` of `Silencer<FixedCompletionTime>` refuses anything else) -/
def timeRepresentable (ns : Nat) : Bool := ns % 1000 = 0 && ns / 1000 < 2^32

/-- client side; `FixedCompletionTime` is the only conversion that can fail -/
def Silencer.toMsg : Silencer → R MSilencer
  | .rate i p => .ok ⟨some (.rate i p)⟩
  | .steps i p s => .ok ⟨some (.steps (some i) (some p) (some s))⟩
  | .time i p s =>
    if timeRepresentable i && timeRepresentable p then
      .ok ⟨some (.time (some (i / 1000)) (some (p / 1000)) (some s))⟩
    else .error .driver

/-- the `Datagram::Silencer` arm of `into_boxed_datagram` with the three `FromMessage` impls -/
def Silencer.fromMsg (D : Defaults) (m : MSilencer) : R Silencer := do
  match ← okOr m.config with
  | .rate i p => do
    let i ← u16TryFrom i
    let i ← nonZero .parse i
    let p ← u16TryFrom p
    let p ← nonZero .parse p
    pure (.rate i p)
  | .time i p s =>
    pure (.time ((i.map (· * 1000)).getD D.timeIntensityNs) ((p.map (· * 1000)).getD D.timePhaseNs)
      (s.getD D.timeStrict))
  | .steps i p s => do
    let i ← optOr i (fun v => do let v ← u16TryFrom v; nonZero .int v) D.stepsIntensity
    let p ← optOr p (fun v => do let v ← u16TryFrom v; nonZero .int v) D.stepsPhase
    pure (.steps i p (s.getD D.stepsStrict))

inductive SwapKind
  | gain | modulation | foci | gainStm
  deriving DecidableEq, Repr, Inhabited

structure Swap where
  kind : SwapKind
  segment : Nat
  transition : Transition
  deriving DecidableEq, Repr, Inhabited

structure MSwapV where
  kind : SwapKind
  segment : Int
  transitionMode : Option MTransition
  deriving DecidableEq, Repr, Inhabited

structure MSwap where
  variant : Option MSwapV
  deriving DecidableEq, Repr, Inhabited

/-- `segment as i32`, `Some(transition.into())` — the same in all four arms -/
def Swap.toMsg (s : Swap) : MSwap := ⟨some ⟨s.kind, segmentToMsg s.segment, some s.transition.toMsg⟩⟩

def Swap.fromMsg (m : MSwap) : R Swap := do
  let v ← okOr m.variant
  let seg ← segmentFromMsg v.segment
  let tr ← okOr v.transitionMode
  let tr ← Transition.fromMsg tr
  pure ⟨v.kind, seg, tr⟩

/-! ## STM -/

structure ControlPoint where
  pos : P3
  offset : Nat
  deriving DecidableEq, Repr, Inhabited

structure MControlPoint where
  pos : Option P3
  offset : Option Nat
  deriving DecidableEq, Repr, Inhabited

def ControlPoint.toMsg (c : ControlPoint) : MControlPoint := ⟨some c.pos, some c.offset⟩

def ControlPoint.fromMsg (D : Defaults) (m : MControlPoint) : R ControlPoint := do
  let p ← okOr m.pos
  let o ← optOr m.offset u8TryFrom D.cpOffset
  pure ⟨p, o⟩

structure ControlPoints where
  points : List ControlPoint
  intensity : Nat
  deriving DecidableEq, Repr, Inhabited

structure MControlPoints where
  points : List MControlPoint
  intensity : Option Nat
  deriving DecidableEq, Repr, Inhabited

def ControlPoints.toMsg (c : ControlPoints) : MControlPoints :=
  ⟨c.points.map ControlPoint.toMsg, some c.intensity⟩

/-- `ControlPoints::<N>::from_msg`: `…collect()?.as_slice().try_into().map_err(|_| DataParseError)?` -/
def ControlPoints.fromMsg (D : Defaults) (n : Nat) (m : MControlPoints) : R ControlPoints := do
  let ps ← mapR (ControlPoint.fromMsg D) m.points
  if ps.length ≠ n then throw .parse
  let i ← optOr m.intensity u8TryFrom D.cpsIntensity
  pure ⟨ps, i⟩

/-- `FociSTM<N, Vec<ControlPoints<N>>, SamplingConfig>`; `n` is the const generic -/
structure FociStm where
  n : Nat
  foci : List ControlPoints
  cfg : SamplingCfg
  deriving DecidableEq, Repr, Inhabited

structure MFociStm where
  foci : List MControlPoints
  samplingConfig : Option MSampling
  deriving DecidableEq, Repr, Inhabited

def FociStm.toMsg (f : FociStm) : MFociStm := ⟨f.foci.map ControlPoints.toMsg, some f.cfg.toMsg⟩

/-- `FociSTM::<N,_,_>::from_msg` -/
def FociStm.fromMsgN (D : Defaults) (n : Nat) (m : MFociStm) : R FociStm := do
  let foci ← mapR (ControlPoints.fromMsg D n) m.foci
  let sc ← okOr m.samplingConfig
  let sc ← SamplingCfg.fromMsg sc
  pure ⟨n, foci, sc⟩

/-- the `match msg.foci[0].points.len() { 1 => …, …, 8 => …, _ => Err }` dispatch of the server -/
def FociStm.fromMsg (D : Defaults) (m : MFociStm) : R FociStm :=
  match m.foci with
  | [] => .error .parse
  | first :: _ =>
    let n := first.points.length
    if 1 ≤ n ∧ n ≤ 8 then FociStm.fromMsgN D n m else .error .parse

structure GainStm where
  gains : List Gain
  cfg : SamplingCfg
  mode : Nat
  deriving DecidableEq, Repr, Inhabited

structure MGainStmOpt where
  mode : Option Int
  deriving DecidableEq, Repr, Inhabited

structure MGainStm where
  gains : List MGain
  samplingConfig : Option MSampling
  option : Option MGainStmOpt
  deriving DecidableEq, Repr, Inhabited

def GainStm.toMsg (g : GainStm) : MGainStm :=
  ⟨g.gains.map Gain.toMsg, some g.cfg.toMsg, some ⟨some (Int.ofNat g.mode)⟩⟩

/-- `GainStmMode::try_from(i32)`: 0 PhaseIntensityFull, 1 PhaseFull, 2 PhaseHalf -/
def gainStmModeFromMsg (v : Int) : R Nat :=
  if v = 0 then .ok 0 else if v = 1 then .ok 1 else if v = 2 then .ok 2 else .error .enumv

def GainStm.fromMsg (D : Defaults) (m : MGainStm) : R GainStm := do
  let gs ← mapR (Gain.fromMsg D) m.gains
  let sc ← okOr m.samplingConfig
  let sc ← SamplingCfg.fromMsg sc
  let o ← okOr m.option
  let mode ← optOr o.mode gainStmModeFromMsg D.gainStmMode
  pure ⟨gs, sc, mode⟩

/-! ## Datagrams -/

inductive SegInner
  | gain (g : Gain)
  | modulation (m : Modulation)
  | foci (f : FociStm)
  | gainStm (s : GainStm)
  deriving DecidableEq, Repr, Inhabited

inductive LoopInner
  | modulation (m : Modulation)
  | foci (f : FociStm)
  | gainStm (s : GainStm)
  deriving DecidableEq, Repr, Inhabited

/-- `forceFan v` / `readsFpga v`: the closure tabulated over the device indices -/
inductive Dg
  | clear
  | sync
  | forceFan (v : List Bool)
  | readsFpga (v : List Bool)
  | silencer (s : Silencer)
  | swap (s : Swap)
  | modulation (m : Modulation)
  | gain (g : Gain)
  | foci (f : FociStm)
  | gainStm (s : GainStm)
  | withSegment (inner : SegInner) (segment : Nat) (tr : Option Transition)
  | withLoop (inner : LoopInner) (lb : Loop) (segment : Nat) (tr : Option Transition)
  deriving DecidableEq, Repr, Inhabited

inductive MSegInner
  | gain (g : MGain)
  | modulation (m : MModulation)
  | foci (f : MFociStm)
  | gainStm (s : MGainStm)
  deriving DecidableEq, Repr, Inhabited

inductive MLoopInner
  | modulation (m : MModulation)
  | foci (f : MFociStm)
  | gainStm (s : MGainStm)
  deriving DecidableEq, Repr, Inhabited

structure MWithSegment where
  inner : Option MSegInner
  segment : Int
  transitionMode : Option MTransition
  deriving DecidableEq, Repr, Inhabited

structure MWithLoop where
  inner : Option MLoopInner
  loopBehavior : Option MLoop
  segment : Int
  transitionMode : Option MTransition
  deriving DecidableEq, Repr, Inhabited

inductive MDatagramV
  | clear
  | sync
  | forceFan (v : List Bool)
  | readsFpga (v : List Bool)
  | silencer (s : MSilencer)
  | swap (s : MSwap)
  | modulation (m : MModulation)
  | gain (g : MGain)
  | foci (f : MFociStm)
  | gainStm (s : MGainStm)
  | withSegment (w : MWithSegment)
  | withLoop (w : MWithLoop)
  deriving DecidableEq, Repr, Inhabited

structure MDatagram where
  datagram : Option MDatagramV
  deriving DecidableEq, Repr, Inhabited

def SegInner.toMsg : SegInner → MSegInner
  | .gain g => .gain g.toMsg
  | .modulation m => .modulation m.toMsg
  | .foci f => .foci f.toMsg
  | .gainStm s => .gainStm s.toMsg

def LoopInner.toMsg : LoopInner → MLoopInner
  | .modulation m => .modulation m.toMsg
  | .foci f => .foci f.toMsg
  | .gainStm s => .gainStm s.toMsg

/-- `DatagramLightweight::into_datagram_lightweight(self, Some(geometry))`. The STM datagrams are taken with a
`SamplingConfig` as their config (for which `sampling_config()` is the identity). -/
def Dg.toMsg : Dg → R MDatagram
  | .clear => .ok ⟨some .clear⟩
  | .sync => .ok ⟨some .sync⟩
  | .forceFan v => .ok ⟨some (.forceFan v)⟩
  | .readsFpga v => .ok ⟨some (.readsFpga v)⟩
  | .silencer s => do
    let m ← s.toMsg
    pure ⟨some (.silencer m)⟩
  | .swap s => .ok ⟨some (.swap s.toMsg)⟩
  | .modulation m => .ok ⟨some (.modulation m.toMsg)⟩
  | .gain g => .ok ⟨some (.gain g.toMsg)⟩
  | .foci f => .ok ⟨some (.foci f.toMsg)⟩
  | .gainStm s => .ok ⟨some (.gainStm s.toMsg)⟩
  | .withSegment inner seg tr =>
    .ok ⟨some (.withSegment ⟨some inner.toMsg, segmentToMsg seg, tr.map Transition.toMsg⟩)⟩
  | .withLoop inner lb seg tr =>
    .ok ⟨some (.withLoop ⟨some inner.toMsg, some lb.toMsg, segmentToMsg seg, tr.map Transition.toMsg⟩)⟩

/-- `msg.transition_mode.map(TransitionMode::from_msg).transpose()?` -/
def optTransitionFromMsg : Option MTransition → R (Option Transition)
  | none => .ok none
  | some t => do
    let t ← Transition.fromMsg t
    pure (some t)

def MSegInner.fromMsg (D : Defaults) : MSegInner → R SegInner
  | .gain g => do let g ← Gain.fromMsg D g; pure (.gain g)
  | .modulation m => do let m ← Modulation.fromMsg D m; pure (.modulation m)
  | .foci f => do let f ← FociStm.fromMsg D f; pure (.foci f)
  | .gainStm s => do let s ← GainStm.fromMsg D s; pure (.gainStm s)

def MLoopInner.fromMsg (D : Defaults) : MLoopInner → R LoopInner
  | .modulation m => do let m ← Modulation.fromMsg D m; pure (.modulation m)
  | .foci f => do let f ← FociStm.fromMsg D f; pure (.foci f)
  | .gainStm s => do let s ← GainStm.fromMsg D s; pure (.gainStm s)

/-- `into_boxed_datagram(datagram, num_devices)` (server/mod.rs) -/
def intoBoxedDatagram (D : Defaults) (numDev : Nat) : MDatagramV → R Dg
  | .clear => .ok .clear
  | .sync => .ok .sync
  | .forceFan v => if v.length ≠ numDev then .error .parse else .ok (.forceFan v)
  | .readsFpga v => if v.length ≠ numDev then .error .parse else .ok (.readsFpga v)
  | .silencer s => do let s ← Silencer.fromMsg D s; pure (.silencer s)
  | .swap s => do let s ← Swap.fromMsg s; pure (.swap s)
  | .modulation m => do let m ← Modulation.fromMsg D m; pure (.modulation m)
  | .gain g => do let g ← Gain.fromMsg D g; pure (.gain g)
  | .foci f => do let f ← FociStm.fromMsg D f; pure (.foci f)
  | .gainStm s => do let s ← GainStm.fromMsg D s; pure (.gainStm s)
  | .withSegment w => do
    let seg ← segmentFromMsg w.segment
    let tr ← optTransitionFromMsg w.transitionMode
    let inner ← okOr w.inner
    let inner ← inner.fromMsg D
    pure (.withSegment inner seg tr)
  | .withLoop w => do
    let seg ← segmentFromMsg w.segment
    let tr ← optTransitionFromMsg w.transitionMode
    let lb ← okOr w.loopBehavior
    let lb ← Loop.fromMsg lb
    let inner ← okOr w.inner
    let inner ← inner.fromMsg D
    pure (.withLoop inner lb seg tr)

/-- `d.datagram.ok_or(DataParseError)?` then `into_boxed_datagram` -/
def Dg.fromMsg (D : Defaults) (numDev : Nat) (m : MDatagram) : R Dg := do
  let v ← okOr m.datagram
  intoBoxedDatagram D numDev v

/-! ### What the rebuilt datagram does when the controller generates operations for device `idx`
(`move |dev| map[dev.idx()]` in `ForceFan::from_msg` / `ReadsFPGAState::from_msg`) -/

def flagAt (v : List Bool) (idx : Nat) : R Bool :=
  match v[idx]? with
  | some b => .ok b
  | none => .error .panic

def Dg.generate (d : Dg) (idx : Nat) : R Unit :=
  match d with
  | .forceFan v => do let _ ← flagAt v idx; pure ()
  | .readsFpga v => do let _ ← flagAt v idx; pure ()
  | _ => .ok ()

/-! ## Tuples, requests -/

/-- `one d` is `(d, NullDatagram)` on the server -/
inductive Tuple
  | one (d : Dg)
  | two (a b : Dg)
  deriving DecidableEq, Repr, Inhabited

structure MTuple where
  first : Option MDatagram
  second : Option MDatagram
  deriving DecidableEq, Repr, Inhabited

/-- `lightweight::Datagram::into_lightweight(self, geometry)` for `T` and `(T1, T2)` -/
def Tuple.toMsg : Tuple → R MTuple
  | .one d => do
    let m ← d.toMsg
    pure ⟨some m, none⟩
  | .two a b => do
    let ma ← a.toMsg
    let mb ← b.toMsg
    pure ⟨some ma, some mb⟩

/-- `into_datagram_tuple` -/
def Tuple.fromMsg (D : Defaults) (numDev : Nat) (m : MTuple) : R Tuple := do
  let d1 ← okOr m.first
  let d1 ← Dg.fromMsg D numDev d1
  match m.second with
  | some d2 => do
    let d2 ← Dg.fromMsg D numDev d2
    pure (.two d1 d2)
  | none => pure (.one d1)

def Tuple.generate (t : Tuple) (idx : Nat) : R Unit :=
  match t with
  | .one d => d.generate idx
  | .two a b => do a.generate idx; b.generate idx

/-! ### SenderOption -/

inductive Sleeper
  | std (timerResolution : Option Nat)
  | spin (nativeAccuracyNs : Nat) (strategy : Nat)
  | async (timerResolution : Option Nat)
  deriving DecidableEq, Repr, Inhabited

inductive MSleeper
  | std (timerResolution : Option Nat)
  | spin (nativeAccuracyNs : Nat) (spinStrategy : Int)
  | waitable
  | async (timerResolution : Option Nat)
  deriving DecidableEq, Repr, Inhabited

/-- intervals and timeout are `Duration`s in nanoseconds; `parallel`: 0 Auto, 1 On, 2 Off -/
structure SenderOpt where
  sendIntervalNs : Nat
  receiveIntervalNs : Nat
  timeoutNs : Option Nat
  parallel : Nat
  sleeper : Sleeper
  deriving DecidableEq, Repr, Inhabited

structure MSenderOpt where
  sendIntervalNs : Nat
  receiveIntervalNs : Nat
  timeoutNs : Option Nat
  parallel : Int
  sleeper : Option MSleeper
  deriving DecidableEq, Repr, Inhabited

/-- `timer_resolution: Option<NonZeroU32>` ↦ `.map(|t| t.get())`; strategy 0 YieldThread, 1 SpinLoopHint -/
def Sleeper.toMsg : Sleeper → MSleeper
  | .std r => .std r
  | .spin a s => .spin a (Int.ofNat s)
  | .async r => .async r

/-- `as_nanos() as u64` -/
def SenderOpt.toMsg (o : SenderOpt) : MSenderOpt :=
  ⟨o.sendIntervalNs % 2^64, o.receiveIntervalNs % 2^64, o.timeoutNs.map (· % 2^64), Int.ofNat o.parallel,
    some o.sleeper.toMsg⟩

/-- `timer_resolution.and_then(NonZeroU32::new)` -/
def timerResFromMsg : Option Nat → Option Nat
  | some 0 => none
  | o => o

def Sleeper.fromMsg : MSleeper → R Sleeper
  | .std r => .ok (.std (timerResFromMsg r))
  | .spin a s =>
    if s = 0 then .ok (.spin a 0) else if s = 1 then .ok (.spin a 1) else .error .enumv
  | .waitable => .error .status
  | .async r => .ok (.async (timerResFromMsg r))

def SenderOpt.fromMsg (m : MSenderOpt) : R SenderOpt := do
  let par ← (if m.parallel = 0 then .ok 0 else if m.parallel = 1 then .ok 1 else if m.parallel = 2 then .ok 2
    else .error .enumv : R Nat)
  let sl ← okOr m.sleeper
  let sl ← Sleeper.fromMsg sl
  pure ⟨m.sendIntervalNs, m.receiveIntervalNs, m.timeoutNs, par, sl⟩

/-! ### `send` -/

structure MSendReq where
  datagram : Option MTuple
  senderOption : Option MSenderOpt
  deriving DecidableEq, Repr, Inhabited

/-- what `LightweightServer::send` hands to the controller (when a controller is open):
`Err(Status)` ↦ `.error e`. -/
def serverSend (D : Defaults) (numDev : Nat) (req : MSendReq) : R (Tuple × Option SenderOpt) := do
  let t ← okOr req.datagram
  let t ← Tuple.fromMsg D numDev t
  match req.senderOption with
  | some o => do
    let o ← SenderOpt.fromMsg o
    pure (t, some o)
  | none => pure (t, none)

/-- the client's `Controller::send` / `Sender::send` request -/
def clientSend (t : Tuple) (o : Option SenderOpt) : R MSendReq := do
  let m ← t.toMsg
  pure ⟨some m, o.map SenderOpt.toMsg⟩

/-- after a successful parse the controller generates operations for every device `0 … numDev-1` -/
def generateAll (t : Tuple) : Nat → R Unit
  | 0 => .ok ()
  | n + 1 => do generateAll t n; t.generate n

/-- parse + generate: `.error .panic` iff the server would abort -/
def serve (D : Defaults) (numDev : Nat) (req : MSendReq) : R (Tuple × Option SenderOpt) := do
  let r ← serverSend D numDev req
  generateAll r.1 numDev
  pure r

/-! ### `group_send`

Client: `datagram_map: HashMap<K, DatagramTuple>` is flattened in *some* order into `(datagram_key, datagrams)`;
`keys[dev] = -1` if the device is disabled or has no key or its key is not in the map, else the position of its
key. Server: `keys[dev.idx()] < 0 ↦ None`, else `Some(key as usize)`, looked up in
`HashMap::from_iter(datagrams.into_iter().enumerate())`. -/

/-- position of the first `k` in `ks` -/
def position (k : Nat) : List Nat → Option Nat
  | [] => none
  | x :: xs => if x = k then some 0 else (position k xs).map (· + 1)

/-- `enable`/`keyMap` are per device; `entries` the flattened map -/
def clientKeys (enable : List Bool) (keyMap : List (Option Nat)) (entryKeys : List Nat) : List Int :=
  (enable.zip keyMap).map fun (en, k) =>
    if !en then -1
    else match k with
      | none => -1
      | some k => match position k entryKeys with
        | some i => Int.ofNat i
        | none => -1

structure MGroupReq where
  keys : List Int
  datagrams : List MTuple
  senderOption : Option MSenderOpt
  deriving DecidableEq, Repr, Inhabited

inductive GroupOutcome
  | lengthMismatch
  | go (keys : List (Option Nat)) (datagrams : List Tuple) (o : Option SenderOpt)
  deriving DecidableEq, Repr, Inhabited

/-- `LightweightServer::group_send` up to the call of the controller's `group_send` -/
def serverGroup (D : Defaults) (numDev : Nat) (req : MGroupReq) : R GroupOutcome := do
  let ds ← mapR (Tuple.fromMsg D numDev) req.datagrams
  if req.keys.length ≠ numDev then pure .lengthMismatch
  else
    let ks := req.keys.map fun k => if k < 0 then none else some k.toNat
    match req.senderOption with
    | some o => do
      let o ← SenderOpt.fromMsg o
      pure (.go ks ds (some o))
    | none => pure (.go ks ds none)

/-- the datagram the server's controller sends to device `idx` -/
def serverSelect (ks : List (Option Nat)) (ds : List Tuple) (idx : Nat) : Option Tuple :=
  match ks[idx]? with
  | some (some k) => ds[k]?
  | _ => none

end Autd3.Lw
