/-!
# Exact IEEE-754 binary floating point, as far as the modulation code needs it

A float is `nan`, `±inf` or a finite value carried as an exact rational (core `Rat`).  Every
operation computes the exact rational result and rounds it **once**, to nearest / ties to even, to
`p` significant bits with the unit exponent not below `emin` (gradual underflow); a rounded
magnitude of `2^emax` or more becomes an infinity.  That is the IEEE definition of `+ - * /` and of
the integer→float conversions, so the model is exact, not an approximation.

Signed zeros are not distinguished (`fin 0`): in the modelled code a zero is never a divisor and
never reaches an observable output other than through `as uN` (where `-0.0` and `0.0` agree).

No imports outside core (this file is linked into `autd3model`).
-/
namespace Autd3.Flt

/-- `2^e` for an integer exponent -/
def pow2 (e : Int) : Rat :=
  if 0 ≤ e then ((2 ^ e.toNat : Nat) : Rat) else 1 / ((2 ^ (-e).toNat : Nat) : Rat)

/-- `⌊log2 (n/d)⌋` for `n, d > 0` -/
def ilog2 (n d : Nat) : Int :=
  if d ≤ n then (Nat.log2 (n / d) : Int)
  else
    let k := Nat.log2 (d / n)
    if n * 2 ^ k = d then -(k : Int) else -((k : Int) + 1)

/-- `a / b` rounded to the nearest integer, ties to even (`b > 0`) -/
def rneDiv (a b : Nat) : Nat :=
  let q := a / b
  let r := a % b
  if 2 * r < b then q else if b < 2 * r then q + 1 else if q % 2 = 0 then q else q + 1

/-- exponent of the unit in the last place used for the magnitude `n/d > 0` -/
def ulpExp (p : Nat) (emin : Int) (n d : Nat) : Int := max emin (ilog2 n d - ((p : Int) - 1))

/-- `n/d > 0` rounded to `p` significant bits (unit exponent ≥ `emin`, unbounded above):
`rne((n/d) / 2^e) · 2^e` with `e = ulpExp`, computed with one integer division (when `2^-e`
divides `d` the quotient is formed with the smaller numbers `n / (d / 2^-e)`) -/
def roundPos (p : Nat) (emin : Int) (n d : Nat) : Rat :=
  let e := ulpExp p emin n d
  if 0 ≤ e then ((rneDiv n (d * 2 ^ e.toNat) * 2 ^ e.toNat : Nat) : Rat)
  else
    let k := (-e).toNat
    if d % 2 ^ k = 0 then mkRat (rneDiv n (d / 2 ^ k) : Nat) (2 ^ k)
    else mkRat (rneDiv (n * 2 ^ k) d : Nat) (2 ^ k)

/-- `n/d` (in lowest terms) is `n·2^-j` with `n < 2^p` and `-j ≥ emin`: a value of the format,
which rounding leaves unchanged -/
def isRep (p : Nat) (emin : Int) (n d : Nat) : Bool :=
  Nat.log2 n < p && d == 2 ^ Nat.log2 d && Nat.log2 d ≤ (-emin).toNat

/-- round a rational to `p` significant bits (unit exponent ≥ `emin`), exponent unbounded above -/
def roundTo (p : Nat) (emin : Int) (x : Rat) : Rat :=
  if x.num = 0 then 0
  else if isRep p emin x.num.natAbs x.den then x
  else if x.num < 0 then Neg.neg (roundPos p emin x.num.natAbs x.den)
  else roundPos p emin x.num.natAbs x.den

inductive Fl where
  | nan
  | inf (neg : Bool)
  | fin (x : Rat)
  deriving Inhabited

structure Fmt where
  p : Nat
  emin : Int
  /-- rounded magnitudes `≥ 2^emax` overflow -/
  emax : Int

def b32 : Fmt := ⟨24, -149, 128⟩
def b64 : Fmt := ⟨53, -1074, 1024⟩

namespace Fmt

/-- the float nearest to the exact value `x` -/
def rnd (f : Fmt) (x : Rat) : Fl :=
  let r := roundTo f.p f.emin x
  -- `|r| ≥ 2^emax` ⇔ `⌊log2 |r|⌋ ≥ emax`
  if r.num = 0 then .fin r
  else if f.emax ≤ ilog2 r.num.natAbs r.den then .inf (decide (r.num < 0))
  else .fin r

/-- `n as f32` / `n as f64` for an unsigned integer -/
def ofNat (f : Fmt) (n : Nat) : Fl := f.rnd (n : Rat)

def mul (f : Fmt) : Fl → Fl → Fl
  | .nan, _ | _, .nan => .nan
  | .inf a, .inf b => .inf (a != b)
  | .inf a, .fin y => if y.num = 0 then .nan else .inf (a != decide (y.num < 0))
  | .fin x, .inf b => if x.num = 0 then .nan else .inf (decide (x.num < 0) != b)
  | .fin x, .fin y => f.rnd (x * y)

def div (f : Fmt) : Fl → Fl → Fl
  | .nan, _ | _, .nan => .nan
  | .inf _, .inf _ => .nan
  | .inf a, .fin y => .inf (a != decide (y.num < 0))
  | .fin _, .inf _ => .fin 0
  | .fin x, .fin y =>
    if y.num = 0 then (if x.num = 0 then .nan else .inf (decide (x.num < 0)))   -- divisor taken as `+0`
    else f.rnd (x / y)

def add (f : Fmt) : Fl → Fl → Fl
  | .nan, _ | _, .nan => .nan
  | .inf a, .inf b => if a = b then .inf a else .nan
  | .inf a, .fin _ => .inf a
  | .fin _, .inf b => .inf b
  | .fin x, .fin y => f.rnd (x + y)

end Fmt

namespace Fl

def neg : Fl → Fl
  | .nan => .nan
  | .inf a => .inf (!a)
  | .fin x => .fin (-x)

def abs : Fl → Fl
  | .nan => .nan
  | .inf _ => .inf false
  | .fin x => .fin (if x.num < 0 then -x else x)

def isNaN : Fl → Bool
  | .nan => true
  | _ => false

/-- IEEE `<` (false when either side is NaN) -/
def lt : Fl → Fl → Bool
  | .nan, _ | _, .nan => false
  | .inf a, .inf b => a && !b
  | .inf a, .fin _ => a
  | .fin _, .inf b => !b
  | .fin x, .fin y => decide (x < y)

/-- IEEE `<=` -/
def le : Fl → Fl → Bool
  | .nan, _ | _, .nan => false
  | .inf a, .inf b => a || !b
  | .inf a, .fin _ => a
  | .fin _, .inf b => !b
  | .fin x, .fin y => decide (x ≤ y)

/-- IEEE `==` (`-0 == 0` holds because zeros are not distinguished) -/
def eq : Fl → Fl → Bool
  | .inf a, .inf b => a == b
  | .fin x, .fin y => decide (x = y)
  | _, _ => false

/-- `floor()` — exact in every binary format -/
def floor : Fl → Fl
  | .fin x => .fin (x.floor : Int)
  | v => v

/-- `ceil()` = `-floor(-x)` — exact -/
def ceil : Fl → Fl
  | .fin x => .fin ((-((-x).floor) : Int) : Rat)
  | v => v

/-- the integer part toward zero -/
def truncInt (x : Rat) : Int := if x.num < 0 then -((-x).floor) else x.floor

/-- `round()`: nearest integer, ties away from zero — exact -/
def round : Fl → Fl
  | .fin x => .fin (if x.num < 0 then -(((-x + 1 / 2).floor : Int) : Rat) else (((x + 1 / 2).floor : Int) : Rat))
  | v => v

/-- `fract()` = `x - trunc(x)` — exact -/
def fract : Fl → Fl
  | .fin x => .fin (x - (truncInt x : Rat))
  | .inf _ => .nan
  | .nan => .nan

/-- Rust's saturating `as uN` (`max = 2^N - 1`): NaN ↦ 0, negative ↦ 0, large ↦ max -/
def toNatSat (max : Nat) : Fl → Nat
  | .nan => 0
  | .inf n => if n then 0 else max
  | .fin x => if x.num < 0 then 0 else Nat.min x.floor.toNat max

/-- Rust's saturating `as iN` (range `lo ..= hi`): NaN ↦ 0 -/
def toIntSat (lo hi : Int) : Fl → Int
  | .nan => 0
  | .inf n => if n then lo else hi
  | .fin x => let t := truncInt x; if t < lo then lo else if hi < t then hi else t

end Fl

/-- decode a binary32 bit pattern -/
def ofBits32 (b : Nat) : Fl :=
  let s : Nat := (b / 2 ^ 31) % 2
  let ex : Nat := (b / 2 ^ 23) % 256
  let man : Nat := b % 2 ^ 23
  if ex = 255 then (if man = 0 then .inf (s = 1) else .nan)
  else
    let mag : Rat := if ex = 0 then (man : Rat) * pow2 (-149) else ((2 ^ 23 + man : Nat) : Rat) * pow2 ((ex : Int) - 150)
    .fin (if s = 1 then -mag else mag)

/-- correctly rounded binary32 square root of a non-negative finite value (used on 256 inputs) -/
def sqrt32 : Fl → Fl
  | .nan => .nan
  | .inf n => if n then .nan else .inf false
  | .fin x =>
    if x.num < 0 then .nan else if x.num = 0 then .fin 0
    else
      -- x = num/den;  sqrt x = sqrt(num·den)/den.  Scale by 4^k so that the integer root has ≥ 64 bits,
      -- then s ≤ sqrt(N) < s+1 and the exact root is strictly between unless N is a perfect square.
      let num := x.num.toNat
      let den := x.den
      let k := 64 + Nat.log2 den
      let N := num * den * 4 ^ k
      let s := Nat.sqrt N
      -- sqrt x = sqrt(N) / (den · 2^k); sticky: add a half unit far below the rounding position
      let approx : Rat := (if s * s = N then ((2 * s : Nat) : Rat) else ((2 * s + 1 : Nat) : Rat)) / ((2 * den * 2 ^ k : Nat) : Rat)
      b32.rnd approx

end Autd3.Flt
