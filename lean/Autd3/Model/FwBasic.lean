import Autd3.Gen.CpuParams
import Autd3.Gen.FpgaParams
import Autd3.Gen.Layout
/-!
Firmware model, part 1: bytes, words, panics, the swap chain
(`autd3-firmware-emulator/src/fpga/emulator/swapchain.rs`).

Conventions: every Rust integer is a `Nat` with the truncation written where Rust truncates;
every Rust panic (`unreachable!()`, slice index, `unwrap`, division by zero, arithmetic overflow in a
build with overflow checks) is an explicit `.error` value.  No imports outside core + `Gen`.
-/
namespace Autd3.Fw

inductive Panic where
  | unreachable (site : String)
  | index (site : String)
  | overflow (site : String)
  | divZero (site : String)
  | unwrapNone (site : String)
deriving Repr, DecidableEq

abbrev M := Except Panic

/-- total read with default 0; used only where the Rust index is provably in range for a
well-formed state (array sizes never change), or behind an explicit bound test -/
def rd (a : Array Nat) (i : Nat) : Nat := a[i]?.getD 0

def u8at (d : Array Nat) (i : Nat) : Nat := rd d i % 256
def u16at (d : Array Nat) (i : Nat) : Nat := u8at d i + 256 * u8at d (i + 1)
def u64at (d : Array Nat) (i : Nat) : Nat :=
  u16at d i + 65536 * u16at d (i + 2) + 4294967296 * u16at d (i + 4) + 281474976710656 * u16at d (i + 6)

def hasFlag (x f : Nat) : Bool := x &&& f == f

/-- segment-indexed pair (`HashMap<Segment, _>` / `[T; 2]`) -/
def sel (p : Nat × Nat) (seg : Nat) : Nat := if seg = 0 then p.1 else p.2
def setSel (p : Nat × Nat) (seg : Nat) (v : Nat) : Nat × Nat := if seg = 0 then (v, p.2) else (p.1, v)

/-! ### Swap chain -/

inductive SwState where
  | waitStart | finiteLoop | infiniteLoop
deriving Repr, DecidableEq

/-- decoded `TransitionMode` as read back from the controller registers -/
inductive TMode where
  | syncIdx | sysTime (t : Nat) | gpio (g : Nat) | ext | immediate
deriving Repr, DecidableEq

structure Swap where
  sysTime : Nat := 0
  rep : Nat := 0
  startLap : Nat × Nat := (0, 0)
  freqDiv : Nat × Nat := (10, 10)
  cycle : Nat × Nat := (1, 1)
  ticOff : Nat × Nat := (0, 0)
  cur : Nat := 0
  req : Nat := 0
  curIdx : Nat := 0
  mode : TMode := .immediate
  stop : Bool := false
  extMode : Bool := false
  extLastLap : Nat := 0
  state : SwState := .waitStart
deriving Repr, DecidableEq

/-- `fpga_sys_time`: `(sys_time * 20480000) / 1e9` -/
def fpgaSysTime (t : Nat) : Nat := (t * Autd3.Gen.Fpga.FPGA_MAIN_CLK_FREQ) / 1000000000

/-- `lap_and_idx` — divides by `freq_div[seg]` and by `cycle[seg]` -/
def Swap.lapAndIdx (w : Swap) (seg t : Nat) : M (Nat × Nat) :=
  let fd := sel w.freqDiv seg
  let b := sel w.cycle seg
  if fd = 0 then .error (.divZero "lap_and_idx: freq_div")
  else if b = 0 then .error (.divZero "lap_and_idx: cycle")
  else
    let a := ((fpgaSysTime t) >>> 9) / fd
    .ok (a / b, a % b)

/-- `Swapchain::set` -/
def Swap.set (w : Swap) (t rep freqDiv cycle reqSeg : Nat) (mode : TMode) : M Swap := do
  let w ←
    if w.cur = reqSeg then do
      let w := { w with stop := false, extMode := mode == TMode.ext }
      let (lap, _) ← w.lapAndIdx reqSeg t
      pure { w with extLastLap := lap, ticOff := setSel w.ticOff reqSeg 0, state := .infiniteLoop }
    else if rep = 0xFFFF then do
      let w := { w with stop := false, cur := reqSeg, extMode := mode == TMode.ext }
      let (lap, _) ← w.lapAndIdx reqSeg t
      pure { w with extLastLap := lap, ticOff := setSel w.ticOff reqSeg 0, state := .infiniteLoop }
    else
      pure { w with rep := rep, req := reqSeg, state := .waitStart }
  pure { w with sysTime := t, freqDiv := setSel w.freqDiv reqSeg freqDiv,
                cycle := setSel w.cycle reqSeg cycle, mode := mode }

/-- `Swapchain::update` -/
def Swap.update (w : Swap) (gpioIn : Nat → Bool) (t : Nat) : M Swap := do
  let (lastLap, _) ← w.lapAndIdx w.req w.sysTime
  let (lap, idx) ← w.lapAndIdx w.req t
  let w ← match w.state with
    | .waitStart =>
      match w.mode with
      | .syncIdx =>
        if lastLap < lap then
          pure { w with stop := false, startLap := setSel w.startLap w.req lap,
                        ticOff := setSel w.ticOff w.req 0, cur := w.req, state := .finiteLoop }
        else pure w
      | .sysTime v =>
        if v ≤ t then
          pure { w with stop := false, startLap := setSel w.startLap w.req lap, cur := w.req,
                        ticOff := setSel w.ticOff w.req idx, state := .finiteLoop }
        else pure w
      | .gpio g =>
        if gpioIn g then
          pure { w with stop := false, startLap := setSel w.startLap w.req lap, cur := w.req,
                        ticOff := setSel w.ticOff w.req idx, state := .finiteLoop }
        else pure w
      | _ => .error (.unreachable "Swapchain::update: WaitStart with Ext/Immediate")
    | .finiteLoop =>
      let sl := sel w.startLap w.cur
      let w := if sl + w.rep + 1 < lap then { w with stop := true } else w
      let w := if sl + w.rep < lap ∧ sel w.ticOff w.cur ≤ idx then { w with stop := true } else w
      pure w
    | .infiniteLoop =>
      if w.extMode ∧ w.extLastLap < lap ∧ w.extLastLap % 2 ≠ lap % 2 then
        pure { w with extLastLap := lap, cur := if w.cur = 0 then 1 else 0 }
      else pure w
  let (_, idx) ← w.lapAndIdx w.cur t
  let c := sel w.cycle w.cur
  if w.stop then
    if c = 0 then .error (.overflow "Swapchain::update: cycle - 1") else pure { w with curIdx := c - 1 }
  else
    let off := sel w.ticOff w.cur
    if idx + c < off then .error (.overflow "Swapchain::update: idx + cycle - tic_idx_offset")
    else if c = 0 then .error (.divZero "Swapchain::update: % cycle")
    else pure { w with curIdx := (idx + c - off) % c }

end Autd3.Fw
