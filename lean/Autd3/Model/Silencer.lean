/-
Model of `autd3-firmware-emulator/src/fpga/emulator/silencer.rs`
(`SilencerEmulator<Phase>` and `SilencerEmulator<EmitIntensity>`): same branch structure,
`i32`/`u16`/`u8` values as `Int`/`Nat` with the truncations written where Rust writes them.
No imports: this file is linked into the `autd3model` driver.
-/
namespace Autd3.Silencer

structure Sil where
  current : Int          -- i32
  fixedUpdateRate : Bool
  value : Nat            -- u16, non-zero (NonZeroU16 on the Rust side)
  currentTarget : Nat    -- u8
  diffMem : Nat          -- u8
  stepRemMem : Nat       -- u16
deriving Repr, DecidableEq

/-- `silencer_emulator_{phase,intensity}(initial)` -/
def Sil.new (fixed : Bool) (value initial : Nat) : Sil :=
  { current := (initial : Int) * 256, fixedUpdateRate := fixed, value := value,
    currentTarget := initial, diffMem := 0, stepRemMem := 0 }

/-- `silencer_emulator_{phase,intensity}_continue_with(prev)`: a new emulator object takes over the running filter
(`current`, `current_target`, `diff_mem`, `step_rem_mem`) under the device's configuration at that moment -/
def Sil.continueWith (s : Sil) (fixed : Bool) (value : Nat) : Sil :=
  { s with fixedUpdateRate := fixed, value := value }

/-- the part of `update_rate` shared by both filters, after `diff` has been computed -/
def Sil.rateOfDiff (s : Sil) (input diff : Nat) : Sil × Nat :=
  let s := { s with currentTarget := input }
  let rst := diff != 0
  let s := if rst then { s with diffMem := diff } else s
  let diff := if rst then diff else s.diffMem
  let stepQuo := (diff * 256) / s.value
  let stepRem := (diff * 256) % s.value
  if rst then ({ s with stepRemMem := stepRem }, stepQuo)
  else if s.stepRemMem = 0 then (s, stepQuo)
  else ({ s with stepRemMem := s.stepRemMem - 1 }, stepQuo + 1)

def absDiff (a b : Nat) : Nat := if a < b then b - a else a - b

/-- `SilencerEmulator<EmitIntensity>::update_rate` -/
def Sil.updateRateI (s : Sil) (input : Nat) : Sil × Nat :=
  if s.fixedUpdateRate then (s, s.value)
  else s.rateOfDiff input (absDiff input s.currentTarget)

/-- `SilencerEmulator<Phase>::update_rate` -/
def Sil.updateRateP (s : Sil) (input : Nat) : Sil × Nat :=
  if s.fixedUpdateRate then (s, s.value)
  else
    let diff := absDiff input s.currentTarget
    let diff := if diff ≥ 128 then (256 - diff) % 256 else diff
    s.rateOfDiff input diff

/-- the common tail of both `apply`s: move `current` by at most `rate` toward `current + step` -/
def moveBy (current step : Int) (rate : Nat) : Int :=
  if step < 0 then
    if -(rate : Int) ≤ step then current + step else current - rate
  else
    if step ≤ rate then current + step else current + rate

/-- `(self.current >> 8) as u8` -/
def outByte (current : Int) : Nat := ((current / 256) % 256).toNat

/-- `SilencerEmulator<EmitIntensity>::apply` -/
def Sil.applyI (s : Sil) (input : Nat) : Sil × Nat :=
  let (s, rate) := s.updateRateI input
  let step := (input : Int) * 256 - s.current
  let c := moveBy s.current step rate
  ({ s with current := c }, outByte c)

/-- the phase wrap: bring the raw step into `[-32768, 32768]` -/
def wrapStep (step : Int) : Int :=
  if step < 0 then (if -32768 ≤ step then step else step + 65536)
  else (if step ≤ 32768 then step else step - 65536)

/-- `SilencerEmulator<Phase>::apply`; `current` is kept in `0..65536` (16-bit register). -/
def Sil.applyP (s : Sil) (input : Nat) : Sil × Nat :=
  let (s, rate) := s.updateRateP input
  let step := wrapStep ((input : Int) * 256 - s.current)
  let c := (moveBy s.current step rate) % 65536
  ({ s with current := c }, outByte c)

/-- run `apply` on a list of targets, collecting outputs -/
def Sil.runI (s : Sil) : List Nat → Sil × List Nat
  | [] => (s, [])
  | t :: ts => let (s', o) := s.applyI t; let (s'', os) := s'.runI ts; (s'', o :: os)

def Sil.runP (s : Sil) : List Nat → Sil × List Nat
  | [] => (s, [])
  | t :: ts => let (s', o) := s.applyP t; let (s'', os) := s'.runP ts; (s'', o :: os)

end Autd3.Silencer
