/-!
Model of the index arithmetic of `NalgebraBackend::generate_propagation_matrix`
(`autd3-gain-holo/src/backend_nalgebra.rs`), the branch that fills an *uninitialised* `m × n`
column-major matrix through raw pointers, one task per enabled device under `par_bridge()`:

```text
let num_transducers = [0].chain(geometry.iter().scan(0, |state, dev| { *state += count(dev); Some(*state) }))
let n = num_transducers.last().unwrap();
let mut r = uninit_mat(foci.len(), n);  let ptr = Ptr(r.as_mut_ptr());
par_for_each!(geometry.devices(), move |dev| {
    let mut ptr = ptr.add(foci.len() * num_transducers[dev.idx()]);
    dev.iter().for_each(|tr| [if filter[tr.idx()]] foci.iter().for_each(|f| ptr.write(propagate(tr, f))))
```

Values are not modelled (floats); a written cell carries the *tag* `(device, transducer, focus)` of
the `propagate` call whose result is stored there.  Also the safe branch (`from_rows` of rows built
with `from_iterator`) as the specification of the matrix layout.
-/
namespace Autd3.HoloFill

inductive Panic where
  /-- `num_transducers[dev.idx()]` or `filter[tr.idx()]` out of range -/
  | index (what : String)
  /-- a write outside the allocation (undefined behaviour in Rust) -/
  | oob (addr : Nat)
deriving Repr, DecidableEq

structure HDev where
  enable : Bool
  /-- `dev.num_transducers()` -/
  numTr : Nat
  /-- `filter.get(&dev.idx())`; only looked at when a filter map is passed -/
  filter : Option (List Bool)
deriving Repr

/-- `(device, transducer, focus)` -/
abbrev Tag := Nat × Nat × Nat

/-- the increment inside the `scan` closure -/
def countOf (hasFilter : Bool) (d : HDev) : Nat :=
  if d.enable then
    if hasFilter then
      match d.filter with
      | some f => f.count true      -- `count_ones()`
      | none => 0
    else d.numTr
  else 0

def scanFrom (hasFilter : Bool) (acc : Nat) : List HDev → List Nat
  | [] => []
  | d :: ds => (acc + countOf hasFilter d) :: scanFrom hasFilter (acc + countOf hasFilter d) ds

/-- `num_transducers` -/
def prefixSums (hasFilter : Bool) (devs : List HDev) : List Nat := 0 :: scanFrom hasFilter 0 devs

/-- `n = num_transducers.last().copied().unwrap()`: the list starts with `0`, so `unwrap` cannot fail
and the last element is the last running sum, or that `0` when there is no device -/
def totalCols (hasFilter : Bool) (devs : List HDev) : Nat :=
  (scanFrom hasFilter 0 devs).getLastD 0

/-- `foci.iter().for_each(|f| ptr.write(..))`: `m` consecutive cells from `ptr` -/
def trWrites (ptr m dev tr : Nat) : List (Nat × Tag) := (List.range m).map fun i => (ptr + i, (dev, tr, i))

/-- `dev.iter().for_each(..)` with the moving pointer; `sel tr` is the test guarding the writes -/
def trLoop (m dev : Nat) (sel : Nat → Except Panic Bool) : List Nat → Nat → Except Panic (List (Nat × Tag))
  | [], _ => .ok []
  | tr :: trs, ptr =>
    match sel tr with
    | .error p => .error p
    | .ok true =>
      match trLoop m dev sel trs (ptr + m) with
      | .error p => .error p
      | .ok rest => .ok (trWrites ptr m dev tr ++ rest)
    | .ok false => trLoop m dev sel trs ptr

/-- `filter[tr.idx()]` (`BitVec` indexing panics out of range) -/
def bitAt (f : List Bool) (tr : Nat) : Except Panic Bool :=
  match f[tr]? with
  | some b => .ok b
  | none => .error (.index "filter[tr.idx()]")

/-- the closure executed for the device with `dev.idx() = i`: the cells it writes, in order -/
def devWrites (hasFilter : Bool) (m : Nat) (P : List Nat) (i : Nat) (d : HDev) : Except Panic (List (Nat × Tag)) :=
  match P[i]? with
  | none => .error (.index "num_transducers[dev.idx()]")
  | some p =>
    let ptr := m * p
    if hasFilter then
      match d.filter with
      | none => .ok []     -- `if let Some(filter) = filter` fails for every transducer
      | some f => trLoop m i (bitAt f) (List.range d.numTr) ptr
    else trLoop m i (fun _ => .ok true) (List.range d.numTr) ptr

/-- `geometry.devices()` with `dev.idx()` -/
def enabledDevsFrom (devs : List HDev) (s : Nat) : List (Nat × HDev) :=
  ((devs.zipIdx s).filter (fun p => p.1.enable)).map fun p => (p.2, p.1)
def enabledDevs (devs : List HDev) : List (Nat × HDev) := enabledDevsFrom devs 0

def writesFrom (hasFilter : Bool) (m : Nat) (P : List Nat) :
    List (Nat × HDev) → List (Nat × Tag) → Except Panic (List (Nat × Tag))
  | [], acc => .ok acc
  | t :: ts, acc =>
    match devWrites hasFilter m P t.1 t.2 with
    | .error p => .error p
    | .ok ws => writesFrom hasFilter m P ts (acc ++ ws)

/-- all writes, in the order they happen, when the device tasks run one after the other in the order
`tasks` (serial: `enabledDevs devs`) -/
def writesIn (hasFilter : Bool) (m : Nat) (devs : List HDev) (tasks : List (Nat × HDev)) :
    Except Panic (List (Nat × Tag)) :=
  writesFrom hasFilter m (prefixSums hasFilter devs) tasks []

def serialWrites (hasFilter : Bool) (m : Nat) (devs : List HDev) : Except Panic (List (Nat × Tag)) :=
  writesIn hasFilter m devs (enabledDevs devs)

/-- the matrix storage: `none` = still uninitialised -/
def applyWrites (buf : Array (Option Tag)) : List (Nat × Tag) → Except Panic (Array (Option Tag))
  | [] => .ok buf
  | (a, t) :: ws => if a < buf.size then applyWrites (buf.setIfInBounds a (some t)) ws else .error (.oob a)

/-- `uninit_mat(foci.len(), n)` then the fill, tasks in the given order -/
def fill (hasFilter : Bool) (m : Nat) (devs : List HDev) (tasks : List (Nat × HDev)) :
    Except Panic (Array (Option Tag)) :=
  match writesIn hasFilter m devs tasks with
  | .error p => .error p
  | .ok ws => applyWrites (Array.replicate (m * totalCols hasFilter devs) none) ws

/-- the iterator of the *safe* branch (`geometry.devices().flat_map(|dev| dev.iter().filter(..))`):
the transducers that get a column, in column order -/
def selected (hasFilter : Bool) (devs : List HDev) : List (Nat × Nat) :=
  (enabledDevs devs).flatMap fun t =>
    if hasFilter then
      match t.2.filter with
      | none => []
      | some f => ((List.range t.2.numTr).filter fun tr => f[tr]? == some true).map fun tr => (t.1, tr)
    else (List.range t.2.numTr).map fun tr => (t.1, tr)

/-- the matrix the safe branch builds (`from_rows` of `from_iterator` rows), as column-major storage:
cell `m * j + i` = `propagate(selected[j], foci[i])` -/
def safeMatrix (hasFilter : Bool) (m : Nat) (devs : List HDev) : List Tag :=
  (selected hasFilter devs).flatMap fun c => (List.range m).map fun i => (c.1, c.2, i)

/-- the hypothesis under which the `unsafe` block is sound: every filter bit vector of an enabled
device has exactly one bit per transducer (what `Group::get_filters` builds) -/
def WF (hasFilter : Bool) (devs : List HDev) : Bool :=
  devs.all fun d => !(d.enable && hasFilter) || (match d.filter with | none => true | some f => f.length == d.numTr)

end Autd3.HoloFill
