import Autd3.Model.FwBasic
import Autd3.Gen.Tables
import Autd3.Gen.Dispatch
/-!
Firmware model, part 2: the CPU emulator's registers, `Memory::write`, every handler of
`cpu/operation/*.rs`, `ecat_recv`, `update_with_sys_time`
(mirror of `autd3-firmware-emulator/src/cpu/**` and `fpga/emulator/{mod,memory}.rs`).
Register addresses, tags, flags and header layouts come from the generated `Gen` files.
-/
namespace Autd3.Fw
open Autd3.Gen.Cpu
open Autd3.Gen

structure State where
  -- CPU (`CPUEmulator`)
  ack : Nat := 0
  lastMsgId : Nat := 0xFF
  rxData : Nat := 0
  readsFpgaState : Bool := false
  readsStore : Bool := false
  isRxDataUsed : Bool := false
  synchronized : Bool := false
  modCycle : Nat := 0
  stmWrite : Nat := 0
  stmCycle : Nat × Nat := (1, 1)
  stmMode : Nat × Nat := (STM_MODE_GAIN, STM_MODE_GAIN)
  stmRep : Nat × Nat := (0xFFFF, 0xFFFF)
  stmDiv : Nat × Nat := (0xFFFF, 0xFFFF)
  modDiv : Nat × Nat := (10, 10)
  modRep : Nat × Nat := (0xFFFF, 0xFFFF)
  stmSegment : Nat := 0
  modSegment : Nat := 0
  stmTrMode : Nat := TRANSITION_MODE_SYNC_IDX
  stmTrValue : Nat := 0
  modTrMode : Nat := TRANSITION_MODE_SYNC_IDX
  modTrValue : Nat := 0
  gainStmMode : Nat := 0
  numFoci : Nat := 1
  strict : Bool := true
  minDivI : Nat := 10
  minDivP : Nat := 40
  flagsInternal : Nat := 0
  portA : Nat := 0
  dcSysTime : Nat := 0
  numTr : Nat := 249
  -- FPGA (`Memory`, swap chains)
  ctl : Array Nat := Array.replicate 256 0
  phaseCorr : Array Nat := Array.replicate 128 0
  pwe : Array Nat := Array.replicate 256 0
  modMem0 : Array Nat := Array.replicate 32768 0
  modMem1 : Array Nat := Array.replicate 32768 0
  stmMem0 : Array Nat := Array.replicate 262144 0
  stmMem1 : Array Nat := Array.replicate 262144 0
  modSwap : Swap := {}
  stmSwap : Swap := {}

/-! ### `Memory::write` by BRAM select (address already reduced to 14 bits) -/

/-- controller select: `addr >> 8 = 0` main registers, `= 1` phase correction, else `unreachable!()` -/
def ctlWrite (s : State) (addr data : Nat) : M State :=
  let addr := addr % 16384
  if addr / 256 = 0 then .ok { s with ctl := s.ctl.setIfInBounds addr (data % 65536) }
  else if addr / 256 = 1 then
    if addr % 256 < s.phaseCorr.size then
      .ok { s with phaseCorr := s.phaseCorr.setIfInBounds (addr % 256) (data % 65536) }
    else .error (.index "phase_corr_bram")
  else .error (.unreachable "Memory::write: controller sub-select")

def reg (s : State) (addr : Nat) : Nat := rd s.ctl addr

/-- write `words` to consecutive addresses of the modulation BRAM starting at `base` (14-bit),
in the segment and page selected by the write registers -/
def modWriteWords (s : State) (base : Nat) (words : Array Nat) : M State :=
  if words.size = 0 then .ok s else
  let seg := reg s ADDR_MOD_MEM_WR_SEGMENT
  let page := reg s ADDR_MOD_MEM_WR_PAGE
  if seg > 1 then .error (.unreachable "Memory::write: mod wr segment")
  else if base % 16384 + words.size > 16384 then .error (.unreachable "bram_cpy leaves the modulation select")
  else
    let off := page * 16384 + base % 16384
    if off + words.size > 32768 then .error (.index "modulation_bram")
    else
      if seg = 0 then
        let m := s.modMem0
        let s := { s with modMem0 := #[] }
        let m := Id.run do
          let mut m := m
          for h : i in [0:words.size] do
            m := m.setIfInBounds (off + i) (words[i] % 65536)
          return m
        .ok { s with modMem0 := m }
      else
        let m := s.modMem1
        let s := { s with modMem1 := #[] }
        let m := Id.run do
          let mut m := m
          for h : i in [0:words.size] do
            m := m.setIfInBounds (off + i) (words[i] % 65536)
          return m
        .ok { s with modMem1 := m }

def stmWriteWords (s : State) (base : Nat) (words : Array Nat) : M State :=
  if words.size = 0 then .ok s else
  let seg := reg s ADDR_STM_MEM_WR_SEGMENT
  let page := reg s ADDR_STM_MEM_WR_PAGE
  if seg > 1 then .error (.unreachable "Memory::write: stm wr segment")
  else if base % 16384 + words.size > 16384 then .error (.unreachable "bram_cpy leaves the STM select")
  else
    let off := page * 16384 + base % 16384
    if off + words.size > 262144 then .error (.index "stm_bram")
    else
      if seg = 0 then
        let m := s.stmMem0
        let s := { s with stmMem0 := #[] }
        let m := Id.run do
          let mut m := m
          for h : i in [0:words.size] do
            m := m.setIfInBounds (off + i) (words[i] % 65536)
          return m
        .ok { s with stmMem0 := m }
      else
        let m := s.stmMem1
        let s := { s with stmMem1 := #[] }
        let m := Id.run do
          let mut m := m
          for h : i in [0:words.size] do
            m := m.setIfInBounds (off + i) (words[i] % 65536)
          return m
        .ok { s with stmMem1 := m }

def pweWriteWords (s : State) (base : Nat) (words : Array Nat) : M State :=
  if base % 16384 + words.size > s.pwe.size then .error (.index "duty_table_bram")
  else
    let m := Id.run do
      let mut m := s.pwe
      for h : i in [0:words.size] do
        m := m.setIfInBounds (base % 16384 + i) (words[i] % 65536)
      return m
    .ok { s with pwe := m }

def ctlWriteWords (s : State) (base : Nat) (words : Array Nat) : M State := do
  let mut s := s
  for h : i in [0:words.size] do
    s ← ctlWrite s (base + i) words[i]
  return s

/-- the `len` 16-bit little-endian words of `d` starting at byte `off` (reads past the end give 0,
like the zero padding of the 626-byte frame — `bram_cpy` reads raw memory) -/
def wordsAt (d : Array Nat) (off len : Nat) : Array Nat :=
  (Array.range len).map fun i => u16at d (off + 2 * i)

def u64Words (v : Nat) : Array Nat :=
  #[v % 65536, (v / 65536) % 65536, (v / 4294967296) % 65536, (v / 281474976710656) % 65536]

/-! ### read-back of the controller registers used by the swap chains (`FPGAEmulator` accessors) -/

def segReg (s : State) (addr : Nat) (site : String) : M Nat :=
  let v := reg s addr
  if v ≤ 1 then .ok v else .error (.unreachable site)

def decodeTMode (mode value : Nat) (site : String) : M TMode :=
  let m := mode % 256
  if m = TRANSITION_MODE_SYNC_IDX then .ok .syncIdx
  else if m = TRANSITION_MODE_SYS_TIME then .ok (.sysTime value)
  else if m = TRANSITION_MODE_GPIO then
    if value < 4 then .ok (.gpio value) else .error (.unreachable (site ++ ": GPIO value"))
  else if m = TRANSITION_MODE_EXT then .ok .ext
  else if m = TRANSITION_MODE_IMMEDIATE then .ok .immediate
  else .error (.unreachable site)

def reg64 (s : State) (addr : Nat) : Nat :=
  reg s addr + 65536 * reg s (addr + 1) + 4294967296 * reg s (addr + 2) + 281474976710656 * reg s (addr + 3)

def gpioIn (s : State) (g : Nat) : Bool := (reg s ADDR_CTL_FLAG >>> (CTL_FLAG_BIT_GPIO_IN_0 + g)) % 2 = 1

/-- `FPGAEmulator::set_and_wait_update` -/
def fpgaSetAndWaitUpdate (s : State) (t : Nat) : M State := do
  let flag := reg s ADDR_CTL_FLAG
  let s ← if hasFlag flag CTL_FLAG_MOD_SET then do
      let seg ← segReg s ADDR_MOD_REQ_RD_SEGMENT "req_modulation_segment"
      let mode ← decodeTMode (reg s ADDR_MOD_TRANSITION_MODE) (reg64 s ADDR_MOD_TRANSITION_VALUE_0) "modulation_transition_mode"
      let w ← s.modSwap.set t (reg s (ADDR_MOD_REP0 + seg)) (reg s (ADDR_MOD_FREQ_DIV0 + seg))
                (reg s (ADDR_MOD_CYCLE0 + seg) + 1) seg mode
      pure { s with modSwap := w }
    else pure s
  if hasFlag flag CTL_FLAG_STM_SET then do
    let seg ← segReg s ADDR_STM_REQ_RD_SEGMENT "req_stm_segment"
    let mode ← decodeTMode (reg s ADDR_STM_TRANSITION_MODE) (reg64 s ADDR_STM_TRANSITION_VALUE_0) "stm_transition_mode"
    let w ← s.stmSwap.set t (reg s (ADDR_STM_REP0 + seg)) (reg s (ADDR_STM_FREQ_DIV0 + seg))
              (reg s (ADDR_STM_CYCLE0 + seg) + 1) seg mode
    pure { s with stmSwap := w }
  else pure s

/-- `CPUEmulator::set_and_wait_update` -/
def setAndWaitUpdate (s : State) (flag : Nat) : M State := do
  let s ← ctlWrite s ADDR_CTL_FLAG (s.flagsInternal ||| flag)
  let s ← fpgaSetAndWaitUpdate s s.dcSysTime
  ctlWrite s ADDR_CTL_FLAG s.flagsInternal

/-! ### handlers (`cpu/operation/*.rs`); each returns the acknowledgement byte -/

/-- `validate_transition_mode` — `true` means *invalid* -/
def validateTransitionMode (currentSegment segment rep mode : Nat) : Bool :=
  if mode = TRANSITION_MODE_NONE then false
  else if currentSegment = segment then
    mode = TRANSITION_MODE_SYNC_IDX ∨ mode = TRANSITION_MODE_SYS_TIME ∨ mode = TRANSITION_MODE_GPIO
  else if rep = 0xFFFF then
    mode = TRANSITION_MODE_SYNC_IDX ∨ mode = TRANSITION_MODE_SYS_TIME ∨ mode = TRANSITION_MODE_GPIO
  else mode = TRANSITION_MODE_IMMEDIATE ∨ mode = TRANSITION_MODE_EXT

/-- `validate_silencer_settings` — `true` means *invalid* -/
def validateSilencerSettings (s : State) (stmDiv modDiv : Nat) : Bool :=
  s.strict ∧ (modDiv < s.minDivI ∨ stmDiv < s.minDivI ∨ stmDiv < s.minDivP)

def modSegmentUpdate (s : State) (segment mode value : Nat) : M (State × Nat) := do
  let s ← ctlWrite s ADDR_MOD_REQ_RD_SEGMENT segment
  if mode = TRANSITION_MODE_SYS_TIME ∧ value < s.dcSysTime + SYS_TIME_TRANSITION_MARGIN then
    return (s, ERR_MISS_TRANSITION_TIME)
  let s ← ctlWrite s ADDR_MOD_TRANSITION_MODE mode
  let s ← ctlWriteWords s ADDR_MOD_TRANSITION_VALUE_0 (u64Words value)
  let s ← setAndWaitUpdate s CTL_FLAG_MOD_SET
  return (s, NO_ERR)

def stmSegmentUpdate (s : State) (segment mode value : Nat) : M (State × Nat) := do
  let s ← ctlWrite s ADDR_STM_REQ_RD_SEGMENT segment
  if mode = TRANSITION_MODE_SYS_TIME ∧ value < s.dcSysTime + SYS_TIME_TRANSITION_MARGIN then
    return (s, ERR_MISS_TRANSITION_TIME)
  let s ← ctlWrite s ADDR_STM_TRANSITION_MODE mode
  let s ← ctlWriteWords s ADDR_STM_TRANSITION_VALUE_0 (u64Words value)
  let s ← setAndWaitUpdate s CTL_FLAG_STM_SET
  return (s, NO_ERR)

/-- `write_mod` -/
def writeMod (s : State) (d : Array Nat) : M (State × Nat) := do
  let flag := u8at d FwLayout.ModulationHead_flag_off
  let segment := if flag &&& MODULATION_FLAG_SEGMENT ≠ 0 then 1 else 0
  let isBegin := hasFlag flag MODULATION_FLAG_BEGIN
  let mut s := s
  let mut write := 0
  let mut dataOff := 0
  if isBegin then
    s := { s with modCycle := 0 }
    write := u8at d FwLayout.ModulationHead_size_off
    let rep := u16at d FwLayout.ModulationHead_rep_off
    let tm := u8at d FwLayout.ModulationHead_transition_mode_off
    let freqDiv := u16at d FwLayout.ModulationHead_freq_div_off
    if validateTransitionMode s.modSegment segment rep tm then
      return (s, ERR_INVALID_TRANSITION_MODE)
    if validateSilencerSettings s (sel s.stmDiv s.stmSegment) freqDiv then
      return (s, ERR_INVALID_SILENCER_SETTING)
    if tm ≠ TRANSITION_MODE_NONE then
      s := { s with modSegment := segment }
    s := { s with modRep := setSel s.modRep segment rep, modDiv := setSel s.modDiv segment freqDiv,
                  modTrMode := tm, modTrValue := u64at d FwLayout.ModulationHead_transition_value_off }
    s ← ctlWrite s (ADDR_MOD_FREQ_DIV0 + segment) freqDiv
    s ← ctlWrite s (ADDR_MOD_REP0 + segment) rep
    s ← ctlWrite s ADDR_MOD_MEM_WR_SEGMENT segment
    s ← ctlWrite s ADDR_MOD_MEM_WR_PAGE 0
    dataOff := FwLayout.ModulationHead_size
  else
    write := u16at d FwLayout.ModulationSubseq_size_off
    dataOff := FwLayout.ModulationSubseq_size
  let cur16 := s.modCycle % 65536
  let pageCapacity := MOD_BUF_PAGE_SIZE - (cur16 &&& MOD_BUF_PAGE_SIZE_MASK)
  if write < pageCapacity then
    s ← modWriteWords s ((cur16 &&& MOD_BUF_PAGE_SIZE_MASK) >>> 1) (wordsAt d dataOff ((write + 1) >>> 1))
    s := { s with modCycle := s.modCycle + write }
  else
    s ← modWriteWords s ((cur16 &&& MOD_BUF_PAGE_SIZE_MASK) >>> 1) (wordsAt d dataOff (pageCapacity >>> 1))
    s := { s with modCycle := s.modCycle + pageCapacity }
    s ← ctlWrite s ADDR_MOD_MEM_WR_PAGE (((s.modCycle % 65536) &&& (65535 - MOD_BUF_PAGE_SIZE_MASK)) >>> MOD_BUF_PAGE_SIZE_WIDTH)
    s ← modWriteWords s 0 (wordsAt d (dataOff + 2 * (pageCapacity >>> 1)) ((write - pageCapacity + 1) >>> 1))
    s := { s with modCycle := s.modCycle + (write - pageCapacity) }
  if hasFlag flag MODULATION_FLAG_END then
    s ← ctlWrite s (ADDR_MOD_CYCLE0 + segment) ((max s.modCycle 1 - 1) % 65536)
    if hasFlag flag MODULATION_FLAG_UPDATE then
      return ← modSegmentUpdate s segment s.modTrMode s.modTrValue
  return (s, NO_ERR)

/-- `change_mod_segment` -/
def changeModSegment (s : State) (d : Array Nat) : M (State × Nat) := do
  let segment := u8at d FwLayout.ModulationUpdate_segment_off
  let tm := u8at d FwLayout.ModulationUpdate_transition_mode_off
  if segment > 1 then .error (.index "change_mod_segment: mod_rep[segment]") else
  if validateTransitionMode s.modSegment segment (sel s.modRep segment) tm then
    return (s, ERR_INVALID_TRANSITION_MODE)
  if validateSilencerSettings s (sel s.stmDiv s.stmSegment) (sel s.modDiv segment) then
    return (s, ERR_INVALID_SILENCER_SETTING)
  let s := { s with modSegment := segment }
  modSegmentUpdate s segment tm (u64at d FwLayout.ModulationUpdate_transition_value_off)

/-- `config_silencer` -/
def configSilencer (s : State) (d : Array Nat) : M (State × Nat) := do
  let flag := u8at d FwLayout.ConfigSilencer_flag_off
  let vi := u16at d FwLayout.ConfigSilencer_value_intensity_off
  let vp := u16at d FwLayout.ConfigSilencer_value_phase_off
  let mut s := s
  if hasFlag flag SILENCER_FLAG_FIXED_UPDATE_RATE_MODE then
    s ← ctlWrite s ADDR_SILENCER_UPDATE_RATE_INTENSITY vi
    s ← ctlWrite s ADDR_SILENCER_UPDATE_RATE_PHASE vp
  else
    let s' := { s with strict := hasFlag flag SILENCER_FLAG_STRICT_MODE, minDivI := vi, minDivP := vp }
    if validateSilencerSettings s' (sel s.stmDiv s.stmSegment) (sel s.modDiv s.modSegment) then
      return (s, ERR_INVALID_SILENCER_SETTING)
    s := s'
    s ← ctlWrite s ADDR_SILENCER_COMPLETION_STEPS_INTENSITY vi
    s ← ctlWrite s ADDR_SILENCER_COMPLETION_STEPS_PHASE vp
  s ← ctlWrite s ADDR_SILENCER_FLAG flag
  s ← setAndWaitUpdate s CTL_FLAG_SILENCER_SET
  return (s, NO_ERR)

/-- `write_gain` -/
def writeGain (s : State) (d : Array Nat) : M (State × Nat) := do
  let segment := u8at d FwLayout.Gain_segment_off
  let flag := u8at d FwLayout.Gain_flag_off
  if segment > 1 then .error (.index "write_gain: stm_cycle[segment]") else
  let mut s := s
  if hasFlag flag GAIN_FLAG_UPDATE then
    s := { s with stmSegment := segment }
  s ← ctlWrite s (ADDR_STM_FREQ_DIV0 + segment) 0xFFFF
  s ← ctlWrite s (ADDR_STM_REP0 + segment) 0xFFFF
  s ← ctlWrite s (ADDR_STM_CYCLE0 + segment) 0
  s ← ctlWrite s (ADDR_STM_MODE0 + segment) STM_MODE_GAIN
  s := { s with stmCycle := setSel s.stmCycle segment 1, stmRep := setSel s.stmRep segment 0xFFFF,
                stmDiv := setSel s.stmDiv segment 0xFFFF, stmMode := setSel s.stmMode segment STM_MODE_GAIN }
  s ← ctlWrite s ADDR_STM_MEM_WR_SEGMENT segment
  s ← ctlWrite s ADDR_STM_MEM_WR_PAGE 0
  s ← stmWriteWords s 0 (wordsAt d FwLayout.Gain_size s.numTr)
  if hasFlag flag GAIN_FLAG_UPDATE then
    s ← ctlWrite s ADDR_STM_REQ_RD_SEGMENT segment
    s ← ctlWrite s ADDR_STM_TRANSITION_MODE TRANSITION_MODE_SYNC_IDX
    s ← setAndWaitUpdate s CTL_FLAG_STM_SET
  return (s, NO_ERR)

/-- `change_gain_segment` -/
def changeGainSegment (s : State) (d : Array Nat) : M (State × Nat) := do
  let segment := u8at d FwLayout.GainUpdate_segment_off
  if segment > 1 then .error (.index "change_gain_segment: stm_mode[segment]") else
  if sel s.stmMode segment ≠ STM_MODE_GAIN ∨ sel s.stmCycle segment ≠ 1 then
    return (s, ERR_INVALID_SEGMENT_TRANSITION)
  if validateSilencerSettings s (sel s.stmDiv segment) (sel s.modDiv s.modSegment) then
    return (s, ERR_INVALID_SILENCER_SETTING)
  let s := { s with stmSegment := segment }
  let s ← ctlWrite s ADDR_STM_REQ_RD_SEGMENT segment
  let s ← ctlWrite s ADDR_STM_TRANSITION_MODE TRANSITION_MODE_SYNC_IDX
  let s ← setAndWaitUpdate s CTL_FLAG_STM_SET
  return (s, NO_ERR)

/-- `write_foci_stm` -/
def writeFociStm (s : State) (d : Array Nat) : M (State × Nat) := do
  let flag := u8at d FwLayout.FociSTMSubseq_flag_off
  let segment := u8at d FwLayout.FociSTMSubseq_segment_off
  let sendNum := u8at d FwLayout.FociSTMSubseq_send_num_off
  let mut s := s
  let mut srcOff := 0
  if hasFlag flag FOCI_STM_FLAG_BEGIN then
    let rep := u16at d FwLayout.FociSTMHead_rep_off
    let tm := u8at d FwLayout.FociSTMHead_transition_mode_off
    let freqDiv := u16at d FwLayout.FociSTMHead_freq_div_off
    if validateTransitionMode s.stmSegment segment rep tm then
      return (s, ERR_INVALID_TRANSITION_MODE)
    if validateSilencerSettings s freqDiv (sel s.modDiv s.modSegment) then
      return (s, ERR_INVALID_SILENCER_SETTING)
    if segment > 1 then .error (.index "write_foci_stm: stm_rep[segment]") else
    if tm ≠ TRANSITION_MODE_NONE then
      s := { s with stmSegment := segment }
    s := { s with stmWrite := 0, stmRep := setSel s.stmRep segment rep, stmTrMode := tm,
                  stmTrValue := u64at d FwLayout.FociSTMHead_transition_value_off,
                  stmDiv := setSel s.stmDiv segment freqDiv,
                  numFoci := u8at d FwLayout.FociSTMHead_num_foci_off }
    s ← ctlWrite s (ADDR_STM_FREQ_DIV0 + segment) freqDiv
    s ← ctlWrite s (ADDR_STM_MODE0 + segment) STM_MODE_FOCUS
    s ← ctlWrite s (ADDR_STM_SOUND_SPEED0 + segment) (u16at d FwLayout.FociSTMHead_sound_speed_off)
    s ← ctlWrite s (ADDR_STM_REP0 + segment) rep
    s ← ctlWrite s (ADDR_STM_NUM_FOCI0 + segment) s.numFoci
    s ← ctlWrite s ADDR_STM_MEM_WR_SEGMENT segment
    s ← ctlWrite s ADDR_STM_MEM_WR_PAGE 0
    srcOff := FwLayout.FociSTMHead_size
  else
    srcOff := FwLayout.FociSTMSubseq_size
  let cur16 := s.stmWrite % 65536
  let pageCapacity := FOCI_STM_BUF_PAGE_SIZE - (cur16 &&& FOCI_STM_BUF_PAGE_SIZE_MASK)
  let size := sendNum * s.numFoci
  if size ≥ 65536 then .error (.overflow "write_foci_stm: send_num * num_foci") else
  let dst := ((cur16 &&& FOCI_STM_BUF_PAGE_SIZE_MASK) <<< 2) % 65536
  if size < pageCapacity then
    s ← stmWriteWords s dst (wordsAt d srcOff (size * 4))
    s := { s with stmWrite := s.stmWrite + size }
  else
    s ← stmWriteWords s dst (wordsAt d srcOff (pageCapacity * 4))
    s := { s with stmWrite := s.stmWrite + pageCapacity }
    s ← ctlWrite s ADDR_STM_MEM_WR_PAGE (((s.stmWrite % 65536) &&& (65535 - FOCI_STM_BUF_PAGE_SIZE_MASK)) >>> FOCI_STM_BUF_PAGE_SIZE_WIDTH)
    s ← stmWriteWords s 0 (wordsAt d (srcOff + 8 * pageCapacity) ((size - pageCapacity) * 4))
    s := { s with stmWrite := s.stmWrite + (size - pageCapacity) }
  if hasFlag flag FOCI_STM_FLAG_END then
    if segment > 1 then .error (.index "write_foci_stm: stm_mode[segment]") else
    if s.numFoci = 0 then .error (.divZero "write_foci_stm: stm_write / num_foci") else
    s := { s with stmMode := setSel s.stmMode segment STM_MODE_FOCUS,
                  stmCycle := setSel s.stmCycle segment (s.stmWrite / s.numFoci) }
    s ← ctlWrite s (ADDR_STM_CYCLE0 + segment) ((max (sel s.stmCycle segment) 1 - 1) % 65536)
    if hasFlag flag FOCI_STM_FLAG_UPDATE then
      return ← stmSegmentUpdate s segment s.stmTrMode s.stmTrValue
  return (s, NO_ERR)

/-- `change_foci_stm_segment` -/
def changeFociStmSegment (s : State) (d : Array Nat) : M (State × Nat) := do
  let segment := u8at d FwLayout.FociSTMUpdate_segment_off
  let tm := u8at d FwLayout.FociSTMUpdate_transition_mode_off
  if segment > 1 then .error (.index "change_foci_stm_segment: stm_mode[segment]") else
  if sel s.stmMode segment ≠ STM_MODE_FOCUS then
    return (s, ERR_INVALID_SEGMENT_TRANSITION)
  if validateTransitionMode s.stmSegment segment (sel s.stmRep segment) tm then
    return (s, ERR_INVALID_TRANSITION_MODE)
  if validateSilencerSettings s (sel s.stmDiv segment) (sel s.modDiv s.modSegment) then
    return (s, ERR_INVALID_SILENCER_SETTING)
  let s := { s with stmSegment := segment }
  stmSegmentUpdate s segment tm (u64at d FwLayout.FociSTMUpdate_transition_value_off)

/-- one gain pattern of a GainSTM frame: `f w` maps the `i`-th source word to the stored word -/
def gainStmWritePattern (s : State) (segment srcOff : Nat) (d : Array Nat) (f : Nat → Nat) : M State := do
  let dst := (((sel s.stmCycle segment) % 65536 &&& GAIN_STM_BUF_PAGE_SIZE_MASK) <<< 8) % 65536
  let s ← stmWriteWords s dst ((wordsAt d srcOff s.numTr).map f)
  pure { s with stmCycle := setSel s.stmCycle segment (sel s.stmCycle segment + 1) }

/-- `write_gain_stm` -/
def writeGainStm (s : State) (d : Array Nat) : M (State × Nat) := do
  let flag := u8at d FwLayout.GainSTMSubseq_flag_off
  let segment := if flag &&& GAIN_STM_FLAG_SEGMENT ≠ 0 then 1 else 0
  let send := (flag >>> 6) + 1
  let mut s := s
  let mut srcOff := 0
  if hasFlag flag GAIN_STM_FLAG_BEGIN then
    s := { s with gainStmMode := u8at d FwLayout.GainSTMHead_mode_off }
    let rep := u16at d FwLayout.GainSTMHead_rep_off
    let tm := u8at d FwLayout.GainSTMHead_transition_mode_off
    let freqDiv := u16at d FwLayout.GainSTMHead_freq_div_off
    if validateTransitionMode s.stmSegment segment rep tm then
      return (s, ERR_INVALID_TRANSITION_MODE)
    if validateSilencerSettings s freqDiv (sel s.modDiv s.modSegment) then
      return (s, ERR_INVALID_SILENCER_SETTING)
    if tm ≠ TRANSITION_MODE_NONE then
      s := { s with stmSegment := segment }
    s := { s with stmCycle := setSel s.stmCycle segment 0, stmRep := setSel s.stmRep segment rep,
                  stmTrMode := tm, stmTrValue := u64at d FwLayout.GainSTMHead_transition_value_off,
                  stmDiv := setSel s.stmDiv segment freqDiv }
    s ← ctlWrite s (ADDR_STM_FREQ_DIV0 + segment) freqDiv
    s ← ctlWrite s (ADDR_STM_MODE0 + segment) STM_MODE_GAIN
    s ← ctlWrite s (ADDR_STM_REP0 + segment) rep
    s ← ctlWrite s ADDR_STM_MEM_WR_SEGMENT segment
    s ← ctlWrite s ADDR_STM_MEM_WR_PAGE 0
    srcOff := FwLayout.GainSTMHead_size
  else
    srcOff := FwLayout.GainSTMSubseq_size
  if s.gainStmMode = GAIN_STM_MODE_INTENSITY_PHASE_FULL then
    s ← gainStmWritePattern s segment srcOff d id
  else if s.gainStmMode = GAIN_STM_MODE_PHASE_FULL then
    s ← gainStmWritePattern s segment srcOff d (fun w => 0xFF00 ||| (w &&& 0x00FF))
    if send > 1 then
      s ← gainStmWritePattern s segment srcOff d (fun w => 0xFF00 ||| ((w >>> 8) &&& 0x00FF))
  else if s.gainStmMode = GAIN_STM_MODE_PHASE_HALF then
    let nib (k : Nat) : Nat → Nat := fun w => let p := (w >>> (4 * k)) &&& 0x000F; 0xFF00 ||| (p <<< 4) ||| p
    s ← gainStmWritePattern s segment srcOff d (nib 0)
    if send > 1 then s ← gainStmWritePattern s segment srcOff d (nib 1)
    if send > 2 then s ← gainStmWritePattern s segment srcOff d (nib 2)
    if send > 3 then s ← gainStmWritePattern s segment srcOff d (nib 3)
  else
    return (s, ERR_INVALID_GAIN_STM_MODE)
  let c16 := (sel s.stmCycle segment) % 65536
  if c16 &&& GAIN_STM_BUF_PAGE_SIZE_MASK = 0 then
    s ← ctlWrite s ADDR_STM_MEM_WR_PAGE ((c16 &&& (65535 - GAIN_STM_BUF_PAGE_SIZE_MASK)) >>> GAIN_STM_BUF_PAGE_SIZE_WIDTH)
  if hasFlag flag GAIN_STM_FLAG_END then
    s := { s with stmMode := setSel s.stmMode segment STM_MODE_GAIN }
    s ← ctlWrite s (ADDR_STM_CYCLE0 + segment) ((max (sel s.stmCycle segment) 1 - 1) % 65536)
    if hasFlag flag GAIN_STM_FLAG_UPDATE then
      return ← stmSegmentUpdate s segment s.stmTrMode s.stmTrValue
  return (s, NO_ERR)

/-- `change_gain_stm_segment` -/
def changeGainStmSegment (s : State) (d : Array Nat) : M (State × Nat) := do
  let segment := u8at d FwLayout.GainSTMUpdate_segment_off
  let tm := u8at d FwLayout.GainSTMUpdate_transition_mode_off
  if segment > 1 then .error (.index "change_gain_stm_segment: stm_mode[segment]") else
  if sel s.stmMode segment ≠ STM_MODE_GAIN ∨ sel s.stmCycle segment = 1 then
    return (s, ERR_INVALID_SEGMENT_TRANSITION)
  if validateTransitionMode s.stmSegment segment (sel s.stmRep segment) tm then
    return (s, ERR_INVALID_TRANSITION_MODE)
  if validateSilencerSettings s (sel s.stmDiv segment) (sel s.modDiv s.modSegment) then
    return (s, ERR_INVALID_SILENCER_SETTING)
  let s := { s with stmSegment := segment }
  stmSegmentUpdate s segment tm (u64at d FwLayout.GainSTMUpdate_transition_value_off)

def configureForceFan (s : State) (d : Array Nat) : M (State × Nat) :=
  let v := u8at d FwLayout.ForceFan_value_off
  if v ≠ 0 then .ok ({ s with flagsInternal := s.flagsInternal ||| CTL_FLAG_FORCE_FAN }, NO_ERR)
  else .ok ({ s with flagsInternal := s.flagsInternal &&& (65535 - CTL_FLAG_FORCE_FAN) }, NO_ERR)

def configureReadsFpgaState (s : State) (d : Array Nat) : M (State × Nat) :=
  .ok ({ s with readsFpgaState := u8at d FwLayout.ReadsFPGAState_value_off ≠ 0 }, NO_ERR)

def configPwe (s : State) (d : Array Nat) : M (State × Nat) := do
  let s ← pweWriteWords s 0 (wordsAt d FwLayout.Pwe_size 256)
  return (s, NO_ERR)

/-- `config_debug` -/
def configDebug (s : State) (d : Array Nat) : M (State × Nat) := do
  let s ← ctlWriteWords s ADDR_DEBUG_VALUE0_0 (wordsAt d FwLayout.DebugOutIdx_value_off 16)
  let s ← setAndWaitUpdate s CTL_FLAG_DEBUG_SET
  return (s, NO_ERR)

def emulateGpioIn (s : State) (d : Array Nat) : M (State × Nat) :=
  let flag := u8at d FwLayout.GPIOIn_flag_off
  let setBit (f : Nat) (on : Bool) (bit : Nat) : Nat := if on then f ||| bit else f &&& (65535 - bit)
  let f := s.flagsInternal
  let f := setBit f (hasFlag flag GPIO_IN_FLAG_0) CTL_FLAG_GPIO_IN_0
  let f := setBit f (hasFlag flag GPIO_IN_FLAG_1) CTL_FLAG_GPIO_IN_1
  let f := setBit f (hasFlag flag GPIO_IN_FLAG_2) CTL_FLAG_GPIO_IN_2
  let f := setBit f (hasFlag flag GPIO_IN_FLAG_3) CTL_FLAG_GPIO_IN_3
  .ok ({ s with flagsInternal := f }, NO_ERR)

def cpuGpioOut (s : State) (d : Array Nat) : M (State × Nat) :=
  .ok ({ s with portA := u8at d FwLayout.CpuGPIOOut_pa_podr_off }, NO_ERR)

def phaseCorrOp (s : State) (d : Array Nat) : M (State × Nat) := do
  let s ← ctlWriteWords s (BRAM_CNT_SEL_PHASE_CORR <<< 8) (wordsAt d FwLayout.PhaseCorr_size ((TRANS_NUM + 1) >>> 1))
  return (s, NO_ERR)

def synchronize (s : State) (_d : Array Nat) : M (State × Nat) := do
  let s := { s with synchronized := true }
  let s ← setAndWaitUpdate s CTL_FLAG_SYNC_SET
  return (s, NO_ERR)

def firmInfo (s : State) (d : Array Nat) : M (State × Nat) :=
  let ty := u8at d FwLayout.FirmInfo_ty_off
  if ty = INFO_TYPE_CPU_VERSION_MAJOR then
    .ok ({ s with readsStore := s.readsFpgaState, readsFpgaState := false, isRxDataUsed := true,
                  rxData := CPU_VERSION_MAJOR % 256 }, NO_ERR)
  else if ty = INFO_TYPE_CPU_VERSION_MINOR then .ok ({ s with rxData := CPU_VERSION_MINOR % 256 }, NO_ERR)
  else if ty = INFO_TYPE_FPGA_VERSION_MAJOR then .ok ({ s with rxData := reg s ADDR_VERSION_NUM_MAJOR % 256 }, NO_ERR)
  else if ty = INFO_TYPE_FPGA_VERSION_MINOR then .ok ({ s with rxData := reg s ADDR_VERSION_NUM_MINOR % 256 }, NO_ERR)
  else if ty = INFO_TYPE_FPGA_FUNCTIONS then .ok ({ s with rxData := (reg s ADDR_VERSION_NUM_MAJOR >>> 8) % 256 }, NO_ERR)
  else if ty = INFO_TYPE_CLEAR then
    .ok ({ s with readsFpgaState := s.readsStore, isRxDataUsed := false }, NO_ERR)
  else .ok (s, ERR_INVALID_INFO_TYPE)

/-- `clear` -/
def clear (s : State) (_d : Array Nat) : M (State × Nat) := do
  let mut s := { s with portA := 0, readsFpgaState := false, flagsInternal := 0 }
  s ← ctlWrite s ADDR_SILENCER_UPDATE_RATE_INTENSITY 256
  s ← ctlWrite s ADDR_SILENCER_UPDATE_RATE_PHASE 256
  s ← ctlWrite s ADDR_SILENCER_FLAG 0
  s ← ctlWrite s ADDR_SILENCER_COMPLETION_STEPS_INTENSITY 10
  s ← ctlWrite s ADDR_SILENCER_COMPLETION_STEPS_PHASE 40
  s := { s with strict := true, minDivI := 10, minDivP := 40,
                modDiv := (0xFFFF, 0xFFFF), modRep := (0xFFFF, 0xFFFF), modCycle := 2, modSegment := 0 }
  s ← ctlWrite s ADDR_MOD_TRANSITION_MODE TRANSITION_MODE_SYNC_IDX
  s ← ctlWriteWords s ADDR_MOD_TRANSITION_VALUE_0 #[0, 0, 0, 0]
  s ← ctlWrite s ADDR_MOD_REQ_RD_SEGMENT 0
  s ← ctlWrite s ADDR_MOD_CYCLE0 (max s.modCycle 1 - 1)
  s ← ctlWrite s ADDR_MOD_FREQ_DIV0 s.modDiv.1
  s ← ctlWrite s ADDR_MOD_CYCLE1 (max s.modCycle 1 - 1)
  s ← ctlWrite s ADDR_MOD_FREQ_DIV1 s.modDiv.2
  s ← ctlWrite s ADDR_MOD_REP0 0xFFFF
  s ← ctlWrite s ADDR_MOD_REP1 0xFFFF
  s ← ctlWrite s ADDR_MOD_MEM_WR_PAGE 0
  s ← ctlWrite s ADDR_MOD_MEM_WR_SEGMENT 0
  s ← modWriteWords s 0 #[0xFFFF]
  s ← ctlWrite s ADDR_MOD_MEM_WR_SEGMENT 1
  s ← modWriteWords s 0 #[0xFFFF]
  s := { s with stmCycle := (1, 1), stmMode := (STM_MODE_GAIN, STM_MODE_GAIN),
                stmDiv := (0xFFFF, 0xFFFF), stmRep := (0xFFFF, 0xFFFF), stmSegment := 0 }
  s ← ctlWrite s ADDR_STM_TRANSITION_MODE TRANSITION_MODE_SYNC_IDX
  s ← ctlWriteWords s ADDR_STM_TRANSITION_VALUE_0 #[0, 0, 0, 0]
  s ← ctlWrite s ADDR_STM_MODE0 STM_MODE_GAIN
  s ← ctlWrite s ADDR_STM_MODE1 STM_MODE_GAIN
  s ← ctlWrite s ADDR_STM_REQ_RD_SEGMENT 0
  s ← ctlWrite s ADDR_STM_CYCLE0 0
  s ← ctlWrite s ADDR_STM_FREQ_DIV0 0xFFFF
  s ← ctlWrite s ADDR_STM_CYCLE1 0
  s ← ctlWrite s ADDR_STM_FREQ_DIV1 0xFFFF
  s ← ctlWrite s ADDR_STM_REP0 0xFFFF
  s ← ctlWrite s ADDR_STM_REP1 0xFFFF
  s ← ctlWrite s ADDR_STM_MEM_WR_SEGMENT 0
  s ← ctlWrite s ADDR_STM_MEM_WR_PAGE 0
  s ← stmWriteWords s 0 (Array.replicate TRANS_NUM 0)
  s ← ctlWrite s ADDR_STM_MEM_WR_SEGMENT 1
  s ← ctlWrite s ADDR_STM_MEM_WR_PAGE 0
  s ← stmWriteWords s 0 (Array.replicate TRANS_NUM 0)
  s ← ctlWriteWords s (BRAM_CNT_SEL_PHASE_CORR <<< 8) (Array.replicate ((TRANS_NUM + 1) >>> 1) 0)
  s ← pweWriteWords s 0 ((Array.range 256).map Autd3.Gen.Tables.cpuAsin)
  s ← pweWriteWords s 255 #[0x100]
  s ← ctlWriteWords s ADDR_DEBUG_VALUE0_0 (Array.replicate 16 0)
  s ← setAndWaitUpdate s CTL_FLAG_MOD_SET
  s ← setAndWaitUpdate s CTL_FLAG_STM_SET
  s ← setAndWaitUpdate s CTL_FLAG_SILENCER_SET
  s ← setAndWaitUpdate s CTL_FLAG_DEBUG_SET
  return (s, NO_ERR)

/-- `handle_payload`: dispatch on the tag byte (arms generated from the source: `Gen.Dispatch.arms`) -/
def handlerOf (name : String) : Option (State → Array Nat → M (State × Nat)) :=
  match name with
  | "clear" => some clear
  | "synchronize" => some synchronize
  | "firm_info" => some firmInfo
  | "write_mod" => some writeMod
  | "change_mod_segment" => some changeModSegment
  | "config_silencer" => some configSilencer
  | "write_gain" => some writeGain
  | "change_gain_segment" => some changeGainSegment
  | "change_gain_stm_segment" => some changeGainStmSegment
  | "write_foci_stm" => some writeFociStm
  | "change_foci_stm_segment" => some changeFociStmSegment
  | "write_gain_stm" => some writeGainStm
  | "configure_force_fan" => some configureForceFan
  | "configure_reads_fpga_state" => some configureReadsFpgaState
  | "config_pwe" => some configPwe
  | "config_debug" => some configDebug
  | "emulate_gpio_in" => some emulateGpioIn
  | "cpu_gpio_out" => some cpuGpioOut
  | "phase_corr" => some phaseCorrOp
  | _ => none

def handlePayload (s : State) (d : Array Nat) : M (State × Nat) :=
  match Autd3.Gen.Dispatch.arms.find? (fun a => a.1 = u8at d 0) with
  | some (_, name) =>
    match handlerOf name with
    | some h => h s d
    | none => .error (.unreachable ("model has no handler named " ++ name))
  | none => .ok (s, ERR_NOT_SUPPORTED_TAG)

/-- `read_fpga_state` -/
def readFpgaState (s : State) : State :=
  if s.isRxDataUsed then s
  else if s.readsFpgaState then
    { s with rxData := (FPGA_STATE_READS_FPGA_STATE_ENABLED ||| (reg s ADDR_FPGA_STATE % 256)) % 256 }
  else { s with rxData := s.rxData &&& (255 - FPGA_STATE_READS_FPGA_STATE_ENABLED) }

/-- `ecat_recv` on one 626-byte frame (header: msg_id, pad, slot_2_offset) -/
def ecatRecv (s : State) (frame : Array Nat) : M State := do
  let msgId := u8at frame DrvLayout.Header_msg_id_off
  let slot2 := u16at frame DrvLayout.Header_slot_2_offset_off
  if s.lastMsgId = msgId then return s
  let s := { s with lastMsgId := msgId }
  let s := readFpgaState s
  if msgId &&& 0x80 ≠ 0 then return { s with ack := ERR_INVALID_MSG_ID }
  let (s, ack) ← handlePayload s (frame.extract DrvLayout.Header_size frame.size)
  let s := { s with ack := ack }
  if ack &&& ERR_BIT ≠ 0 then return s
  let mut s := s
  if slot2 ≠ 0 then
    if DrvLayout.Header_size + slot2 > frame.size then .error (.index "ecat_recv: slot 2 offset") else
    let (s', ack) ← handlePayload s (frame.extract (DrvLayout.Header_size + slot2) frame.size)
    s := { s' with ack := ack }
    if ack &&& ERR_BIT ≠ 0 then return s
  s ← ctlWrite s ADDR_CTL_FLAG s.flagsInternal
  return { s with ack := msgId }

/-- the state word written by `FPGAEmulator::update_with_sys_time`: bit 1 = current modulation segment,
bit 2 = current STM segment, bit 3 = the current STM segment holds a single pattern; bit 0 (thermal
sensor) and the rest are kept -/
def fpgaStateWord (st curMod curStm stmCycle : Nat) : Nat :=
  let st := if curMod = 0 then st &&& (65535 - 2) else st ||| 2
  let st := if curStm = 0 then st &&& (65535 - 4) else st ||| 4
  if stmCycle = 1 then st ||| 8 else st &&& (65535 - 8)

/-- `FPGAEmulator::update_with_sys_time` followed by the CPU's `read_fpga_state` -/
def updateWithSysTime (s : State) (t : Nat) : M State := do
  let mw ← s.modSwap.update (gpioIn s) t
  let sw ← s.stmSwap.update (gpioIn s) t
  let s := { s with modSwap := mw, stmSwap := sw }
  let st := fpgaStateWord (reg s ADDR_FPGA_STATE) s.modSwap.cur s.stmSwap.cur (reg s (ADDR_STM_CYCLE0 + s.stmSwap.cur) + 1)
  let s := { s with ctl := s.ctl.setIfInBounds ADDR_FPGA_STATE st }
  let s := readFpgaState s
  return { s with dcSysTime := t }

/-- thermal sensor assert / deassert (`FPGAEmulator::{assert,deassert}_thermal_sensor`) -/
def setThermo (s : State) (on : Bool) : State :=
  let st := reg s ADDR_FPGA_STATE
  { s with ctl := s.ctl.setIfInBounds ADDR_FPGA_STATE (if on then st ||| 1 else st &&& (65535 - 1)) }

/-- `CPUEmulator::new(_, num_transducers)` with the wall clock reading `now`: `Memory::new`,
both `Swapchain::new`, then `init()` = `clear` -/
def new (numTr now : Nat) : M State := do
  let ctl := (Array.replicate 256 0).setIfInBounds ADDR_VERSION_NUM_MAJOR
    (((Autd3.Gen.Fpga.ENABLED_FEATURES_BITS <<< 8) ||| Autd3.Gen.Fpga.VERSION_NUM_MAJOR) % 65536)
  let ctl := ctl.setIfInBounds ADDR_VERSION_NUM_MINOR Autd3.Gen.Fpga.VERSION_NUM_MINOR
  let s : State := { numTr := numTr, dcSysTime := now, ctl := ctl,
                     pwe := (Array.range 256).map Autd3.Gen.Tables.fpgaAsin,
                     modSwap := { sysTime := now }, stmSwap := { sysTime := now } }
  let (s, _) ← clear s #[]
  return s

end Autd3.Fw
