/-
Exact IEEE-754 binary32 arithmetic on bit patterns (`Nat < 2^32`), as far as the geometry part of the
remote-link codec needs it: `mul`, `add`, `sub`, `div`, `sqrt`, round-to-nearest-even, signed zeros,
infinities; every NaN is the canonical quiet NaN `0x7fc00000` (the harness canonicalises the same way).
Results are computed as exact rationals / integer square roots and rounded once.
No imports: linked into `autd3model`. Validated against the hardware by the `f32` op lines of the
`pbcodec` stream.
-/
namespace Autd3.PbCodec.F32

def nan : Nat := 0x7fc00000
def inf : Nat := 0x7f800000
def signBit : Nat := 0x80000000
def one : Nat := 0x3f800000
def two : Nat := 0x40000000

def sign (b : Nat) : Nat := (b / 0x80000000) % 2
def expo (b : Nat) : Nat := (b / 0x800000) % 256
def frac (b : Nat) : Nat := b % 0x800000

def isNaN (b : Nat) : Bool := expo b == 255 && frac b != 0
def isInf (b : Nat) : Bool := expo b == 255 && frac b == 0
def isFinite (b : Nat) : Bool := expo b != 255
def isZero (b : Nat) : Bool := expo b == 0 && frac b == 0

/-- integer significand `M` and exponent offset `e` of a finite value `(-1)^s · M · 2^(e - 149)` -/
def mant (b : Nat) : Nat := if expo b = 0 then frac b else 0x800000 + frac b
def eoff (b : Nat) : Nat := if expo b = 0 then 0 else expo b - 1

def withSign (s : Nat) (b : Nat) : Nat := if s % 2 = 1 then signBit + b else b

/-- canonical form used on compared lines: any NaN ↦ `0x7fc00000` -/
def canon (b : Nat) : Nat := if isNaN b then nan else b % 0x100000000

/-- round the positive rational `num / den` (`num, den > 0`) to the nearest binary32 (ties to even);
result is the bit pattern of the positive value (`inf` on overflow, possibly `0` on underflow). -/
def roundPos (num den : Nat) : Nat :=
  -- work in units of 2^-149 (the spacing of subnormals):  num/den = (n/den) · 2^-149
  let n := num * 2 ^ 149
  let ln := Nat.log2 n
  let ld := Nat.log2 den
  -- l = ⌊log2 (n/den)⌋ when n ≥ den (it is ln - ld or one less); irrelevant (0) when n < den
  let l := if ld ≤ ln then (if den * 2 ^ (ln - ld) ≤ n then ln - ld else ln - ld - 1) else 0
  -- keep 24 significant bits: drop `sh = max (l - 23) 0` low bits, round to nearest, ties to even
  let sh := l - 23
  let d := den * 2 ^ sh
  let q := n / d
  let r := n % d
  let q := if 2 * r > d then q + 1 else if 2 * r = d then (if q % 2 = 1 then q + 1 else q) else q
  -- exponent field and fraction in one sum: a carry out of the 24-bit significand (or a subnormal
  -- rounding up to the smallest normal) lands in the exponent field by itself
  let bits := sh * 0x800000 + q
  if bits ≥ inf then inf else bits

def mul (a b : Nat) : Nat :=
  if isNaN a || isNaN b then nan
  else
    let s := (sign a + sign b) % 2
    if isInf a || isInf b then
      if isZero a || isZero b then nan else withSign s inf
    else if isZero a || isZero b then withSign s 0
    else
      -- (Ma·2^(ea-149)) · (Mb·2^(eb-149)) = Ma·Mb·2^(ea+eb) / 2^298
      withSign s (roundPos (mant a * mant b * 2 ^ (eoff a + eoff b)) (2 ^ 298))

def neg (a : Nat) : Nat := if isNaN a then nan else if sign a = 1 then a - signBit else a + signBit

def add (a b : Nat) : Nat :=
  if isNaN a || isNaN b then nan
  else if isInf a then
    if isInf b && sign a != sign b then nan else a
  else if isInf b then b
  else
    -- exact sum in units of 2^-149
    let va : Int := (if sign a = 1 then -1 else 1) * ((mant a * 2 ^ eoff a : Nat) : Int)
    let vb : Int := (if sign b = 1 then -1 else 1) * ((mant b * 2 ^ eoff b : Nat) : Int)
    let s := va + vb
    if s = 0 then
      (if sign a = 1 && sign b = 1 then signBit else 0)
    else if s < 0 then withSign 1 (roundPos s.natAbs (2 ^ 149))
    else withSign 0 (roundPos s.natAbs (2 ^ 149))

def sub (a b : Nat) : Nat := add a (neg b)

def div (a b : Nat) : Nat :=
  if isNaN a || isNaN b then nan
  else
    let s := (sign a + sign b) % 2
    if isInf a then (if isInf b then nan else withSign s inf)
    else if isInf b then withSign s 0
    else if isZero b then (if isZero a then nan else withSign s inf)
    else if isZero a then withSign s 0
    else withSign s (roundPos (mant a * 2 ^ eoff a) (mant b * 2 ^ eoff b))

/-- ⌊√n⌋ by the bit-by-bit method (`fuel` ≥ number of result bits) -/
def isqrtAux (n : Nat) : Nat → Nat → Nat
  | 0, r => r
  | k + 1, r =>
    let c := r + 2 ^ k
    isqrtAux n k (if c * c ≤ n then c else r)

def isqrt (n : Nat) : Nat := isqrtAux n (Nat.log2 n / 2 + 1) 0

def sqrt (a : Nat) : Nat :=
  if isNaN a then nan
  else if isZero a then a
  else if sign a = 1 then nan
  else if isInf a then inf
  else
    -- value = M · 2^(e-149); scale by 2^(2t) so that the integer root carries > 26 bits:
    -- √(M · 2^(e-149)) = √(M · 2^(e+1) · 2^(2·64)) / 2^(75+64)      (e - 149 = (e+1) - 150)
    let m := mant a * 2 ^ (eoff a + 1) * 2 ^ 128
    let r := isqrt m
    let sticky := if r * r = m then 0 else 1
    roundPos (2 * r + sticky) (2 ^ 140)

end Autd3.PbCodec.F32
