/-!
# A fixed-point enclosure of `sin(2π·r/n + φ)`

`libm`'s `sinf` is not modelled.  The sample *values* of `Sine`/`Fourier` are only required to lie
in an admissible interval around the ideal waveform; this file supplies the ideal value as an
integer enclosure at scale `S = 2^30`, computed with word-sized natural-number arithmetic:

* the argument is kept in *turns* at scale `2^32`: `r/n` is reduced exactly (`r mod n`), the phase
  contributes `phiTurn φ = ⌊frac(φ/2π)·2^32⌋`, computed once per modulation with `π` to 80 bits;
* the turn is folded into the first quadrant, converted to radians (`x = 2π·turn`, with
  `Pa = ⌊π·2^30⌋`) and the Taylor polynomial of degree 15 is evaluated in fixed point
  (`x ≤ π/2`: truncation `< 1.5708^17/17! < 10^-11`).

Error budget in units of `1/S`: the turn is off by `< 3` units of `2^-32` turn (`< 5` units of
angle), the conversion floors once, each of the 8 Taylor steps floors three times and inherits the
one-unit error of `x²`; truncation `< 1`.  `sinFx` returns the bound `E = 32` with the value:
`| ±m − S·sin θ | ≤ E`, i.e. `3·10^-8` — far inside the float tolerance (`≥ 2^-9` levels) the caller
adds.  (This enclosure is *not* kernel-certified against `Real.sin`; it belongs to the
modelled-not-verified base and is cross-checked by the harness oracle, which uses an independent
`f64` reference.)
-/
namespace Autd3.SinEnc

def S : Nat := 2 ^ 30
/-- `⌊π·2^30⌋` -/
def Pa : Nat := 3373259426
/-- scale of a turn -/
def T : Nat := 2 ^ 32
/-- error bound of `sinFx`, in units of `1/S` -/
def E : Nat := 32

/-- `⌊frac(φ / 2π) · 2^32⌋` (off by at most one unit for `|φ| ≤ 2^20`) -/
def phiTurn (phi : Rat) : Nat :=
  let p80 : Rat := ((0x3243f6a8885a308d31319 : Nat) : Rat) / ((2 ^ 80 : Nat) : Rat)
  let q := phi / (2 * p80)
  ((q - (q.floor : Rat)) * ((T : Nat) : Rat)).floor.toNat % T

/-- Taylor steps `term ↦ term·x²/((2j)(2j+1))`, accumulated with alternating sign into
`(pos, neg)` -/
def taylor (x2 : Nat) : Nat → Nat → Bool → Nat → Nat → Nat → Nat × Nat
  | 0, _, _, _, pos, neg => (pos, neg)
  | fuel + 1, j, minus, term, pos, neg =>
    let t := term * x2 / S / ((2 * j) * (2 * j + 1))
    if minus then taylor x2 fuel (j + 1) false t pos (neg + t)
    else taylor x2 fuel (j + 1) true t (pos + t) neg

/-- `(negative, m)`: `sin(2π·r/n + φ) ≈ ±m / S` within `E / S`, where `phT = phiTurn φ`
(requires `n > 0`) -/
def sinFx (r n phT : Nat) : Bool × Nat :=
  let t := ((r % n) * T / n + phT) % T
  let q := t / 2 ^ 30
  let f := t % 2 ^ 30
  let xt := if q % 2 = 0 then f else 2 ^ 30 - f
  let x := 2 * Pa * xt / T
  let x2 := x * x / S
  let (pos, neg) := taylor x2 7 1 true x x 0
  (decide (2 ≤ q), pos - neg)

end Autd3.SinEnc
