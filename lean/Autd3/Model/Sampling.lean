import Autd3.Model.F32
/-
Model of `autd3-core/src/sampling_config/mod.rs` (`SamplingConfig::{division, freq, period,
into_nearest}`), `autd3-core/src/utils/float.rs` (`is_integer`, in `Model/F32.lean`) and
`autd3-driver/src/datagram/stm/sampling_config.rs` (`STMConfig::into_sampling_config`).

Same branch structure and names as the Rust code *after* the two repairs of C06
(`division.round() as u16` in the `Freq` arm; `nearest_division` for `FreqNearest`).  The code as it
was before the repairs is kept as `divisionUnrepaired` for the witnesses of DESIGN §6 F6/F7.

`Duration` is its total number of nanoseconds (`Nat`).  Panics are values (`Err.panic`).
No imports outside the model.
-/
namespace Autd3.Sampling
open Autd3 Autd3.F32

/-- `ULTRASOUND_FREQ.hz()` -/
abbrev ultrasoundFreq : Nat := 40000
/-- `ULTRASOUND_PERIOD.as_nanos()` -/
abbrev ultrasoundPeriod : Nat := 25000
/-- `u16::MAX` -/
abbrev u16Max : Nat := 65535

/-- `SamplingConfigError` (payloads dropped), `AUTDDriverError::STMPeriodInvalid`, and a Rust panic -/
inductive Err where
  | freqOutOfRange
  | freqInvalid
  | periodOutOfRange
  | periodInvalid
  | stmPeriodInvalid
  | panic
deriving Repr, DecidableEq

/-- `SamplingConfig` -/
inductive Cfg where
  | division (d : Nat)            -- NonZeroU16
  | freq (f : F32)
  | period (ns : Nat)
  | freqNearest (f : F32)
  | periodNearest (ns : Nat)
deriving Repr, DecidableEq

/-- `(freq as f64 * 2^24) as u128`: the product is exact in `f64` for every `f32`; the cast truncates
toward zero (only called with `0.5 ≤ freq < 40000`, where the product is already an integer). -/
def scaled24 : F32 → Nat
  | .fin false m e => min (floorScaled m (e + 24)) (2 ^ 128 - 1)
  | .inf false => 2 ^ 128 - 1
  | _ => 0

/-- `nearest_division(freq)`: the division in `1..=u16::MAX` whose frequency is nearest to `freq` -/
def nearestDivision (freq : F32) : Except Err Nat :=
  let base := ultrasoundFreq
  -- if freq.is_nan() || freq < 0.5 { return u16::MAX; }
  if F32.isNaN freq || F32.lt freq (.fin false 1 (-1)) then .ok u16Max
  -- if freq >= base as f64 { return 1; }
  else if F32.le (F32.ofNat base) freq then .ok 1
  else
    let f := scaled24 freq
    let n := base * 2 ^ 24
    if f = 0 then .error .panic            -- `n / f`: division by zero
    else
      let d := min (max (n / f) 1) (u16Max - 1)   -- (n / f).clamp(1, u16::MAX - 1)
      if 2 ^ 128 ≤ 2 * f * d * (d + 1) then .error .panic   -- u128 overflow (dev profile)
      else if 2 * f * d * (d + 1) < n * (2 * d + 1) then .ok (d + 1) else .ok d

/-- `SamplingConfig::division` -/
def division : Cfg → Except Err Nat
  | .division d => .ok d
  | .freq freq =>
    let freqMax := F32.ofNat ultrasoundFreq
    let freqMin := F32.div freqMax (F32.ofNat u16Max)
    if !(F32.le freqMin freq && F32.le freq freqMax) then .error .freqOutOfRange
    else
      let division := F32.div (F32.ofNat ultrasoundFreq) freq
      if !(F32.isInteger division) then .error .freqInvalid
      else .ok (F32.toU16 (F32.roundHalfAway division))
  | .period ns =>
    let periodMin := ultrasoundPeriod
    let periodMax := u16Max * ultrasoundPeriod
    if !(periodMin ≤ ns && ns ≤ periodMax) then .error .periodOutOfRange
    else if ns % ultrasoundPeriod ≠ 0 then .error .periodInvalid
    else .ok ((ns / ultrasoundPeriod) % 65536)         -- `as u16`
  | .freqNearest f => nearestDivision f
  | .periodNearest ns =>
    .ok (min (max ((ns + ultrasoundPeriod / 2) / ultrasoundPeriod) 1) u16Max)

/-- `SamplingConfig::freq`: `ULTRASOUND_FREQ.hz() as f32 / self.division()? as f32` -/
def freq (c : Cfg) : Except Err F32 :=
  match division c with
  | .error e => .error e
  | .ok d => .ok (F32.div (F32.ofNat ultrasoundFreq) (F32.ofNat d))

/-- `SamplingConfig::period`: `ULTRASOUND_PERIOD * self.division()? as u32`, in nanoseconds -/
def period (c : Cfg) : Except Err Nat :=
  match division c with
  | .error e => .error e
  | .ok d => .ok (ultrasoundPeriod * d)

/-- `SamplingConfig::into_nearest` -/
def intoNearest : Cfg → Cfg
  | .freq f => .freqNearest f
  | .period p => .periodNearest p
  | c => c

/-- `STMConfig` -/
inductive StmCfg where
  | freq (f : F32)
  | period (ns : Nat)
  | samplingConfig (c : Cfg)
  | freqNearest (f : F32)
  | periodNearest (ns : Nat)
deriving Repr, DecidableEq

/-- `Duration / (size as u32)`: panics on a zero divisor; otherwise the floor of the nanoseconds -/
def durationDiv (ns size : Nat) : Except Err Nat :=
  let rhs := size % 2 ^ 32          -- `size as u32`
  if rhs = 0 then .error .panic else .ok (ns / rhs)

/-- `STMConfig::into_sampling_config(self, size)` -/
def intoSamplingConfig (c : StmCfg) (size : Nat) : Except Err Cfg :=
  match c with
  | .freq f => .ok (.freq (F32.mul f (F32.ofNat size)))
  | .period p =>
    if size = 0 then .error .stmPeriodInvalid  -- `size == 0 || p.as_nanos() % size as u128 != 0`
    else if p % size ≠ 0 then .error .stmPeriodInvalid
    else match durationDiv p size with
      | .error e => .error e
      | .ok q => .ok (.period q)
  | .samplingConfig s => .ok s
  | .freqNearest f => .ok (intoNearest (.freq (F32.mul f (F32.ofNat size))))
  | .periodNearest p =>
    if size = 0 then .error .stmPeriodInvalid  -- refused before the division
    else match durationDiv p size with
    | .error e => .error e
    | .ok q => .ok (intoNearest (.period q))

/-- the division an STM of `size` points runs at -/
def stmDivision (c : StmCfg) (size : Nat) : Except Err Nat :=
  match intoSamplingConfig c size with
  | .error e => .error e
  | .ok s => division s

/-! ### The code before the repairs (DESIGN §6, F6 and F7), for the recorded witnesses only -/

/-- `SamplingConfig::division` as it was: the `Freq` arm truncates (`division as u16`), the
`FreqNearest` arm rounds in division space and lets NaN through. -/
def divisionUnrepaired : Cfg → Except Err Nat
  | .freq freq =>
    let freqMax := F32.ofNat ultrasoundFreq
    let freqMin := F32.div freqMax (F32.ofNat u16Max)
    if !(F32.le freqMin freq && F32.le freq freqMax) then .error .freqOutOfRange
    else
      let division := F32.div (F32.ofNat ultrasoundFreq) freq
      if !(F32.isInteger division) then .error .freqInvalid
      else .ok (F32.toU16 division)
  | .freqNearest f =>
    .ok (F32.toU16 (F32.roundHalfAway
      (F32.clamp (F32.div (F32.ofNat ultrasoundFreq) f) (F32.ofNat 1) (F32.ofNat u16Max))))
  | c => division c

end Autd3.Sampling
