/-!
# `Ctl.groupSend` — executable model of `Sender::group_send`

Mirror of `autd3/src/controller/group.rs` (the async copy `autd3/src/async/controller/group.rs` is
the same text with `.await`), of the parts of `Sender::send`/`send_impl`
(`autd3/src/controller/sender/mod.rs`) and `OperationHandler::{generate,pack,is_done}`
(`autd3-driver/src/firmware/operation/mod.rs`) that it calls, with

* the iteration order of the internal `HashMap<K, BitVec>` as an explicit parameter (`perm`),
* the link as a script (`Fault`): which `Link::send` / `Link::receive` of the call fails,
* datagrams abstracted to what `group_send` can distinguish (`Dg`): whether building the operation
  generator fails, which enabled set the generator saw (geometry-wide gains), how many frames the
  operation needs and whether `pack` fails.

What a device receives is the list of frames put into its `tx` slot with a fresh message id
(`Frame.dev`), round by round (`log`); a slot that was not re-packed keeps its old id and is dropped
by the firmware, so it is not part of the log.

The model is the code **after** the repair of DESIGN §6 F11 (`restoreOnErr = true`: the saved
`enable` flags are written back before an `UnknownKey`/generator error is propagated);
`restoreOnErr = false` is the code as it was.
-/
namespace Autd3.Group

abbrev Key := Nat

structure Device where
  idx : Nat
  enable : Bool
deriving DecidableEq, Repr

abbrev Geometry := List Device

/-- `Geometry::devices()` (and `devices_mut()`): the enabled devices, in order -/
def devices (g : Geometry) : List Device := g.filter (·.enable)

/-- geometry of `n` devices, `idx` = position, with the given flags -/
def mkGeometry (flags : List Bool) : Geometry :=
  (List.range flags.length).zipWith (fun i e => { idx := i, enable := e }) flags

inductive Kind | gain | mod
deriving DecidableEq, Repr

/-- a datagram as far as `group_send` is concerned -/
structure Dg where
  kind : Kind
  /-- identifies the payload (gain intensity / modulation sample value) -/
  id : Nat
  /-- number of modulation samples (ignored for gains) -/
  len : Nat
  /-- `Gain::init_full` / `Modulation::calc` returns `Err` -/
  genFail : Bool
deriving DecidableEq, Repr

inductive Err
  | unknownKey (k : Key)
  | unusedKey (ks : List Key)
  /-- `AUTDDriverError::{Gain, Modulation}` from `operation_generator` -/
  | gen (id : Nat)
  /-- `AUTDDriverError::ModulationSizeOutOfRange` from `Operation::pack` -/
  | pack (id : Nat)
  /-- `Link::send` / `Link::receive` returned `Err` -/
  | link
  /-- `BitVec` index out of range -/
  | panic
  /-- model artefact: loop fuel exhausted (proved unreachable) -/
  | fuel
deriving DecidableEq, Repr

/-- one frame in one device's `tx` slot -/
structure Frame where
  dev : Nat
  dg : Dg
  /-- enable flags the operation generator saw (gains only; `[]` for modulations) -/
  seen : List Bool
  /-- index of the frame within its operation -/
  idx : Nat
deriving DecidableEq, Repr

/-- frames a modulation of `len` samples takes: 254 samples in the first, 618 in each further one -/
def Dg.nframes (d : Dg) : Nat :=
  match d.kind with
  | .gain => 1
  | .mod => if d.len ≤ 254 then 1 else 1 + (d.len - 254 + 617) / 618

/-- number of frames `pack` produces before it fails (`ModulationOp::pack` checks the whole buffer
length — 2..=65536 — before it builds the first frame) -/
def Dg.okFrames (d : Dg) : Nat :=
  match d.kind with
  | .gain => 1
  | .mod => if d.len < 2 then 0 else if d.len > 65536 then 0 else d.nframes

def Dg.packErr (d : Dg) : Option Err :=
  match d.kind with
  | .gain => none
  | .mod => if d.len < 2 ∨ d.len > 65536 then some (.pack d.id) else none

/-- an operation: the frames it will still pack, then the error its next `pack` returns (if any) -/
structure Op where
  frames : List Frame
  err : Option Err
deriving DecidableEq, Repr

/-- `op1.is_done() && op2.is_done()` -/
def Op.isDone (o : Op) : Bool := o.frames.isEmpty && o.err.isNone

structure Gen where
  dg : Dg
  seen : List Bool
deriving DecidableEq, Repr

/-- what the generator records of the enable flags it was built under: a geometry-wide gain sees
them, a modulation never looks at the geometry -/
def Dg.seenOf (d : Dg) (mask : List Bool) : List Bool :=
  match d.kind with
  | .gain => mask
  | .mod => []

/-- `datagram.operation_generator(geometry, parallel)` -/
def Dg.generator (d : Dg) (geo : Geometry) : Except Err Gen :=
  if d.genFail then .error (.gen d.id)
  else .ok { dg := d, seen := d.seenOf (geo.map (·.enable)) }

/-- `generator.generate(dev)` -/
def Gen.generate (g : Gen) (dev : Device) : Op :=
  { frames := (List.range g.dg.okFrames).map fun j => { dev := dev.idx, dg := g.dg, seen := g.seen, idx := j },
    err := g.dg.packErr }

/-! ## the link script and `send_impl` -/

instance : DecidableEq (Except Err Unit) := fun a b =>
  match a, b with
  | .ok _, .ok _ => isTrue rfl
  | .error e, .error e' =>
    if h : e = e' then isTrue (by rw [h]) else isFalse (by intro h'; cases h'; exact h rfl)
  | .ok _, .error _ => isFalse (by intro h; cases h)
  | .error _, .ok _ => isFalse (by intro h; cases h)

inductive Fault
  | none
  /-- the `s`-th `Link::send` of the call fails -/
  | send (s : Nat)
  /-- the `Link::receive` after the `s`-th `Link::send` fails -/
  | recv (s : Nat)
deriving DecidableEq, Repr

/-- `OperationHandler::pack_op2` on one slot: `None` and finished operations leave `tx` alone -/
def packOne : Option Op → Except Err (Option Frame × Option Op)
  | none => .ok (none, none)
  | some op =>
    match op.frames with
    | f :: rest => .ok (some f, some { op with frames := rest })
    | [] =>
      match op.err with
      | some e => .error e
      | none => .ok (none, some op)

/-- `geometry.iter().zip(tx).filter(enable).zip(operations).try_for_each(pack_op2)`, serial order:
the k-th enabled device is paired with the k-th operation; the first error stops everything -/
def packList : List Device → List (Option Op) → Except Err (List Frame × List (Option Op))
  | [], ops => .ok ([], ops)
  | _ :: _, [] => .ok ([], [])
  | _ :: devs, op :: ops =>
    match packOne op with
    | .error e => .error e
    | .ok (fr, op') =>
      match packList devs ops with
      | .error e => .error e
      | .ok (frs, ops') => .ok (fr.toList ++ frs, op' :: ops')

/-- `OperationHandler::pack` -/
def pack (geo : Geometry) (ops : List (Option Op)) : Except Err (List Frame × List (Option Op)) :=
  packList (devices geo) ops

/-- `OperationHandler::is_done` -/
def isDone (ops : List (Option Op)) : Bool :=
  ops.all fun o => match o with | none => true | some op => op.isDone

/-- the loop of `Sender::send_impl`: pack, `link.send`, `link.receive` (acks of the emulated devices
match at once), stop when every operation is done. `n` counts the sends of this call. -/
def sendLoop : Nat → Geometry → List (Option Op) → Fault → Nat → List (List Frame) →
    Except Err Unit × List (List Frame)
  | 0, _, _, _, _, log => (.error .fuel, log)
  | fuel + 1, geo, ops, fault, n, log =>
    match pack geo ops with
    | .error e => (.error e, log)
    | .ok (round, ops') =>
      if fault = .send n then (.error .link, log)
      else
        let log' := log ++ [round]
        if fault = .recv n then (.error .link, log')
        else if isDone ops' then (.ok (), log')
        else sendLoop fuel geo ops' fault (n + 1) log'

def opLen : Option Op → Nat
  | none => 0
  | some op => op.frames.length

def fuelFor (ops : List (Option Op)) : Nat := (ops.map opLen).sum + 1

/-- `Sender::send_impl(operations, ..)` -/
def sendImpl (geo : Geometry) (ops : List (Option Op)) (fault : Fault) : Except Err Unit × List (List Frame) :=
  sendLoop (fuelFor ops) geo ops fault 0 []

/-- `Sender::send(d)`: generator for the whole (enabled) geometry, one operation per enabled device -/
def send (geo : Geometry) (d : Dg) (fault : Fault) : Except Err Unit × List (List Frame) :=
  match d.generator geo with
  | .error e => (.error e, [])
  | .ok g => sendImpl geo ((devices geo).map fun dev => some (g.generate dev)) fault

/-! ## `group_send` -/

abbrev Filter := List Bool

/-- `BitVec::from_fn(num_devices, |i| i == dev.idx())` -/
def Filter.single (n i : Nat) : Filter := (List.range n).map (· == i)

/-- the `filters.get_mut(&key)` / `filters.insert` step; `BitVec::set` panics out of range -/
def insertKey (n : Nat) : List (Key × Filter) → Key → Nat → Except Err (List (Key × Filter))
  | [], k, i => .ok [(k, Filter.single n i)]
  | (k', f) :: rest, k, i =>
    if k' = k then
      if i < f.length then .ok ((k', f.set i true) :: rest) else .error .panic
    else
      match insertKey n rest k i with
      | .error e => .error e
      | .ok rest' => .ok ((k', f) :: rest')

def buildFiltersAux (n : Nat) (km : Nat → Option Key) :
    List Device → List (Key × Filter) → Except Err (List (Key × Filter))
  | [], fs => .ok fs
  | dev :: rest, fs =>
    match km dev.idx with
    | none => buildFiltersAux n km rest fs
    | some k =>
      match insertKey n fs k dev.idx with
      | .error e => .error e
      | .ok fs' => buildFiltersAux n km rest fs'

/-- the `filters` block: one bit vector of length `geometry.len()` per key, built over the
*enabled* devices (here in insertion order; the `HashMap` forgets that order) -/
def buildFilters (geo : Geometry) (km : Nat → Option Key) : Except Err (List (Key × Filter)) :=
  buildFiltersAux geo.length km (devices geo) []

/-- `geometry.devices_mut().for_each(|dev| dev.enable = filter[dev.idx()])`: only currently enabled
devices are rewritten; `filter[i]` panics out of range (checked once, up front) -/
def setEnable (geo : Geometry) (f : Filter) : Except Err Geometry :=
  if geo.all (fun dev => !dev.enable || decide (dev.idx < f.length)) then
    .ok (geo.map fun dev => if dev.enable then { dev with enable := f.getD dev.idx false } else dev)
  else .error .panic

/-- `geometry.iter_mut().zip(enable_store.iter()).for_each(|(dev, &e)| dev.enable = e)` -/
def restore : Geometry → List Bool → Geometry
  | [], _ => []
  | d :: ds, [] => d :: ds
  | d :: ds, e :: es => { d with enable := e } :: restore ds es

/-- `operations.iter_mut().zip(geometry.devices()).filter(|(_, dev)| filter[dev.idx()])
.for_each(|(op, dev)| *op = Some(generator.generate(dev)))` -/
def fillOps : List (Option Op) → List Device → Filter → Gen → List (Option Op)
  | [], _, _, _ => []
  | op :: ops, [], _, _ => op :: ops
  | op :: ops, dev :: devs, f, g =>
    (if f.getD dev.idx false then some (g.generate dev) else op) :: fillOps ops devs f g

/-- `datagram_map.remove(&k)` -/
def removeKey (dmap : List (Key × Dg)) (k : Key) : List (Key × Dg) := dmap.filter (·.1 != k)

structure LoopSt where
  geo : Geometry
  ops : List (Option Op)
  dmap : List (Key × Dg)
  /-- ghost: keys whose operation generator was requested, in order -/
  visited : List Key
deriving Repr

/-- the `filters.into_iter().try_for_each(..)` loop, in the given order. Returns the error that
stopped it (if any) and the state at that moment. -/
def keyLoop (restoreOnErr : Bool) (store : List Bool) : List (Key × Filter) → LoopSt → Option Err × LoopSt
  | [], st => (none, st)
  | (k, f) :: rest, st =>
    match setEnable st.geo f with
    | .error e => (some e, st)
    | .ok geoTmp =>
      let geoErr := if restoreOnErr then restore geoTmp store else geoTmp
      match st.dmap.lookup k with
      | none => (some (.unknownKey k), { st with geo := geoErr })
      | some d =>
        let dmap' := removeKey st.dmap k
        match d.generator geoTmp with
        | .error e => (some e, { st with geo := geoErr, dmap := dmap', visited := st.visited ++ [k] })
        | .ok g =>
          let geo' := restore geoTmp store
          keyLoop restoreOnErr store rest
            { geo := geo', ops := fillOps st.ops (devices geo') f g, dmap := dmap', visited := st.visited ++ [k] }

structure Outcome where
  result : Except Err Unit
  /-- the geometry (enable flags) after the call -/
  geo : Geometry
  /-- per successful `Link::send`: the frames with a fresh message id -/
  log : List (List Frame)
  visited : List Key
deriving Repr

/-- `group_send` after the filters were built, visiting them in the order of `fs` -/
def groupSendWith (restoreOnErr : Bool) (fs : List (Key × Filter)) (geo : Geometry)
    (dmap : List (Key × Dg)) (fault : Fault) : Outcome :=
  let store := geo.map (·.enable)
  let ops0 : List (Option Op) := (devices geo).map fun _ => none
  match keyLoop restoreOnErr store fs { geo := geo, ops := ops0, dmap := dmap, visited := [] } with
  | (some e, st) => { result := .error e, geo := st.geo, log := [], visited := st.visited }
  | (none, st) =>
    if st.dmap.isEmpty then
      let r := sendImpl st.geo st.ops fault
      { result := r.1, geo := st.geo, log := r.2, visited := st.visited }
    else
      { result := .error (.unusedKey (st.dmap.map (·.1))), geo := st.geo, log := [], visited := st.visited }

/-- `Sender::group_send(key_map, datagram_map)`; `perm` is the `HashMap` iteration order -/
def groupSend (restoreOnErr : Bool) (perm : List (Key × Filter) → List (Key × Filter))
    (geo : Geometry) (km : Nat → Option Key) (dmap : List (Key × Dg)) (fault : Fault) : Outcome :=
  match buildFilters geo km with
  | .error e => { result := .error e, geo := geo, log := [], visited := [] }
  | .ok fs => groupSendWith restoreOnErr (perm fs) geo dmap fault

/-! ## what a device has received, and the read-back it leads to -/

/-- the frames device `i` processed, in order -/
def devFrames (log : List (List Frame)) (i : Nat) : List Frame := log.flatten.filter (·.dev == i)

def maskNat : List Bool → Nat
  | [] => 0
  | b :: bs => (if b then 1 else 0) + 2 * maskNat bs

/-- abstract read-back: intensity/phase of the gain in segment 0, first sample and cycle of the
modulation in segment 0 (`drives_at(S0,0)`, `modulation_buffer(S0)`) -/
structure Obs where
  gId : Nat
  gMask : Nat
  mFirst : Nat
  mLen : Nat
deriving DecidableEq, Repr

/-- state after `Clear` -/
def Obs.init : Obs := { gId := 0, gMask := 0, mFirst := 255, mLen := 2 }

/-- a gain frame replaces the drives; the first modulation frame overwrites the start of the
buffer, the frame carrying `END` sets the cycle -/
def Obs.apply (o : Obs) (f : Frame) : Obs :=
  match f.dg.kind with
  | .gain => { o with gId := f.dg.id, gMask := maskNat f.seen % 256 }
  | .mod =>
    let o := if f.idx = 0 then { o with mFirst := f.dg.id } else o
    if f.idx + 1 = f.dg.nframes then { o with mLen := f.dg.len } else o

def devObs (log : List (List Frame)) (i : Nat) : Obs := (devFrames log i).foldl Obs.apply Obs.init

/-! ## specification-level notions used by the theorems -/

/-- device indices are positions (`Geometry::new` numbers the devices) -/
def WF (geo : Geometry) : Prop := geo.map (·.idx) = List.range geo.length

instance (geo : Geometry) : Decidable (WF geo) := by unfold WF; infer_instance

/-- the enabled devices that `km` sends to key `k`, as a flag per device -/
def groupMask (geo : Geometry) (km : Nat → Option Key) (k : Key) : List Bool :=
  geo.map fun d => d.enable && km d.idx == some k

/-- some enabled device is mapped to `k` -/
def usedKey (geo : Geometry) (km : Nat → Option Key) (k : Key) : Prop :=
  ∃ d ∈ geo, d.enable = true ∧ km d.idx = some k

/-- the geometry with its enable flags replaced -/
def withMask (geo : Geometry) (m : List Bool) : Geometry := restore geo m

/-- the geometry in which device `i` alone is enabled -/
def alone (geo : Geometry) (i : Nat) : Geometry := geo.map fun d => { d with enable := d.idx == i }

/-- an iteration order of the `HashMap<K, BitVec>`: any function that only permutes the filter list -/
def IsOrder (perm : List (Key × Filter) → List (Key × Filter)) : Prop := ∀ l, (perm l).Perm l

/-- keys of the datagram map that no enabled device is mapped to, in map order -/
def extraKeys (geo : Geometry) (km : Nat → Option Key) (dmap : List (Key × Dg)) : List Key :=
  (dmap.filter fun p => !(geo.any fun d => d.enable && (km d.idx == some p.1))).map (·.1)

/-- a frame without the record of what its generator saw -/
def Frame.payload (f : Frame) : Nat × Dg × Nat := (f.dev, f.dg, f.idx)

/-! ## `datagram_option` aggregation and `ParallelMode` (additive; nothing above depends on it)

Mirror of the `DatagramOption { timeout: ZERO, parallel_threshold: usize::MAX }` accumulator of
`group_send` (`timeout.max(..)`, `parallel_threshold.min(..)` per consumed datagram), of
`self.option.timeout.unwrap_or(datagram_option.timeout)` and of `ParallelMode::is_parallel`. -/

/-- `usize::MAX` on the 64-bit targets the harness runs on -/
def usizeMax : Nat := 2 ^ 64 - 1

/-- `DatagramOption`: timeout (ms), parallel threshold -/
structure DgOpt where
  timeout : Nat
  parThr : Nat
deriving DecidableEq, Repr

/-- the accumulator `group_send` starts from -/
def DgOpt.zero : DgOpt := { timeout := 0, parThr := usizeMax }

/-- one step of the accumulation -/
def DgOpt.agg (a d : DgOpt) : DgOpt :=
  { timeout := max a.timeout d.timeout, parThr := min a.parThr d.parThr }

/-- the `datagram_option` after the datagrams `l` were consumed (in that order) -/
def aggOptions (l : List DgOpt) : DgOpt := l.foldl DgOpt.agg DgOpt.zero

/-- `self.option.timeout.unwrap_or(datagram_option.timeout)` -/
def effTimeout (senderTimeout : Option Nat) (a : DgOpt) : Nat := senderTimeout.getD a.timeout

inductive ParMode | auto | on | off
deriving DecidableEq, Repr

/-- `ParallelMode::is_parallel(num_devices, parallel_threshold)` -/
def ParMode.isParallel : ParMode → Nat → Nat → Bool
  | .on, _, _ => true
  | .off, _, _ => false
  | .auto, n, thr => decide (n > thr)

/-- `self.geometry.num_devices()`: the enabled devices -/
def numDevices (g : Geometry) : Nat := (devices g).length


end Autd3.Group
