/-
Exact executable model of IEEE-754 binary32 arithmetic as Rust's `f32` uses it (round to nearest,
ties to even), restricted to the operations that `autd3-core/src/sampling_config/mod.rs`,
`autd3-core/src/utils/float.rs` and `autd3-driver/src/datagram/stm/sampling_config.rs` perform.

A value is NaN, ±∞ or `(-1)^neg · m · 2^e` with `m : Nat`, `e : Int`.  The representation is *not*
required to be normalised: every operation reads the value only, and `toBits` normalises.  All
arithmetic is exact integer arithmetic on `Nat`/`Int`; there is no use of Lean's opaque `Float`.

No imports: this file is linked into the `autd3model` driver.  Validated against the hardware by the
`f32ops` correspondence stream.
-/
namespace Autd3

inductive F32 where
  | nan
  | inf (neg : Bool)
  | fin (neg : Bool) (m : Nat) (e : Int)
deriving Repr, DecidableEq

namespace F32

/-- numerator and denominator of `(n/d) / 2^e` -/
def scaleDiv (n d : Nat) (e : Int) : Nat × Nat :=
  if 0 ≤ e then (n, d * 2 ^ e.toNat) else (n * 2 ^ (-e).toNat, d)

/-- `2^k ≤ n/d` -/
def geTwoPow (n d : Nat) (k : Int) : Bool :=
  (scaleDiv n d k).2 ≤ (scaleDiv n d k).1

/-- `⌊log₂ (n/d)⌋` for `n, d > 0` -/
def floorLog2Q (n d : Nat) : Int :=
  let k : Int := (Nat.log2 n : Int) - (Nat.log2 d : Int)
  if geTwoPow n d k then k else k - 1

/-- nearest integer to `n/d`, ties to even -/
def rne (n d : Nat) : Nat :=
  let q := n / d
  let r := n % d
  if 2 * r < d then q else if d < 2 * r then q + 1 else if q % 2 = 0 then q else q + 1

/-- exponent of the last place for the positive rational `n/d`: 24 significant bits, not below the
subnormal exponent -149 -/
def ulpExp (n d : Nat) : Int := max (floorLog2Q n d - 23) (-149)

/-- round the positive rational `n/d` (`n, d > 0`) to binary32: mantissa and exponent, or `none` on
overflow (the rounded value would be ≥ 2^128) -/
def roundPos (n d : Nat) : Option (Nat × Int) :=
  let e := ulpExp n d
  let m := rne (scaleDiv n d e).1 (scaleDiv n d e).2
  let me : Nat × Int := if m = 2 ^ 24 then (2 ^ 23, e + 1) else (m, e)
  if 104 < me.2 then none else some me

/-- the binary32 nearest to `(-1)^neg · n/d` (`d > 0`) -/
def round (neg : Bool) (n d : Nat) : F32 :=
  if n = 0 then fin neg 0 (-149)
  else match roundPos n d with
    | none => inf neg
    | some (m, e) => fin neg m e

def isNaN : F32 → Bool
  | nan => true
  | _ => false

/-- `a / b` -/
def div : F32 → F32 → F32
  | nan, _ => nan
  | _, nan => nan
  | inf _, inf _ => nan
  | inf s, fin t _ _ => inf (s != t)
  | fin s _ _, inf t => fin (s != t) 0 (-149)
  | fin s m1 e1, fin t m2 e2 =>
    if m2 = 0 then (if m1 = 0 then nan else inf (s != t))
    else
      -- (m1·2^e1) / (m2·2^e2) = (m1 / m2) · 2^(e1-e2)
      let nd := if e2 ≤ e1 then (m1 * 2 ^ (e1 - e2).toNat, m2) else (m1, m2 * 2 ^ (e2 - e1).toNat)
      round (s != t) nd.1 nd.2

/-- `a * b` -/
def mul : F32 → F32 → F32
  | nan, _ => nan
  | _, nan => nan
  | inf s, inf t => inf (s != t)
  | inf s, fin t m _ => if m = 0 then nan else inf (s != t)
  | fin s m _, inf t => if m = 0 then nan else inf (s != t)
  | fin s m1 e1, fin t m2 e2 =>
    let e := e1 + e2
    let nd := if 0 ≤ e then (m1 * m2 * 2 ^ e.toNat, 1) else (m1 * m2, 2 ^ (-e).toNat)
    round (s != t) nd.1 nd.2

/-- `n as f32` for an unsigned integer `n` (rounds when `n` needs more than 24 bits) -/
def ofNat (n : Nat) : F32 := round false n 1

/-- the value times `2^(-e)` as a signed integer pair, for comparisons -/
def sval (neg : Bool) (m : Nat) : Int := if neg then -(m : Int) else (m : Int)

/-- IEEE `a <= b` (false when either is NaN) -/
def le : F32 → F32 → Bool
  | nan, _ => false
  | _, nan => false
  | inf true, _ => true
  | _, inf false => true
  | inf false, _ => false
  | _, inf true => false
  | fin s m1 e1, fin t m2 e2 =>
    let e := min e1 e2
    sval s m1 * 2 ^ (e1 - e).toNat ≤ sval t m2 * 2 ^ (e2 - e).toNat

/-- IEEE `a < b` (false when either is NaN) -/
def lt : F32 → F32 → Bool
  | nan, _ => false
  | _, nan => false
  | a, b => !(le b a)

/-- Rust `f32::clamp(self, lo, hi)` for `lo <= hi` (the caller checks that): NaN stays NaN -/
def clamp (x lo hi : F32) : F32 :=
  let x := if lt x lo then lo else x
  if lt hi x then hi else x

/-- Rust `f32::round`: nearest integer, ties away from zero; the sign is kept -/
def roundHalfAway : F32 → F32
  | fin s m e =>
    if 0 ≤ e then fin s m e
    else
      let den := 2 ^ (-e).toNat
      let q := m / den
      let r := m % den
      fin s (if den ≤ 2 * r then q + 1 else q) 0
  | x => x

/-- `⌊m · 2^e⌋` -/
def floorScaled (m : Nat) (e : Int) : Nat :=
  if 0 ≤ e then m * 2 ^ e.toNat else m / 2 ^ (-e).toNat

/-- Rust `x as uN` with `max = 2^N - 1`: truncation toward zero, saturating, NaN ↦ 0 -/
def toUnsigned (max : Nat) : F32 → Nat
  | nan => 0
  | inf true => 0
  | inf false => max
  | fin true _ _ => 0
  | fin false m e => min (floorScaled m e) max

def toU16 (x : F32) : Nat := toUnsigned 65535 x

/-- numerator of the `f64` nearest to `1e-6` (`0x3EB0C6F7A0B5ED8D` = `epsNum · 2^-72`) -/
def epsNum : Nat := 0x10C6F7A0B5ED8D

/-- `is_integer(q as f64)` of `utils/float.rs`: `0.5 - (a.fract() - 0.5).abs() < 1e-6` in `f64`.
The conversion is exact; `fract` is exact; for a non-negative `a` the two subtractions are exact
whenever the fractional part is at least `2^-31` and otherwise perturb a quantity below `2^-30` by at
most `2^-54`, far from `1e-6`; so the comparison is the comparison of the exact rationals.
For a negative `a`, `fract` is in `(-1, 0]`, the left-hand side is `≤ 0` and the test is true.
NaN and ±∞ give `fract = NaN` and the test is false. -/
def isInteger : F32 → Bool
  | nan => false
  | inf _ => false
  | fin true _ _ => true
  | fin false m e =>
    if 0 ≤ e then true
    else
      let den := 2 ^ (-e).toNat
      let r := m % den
      -- min(frac, 1 - frac) < epsNum / 2^72
      min r (den - r) * 2 ^ 72 < epsNum * den

/-- decode a bit pattern (`b % 2^32`) -/
def ofBits (b : Nat) : F32 :=
  let b : Nat := b % 2 ^ 32
  let s := b / 2 ^ 31 = 1
  let ex : Nat := (b / 2 ^ 23) % 256
  let fr : Nat := b % 2 ^ 23
  if ex = 255 then (if fr = 0 then inf s else nan)
  else if ex = 0 then fin s fr (-149)
  else fin s (2 ^ 23 + fr) ((ex : Int) - 150)

/-- encode (`none` for NaN, whose payload and sign are not modelled) -/
def toBits : F32 → Option Nat
  | nan => none
  | inf s => some ((if s then 2 ^ 31 else 0) + 0x7F800000)
  | fin s m e =>
    let sb := if s then 2 ^ 31 else 0
    if m = 0 then some sb
    else
      let nd := if 0 ≤ e then (m * 2 ^ e.toNat, 1) else (m, 2 ^ (-e).toNat)
      match roundPos nd.1 nd.2 with
      | none => some (sb + 0x7F800000)
      | some (m', e') =>
        if m' < 2 ^ 23 then some (sb + m')
        else some (sb + ((e' + 150).toNat * 2 ^ 23) + (m' - 2 ^ 23))

end F32
end Autd3
