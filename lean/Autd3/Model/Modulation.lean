import Autd3.Model.Flt
import Autd3.Model.SinEnc
import Autd3.Gen.ModConsts
/-!
# Model of the generated modulations (C16)

Mirror of `autd3/src/datagram/modulation/{sampling_mode,sine,square,fourier,cache,fir,
radiation_pressure}.rs` and `autd3-driver/src/datagram/modulation/boxed.rs`.  Floats are the exact
IEEE model of `Model/Flt.lean`; `sinf` is not modelled: `Sine`/`Fourier` take the raw `f32` samples
as a parameter (`raw`), so everything proved about lengths, range handling and errors holds for
whatever `libm` returns, and the driver compares observed samples with the admissible interval
`sineLevels`/`fourierLevels` around the ideal waveform.

A `SamplingConfig` enters only through `division()`: `none` = `division()` is `Err`.
-/
namespace Autd3.Modulation
open Autd3.Flt

inductive MErr where
  | config | nyquist | zero | negative | noExact | nan | duty | range | empty | cfgMismatch | size
  deriving DecidableEq, Repr

inductive Fail where
  | err (e : MErr)
  /-- a Rust panic (`assert!`, arithmetic overflow in a dev-profile build) -/
  | panic
  deriving DecidableEq, Repr

abbrev R := Except Fail

/-- regenerated from the repository on every check (`tools/gen.d/modconsts.py`) -/
abbrev ULTRASOUND_FREQ : Nat := Autd3.Gen.ModConsts.ULTRASOUND_FREQ
abbrev MOD_BUF_SIZE_MAX : Nat := Autd3.Gen.ModConsts.MOD_BUF_SIZE_MAX

abbrev Cfg := Option Nat

/-- `sampling_config.freq()?.hz()` = `ULTRASOUND_FREQ.hz() as f32 / division as f32` -/
def cfgFreq : Cfg → R Fl
  | none => .error (.err .config)
  | some d => .ok (b32.div (b32.ofNat ULTRASOUND_FREQ) (b32.ofNat d))

def cfgDiv : Cfg → R Nat
  | none => .error (.err .config)
  | some d => .ok d

inductive Mode where
  | exact (f : Nat)
  | exactF (f : Fl)
  | nearest (f : Fl)

def two : Fl := .fin 2

/-! ## `SamplingMode::validate_*` -/

/-- `validate_exact` -/
def validateExact (f : Nat) (c : Cfg) : R (Nat × Nat) := do
  let fs ← cfgFreq c
  if (b32.div fs two).le (b32.ofNat f) then throw (.err .nyquist)
  if f = 0 then throw (.err .zero)
  let d ← cfgDiv c
  let fd := f * d
  let k := Nat.gcd ULTRASOUND_FREQ fd
  pure (ULTRASOUND_FREQ / k, fd / k)

/-- `autd3_core::utils::float::is_integer` (`EPSILON = 1e-6`), evaluated in `f64` -/
def EPSILON : Fl := b64.rnd ((Autd3.Gen.ModConsts.EPSILON_NUM : Rat) / (Autd3.Gen.ModConsts.EPSILON_DEN : Rat))

def half : Fl := .fin (1 / 2)

def isInteger (a : Fl) : Bool :=
  (b64.add half (b64.add (a.fract) half.neg).abs.neg).lt EPSILON

/-- the `for n in start..=MOD_BUF_SIZE_MAX` loop of `validate_exact_f`; `fuel` = iterations left -/
def searchF (fd : Fl) : Nat → Nat → Option (Nat × Nat)
  | _, 0 => none
  | n, fuel + 1 =>
    let p := b64.mul fd (b64.ofNat n)
    if !isInteger p then searchF fd (n + 1) fuel
    else
      let fnd := p.toNatSat (2 ^ 64 - 1)
      if fnd % ULTRASOUND_FREQ ≠ 0 then searchF fd (n + 1) fuel
      else some (n, fnd / ULTRASOUND_FREQ)

/-- `(ULTRASOUND_FREQ.hz() as f64 / fd).floor() as u32` -/
def searchStart (fd : Fl) : Nat :=
  (b64.div (b64.ofNat ULTRASOUND_FREQ) fd).floor.toNatSat (2 ^ 32 - 1)

/-- `validate_exact_f` -/
def validateExactF (f : Fl) (c : Cfg) : R (Nat × Nat) := do
  if f.lt (.fin 0) || f.isNaN then throw (.err .negative)
  if f.eq (.fin 0) then throw (.err .zero)
  let fs ← cfgFreq c
  if (b32.div fs two).le f then throw (.err .nyquist)
  let d ← cfgDiv c
  let fd := b64.mul f (b64.ofNat d)
  let start := searchStart fd
  match searchF fd start (MOD_BUF_SIZE_MAX + 1 - start) with
  | some r => pure r
  | none => throw (.err .noExact)

/-- `f32::clamp`: panics unless `min <= max` -/
def clampF (x lo hi : Fl) : R Fl :=
  if !lo.le hi then .error .panic
  else if x.lt lo then .ok lo else if hi.lt x then .ok hi else .ok x

/-- `freq_nearest` -/
def freqNearest (f : Fl) (c : Cfg) : R Fl := do
  let fs ← cfgFreq c
  let fmin := b32.div fs (b32.ofNat MOD_BUF_SIZE_MAX)
  let fmax := b32.div fs two
  clampF f fmin fmax

/-- `validate_nearest` (repaired: of the two buffer lengths next to `fs/f` the one whose
*frequency* `fs/n` is nearer is taken) -/
def validateNearest (f : Fl) (c : Cfg) : R (Nat × Nat) := do
  let fc ← freqNearest f c
  if fc.isNaN then throw (.err .nan)
  let fs ← cfgFreq c
  let r := b32.div fs fc
  let lo := r.floor
  let hi := r.ceil
  let n := if (b32.add (b32.div fs lo) fc.neg).le (b32.add fc (b32.div fs hi).neg) then lo else hi
  pure (n.toNatSat (2 ^ 64 - 1), 1)

def validate (m : Mode) (c : Cfg) : R (Nat × Nat) :=
  match m with
  | .exact f => validateExact f c
  | .exactF f => validateExactF f c
  | .nearest f => validateNearest f c

/-! ## range-or-error (shared by `Sine` and `Fourier`) -/

/-- `if (0..=255).contains(&v) { Ok(v) } else if clamp { Ok(v.clamp(0, 255)) } else { Err }` -/
def rangeOrErr (clamp : Bool) (v : Int) : Except MErr Nat :=
  if 0 ≤ v ∧ v ≤ 255 then .ok v.toNat
  else if clamp then .ok (if v < 0 then 0 else 255)
  else .error .range

/-! ## `Sine` -/

structure SineP where
  mode : Mode
  cfg : Cfg
  intensity : Nat
  offset : Nat
  phase : Fl
  clamp : Bool

/-- `Sine::calc`, with the raw `f32` samples of `calc_raw` as a parameter:
`.map(|v| v.floor() as i16)` then the range test -/
def sineCalc (p : SineP) (raw : Nat → Fl) : R (List Nat) := do
  let (n, _) ← validate p.mode p.cfg
  (List.range n).mapM fun i =>
    match rangeOrErr p.clamp ((raw i).floor.toIntSat (-32768) 32767) with
    | .ok v => .ok v
    | .error e => .error (.err e)

/-- per-modulation constants of the enclosure: the phase in turns, `⌈|φ|·S⌉`, and whether
`|φ| > 2^20` (then only the trivial bounds are used) -/
structure PhasePre where
  phT : Nat
  absCeil : Nat
  wild : Bool

def phasePre (phase : Rat) : PhasePre :=
  let absPhi : Rat := if phase < 0 then -phase else phase
  { phT := SinEnc.phiTurn phase, absCeil := (absPhi * ((SinEnc.S : Nat) : Rat)).ceil.toNat, wild := (2 ^ 20 : Rat) < absPhi }

/-- raw bounds are kept in `Nat`, shifted up by `BIAS` levels -/
def BIAS : Nat := 512

open Autd3.SinEnc in
/-- Admissible raw values of sample `i`, at scale `S` and shifted by `BIAS·S`: `[lo, hi]` contains
`intensity/2 · sin(2π·rep·i/n + φ) + offset` widened by the float tolerance

`δ = intensity/2 · (5·2^-24·2π·(⌊rep·i/n⌋+1) + 2^-23·|φ| + 2^-20) + 2^-9`

(five roundings act on the argument: `(rep·i) as f32`, the constant `2π`, the product, the quotient,
the sum with `φ`, each relative `2^-24`; `sin` is 1-Lipschitz; the last two operations round a value
below 512).  The interval is cut to `offset ± intensity/2`, which the float value cannot leave. -/
def sineRawBounds (n rep i intensity offset : Nat) (pre : PhasePre) : Nat × Nat :=
  let off := (offset + BIAS) * S
  let capLo := off - intensity * S / 2
  let capHi := off + (intensity * S + 1) / 2
  if pre.wild then (capLo, capHi)
  else
    let (neg, m) := sinFx (rep * i) n pre.phT
    let A := (2 * Pa + 2) * ((rep * i) / n + 1)
    let argErr := 5 * A / 2 ^ 24 + pre.absCeil / 2 ^ 23 + S / 2 ^ 20
    let d := (intensity * argErr + 1) / 2 + S / 2 ^ 9
    let up := (intensity * (m + E) + 1) / 2
    let dn := intensity * (m - E) / 2
    let lo := if neg then off - up - d else off + dn - d
    let hi := if neg then off - dn + d else off + up + d
    (max capLo lo, min capHi hi)

/-- `none`: the phase is `±inf`/NaN -/
def sinePre (p : SineP) : Option PhasePre :=
  match p.phase with
  | .fin phi => some (phasePre phi)
  | _ => none

/-- admissible `floor` levels of sample `i` (before the range test) -/
def sineLevels (n rep : Nat) (p : SineP) (pre : Option PhasePre) (i : Nat) : Int × Int :=
  match pre with
  | some pre =>
    let (lo, hi) := sineRawBounds n rep i p.intensity p.offset pre
    (((lo / SinEnc.S : Nat) : Int) - BIAS, ((hi / SinEnc.S : Nat) : Int) - BIAS)
  | none => (0, 0)   -- `sin(±inf)`, `sin(NaN)` = NaN;  `NaN.floor() as i16` = 0

/-! ## `Square` -/

structure SquareP where
  mode : Mode
  cfg : Cfg
  low : Nat
  high : Nat
  duty : Fl

/-- high samples of a period of `size` samples: `(size as f32 * duty) as usize` -/
def nHigh (duty : Fl) (size : Nat) : Nat := (b32.mul (b32.ofNat size) duty).toNatSat (2 ^ 64 - 1)

/-- the `(high run, low run)` of each of the `rep` periods, as the Rust code computes them -/
def squareRunsSpec (n rep : Nat) (duty : Fl) : R (List (Nat × Nat)) :=
  (List.range rep).mapM fun i =>
    let size := (n + i) / rep
    let h := nHigh duty size
    if size < h then .error .panic      -- `size as usize - n_high` underflows
    else .ok (h, size - h)

/-- the same list (`squareRuns_eq_spec`), with `nHigh` evaluated once for each of the two period
sizes `⌊n/rep⌋`, `⌊n/rep⌋+1` that occur — this is what the driver runs -/
def squareRuns (n rep : Nat) (duty : Fl) : R (List (Nat × Nat)) :=
  let q := n / rep
  let hq := nHigh duty q
  let hq1 := nHigh duty (q + 1)
  (List.range rep).mapM fun i =>
    let size := (n + i) / rep
    let h := if size = q then hq else if size = q + 1 then hq1 else nHigh duty size
    if size < h then .error .panic
    else .ok (h, size - h)

def squareCalc (p : SquareP) : R (List Nat) := do
  if !((Fl.fin 0).le p.duty && p.duty.le (.fin 1)) then throw (.err .duty)
  let (n, rep) ← validate p.mode p.cfg
  let runs ← squareRuns n rep p.duty
  pure (runs.flatMap fun (h, l) => List.replicate h p.high ++ List.replicate l p.low)

/-! ## `Fourier` -/

structure FourierP where
  comps : List SineP
  scale : Option Fl
  clamp : Bool
  offset : Nat

/-- `SamplingConfig`'s `PartialEq`: equal iff both divisions are `Ok` and equal -/
def cfgEq : Cfg → Cfg → Bool
  | some a, some b => a == b
  | _, _ => false

/-- `Fourier::sampling_config` -/
def fourierCfg (p : FourierP) : Cfg :=
  match p.comps with
  | [] => some 1
  | c :: _ => c.cfg

/-- buffer length: the lcm of the component lengths, refused above `MOD_BUF_SIZE_MAX` (repaired:
the unchanged code allocated and returned a buffer of any length) -/
def fourierLen (lens : List Nat) : R Nat :=
  lens.foldlM (fun acc x =>
    let l := Nat.lcm acc x
    if MOD_BUF_SIZE_MAX < l then .error (.err .size) else .ok l) 1

/-- validation part of `Fourier::calc`: the `(n, rep)` of every component and the buffer length -/
def fourierPlan (p : FourierP) : R (List (Nat × Nat) × Nat) := do
  match p.comps with
  | [] => throw (.err .empty)
  | c0 :: rest =>
    if rest.any (fun c => !cfgEq c.cfg c0.cfg) then throw (.err .cfgMismatch)
    let lens ← p.comps.mapM fun c => validate c.mode c.cfg
    let len ← fourierLen (lens.map (·.1))
    pure (lens, len)

/-- `scale_factor.unwrap_or(1. / buffers.len() as f32)` -/
def fourierScale (p : FourierP) : Fl :=
  match p.scale with
  | some s => s
  | none => b32.div (.fin 1) (b32.ofNat p.comps.length)

/-- `Fourier::calc` with the raw component samples as a parameter (`raw j i`) -/
def fourierCalc (p : FourierP) (raw : Nat → Nat → Fl) : R (List Nat) := do
  let (lens, len) ← fourierPlan p
  let scale := fourierScale p
  (List.range len).mapM fun t =>
    let acc := (List.zip (List.range lens.length) lens).foldl
      (fun acc (j, (n, _)) => b32.add acc (raw j (t % n))) (Fl.fin 0)
    let v := (b32.add (b32.mul acc scale) (b32.ofNat p.offset)).floor.toIntSat (-(2 ^ 63)) (2 ^ 63 - 1)
    match rangeOrErr p.clamp v with
    | .ok v => .ok v
    | .error e => .error (.err e)

/-- per-component constants for `fourierLevels` (`none`: non-finite phase) -/
def fourierPre (p : FourierP) : List (Option PhasePre) := p.comps.map sinePre

/-- admissible `floor` levels of sample `t` of a `Fourier`: the scaled sum of the component
enclosures, widened by `2^-9 + |scale|·k·2^-12` for the `f32` sum/scale/offset roundings.
`none`: the scale factor is not finite (not modelled). -/
def fourierLevels (p : FourierP) (lens : List (Nat × Nat)) (pres : List (Option PhasePre)) (t : Nat) : Option (Int × Int) :=
  match fourierScale p with
  | .fin sc =>
    let parts : Option (List (Nat × Nat)) := (List.zip (List.zip p.comps lens) pres).mapM fun ((c, (n, rep)), pre) =>
      pre.map fun pre => sineRawBounds n rep (t % n) c.intensity c.offset pre
    match parts with
    | none => some (0, 0)   -- a NaN component makes the sum NaN; `NaN.floor() as isize` = 0
    | some ps =>
      let S : Int := (SinEnc.S : Nat)
      let bias : Int := ((ps.length * BIAS * SinEnc.S : Nat) : Int)
      let lo : Int := ((ps.foldl (fun a x => a + x.1) 0 : Nat) : Int) - bias
      let hi : Int := ((ps.foldl (fun a x => a + x.2) 0 : Nat) : Int) - bias
      let absSc : Rat := if sc < 0 then -sc else sc
      let slack : Int := S / 2 ^ 9 + (absSc * ((p.comps.length : Nat) : Rat) * (S : Rat) / 2 ^ 12).ceil
      let a : Rat := sc * (lo : Rat)
      let b : Rat := sc * (hi : Rat)
      let l : Int := (if a ≤ b then a else b).floor + (p.offset : Int) * S - slack
      let h : Int := (if a ≤ b then b else a).ceil + (p.offset : Int) * S + slack
      some (l / S, h / S)
  | _ => none

/-! ## Wrappers -/

/-- what a wrapper sees of its target: `sampling_config()` and the result of `calc()` -/
structure Mod where
  cfg : Cfg
  run : R (List Nat)

/-- `RadiationPressure`: `((v as f32 / 255.).sqrt() * 255.).round() as u8` -/
def rpLevel (v : Nat) : Nat :=
  (b32.mul (sqrt32 (b32.div (b32.ofNat v) (.fin 255))) (.fin 255)).round.toNatSat 255

def radiationPressure (m : Mod) : Mod :=
  { cfg := m.cfg, run := do let src ← m.run; pure (src.map rpLevel) }

/-- one tap of `Fir`: `acc + src[(i + j - filter_len / 2).rem_euclid(src_len)] as f32 * coef[j]`;
an index outside the source or the coefficients is a panic (it cannot happen: `rem_euclid` keeps
it inside, see `firSample_ok`) -/
def firStep (src : Array Nat) (coef : Array Fl) (i : Nat) (acc : Fl) (j : Nat) : R Fl :=
  let idx : Int := ((i : Int) + (j : Int) - (coef.size : Int) / 2) % (src.size : Int)
  match src[idx.toNat]?, coef[j]? with
  | some v, some c => .ok (b32.add acc (b32.mul (b32.ofNat v) c))
  | _, _ => .error Fail.panic

/-- `Fir`: circular convolution, `f32` products summed in order, `as u8` -/
def firSample (src : Array Nat) (coef : Array Fl) (i : Nat) : R Nat := do
  let s ← (List.range coef.size).foldlM (firStep src coef i) (Fl.fin 0)
  pure (s.toNatSat 255)

def fir (m : Mod) (coef : Array Fl) : Mod :=
  { cfg := m.cfg
    run := do
      let src ← m.run
      let a := src.toArray
      (List.range a.size).mapM (firSample a coef) }

/-- `into_boxed`: the configuration is read once, `calc` is forwarded -/
def boxed (m : Mod) : Mod := { cfg := m.cfg, run := m.run }

/-- `Cache`: the target is consumed by the first use; its outcome (repaired: also a failure) is
what every later use returns -/
structure Cache where
  cfg : Cfg
  m : Option Mod
  cache : List Nat := []
  err : Option Fail := none

def Cache.new (m : Mod) : Cache := { cfg := m.cfg, m := some m }

/-- one `cache.clone().calc()`: the new shared state and the result -/
def Cache.use (c : Cache) : Cache × R (List Nat) :=
  match c.m with
  | some m =>
    match m.run with
    | .ok buf => ({ c with m := none, cache := buf }, .ok buf)
    | .error e => ({ c with m := none, err := some e }, .error e)
  | none =>
    match c.err with
    | some e => (c, .error e)
    | none => (c, .ok c.cache)

end Autd3.Modulation
