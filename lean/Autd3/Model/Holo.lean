import Autd3.Model.F32
/-!
Executable model of the integer-level part of `autd3-gain-holo` (C15):

* `EmissionConstraint::convert` (`constraint.rs`) on the exact binary32 model `Model/F32.lean`;
* the index bookkeeping that decides which solution-vector entry belongs to which transducer:
  `generate_propagation_matrix` (`backend_nalgebra.rs`, all four code paths: with/without filter ×
  `num_devices < foci.len()` or not), `generate_result` + `HoloCalculatorGenerator::generate` +
  `HoloCalculator::calc` (`helper.rs`), and the index list / result map of `Greedy`.

A matrix entry is not a number here but a *label* `Cell j d t` = "`propagate(transducer t of device
d, focus j)`"; the linear algebra itself (nalgebra, libm) is outside the model.  The matrix is the
column-major storage `foci.len() × n` that nalgebra uses; `none` = a cell of `uninit_mat` that was
never written.

Panics are values.  A device's index is its position in the geometry (`Geometry::assign_idx`).  A
`HashMap<usize, BitVec>` filter is a partial function `Nat → Option (List Bool)`.

No imports outside `Model/` (linked into `autd3model`).  Tied to the Rust code by the `holo` stream.
-/
namespace Autd3.Holo
open Autd3

inductive Panic where
  /-- `f32::clamp`: `assert!(min <= max)` -/
  | clampMinGtMax
  /-- `BitVec` index out of range (`filter[tr.idx()]`) -/
  | bitIndex
  /-- `Matrix::from_iterator(n, it)`: iterator shorter than `n` -/
  | iterShort
  /-- `MatrixXc::from_rows(&[])` -/
  | noRows
  /-- a raw-pointer write outside the allocation of `uninit_mat` (undefined behaviour in Rust) -/
  | ptrOob
  /-- `HashMap` lookup `unwrap()`/index of a missing key (`generate` for a device without entry) -/
  | mapMiss
  /-- `Vec` / matrix index out of range -/
  | vecIndex
deriving Repr, DecidableEq

/-! ### `EmissionConstraint` -/

inductive Constraint where
  | normalize
  | multiply (v : F32)
  /-- `Uniform(EmitIntensity)`; the byte -/
  | uniform (v : Nat)
  /-- `Clamp(min, max)`; the bytes -/
  | clamp (lo hi : Nat)
deriving Repr

/-- the literal `255.` -/
def c255 : F32 := .fin false 255 0
/-- the literal `0.` -/
def c0 : F32 := .fin false 0 0

/-- Rust `x as u8` (saturating, NaN ↦ 0) -/
def toU8 (x : F32) : Nat := F32.toUnsigned 255 x

/-- `f32::clamp(self, min, max)` including its assertion -/
def clampChecked (x lo hi : F32) : Except Panic F32 :=
  if F32.le lo hi then .ok (F32.clamp x lo hi) else .error .clampMinGtMax

/-- `Ord::clamp` on `u8`, including its assertion -/
def clampU8 (x lo hi : Nat) : Except Panic Nat :=
  if lo ≤ hi then .ok (if x < lo then lo else if hi < x then hi else x) else .error .clampMinGtMax

/-- `EmissionConstraint::convert(&self, value, max_value) -> EmitIntensity` (after fix-1: the `Clamp`
arm clamps once more after the cast) -/
def convert (c : Constraint) (value maxValue : F32) : Except Panic Nat :=
  match c with
  | .normalize =>
    -- (value / max_value * 255.).round() as u8
    .ok (toU8 (F32.roundHalfAway (F32.mul (F32.div value maxValue) c255)))
  | .multiply v => do
    -- (value / max_value * 255. * v).round().clamp(0., 255.) as u8
    let r ← clampChecked (F32.roundHalfAway (F32.mul (F32.mul (F32.div value maxValue) c255) v)) c0 c255
    pure (toU8 r)
  | .uniform v => .ok v
  | .clamp lo hi => do
    -- ((value * 255.).round().clamp(min.0 as f32, max.0 as f32) as u8).clamp(min.0, max.0)
    let r ← clampChecked (F32.roundHalfAway (F32.mul value c255)) (F32.ofNat lo) (F32.ofNat hi)
    clampU8 (toU8 r) lo hi

/-! ### geometry, filters -/

structure Dev where
  enable : Bool
  numTr : Nat
deriving Repr, DecidableEq

/-- the devices in index order (index = position) -/
abbrev Geo := List Dev

/-- `HashMap<usize, BitVec>` -/
abbrev Filter := Nat → Option (List Bool)

/-- `geometry.devices()` with the device index, from index `i` on -/
def devicesFrom : Nat → Geo → List (Nat × Dev)
  | _, [] => []
  | i, dev :: rest => if dev.enable then (i, dev) :: devicesFrom (i + 1) rest else devicesFrom (i + 1) rest

/-- `geometry.devices()` -/
def devices (geo : Geo) : List (Nat × Dev) := devicesFrom 0 geo

/-- `geometry.num_devices()` -/
def numDevices (geo : Geo) : Nat := (devices geo).length

/-- `filter[t]` on a `BitVec` -/
def bit (bv : List Bool) (t : Nat) : Except Panic Bool :=
  match bv[t]? with
  | some b => .ok b
  | none => .error .bitIndex

/-- `f.count_ones()` -/
def countOnes (bv : List Bool) : Nat := bv.count true

/-- the transducer indices among `ts` whose filter bit is set (the `if filter[tr.idx()]` of every
path), in order -/
def passingOf (bv : List Bool) : List Nat → Except Panic (List Nat)
  | [] => .ok []
  | t :: ts => do
    let b ← bit bv t
    let rest ← passingOf bv ts
    pure (if b then t :: rest else rest)

/-- the transducers of device `i` that get a column: all of them without a filter; none when the
filter has no entry for the device; those with a set bit otherwise -/
def passing (filter : Option Filter) (i : Nat) (dev : Dev) : Except Panic (List Nat) :=
  match filter with
  | none => .ok (List.range dev.numTr)
  | some f =>
    match f i with
    | none => .ok []
    | some bv => passingOf bv (List.range dev.numTr)

/-! ### `generate_propagation_matrix` -/

/-- the closure of the `scan`: what device `i` adds to the running column count -/
def devCount (filter : Option Filter) (i : Nat) (dev : Dev) : Nat :=
  if dev.enable then
    match filter with
    | some f =>
      match f i with
      | some bv => countOnes bv
      | none => 0
    | none => dev.numTr
  else 0

/-- `geometry.iter().scan(0, …)` (over *all* devices) -/
def scanCounts (filter : Option Filter) : Nat → Nat → Geo → List Nat
  | _, _, [] => []
  | i, st, dev :: rest =>
    (st + devCount filter i dev) :: scanCounts filter (i + 1) (st + devCount filter i dev) rest

/-- `num_transducers`: `[0].chain(scan)` -/
def numTransducers (geo : Geo) (filter : Option Filter) : List Nat := 0 :: scanCounts filter 0 0 geo

/-- `num_transducers.last().unwrap()` -/
def totalN (geo : Geo) (filter : Option Filter) : Nat := (numTransducers geo filter).getLast (by simp [numTransducers])

/-- a matrix entry: `propagate(transducer tr of device dev, foci[focus])` -/
structure Cell where
  focus : Nat
  dev : Nat
  tr : Nat
deriving Repr, DecidableEq

/-- column-major storage of a `rows × cols` matrix; `none` = never written -/
structure Mat where
  rows : Nat
  cols : Nat
  data : Array (Option Cell)
deriving Repr, DecidableEq

/-- one row of the `num_devices < foci.len()` paths: `from_iterator(n, devices.flat_map(…))` -/
def rowCells (filter : Option Filter) (j : Nat) : List (Nat × Dev) → Except Panic (List Cell)
  | [] => .ok []
  | (i, dev) :: rest => do
    let ts ← passing filter i dev
    let r ← rowCells filter j rest
    pure (ts.map (fun t => Cell.mk j i t) ++ r)

/-- `Matrix::from_iterator(n, it)` for a row vector: takes `n` items, panics when there are fewer -/
def fromIterator (n : Nat) (it : List Cell) : Except Panic (List Cell) :=
  if it.length < n then .error .iterShort else .ok (it.take n)

/-- `rows[i][(0, c)]` -/
def cellAt (c : Nat) (r : List Cell) : Except Panic (Option Cell) :=
  match r[c]? with
  | some x => .ok (some x)
  | none => .error .vecIndex

/-- `MatrixXc::from_rows(&rows)` into column-major storage: column by column, every row's entry
(`rows` all of length `n`) -/
def fromRows (n : Nat) (rows : List (List Cell)) : Except Panic Mat :=
  if rows.isEmpty then .error .noRows
  else do
    let cols ← (List.range n).mapM fun c => rows.mapM (cellAt c)
    pure ⟨rows.length, n, cols.flatten.toArray⟩

/-- the `par_map!(foci, …)` + `from_rows` paths -/
def rowsPath (geo : Geo) (filter : Option Filter) (m n : Nat) : Except Panic Mat := do
  let rows ← (List.range m).mapM fun j => do
    let it ← rowCells filter j (devices geo)
    fromIterator n it
  fromRows n rows

/-- `ptr.write(v)` repeated: sequential raw writes starting at offset `p` -/
def writeCells (a : Array (Option Cell)) (p : Nat) : List Cell → Except Panic (Array (Option Cell))
  | [] => .ok a
  | c :: cs => if p < a.size then writeCells (a.setIfInBounds p (some c)) (p + 1) cs else .error .ptrOob

/-- the body of `par_for_each!(geometry.devices(), move |dev| …)` for one device -/
def devWrite (filter : Option Filter) (m : Nat) (nt : List Nat) (a : Array (Option Cell)) (d : Nat × Dev) :
    Except Panic (Array (Option Cell)) :=
  match nt[d.1]? with
  | none => .error .vecIndex
  | some base => do
    -- ptr.add(foci.len() * num_transducers[dev.idx()])
    let ts ← passing filter d.1 d.2
    writeCells a (m * base) (ts.flatMap fun t => (List.range m).map fun j => Cell.mk j d.1 t)

/-- the devices in the order the thread pool happens to take them -/
def ptrFill (filter : Option Filter) (m : Nat) (nt : List Nat) (a : Array (Option Cell)) :
    List (Nat × Dev) → Except Panic (Array (Option Cell))
  | [] => .ok a
  | d :: ds => do
    let a' ← devWrite filter m nt a d
    ptrFill filter m nt a' ds

/-- the `uninit_mat` + raw pointer paths, devices taken in the order `order` -/
def ptrPath (filter : Option Filter) (m n : Nat) (nt : List Nat) (order : List (Nat × Dev)) : Except Panic Mat := do
  let a ← ptrFill filter m nt (Array.replicate (m * n) none) order
  pure ⟨m, n, a⟩

/-- `generate_propagation_matrix(geometry, foci, filter)` for `m = foci.len()`.  The branch on
`filter` only selects between textually different but (see `passing`) identically structured code. -/
def propagationMatrix (geo : Geo) (filter : Option Filter) (m : Nat) : Except Panic Mat :=
  let nt := numTransducers geo filter
  let n := totalN geo filter
  if numDevices geo < m then rowsPath geo filter m n
  else ptrPath filter m n nt (devices geo)

/-! ### `generate_result`, `generate`, `calc` -/

/-- the per-device value of `HoloCalculatorGenerator::map` -/
inductive DevMap where
  /-- `Either::Left`: `None` when the filter has no entry for the device -/
  | left (m : Option (List (Option Nat)))
  /-- `Either::Right(base_idx)` -/
  | right (base : Nat)
deriving Repr, DecidableEq

/-- the inner `dev.iter().map(|tr| if filter[tr.idx()] { let r = *state; *state += 1; Some(r) } else { None })` -/
def assign (bv : List Bool) : Nat → List Nat → Except Panic (List (Option Nat) × Nat)
  | st, [] => .ok ([], st)
  | st, t :: ts => do
    let b ← bit bv t
    if b then do
      let (l, s) ← assign bv (st + 1) ts
      pure (some st :: l, s)
    else do
      let (l, s) ← assign bv st ts
      pure (none :: l, s)

/-- `geometry.devices().scan(0usize, …)` of the filtered branch, as an association list -/
def genLeft (f : Filter) : Nat → Nat → Geo → Except Panic (List (Nat × DevMap))
  | _, _, [] => .ok []
  | i, st, dev :: rest =>
    if dev.enable then
      match f i with
      | none => do
        let r ← genLeft f (i + 1) st rest
        pure ((i, .left none) :: r)
      | some bv => do
        let (l, st') ← assign bv st (List.range dev.numTr)
        let r ← genLeft f (i + 1) st' rest
        pure ((i, .left (some l)) :: r)
    else genLeft f (i + 1) st rest

/-- `geometry.devices().scan(0, |state, dev| { let r = *state; *state += dev.num_transducers(); … })` -/
def genRight : Nat → Nat → Geo → List (Nat × DevMap)
  | _, _, [] => []
  | i, st, dev :: rest =>
    if dev.enable then (i, .right st) :: genRight (i + 1) (st + dev.numTr) rest
    else genRight (i + 1) st rest

/-- `generate_result(geometry, q, …, filter)`: the map part -/
def generateResult (geo : Geo) (filter : Option Filter) : Except Panic (List (Nat × DevMap)) :=
  match filter with
  | some f => genLeft f 0 0 geo
  | none => .ok (genRight 0 0 geo)

/-- `generator.generate(device i).calc(transducer t)`: which entry of `q` (of length `qlen`) is read;
`none` = `Drive::NULL` -/
def calcIdx (map : List (Nat × DevMap)) (qlen : Nat) (i t : Nat) : Except Panic (Option Nat) :=
  match map.lookup i with
  | none => .error .mapMiss
  | some (.left none) => .ok none
  | some (.left (some l)) =>
    match l[t]? with
    | none => .error .vecIndex
    | some none => .ok none
    | some (some idx) => if idx < qlen then .ok (some idx) else .error .vecIndex
  | some (.right base) => if base + t < qlen then .ok (some (base + t)) else .error .vecIndex

/-! ### `Greedy` -/

/-- the intensities `Greedy` returns per enabled device: `constraint.convert(1.0, 1.0)` (evaluated
inside the loop over `indices`, hence only when there is at least one index) for every transducer
in `indices`, `Drive::NULL` elsewhere.  `indices` is shuffled; only the set matters here. -/
def greedy (geo : Geo) (filter : Option Filter) (c : Constraint) : Except Panic (List (Nat × List Nat)) := do
  let per ← (devices geo).mapM fun d => do
    let ts ← passing filter d.1 d.2
    pure (d, ts)
  if per.all (fun x => x.2.isEmpty) then
    pure (per.map fun x => (x.1.1, List.replicate x.1.2.numTr 0))
  else do
    let one : F32 := .fin false 1 0
    let v ← convert c one one
    pure (per.map fun x => (x.1.1, (List.range x.1.2.numTr).map fun t => if x.2.contains t then v else 0))

end Autd3.Holo
