/-!
# Gain wrappers: `Group`, `Cache`, `BoxedGain`, `WithSegment` (C14)

Mirror of
* `autd3-core/src/gain/mod.rs`            — `Gain::init_full(geometry, filter, parallel)`,
                                             `GainCalculatorGenerator::generate(dev)`, `GainCalculator::calc(tr)`
* `autd3/src/datagram/gain/group.rs`      — `get_filters`, `init_full`, `Generator::generate`, `Impl::calc`
* `autd3/src/datagram/gain/cache.rs`      — `Cache::init`, `generate`, `Impl::calc`
* `autd3-driver/src/datagram/gain/boxed.rs`, `autd3-driver/src/datagram/with_segment.rs`
* `OperationHandler::generate` + `GainOp::pack` (one calculator per *enabled* device, `calc` per transducer)

A gain is a **function** `InitFn = Geo → Option Filter → parallel → St → (Except Fail Gen) × St`
(what `init_full` does, the state being the contents of every shared `Cache` plus a log of what
instrumented leaf gains were handed); the wrappers are **combinators** on such functions
(`boxedInit`, `cacheInit`, `groupInit`).  A syntax tree (`Tree`) of wrappers is interpreted by
structural recursion into these combinators (`Tree.init`), so that everything proved about a
combinator for *arbitrary* inner gains composes to every nesting depth.

Panics are values (`Fail.panic`): `HashMap` index miss, `Option::unwrap` on `None`, `Vec` index out
of range.  `HashMap`s are association lists in insertion order (the order is not observable for
the cases the theorems cover; see `Props/C14.lean`).

No imports: this file is linked into `autd3model`.
-/
namespace Autd3.GainWrap

/-- `Drive { phase, intensity }` — two bytes -/
structure Drive where
  phase : Nat
  intensity : Nat
deriving DecidableEq, Repr, Inhabited

/-- `Drive::NULL` -/
def Drive.null : Drive := ⟨0, 0⟩

inductive Err where
  | unknownKey (k : Nat)          -- "Unknown group key: {k}"
  | unusedKeys (ks : List Nat)    -- "Unused group keys: …"
  | cacheGeometry                 -- "Cache is initialized with different geometry"
  | leaf                          -- an error returned by a user gain's `init`
deriving DecidableEq, Repr

inductive Panic where
  | noEntry      -- `HashMap` `Index` on a missing key
  | unwrapNone   -- `Option::unwrap()` on `None`
  | index        -- slice index out of range
deriving DecidableEq, Repr

inductive Fail where
  | err (e : Err)
  | panic (p : Panic)
deriving DecidableEq, Repr

/-- a device as the wrappers see it: `idx()`, `num_transducers()`, `enable` -/
structure Dev where
  idx : Nat
  numTr : Nat
  enable : Bool
deriving DecidableEq, Repr

/-- `Geometry` = all devices (`geometry.iter()`) -/
abbrev Geo := List Dev

/-- `geometry.devices()` — the enabled ones -/
def Geo.devices (g : Geo) : List Dev := g.filter (·.enable)

/-- `Geometry::assign_idx`: the index of a device is its position -/
def Geo.WF (g : Geo) : Prop := g.map (·.idx) = List.range g.length

instance (g : Geo) : Decidable g.WF := by unfold Geo.WF; infer_instance

/-- build a geometry from `(num_transducers, enable)` pairs -/
def Geo.ofList (l : List (Nat × Bool)) : Geo :=
  (List.range l.length).zipWith (fun i (p : Nat × Bool) => { idx := i, numTr := p.1, enable := p.2 }) l

/-- `HashMap<usize, BitVec>`: device index ↦ one bit per transducer -/
abbrev Filter := List (Nat × List Bool)

/-- is transducer `t` of device `d` selected?  `None` selects everything. -/
def inFilt : Option Filter → Nat → Nat → Bool
  | none, _, _ => true
  | some f, d, t =>
    match f.lookup d with
    | none => false
    | some bits => bits[t]?.getD false     -- used only as a *predicate*, never as a model of an access

/-- `GainCalculator::calc(tr)` (argument: `tr.idx()`) -/
abbrev Calc := Nat → Except Panic Drive
/-- `GainCalculatorGenerator::generate(dev)`.  (Single use per device is not modelled: every caller
in scope calls it once per device.) -/
abbrev Gen := Dev → Except Panic Calc

/-- one shared `Cache`: `gain: Rc<RefCell<Option<G>>>` (taken or not) and
`cache: Rc<RefCell<HashMap<usize, Arc<Vec<Drive>>>>>` -/
structure CacheSt where
  taken : Bool := false
  store : List (Nat × List Drive) := []
deriving Repr

/-- everything that outlives one `init_full`: the caches (by identity) and the record of what
instrumented leaves were given (`salt, parallel, filter`) -/
structure St where
  caches : Nat → CacheSt := fun _ => {}
  log : List (Nat × Bool × Option Filter) := []

def St.setCache (σ : St) (id : Nat) (c : CacheSt) : St :=
  { σ with caches := fun i => if i = id then c else σ.caches i }

abbrev InitFn := Geo → Option Filter → Bool → St → Except Fail Gen × St

/-- `iter().map(f).collect::<Result<Vec<_>,_>>()` — stops at the first failure -/
def mapE {α β ε : Type} (f : α → Except ε β) : List α → Except ε (List β)
  | [] => .ok []
  | a :: as =>
    match f a with
    | .error e => .error e
    | .ok b =>
      match mapE f as with
      | .error e => .error e
      | .ok bs => .ok (b :: bs)

/-- `Vec<Drive>` wrapped as a calculator: `self.g[tr.idx()]` -/
def vecCalc (row : List Drive) : Calc := fun t =>
  match row[t]? with
  | some x => .ok x
  | none => .error .index

/-! ## Leaf gains -/

/-- a user gain: what its `init_full` returns, the drive it is *meant* to give transducer `t` of
device `d`, and (for instrumented leaves) the salt under which its arguments are logged -/
structure LeafGain where
  impl : Geo → Option Filter → Bool → Except Fail Gen
  f : Nat → Nat → Drive
  tag : Option Nat := none

def leafInit (l : LeafGain) : InitFn := fun geo filter par σ =>
  let σ' := match l.tag with
    | some s => { σ with log := σ.log ++ [(s, par, filter)] }
    | none => σ
  (l.impl geo filter par, σ')

/-- the drive function the harness closures compute from (salt, device index, transducer index) -/
def drv (salt d t : Nat) : Drive :=
  ⟨(salt * 37 + d * 101 + t * 3 + 11) % 256, (salt * 59 + d * 13 + t * 5 + 1) % 256⟩

/-- `autd3::gain::Custom::new(move |dev| move |tr| drv(salt, dev.idx(), tr.idx()))`: `init` returns
`self`, `generate(dev)` applies the closure: total, ignores filter and enable flags -/
def customLeaf (salt : Nat) : LeafGain :=
  { impl := fun _ _ _ => .ok (fun dev => .ok (fun t => .ok (drv salt dev.idx t))),
    f := drv salt }

/-- one row of the table of `HGain` -/
def holoRow (salt : Nat) (filter : Option Filter) (dev : Dev) : List Drive :=
  (List.range dev.numTr).map fun t => if inFilt filter dev.idx t then drv salt dev.idx t else Drive.null

/-- `HGen::generate`: `self.data.remove(&dev.idx()).unwrap()`; `HCalc::calc`: `self.row[tr.idx()]` -/
def holoGen (data : List (Nat × List Drive)) : Gen := fun dev =>
  match data.lookup dev.idx with
  | none => .error .unwrapNone
  | some row => .ok (vecCalc row)

/-- the harness' holo-style leaf `HGain`: `init_full` tabulates, for **enabled** devices only, `drv`
inside the filter and `Drive::NULL` outside (`filter.get(&dev.idx()).and_then(|b| b.get(tr.idx()))
.unwrap_or(false)`); `generate` is `self.data.remove(&dev.idx()).unwrap()`, `calc` indexes the row.
Its arguments are logged. -/
def holoLeaf (salt : Nat) : LeafGain :=
  { impl := fun geo filter _ => .ok (holoGen (geo.devices.map fun dev => (dev.idx, holoRow salt filter dev))),
    f := drv salt,
    tag := some salt }

/-- a gain whose `init` returns `Err(GainError)` -/
def failLeaf (salt : Nat) : LeafGain :=
  { impl := fun _ _ _ => .error (.err .leaf), f := drv salt }

/-! ## `BoxedGain` -/

/-- `BoxedGain::init_full`: `dyn_init` forwards geometry, filter and parallel flag to the wrapped
gain; `DynGainCalculatorGenerator::generate` boxes the inner calculator; `Box<dyn GainCalculator>::calc`
forwards -/
def boxGen (gen : Gen) : Gen := fun dev =>
  match gen dev with
  | .error p => .error p
  | .ok c => .ok (fun t => c t)

def boxedInit (inner : InitFn) : InitFn := fun geo filter par σ =>
  match inner geo filter par σ with
  | (.error e, σ') => (.error e, σ')
  | (.ok gen, σ') => (.ok (boxGen gen), σ')

/-! ## `Cache` -/

/-- `contains_key` -/
def hasKey {α : Type} (m : List (Nat × α)) (k : Nat) : Bool := m.any (·.1 == k)

/-- the body of `Cache::init` when the gain is still there:
`geometry.devices().filter(|dev| !cache.contains_key(&dev.idx())).for_each(|dev| { let f = f.generate(dev);
cache.insert(dev.idx(), dev.iter().map(|tr| f.calc(tr)).collect()) })` -/
def cacheFill (gen : Gen) : List Dev → List (Nat × List Drive) → Except Panic (List (Nat × List Drive))
  | [], store => .ok store
  | dev :: rest, store =>
    if hasKey store dev.idx then cacheFill gen rest store
    else
      match gen dev with
      | .error p => .error p
      | .ok c =>
        match mapE c (List.range dev.numTr) with
        | .error p => .error p
        | .ok row => cacheFill gen rest (store ++ [(dev.idx, row)])

/-- `cache.len() != geometry.devices().count() || geometry.devices().any(|dev| !cache.contains_key(&dev.idx()))` -/
def cacheMismatch (store : List (Nat × List Drive)) (geo : Geo) : Bool :=
  store.length != geo.devices.length || geo.devices.any (fun dev => !hasKey store dev.idx)

/-- `Cache::generate`: `self.cache.borrow()[&device.idx()].clone()`, then `Impl::calc`: `self.g[tr.idx()]` -/
def cacheGen (store : List (Nat × List Drive)) : Gen := fun dev =>
  match store.lookup dev.idx with
  | none => .error .noEntry
  | some row => .ok (vecCalc row)

/-- `Cache::init_full` = `Cache::init(&self, geometry, filter, parallel)?; Ok(self)` for the cache
with identity `id` (all clones share `gain` and `cache`). -/
def cacheInit (id : Nat) (inner : InitFn) : InitFn := fun geo filter par σ =>
  let st := σ.caches id
  let r : Except Fail Unit × St :=
    if st.taken then (.ok (), σ)
    else
      -- `if let Some(gain) = self.gain.take()`: the gain is gone whatever happens next
      match inner geo filter par (σ.setCache id { st with taken := true }) with
      | (.error e, σ') => (.error e, σ')
      | (.ok gen, σ') =>
        match cacheFill gen geo.devices (σ'.caches id).store with
        | .error p => (.error (.panic p), σ')
        | .ok store => (.ok (), σ'.setCache id { (σ'.caches id) with store := store })
  match r with
  | (.error e, σ1) => (.error e, σ1)
  | (.ok (), σ1) =>
    let store := (σ1.caches id).store
    if cacheMismatch store geo then (.error (.err .cacheGeometry), σ1)
    else (.ok (cacheGen store), σ1)

/-! ## `Group` -/

/-- `BitVec::from_fn(n, f)` -/
def bitFromFn (n : Nat) (f : Nat → Bool) : List Bool := (List.range n).map f

/-- replace the value of an existing key (`get_mut` / `Entry::Occupied`) -/
def asetEx {α : Type} (m : List (Nat × α)) (k : Nat) (v : α) : List (Nat × α) :=
  m.map fun p => if p.1 == k then (k, v) else p

/-- the innermost closure of `get_filters` for transducer `t` of `dev`.
`BitVec::set(i, true)` asserts `i < len`; here `i = tr.idx() < dev.num_transducers()` and every
vector stored under `dev.idx()` was made by `from_fn(dev.num_transducers(), …)`, so the assertion
cannot fail (`Lemmas/GainWrap.lean`, `getFilters_len`); it is therefore not a branch of the model. -/
def filtersStep (km : Nat → Nat → Option Nat) (dev : Dev) (filters : List (Nat × Filter)) (t : Nat) :
    List (Nat × Filter) :=
  match km dev.idx t with
  | none => filters
  | some key =>
    match filters.lookup key with
    | some v =>
      match v.lookup dev.idx with
      | some bits => asetEx filters key (asetEx v dev.idx (bits.set t true))          -- Occupied
      | none => asetEx filters key (v ++ [(dev.idx, bitFromFn dev.numTr (· == t))])    -- Vacant
    | none => filters ++ [(key, [(dev.idx, bitFromFn dev.numTr (· == t))])]

/-- `Group::get_filters`: over **enabled** devices, over their transducers -/
def getFilters (km : Nat → Nat → Option Nat) (geo : Geo) : List (Nat × Filter) :=
  geo.devices.foldl (fun fs dev => (List.range dev.numTr).foldl (filtersStep km dev) fs) []

/-- `gain_map.remove(&k)` -/
def removeKey {α : Type} (k : Nat) : List (Nat × α) → Option (α × List (Nat × α))
  | [] => none
  | (k', v) :: rest =>
    if k' = k then some (v, rest)
    else match removeKey k rest with
      | none => none
      | some (x, r) => some (x, (k', v) :: r)

/-- the calculators of one inner gain, **for the enabled devices, keyed by device index**
(`geometry.devices().map(|dev| (dev.idx(), g.generate(dev))).collect::<HashMap<_, _>>()`) -/
def genAll (gen : Gen) (devs : List Dev) : Except Panic (List (Nat × Calc)) :=
  mapE (fun dev => match gen dev with
    | .error p => .error p
    | .ok c => .ok (dev.idx, c)) devs

/-- the `filters.into_iter().map(|(k, filter)| …).collect::<Result<HashMap<_,_>,_>>()?` of
`Group::init_full`, in the order of the list it is given -/
def groupLoop (geo : Geo) (par : Bool) :
    List (Nat × Filter) → List (Nat × InitFn) → List (Nat × List (Nat × Calc)) → St →
    Except Fail (List (Nat × InitFn) × List (Nat × List (Nat × Calc))) × St
  | [], gm, acc, σ => (.ok (gm, acc), σ)
  | (k, filter) :: rest, gm, acc, σ =>
    match removeKey k gm with
    | none => (.error (.err (.unknownKey k)), σ)
    | some (g, gm') =>
      match g geo (some filter) par σ with
      | (.error e, σ') => (.error e, σ')
      | (.ok gen, σ') =>
        match genAll gen geo.devices with
        | .error p => (.error (.panic p), σ')
        | .ok calcs => groupLoop geo par rest gm' (acc ++ [(k, calcs)]) σ'

/-- one `Vec<Drive>` of the final table: `dev.iter().map(|tr| if let Some(key) = f(tr)
{ gain_calcs[&key][&dev.idx()].calc(tr) } else { Drive::NULL })` -/
def groupRow (km : Nat → Nat → Option Nat) (calcs : List (Nat × List (Nat × Calc))) (dev : Dev) :
    Except Panic (List Drive) :=
  mapE (fun t =>
    match km dev.idx t with
    | some key =>
      match calcs.lookup key with
      | none => .error .noEntry
      | some cs =>
        match cs.lookup dev.idx with
        | none => .error .noEntry
        | some c => c t
    | none => .ok Drive.null) (List.range dev.numTr)

def groupTable (km : Nat → Nat → Option Nat) (calcs : List (Nat × List (Nat × Calc))) (devs : List Dev) :
    Except Panic (List (Nat × List Drive)) :=
  mapE (fun dev => match groupRow km calcs dev with
    | .error p => .error p
    | .ok row => .ok (dev.idx, row)) devs

/-- `Generator::generate`: `self.g.remove(&device.idx()).unwrap()`, `Impl::calc`: `self.g[tr.idx()]` -/
def groupGen (table : List (Nat × List Drive)) : Gen := fun dev =>
  match table.lookup dev.idx with
  | none => .error .unwrapNone
  | some row => .ok (vecCalc row)

/-- `Group::init_full` after `get_filters`, visiting the keys in the order of `fl` (the Rust code
iterates a `HashMap`, i.e. in an unspecified order; the theorems hold for every permutation) -/
def groupInitWith (fl : List (Nat × Filter)) (km : Nat → Nat → Option Nat) (gm : List (Nat × InitFn))
    (geo : Geo) (par : Bool) (σ : St) : Except Fail Gen × St :=
  match groupLoop geo par fl gm [] σ with
  | (.error e, σ') => (.error e, σ')
  | (.ok (gmRest, calcs), σ') =>
    if !gmRest.isEmpty then (.error (.err (.unusedKeys (gmRest.map (·.1)))), σ')
    else
      match groupTable km calcs geo.devices with
      | .error p => (.error (.panic p), σ')
      | .ok table => (.ok (groupGen table), σ')

/-- `Group::init_full` (the outer `_filter` is ignored, as in the code) -/
def groupInit (km : Nat → Nat → Option Nat) (gm : List (Nat × InitFn)) : InitFn := fun geo _filter par σ =>
  groupInitWith (getFilters km geo) km gm geo par σ

/-! ## Wrapper trees -/

mutual
  inductive Tree where
    | leaf (l : LeafGain)
    | boxed (g : Tree)
    | cache (id : Nat) (g : Tree)
    | group (km : Nat → Nat → Option Nat) (gm : GMap)
  /-- `HashMap<K, G>` of a `Group` -/
  inductive GMap where
    | nil
    | cons (k : Nat) (g : Tree) (rest : GMap)
end

mutual
  /-- `init_full` of a tree of wrappers -/
  def Tree.init : Tree → InitFn
    | .leaf l => leafInit l
    | .boxed g => boxedInit g.init
    | .cache id g => cacheInit id g.init
    | .group km gm => groupInit km gm.inits
  def GMap.inits : GMap → List (Nat × InitFn)
    | .nil => []
    | .cons k g rest => (k, g.init) :: rest.inits
end

def GMap.keys : GMap → List Nat
  | .nil => []
  | .cons k _ rest => k :: rest.keys

def GMap.find (k : Nat) : GMap → Option Tree
  | .nil => none
  | .cons k' g rest => if k' = k then some g else rest.find k

mutual
  /-- the drive the tree is **meant** to give transducer `t` of device `d`: wrappers are
  transparent, `Group` selects by key (null drive without key) -/
  def Tree.den : Tree → Nat → Nat → Drive
    | .leaf l => l.f
    | .boxed g => g.den
    | .cache _ g => g.den
    | .group km gm => fun d t =>
      match km d t with
      | none => Drive.null
      | some k => gm.denAt k d t
  def GMap.denAt (k : Nat) : GMap → Nat → Nat → Drive
    | .nil => fun _ _ => Drive.null
    | .cons k' g rest => if k' = k then g.den else rest.denAt k
end

/-! ## Sending -/

inductive Segment where
  | S0 | S1
deriving DecidableEq, Repr

inductive Transition where
  | immediate
deriving DecidableEq, Repr

/-- a gain, optionally inside `WithSegment { inner, segment, transition_mode }` -/
structure Dgram where
  tree : Tree
  wrap : Option (Segment × Option Transition) := none

/-- `Datagram::operation_generator`: a bare gain goes to `Segment::S0` with
`Some(TransitionMode::Immediate)`; `WithSegment` passes its own two fields and the same gain. -/
def Dgram.target (dg : Dgram) : Segment × Option Transition :=
  match dg.wrap with
  | none => (.S0, some .immediate)
  | some (s, tm) => (s, tm)

/-- `OperationHandler::generate` (one calculator per enabled device) and `GainOp::pack`
(`dev.iter().map(|tr| calc(tr))`): the drives each enabled device receives -/
def drivesOf (gen : Gen) (devs : List Dev) : Except Panic (List (Nat × List Drive)) :=
  mapE (fun dev =>
    match gen dev with
    | .error p => .error p
    | .ok c =>
      match mapE c (List.range dev.numTr) with
      | .error p => .error p
      | .ok row => .ok (dev.idx, row)) devs

structure Sent where
  segment : Segment
  transition : Option Transition
  drives : List (Nat × List Drive)

/-- one `send` of a gain datagram: `init_full(geometry, None, parallel)`, then per enabled device -/
def send (dg : Dgram) (geo : Geo) (par : Bool) (σ : St) : Except Fail Sent × St :=
  match dg.tree.init geo none par σ with
  | (.error e, σ') => (.error e, σ')
  | (.ok gen, σ') =>
    match drivesOf gen geo.devices with
    | .error p => (.error (.panic p), σ')
    | .ok ds => (.ok { segment := dg.target.1, transition := dg.target.2, drives := ds }, σ')

/-- the segment each device is asked to play (`req_stm_segment`): a gain frame carries the update
flag exactly when a transition mode is given, and only enabled devices receive it -/
def applyReq (req : Nat → Segment) (s : Sent) : Nat → Segment := fun d =>
  if s.transition.isSome ∧ (s.drives.map (·.1)).contains d then s.segment else req d

/-! ## Other contexts of a wrapper tree (additive; nothing above depends on this part)

* `WithSegment` with a transition mode other than `Immediate`
  (`autd3-driver/src/datagram/with_segment.rs` → `GainOperationGenerator` → `GainOp::pack`)
* the trees as the elements of a `GainSTM { gains: Vec<G>, .. }`
  (`autd3-driver/src/datagram/stm/gain/{mod,implement}.rs`, mode `PhaseIntensityFull`)
-/

/-- every `TransitionMode` (the payloads of `SysTime` / `GPIO` play no role for a gain) -/
inductive TMode where
  | syncIdx | sysTime | gpio | ext | immediate
deriving DecidableEq, Repr

/-- failures of a send that are not the gain's own -/
inductive SendFail where
  | gain (f : Fail)
  | invalidTransitionMode     -- `AUTDDriverError::InvalidTransitionMode` (from `GainOp::pack`)
  | stmSize (n : Nat)         -- `AUTDDriverError::GainSTMSizeOutOfRange(n)`
deriving DecidableEq, Repr

/-- `WithSegment { inner: <gain>, segment, transition_mode: Some(mode) }` for **any** mode.
`WithSegment::operation_generator` hands segment and mode through to `GainOperationGenerator::new`,
which runs `init_full(geometry, None, parallel)` (the caches are filled whatever happens later);
`OperationHandler::generate` makes one calculator per enabled device (`generate`, no `calc` yet);
`GainOp::pack` of the first enabled device then returns `InvalidTransitionMode` before any `calc`
unless the mode is `Immediate`.  With no enabled device there is no operation, nothing is packed
and the send is `Ok` (the `transition` of the result is then immaterial: `drives = []`). -/
def sendMode (tree : Tree) (seg : Segment) (mode : TMode) (geo : Geo) (par : Bool) (σ : St) :
    Except SendFail Sent × St :=
  if mode = .immediate then
    match send { tree := tree, wrap := some (seg, some .immediate) } geo par σ with
    | (.error e, σ') => (.error (.gain e), σ')
    | (.ok s, σ') => (.ok s, σ')
  else
    match tree.init geo none par σ with
    | (.error e, σ') => (.error (.gain e), σ')
    | (.ok gen, σ') =>
      match genAll gen geo.devices with
      | .error p => (.error (.gain (.panic p)), σ')
      | .ok [] => (.ok { segment := seg, transition := none, drives := [] }, σ')
      | .ok (_ :: _) => (.error .invalidTransitionMode, σ')

/-- `impl GainSTMGenerator for Vec<G>`: `self.into_iter().map(|g| g.init_full(geometry, filter,
parallel)).collect::<Result<Vec<_>, _>>()` — in order, the same geometry / filter / parallel flag for
every element, stopping at the first failure (the remaining gains are dropped uninitialised). -/
def stmInits (geo : Geo) (filter : Option Filter) (par : Bool) : List InitFn → St → Except Fail (List Gen) × St
  | [], σ => (.ok [], σ)
  | i :: rest, σ =>
    match i geo filter par σ with
    | (.error e, σ') => (.error e, σ')
    | (.ok gen, σ') =>
      match stmInits geo filter par rest σ' with
      | (.error e, σ'') => (.error e, σ'')
      | (.ok gens, σ'') => (.ok (gen :: gens), σ'')

structure SentStm where
  segment : Segment
  transition : Option Transition
  /-- per index of the sequence, the drives every enabled device receives -/
  patterns : List (List (Nat × List Drive))

/-- one `send` of `GainSTM { gains: trees, config, option: PhaseIntensityFull }`, bare or inside
`WithSegment`: the size check (`STM_BUF_SIZE_MIN..=GAIN_STM_BUF_SIZE_MAX` = 2..=1024) comes before
any `init_full`; `gains.init(geometry, None, parallel)`; `Vec<G::G>::generate(dev)` makes one
calculator per element per enabled device; one frame per element carries `calc` of every transducer.
(The Rust code generates all calculators of a device before the first `calc`; with pure
calculators only the identity of the first panic could differ, and a panic is one answer.) -/
def sendStm (trees : List Tree) (wrap : Option (Segment × Option Transition)) (geo : Geo) (par : Bool)
    (σ : St) : Except SendFail SentStm × St :=
  let n := trees.length
  if n < 2 ∨ n > 1024 then (.error (.stmSize n), σ)
  else
    match stmInits geo none par (trees.map Tree.init) σ with
    | (.error e, σ') => (.error (.gain e), σ')
    | (.ok gens, σ') =>
      match mapE (fun gen => drivesOf gen geo.devices) gens with
      | .error p => (.error (.gain (.panic p)), σ')
      | .ok ps =>
        let tgt : Segment × Option Transition := match wrap with
          | none => (.S0, some .immediate)
          | some (s, tm) => (s, tm)
        (.ok { segment := tgt.1, transition := tgt.2, patterns := ps }, σ')

/-- the tuple datagram `(WithSegment { inner: g1, segment: S0, transition_mode: tm1 },
WithSegment { inner: g2, segment: S1, transition_mode: tm2 })` (`autd3-core/src/datagram/tuple.rs`,
`CombinedOperationGenerator` in `autd3-driver/src/datagram/tuple.rs`): `operation_generator` asks
**both** members for their generator (same geometry, same `parallel`) before it looks at either
result — the second gain is initialised even when the first one failed — and reports the first
error; per enabled device one calculator of each; both gains travel in one frame when they fit,
else in two, first the one for `S0`. -/
def sendPair (t1 t2 : Tree) (tm1 tm2 : Option Transition) (geo : Geo) (par : Bool) (σ : St) :
    Except Fail (Sent × Sent) × St :=
  match t1.init geo none par σ with
  | (r1, σ1) =>
    match t2.init geo none par σ1 with
    | (r2, σ2) =>
      match r1, r2 with
      | .error e, _ => (.error e, σ2)
      | .ok _, .error e => (.error e, σ2)
      | .ok g1, .ok g2 =>
        match drivesOf g1 geo.devices with
        | .error p => (.error (.panic p), σ2)
        | .ok d1 =>
          match drivesOf g2 geo.devices with
          | .error p => (.error (.panic p), σ2)
          | .ok d2 =>
            (.ok ({ segment := .S0, transition := tm1, drives := d1 },
                  { segment := .S1, transition := tm2, drives := d2 }), σ2)

end Autd3.GainWrap
