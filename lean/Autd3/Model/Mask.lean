import Autd3.Model.Wire
import Autd3.Model.PbCodecF32
/-!
# Enable masks (C12): what a disabled device may influence

Mirror of

* `autd3-core/src/geometry/mod.rs`: `Geometry::{devices, num_devices, num_transducers, center, aabb,
  set_sound_speed, set_sound_speed_from_temp_with, reconfigure, assign_idx}`;
* `autd3-driver/src/firmware/operation/mod.rs`: `OperationHandler::{generate, is_done, pack, pack_op2,
  pack_op}` (generic in the operation type, like the Rust code) and the send loop built on them;
* the index bookkeeping of the holographic gains: `generate_propagation_matrix`
  (`autd3-gain-holo/src/backend_nalgebra.rs`: column offsets `num_transducers[dev.idx()]`, both fill
  branches), `generate_result` / `HoloCalculator::calc` (`helper.rs`: the scan that hands out the
  read-back indices) and the index set of `Greedy` (`combinatorial/greedy.rs`).

`f32` values are bit patterns (`Nat < 2^32`); `center` is computed with the exact binary32 `add`/`div` of
`Model/PbCodecF32.lean` in the order nalgebra uses (`fold(zero, +)`, then component-wise `/`), the
bounding box with the comparisons `simba` uses (`if a <= b {a} else {b}`), so that both are compared
bit for bit.  Panics are values.  No imports outside core and other `Model` files.
-/
namespace Autd3.Mask
open Autd3.PbCodec
open Autd3.Wire (Tx)

/-! ### binary32 order, vectors, boxes -/

/-- monotone integer key of a non-NaN binary32 (`-0.0` and `+0.0` both map to 0) -/
def fkey (b : Nat) : Int :=
  if F32.sign b = 1 then - ((b % 0x80000000 : Nat) : Int) else ((b % 0x80000000 : Nat) : Int)

/-- `a <= b` on `f32` (false when either is NaN) -/
def fle (a b : Nat) : Bool := !F32.isNaN a && !F32.isNaN b && decide (fkey a ≤ fkey b)

/-- `simd_min`: `if self <= other { self } else { other }` -/
def fmin (a b : Nat) : Nat := if fle a b then a else b
/-- `simd_max`: `if self >= other { self } else { other }` -/
def fmax (a b : Nat) : Nat := if fle b a then a else b

structure V3 where
  x : Nat
  y : Nat
  z : Nat
deriving DecidableEq, Repr, Inhabited

def V3.zero : V3 := ⟨0, 0, 0⟩
def V3.add (a b : V3) : V3 := ⟨F32.add a.x b.x, F32.add a.y b.y, F32.add a.z b.z⟩
def V3.divS (a : V3) (s : Nat) : V3 := ⟨F32.div a.x s, F32.div a.y s, F32.div a.z s⟩
def V3.inf (a b : V3) : V3 := ⟨fmin a.x b.x, fmin a.y b.y, fmin a.z b.z⟩
def V3.sup (a b : V3) : V3 := ⟨fmax a.x b.x, fmax a.y b.y, fmax a.z b.z⟩
def V3.canon (a : V3) : V3 := ⟨F32.canon a.x, F32.canon a.y, F32.canon a.z⟩

structure Aabb where
  min : V3
  max : V3
deriving DecidableEq, Repr, Inhabited

/-- `Aabb::empty()`: min = +∞, max = −∞ -/
def Aabb.empty : Aabb := ⟨⟨F32.inf, F32.inf, F32.inf⟩, ⟨0xff800000, 0xff800000, 0xff800000⟩⟩
/-- `Aabb::join` -/
def Aabb.join (a b : Aabb) : Aabb := ⟨a.min.inf b.min, a.max.sup b.max⟩

/-- `n as f32` for a `usize` (round to nearest even; exact below 2^24) -/
def usizeToF32 (n : Nat) : Nat := if n = 0 then 0 else F32.roundPos n 1

/-! ### Geometry -/

/-- A device as far as the mask logic can see it.  `uid` stands for the physical identity of the
unit (its transducer positions / rotation, which the harness keeps and the model never computes
with): per-device payloads of the correspondence stream are keyed by it, *not* by `idx`, so that an
index mix-up changes an answer. `center`/`aabb` are the values `Device::init` cached. -/
structure Dev where
  idx : Nat
  enable : Bool := true
  soundSpeed : Nat
  numTr : Nat
  center : V3
  aabb : Aabb
  uid : Nat
deriving DecidableEq, Repr, Inhabited

abbrev Geometry := List Dev

/-- `Geometry::devices()`: `self.iter().filter(|dev| dev.enable)` -/
def devices (g : Geometry) : List Dev := g.filter (·.enable)

/-- `num_devices`: `self.devices().count()` -/
def numDevices (g : Geometry) : Nat := (devices g).length

/-- `num_transducers`: `self.devices().map(|dev| dev.num_transducers()).sum()` -/
def numTransducers (g : Geometry) : Nat := ((devices g).map (·.numTr)).foldl (· + ·) 0

/-- `self.devices().map(|d| d.center().coords).sum::<Vector3>()` (nalgebra: `fold(zero, |a, x| a + x)`) -/
def centerSum (g : Geometry) : V3 := (devices g).foldl (fun acc d => acc.add d.center) V3.zero

/-- `center` (repaired code): the sum over enabled devices divided by `self.num_devices() as f32` -/
def center (g : Geometry) : V3 := (centerSum g).divS (usizeToF32 (numDevices g))

/-- `center` as it was before the repair (F10): divided by `self.devices.len() as f32`, the number
of *all* devices. Kept only for the counterexample in `Props/C12.lean`. -/
def centerUnrepaired (g : Geometry) : V3 := (centerSum g).divS (usizeToF32 g.length)

/-- `aabb`: `self.devices().fold(Aabb::empty(), |aabb, dev| aabb.join(dev.aabb()))` -/
def aabb (g : Geometry) : Aabb := (devices g).foldl (fun a d => a.join d.aabb) Aabb.empty

/-- `set_sound_speed`: `self.devices_mut().for_each(|dev| dev.sound_speed = c)` -/
def setSoundSpeed (c : Nat) (g : Geometry) : Geometry :=
  g.map fun d => if d.enable then { d with soundSpeed := c } else d

def C_273_15 : Nat := 0x43889333
def C_K : Nat := 0x3fb33333        -- 1.4
def C_R : Nat := 0x4105080a        -- 8.314_463
def C_M : Nat := 0x3ced4761        -- 28.9647e-3
def C_METER : Nat := 0x447a0000    -- 1000.0 (the default unit is mm)

/-- `Device::set_sound_speed_from_temp_with`: `(k * r * (273.15 + temp) / m).sqrt() * METER` -/
def soundSpeedFromTemp (t k r m : Nat) : Nat :=
  F32.mul (F32.sqrt (F32.div (F32.mul (F32.mul k r) (F32.add C_273_15 t)) m)) C_METER

/-- `set_sound_speed_from_temp_with` -/
def setSoundSpeedFromTempWith (t k r m : Nat) (g : Geometry) : Geometry :=
  g.map fun d => if d.enable then { d with soundSpeed := soundSpeedFromTemp t k r m } else d

/-- `set_sound_speed_from_temp(t)` -/
def setSoundSpeedFromTemp (t : Nat) (g : Geometry) : Geometry := setSoundSpeedFromTempWith t C_K C_R C_M g

/-- `assign_idx`: positions become indices -/
def assignIdxFrom : Nat → Geometry → Geometry
  | _, [] => []
  | i, d :: ds => { d with idx := i } :: assignIdxFrom (i + 1) ds

def assignIdx (g : Geometry) : Geometry := assignIdxFrom 0 g

/-- `reconfigure`: every device (enabled or not) is rebuilt by `f`, keeping `enable` and
`sound_speed`; then `assign_idx` -/
def reconfigure (f : Dev → Dev) (g : Geometry) : Geometry :=
  assignIdx (g.map fun d => { f d with enable := d.enable, soundSpeed := d.soundSpeed })

/-- the geometry that contains only the enabled devices (`Geometry::new` of them: indices reassigned) -/
def restrict (g : Geometry) : Geometry := assignIdx (devices g)

/-- indices are positions (what `Geometry::new` / `reconfigure` establish) -/
def WFFrom : Nat → Geometry → Prop
  | _, [] => True
  | i, d :: ds => d.idx = i ∧ WFFrom (i + 1) ds

def WF (g : Geometry) : Prop := WFFrom 0 g

instance : (i : Nat) → (g : Geometry) → Decidable (WFFrom i g)
  | _, [] => isTrue trivial
  | i, d :: ds =>
    have := instDecidableWFFrom (i + 1) ds
    inferInstanceAs (Decidable (d.idx = i ∧ WFFrom (i + 1) ds))
instance (g : Geometry) : Decidable (WF g) := inferInstanceAs (Decidable (WFFrom 0 g))

/-- the entries of `xs` that sit at the positions of enabled devices (`zip` + `filter`) -/
def keep {α : Type} : Geometry → List α → List α
  | d :: ds, t :: ts => if d.enable then t :: keep ds ts else keep ds ts
  | _, _ => []

/-! ### OperationHandler -/

/-- the `Operation` trait: `is_done`, `required_size(dev)`, `pack(dev, &mut payload[off..])`.
`pack` gets the whole payload and the offset of the slice it may write. -/
structure OpI (ω ε : Type) where
  isDone : ω → Bool
  required : ω → Dev → Nat
  pack : ω → Dev → Array Nat → Nat → Except ε (ω × Array Nat × Nat)

section handler
variable {ω ε : Type}

def bump (t : Tx) : Tx :=
  { t with msgId := ((t.msgId + 1) % 256) &&& Autd3.Gen.Drv.MSG_ID_MAX, slot2 := 0 }

/-- `pack_op`: `msg_id += 1; msg_id &= MSG_ID_MAX; slot_2_offset = 0; op.pack(dev, payload)`.
On a pack error the header has already been advanced. -/
def packOp (I : OpI ω ε) (o : ω) (d : Dev) (t : Tx) : Except (ε × Tx) (ω × Tx × Nat) :=
  let t := bump t
  match I.pack o d t.payload 0 with
  | .error e => .error (e, t)
  | .ok (o, b, sz) => .ok (o, { t with payload := b }, sz)

/-- `pack_op2`.  Both operations and the tx buffer are mutated in place in Rust: on an error the
result carries the operation states and the buffer as the failing call left them (the first
operation already advanced when the second one fails). -/
def packOp2 (I : OpI ω ε) (o : ω × ω) (d : Dev) (t : Tx) : Except (ε × (ω × ω) × Tx) ((ω × ω) × Tx) :=
  match I.isDone o.1, I.isDone o.2 with
  | true, true => .ok (o, t)
  | true, false =>
    match packOp I o.2 d t with
    | .error (e, t) => .error (e, o, t)
    | .ok (o2, t, _) => .ok ((o.1, o2), t)
  | false, true =>
    match packOp I o.1 d t with
    | .error (e, t) => .error (e, o, t)
    | .ok (o1, t, _) => .ok ((o1, o.2), t)
  | false, false =>
    match packOp I o.1 d t with
    | .error (e, t) => .error (e, o, t)
    | .ok (o1, t, sz1) =>
      if t.payload.size - sz1 ≥ I.required o.2 d then
        match I.pack o.2 d t.payload sz1 with
        | .error e => .error (e, (o1, o.2), t)
        | .ok (o2, b, _) => .ok ((o1, o2), { t with payload := b, slot2 := sz1 })
      else .ok ((o1, o.2), t)

abbrev Ops (ω : Type) := List (Option (ω × ω))

/-- `OperationHandler::generate`: `geometry.devices().map(|dev| Some(generator.generate(dev))).collect()`
(the generator is `&mut`: its state is threaded through the enabled devices in order) -/
def generateFrom {σ : Type} (gen : σ → Dev → (ω × ω) × σ) : σ → List Dev → Ops ω
  | _, [] => []
  | s, d :: ds => let r := gen s d; some r.1 :: generateFrom gen r.2 ds

def generate {σ : Type} (gen : σ → Dev → (ω × ω) × σ) (s : σ) (g : Geometry) : Ops ω :=
  generateFrom gen s (devices g)

/-- `OperationHandler::is_done` -/
def isDone (I : OpI ω ε) (ops : Ops ω) : Bool :=
  ops.all fun o => match o with
    | none => true
    | some (a, b) => I.isDone a && I.isDone b

structure PackRes (ω ε : Type) where
  tx : List Tx
  ops : Ops ω
  err : Option ε

/-- `OperationHandler::pack` (serial; the parallel variant differs only in scheduling):
`geometry.iter().zip(tx.iter_mut()).filter(|(dev, _)| dev.enable).zip(operations.iter_mut())
 .try_for_each(|((dev, tx), op)| if let Some((op1, op2)) = op { pack_op2(op1, op2, dev, tx) } else { Ok(()) })`.
The outer `zip` pulls the next *enabled* (device, tx) pair first and an operation second; it stops when
either side is exhausted; `try_for_each` stops at the first error, leaving what was already written. -/
def pack (I : OpI ω ε) : Geometry → List Tx → Ops ω → PackRes ω ε
  | d :: ds, t :: ts, ops =>
    if d.enable then
      match ops with
      | [] => ⟨t :: ts, [], none⟩
      | none :: os =>
        let r := pack I ds ts os
        ⟨t :: r.tx, none :: r.ops, r.err⟩
      | some o :: os =>
        match packOp2 I o d t with
        | .error (e, o', t') => ⟨t' :: ts, some o' :: os, some e⟩
        | .ok (o', t') =>
          let r := pack I ds ts os
          ⟨t' :: r.tx, some o' :: r.ops, r.err⟩
    else
      let r := pack I ds ts ops
      ⟨t :: r.tx, r.ops, r.err⟩
  | [], ts, ops => ⟨ts, ops, none⟩
  | _ :: _, [], ops => ⟨[], ops, none⟩

structure SendRes (ε : Type) where
  /-- the tx buffers as they stood after every successful `pack` (what is handed to the link) -/
  frames : List (List Tx)
  /-- the tx buffers at the end (after a failing `pack`: with whatever it had written) -/
  final : List Tx
  err : Option ε
  /-- the loop ran out of fuel (never for the fuel the driver supplies) -/
  cut : Bool

/-- the sender loop without the link: `while !is_done(ops) { pack(ops, geometry, tx)?; send(tx) }` -/
def sendLoop (I : OpI ω ε) (g : Geometry) : Nat → List Tx → Ops ω → SendRes ε
  | 0, tx, ops => ⟨[], tx, none, !isDone I ops⟩
  | fuel + 1, tx, ops =>
    if isDone I ops then ⟨[], tx, none, false⟩
    else
      let r := pack I g tx ops
      match r.err with
      | some e => ⟨[], r.tx, some e, false⟩
      | none =>
        let s := sendLoop I g fuel r.tx r.ops
        ⟨r.tx :: s.frames, s.final, s.err, s.cut⟩

/-- generate + loop: one datagram through a geometry -/
def send {σ : Type} (I : OpI ω ε) (gen : σ → Dev → (ω × ω) × σ) (s : σ) (g : Geometry) (fuel : Nat)
    (tx : List Tx) : SendRes ε :=
  sendLoop I g fuel tx (generate gen s g)

end handler

/-- the driver's real operations (`Model/Wire.lean`) as an `OpI`: they see the device only through
its number of transducers -/
def wireI : OpI Autd3.Wire.Op Autd3.Wire.Err where
  isDone o := o.done
  required o d := o.required d.numTr
  pack o d b off := o.pack d.numTr b off

/-- A scripted operation for the `mock` lines of the stream (same as `MockOp` in `harness/src/c12.rs`):
packs `frames` frames, each writing `[tag, uid, numTr, frames]` at the start of its slice and
reporting `packSize` bytes; fails on the frame where `frames = brokenAt`. -/
structure MockOp where
  tag : Nat
  packSize : Nat
  required : Nat
  frames : Nat
  brokenAt : Nat
deriving DecidableEq, Repr, Inhabited

def mockI : OpI MockOp Unit where
  isDone o := o.frames == 0
  required o _ := o.required
  pack o d b off :=
    if o.frames = o.brokenAt then .error ()
    else
      let b := Autd3.Wire.put8 b off o.tag
      let b := Autd3.Wire.put8 b (off + 1) d.uid
      let b := Autd3.Wire.put8 b (off + 2) d.numTr
      let b := Autd3.Wire.put8 b (off + 3) o.frames
      .ok ({ o with frames := o.frames - 1 }, b, o.packSize)

/-! ### Holographic gains: which column belongs to which transducer -/

inductive HPanic where
  | bitvecIndex      -- `filter[tr.idx()]` beyond the BitVec
  | offsetIndex      -- `num_transducers[dev.idx()]`
  | cellOutOfBounds  -- the raw pointer write leaves the matrix (undefined behaviour in Rust)
  | fromIterator     -- `from_iterator(n, iter)`: iterator shorter than `n`
  | mapMissing       -- `map[&device.idx()]` / `map.remove(&device.idx()).unwrap()`
  | vecIndex         -- `map[tr.idx()]`, `self.q[idx]`, `self.g[tr.idx()]`
deriving DecidableEq, Repr

/-- `HashMap<usize, BitVec>::get` -/
abbrev FilterMap := Nat → Option (List Bool)
abbrev Filter := Option FilterMap

/-- `BitVec::count_ones` -/
def countOnes : List Bool → Nat
  | [] => 0
  | b :: bs => (if b then 1 else 0) + countOnes bs

/-- what the scan in `generate_propagation_matrix` adds for one device -/
def colCount (f : Filter) (d : Dev) : Nat :=
  if d.enable then
    match f with
    | some m =>
      match m d.idx with
      | some bits => countOnes bits
      | none => 0
    | none => d.numTr
  else 0

/-- `geometry.iter().scan(0, |state, dev| { *state += …; Some(*state) })` -/
def scanFrom (f : Filter) : Nat → Geometry → List Nat
  | _, [] => []
  | acc, d :: ds => (acc + colCount f d) :: scanFrom f (acc + colCount f d) ds

/-- `num_transducers`: `[0].chain(scan)` — over **all** devices, indexed by `dev.idx()` -/
def offsets (f : Filter) (g : Geometry) : List Nat := 0 :: scanFrom f 0 g

def lastOr : Nat → List Nat → Nat
  | a, [] => a
  | _, b :: bs => lastOr b bs

/-- `n = num_transducers.last().copied().unwrap()` -/
def totalCols (f : Filter) (g : Geometry) : Nat := lastOr 0 (scanFrom f 0 g)

/-- indices (from `i`) of the set bits -/
def trueIdx : Nat → List Bool → List Nat
  | _, [] => []
  | i, b :: bs => if b then i :: trueIdx (i + 1) bs else trueIdx (i + 1) bs

/-- the transducers of `d` that get a column, in the order the code visits them
(`dev.iter()` + `filter[tr.idx()]`); `filter[..]` panics beyond the BitVec -/
def passing (f : Filter) (d : Dev) : Except HPanic (List Nat) :=
  match f with
  | none => .ok (List.range' 0 d.numTr)
  | some m =>
    match m d.idx with
    | none => .ok []
    | some bits =>
      if bits.length < d.numTr then .error .bitvecIndex
      else .ok (trueIdx 0 (bits.take d.numTr))

/-- a matrix cell holds `propagate(tr of device, focus)`: (device idx, transducer idx, focus idx) -/
abbrev Cell := Nat × Nat × Nat

/-- the values one device writes, in write order: `dev.iter().for_each(|tr| foci.iter().for_each(|f| ptr.write(..)))` -/
def devVals (m : Nat) (didx : Nat) (ts : List Nat) : List Cell :=
  ts.flatMap fun t => (List.range' 0 m).map fun fi => (didx, t, fi)

/-- pointer branch, one device: `ptr.add(foci.len() * num_transducers[dev.idx()])`, then consecutive writes -/
def devBlock (f : Filter) (m : Nat) (offs : List Nat) (d : Dev) : Except HPanic (Nat × List Cell) :=
  match offs[d.idx]? with
  | none => .error .offsetIndex
  | some off =>
    match passing f d with
    | .error p => .error p
    | .ok ts => .ok (m * off, devVals m d.idx ts)

/-- pointer branch: one block (start cell, values) per enabled device -/
def fillBlocksOf (f : Filter) (m : Nat) (offs : List Nat) : List Dev → Except HPanic (List (Nat × List Cell))
  | [] => .ok []
  | d :: ds =>
    match devBlock f m offs d with
    | .error p => .error p
    | .ok b =>
      match fillBlocksOf f m offs ds with
      | .error p => .error p
      | .ok bs => .ok (b :: bs)

def fillBlocks (f : Filter) (m : Nat) (g : Geometry) : Except HPanic (List (Nat × List Cell)) :=
  fillBlocksOf f m (offsets f g) (devices g)

/-- write a block into the matrix storage (column major, `m` rows): consecutive cells from `start` -/
def writeBlock (buf : Array (Option Cell)) : Nat → List Cell → Except HPanic (Array (Option Cell))
  | _, [] => .ok buf
  | p, v :: vs =>
    if p < buf.size then writeBlock (buf.setIfInBounds p (some v)) (p + 1) vs
    else .error .cellOutOfBounds

def writeBlocks (buf : Array (Option Cell)) : List (Nat × List Cell) → Except HPanic (Array (Option Cell))
  | [] => .ok buf
  | (s, vs) :: bs =>
    match writeBlock buf s vs with
    | .error p => .error p
    | .ok buf => writeBlocks buf bs

/-- the enabled (device, transducer) pairs in iteration order: what `flat_map` yields in the row branch -/
def orderOf (f : Filter) : List Dev → Except HPanic (List (Nat × Nat))
  | [] => .ok []
  | d :: ds =>
    match passing f d with
    | .error p => .error p
    | .ok ts =>
      match orderOf f ds with
      | .error p => .error p
      | .ok r => .ok (ts.map (fun t => (d.idx, t)) ++ r)

def order (f : Filter) (g : Geometry) : Except HPanic (List (Nat × Nat)) := orderOf f (devices g)

/-- `generate_propagation_matrix`: the cells of the `m × n` matrix (column major; `none` = never
written, i.e. uninitialised memory). Row branch when `num_devices() < foci.len()`. -/
def matrix (f : Filter) (m : Nat) (g : Geometry) : Except HPanic (Nat × Array (Option Cell)) :=
  let n := totalCols f g
  if numDevices g < m then
    -- one row per focus: `from_iterator(n, flat_map …)`, then `from_rows`
    match order f g with
    | .error p => .error p
    | .ok o =>
      if o.length < n then .error .fromIterator
      else
        let o := o.take n
        .ok (n, ((o.flatMap fun dt => (List.range' 0 m).map fun fi => some (dt.1, dt.2, fi))).toArray)
  else
    match fillBlocks f m g with
    | .error p => .error p
    | .ok bs =>
      match writeBlocks (Array.replicate (m * n) none) bs with
      | .error p => .error p
      | .ok buf => .ok (n, buf)

/-- `generate_result`, no filter: `devices().scan(0, |state, dev| { r = *state; *state += dev.num_transducers(); (dev.idx(), r) })` -/
def readBases : Nat → List Dev → List (Nat × Nat)
  | _, [] => []
  | acc, d :: ds => (d.idx, acc) :: readBases (acc + d.numTr) ds

/-- one device of the filtered scan: `dev.iter().map(|tr| if filter[tr.idx()] { r = *state; *state += 1; Some(r) } else { None })` -/
def markTrs : Nat → List Bool → List (Option Nat) × Nat
  | acc, [] => ([], acc)
  | acc, b :: bs =>
    if b then let r := markTrs (acc + 1) bs; (some acc :: r.1, r.2)
    else let r := markTrs acc bs; (none :: r.1, r.2)

/-- `generate_result`, with a filter: `(dev.idx(), filter.get(&dev.idx()).map(..))`, the state runs
through all enabled devices -/
def readMaps (m : FilterMap) : Nat → List Dev → Except HPanic (List (Nat × Option (List (Option Nat))))
  | _, [] => .ok []
  | acc, d :: ds =>
    match m d.idx with
    | none =>
      match readMaps m acc ds with
      | .error p => .error p
      | .ok r => .ok ((d.idx, none) :: r)
    | some bits =>
      if bits.length < d.numTr then .error .bitvecIndex
      else
        let mk := markTrs acc (bits.take d.numTr)
        match readMaps m mk.2 ds with
        | .error p => .error p
        | .ok r => .ok ((d.idx, some mk.1) :: r)

/-- `HoloCalculatorGenerator::generate(device)` + `HoloCalculator::calc(tr)`: the index of `q` that
transducer `t` of device `d` reads (`none` = `Drive::NULL`); `n = q.len()`.
(`HashMap` look-up modelled by the first entry with the key; keys are distinct when `WF`.) -/
def readIndex (f : Filter) (g : Geometry) (n : Nat) (d : Dev) (t : Nat) : Except HPanic (Option Nat) :=
  match f with
  | none =>
    match (readBases 0 (devices g)).lookup d.idx with
    | none => .error .mapMissing
    | some base => if base + t < n then .ok (some (base + t)) else .error .vecIndex
  | some m =>
    match readMaps m 0 (devices g) with
    | .error p => .error p
    | .ok maps =>
      match maps.lookup d.idx with
      | none => .error .mapMissing
      | some none => .ok none
      | some (some v) =>
        match v[t]? with
        | none => .error .vecIndex
        | some none => .ok none
        | some (some i) => if i < n then .ok (some i) else .error .vecIndex

/-- read-back of every transducer of every enabled device (what the controller does with the gain) -/
def readAll (f : Filter) (g : Geometry) (n : Nat) : Except HPanic (List (Nat × List (Option Nat))) :=
  (devices g).mapM fun d => do
    let row ← (List.range' 0 d.numTr).mapM fun t => readIndex f g n d t
    pure (d.idx, row)

/-- `Greedy::init_full`: the `(dev.idx(), tr.idx())` pairs that get a drive, then per enabled device
the flags "this transducer was assigned" (`g[&dev_idx][idx] = …`; everything else stays `Drive::NULL`) -/
def greedyFlags (f : Filter) (g : Geometry) : Except HPanic (List (Nat × List Bool)) :=
  match order f g with
  | .error p => .error p
  | .ok idxs =>
    .ok ((devices g).map fun d =>
      (d.idx, (List.range' 0 d.numTr).map fun t => idxs.contains (d.idx, t)))

end Autd3.Mask
