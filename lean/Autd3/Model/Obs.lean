import Autd3.Model.Fw
/-!
Read-back: the public accessors of `FPGAEmulator` / `CPUEmulator` (`fpga/emulator/{modulation,stm/*,
silencer,pwe,phase_corr,debug,mod}.rs`) with their panics.  This is the abstraction function of the
refinement: what a user (or the controller) can observe of a device.
-/
namespace Autd3.Obs
open Autd3.Fw
open Autd3.Gen.Cpu
open Autd3.Gen

def modMem (s : State) (seg : Nat) : Array Nat := if seg = 0 then s.modMem0 else s.modMem1
def stmMem (s : State) (seg : Nat) : Array Nat := if seg = 0 then s.stmMem0 else s.stmMem1

def modDiv (s : State) (seg : Nat) : Nat := reg s (ADDR_MOD_FREQ_DIV0 + seg)
def modCycle (s : State) (seg : Nat) : Nat := reg s (ADDR_MOD_CYCLE0 + seg) + 1
def modRep (s : State) (seg : Nat) : Nat := reg s (ADDR_MOD_REP0 + seg)

/-- `modulation_at` -/
def modAt (s : State) (seg idx : Nat) : M Nat :=
  let m := modMem s seg
  if idx / 2 < m.size then
    let w := rd m (idx / 2)
    .ok (if idx % 2 = 0 then w % 256 else (w / 256) % 256)
  else .error (.index "modulation_at")

/-- `modulation_buffer` -/
def modBuffer (s : State) (seg : Nat) : M (Array Nat) :=
  (Array.range (modCycle s seg)).mapM (modAt s seg)

def reqModSeg (s : State) : M Nat := segReg s ADDR_MOD_REQ_RD_SEGMENT "req_modulation_segment"
def reqStmSeg (s : State) : M Nat := segReg s ADDR_STM_REQ_RD_SEGMENT "req_stm_segment"
def modTransition (s : State) : M TMode :=
  decodeTMode (reg s ADDR_MOD_TRANSITION_MODE) (reg64 s ADDR_MOD_TRANSITION_VALUE_0) "modulation_transition_mode"
def stmTransition (s : State) : M TMode :=
  decodeTMode (reg s ADDR_STM_TRANSITION_MODE) (reg64 s ADDR_STM_TRANSITION_VALUE_0) "stm_transition_mode"

def isStmGainMode (s : State) (seg : Nat) : Bool := reg s (ADDR_STM_MODE0 + seg) = STM_MODE_GAIN
def stmDiv (s : State) (seg : Nat) : Nat := reg s (ADDR_STM_FREQ_DIV0 + seg)
def stmCycle (s : State) (seg : Nat) : Nat := reg s (ADDR_STM_CYCLE0 + seg) + 1
def stmRep (s : State) (seg : Nat) : Nat := reg s (ADDR_STM_REP0 + seg)
def soundSpeed (s : State) (seg : Nat) : Nat := reg s (ADDR_STM_SOUND_SPEED0 + seg)
def numFoci (s : State) (seg : Nat) : Nat := reg s (ADDR_STM_NUM_FOCI0 + seg) % 256

/-- `_phase_corr(idx)` -/
def phaseCorrAt (s : State) (idx : Nat) : Nat :=
  let w := rd s.phaseCorr (idx / 2)
  if idx % 2 = 0 then w % 256 else (w / 256) % 256

def phaseCorrection (s : State) : Array Nat := (Array.range s.numTr).map (phaseCorrAt s)

/-- `gain_stm_drives_inplace`: drive word `(phase + correction) | intensity << 8` per transducer;
iterator-based in Rust, so running off the end of the BRAM leaves `Drive::NULL` -/
def gainDrives (s : State) (seg idx : Nat) : Array Nat :=
  let m := stmMem s seg
  (Array.range s.numTr).map fun i =>
    if 256 * idx + i < m.size then
      let d := rd m (256 * idx + i)
      ((d % 256 + phaseCorrAt s i) % 256) + 256 * ((d / 256) % 256)
    else 0

def signed16 (v : Nat) : Int := if v % 65536 < 32768 then (v % 65536 : Nat) else (v % 65536 : Nat) - 65536
def signed18 (v : Nat) : Int := if v % 262144 < 131072 then (v % 262144 : Nat) else (v % 262144 : Nat) - 262144

/-- integer square root (`i64::isqrt` on a non-negative value) -/
def isqrt (n : Nat) : Nat := Nat.sqrt n

/-- `foci_stm_drives_inplace` for one transducer -/
def fociDrive (s : State) (seg idx tr : Nat) : M Nat := do
  let m := stmMem s seg
  let c := soundSpeed s seg
  let nf := numFoci s seg
  let pos := Tables.trPos tr
  let trZ := signed16 (pos / 4294967296)
  let trX := signed16 (pos / 65536)
  let trY := signed16 pos
  let mut intensity := 0
  let mut sn := 0
  let mut cs := 0
  for i in [0:nf] do
    let base := 4 * (idx * nf + i)
    if base + 4 > m.size then .error (.index "foci_stm_drives: stm_bram") else
    let f := rd m base + 65536 * rd m (base + 1) + 4294967296 * rd m (base + 2) + 281474976710656 * rd m (base + 3)
    let x := signed18 f
    let y := signed18 (f / 262144)
    let z := signed18 (f / 68719476736)
    let io := (f / 18014398509481984) % 256
    let offset := if i = 0 then 0 else io
    if i = 0 then intensity := io
    let d2 := (x - trX) * (x - trX) + (y - trY) * (y - trY) + (z - trZ) * (z - trZ)
    let dist := isqrt d2.toNat
    if c = 0 then .error (.divZero "foci_stm_drives: sound_speed") else
    let q := (dist * 16384) / c + offset
    sn := sn + Tables.sinTable (q % 256)
    cs := cs + Tables.sinTable ((q + 64) % 256)
  if nf = 0 then .error (.divZero "foci_stm_drives: num_foci") else
  let sinAvg := (sn / nf) / 2
  let cosAvg := (cs / nf) / 2
  let phase := Tables.atanTable (sinAvg * 128 ||| cosAvg)
  return ((phase + phaseCorrAt s tr) % 256) + 256 * intensity

def fociDrives (s : State) (seg idx : Nat) : M (Array Nat) :=
  (Array.range s.numTr).mapM (fociDrive s seg idx)

/-- `drives_at` -/
def drivesAt (s : State) (seg idx : Nat) : M (Array Nat) :=
  if isStmGainMode s seg then .ok (gainDrives s seg idx) else fociDrives s seg idx

def currentModSeg (s : State) : Nat := s.modSwap.cur
def currentStmSeg (s : State) : Nat := s.stmSwap.cur
def currentModIdx (s : State) : Nat := s.modSwap.curIdx
def currentStmIdx (s : State) : Nat := s.stmSwap.curIdx

/-- `drives()` / `modulation()` -/
def drives (s : State) : M (Array Nat) := drivesAt s (currentStmSeg s) (currentStmIdx s)
def modulation (s : State) : M Nat := modAt s (currentModSeg s) (currentModIdx s)

def silencerUpdateRate (s : State) : Nat × Nat :=
  (reg s ADDR_SILENCER_UPDATE_RATE_INTENSITY, reg s ADDR_SILENCER_UPDATE_RATE_PHASE)
/-- `silencer_completion_steps` (`NonZeroU16::new(..).unwrap()`) -/
def silencerCompletionSteps (s : State) : M (Nat × Nat) :=
  let i := reg s ADDR_SILENCER_COMPLETION_STEPS_INTENSITY
  let p := reg s ADDR_SILENCER_COMPLETION_STEPS_PHASE
  if i = 0 ∨ p = 0 then .error (.unwrapNone "silencer_completion_steps") else .ok (i, p)
def silencerFixedUpdateRateMode (s : State) : Bool :=
  hasFlag (reg s ADDR_SILENCER_FLAG) SILENCER_FLAG_FIXED_UPDATE_RATE_MODE

/-- `pulse_width_encoder_table` (`PulseWidth::<u16, 9>::new(v).unwrap()`: `v < 512`) -/
def pweTable (s : State) : M (Array Nat) :=
  (Array.range 256).mapM fun i =>
    let v := rd s.pwe i
    if v < 512 then .ok v else .error (.unwrapNone "pulse_width_encoder_table_at")

def debugTypes (s : State) : Array Nat :=
  #[reg s ADDR_DEBUG_VALUE0_3 / 256, reg s ADDR_DEBUG_VALUE1_3 / 256, reg s ADDR_DEBUG_VALUE2_3 / 256, reg s ADDR_DEBUG_VALUE3_3 / 256]
def debugValues (s : State) : Array Nat :=
  #[reg64 s ADDR_DEBUG_VALUE0_0 % 72057594037927936, reg64 s ADDR_DEBUG_VALUE1_0 % 72057594037927936,
    reg64 s ADDR_DEBUG_VALUE2_0 % 72057594037927936, reg64 s ADDR_DEBUG_VALUE3_0 % 72057594037927936]

def isForceFan (s : State) : Bool := (reg s ADDR_CTL_FLAG >>> CTL_FLAG_FORCE_FAN_BIT) % 2 = 1
def isThermo (s : State) : Bool := reg s ADDR_FPGA_STATE % 2 = 1
def fpgaStateReg (s : State) : Nat := reg s ADDR_FPGA_STATE

end Autd3.Obs
