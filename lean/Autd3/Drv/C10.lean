import Autd3.Model.ParPack
import Autd3.Model.HoloFill
import Autd3.Drv.Common
import Autd3.Drv.Fw
/-!
`parallel` stream (C10).  Datagram grammar `<dg>` = the one of `Drv/Fw.lean` (its parser is reused).

  reset <path> <ndev> <maskhex> <dirty>   new session: all message ids 0, payloads zero (dirty = 0) or pseudo-random
                                          per device (seed dirty + device); bit i of mask = device i enabled.
                                          <path> (h = OperationHandler, c = Controller) is for the harness only
  mask <maskhex>                          change the enable flags
  send <sched> <dg>                       the loop of `Sender::send_impl`; sched = 0: serial `pack`; otherwise every
                                          `pack` call runs its device tasks in an order shuffled from seed sched
                                          → R=<ok|err:Name> N=<frames sent> F=<FNV chain over every frame of every device>
  gsend <sched> <keys> | <dg> ; <dg> …    `group_send`: keys = one char per device (`-` or a digit = index of the <dg>)
  decide <auto|on|off> <maskhex> <ndev> <thr|max>   → par=<0|1>   (`ParallelMode::is_parallel` as used by `send`)
  thr <dg>                                → T=<threshold|max>      (`Datagram::option().parallel_threshold`)
  holo <m> <hf> <order> <e>:<n>:<bits|-> …   the matrix fill: m foci, hf = filter map present, one item per device
                                          (enable, transducers, filter bits); order = 0 serial, else shuffled tasks
                                          → H=<FNV over the (device, transducer, focus) tag of every cell> | panic
-/
namespace Autd3.Drv.C10
open Autd3.Drv Autd3.Wire Autd3.ParPack

def numTr : Nat := 249

structure St where
  en : List Bool := []
  tx : Array Tx := #[]

def init : St := {}

def maskBits (n mask : Nat) : List Bool := (List.range n).map fun i => (mask >>> i) % 2 = 1

/-- numbers driving `shuffle` for the `i`-th pack call of a send -/
def schedOf (seed : Nat) (i : Nat) (ts : List Task) : List Task :=
  if seed = 0 then ts else shuffle (prBytes (seed + 7919 * i) ts.length).toList ts

def frameHash (frames : List (Array Tx)) : Nat :=
  frames.foldl (fun h f =>
    (f.zipIdx).foldl (fun h p => FwS.hashFrame h p.2 p.1.frame) h) 0

def resultStr : Option (Option Err) → String
  | none => "ok"
  | some (some e) => "err:" ++ FwS.errName e
  | some none => "err:model-fuel"

def answerOf (st : St) (r : SendRes) : St × String :=
  ({ st with tx := r.cells.tx }, s!"R={resultStr r.result} N={r.frames.length} F={frameHash r.frames}")

def runSend (st : St) (seed : Nat) (ops : Array Slot) : St × String :=
  answerOf st (sendLoop (fun _ => numTr) st.en (schedOf seed) 100000 0 { ops := ops, tx := st.tx } [])

/-- split a word list at every `sep` -/
def splitAt (sep : String) (ws : List String) : List (List String) :=
  ws.foldr (fun w acc => if w = sep then [] :: acc else match acc with | [] => [[w]] | a :: r => (w :: a) :: r) [[]]

def parseKeys (s : String) : Option (List (Option Nat)) :=
  s.toList.mapM fun c => if c = '-' then some none else if c.isDigit then some (some (c.toNat - 48)) else none

def modeOf : String → Option ParallelMode
  | "auto" => some .auto | "on" => some .on | "off" => some .off | _ => none

def parseHDev (w : String) : Option HoloFill.HDev :=
  match w.splitOn ":" with
  | [e, n, f] => do
    let e ← e.toNat?; let n ← n.toNat?
    let f ← if f = "-" then some none
      else (f.toList.mapM fun c => if c = '0' then some false else if c = '1' then some true else none).map some
    if e ≤ 1 then pure { enable := e = 1, numTr := n, filter := f } else none
  | _ => none

def tagBytes : Option HoloFill.Tag → Array Nat
  | none => #[255, 255, 255, 255]
  | some (d, t, f) => #[d % 256, t % 256, (t / 256) % 256, f % 256]

def step (st : St) (line : String) : St × String :=
  match words line with
  | ["reset", _, n, mask, dirty] =>
    match n.toNat?, hexNat mask, dirty.toNat? with
    | some n, some mask, some dirty =>
      let tx := (Array.range n).map fun i =>
        ({ payload := if dirty = 0 then Array.replicate 622 0 else prBytes (dirty + i) 622 } : Tx)
      ({ en := maskBits n mask, tx := tx }, "ok")
    | _, _, _ => (st, "bad-op")
  | ["mask", mask] =>
    match hexNat mask with
    | some mask => ({ st with en := maskBits st.en.length mask }, "ok")
    | none => (st, "bad-op")
  | "send" :: seed :: ws =>
    -- the sizes checked when the generator is built do not depend on the device: parse for device 0
    match seed.toNat?, FwS.parseOps ws 0, (devices st.en).mapM (FwS.parseOps ws) with
    | some seed, some (a, b), some _ =>
      -- the parse of every enabled device succeeded (checked above), so the fallback of `gen` is never used
      answerOf st (send (fun _ => numTr) st.en (schedOf seed) 100000 (genCheckPair a.dg b.dg)
        (fun d => (FwS.parseOps ws d).getD (Op.ofDg .null, Op.ofDg .null)) st.tx)
    | _, _, _ => (st, "bad-op")
  | "gsend" :: seed :: keys :: "|" :: ws =>
    match seed.toNat?, parseKeys keys with
    | some seed, some keys =>
      let dgs := splitAt ";" ws
      let used := (List.range dgs.length).filter fun k => (ParPack.groupFilter st.en keys k).any id
      let ok := keys.length = st.en.length ∧
        (keys.all fun k => match k with | none => true | some k => k < dgs.length) ∧
        (devices st.en).all fun d => dgs.all fun ws => (FwS.parseOps ws d).isSome
      if ok then
        match groupOps st.en keys (fun k d => (FwS.parseOps (dgs.getD k []) d).getD (Op.ofDg .null, Op.ofDg .null)) used with
        | some ops => runSend st seed ops.toArray
        | none => (st, "panic")
      else (st, "bad-op")
    | _, _ => (st, "bad-op")
  | ["decide", mode, mask, n, thr] =>
    match modeOf mode, hexNat mask, n.toNat?, (if thr = "max" then some usizeMax else thr.toNat?) with
    | some m, some mask, some n, some thr =>
      (st, s!"par={if sendDecision m (maskBits n mask) thr then 1 else 0}")
    | _, _, _, _ => (st, "bad-op")
  | "thr" :: ws =>
    match FwS.parseOps ws 0 with
    | some (a, b) =>
      let t := thresholdPair (thresholdOf a.dg) (thresholdOf b.dg)
      (st, if t = usizeMax then "T=max" else s!"T={t}")
    | none => (st, "bad-op")
  | "holo" :: m :: hf :: order :: ds =>
    match m.toNat?, hf.toNat?, order.toNat?, ds.mapM parseHDev with
    | some m, some hf, some order, some devs =>
      if hf ≤ 1 then
        let tasks := HoloFill.enabledDevs devs
        let tasks := if order = 0 then tasks else shuffle (prBytes order tasks.length).toList tasks
        match HoloFill.fill (hf = 1) m devs tasks with
        | .ok buf => (st, s!"H={fnv64 (buf.foldl (fun acc c => acc ++ tagBytes c) #[])}")
        | .error _ => (st, "panic")
      else (st, "bad-op")
    | _, _, _, _ => (st, "bad-op")
  | _ => (st, "bad-op")

end Autd3.Drv.C10
