import Autd3.Model.Group
import Autd3.Drv.Common
/-! `group` stream:
`gs n=<devices> en=<bits> km=<key char per device, '-' = none>
 map=<k=g<id>[!][@t<ms>p<thr|max>] | k=m<id>.<len>[!][@t<ms>p<thr|max>]>,…
 order=<k,k,…> fault=<none|s<i>|r<i>|d<k>|n<s>> api=<sync|sync-ctl|async|async-ctl>
 [to=<none|ms> pm=<auto|on|off> [cont=1]]` → `R <result>`;
`ps n= en= dg=<datagram> fault=<none|s<i>|r<i>> api= to= pm= [cont=1]` (plain `send`) → `R <result>`;
then `flags` → `E <before>><after>`, `visited` → `V …`, `log` → `F …`, `obs` → `O …`, `opt` → `P …`
about that call. `cont=1`: the call runs on the controller of the previous `gs`/`ps` line (device
read-back accumulates); otherwise on a fresh one.

`@t<ms>p<thr>` is the datagram's `option()` (default: what `derive(Gain)` / `derive(Modulation)`
declare: 20 ms / 4 and 200 ms / usize::MAX); `to`/`pm` are `SenderOption::{timeout, parallel}`.
`d<k>`: every acknowledgement arrives with the (k+1)-th receive; `n<s>`: from transmission `s` on no
acknowledgement arrives. Both are resolved here with `Group.aggOptions`/`effTimeout`: under a zero
effective timeout nothing is waited for, otherwise `d<k>` costs k extra receives per frame set and
`n<s>` ends the call like a failing receive, reported as `err:confirm`. -/
namespace Autd3.Drv.C13
open Autd3.Group Autd3.Drv

structure St where
  last : Option (Geometry × Outcome) := none
  /-- per device of the current controller: read-back, and the device tag of the last gain frame -/
  obs : List (Obs × Nat) := []
  confirm : Bool := false
  opt : String := "P - final=- polls=-"

def init : St := {}

def kv (w : String) : Option (String × String) :=
  match w.splitOn "=" with
  | k :: v :: rest => some (k, "=".intercalate (v :: rest))
  | _ => none

def parseBits (s : String) : Option (List Bool) :=
  s.toList.mapM fun c => if c = '1' then some true else if c = '0' then some false else none

def parseKm (s : String) : Option (List (Option Key)) :=
  s.toList.mapM fun c =>
    if c = '-' then some none
    else if '0' ≤ c ∧ c ≤ '9' then some (some (c.toNat - '0'.toNat))
    else none

def parseDg (t : String) : Option Dg :=
  let (t, fail) := if t.endsWith "!" then ((t.dropEnd 1).toString, true) else (t, false)
  match t.toList with
  | 'g' :: rest => (String.ofList rest).toNat?.map fun id => { kind := .gain, id := id, len := 0, genFail := fail }
  | 'm' :: rest =>
    match (String.ofList rest).splitOn "." with
    | [a, b] => do
      let id ← a.toNat?
      let len ← b.toNat?
      pure { kind := .mod, id := id, len := len, genFail := fail }
    | _ => none
  | _ => none

def defaultOpt (d : Dg) : DgOpt :=
  match d.kind with
  | .gain => { timeout := 20, parThr := 4 }
  | .mod => { timeout := 200, parThr := usizeMax }

def parseOptTok (s : String) : Option DgOpt :=
  match s.toList with
  | 't' :: rest =>
    match (String.ofList rest).splitOn "p" with
    | [a, b] => do
      let t ← a.toNat?
      let p ← if b = "max" then some usizeMax else b.toNat?
      pure { timeout := t, parThr := p }
    | _ => none
  | _ => none

def parseDgO (t : String) : Option (Dg × DgOpt) :=
  match t.splitOn "@" with
  | [b] => (parseDg b).map fun d => (d, defaultOpt d)
  | [b, o] => do
    let d ← parseDg b
    let o ← parseOptTok o
    pure (d, o)
  | _ => none

def parseMapO (s : String) : Option (List (Key × Dg × DgOpt)) :=
  if s = "-" then some []
  else (s.splitOn ",").mapM fun e =>
    match e.splitOn "=" with
    | [k, d] => do
      let k ← k.toNat?
      let d ← parseDgO d
      pure (k, d)
    | _ => none

def parseMap (s : String) : Option (List (Key × Dg)) :=
  if s = "-" then some []
  else (s.splitOn ",").mapM fun e =>
    match e.splitOn "=" with
    | [k, d] => do
      let k ← k.toNat?
      let d ← parseDg d
      pure (k, d)
    | _ => none

def parseList (s : String) : Option (List Nat) :=
  if s = "-" then some [] else (s.splitOn ",").mapM String.toNat?

def parseFault (s : String) : Option Fault :=
  if s = "none" then some .none
  else match s.toList with
    | 's' :: r => (String.ofList r).toNat?.map Fault.send
    | 'r' :: r => (String.ofList r).toNat?.map Fault.recv
    | _ => none

/-- link behaviour of a line: a model fault, delayed acknowledgements, no acknowledgements -/
inductive LFault
  | model (f : Fault)
  | delay (k : Nat)
  | noack (s : Nat)

def parseLFault (s : String) : Option LFault :=
  match parseFault s with
  | some f => some (.model f)
  | none =>
    match s.toList with
    | 'd' :: r => (String.ofList r).toNat?.map LFault.delay
    | 'n' :: r => (String.ofList r).toNat?.map LFault.noack
    | _ => none

def parseTo (s : String) : Option (Option Nat) :=
  if s = "none" then some none else s.toNat?.map some

def parsePm (s : String) : Option ParMode :=
  if s = "auto" then some .auto else if s = "on" then some .on else if s = "off" then some .off else none

def bitsStr (l : List Bool) : String := String.ofList (l.map fun b => if b then '1' else '0')

def joinOr (xs : List String) (sep : String) (empty : String) : String :=
  if xs.isEmpty then empty else sep.intercalate xs

def sortNat (l : List Nat) : List Nat := (l.toArray.qsort (· < ·)).toList

def errStr : Err → String
  | .unknownKey k => s!"err:unknown:{k}"
  | .unusedKey ks => "err:unused:" ++ joinOr ((sortNat ks).map toString) "," "-"
  | .gen id => s!"err:gen:{id}"
  | .pack _ => "err:pack"
  | .link => "err:link"
  | .panic => "panic"
  | .fuel => "fuel"

def frameStr (f : Frame) : String :=
  match f.dg.kind with
  | .gain => s!"{f.dev}:g{f.dg.id}.{maskNat f.seen % 256}.{f.dev + 1}"
  | .mod => s!"{f.dev}:m{f.dg.id}#{f.idx}" ++ (if f.idx + 1 = f.dg.nframes then "e" else "")

def obsStr (o : Obs × Nat) : String := s!"g{o.1.gId}.{o.1.gMask}.{o.2}/m{o.1.mFirst}.{o.1.mLen}"

/-- the iteration order as a function on the filter list; `none` unless `order` is a permutation of its keys -/
def permOf (order : List Key) (fs : List (Key × Filter)) : Option (List (Key × Filter)) :=
  let keys := fs.map (·.1)
  if order.length = keys.length ∧ order.Nodup ∧ order.all (keys.contains ·) then
    some (order.filterMap fun k => (fs.lookup k).map fun f => (k, f))
  else none

structure Ans where
  geo : Geometry
  o : Outcome
  confirm : Bool
  opt : String
  cont : Bool

def baseKeys : List String := ["n", "en", "km", "map", "order", "fault", "api"]
def plainKeys : List String := ["n", "en", "dg", "fault", "api", "to", "pm"]

/-- first transmission from `s` on that carries a new frame -/
def firstAwaited (log : List (List Frame)) (s : Nat) : Option Nat :=
  ((List.range log.length).filter fun j => s ≤ j ∧ !(log.getD j []).isEmpty).head?

def pollsStr (log : List (List Frame)) (lf : LFault) (eff : Nat) (confirm : Bool) : String :=
  joinOr ((List.range log.length).map fun j =>
    if confirm ∧ j + 1 = log.length then "*"
    else match lf with
      | .delay k => if eff = 0 ∨ (log.getD j []).isEmpty then "1" else toString (k + 1)
      | _ => "1") "," "-"

def runCase (ws : List String) : Option Ans := do
  let kvs ← ws.mapM kv
  let get (k : String) : Option String := kvs.lookup k
  let keys := kvs.map (·.1)
  guard (keys = baseKeys ∨ keys = baseKeys ++ ["to", "pm"] ∨ keys = baseKeys ++ ["to", "pm", "cont"])
  let n ← (← get "n").toNat?
  let en ← parseBits (← get "en")
  let km ← parseKm (← get "km")
  let dmapO ← parseMapO (← get "map")
  let order ← parseList (← get "order")
  let lf ← parseLFault (← get "fault")
  let api ← get "api"
  let to ← match get "to" with | some s => parseTo s | none => some (some 5)
  let pm ← match get "pm" with | some s => parsePm s | none => some .off
  let cont ← match get "cont" with | some s => (if s = "1" then some true else none) | none => some false
  guard (en.length = n ∧ km.length = n ∧ 0 < n)
  let dmap : List (Key × Dg) := dmapO.map fun e => (e.1, e.2.1)
  guard ((dmap.map (·.1)).Nodup)
  guard (["sync", "sync-ctl", "async", "async-ctl"].contains api)
  -- the shortcut apis run with the default sender option
  guard (¬ (api = "sync-ctl" ∨ api = "async-ctl") ∨ get "to" = none ∨ (to = none ∧ pm = .auto))
  let geo := mkGeometry en
  let kmf : Nat → Option Key := fun i => (km[i]?).join
  match buildFilters geo kmf with
  | .error e => pure { geo := geo, o := { result := .error e, geo := geo, log := [], visited := [] }, confirm := false, opt := "P - final=- polls=-", cont := cont }
  | .ok fs =>
    let fs' ← permOf order fs
    let o0 := groupSendWith true fs' geo dmap .none
    let optOf (k : Key) : Option DgOpt := (dmapO.lookup k).map (·.2)
    let agg := aggOptions (o0.visited.filterMap optOf)
    let eff := effTimeout to agg
    let (fault, confirm) : Fault × Bool :=
      match lf with
      | .model f => (f, false)
      | .delay _ => (.none, false)
      | .noack s =>
        if eff = 0 then (.none, false)
        else match firstAwaited o0.log s with
          | some j => (.recv j, true)
          | none => (.none, false)
    let o := groupSendWith true fs' geo dmap fault
    let pOf (k : Key) : String :=
      let size := ((fs'.lookup k).getD []).count true
      let thr := ((optOf k).map (·.parThr)).getD usizeMax
      s!"{k}:{if pm.isParallel size thr then 1 else 0}"
    let reached : Bool :=
      match o.result with
      | .error (.unknownKey _) => false
      | .error (.unusedKey _) => false
      | .error (.gen _) => false
      | .error .panic => false
      | _ => true
    let final := if reached ∧ !fs'.isEmpty then (if pm.isParallel (numDevices geo) agg.parThr then "1" else "0") else "-"
    let opt := "P " ++ joinOr (o.visited.map pOf) "," "-" ++ s!" final={final} polls=" ++ pollsStr o.log lf eff confirm
    pure { geo := geo, o := o, confirm := confirm, opt := opt, cont := cont }

def runPlain (ws : List String) : Option Ans := do
  let kvs ← ws.mapM kv
  let get (k : String) : Option String := kvs.lookup k
  let keys := kvs.map (·.1)
  guard (keys = plainKeys ∨ keys = plainKeys ++ ["cont"])
  let n ← (← get "n").toNat?
  let en ← parseBits (← get "en")
  let (d, dopt) ← parseDgO (← get "dg")
  let fault ← parseFault (← get "fault")
  let to ← parseTo (← get "to")
  let pm ← parsePm (← get "pm")
  let cont ← match get "cont" with | some s => (if s = "1" then some true else none) | none => some false
  guard (en.length = n ∧ 0 < n)
  let geo := mkGeometry en
  let r := send geo d fault
  let par := pm.isParallel (numDevices geo) dopt.parThr
  let _ := to
  let opt := s!"P 0:{if par then 1 else 0} final=" ++ (if (devices geo).isEmpty ∨ d.genFail then "-" else if par then "1" else "0")
    ++ " polls=" ++ joinOr (r.2.map fun _ => "1") "," "-"
  pure { geo := geo, o := { result := r.1, geo := geo, log := r.2, visited := [] }, confirm := false, opt := opt, cont := cont }

/-- read-back of every device after the frames of `log`, starting from `prev` -/
def foldObs (geo : Geometry) (prev : List (Obs × Nat)) (log : List (List Frame)) : List (Obs × Nat) :=
  geo.map fun d =>
    let p := prev.getD d.idx (Obs.init, 0)
    (devFrames log d.idx).foldl
      (fun acc f => (acc.1.apply f, match f.dg.kind with | .gain => f.dev + 1 | .mod => acc.2)) p

def answer (st : St) (a : Option Ans) : St × String :=
  match a with
  | some a =>
    if a.cont ∧ st.obs.length ≠ a.geo.length then ({ }, "bad-op")
    else
      let prev := if a.cont then st.obs else []
      ({ last := some (a.geo, a.o), obs := foldObs a.geo prev a.o.log, confirm := a.confirm, opt := a.opt },
       "R " ++ (match a.o.result with
                | .ok _ => "ok"
                | .error e => if a.confirm ∧ e = .link then "err:confirm" else errStr e))
  | none => ({ }, "bad-op")

def step (st : St) (line : String) : St × String :=
  match words line with
  | "gs" :: ws => answer st (runCase ws)
  | "ps" :: ws => answer st (runPlain ws)
  | ["flags"] =>
    match st.last with
    | some (geo, o) => (st, s!"E {bitsStr (geo.map (·.enable))}>{bitsStr (o.geo.map (·.enable))}")
    | none => (st, "bad-op")
  | ["visited"] =>
    match st.last with
    | some (_, o) => (st, "V " ++ joinOr (o.visited.map toString) "," "-")
    | none => (st, "bad-op")
  | ["log"] =>
    match st.last with
    | some (_, o) => (st, "F " ++ joinOr (o.log.map fun r => joinOr (r.map frameStr) " " ".") " | " "-")
    | none => (st, "bad-op")
  | ["obs"] =>
    match st.last with
    | some _ => (st, "O " ++ " ".intercalate (st.obs.map obsStr))
    | none => (st, "bad-op")
  | ["opt"] =>
    match st.last with
    | some _ => (st, st.opt)
    | none => (st, "bad-op")
  | _ => (st, "bad-op")

end Autd3.Drv.C13
