import Autd3.Model.Group
import Autd3.Drv.Common
/-! `group` stream:
`gs n=<devices> en=<bits> km=<key char per device, '-' = none> map=<k=g<id>[!] | k=m<id>.<len>[!]>,…
 order=<k,k,…> fault=<none|s<i>|r<i>> api=<sync|sync-ctl|async|async-ctl>` → `R <result>`;
then `flags` → `E <before>><after>`, `visited` → `V …`, `log` → `F …`, `obs` → `O …` about that call. -/
namespace Autd3.Drv.C13
open Autd3.Group Autd3.Drv

structure St where
  last : Option (Geometry × Outcome) := none

def init : St := {}

def kv (w : String) : Option (String × String) :=
  match w.splitOn "=" with
  | k :: v :: rest => some (k, "=".intercalate (v :: rest))
  | _ => none

def parseBits (s : String) : Option (List Bool) :=
  s.toList.mapM fun c => if c = '1' then some true else if c = '0' then some false else none

def parseKm (s : String) : Option (List (Option Key)) :=
  s.toList.mapM fun c =>
    if c = '-' then some none
    else if '0' ≤ c ∧ c ≤ '9' then some (some (c.toNat - '0'.toNat))
    else none

def parseDg (t : String) : Option Dg :=
  let (t, fail) := if t.endsWith "!" then ((t.dropEnd 1).toString, true) else (t, false)
  match t.toList with
  | 'g' :: rest => (String.ofList rest).toNat?.map fun id => { kind := .gain, id := id, len := 0, genFail := fail }
  | 'm' :: rest =>
    match (String.ofList rest).splitOn "." with
    | [a, b] => do
      let id ← a.toNat?
      let len ← b.toNat?
      pure { kind := .mod, id := id, len := len, genFail := fail }
    | _ => none
  | _ => none

def parseMap (s : String) : Option (List (Key × Dg)) :=
  if s = "-" then some []
  else (s.splitOn ",").mapM fun e =>
    match e.splitOn "=" with
    | [k, d] => do
      let k ← k.toNat?
      let d ← parseDg d
      pure (k, d)
    | _ => none

def parseList (s : String) : Option (List Nat) :=
  if s = "-" then some [] else (s.splitOn ",").mapM String.toNat?

def parseFault (s : String) : Option Fault :=
  if s = "none" then some .none
  else match s.toList with
    | 's' :: r => (String.ofList r).toNat?.map Fault.send
    | 'r' :: r => (String.ofList r).toNat?.map Fault.recv
    | _ => none

def bitsStr (l : List Bool) : String := String.ofList (l.map fun b => if b then '1' else '0')

def joinOr (xs : List String) (sep : String) (empty : String) : String :=
  if xs.isEmpty then empty else sep.intercalate xs

def sortNat (l : List Nat) : List Nat := (l.toArray.qsort (· < ·)).toList

def errStr : Err → String
  | .unknownKey k => s!"err:unknown:{k}"
  | .unusedKey ks => "err:unused:" ++ joinOr ((sortNat ks).map toString) "," "-"
  | .gen id => s!"err:gen:{id}"
  | .pack _ => "err:pack"
  | .link => "err:link"
  | .panic => "panic"
  | .fuel => "fuel"

def frameStr (f : Frame) : String :=
  match f.dg.kind with
  | .gain => s!"{f.dev}:g{f.dg.id}.{maskNat f.seen % 256}"
  | .mod => s!"{f.dev}:m{f.dg.id}#{f.idx}" ++ (if f.idx + 1 = f.dg.nframes then "e" else "")

def obsStr (o : Obs) : String := s!"g{o.gId}.{o.gMask}/m{o.mFirst}.{o.mLen}"

/-- the iteration order as a function on the filter list; `none` unless `order` is a permutation of its keys -/
def permOf (order : List Key) (fs : List (Key × Filter)) : Option (List (Key × Filter)) :=
  let keys := fs.map (·.1)
  if order.length = keys.length ∧ order.Nodup ∧ order.all (keys.contains ·) then
    some (order.filterMap fun k => (fs.lookup k).map fun f => (k, f))
  else none

def runCase (ws : List String) : Option (Geometry × Outcome) := do
  let kvs ← ws.mapM kv
  let get (k : String) : Option String := kvs.lookup k
  guard (kvs.map (·.1) = ["n", "en", "km", "map", "order", "fault", "api"])
  let n ← (← get "n").toNat?
  let en ← parseBits (← get "en")
  let km ← parseKm (← get "km")
  let dmap ← parseMap (← get "map")
  let order ← parseList (← get "order")
  let fault ← parseFault (← get "fault")
  let api ← get "api"
  guard (en.length = n ∧ km.length = n ∧ 0 < n)
  guard ((dmap.map (·.1)).Nodup)
  guard (["sync", "sync-ctl", "async", "async-ctl"].contains api)
  let geo := mkGeometry en
  let kmf : Nat → Option Key := fun i => (km[i]?).join
  match buildFilters geo kmf with
  | .error e => pure (geo, { result := .error e, geo := geo, log := [], visited := [] })
  | .ok fs =>
    let fs' ← permOf order fs
    pure (geo, groupSendWith true fs' geo dmap fault)

def step (st : St) (line : String) : St × String :=
  match words line with
  | "gs" :: ws =>
    match runCase ws with
    | some (geo, o) =>
      ({ last := some (geo, o) }, "R " ++ (match o.result with | .ok _ => "ok" | .error e => errStr e))
    | none => ({ last := none }, "bad-op")
  | ["flags"] =>
    match st.last with
    | some (geo, o) => (st, s!"E {bitsStr (geo.map (·.enable))}>{bitsStr (o.geo.map (·.enable))}")
    | none => (st, "bad-op")
  | ["visited"] =>
    match st.last with
    | some (_, o) => (st, "V " ++ joinOr (o.visited.map toString) "," "-")
    | none => (st, "bad-op")
  | ["log"] =>
    match st.last with
    | some (_, o) => (st, "F " ++ joinOr (o.log.map fun r => joinOr (r.map frameStr) " " ".") " | " "-")
    | none => (st, "bad-op")
  | ["obs"] =>
    match st.last with
    | some (geo, o) => (st, "O " ++ " ".intercalate (geo.map fun d => obsStr (devObs o.log d.idx)))
    | none => (st, "bad-op")
  | _ => (st, "bad-op")

end Autd3.Drv.C13
