import Autd3.Model.Foci
import Autd3.Drv.Common
/-! `foci` stream (C07).  `f32` values travel as 8 hex digits (bit pattern).  Request lines (answers):

* `pose <px> <py> <pz> <qw> <qi> <qj> <qk> <c>`   requested position, the stored (normalised) rotation
      quaternion and the sound speed of the device                                   (`ok`)
* `trs <249 × 24 hex>`        stored global position of every transducer: each must be admissible for
      `pos + R(q)·grid_i`; remembered for the following lines           (`ok` / `bad tr=<i>`)
* `ss <cw>`                   sound-speed word on the wire admissible for `c`       (`ok` / `bad`)
* `focus <px> <py> <pz> <off> <intensity> <249 × 4 hex>`   read-back drives (phase, intensity) of a
      Focus gain: every phase byte in the admissible set, every intensity as requested
                                         (`ok` / `bad tr=<i> got=<b> admissible=<b,…>` / `bad-intensity tr=<i>`)
* `rec <px> <py> <pz> <16 hex>`   wire record admissible for the global point under the pose
                                                                          (`ok` / `bad`)
* `io <intensity> <off>…`     record bytes the driver must write          (`<byte>…`)
* `fw <cw> <16 hex>…`         firmware drives of one pattern, all 249 transducers
                                         (`<249 × 4 hex: phase, intensity>` / `panic`)

Several devices in one geometry (each with its own pose and sound speed; one datagram reaches all of them):
* `rig`                       forget the kept devices                                        (`ok`)
* `keep`                      keep the current device (its `pose` and `trs`) as the next index (`ok`)
* `dev <k>`                   make kept device `k` the current one: the following `ss`/`rec`/`focus`
      lines are judged against *its* pose, transducers and sound speed                     (`ok`)
-/
namespace Autd3.Drv.C07
open Autd3.Foci Autd3.Drv Autd3.Gen.Foci

structure Kept where
  pos : V3
  q : Quat
  c : Int
  trs : Array V3

structure St where
  kept : Array Kept := #[]
  pos : V3 := ⟨0, 0, 0⟩
  q : Quat := ⟨1, 0, 0, 0⟩
  c : Int := 0
  hasPose : Bool := false
  trs : Array V3 := #[]

def init : St := {}

def f32Hex (s : String) : Option Int := do
  if s.length ≠ 8 then none
  let b ← hexNat s
  f32Scaled b

def v3Hex (a b c : String) : Option V3 := do
  pure ⟨← f32Hex a, ← f32Hex b, ← f32Hex c⟩

/-- 24 hex digits per transducer -/
def parseTrs (s : String) : Option (Array V3) := do
  if s.length ≠ 24 * NUM_TRANS_IN_UNIT then none
  let cs := s.toList.toArray
  let mut out : Array V3 := Array.mkEmpty NUM_TRANS_IN_UNIT
  for i in [0:NUM_TRANS_IN_UNIT] do
    let w (k : Nat) : String := String.ofList ((cs.extract (24 * i + 8 * k) (24 * i + 8 * k + 8)).toList)
    out := out.push (← v3Hex (w 0) (w 1) (w 2))
  pure out

def firstBad (n : Nat) (p : Nat → Bool) : Option Nat := (List.range n).find? (fun i => !p i)

def step (st : St) (line : String) : St × String :=
  match words line with
  | ["pose", px, py, pz, qw, qi, qj, qk, c] =>
    match v3Hex px py pz, f32Hex qw, f32Hex qi, f32Hex qj, f32Hex qk, f32Hex c with
    | some pos, some w, some i, some j, some k, some c =>
      let q : Quat := ⟨w, i, j, k⟩
      if q.n2 = 0 ∨ c ≤ 0 then (st, "bad-op")
      else ({ st with pos := pos, q := q, c := c, hasPose := true, trs := #[] }, "ok")
    | _, _, _, _, _, _ => (st, "bad-op")
  | ["rig"] => ({ st with kept := #[] }, "ok")
  | ["keep"] =>
    if !st.hasPose ∨ st.trs.size ≠ NUM_TRANS_IN_UNIT then (st, "bad-op")
    else ({ st with kept := st.kept.push ⟨st.pos, st.q, st.c, st.trs⟩ }, "ok")
  | ["dev", k] =>
    match k.toNat? with
    | some k =>
      match st.kept[k]? with
      | some d => ({ st with pos := d.pos, q := d.q, c := d.c, hasPose := true, trs := d.trs }, "ok")
      | none => (st, "bad-op")
    | none => (st, "bad-op")
  | ["trs", h] =>
    if !st.hasPose then (st, "bad-op") else
    match parseTrs h with
    | some ts =>
      match firstBad NUM_TRANS_IN_UNIT (fun i => trOk st.q st.pos i (ts.getD i ⟨0, 0, 0⟩)) with
      | none => ({ st with trs := ts }, "ok")
      | some i => ({ st with trs := ts }, s!"bad tr={i}")
    | none => (st, "bad-op")
  | ["ss", cw] =>
    match cw.toNat? with
    | some cw => if !st.hasPose ∨ cw ≥ 65536 then (st, "bad-op") else (st, if ssOk cw st.c then "ok" else "bad")
    | none => (st, "bad-op")
  | ["focus", px, py, pz, off, inten, h] =>
    match v3Hex px py pz, off.toNat?, inten.toNat?, hexBytes h with
    | some p, some off, some inten, some bs =>
      if st.trs.size ≠ NUM_TRANS_IN_UNIT ∨ bs.size ≠ 2 * NUM_TRANS_IN_UNIT ∨ off ≥ 256 ∨ inten ≥ 256 then (st, "bad-op")
      else
        let adm (i : Nat) : List Nat := focusBytes ((p.sub (st.trs.getD i ⟨0, 0, 0⟩)).norm2) st.c off
        match firstBad NUM_TRANS_IN_UNIT (fun i => (adm i).contains (bs.getD (2 * i) 0)) with
        | some i => (st, s!"bad tr={i} got={bs.getD (2 * i) 0} admissible={",".intercalate ((adm i).map toString)}")
        | none =>
          match firstBad NUM_TRANS_IN_UNIT (fun i => bs.getD (2 * i + 1) 0 == inten) with
          | some i => (st, s!"bad-intensity tr={i}")
          | none => (st, "ok")
    | _, _, _, _ => (st, "bad-op")
  | ["rec", px, py, pz, w] =>
    match v3Hex px py pz, (if w.length = 16 then hexNat w else none) with
    | some p, some w =>
      if st.trs.size ≠ NUM_TRANS_IN_UNIT then (st, "bad-op")
      else (st, if recOk st.q (st.trs.getD 0 ⟨0, 0, 0⟩) p (Rec.ofWord w) then "ok" else "bad")
    | _, _ => (st, "bad-op")
  | "io" :: inten :: offs =>
    match inten.toNat?, nats offs with
    | some inten, some offs =>
      if inten ≥ 256 ∨ offs.any (· ≥ 256) ∨ offs.isEmpty then (st, "bad-op")
      else (st, joinNats (ioBytes inten offs))
    | _, _ => (st, "bad-op")
  | "fw" :: cw :: ws =>
    match cw.toNat?, ws.mapM (fun w => if w.length = 16 then hexNat w else none) with
    | some cw, some ws =>
      if cw ≥ 65536 then (st, "bad-op") else
      match fwDrives cw (ws.map Rec.ofWord) NUM_TRANS_IN_UNIT with
      | .ok ds =>
        (st, bytesHex (ds.flatMap (fun d => [d.1, d.2])).toArray)
      | .error _ => (st, "panic")
    | _, _ => (st, "bad-op")
  | _ => (st, "bad-op")

end Autd3.Drv.C07
