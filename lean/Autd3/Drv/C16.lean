import Autd3.Model.Modulation
import Autd3.Drv.Common
/-!
`modgen` stream (C16).  Tokens: mode `E<u32>` | `F<f32 bits, hex>` | `N<f32 bits, hex>`;
config `d<division>` | `x` (a `SamplingConfig` whose `division()` fails); floats travel as hex bit
patterns; observations of the implementation that are only *checked* (sample values of
`Sine`/`Fourier`) travel in the op line as `<hex samples>` | `r` (range error) | `-` (nothing).

```
sinelen <mode> <cfg>                                           → cfg=<c> len=<n> | cfg=<c> err:<kind>
sine <mode> <cfg> <intensity> <offset> <phase> <clamp> <obs>   → cfg=<c> len=<n> within | cfg=<c> err:<kind>
square <mode> <cfg> <low> <high> <duty>                        → cfg=<c> len=<n> hi=<k> h=<fnv64> | …
squarelen <mode> <cfg> <low> <high> <duty>                     → cfg=<c> len=<n> hi=<k>
fourier <k> {<mode> <cfg> <int> <off> <phase>}^k <scale|n> <clamp> <offset> <obs>
                                                               → cfg=<c> len=<L> within | cfg=<c> err:<kind>
wrap <uses> <inner> <layer>…                                   → cfg=<c> <use>|<use>…
    inner: C <cfg> <hex> | Q <mode> <cfg> <low> <high> <duty>
    layer: rp | box | cache | fir:<bits>,<bits>,…
    use:   ok:<hex> (≤ 48 samples) | ok:len=<n>:h=<fnv64> | err:<kind> | panic
```
-/
namespace Autd3.Drv.C16
open Autd3.Flt Autd3.Modulation Autd3.Drv

structure St where
  unit : Unit := ()

def init : St := {}

def errName : MErr → String
  | .config => "config" | .nyquist => "nyquist" | .zero => "zero" | .negative => "negative"
  | .noExact => "no-exact" | .nan => "nan" | .duty => "duty" | .range => "range" | .empty => "empty"
  | .cfgMismatch => "cfg-mismatch" | .size => "size"

def failName : Fail → String
  | .err e => "err:" ++ errName e
  | .panic => "panic"

def hex32 (s : String) : Option Nat := if s.length = 8 then hexNat s else none

def parseMode (s : String) : Option Mode :=
  match s.toList with
  | 'E' :: r => (String.ofList r).toNat?.bind fun f => if f < 2 ^ 32 then some (.exact f) else none
  | 'F' :: r => (hex32 (String.ofList r)).map fun b => .exactF (ofBits32 b)
  | 'N' :: r => (hex32 (String.ofList r)).map fun b => .nearest (ofBits32 b)
  | _ => none

def parseCfg (s : String) : Option Cfg :=
  match s.toList with
  | ['x'] => some none
  | 'd' :: r => (String.ofList r).toNat?.bind fun d => if 0 < d ∧ d < 65536 then some (some d) else none
  | _ => none

def cfgName : Cfg → String
  | none => "cfg=x"
  | some d => s!"cfg={d}"

def parseByte (s : String) : Option Nat := s.toNat?.bind fun v => if v < 256 then some v else none
def parseBool (s : String) : Option Bool := if s = "0" then some false else if s = "1" then some true else none
def parseFl (s : String) : Option Fl := (hex32 s).map ofBits32

inductive Obs where
  | none
  | range
  | samples (a : Array Nat)

def parseObs (s : String) : Option Obs :=
  if s = "-" then some .none else if s = "r" then some .range else (hexBytes s).map .samples

/-- compare an observation with the admissible levels `lv i` of the `n` samples -/
def verdict (n : Nat) (clamp : Bool) (lv : Nat → Option (Int × Int)) (obs : Obs) : String :=
  match obs with
  | .none => s!"len={n} no-obs"
  | .range =>
    if clamp then "err:range-inadmissible(clamp)"
    else if (List.range n).any (fun i => match lv i with
        | some (lo, hi) => lo < 0 || 255 < hi
        | none => true) then "err:range"
    else "err:range-inadmissible"
  | .samples a =>
    if a.size ≠ n then s!"len={n} obs-len={a.size}"
    else
      let bad := (List.range n).findSome? fun i =>
        match lv i, a[i]? with
        | some (lo, hi), some v =>
          -- admissible outputs: levels of [lo, hi] that pass the range test, or their clamp
          let ok : Bool :=
            if clamp then
              let cl := if lo < 0 then 0 else if 255 < lo then 255 else lo
              let ch := if hi < 0 then 0 else if 255 < hi then 255 else hi
              decide (cl ≤ (v : Int)) && decide ((v : Int) ≤ ch)
            else decide (lo ≤ (v : Int)) && decide ((v : Int) ≤ hi)
          if ok then Option.none else some s!"outside@{i}:v={v}:adm={lo}..{hi}"
        | Option.none, _ => some "unmodelled"
        | _, Option.none => some "bad-index"
      match bad with
      | some m => s!"len={n} {m}"
      | Option.none => s!"len={n} within"

def toHex16 (n : Nat) : String :=
  String.ofList ((List.range 16).reverse.map fun i =>
    let d := (n >>> (4 * i)) % 16
    if d < 10 then Char.ofNat (48 + d) else Char.ofNat (87 + d))

def useStr : R (List Nat) → String
  | .ok buf =>
    if buf.length ≤ 48 then "ok:" ++ bytesHex buf.toArray
    else s!"ok:len={buf.length}:h={toHex16 (fnv64 buf.toArray)}"
  | .error e => failName e

inductive Layer where
  | rp | box | fir (coef : Array Fl)
  | cache (st : Cache)

def parseLayer (s : String) : Option Layer :=
  if s = "rp" then some .rp else if s = "box" then some .box
  else if s = "cache" then some (.cache { cfg := none, m := none, cache := [], err := none })
  else match s.splitOn ":" with
    | ["fir", cs] =>
      let toks := if cs = "" then [] else cs.splitOn ","
      (toks.mapM parseFl).map fun l => .fir l.toArray
    | _ => none

/-- build the wrapper chain over `inner` (a `Cache` reads the configuration when it is created) -/
def build (inner : Mod) : List Layer → List Layer × Mod
  | [] => ([], inner)
  | l :: rest =>
    let (l', m') := match l with
      | .rp => (Layer.rp, radiationPressure inner)
      | .box => (Layer.box, boxed inner)
      | .fir c => (Layer.fir c, fir inner c)
      | .cache _ => (Layer.cache (Cache.new inner), { cfg := inner.cfg, run := inner.run })
    let (ls, m) := build m' rest
    (l' :: ls, m)

/-- one use of the whole chain: every layer recomputes from the layer below, a cache layer
answers from (and updates) its shared state -/
def useChain (below : R (List Nat)) (cfg : Cfg) : List Layer → List Layer × R (List Nat)
  | [] => ([], below)
  | l :: rest =>
    let (l', r) := match l with
      | .rp => (Layer.rp, (radiationPressure { cfg := cfg, run := below }).run)
      | .box => (Layer.box, (boxed { cfg := cfg, run := below }).run)
      | .fir c => (Layer.fir c, (fir { cfg := cfg, run := below } c).run)
      | .cache st =>
        -- the target held by an uninitialised cache is the chain below it
        let st := match st.m with
          | some m => { st with m := some { m with run := below } }
          | none => st
        let (st', r) := st.use
        (Layer.cache st', r)
    let (ls, out) := useChain r cfg rest
    (l' :: ls, out)

def parseInner : List String → Option (Mod × List String)
  | "C" :: c :: h :: rest => do
    let c ← parseCfg c
    let b ← if h = "-" then some #[] else hexBytes h
    pure ({ cfg := c, run := .ok b.toList }, rest)
  | "Q" :: m :: c :: lo :: hi :: d :: rest => do
    let p : SquareP := { mode := ← parseMode m, cfg := ← parseCfg c, low := ← parseByte lo, high := ← parseByte hi, duty := ← parseFl d }
    pure ({ cfg := p.cfg, run := squareCalc p }, rest)
  | _ => none

def parseComps : Nat → List String → Option (List SineP × List String)
  | 0, rest => some ([], rest)
  | k + 1, m :: c :: i :: o :: ph :: rest => do
    let p : SineP := { mode := ← parseMode m, cfg := ← parseCfg c, intensity := ← parseByte i, offset := ← parseByte o, phase := ← parseFl ph, clamp := false }
    let (ps, rest) ← parseComps k rest
    pure (p :: ps, rest)
  | _, _ => none

def stepO (line : String) : Option String :=
  match words line with
  | ["sinelen", m, c] => do
    let m ← parseMode m
    let c ← parseCfg c
    match validate m c with
    | .ok (n, _) => pure s!"{cfgName c} len={n}"
    | .error e => pure s!"{cfgName c} {failName e}"
  | ["sine", m, c, i, o, ph, cl, obs] => do
    let p : SineP := { mode := ← parseMode m, cfg := ← parseCfg c, intensity := ← parseByte i, offset := ← parseByte o, phase := ← parseFl ph, clamp := ← parseBool cl }
    let obs ← parseObs obs
    match validate p.mode p.cfg with
    | .ok (n, rep) =>
      let pre := sinePre p
      pure s!"{cfgName p.cfg} {verdict n p.clamp (fun i => some (sineLevels n rep p pre i)) obs}"
    | .error e => pure s!"{cfgName p.cfg} {failName e}"
  | ["square", m, c, lo, hi, d] => do
    let p : SquareP := { mode := ← parseMode m, cfg := ← parseCfg c, low := ← parseByte lo, high := ← parseByte hi, duty := ← parseFl d }
    match squareCalc p with
    | .ok buf =>
      let nhi := (buf.filter (· = p.high)).length
      pure s!"{cfgName p.cfg} len={buf.length} hi={nhi} h={toHex16 (fnv64 buf.toArray)}"
    | .error e => pure s!"{cfgName p.cfg} {failName e}"
  | ["squarelen", m, c, lo, hi, d] => do
    let p : SquareP := { mode := ← parseMode m, cfg := ← parseCfg c, low := ← parseByte lo, high := ← parseByte hi, duty := ← parseFl d }
    if !((Fl.fin 0).le p.duty && p.duty.le (.fin 1)) then pure s!"{cfgName p.cfg} err:duty"
    else match (do let (n, rep) ← validate p.mode p.cfg; let r ← squareRuns n rep p.duty; pure (r.foldl (fun a x => a + x.1 + x.2) 0, r.foldl (fun a x => a + x.1) 0) : R (Nat × Nat)) with
    | .ok (len, nhi) => pure s!"{cfgName p.cfg} len={len} hi={if p.low = p.high then len else nhi}"
    | .error e => pure s!"{cfgName p.cfg} {failName e}"
  | "fourier" :: k :: rest => do
    let k ← k.toNat?
    if k > 8 then none
    let (comps, rest) ← parseComps k rest
    match rest with
    | [sc, cl, off, obs] =>
      let scale ← if sc = "n" then some Option.none else (parseFl sc).map some
      let p : FourierP := { comps := comps, scale := scale, clamp := ← parseBool cl, offset := ← parseByte off }
      let obs ← parseObs obs
      let c := fourierCfg p
      match fourierPlan p with
      | .ok (lens, len) =>
        let pres := fourierPre p
        pure s!"{cfgName c} {verdict len p.clamp (fun t => fourierLevels p lens pres t) obs}"
      | .error e => pure s!"{cfgName c} {failName e}"
    | _ => none
  | "wrap" :: uses :: rest => do
    let uses ← uses.toNat?
    if uses = 0 ∨ uses > 8 then none
    let (inner, rest) ← parseInner rest
    let layers ← rest.mapM parseLayer
    let (layers, top) := build inner layers
    let (_, outs) := (List.range uses).foldl (fun (ls, acc) _ =>
      let (ls', r) := useChain inner.run inner.cfg ls
      (ls', acc ++ [useStr r])) (layers, ([] : List String))
    pure s!"{cfgName top.cfg} {"|".intercalate outs}"
  | _ => none

def step (st : St) (line : String) : St × String :=
  match stepO line with
  | some a => (st, a)
  | none => (st, "bad-op")

end Autd3.Drv.C16
