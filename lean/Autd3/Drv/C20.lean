import Autd3.Model.Lightweight
import Autd3.Drv.Common
/-! `lw` stream (C20). S-expression line protocol; `~` = absent optional field, `f32` values as bit patterns.

```
defaults <dflt>                 the SDK's `Default` values (read from the real impls by the harness)   → ok
tomsg <tuple>                   client conversion `lightweight::Datagram::into_lightweight`             → ok <mtuple> | err <kind>
soptmsg <sopt>                  client conversion `From<&SenderOption<S>> for pb::SenderOption`          → ok <msopt>
leaf <kind> <msg>               one public `FromMessage::from_msg` impl                                 → ok <value> | err <kind>
    kind = gain | mod | sil | swap | foci <N> | gstm | sc | tr | lb | sopt
srv <numDev> <msend>            `LightweightServer::send`: parse (and generate for every device)         → ok | status <kind> | panic
gsrv <numDev> <mgroup>          `LightweightServer::group_send` up to the controller call               → ok | len-mismatch | status <kind> | panic
```
Grammar of `<tuple>`, `<mtuple>` …: see the header of `harness/src/c20.rs` (same on both sides).
-/
namespace Autd3.Drv.C20
open Autd3.Lw Autd3.Drv

inductive Sx
  | atom (s : String)
  | list (xs : List Sx)
  deriving Inhabited

def tokenize (s : String) : List String :=
  let (acc, cur) := s.toList.foldl (fun (st : List String × List Char) c =>
    let (acc, cur) := st
    let flush := if cur.isEmpty then acc else String.ofList cur.reverse :: acc
    if c = '(' then ("(" :: flush, [])
    else if c = ')' then (")" :: flush, [])
    else if c = ' ' ∨ c = '\n' ∨ c = '\r' ∨ c = '\t' then (flush, [])
    else (acc, c :: cur)) ([], [])
  (if cur.isEmpty then acc else String.ofList cur.reverse :: acc).reverse

/-- stack of open lists (reversed); returns the sequence of top-level expressions -/
def parseToks : List String → List (List Sx) → List Sx → Option (List Sx)
  | [], [], top => some top.reverse
  | [], _ :: _, _ => none
  | "(" :: ts, stack, cur => parseToks ts (cur :: stack) []
  | ")" :: ts, parent :: stack, cur => parseToks ts stack (Sx.list cur.reverse :: parent)
  | ")" :: _, [], _ => none
  | t :: ts, stack, cur => parseToks ts stack (Sx.atom t :: cur)

def parseLine (s : String) : Option (List Sx) := parseToks (tokenize s) [] []

/-! ### decoders -/
def nat? : Sx → Option Nat
  | .atom s => s.toNat?
  | _ => none
def int? : Sx → Option Int
  | .atom s => s.toInt?
  | _ => none
def bool? : Sx → Option Bool
  | .atom "0" => some false
  | .atom "1" => some true
  | _ => none
def opt {α : Type} (f : Sx → Option α) : Sx → Option (Option α)
  | .atom "~" => some none
  | s => (f s).map some
def lst {α : Type} (f : Sx → Option α) : Sx → Option (List α)
  | .list (.atom "l" :: xs) => xs.mapM f
  | _ => none

def dP3 : Sx → Option P3
  | .list [.atom "p", x, y, z] => do pure ⟨← nat? x, ← nat? y, ← nat? z⟩
  | _ => none

def dSc : Sx → Option SamplingCfg
  | .list [.atom "div", n] => do pure (.division (← nat? n))
  | .list [.atom "freq", n] => do pure (.freq (← nat? n))
  | .list [.atom "freqn", n] => do pure (.freqNearest (← nat? n))
  | .list [.atom "per", n] => do pure (.period (← nat? n))
  | .list [.atom "pern", n] => do pure (.periodNearest (← nat? n))
  | _ => none
def dMScV : Sx → Option MSamplingV
  | .list [.atom "div", n] => do pure (.division (← nat? n))
  | .list [.atom "freq", n] => do pure (.freq (← nat? n))
  | .list [.atom "freqn", n] => do pure (.freqNearest (← nat? n))
  | .list [.atom "per", n] => do pure (.period (← nat? n))
  | .list [.atom "pern", n] => do pure (.periodNearest (← nat? n))
  | _ => none
def dMSc : Sx → Option MSampling
  | .list [.atom "sc", v] => do pure ⟨← opt dMScV v⟩
  | _ => none

def dTr : Sx → Option Transition
  | .list [.atom "sidx"] => some .syncIdx
  | .list [.atom "sys", t] => do pure (.sysTime (← nat? t))
  | .list [.atom "gpio", g] => do pure (.gpio (← nat? g))
  | .list [.atom "ext"] => some .ext
  | .list [.atom "imm"] => some .immediate
  | _ => none
def dMTrV : Sx → Option MTransitionV
  | .list [.atom "sidx"] => some .syncIdx
  | .list [.atom "sys", t] => do pure (.sysTime (← nat? t))
  | .list [.atom "gpio", g] => do pure (.gpio (← int? g))
  | .list [.atom "ext"] => some .ext
  | .list [.atom "imm"] => some .immediate
  | _ => none
def dMTr : Sx → Option MTransition
  | .list [.atom "tr", v] => do pure ⟨← opt dMTrV v⟩
  | _ => none

def dLb : Sx → Option Loop
  | .list [.atom "inf"] => some .infinite
  | .list [.atom "fin", r] => do pure (.finite (← nat? r))
  | _ => none
def dMLbV : Sx → Option MLoopV
  | .list [.atom "inf"] => some .infinite
  | .list [.atom "fin", r] => do pure (.finite (← nat? r))
  | _ => none
def dMLb : Sx → Option MLoop
  | .list [.atom "lb", v] => do pure ⟨← opt dMLbV v⟩
  | _ => none

def dIp : Sx → Option IPOpt
  | .list [.atom "o", i, p] => do pure ⟨← nat? i, ← nat? p⟩
  | _ => none
def dMIp : Sx → Option MIPOpt
  | .list [.atom "o", i, p] => do pure ⟨← opt nat? i, ← opt nat? p⟩
  | _ => none

def dCons : Sx → Option Constraint
  | .list [.atom "norm"] => some .normalize
  | .list [.atom "mul", v] => do pure (.multiply (← nat? v))
  | .list [.atom "uni", v] => do pure (.uniform (← nat? v))
  | .list [.atom "clamp", a, b] => do pure (.clamp (← nat? a) (← nat? b))
  | _ => none
def dMConsV : Sx → Option MConstraintV
  | .list [.atom "norm"] => some .normalize
  | .list [.atom "mul", v] => do pure (.multiply (← nat? v))
  | .list [.atom "uni", v] => do pure (.uniform (← opt nat? v))
  | .list [.atom "clamp", a, b] => do pure (.clamp (← opt nat? a) (← opt nat? b))
  | _ => none
def dMCons : Sx → Option MConstraint
  | .list [.atom "c", v] => do pure ⟨← opt dMConsV v⟩
  | _ => none

def dHolo : Sx → Option (P3 × Nat)
  | .list [.atom "h", p, a] => do pure (← dP3 p, ← nat? a)
  | _ => none
def dMHolo : Sx → Option MHolo
  | .list [.atom "h", p, a] => do pure ⟨← opt dP3 p, ← opt nat? a⟩
  | _ => none

def dGain : Sx → Option Gain
  | .list [.atom "focus", p, o] => do pure (.focus (← dP3 p) (← dIp o))
  | .list [.atom "bessel", p, d, t, o] => do pure (.bessel (← dP3 p) (← dP3 d) (← nat? t) (← dIp o))
  | .list [.atom "plane", d, o] => do pure (.plane (← dP3 d) (← dIp o))
  | .list [.atom "uniform", i, p] => do pure (.uniform (← nat? i) (← nat? p))
  | .list [.atom "null"] => some .null
  | .list [.atom "naive", f, c] => do pure (.naive (← lst dHolo f) (← dCons c))
  | .list [.atom "gs", f, c, r] => do pure (.gs (← lst dHolo f) (← dCons c) (← nat? r))
  | .list [.atom "gspat", f, c, r] => do pure (.gspat (← lst dHolo f) (← dCons c) (← nat? r))
  | .list [.atom "lm", f, c, e1, e2, tau, k, ini] => do
    pure (.lm (← lst dHolo f) (← dCons c) (← nat? e1) (← nat? e2) (← nat? tau) (← nat? k) (← lst nat? ini))
  | .list [.atom "greedy", f, c, pd] => do pure (.greedy (← lst dHolo f) (← dCons c) (← nat? pd))
  | _ => none

def dMGainV : Sx → Option MGainV
  | .list [.atom "focus", p, o] => do pure (.focus (← opt dP3 p) (← opt dMIp o))
  | .list [.atom "bessel", p, d, t, o] => do pure (.bessel (← opt dP3 p) (← opt dP3 d) (← opt nat? t) (← opt dMIp o))
  | .list [.atom "plane", d, o] => do pure (.plane (← opt dP3 d) (← opt dMIp o))
  | .list [.atom "uniform", i, p] => do pure (.uniform (← opt nat? i) (← opt nat? p))
  | .list [.atom "null"] => some .null
  | .list [.atom "naive", f, o] => do
    let o ← opt (fun | .list [.atom "no", c] => do pure (⟨← opt dMCons c⟩ : MNaiveOpt) | _ => none) o
    pure (.naive (← lst dMHolo f) o)
  | .list [.atom "gs", f, o] => do
    let o ← opt (fun | .list [.atom "go", c, r] => do pure (⟨← opt dMCons c, ← opt nat? r⟩ : MGsOpt) | _ => none) o
    pure (.gs (← lst dMHolo f) o)
  | .list [.atom "gspat", f, o] => do
    let o ← opt (fun | .list [.atom "go", c, r] => do pure (⟨← opt dMCons c, ← opt nat? r⟩ : MGsOpt) | _ => none) o
    pure (.gspat (← lst dMHolo f) o)
  | .list [.atom "lm", f, o] => do
    let o ← opt (fun
      | .list [.atom "lo", c, e1, e2, tau, k, ini] => do
        pure (⟨← opt dMCons c, ← opt nat? e1, ← opt nat? e2, ← opt nat? tau, ← opt nat? k, ← lst nat? ini⟩ : MLmOpt)
      | _ => none) o
    pure (.lm (← lst dMHolo f) o)
  | .list [.atom "greedy", f, o] => do
    let o ← opt (fun | .list [.atom "gro", c, pd] => do pure (⟨← opt dMCons c, ← opt nat? pd⟩ : MGreedyOpt) | _ => none) o
    pure (.greedy (← lst dMHolo f) o)
  | _ => none
def dMGain : Sx → Option MGain
  | .list [.atom "gain", v] => do pure ⟨← opt dMGainV v⟩
  | _ => none

def dSineO : Sx → Option SineOpt
  | .list [.atom "so", c, i, o, ph, cl] => do pure ⟨← nat? i, ← nat? o, ← nat? ph, ← bool? cl, ← dSc c⟩
  | _ => none
def dMSineO : Sx → Option MSineOpt
  | .list [.atom "so", c, i, o, ph, cl] => do
    pure ⟨← opt dMSc c, ← opt nat? i, ← opt nat? o, ← opt nat? ph, ← opt bool? cl⟩
  | _ => none
def dSqO : Sx → Option SquareOpt
  | .list [.atom "qo", c, lo, hi, d] => do pure ⟨← nat? lo, ← nat? hi, ← nat? d, ← dSc c⟩
  | _ => none
def dMSqO : Sx → Option MSquareOpt
  | .list [.atom "qo", c, lo, hi, d] => do pure ⟨← opt dMSc c, ← opt nat? lo, ← opt nat? hi, ← opt nat? d⟩
  | _ => none

def dMod : Sx → Option Modulation
  | .list [.atom "static", i] => do pure (.static (← nat? i))
  | .list [.atom "sine_e", f, o] => do pure (.sineExact (← nat? f) (← dSineO o))
  | .list [.atom "sine_f", f, o] => do pure (.sineExactFloat (← nat? f) (← dSineO o))
  | .list [.atom "sine_n", f, o] => do pure (.sineNearest (← nat? f) (← dSineO o))
  | .list [.atom "sq_e", f, o] => do pure (.squareExact (← nat? f) (← dSqO o))
  | .list [.atom "sq_f", f, o] => do pure (.squareExactFloat (← nat? f) (← dSqO o))
  | .list [.atom "sq_n", f, o] => do pure (.squareNearest (← nat? f) (← dSqO o))
  | _ => none
def dMModV : Sx → Option MModulationV
  | .list [.atom "static", i] => do pure (.static (← opt nat? i))
  | .list [.atom "sine_e", f, o] => do pure (.sineExact (← nat? f) (← opt dMSineO o))
  | .list [.atom "sine_f", f, o] => do pure (.sineExactFloat (← nat? f) (← opt dMSineO o))
  | .list [.atom "sine_n", f, o] => do pure (.sineNearest (← nat? f) (← opt dMSineO o))
  | .list [.atom "sq_e", f, o] => do pure (.squareExact (← nat? f) (← opt dMSqO o))
  | .list [.atom "sq_f", f, o] => do pure (.squareExactFloat (← nat? f) (← opt dMSqO o))
  | .list [.atom "sq_n", f, o] => do pure (.squareNearest (← nat? f) (← opt dMSqO o))
  | _ => none
def dMMod : Sx → Option MModulation
  | .list [.atom "mod", v] => do pure ⟨← opt dMModV v⟩
  | _ => none

def dSil : Sx → Option Silencer
  | .list [.atom "rate", i, p] => do pure (.rate (← nat? i) (← nat? p))
  | .list [.atom "steps", i, p, s] => do pure (.steps (← nat? i) (← nat? p) (← bool? s))
  | .list [.atom "time", i, p, s] => do pure (.time (← nat? i) (← nat? p) (← bool? s))
  | _ => none
def dMSilV : Sx → Option MSilencerV
  | .list [.atom "rate", i, p] => do pure (.rate (← nat? i) (← nat? p))
  | .list [.atom "steps", i, p, s] => do pure (.steps (← opt nat? i) (← opt nat? p) (← opt bool? s))
  | .list [.atom "time", i, p, s] => do pure (.time (← opt nat? i) (← opt nat? p) (← opt bool? s))
  | _ => none
def dMSil : Sx → Option MSilencer
  | .list [.atom "sil", v] => do pure ⟨← opt dMSilV v⟩
  | _ => none

def dKind : Sx → Option SwapKind
  | .atom "g" => some .gain
  | .atom "m" => some .modulation
  | .atom "f" => some .foci
  | .atom "s" => some .gainStm
  | _ => none
def dSwap : Sx → Option Swap
  | .list [.atom "swap", k, s, t] => do pure ⟨← dKind k, ← nat? s, ← dTr t⟩
  | _ => none
def dMSwap : Sx → Option MSwap
  | .list [.atom "swap", v] => do
    let v ← opt (fun | .list [k, s, t] => do pure (⟨← dKind k, ← int? s, ← opt dMTr t⟩ : MSwapV) | _ => none) v
    pure ⟨v⟩
  | _ => none

def dCp : Sx → Option ControlPoint
  | .list [.atom "cp", p, o] => do pure ⟨← dP3 p, ← nat? o⟩
  | _ => none
def dMCp : Sx → Option MControlPoint
  | .list [.atom "cp", p, o] => do pure ⟨← opt dP3 p, ← opt nat? o⟩
  | _ => none
def dCps : Sx → Option ControlPoints
  | .list [.atom "cps", ps, i] => do pure ⟨← lst dCp ps, ← nat? i⟩
  | _ => none
def dMCps : Sx → Option MControlPoints
  | .list [.atom "cps", ps, i] => do pure ⟨← lst dMCp ps, ← opt nat? i⟩
  | _ => none
def dFoci : Sx → Option FociStm
  | .list [.atom "foci", n, f, c] => do pure ⟨← nat? n, ← lst dCps f, ← dSc c⟩
  | _ => none
def dMFoci : Sx → Option MFociStm
  | .list [.atom "foci", f, c] => do pure ⟨← lst dMCps f, ← opt dMSc c⟩
  | _ => none
def dGStm : Sx → Option GainStm
  | .list [.atom "gstm", g, c, m] => do pure ⟨← lst dGain g, ← dSc c, ← nat? m⟩
  | _ => none
def dMGStm : Sx → Option MGainStm
  | .list [.atom "gstm", g, c, o] => do
    let o ← opt (fun | .list [.atom "gso", m] => do pure (⟨← opt int? m⟩ : MGainStmOpt) | _ => none) o
    pure ⟨← lst dMGain g, ← opt dMSc c, o⟩
  | _ => none

def head? : Sx → Option String
  | .list (.atom h :: _) => some h
  | _ => none

def gainTags : List String := ["focus", "bessel", "plane", "uniform", "null", "naive", "gs", "gspat", "lm", "greedy"]
def modTags : List String := ["static", "sine_e", "sine_f", "sine_n", "sq_e", "sq_f", "sq_n"]

def dSegInner (s : Sx) : Option SegInner := do
  let h ← head? s
  if gainTags.contains h then pure (.gain (← dGain s))
  else if modTags.contains h then pure (.modulation (← dMod s))
  else if h = "foci" then pure (.foci (← dFoci s))
  else if h = "gstm" then pure (.gainStm (← dGStm s))
  else none
def dLoopInner (s : Sx) : Option LoopInner := do
  let h ← head? s
  if modTags.contains h then pure (.modulation (← dMod s))
  else if h = "foci" then pure (.foci (← dFoci s))
  else if h = "gstm" then pure (.gainStm (← dGStm s))
  else none
def dMSegInner (s : Sx) : Option MSegInner := do
  match ← head? s with
  | "gain" => pure (.gain (← dMGain s))
  | "mod" => pure (.modulation (← dMMod s))
  | "foci" => pure (.foci (← dMFoci s))
  | "gstm" => pure (.gainStm (← dMGStm s))
  | _ => none
def dMLoopInner (s : Sx) : Option MLoopInner := do
  match ← head? s with
  | "mod" => pure (.modulation (← dMMod s))
  | "foci" => pure (.foci (← dMFoci s))
  | "gstm" => pure (.gainStm (← dMGStm s))
  | _ => none

def dDg (s : Sx) : Option Dg := do
  let h ← head? s
  match h, s with
  | "clear", .list [_] => pure .clear
  | "sync", .list [_] => pure .sync
  | "fan", .list [_, v] => pure (.forceFan (← lst bool? v))
  | "reads", .list [_, v] => pure (.readsFpga (← lst bool? v))
  | "wseg", .list [_, i, seg, t] => pure (.withSegment (← dSegInner i) (← nat? seg) (← opt dTr t))
  | "wloop", .list [_, i, lb, seg, t] => pure (.withLoop (← dLoopInner i) (← dLb lb) (← nat? seg) (← opt dTr t))
  | "swap", _ => pure (.swap (← dSwap s))
  | "foci", _ => pure (.foci (← dFoci s))
  | "gstm", _ => pure (.gainStm (← dGStm s))
  | _, _ =>
    if h = "rate" ∨ h = "steps" ∨ h = "time" then pure (.silencer (← dSil s))
    else if gainTags.contains h then pure (.gain (← dGain s))
    else if modTags.contains h then pure (.modulation (← dMod s))
    else none

def dMDgV (s : Sx) : Option MDatagramV := do
  match ← head? s, s with
  | "clear", .list [_] => pure .clear
  | "sync", .list [_] => pure .sync
  | "fan", .list [_, v] => pure (.forceFan (← lst bool? v))
  | "reads", .list [_, v] => pure (.readsFpga (← lst bool? v))
  | "sil", _ => pure (.silencer (← dMSil s))
  | "swap", _ => pure (.swap (← dMSwap s))
  | "mod", _ => pure (.modulation (← dMMod s))
  | "gain", _ => pure (.gain (← dMGain s))
  | "foci", _ => pure (.foci (← dMFoci s))
  | "gstm", _ => pure (.gainStm (← dMGStm s))
  | "wseg", .list [_, i, seg, t] => pure (.withSegment ⟨← opt dMSegInner i, ← int? seg, ← opt dMTr t⟩)
  | "wloop", .list [_, i, lb, seg, t] => pure (.withLoop ⟨← opt dMLoopInner i, ← opt dMLb lb, ← int? seg, ← opt dMTr t⟩)
  | _, _ => none
def dMDg : Sx → Option MDatagram
  | .list [.atom "d", v] => do pure ⟨← opt dMDgV v⟩
  | _ => none

def dTuple : Sx → Option Tuple
  | .list [.atom "t1", d] => do pure (.one (← dDg d))
  | .list [.atom "t2", a, b] => do pure (.two (← dDg a) (← dDg b))
  | _ => none
def dMTuple : Sx → Option MTuple
  | .list [.atom "tuple", a, b] => do pure ⟨← opt dMDg a, ← opt dMDg b⟩
  | _ => none

def dMSleeper : Sx → Option MSleeper
  | .list [.atom "std", r] => do pure (.std (← opt nat? r))
  | .list [.atom "spin", a, s] => do pure (.spin (← nat? a) (← int? s))
  | .list [.atom "wait"] => some .waitable
  | .list [.atom "async", r] => do pure (.async (← opt nat? r))
  | _ => none
def dMSopt : Sx → Option MSenderOpt
  | .list [.atom "sopt", s, r, t, p, sl] => do
    pure ⟨← nat? s, ← nat? r, ← opt nat? t, ← int? p, ← opt dMSleeper sl⟩
  | _ => none
def dSleeper : Sx → Option Sleeper
  | .list [.atom "std", r] => do pure (.std (← opt nat? r))
  | .list [.atom "spin", a, s] => do pure (.spin (← nat? a) (← nat? s))
  | .list [.atom "async", r] => do pure (.async (← opt nat? r))
  | _ => none
def dSopt : Sx → Option SenderOpt
  | .list [.atom "sopt", s, r, t, p, sl] => do
    pure ⟨← nat? s, ← nat? r, ← opt nat? t, ← nat? p, ← dSleeper sl⟩
  | _ => none
def dMSend : Sx → Option MSendReq
  | .list [.atom "send", t, o] => do pure ⟨← opt dMTuple t, ← opt dMSopt o⟩
  | _ => none
def dMGroup : Sx → Option MGroupReq
  | .list [.atom "gsend", ks, ds, o] => do pure ⟨← lst int? ks, ← lst dMTuple ds, ← opt dMSopt o⟩
  | _ => none

def dDefaults : Sx → Option Defaults
  | .list [.atom "dflt", fo, be, pl, nc, gc, gr, pc, pr, lc, le1, le2, lt, lk, grc, grp, so, qo, st, si, sp, ss, ti, tp, ts, cpo, cpi, gm] => do
    pure { focus := ← dIp fo, bessel := ← dIp be, plane := ← dIp pl, naiveC := ← dCons nc, gsC := ← dCons gc,
           gsRepeat := ← nat? gr, gspatC := ← dCons pc, gspatRepeat := ← nat? pr, lmC := ← dCons lc,
           lmEps1 := ← nat? le1, lmEps2 := ← nat? le2, lmTau := ← nat? lt, lmKMax := ← nat? lk,
           greedyC := ← dCons grc, greedyPhaseDiv := ← nat? grp, sine := ← dSineO so, square := ← dSqO qo,
           staticIntensity := ← nat? st, stepsIntensity := ← nat? si, stepsPhase := ← nat? sp, stepsStrict := ← bool? ss,
           timeIntensityNs := ← nat? ti, timePhaseNs := ← nat? tp, timeStrict := ← bool? ts,
           cpOffset := ← nat? cpo, cpsIntensity := ← nat? cpi, gainStmMode := ← nat? gm }
  | _ => none

/-! ### encoders -/
def eOpt {α : Type} (f : α → String) : Option α → String
  | none => "~"
  | some a => f a
def eList {α : Type} (f : α → String) (l : List α) : String :=
  "(l" ++ String.join (l.map fun a => " " ++ f a) ++ ")"
def eNat (n : Nat) : String := toString n
def eInt (n : Int) : String := toString n
def eBool (b : Bool) : String := if b then "1" else "0"

def eP3 (p : P3) : String := s!"(p {p.x} {p.y} {p.z})"
def eSc : SamplingCfg → String
  | .division n => s!"(div {n})"
  | .freq n => s!"(freq {n})"
  | .freqNearest n => s!"(freqn {n})"
  | .period n => s!"(per {n})"
  | .periodNearest n => s!"(pern {n})"
def eMSc (m : MSampling) : String :=
  "(sc " ++ eOpt (fun
    | .division n => s!"(div {n})"
    | .freq n => s!"(freq {n})"
    | .freqNearest n => s!"(freqn {n})"
    | .period n => s!"(per {n})"
    | .periodNearest n => s!"(pern {n})") m.variant ++ ")"
def eTr : Transition → String
  | .syncIdx => "(sidx)"
  | .sysTime t => s!"(sys {t})"
  | .gpio g => s!"(gpio {g})"
  | .ext => "(ext)"
  | .immediate => "(imm)"
def eMTr (m : MTransition) : String :=
  "(tr " ++ eOpt (fun
    | .syncIdx => "(sidx)"
    | .sysTime t => s!"(sys {t})"
    | .gpio g => s!"(gpio {g})"
    | .ext => "(ext)"
    | .immediate => "(imm)") m.mode ++ ")"
def eLb : Loop → String
  | .infinite => "(inf)"
  | .finite r => s!"(fin {r})"
def eMLb (m : MLoop) : String :=
  "(lb " ++ eOpt (fun | .infinite => "(inf)" | .finite r => s!"(fin {r})") m.variant ++ ")"
def eIp (o : IPOpt) : String := s!"(o {o.intensity} {o.phaseOffset})"
def eMIp (o : MIPOpt) : String := s!"(o {eOpt eNat o.intensity} {eOpt eNat o.phaseOffset})"
def eCons : Constraint → String
  | .normalize => "(norm)"
  | .multiply v => s!"(mul {v})"
  | .uniform v => s!"(uni {v})"
  | .clamp a b => s!"(clamp {a} {b})"
def eMCons (m : MConstraint) : String :=
  "(c " ++ eOpt (fun
    | .normalize => "(norm)"
    | .multiply v => s!"(mul {v})"
    | .uniform v => s!"(uni {eOpt eNat v})"
    | .clamp a b => s!"(clamp {eOpt eNat a} {eOpt eNat b})") m.variant ++ ")"
def eHolo (h : P3 × Nat) : String := s!"(h {eP3 h.1} {h.2})"
def eMHolo (h : MHolo) : String := s!"(h {eOpt eP3 h.pos} {eOpt eNat h.amp})"

def eGain : Gain → String
  | .focus p o => s!"(focus {eP3 p} {eIp o})"
  | .bessel p d t o => s!"(bessel {eP3 p} {eP3 d} {t} {eIp o})"
  | .plane d o => s!"(plane {eP3 d} {eIp o})"
  | .uniform i p => s!"(uniform {i} {p})"
  | .null => "(null)"
  | .naive f c => s!"(naive {eList eHolo f} {eCons c})"
  | .gs f c r => s!"(gs {eList eHolo f} {eCons c} {r})"
  | .gspat f c r => s!"(gspat {eList eHolo f} {eCons c} {r})"
  | .lm f c e1 e2 tau k ini => s!"(lm {eList eHolo f} {eCons c} {e1} {e2} {tau} {k} {eList eNat ini})"
  | .greedy f c pd => s!"(greedy {eList eHolo f} {eCons c} {pd})"

def eMGainV : MGainV → String
  | .focus p o => s!"(focus {eOpt eP3 p} {eOpt eMIp o})"
  | .bessel p d t o => s!"(bessel {eOpt eP3 p} {eOpt eP3 d} {eOpt eNat t} {eOpt eMIp o})"
  | .plane d o => s!"(plane {eOpt eP3 d} {eOpt eMIp o})"
  | .uniform i p => s!"(uniform {eOpt eNat i} {eOpt eNat p})"
  | .null => "(null)"
  | .naive f o => s!"(naive {eList eMHolo f} {eOpt (fun (o : MNaiveOpt) => s!"(no {eOpt eMCons o.constraint})") o})"
  | .gs f o => s!"(gs {eList eMHolo f} {eOpt (fun (o : MGsOpt) => s!"(go {eOpt eMCons o.constraint} {eOpt eNat o.repeatN})") o})"
  | .gspat f o => s!"(gspat {eList eMHolo f} {eOpt (fun (o : MGsOpt) => s!"(go {eOpt eMCons o.constraint} {eOpt eNat o.repeatN})") o})"
  | .lm f o => s!"(lm {eList eMHolo f} {eOpt (fun (o : MLmOpt) => s!"(lo {eOpt eMCons o.constraint} {eOpt eNat o.eps1} {eOpt eNat o.eps2} {eOpt eNat o.tau} {eOpt eNat o.kMax} {eList eNat o.initial})") o})"
  | .greedy f o => s!"(greedy {eList eMHolo f} {eOpt (fun (o : MGreedyOpt) => s!"(gro {eOpt eMCons o.constraint} {eOpt eNat o.phaseDiv})") o})"
def eMGain (g : MGain) : String := s!"(gain {eOpt eMGainV g.gain})"

def eSineO (o : SineOpt) : String := s!"(so {eSc o.cfg} {o.intensity} {o.offset} {o.phase} {eBool o.clamp})"
def eMSineO (o : MSineOpt) : String :=
  s!"(so {eOpt eMSc o.config} {eOpt eNat o.intensity} {eOpt eNat o.offset} {eOpt eNat o.phase} {eOpt eBool o.clamp})"
def eSqO (o : SquareOpt) : String := s!"(qo {eSc o.cfg} {o.low} {o.high} {o.duty})"
def eMSqO (o : MSquareOpt) : String :=
  s!"(qo {eOpt eMSc o.config} {eOpt eNat o.low} {eOpt eNat o.high} {eOpt eNat o.duty})"
def eMod : Modulation → String
  | .static i => s!"(static {i})"
  | .sineExact f o => s!"(sine_e {f} {eSineO o})"
  | .sineExactFloat f o => s!"(sine_f {f} {eSineO o})"
  | .sineNearest f o => s!"(sine_n {f} {eSineO o})"
  | .squareExact f o => s!"(sq_e {f} {eSqO o})"
  | .squareExactFloat f o => s!"(sq_f {f} {eSqO o})"
  | .squareNearest f o => s!"(sq_n {f} {eSqO o})"
def eMModV : MModulationV → String
  | .static i => s!"(static {eOpt eNat i})"
  | .sineExact f o => s!"(sine_e {f} {eOpt eMSineO o})"
  | .sineExactFloat f o => s!"(sine_f {f} {eOpt eMSineO o})"
  | .sineNearest f o => s!"(sine_n {f} {eOpt eMSineO o})"
  | .squareExact f o => s!"(sq_e {f} {eOpt eMSqO o})"
  | .squareExactFloat f o => s!"(sq_f {f} {eOpt eMSqO o})"
  | .squareNearest f o => s!"(sq_n {f} {eOpt eMSqO o})"
def eMMod (m : MModulation) : String := s!"(mod {eOpt eMModV m.modulation})"

def eSil : Silencer → String
  | .rate i p => s!"(rate {i} {p})"
  | .steps i p s => s!"(steps {i} {p} {eBool s})"
  | .time i p s => s!"(time {i} {p} {eBool s})"
def eMSil (m : MSilencer) : String :=
  "(sil " ++ eOpt (fun
    | .rate i p => s!"(rate {i} {p})"
    | .steps i p s => s!"(steps {eOpt eNat i} {eOpt eNat p} {eOpt eBool s})"
    | .time i p s => s!"(time {eOpt eNat i} {eOpt eNat p} {eOpt eBool s})") m.config ++ ")"
def eKind : SwapKind → String
  | .gain => "g" | .modulation => "m" | .foci => "f" | .gainStm => "s"
def eSwap (s : Swap) : String := s!"(swap {eKind s.kind} {s.segment} {eTr s.transition})"
def eMSwap (m : MSwap) : String :=
  "(swap " ++ eOpt (fun (v : MSwapV) => s!"({eKind v.kind} {v.segment} {eOpt eMTr v.transitionMode})") m.variant ++ ")"
def eCp (c : ControlPoint) : String := s!"(cp {eP3 c.pos} {c.offset})"
def eMCp (c : MControlPoint) : String := s!"(cp {eOpt eP3 c.pos} {eOpt eNat c.offset})"
def eCps (c : ControlPoints) : String := s!"(cps {eList eCp c.points} {c.intensity})"
def eMCps (c : MControlPoints) : String := s!"(cps {eList eMCp c.points} {eOpt eNat c.intensity})"
def eFoci (f : FociStm) : String := s!"(foci {f.n} {eList eCps f.foci} {eSc f.cfg})"
def eMFoci (f : MFociStm) : String := s!"(foci {eList eMCps f.foci} {eOpt eMSc f.samplingConfig})"
def eGStm (g : GainStm) : String := s!"(gstm {eList eGain g.gains} {eSc g.cfg} {g.mode})"
def eMGStm (g : MGainStm) : String :=
  s!"(gstm {eList eMGain g.gains} {eOpt eMSc g.samplingConfig} {eOpt (fun (o : MGainStmOpt) => s!"(gso {eOpt eInt o.mode})") g.option})"

def eMSegInner : MSegInner → String
  | .gain g => eMGain g
  | .modulation m => eMMod m
  | .foci f => eMFoci f
  | .gainStm s => eMGStm s
def eMLoopInner : MLoopInner → String
  | .modulation m => eMMod m
  | .foci f => eMFoci f
  | .gainStm s => eMGStm s
def eMDgV : MDatagramV → String
  | .clear => "(clear)"
  | .sync => "(sync)"
  | .forceFan v => s!"(fan {eList eBool v})"
  | .readsFpga v => s!"(reads {eList eBool v})"
  | .silencer s => eMSil s
  | .swap s => eMSwap s
  | .modulation m => eMMod m
  | .gain g => eMGain g
  | .foci f => eMFoci f
  | .gainStm s => eMGStm s
  | .withSegment w => s!"(wseg {eOpt eMSegInner w.inner} {w.segment} {eOpt eMTr w.transitionMode})"
  | .withLoop w => s!"(wloop {eOpt eMLoopInner w.inner} {eOpt eMLb w.loopBehavior} {w.segment} {eOpt eMTr w.transitionMode})"
def eMDg (d : MDatagram) : String := s!"(d {eOpt eMDgV d.datagram})"
def eMTuple (t : MTuple) : String := s!"(tuple {eOpt eMDg t.first} {eOpt eMDg t.second})"

def eSleeper : Sleeper → String
  | .std r => s!"(std {eOpt eNat r})"
  | .spin a s => s!"(spin {a} {s})"
  | .async r => s!"(async {eOpt eNat r})"
def eSopt (o : SenderOpt) : String :=
  s!"(sopt {o.sendIntervalNs} {o.receiveIntervalNs} {eOpt eNat o.timeoutNs} {o.parallel} {eSleeper o.sleeper})"

def eMSleeper : MSleeper → String
  | .std r => s!"(std {eOpt eNat r})"
  | .spin a s => s!"(spin {a} {s})"
  | .waitable => "(wait)"
  | .async r => s!"(async {eOpt eNat r})"
def eMSopt (o : MSenderOpt) : String :=
  s!"(sopt {o.sendIntervalNs} {o.receiveIntervalNs} {eOpt eNat o.timeoutNs} {o.parallel} {eOpt eMSleeper o.sleeper})"

def gainKind : Gain → String
  | .focus .. => "focus" | .bessel .. => "bessel" | .plane .. => "plane" | .uniform .. => "uniform" | .null => "null"
  | .naive .. => "naive" | .gs .. => "gs" | .gspat .. => "gspat" | .lm .. => "lm" | .greedy .. => "greedy"
/-- the rebuilt `GainSTM` holds boxed gains: only their type is printed (each gain has its own `leaf gain` line) -/
def eGStmKinds (g : GainStm) : String := s!"(gstm {eList gainKind g.gains} {eSc g.cfg} {g.mode})"

def eErr : Err → String
  | .parse => "parse" | .int => "int" | .enumv => "enum" | .status => "status" | .driver => "driver" | .panic => "panic"

def answer {α : Type} (e : α → String) : R α → String
  | .ok a => "ok " ++ e a
  | .error .panic => "panic"
  | .error k => "err " ++ eErr k

def status {α : Type} (okText : α → String) : R α → String
  | .ok a => okText a
  | .error .panic => "panic"
  | .error k => "status " ++ eErr k

structure St where
  dflt : Defaults := Defaults.sdk

def init : St := {}

def leaf (D : Defaults) (kind : List Sx) (m : Sx) : Option String :=
  match kind with
  | [.atom "gain"] => do let v ← dMGainV m; pure (answer eGain (v.fromMsg D))
  | [.atom "mod"] => do let v ← dMModV m; pure (answer eMod (v.fromMsg D))
  | [.atom "sil"] => do let v ← dMSilV m; pure (answer eSil (Silencer.fromMsg D ⟨some v⟩))
  | [.atom "swap"] => do let v ← dMSwap m; pure (answer eSwap (Swap.fromMsg v))
  | [.atom "foci", n] => do
    let n ← nat? n
    let v ← dMFoci m
    pure (answer eFoci (FociStm.fromMsgN D n v))
  | [.atom "gstm"] => do let v ← dMGStm m; pure (answer eGStmKinds (GainStm.fromMsg D v))
  | [.atom "sc"] => do let v ← dMSc m; pure (answer eSc (SamplingCfg.fromMsg v))
  | [.atom "tr"] => do let v ← dMTr m; pure (answer eTr (Transition.fromMsg v))
  | [.atom "lb"] => do let v ← dMLb m; pure (answer eLb (Loop.fromMsg v))
  | [.atom "sopt"] => do let v ← dMSopt m; pure (answer eSopt (SenderOpt.fromMsg v))
  | _ => none

def step (st : St) (line : String) : St × String :=
  match parseLine line with
  | some [.atom "defaults", d] =>
    match dDefaults d with
    | some d => ({ st with dflt := d }, "ok")
    | none => (st, "bad-op")
  | some [.atom "tomsg", t] =>
    match dTuple t with
    | some t =>
      -- Recorded finding (known-findings.txt, C20:client-entry-point-unwraps): the client's real entry point
      -- `lightweight::Datagram::into_lightweight(self)` passes no geometry and unwraps the conversion result,
      -- so a per-device datagram (ForceFan, ReadsFPGAState) or a conversion error is a panic there. The
      -- harness goes through that entry point for single datagrams and typed (modulation, gain) pairs.
      let viaEntry := match t with
        | .one _ => true
        | .two (.modulation _) (.gain _) => true
        | _ => false
      let perDevice := match t with
        | .one (.forceFan _) => true
        | .one (.readsFpga _) => true
        | _ => false
      let failed := match t.toMsg with
        | .ok _ => false
        | .error _ => true
      if viaEntry && (perDevice || failed) then (st, "panic") else (st, answer eMTuple t.toMsg)
    | none => (st, "bad-op")
  | some [.atom "soptmsg", o] =>
    match dSopt o with
    | some o => (st, "ok " ++ eMSopt o.toMsg)
    | none => (st, "bad-op")
  | some (.atom "leaf" :: rest) =>
    match rest.reverse with
    | m :: kind =>
      match leaf st.dflt kind.reverse m with
      | some a => (st, a)
      | none => (st, "bad-op")
    | [] => (st, "bad-op")
  | some [.atom "srv", n, req] =>
    match nat? n, dMSend req with
    | some n, some req => (st, status (fun _ => "ok") (serve st.dflt n req))
    | _, _ => (st, "bad-op")
  | some [.atom "gsrv", n, req] =>
    match nat? n, dMGroup req with
    | some n, some req =>
      (st, status (fun | GroupOutcome.lengthMismatch => "len-mismatch" | .go .. => "ok") (serverGroup st.dflt n req))
    | _, _ => (st, "bad-op")
  | _ => (st, "bad-op")

end Autd3.Drv.C20
