import Autd3.Model.Sampling
import Autd3.Drv.Common
/-!
Streams `sampling` and `f32ops` (C06).  Floats travel as 8-digit hex bit patterns; durations as
decimal nanoseconds.  One answer token per input pattern.

`sampling`:
  `F h…`  `SamplingConfig::Freq(h).division()`            `N h…`  `FreqNearest`
  `P ns…` `SamplingConfig::Period(ns).division()`          `Q ns…` `PeriodNearest`
  `V <D|F|N|P|Q> x`  division, freq (bits), period (ns) of one configuration
  `SF n h…` / `SN n h…` / `SP n ns…` / `SQ n ns…` / `SD n d…`  `STMConfig::…(x).into_sampling_config(n)?.division()`
  `E <foci|gain> <D|F|N|P|Q> x n`  the same through the driver and the firmware emulator
  `E mod <D|F|N|P|Q> x`  `SamplingConfig::…(x)` as the rate of a modulation, read back from the emulator's
                          modulation division register (= `division`)
`f32ops`:
  `div a b` `mul a b` `ofnat n` `round a` `u16 a` `isint a` `le a b` `lt a b` `clamp x lo hi` `s24 a`
-/
namespace Autd3.Drv.C06
open Autd3 Autd3.F32 Autd3.Sampling Autd3.Drv

structure St where
  unit : Unit := ()

def init : St := {}

def hex32 (s : String) : Option Nat :=
  if s.length = 8 then hexNat s else none

def toHex8 (n : Nat) : String :=
  toHex2 ((n / 2 ^ 24) % 256) ++ toHex2 ((n / 2 ^ 16) % 256) ++ toHex2 ((n / 2 ^ 8) % 256) ++ toHex2 (n % 256)

def errTok : Err → String
  | .freqOutOfRange => "range"
  | .freqInvalid => "invalid"
  | .periodOutOfRange => "prange"
  | .periodInvalid => "pinvalid"
  | .stmPeriodInvalid => "stm-invalid"
  | .panic => "panic"

def resTok : Except Err Nat → String
  | .ok d => toString d
  | .error e => errTok e

def bitsTok (x : F32) : String :=
  match x.toBits with
  | some b => toHex8 b
  | none => "nan"

def freqTok : Except Err F32 → String
  | .ok f => bitsTok f
  | .error e => errTok e

def joinToks (xs : List String) : String := " ".intercalate xs

/-- a configuration from its kind letter and argument -/
def cfgOf (k x : String) : Option Cfg :=
  match k with
  | "D" => match x.toNat? with
    | some d => if 1 ≤ d ∧ d ≤ 65535 then some (.division d) else none
    | none => none
  | "F" => (hex32 x).map fun b => .freq (ofBits b)
  | "N" => (hex32 x).map fun b => .freqNearest (ofBits b)
  | "P" => x.toNat?.map .period
  | "Q" => x.toNat?.map .periodNearest
  | _ => none

def stmOf (k x : String) : Option StmCfg :=
  match k with
  | "D" => match x.toNat? with
    | some d => if 1 ≤ d ∧ d ≤ 65535 then some (.samplingConfig (.division d)) else none
    | none => none
  | "F" => (hex32 x).map fun b => .freq (ofBits b)
  | "N" => (hex32 x).map fun b => .freqNearest (ofBits b)
  | "P" => x.toNat?.map .period
  | "Q" => x.toNat?.map .periodNearest
  | _ => none

def many (k : String) (xs : List String) : String :=
  if xs.isEmpty then "bad-op"
  else match xs.mapM (cfgOf k) with
    | some cs => joinToks (cs.map fun c => resTok (division c))
    | none => "bad-op"

def manyStm (k n : String) (xs : List String) : String :=
  match n.toNat? with
  | none => "bad-op"
  | some n =>
    if xs.isEmpty then "bad-op"
    else match xs.mapM (stmOf k) with
      | some cs => joinToks (cs.map fun c => resTok (stmDivision c n))
      | none => "bad-op"

def bool01 (b : Bool) : String := if b then "1" else "0"

def answer (ws : List String) : String :=
  match ws with
  | "F" :: xs => many "F" xs
  | "N" :: xs => many "N" xs
  | "P" :: xs => many "P" xs
  | "Q" :: xs => many "Q" xs
  | ["V", k, x] =>
    match cfgOf k x with
    | some c => joinToks [resTok (division c), freqTok (freq c), resTok (period c)]
    | none => "bad-op"
  | "SF" :: n :: xs => manyStm "F" n xs
  | "SN" :: n :: xs => manyStm "N" n xs
  | "SP" :: n :: xs => manyStm "P" n xs
  | "SQ" :: n :: xs => manyStm "Q" n xs
  | "SD" :: n :: xs => manyStm "D" n xs
  | ["E", "mod", k, x] =>
    match cfgOf k x with
    | some c => resTok (division c)
    | none => "bad-op"
  | ["E", g, k, x, n] =>
    if g = "foci" ∨ g = "gain" then
      match stmOf k x, n.toNat? with
      | some c, some n => if 2 ≤ n then resTok (stmDivision c n) else "bad-op"
      | _, _ => "bad-op"
    else "bad-op"
  -- f32ops
  | ["div", a, b] =>
    match hex32 a, hex32 b with
    | some a, some b => bitsTok (F32.div (ofBits a) (ofBits b))
    | _, _ => "bad-op"
  | ["mul", a, b] =>
    match hex32 a, hex32 b with
    | some a, some b => bitsTok (F32.mul (ofBits a) (ofBits b))
    | _, _ => "bad-op"
  | ["ofnat", n] =>
    match n.toNat? with
    | some n => bitsTok (F32.ofNat n)
    | none => "bad-op"
  | ["round", a] =>
    match hex32 a with
    | some a => bitsTok (F32.roundHalfAway (ofBits a))
    | none => "bad-op"
  | ["u16", a] =>
    match hex32 a with
    | some a => toString (F32.toU16 (ofBits a))
    | none => "bad-op"
  | ["isint", a] =>
    match hex32 a with
    | some a => bool01 (F32.isInteger (ofBits a))
    | none => "bad-op"
  | ["le", a, b] =>
    match hex32 a, hex32 b with
    | some a, some b => bool01 (F32.le (ofBits a) (ofBits b))
    | _, _ => "bad-op"
  | ["lt", a, b] =>
    match hex32 a, hex32 b with
    | some a, some b => bool01 (F32.lt (ofBits a) (ofBits b))
    | _, _ => "bad-op"
  | ["clamp", x, lo, hi] =>
    match hex32 x, hex32 lo, hex32 hi with
    | some x, some lo, some hi =>
      if F32.le (ofBits lo) (ofBits hi) then bitsTok (F32.clamp (ofBits x) (ofBits lo) (ofBits hi))
      else "panic"
    | _, _, _ => "bad-op"
  | ["s24", a] =>
    match hex32 a with
    | some a => toString (scaled24 (ofBits a))
    | none => "bad-op"
  | _ => "bad-op"

def step (st : St) (line : String) : St × String := (st, answer (words line))

end Autd3.Drv.C06
