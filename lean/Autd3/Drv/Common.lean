/-! Shared helpers for the line-protocol drivers (no imports beyond core). -/
namespace Autd3.Drv

def words (line : String) : List String :=
  (line.trimAscii.toString.splitOn " ").filter (· ≠ "")

def nats (ws : List String) : Option (List Nat) := ws.mapM String.toNat?

def joinNats (xs : List Nat) : String := " ".intercalate (xs.map toString)

def hexDigit (c : Char) : Option Nat :=
  if '0' ≤ c ∧ c ≤ '9' then some (c.toNat - '0'.toNat)
  else if 'a' ≤ c ∧ c ≤ 'f' then some (c.toNat - 'a'.toNat + 10)
  else if 'A' ≤ c ∧ c ≤ 'F' then some (c.toNat - 'A'.toNat + 10)
  else none

/-- parse a lower-case hex string into bytes -/
def hexBytes (s : String) : Option (Array Nat) :=
  let rec go (cs : List Char) (acc : Array Nat) : Option (Array Nat) :=
    match cs with
    | [] => some acc
    | a :: b :: rest => do
      let x ← hexDigit a
      let y ← hexDigit b
      go rest (acc.push (x * 16 + y))
    | _ => none
  go s.toList #[]

def hexNat (s : String) : Option Nat :=
  s.toList.foldlM (fun acc c => do let d ← hexDigit c; pure (acc * 16 + d)) 0

def toHex2 (b : Nat) : String :=
  let d (x : Nat) : Char := if x < 10 then Char.ofNat (48 + x) else Char.ofNat (87 + x)
  String.ofList [d ((b / 16) % 16), d (b % 16)]

def bytesHex (bs : Array Nat) : String := bs.foldl (fun s b => s ++ toHex2 b) ""

/-- 64-bit FNV-1a over bytes (same constants as the harness); `UInt64` arithmetic wraps natively -/
def fnv64 (bs : Array Nat) : Nat :=
  (bs.foldl (fun (h : UInt64) b => (h ^^^ (UInt64.ofNat (b % 256))) * 0x100000001b3) (0xcbf29ce484222325 : UInt64)).toNat

/-- xorshift64* shared with the harness: next state and output -/
def xs64 (s : UInt64) : UInt64 × UInt64 :=
  let s := s ^^^ (s >>> 12)
  let s := s ^^^ (s <<< 25)
  let s := s ^^^ (s >>> 27)
  (s, s * 0x2545F4914F6CDD1D)

/-- `len` pseudo-random bytes from `seed` (high byte of each output) -/
def prBytes (seed len : Nat) : Array Nat := Id.run do
  let mut s : UInt64 := if seed % 0x10000000000000000 = 0 then 0x9E3779B97F4A7C15 else UInt64.ofNat (seed % 0x10000000000000000)
  let mut out : Array Nat := Array.mkEmpty len
  for _ in [0:len] do
    let (s', o) := xs64 s
    s := s'
    out := out.push (o >>> 56).toNat
  return out

end Autd3.Drv
