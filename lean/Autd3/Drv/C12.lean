import Autd3.Model.Mask
import Autd3.Drv.Fw
/-!
`masks` stream (C12).  State: a geometry (with enable flags), one tx buffer per device.

  geo <dev>…            new geometry, every device enabled, indices = positions, tx zeroed
                        <dev> ::= uid:numTr:ss:cx.cy.cz:minx.miny.minz:maxx.maxy.maxz   (f32 bit patterns in hex)
  mask <01…>            set the enable flags
  agg                   num_devices, num_transducers, center, aabb
  ss <hex>              set_sound_speed(c)            → sound speed of every device
  sstemp <hex>          set_sound_speed_from_temp(t)  → sound speed of every device
  reconf <dev>…         reconfigure(f) where f(dev_i) = the i-th <dev>  → idx/enable/ss/uid of every device
  txinit <seed>         pseudo-random tx buffers (message id, stale slot-2 offset, stale payload)
  send <dg>             generate + pack loop of a datagram of `Drv/Fw.lean`'s grammar; per-device
                        payloads are keyed by the device's uid
  mock <rounds> <op>…   `OperationHandler::pack` on scripted operations; <op> ::= - | t:p:r:n:b/t:p:r:n:b
  holo <m> <filter>     column ↔ transducer maps of the holographic gains (fill and read-back)
  greedy <filter>       transducers that `Greedy` assigns
  <filter> ::= none | f:<e>,<e>…   one <e> per device position: - | b<01…> | r<seed>:<len>
-/
namespace Autd3.Drv.C12
open Autd3.Drv Autd3.Mask Autd3.Wire

structure St where
  geo : Geometry := []
  tx : List Tx := []

def init : St := {}

def hex8 (n : Nat) : String :=
  bytesHex #[(n / 16777216) % 256, (n / 65536) % 256, (n / 256) % 256, n % 256]

def v3Str (v : V3) : String := s!"{hex8 v.x}.{hex8 v.y}.{hex8 v.z}"

def parseV3 (s : String) : Option V3 :=
  match s.splitOn "." with
  | [a, b, c] => do
    let a ← hexNat a; let b ← hexNat b; let c ← hexNat c
    if a < 4294967296 ∧ b < 4294967296 ∧ c < 4294967296 then pure ⟨a, b, c⟩ else none
  | _ => none

def parseDev (s : String) : Option Dev :=
  match s.splitOn ":" with
  | [uid, nt, ss, c, mn, mx] => do
    let uid ← uid.toNat?; let nt ← nt.toNat?; let ss ← hexNat ss
    let c ← parseV3 c; let mn ← parseV3 mn; let mx ← parseV3 mx
    if ss < 4294967296 then
      pure { idx := 0, enable := true, soundSpeed := ss, numTr := nt, center := c, aabb := ⟨mn, mx⟩, uid := uid }
    else none
  | _ => none

def parseMask (s : String) : Option (List Bool) :=
  s.toList.mapM fun c => if c = '1' then some true else if c = '0' then some false else none

def setMask : Geometry → List Bool → Geometry
  | d :: ds, b :: bs => { d with enable := b } :: setMask ds bs
  | ds, _ => ds

def le8 (h : Nat) : Array Nat :=
  #[h % 256, (h / 256) % 256, (h / 65536) % 256, (h / 16777216) % 256, (h / 4294967296) % 256,
    (h / 1099511627776) % 256, (h / 281474976710656) % 256, (h / 72057594037927936) % 256]

def frameHashes (n : Nat) (frames : List (List Tx)) : List Nat :=
  frames.foldl (fun hs fr => (hs.zip fr).map fun (h, t) => fnv64 (le8 h ++ t.frame)) (List.replicate n 0)

def dotNats (xs : List Nat) : String := ".".intercalate (xs.map toString)

def txInit (seed i : Nat) : Tx :=
  let b := prBytes (seed + 31 * i) 2
  { msgId := Autd3.Fw.rd b 0 % 128, slot2 := Autd3.Fw.rd b 1, payload := prBytes (seed + 31 * i + 7) 622 }

def sendAnswer {ε : Type} (n : Nat) (r : SendRes ε) (errName : ε → String) : String :=
  let res := match r.err with
    | some e => "err:" ++ errName e
    | none => if r.cut then "more" else "ok"
  s!"R={res} N={r.frames.length} H={dotNats (frameHashes n r.frames)} M={dotNats (r.final.map (·.msgId))} S={dotNats (r.final.map (·.slot2))}"

/-! mock operations -/

def parseMock1 (s : String) : Option MockOp :=
  match (s.splitOn ":").mapM String.toNat? with
  | some [t, p, r, n, b] => some { tag := t, packSize := p, required := r, frames := n, brokenAt := b }
  | _ => none

def parseMock (s : String) : Option (Option (MockOp × MockOp)) :=
  if s = "-" then some none
  else match s.splitOn "/" with
    | [a, b] => do let a ← parseMock1 a; let b ← parseMock1 b; pure (some (a, b))
    | _ => none

def mockLeft (ops : Ops MockOp) : String :=
  " ".intercalate (ops.map fun o => match o with
    | none => "-"
    | some (a, b) => s!"{a.frames}/{b.frames}")

/-! filters -/

def parseFilterEntry (s : String) : Option (Option (List Bool)) :=
  if s = "-" then some none
  else if s.startsWith "b" then (parseMask (s.drop 1).toString).map some
  else if s.startsWith "r" then
    match ((s.drop 1).toString.splitOn ":").mapM String.toNat? with
    | some [seed, len] => some (some ((prBytes seed len).toList.map fun b => b % 2 = 1))
    | _ => none
  else none

def parseFilter (s : String) (n : Nat) : Option Filter :=
  if s = "none" then some none
  else if s.startsWith "f:" then do
    let es ← ((s.drop 2).toString.splitOn ",").mapM parseFilterEntry
    if es.length = n then pure (some fun i => (es[i]?).join) else none
  else none

def shortOrHash (s : String) : String :=
  if s.length ≤ 200 then s
  else "#" ++ toString (fnv64 (s.toUTF8.toList.toArray.map (fun (b : UInt8) => b.toNat)))

/-- column `j` of the matrix: which transducer's transfer values fill all its rows -/
def colOwner (m : Nat) (buf : Array (Option Cell)) (j : Nat) : String :=
  match buf[m * j]? with
  | some (some (d, t, _)) =>
    if (List.range m).all (fun fi => buf[m * j + fi]? == some (some (d, t, fi))) then s!"{d}.{t}" else "?"
  | _ => "?"

def holoAnswer (g : Geometry) (f : Filter) (m : Nat) : String :=
  match matrix f m g with
  | .error _ => "panic"
  | .ok (n, buf) =>
    match readAll f g n with
    | .error _ => "panic"
    | .ok rows =>
      let fill := ",".intercalate ((List.range n).map (colOwner m buf))
      let read := ";".intercalate (rows.map fun (i, r) =>
        s!"{i}:" ++ ",".intercalate (r.map fun o => match o with | none => "-" | some k => toString k))
      s!"n={n} F={shortOrHash fill} R={shortOrHash read}"

def greedyAnswer (g : Geometry) (f : Filter) : String :=
  match greedyFlags f g with
  | .error _ => "panic"
  | .ok rows =>
    shortOrHash (";".intercalate (rows.map fun (i, bs) =>
      s!"{i}:" ++ String.ofList (bs.map fun b => if b then '1' else '0')))

def ssAnswer (g : Geometry) : String := "ss=" ++ ".".intercalate (g.map fun d => hex8 d.soundSpeed)

def step (st : St) (line : String) : St × String :=
  match words line with
  | "geo" :: ds =>
    match ds.mapM parseDev with
    | some devs =>
      let g := assignIdx devs
      ({ geo := g, tx := List.replicate g.length {} }, "ok")
    | none => (st, "bad-op")
  | ["mask", m] =>
    match parseMask m with
    | some bs => if bs.length = st.geo.length then ({ st with geo := setMask st.geo bs }, "ok") else (st, "bad-op")
    | none => (st, "bad-op")
  | ["agg"] =>
    let g := st.geo
    let bb := aabb g
    (st, s!"nd={numDevices g} nt={numTransducers g} c={v3Str (center g).canon} bb={v3Str bb.min.canon}/{v3Str bb.max.canon}")
  | ["ss", c] =>
    match hexNat c with
    | some c =>
      if c < 4294967296 then
        let g := setSoundSpeed c st.geo
        ({ st with geo := g }, ssAnswer g)
      else (st, "bad-op")
    | none => (st, "bad-op")
  | ["sstemp", t] =>
    match hexNat t with
    | some t =>
      if t < 4294967296 then
        let g := setSoundSpeedFromTemp t st.geo
        ({ st with geo := g }, ssAnswer g)
      else (st, "bad-op")
    | none => (st, "bad-op")
  | "reconf" :: ds =>
    match ds.mapM parseDev with
    | some devs =>
      if devs.length = st.geo.length then
        -- `f(dev)` = the new device listed at `dev`'s position
        let g := reconfigure (fun d => devs[d.idx]?.getD d) st.geo
        ({ st with geo := g },
          " ".intercalate (g.map fun d => s!"{d.idx}/{if d.enable then 1 else 0}/{hex8 d.soundSpeed}/{d.uid}/{d.numTr}"))
      else (st, "bad-op")
    | none => (st, "bad-op")
  | ["txinit", seed] =>
    match seed.toNat? with
    | some seed => ({ st with tx := (List.range st.geo.length).map (txInit seed) }, "ok")
    | none => (st, "bad-op")
  | "send" :: ws =>
    match FwS.parseOps ws 0 with
    | none => (st, "bad-op")
    | some dflt =>
      let gen : Unit → Dev → (Op × Op) × Unit := fun _ d => ((FwS.parseOps ws d.uid).getD dflt, ())
      let r := send wireI gen () st.geo 100000 st.tx
      ({ st with tx := r.final }, sendAnswer st.geo.length r FwS.errName)
  | "mock" :: rounds :: ops =>
    match rounds.toNat?, ops.mapM parseMock with
    | some rounds, some ops =>
      let r := sendLoop mockI st.geo rounds st.tx ops
      -- the operations' remaining frames are part of the answer: re-run the packs to recover them
      let rec left (k : Nat) (tx : List Tx) (ops : Ops MockOp) : Ops MockOp :=
        match k with
        | 0 => ops
        | k + 1 =>
          if isDone mockI ops then ops
          else
            let p := pack mockI st.geo tx ops
            match p.err with
            | some _ => p.ops
            | none => left k p.tx p.ops
      ({ st with tx := r.final }, sendAnswer st.geo.length r (fun _ => "NotSupportedTag") ++ " O=" ++ mockLeft (left rounds st.tx ops))
    | _, _ => (st, "bad-op")
  | ["holo", m, f] =>
    match m.toNat?, parseFilter f st.geo.length with
    | some m, some f => if 0 < m ∧ m ≤ 64 then (st, holoAnswer st.geo f m) else (st, "bad-op")
    | _, _ => (st, "bad-op")
  | ["greedy", f] =>
    match parseFilter f st.geo.length with
    | some f => (st, greedyAnswer st.geo f)
    | none => (st, "bad-op")
  | _ => (st, "bad-op")

end Autd3.Drv.C12
