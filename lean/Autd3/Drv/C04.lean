import Autd3.Model.Ctl
import Autd3.Drv.Common
/-!
`sender` / `sender_async` streams (C04, C11).  One controller at a time; `open` starts a new one.

```
flavor <mt|ct>                                 (sender_async) the tokio runtime the following controllers live on: multi-thread
                                               (Drop closes a link that says open, like the sync copy) or current-thread
                                               (Drop only asks `is_open`; the default); answer `flavor <mt|ct>`
open  <n> <T> <n|N> <SEND> <SEND> <DROP>       Controller::open_with_option (timeout T; link.open ok/Err;
                                               scripts of ForceFan, (Clear,Synchronize), Drop on failure)
enable <bits>                                  geometry_mut(): Device::enable of device i := bit i ('1'/'0', one per device);
                                               answer `set <bits>`
send  <T> <TD> <f0,f1,..> <SEND>               Sender::send of a datagram whose generator answers, for device i, an
                                               operation of f_i frames (asked for enabled devices only)
sendx <T> <TD>                                 … whose operation_generator fails
fwver <SEND> <SEND> <SEND> <SEND> <SEND> <SEND> Controller::firmware_version
fpga  <o|c> <RECV>                             Controller::fpga_state
close <CLOSE> <DROP>                           Controller::close (second script: Drop afterwards)

T     = Z | S | L | N          SenderOption.timeout Some(0) | Some(short) | Some(long) | None
TD    = Z | S | L              the datagram's own option().timeout
SEND  = (u|U) { "/" FRAME }    link.update ok/Err, then one FRAME per turn of the send loop
FRAME = (o|c)(s|S) { "+" POLL } is_open, link.send ok/Err, then the polls
POLL  = c | o RECV [ "!" ]     is_open; receive; "!" = elapsed > timeout after this poll
RECV  = X | KIND… ":" hh       Err, or per device an acknowledgement kind, and the data byte base
KIND  = R | P | G | Ehh        the frame's id | (id+127)%128 | (id+64)%128 | the byte hh (error codes 80..ff; any byte in fpga lines);
                               one KIND per device, enabled or not — for a disabled device "the frame's id" is the id its
                               untouched slot still carries
CLOSE = c | o~SEND~SEND~SEND~(k|K)      close_impl: is_open, three sends, link.close ok/Err
DROP  = c | o CLOSE                      Drop: is_open; if open (sync copy, and async copy on a multi-thread runtime) close_impl
stale <id>…                                   real-emulator case: devices left with last_msg_id = ack = id;
                                               open (timeout short) + one datagram through a delivering link;
                                               answer `<open>/<send> clear=<bits> sync=<bits> first=<bits> | <acks per poll>`
```
Answer: `<result> | <calls the link saw>`:  n/N open, k/K close, u/U update, o/c is_open,
`s<id>.<tag>,…` / `S…` send ok/Err (per device header id and first payload byte, hex),
`r<ack><data>,…` receive (buffer afterwards) / `R` receive Err.
`fwver` answers `ok:[<idx>:<cpu major>.<cpu minor>.<fpga major>.<fpga minor>.<functions>,…]` for the enabled devices.
-/
namespace Autd3.Drv.C04
open Autd3.Ctl Autd3.Drv

structure St where
  isAsync : Bool := false
  /-- tokio runtime flavour the async controller lives on (`flavor` lines; meaningless for the sync copy) -/
  flavor : Ctl.Flavor := .currentThread
  ctl : Option Ctl.St := none

/-- which `Drop` applies: the sync copy's, or the async copy's on the current runtime flavour -/
def St.dropFlavor (st : St) : Option Ctl.Flavor := if st.isAsync then some st.flavor else none

def init : St := {}
def initAsync : St := { isAsync := true }

/-! ### parsing -/

inductive Kind where
  | right | prev | garbage | code (c : Nat)

def parseKinds : List Char → Option (List Kind)
  | [] => some []
  | 'R' :: t => (parseKinds t).map (Kind.right :: ·)
  | 'P' :: t => (parseKinds t).map (Kind.prev :: ·)
  | 'G' :: t => (parseKinds t).map (Kind.garbage :: ·)
  | 'E' :: a :: b :: t => do
    let x ← hexDigit a
    let y ← hexDigit b
    let r ← parseKinds t
    pure (Kind.code (x * 16 + y) :: r)
  | _ => none

/-- what the scripted link writes for device `i` -/
def resolve (base : Nat) (tx : List Tx) (ks : List Kind) : List Rx :=
  let rec go (i : Nat) : List Tx → List Kind → List Rx
    | t :: ts, k :: ks =>
      let ack := match k with
        | .right => t.msgId
        | .prev => (t.msgId + 127) % 128
        | .garbage => (t.msgId + 64) % 128
        | .code c => c
      { data := (base + i) % 256, ack := ack } :: go (i + 1) ts ks
    | _, _ => []
  go 0 tx ks

/-- RECV: `none` = unparsable, `some none` = Err, `some (some f)` = per-frame receive contents -/
def parseRecv (s : String) : Option (Option (List Tx → List Rx)) :=
  if s = "X" then some none
  else
    match s.splitOn ":" with
    | [ks, d] => do
      let ks ← parseKinds ks.toList
      if d.length ≠ 2 then none
      let base ← hexNat d
      pure (some (fun tx => resolve base tx ks))
    | _ => none

def parsePoll (s : String) : Option (List Tx → Poll) :=
  if s = "c" then some (fun _ => { isOpen := false, recv := none, late := false })
  else
    match s.toList with
    | 'o' :: rest =>
      let (body, late) :=
        match rest.reverse with
        | '!' :: r => (String.ofList r.reverse, true)
        | _ => (String.ofList rest, false)
      match parseRecv body with
      | some none => some (fun _ => { isOpen := true, recv := none, late := late })
      | some (some f) => some (fun tx => { isOpen := true, recv := some (f tx), late := late })
      | none => none
    | _ => none

def parseFrame (s : String) : Option (List Tx → FrameScript) :=
  match s.splitOn "+" with
  | head :: polls =>
    match head.toList with
    | [o, snd] =>
      if (o = 'o' ∨ o = 'c') ∧ (snd = 's' ∨ snd = 'S') then do
        let ps ← polls.mapM parsePoll
        pure (fun tx => { isOpen := o = 'o', sendOk := snd = 's', polls := ps.map (· tx) })
      else none
    | _ => none
  | [] => none

def parseSend (s : String) : Option SendScript :=
  match s.splitOn "/" with
  | u :: frames =>
    if u = "u" ∨ u = "U" then do
      let fs ← frames.mapM parseFrame
      pure { updateOk := u = "u", frames := fs }
    else none
  | [] => none

def closedScript : CloseScript :=
  { isOpen := false, silencer := default, staticNull := default, clear := default, closeOk := true }

def parseClose (s : String) : Option CloseScript :=
  if s = "c" then some closedScript
  else
    match s.splitOn "~" with
    | ["o", a, b, c, k] =>
      if k = "k" ∨ k = "K" then do
        let a ← parseSend a
        let b ← parseSend b
        let c ← parseSend c
        pure { isOpen := true, silencer := a, staticNull := b, clear := c, closeOk := k = "k" }
      else none
    | _ => none

def parseDrop (s : String) : Option DropScript :=
  if s = "c" then some { isOpen := false, close := closedScript }
  else
    match s.toList with
    | 'o' :: rest => (parseClose (String.ofList rest)).map fun c => { isOpen := true, close := c }
    | _ => none

def parseT (s : String) : Option (Option Nat) :=
  if s = "Z" then some (some 0) else if s = "S" then some (some 20) else if s = "L" then some (some 60000)
  else if s = "N" then some none else none

def parseTD (s : String) : Option Nat :=
  if s = "Z" then some 0 else if s = "S" then some 20 else if s = "L" then some 60000 else none

/-! ### printing -/

def showErr : Err → String
  | .linkClosed => "LinkClosed"
  | .confirmResponseFailed => "ConfirmResponseFailed"
  | .link m => s!"Link({m})"
  | .notSupportedTag => "NotSupportedTag"
  | .invalidMessageID => "InvalidMessageID"
  | .invalidInfoType => "InvalidInfoType"
  | .invalidGainSTMMode => "InvalidGainSTMMode"
  | .invalidSegmentTransition => "InvalidSegmentTransition"
  | .missTransitionTime => "MissTransitionTime"
  | .invalidSilencerSettings => "InvalidSilencerSettings"
  | .invalidTransitionMode => "InvalidTransitionMode"
  | .unknownFirmwareError a => s!"UnknownFirmwareError({a})"
  | .generator => "Generator"
  | .readFirmwareVersionFailed bs =>
    "ReadFirmwareVersionFailed[" ++ ",".intercalate (bs.map fun b => if b then "t" else "f") ++ "]"

def showRes : Res → String
  | .ok => "ok"
  | .err e => "err:" ++ showErr e
  | .stuck => "stuck"

def showTx (tx : List Tx) : String :=
  ",".intercalate (tx.map fun t => toHex2 t.msgId ++ "." ++ toHex2 t.tag)

def showRx (rx : List Rx) : String :=
  ",".intercalate (rx.map fun r => toHex2 r.ack ++ toHex2 r.data)

def showCall : Call → String
  | .open ok => if ok then "n" else "N"
  | .close ok => if ok then "k" else "K"
  | .update ok => if ok then "u" else "U"
  | .isOpen b => if b then "o" else "c"
  | .send tx ok => (if ok then "s" else "S") ++ showTx tx
  | .recv none => "R"
  | .recv (some rx) => "r" ++ showRx rx

def showTrace (tr : List Call) : String := " ".intercalate (tr.map showCall)

def answer (r : String) (tr : List Call) : String := r ++ " | " ++ showTrace tr

/-! ### the step function -/

def step (st : St) (line : String) : St × String :=
  match words line with
  | ["open", n, t, o, a, b, c] =>
    match n.toNat?, parseT t, parseSend a, parseSend b, parseDrop c with
    | some n, some t, some a, some b, some c =>
      if (o = "n" ∨ o = "N") ∧ 0 < n ∧ n ≤ 16 then
        let r := openWithOptionOn st.dropFlavor n t { openOk := o = "n", forceFan := a, clearSync := b, drop := c }
        ({ st with ctl := r.2.1 }, answer (showRes r.1) r.2.2)
      else (st, "bad-op")
    | _, _, _, _, _ => (st, "bad-op")
  | ["flavor", f] =>
    if f = "mt" then ({ st with flavor := .multiThread }, "flavor mt")
    else if f = "ct" then ({ st with flavor := .currentThread }, "flavor ct")
    else (st, "bad-op")
  | ["enable", bits] =>
    match st.ctl with
    | some c =>
      let bs := bits.toList
      if bs.length = c.tx.length ∧ bs.all (fun ch => ch = '0' ∨ ch = '1') then
        ({ st with ctl := some { c with enable := bs.map (· == '1') } }, "set " ++ bits)
      else (st, "bad-op")
    | none => (st, "bad-op")
  | ["send", t, td, fs, sc] =>
    match st.ctl, parseT t, parseTD td, nats (fs.splitOn ","), parseSend sc with
    | some c, some t, some td, some fs, some sc =>
      if fs.length = c.tx.length then
        let r := send t { frames := fs, tag := 0xEE, timeoutMs := td } c sc
        ({ st with ctl := some r.2.1 }, answer (showRes r.1) r.2.2)
      else (st, "bad-op")
    | _, _, _, _, _ => (st, "bad-op")
  | ["sendx", t, td] =>
    match st.ctl, parseT t, parseTD td with
    | some c, some t, some td =>
      let r := send t { frames := c.tx.map fun _ => 1, tag := 0xEE, timeoutMs := td, genFail := true } c default
      ({ st with ctl := some r.2.1 }, answer (showRes r.1) r.2.2)
    | _, _, _ => (st, "bad-op")
  | "fwver" :: scs =>
    match st.ctl, scs.mapM parseSend with
    | some c, some scs =>
      if scs.length = 6 then
        let r := firmwareVersion c scs
        let s := match r.1 with
          | .ok vs => "ok:[" ++ ",".intercalate (vs.map fun v => toString v.1 ++ ":" ++ ".".intercalate (v.2.map toString)) ++ "]"
          | .error e => showRes e
        ({ st with ctl := some r.2.1 }, answer s r.2.2)
      else (st, "bad-op")
    | _, _ => (st, "bad-op")
  | ["fpga", o, rv] =>
    match st.ctl, parseRecv rv with
    | some c, some rv =>
      if o = "o" ∨ o = "c" then
        let r := fpgaState c (o = "o") (rv.map (· c.tx))
        let s := match r.1 with
          | .ok vs => "ok:[" ++ ",".intercalate (vs.map fun
              | some d => "some(" ++ toHex2 d ++ ")"
              | none => "none") ++ "]"
          | .error e => "err:" ++ showErr e
        ({ st with ctl := some r.2.1 }, answer s r.2.2)
      else (st, "bad-op")
    | _, _ => (st, "bad-op")
  | ["close", c, d] =>
    match st.ctl, parseClose c, parseDrop d with
    | some ctl, some c, some d =>
      let r := closeOn st.dropFlavor ctl c d
      ({ st with ctl := none }, answer (showRes r.1) r.2)
    | _, _, _ => (st, "bad-op")
  | "stale" :: ids =>
    match nats ids with
    | some ids =>
      if ids.all (· < 256) ∧ 0 < ids.length ∧ ids.length ≤ 16 then
        let ds := ids.map fun i => ({ lastMsgId := i, ack := i } : Dev)
        let (a, b) := openOnDevices (some 20) ds
        let bits (l : List Bool) := String.ofList (l.map fun x => if x then '1' else '0')
        let acks (r : DevRun) := " ".intercalate (r.trace.filterMap fun
          | .recv (some rx) => some (",".intercalate (rx.map fun x => toHex2 x.ack))
          | _ => none)
        match b.res with
        | .ok =>
          let c := devSend (some 20) (oneFrame ids.length 0x61) b.st b.ds
          ({ st with ctl := none },
            s!"ok/{showRes c.res} clear={bits b.processed} sync={bits b.processed} first={bits c.processed} | {acks a} {acks b} {acks c}")
        | r =>
          ({ st with ctl := none },
            s!"{showRes r} clear={bits b.processed} sync={bits b.processed} first={bits (ids.map fun _ => false)} | {acks a} {acks b}")
      else (st, "bad-op")
    | none => (st, "bad-op")
  | _ => (st, "bad-op")

end Autd3.Drv.C04
