import Autd3.Model.Holo
import Autd3.Drv.Common
/-!
Stream `holo` (C15).  Floats travel as 8-digit hex bit patterns.

  constraint `<c>`: `N` | `M:<hex8>` | `U:<byte>` | `C:<lo>:<hi>`
  geometry `<geo>`: `e5,d3,e2` — per device, in index order: `e`nabled/`d`isabled + number of transducers
  filter `<flt>`:   `-` (no filter) or `F` followed by `;`-separated `<device index>=<bits>` entries
                    (`F` alone = empty map; bits `0`/`1`, `.` for an empty bit vector)

  `conv <c> <value>:<max> …`   `EmissionConstraint::convert` per pair → byte or `panic`
  `cols <m> <geo> <flt>`       `generate_propagation_matrix` for `m` foci → `n=<n> <d.t|?> …` (one
                               token per column: the transducer every row's entry belongs to, `?` when
                               the rows disagree, a row has the wrong focus, or the cell was never written)
  `map <geo> <flt>`            `generate_result` + `generate` + `calc` (solution vector of length `n`)
                               → per enabled device `i:<idx|->,…` (`-` = `Drive::NULL`), `none` without devices
  `greedy <c> <geo> <flt>`     intensities `Greedy` returns → per enabled device `i:<byte>,…`
-/
namespace Autd3.Drv.C15
open Autd3 Autd3.F32 Autd3.Holo Autd3.Drv

structure St where
  unit : Unit := ()

def init : St := {}

def hex32 (s : String) : Option Nat :=
  if s.length = 8 then hexNat s else none

def byteOf (s : String) : Option Nat :=
  match s.toNat? with
  | some v => if v < 256 then some v else none
  | none => none

def constraintOf (s : String) : Option Constraint :=
  match s.splitOn ":" with
  | ["N"] => some .normalize
  | ["M", h] => (hex32 h).map fun b => .multiply (ofBits b)
  | ["U", v] => (byteOf v).map .uniform
  | ["C", lo, hi] => do
    let lo ← byteOf lo
    let hi ← byteOf hi
    pure (.clamp lo hi)
  | _ => none

def devOf (s : String) : Option Dev :=
  match s.toList with
  | 'e' :: r => (String.ofList r).toNat?.map fun n => ⟨true, n⟩
  | 'd' :: r => (String.ofList r).toNat?.map fun n => ⟨false, n⟩
  | _ => none

def geoOf (s : String) : Option Geo := (s.splitOn ",").mapM devOf

def bitsOf (s : String) : Option (List Bool) :=
  if s = "." then some []
  else s.toList.mapM fun c => if c = '1' then some true else if c = '0' then some false else none

def entryOf (s : String) : Option (Nat × List Bool) :=
  match s.splitOn "=" with
  | [i, b] => do
    let i ← i.toNat?
    let b ← bitsOf b
    pure (i, b)
  | _ => none

/-- `-` ↦ no filter; `F…` ↦ the map (keys must be distinct: it is a `HashMap`) -/
def filterOf (s : String) : Option (Option Filter) :=
  if s = "-" then some none
  else match s.toList with
    | 'F' :: r =>
      let body := String.ofList r
      let es : Option (List (Nat × List Bool)) := if body = "" then some [] else (body.splitOn ";").mapM entryOf
      match es with
      | some es =>
        if (es.map (·.1)).Nodup then some (some fun i => es.lookup i) else none
      | none => none
    | _ => none

def colToken (m : Mat) (c : Nat) : String :=
  match m.data[m.rows * c]? with
  | some (some c0) =>
    if (List.range m.rows).all fun j =>
        match m.data[m.rows * c + j]? with
        | some (some x) => x.focus = j ∧ x.dev = c0.dev ∧ x.tr = c0.tr
        | _ => false
    then s!"{c0.dev}.{c0.tr}" else "?"
  | _ => "?"

def commaJoin (xs : List String) : String := ",".intercalate xs

def step (st : St) (line : String) : St × String :=
  match words line with
  | "conv" :: c :: pairs =>
    match constraintOf c with
    | some c =>
      if pairs.isEmpty then (st, "bad-op")
      else
        let rs := pairs.mapM fun p =>
          match p.splitOn ":" with
          | [v, m] => do
            let v ← hex32 v
            let m ← hex32 m
            pure (match convert c (ofBits v) (ofBits m) with
              | .ok b => toString b
              | .error _ => "panic")
          | _ => none
        match rs with
        | some rs => (st, " ".intercalate rs)
        | none => (st, "bad-op")
    | none => (st, "bad-op")
  | ["cols", m, g, f] =>
    match m.toNat?, geoOf g, filterOf f with
    | some m, some geo, some flt =>
      if m = 0 then (st, "bad-op")
      else match propagationMatrix geo flt m with
        | .ok mat =>
          if mat.rows = m ∧ mat.data.size = mat.rows * mat.cols then
            (st, " ".intercalate (s!"n={mat.cols}" :: (List.range mat.cols).map (colToken mat)))
          else (st, "model-shape-error")
        | .error _ => (st, "panic")
    | _, _, _ => (st, "bad-op")
  | ["map", g, f] =>
    match geoOf g, filterOf f with
    | some geo, some flt =>
      match generateResult geo flt with
      | .ok mp =>
        let qlen := totalN geo flt
        let toks := (devices geo).map fun d =>
          let xs := (List.range d.2.numTr).map fun t =>
            match calcIdx mp qlen d.1 t with
            | .ok (some i) => toString i
            | .ok none => "-"
            | .error _ => "panic"
          s!"{d.1}:{commaJoin xs}"
        (st, if toks.isEmpty then "none" else " ".intercalate toks)
      | .error _ => (st, "panic")
    | _, _ => (st, "bad-op")
  | ["greedy", c, g, f] =>
    match constraintOf c, geoOf g, filterOf f with
    | some c, some geo, some flt =>
      match greedy geo flt c with
      | .ok r =>
        let toks := r.map fun x => s!"{x.1}:{commaJoin (x.2.map toString)}"
        (st, if toks.isEmpty then "none" else " ".intercalate toks)
      | .error _ => (st, "panic")
    | _, _, _ => (st, "bad-op")
  | _ => (st, "bad-op")

end Autd3.Drv.C15
