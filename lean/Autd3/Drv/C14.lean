import Autd3.Model.GainWrap
import Autd3.Drv.Common
/-! `wrappers` stream (C14).

```
geo <numTr of device 0> <numTr of device 1> …        new history: fresh caches            → ok
send <w> <par> <mask> <tree>                          one send of a gain datagram
   w    = -  (bare gain) | 0 | 1 | 0i | 1i            WithSegment{S0|S1, None | Some(Immediate)}
        | <0|1><e|s|g|t>                              WithSegment{S0|S1, Some(Ext | SyncIdx | GPIO(_) | SysTime(_))}
          optionally followed by `+p`: the harness also packs with `parallel` (no effect on the answer)
stm <w> <par> <mask> <tree>;<tree>;… | -              one send of GainSTM{gains: vec![<tree>,…]} (`-`: empty),
   w    = - | 0 | 1 | 0i | 1i  [+p]                   bare or inside WithSegment; mode PhaseIntensityFull
pair <a><b>[+p] <par> <mask> <tree>;<tree>            one send of (WithSegment{t1,S0,a}, WithSegment{t2,S1,b}), a,b = - | i
   par  = 0 | 1                                       `parallel` argument of operation_generator
   mask = one 0/1 per device                          enable flags
   tree = L<salt> | H<salt> | E<salt> | B(<tree>) | C<id>(<tree>) | G[<row>|<row>|…]{<k>:<tree>,…}
          row = one char per transducer: `.` no key, 0-9 a-z key 0…35
answer: ok seg=<0|1> tm=<i|-> d<idx>=<hex phase,intensity per transducer>@<requested segment>… [H<salt>@<par>:<filter>]…
      | err unknown-key | err unused-keys <k,k,…> | err cache-geometry | err leaf | panic
      | err invalid-transition-mode                   (send with a mode other than Immediate and a device enabled)
pair:   ok tm=<a><b> d<idx>=<hex in S0>/<hex in S1>@<requested segment>… [H…]… | the errors of `send`
stm:    ok seg=<0|1> tm=<i|-> n=<len> d<idx>=<hex of index 0>/<hex of index 1>/…@<requested segment>… [H…]…
      | err stm-size <len> | the errors of `send`
```
-/
namespace Autd3.Drv.C14
open Autd3.GainWrap Autd3.Drv

structure St where
  dims : List Nat := []
  σ : Autd3.GainWrap.St := {}
  req : Nat → Segment := fun _ => .S0

def init : St := {}

def keyOfChar (c : Char) : Option Nat :=
  if '0' ≤ c ∧ c ≤ '9' then some (c.toNat - '0'.toNat)
  else if 'a' ≤ c ∧ c ≤ 'z' then some (c.toNat - 'a'.toNat + 10)
  else none

def parseNat (cs : List Char) : Option (Nat × List Char) :=
  let ds := cs.takeWhile Char.isDigit
  if ds.isEmpty ∨ ds.length > 9 then none
  else some (ds.foldl (fun a c => a * 10 + (c.toNat - '0'.toNat)) 0, cs.dropWhile Char.isDigit)

/-- one key-map row: chars up to `|` or `]` -/
def parseRow (cs : List Char) : Option (Array (Option Nat) × List Char) :=
  let body := cs.takeWhile (fun c => c ≠ '|' ∧ c ≠ ']')
  let rest := cs.dropWhile (fun c => c ≠ '|' ∧ c ≠ ']')
  let cells := body.mapM fun c => if c = '.' then some none else (keyOfChar c).map some
  cells.map fun l => (l.toArray, rest)

/-- rows up to the closing `]` (consumed) -/
def parseRows : Nat → List Char → Array (Array (Option Nat)) → Option (Array (Array (Option Nat)) × List Char)
  | 0, _, _ => none
  | fuel + 1, cs, acc =>
    match parseRow cs with
    | none => none
    | some (row, rest) =>
      match rest with
      | '|' :: r => parseRows fuel r (acc.push row)
      | ']' :: r => some (acc.push row, r)
      | _ => none

def kmOfRows (rows : Array (Array (Option Nat))) : Nat → Nat → Option Nat := fun d t =>
  match rows[d]? with
  | none => none
  | some row => match row[t]? with
    | none => none
    | some x => x

def gmapOfList : List (Nat × Tree) → GMap
  | [] => .nil
  | (k, g) :: rest => .cons k g (gmapOfList rest)

mutual
  def parseTree (dims : List Nat) : Nat → List Char → Option (Tree × List Char)
    | 0, _ => none
    | fuel + 1, cs =>
      match cs with
      | 'L' :: r => (parseNat r).map fun (n, r') => (.leaf (customLeaf n), r')
      | 'H' :: r => (parseNat r).map fun (n, r') => (.leaf (holoLeaf n), r')
      | 'E' :: r => (parseNat r).map fun (n, r') => (.leaf (failLeaf n), r')
      | 'B' :: '(' :: r =>
        match parseTree dims fuel r with
        | some (t, ')' :: r') => some (.boxed t, r')
        | _ => none
      | 'C' :: r =>
        match parseNat r with
        | some (id, '(' :: r1) =>
          match parseTree dims fuel r1 with
          | some (t, ')' :: r') => some (.cache id t, r')
          | _ => none
        | _ => none
      | 'G' :: '[' :: r =>
        match parseRows (r.length + 1) r #[] with
        | some (rows, '{' :: r1) =>
          if rows.toList.map (·.size) ≠ dims then none
          else
            match r1 with
            | '}' :: r2 => some (.group (kmOfRows rows) .nil, r2)
            | _ =>
              match parseEntries dims fuel r1 [] with
              | some (es, r2) =>
                if (es.map (·.1)).Nodup then some (.group (kmOfRows rows) (gmapOfList es), r2) else none
              | none => none
        | _ => none
      | _ => none
  /-- `k:T,k:T,…}` (closing brace consumed) -/
  def parseEntries (dims : List Nat) : Nat → List Char → List (Nat × Tree) → Option (List (Nat × Tree) × List Char)
    | 0, _, _ => none
    | fuel + 1, cs, acc =>
      match cs with
      | kc :: ':' :: r =>
        match keyOfChar kc, parseTree dims fuel r with
        | some k, some (t, ',' :: r') => parseEntries dims fuel r' (acc ++ [(k, t)])
        | some k, some (t, '}' :: r') => some (acc ++ [(k, t)], r')
        | _, _ => none
      | _ => none
end

def parseWrap : String → Option (Option (Segment × Option Transition))
  | "-" => some none
  | "0" => some (some (.S0, none))
  | "1" => some (some (.S1, none))
  | "0i" => some (some (.S0, some .immediate))
  | "1i" => some (some (.S1, some .immediate))
  | _ => none

/-- `WithSegment` with a transition mode other than `Immediate` -/
def parseModeWrap : String → Option (Segment × TMode × String)
  | "0e" => some (.S0, .ext, "e")
  | "1e" => some (.S1, .ext, "e")
  | "0s" => some (.S0, .syncIdx, "s")
  | "1s" => some (.S1, .syncIdx, "s")
  | "0g" => some (.S0, .gpio, "g")
  | "1g" => some (.S1, .gpio, "g")
  | "0t" => some (.S0, .sysTime, "t")
  | "1t" => some (.S1, .sysTime, "t")
  | _ => none

/-- `+p` after the wrap token: how the harness packs; not a parameter of the model -/
def stripVia (w : String) : String :=
  match w.splitOn "+" with
  | [a] => a
  | [a, "p"] => a
  | _ => "?"

def parseMask (s : String) : Option (List Bool) :=
  s.toList.mapM fun c => if c = '1' then some true else if c = '0' then some false else none

def drivesHex (row : List Drive) : String :=
  row.foldl (fun s d => s ++ toHex2 d.phase ++ toHex2 d.intensity) ""

def bitsStr (bits : List Bool) : String := String.ofList (bits.map fun b => if b then '1' else '0')

/-- insertion sort by device index (filters come out of a `HashMap` on the Rust side) -/
def sortByKey {α : Type} (l : List (Nat × α)) : List (Nat × α) :=
  l.foldl (fun acc p => (acc.takeWhile (·.1 ≤ p.1)) ++ [p] ++ (acc.dropWhile (·.1 ≤ p.1))) []

def filterStr : Option Filter → String
  | none => "-"
  | some f => ",".intercalate ((sortByKey f).map fun (d, bits) => s!"d{d}:{bitsStr bits}")

def logStr (e : Nat × Bool × Option Filter) : String :=
  s!"H{e.1}@{if e.2.1 then 1 else 0}:{filterStr e.2.2}"

def sortStrings (l : List String) : List String :=
  l.foldl (fun acc s => (acc.takeWhile (· ≤ s)) ++ [s] ++ (acc.dropWhile (· ≤ s))) []

def sortNats (l : List Nat) : List Nat :=
  l.foldl (fun acc s => (acc.takeWhile (· ≤ s)) ++ [s] ++ (acc.dropWhile (· ≤ s))) []

def segStr : Segment → String
  | .S0 => "0"
  | .S1 => "1"

def failStr : Fail → String
  | .panic _ => "panic"
  | .err (.unknownKey _) => "err unknown-key"
  | .err (.unusedKeys ks) => "err unused-keys " ++ ",".intercalate ((sortNats ks).map toString)
  | .err .cacheGeometry => "err cache-geometry"
  | .err .leaf => "err leaf"

def logsStr (log : List (Nat × Bool × Option Filter)) : String :=
  String.join ((sortStrings (log.map logStr)).map (" " ++ ·))

def tmStr : Option Transition → String
  | some .immediate => "i"
  | none => "-"

def answer (r : Except Fail Sent) (req : Nat → Segment) (log : List (Nat × Bool × Option Filter)) : String :=
  match r with
  | .error f => failStr f
  | .ok s =>
    let ds := s.drives.map fun (d, row) => s!" d{d}={drivesHex row}@{segStr (req d)}"
    s!"ok seg={segStr s.segment} tm={tmStr s.transition}" ++ String.join ds ++ logsStr log

def sendFailStr : SendFail → String
  | .gain f => failStr f
  | .invalidTransitionMode => "err invalid-transition-mode"
  | .stmSize n => s!"err stm-size {n}"

/-- answer of a send with a mode other than `Immediate` (`tmc`: the letter of the mode; an `ok` has
no drives, nothing having been sent) -/
def answerMode (r : Except SendFail Sent) (tmc : String) (req : Nat → Segment)
    (log : List (Nat × Bool × Option Filter)) : String :=
  match r with
  | .error f => sendFailStr f
  | .ok s =>
    let ds := s.drives.map fun (d, row) => s!" d{d}={drivesHex row}@{segStr (req d)}"
    s!"ok seg={segStr s.segment} tm={tmc}" ++ String.join ds ++ logsStr log

def answerStm (r : Except SendFail SentStm) (req : Nat → Segment) (log : List (Nat × Bool × Option Filter)) :
    String :=
  match r with
  | .error f => sendFailStr f
  | .ok s =>
    let devs : List Nat := match s.patterns with
      | [] => []
      | p :: _ => p.map fun (x : Nat × List Drive) => x.1
    let ds := devs.map fun d =>
      let rows := s.patterns.map fun (p : List (Nat × List Drive)) =>
        match List.lookup d p with | some row => drivesHex row | none => "?"
      s!" d{d}={"/".intercalate rows}@{segStr (req d)}"
    s!"ok seg={segStr s.segment} tm={tmStr s.transition} n={s.patterns.length}" ++ String.join ds ++ logsStr log

def parseTm : Char → Option (Option Transition)
  | '-' => some none
  | 'i' => some (some .immediate)
  | _ => none

def answerPair (r : Except Fail (Sent × Sent)) (tm : String) (req : Nat → Segment)
    (log : List (Nat × Bool × Option Filter)) : String :=
  match r with
  | .error f => failStr f
  | .ok (s1, s2) =>
    let ds := s1.drives.map fun ((d, row) : Nat × List Drive) =>
      let row2 := match List.lookup d s2.drives with | some r => drivesHex r | none => "?"
      s!" d{d}={drivesHex row}/{row2}@{segStr (req d)}"
    s!"ok tm={tm}" ++ String.join ds ++ logsStr log

/-- `T;T;…` or `-` -/
def parseTrees (dims : List Nat) (s : String) : Option (List Tree) :=
  if s = "-" then some []
  else (s.splitOn ";").mapM fun t =>
    match parseTree dims (t.length + 1) t.toList with
    | some (tr, []) => some tr
    | _ => none

def step (st : St) (line : String) : St × String :=
  match words line with
  | "geo" :: ns =>
    match nats ns with
    | some dims =>
      if dims.isEmpty ∨ dims.length > 8 ∨ dims.any (fun n => n = 0 ∨ n > 249) then (st, "bad-op")
      else ({ dims := dims, σ := {}, req := fun _ => .S0 }, "ok")
    | none => (st, "bad-op")
  | ["send", wv, par, mask, tree] =>
    let w := stripVia wv
    match parseMask mask, parseTree st.dims (tree.length + 1) tree.toList with
    | some en, some (t, []) =>
      if (par ≠ "0" ∧ par ≠ "1") ∨ en.length ≠ st.dims.length ∨ st.dims.isEmpty then (st, "bad-op")
      else
        let geo := Geo.ofList (st.dims.zip en)
        match parseWrap w, parseModeWrap w with
        | some wrap, _ =>
          let (r, σ') := send { tree := t, wrap := wrap } geo (par = "1") { st.σ with log := [] }
          let req' := match r with | .ok s => applyReq st.req s | .error _ => st.req
          ({ st with σ := σ', req := req' }, answer r req' σ'.log)
        | none, some (seg, mode, tmc) =>
          let (r, σ') := sendMode t seg mode geo (par = "1") { st.σ with log := [] }
          -- nothing reaches a device: the requested segments stay
          ({ st with σ := σ' }, answerMode r tmc st.req σ'.log)
        | none, none => (st, "bad-op")
    | _, _ => (st, "bad-op")
  | ["pair", wv, par, mask, trees] =>
    match (stripVia wv).toList, parseMask mask, parseTrees st.dims trees with
    | [a, b], some en, some [t1, t2] =>
      match parseTm a, parseTm b with
      | some tm1, some tm2 =>
        if (par ≠ "0" ∧ par ≠ "1") ∨ en.length ≠ st.dims.length ∨ st.dims.isEmpty then (st, "bad-op")
        else
          let geo := Geo.ofList (st.dims.zip en)
          let (r, σ') := sendPair t1 t2 tm1 tm2 geo (par = "1") { st.σ with log := [] }
          -- the frame(s) carry the gain for S0 first
          let req' := match r with | .ok (s1, s2) => applyReq (applyReq st.req s1) s2 | .error _ => st.req
          ({ st with σ := σ', req := req' }, answerPair r (stripVia wv) req' σ'.log)
      | _, _ => (st, "bad-op")
    | _, _, _ => (st, "bad-op")
  | ["stm", wv, par, mask, trees] =>
    match parseWrap (stripVia wv), parseMask mask, parseTrees st.dims trees with
    | some wrap, some en, some ts =>
      if (par ≠ "0" ∧ par ≠ "1") ∨ en.length ≠ st.dims.length ∨ st.dims.isEmpty then (st, "bad-op")
      else
        let geo := Geo.ofList (st.dims.zip en)
        let (r, σ') := sendStm ts wrap geo (par = "1") { st.σ with log := [] }
        let req' := match r with
          | .ok s => applyReq st.req { segment := s.segment, transition := s.transition, drives := s.patterns.headD [] }
          | .error _ => st.req
        ({ st with σ := σ', req := req' }, answerStm r req' σ'.log)
    | _, _, _ => (st, "bad-op")
  | _ => (st, "bad-op")

end Autd3.Drv.C14
