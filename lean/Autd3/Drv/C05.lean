import Autd3.Model.Reject
import Autd3.Drv.Common
/-! `reject` stream (C05).

```
consts                       the constants the model uses (the harness prints the crates' values)
case <ndev> <dg>             one `Controller::send` over a recording link
casem <ndev> <mask> <dg>     the same with an enable mask (`0`/`1` per device, device 0 first)
note <text>                  an implementation-only oracle case ran here (answer: ok)
<dg>   ::= <d1> | pair <d1> | <d1>
<d1>   ::= mod <len> <sc> <seg> <tr>
         | foci <N> <size> <stmc> <seg> <tr> <x>:<y>:<z> {<i>.<j>=<x>:<y>:<z>}      hex binary32 patterns
         | gstm <mode> <size> <stmc> <seg> <tr>
         | linef <n> <stmc> | lineg <n> <stmc> | circf <n> <stmc> | circg <n> <stmc>   Line / Circle helpers
         | gain <seg> <gtr> | swapgain <seg> <modebyte> | swapmod <seg> | swapfoci <seg> | swapgstm <seg>
         | siltime <intensity ns> <phase ns> <strict> | clear | sync | fan | silsteps
<sc>   ::= d<division> | f<hex> | p<ns> | fn<hex> | pn<ns>                          SamplingConfig
<stmc> ::= F<hex> | P<ns> | S<sc> | FN<hex> | PN<ns>                               STMConfig
<tr>   ::= - | i            (None | Some(Immediate));      <gtr> ::= - | <modebyte>
answer: R=<ok | err:<Variant> | panic> N=<frames handed to the link>
```
The device count, segment and the valid transition of the multi-frame datagrams do not influence the
model (every device gets the same operations; the serial packer stops at the first device).
-/
namespace Autd3.Drv.C05
open Autd3.Reject Autd3.Drv Autd3.Gen

structure St where
  unit : Unit := ()

def init : St := {}

def numTr : Nat := 249

def errName : ErrKind → String
  | .modulationSizeOutOfRange => "ModulationSizeOutOfRange"
  | .invalidSilencerCompletionTime => "InvalidSilencerCompletionTime"
  | .silencerCompletionTimeOutOfRange => "SilencerCompletionTimeOutOfRange"
  | .scFreqOutOfRangeF => "SamplingConfig.FreqOutOfRangeF"
  | .scFreqInvalidF => "SamplingConfig.FreqInvalidF"
  | .scPeriodOutOfRange => "SamplingConfig.PeriodOutOfRange"
  | .scPeriodInvalid => "SamplingConfig.PeriodInvalid"
  | .stmPeriodInvalid => "STMPeriodInvalid"
  | .fociStmTotalSizeOutOfRange => "FociSTMTotalSizeOutOfRange"
  | .fociStmNumFociOutOfRange => "FociSTMNumFociOutOfRange"
  | .fociStmPointOutOfRange => "FociSTMPointOutOfRange"
  | .gainStmSizeOutOfRange => "GainSTMSizeOutOfRange"
  | .invalidTransitionMode => "InvalidTransitionMode"

def hex32 (s : String) : Option Nat := do
  if s.length = 0 ∨ s.length > 8 then none
  let v ← hexNat s
  pure v

def natLt (s : String) (bound : Nat) : Option Nat := do
  if s.length = 0 ∨ s.length > 24 then none
  let v ← s.toNat?
  if v < bound then pure v else none

def parseSc (w : String) : Option SCfg :=
  if w.startsWith "fn" then (hex32 (w.drop 2).toString).map .freqNearest
  else if w.startsWith "pn" then (natLt (w.drop 2).toString (2 ^ 64 * 1000000000)).map .periodNearest
  else if w.startsWith "d" then do
    let d ← natLt (w.drop 1).toString 65536
    if d = 0 then none else pure (.division d)
  else if w.startsWith "f" then (hex32 (w.drop 1).toString).map .freq
  else if w.startsWith "p" then (natLt (w.drop 1).toString (2 ^ 64 * 1000000000)).map .period
  else none

def parseStmc (w : String) : Option StmCfg :=
  if w.startsWith "FN" then (hex32 (w.drop 2).toString).map .freqNearest
  else if w.startsWith "PN" then (natLt (w.drop 2).toString (2 ^ 64 * 1000000000)).map .periodNearest
  else if w.startsWith "F" then (hex32 (w.drop 1).toString).map .freq
  else if w.startsWith "P" then (natLt (w.drop 1).toString (2 ^ 64 * 1000000000)).map .period
  else if w.startsWith "S" then (parseSc (w.drop 1).toString).map .sampling
  else none

def parseSeg (w : String) : Option Unit := if w = "0" ∨ w = "1" then some () else none
def parseTr (w : String) : Option Unit := if w = "-" ∨ w = "i" then some () else none

def parseP3 (w : String) : Option P3 :=
  match w.splitOn ":" with
  | [x, y, z] => do
    let x ← hex32 x; let y ← hex32 y; let z ← hex32 z
    pure (x, y, z)
  | _ => none

def parseOverride (w : String) : Option (Nat × Nat × P3) :=
  match w.splitOn "=" with
  | [ij, p] =>
    match ij.splitOn "." with
    | [i, j] => do
      let i ← natLt i (2 ^ 32); let j ← natLt j 16; let p ← parseP3 p
      pure (i, j, p)
    | _ => none
  | _ => none

def mkPoints (base : P3) (over : List (Nat × Nat × P3)) : Points := fun i j =>
  match over.find? (fun o => o.1 = i ∧ o.2.1 = j) with
  | some o => o.2.2
  | none => base

/-- a point every `Line`/`Circle` of the harness stays close to (all their points are valid) -/
def helperPoints : Points := fun _ _ => (0, 0, 0x43160000)

def parseD1 (ws : List String) : Option Dg1 :=
  match ws with
  | ["mod", len, sc, seg, tr] => do
    let len ← natLt len (2 ^ 32); let sc ← parseSc sc; parseSeg seg; parseTr tr
    pure (.modulation len sc)
  | "foci" :: n :: size :: c :: seg :: tr :: base :: over => do
    let n ← natLt n 10; let size ← natLt size (2 ^ 33); let c ← parseStmc c; parseSeg seg; parseTr tr
    let base ← parseP3 base
    let over ← over.mapM parseOverride
    pure (.fociStm n size c (mkPoints base over))
  | ["gstm", mode, size, c, seg, tr] => do
    let mode ← natLt mode 3; let size ← natLt size (2 ^ 32); let c ← parseStmc c; parseSeg seg; parseTr tr
    pure (.gainStm mode size c)
  | [k, n, c] =>
    if k = "linef" ∨ k = "circf" then do
      let n ← natLt n (2 ^ 33); let c ← parseStmc c
      pure (.fociStm 1 n c helperPoints)
    else if k = "lineg" ∨ k = "circg" then do
      let n ← natLt n (2 ^ 33); let c ← parseStmc c
      pure (.gainStm 0 n c)
    else if k = "gain" then do
      parseSeg n
      if c = "-" then pure (.gain none) else do
        let m ← natLt c 256
        pure (.gain (some m))
    else if k = "swapgain" then do
      parseSeg n
      let m ← natLt c 256
      pure (.swapGain m)
    else none
  | [k, seg] =>
    if k = "swapmod" ∨ k = "swapfoci" ∨ k = "swapgstm" then do parseSeg seg; pure .swapOther else none
  | ["siltime", i, p, strict] => do
    let i ← natLt i (2 ^ 64 * 1000000000); let p ← natLt p (2 ^ 64 * 1000000000)
    if strict = "0" ∨ strict = "1" then pure (.silencerTime i p) else none
  | ["clear"] => some (.simple DrvLayout.Clear_size)
  | ["sync"] => some (.simple DrvLayout.Sync_size)
  | ["fan"] => some (.simple DrvLayout.ForceFan_size)
  | ["silsteps"] => some (.simple DrvLayout.SilencerFixedCompletionSteps_size)
  | _ => none

def splitBar (ws : List String) : List String × Option (List String) :=
  let a := ws.takeWhile (· ≠ "|")
  let r := ws.dropWhile (· ≠ "|")
  match r with
  | _ :: b => (a, some b)
  | [] => (a, none)

def parseDg (ws : List String) : Option Dg :=
  match ws with
  | "pair" :: rest =>
    match splitBar rest with
    | (a, some b) => do
      let a ← parseD1 a; let b ← parseD1 b
      pure (.pair a b)
    | _ => none
  | _ => (parseD1 ws).map .single

def showOutcome (o : Res Unit × Nat) : String :=
  let r := match o.1 with
    | .ok _ => "ok"
    | .err e => "err:" ++ errName e
    | .panic _ => "panic"
  s!"R={r} N={o.2}"

def hex8 (n : Nat) : String :=
  toHex2 (n / 16777216) ++ toHex2 (n / 65536) ++ toHex2 (n / 256) ++ toHex2 n

def constsLine : String :=
  s!"unit={hex8 FIXED_NUM_UNIT} fmax={hex8 FREQ_MAX} fmin={hex8 FREQ_MIN} period={ULTRASOUND_PERIOD_NS} " ++
  s!"mod={Drv.MOD_BUF_SIZE_MIN}..{Drv.MOD_BUF_SIZE_MAX} stm={Drv.STM_BUF_SIZE_MIN} foci={Drv.FOCI_STM_BUF_SIZE_MAX} " ++
  s!"gain={Drv.GAIN_STM_BUF_SIZE_MAX} nf={Drv.FOCI_STM_FOCI_NUM_MAX} " ++
  s!"payload={payloadSize} imm={Drv.TRANSITION_MODE_IMMEDIATE}"

def step (st : St) (line : String) : St × String :=
  match words line with
  | ["consts"] => (st, constsLine)
  | "case" :: nd :: rest =>
    if nd = "1" ∨ nd = "2" then
      match parseDg rest with
      | some d => (st, showOutcome (send numTr d))
      | none => (st, "bad-op")
    else (st, "bad-op")
  | "casem" :: nd :: mask :: rest =>
    -- enable mask: one character per device, device 0 first (`1` = enabled)
    if (nd = "1" ∨ nd = "2") ∧ some mask.length = nd.toNat? ∧ mask.toList.all (fun c => c = '0' ∨ c = '1') then
      match parseDg rest with
      | some d => (st, showOutcome (sendMasked numTr (mask.toList.any (· = '1')) d))
      | none => (st, "bad-op")
    else (st, "bad-op")
  | "note" :: _ => (st, "ok")
  | _ => (st, "bad-op")

end Autd3.Drv.C05
