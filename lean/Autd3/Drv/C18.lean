import Autd3.Model.PbCodec
import Autd3.Drv.Common
/-! `pbcodec` stream (C18).  Request lines (answers in parentheses):

* `sizes`                      (`<tx size> <header size> <msg_id off> <slot2 off> <payload off> <payload size> <rx size> <rx data off> <rx ack off> <default sound speed bits>`)
* `txenc <n> <seed>`           frames = `lcgBytes seed (n·size)` cut into frames, byte 1 of each frame 0
                               (`<msg.n> <msg.data.len> <fnv64 data> <same|differ|err>`: decoded again)
* `txdec <n> <len> <seed>`     `from_msg(TxRawData{n, data = lcgBytes seed len})`
* `txdecx <n> <hex|->`         the same with explicit bytes
                               (`ok <frames> <fnv all bytes> <fnv header fields> <fnv payloads> <re-encoded n> <len> <fnv>` / `err`)
* `rxenc <count> <seed>`       (`<len> <fnv64 data> <same|differ|err>`)
* `rxdec <len> <seed>` / `rxdecx <hex|->`
                               (`ok <count> <fnv data fields> <fnv ack fields> <re-encoded len> <fnv>` / `err`)
* `simrx <n> <len> <seed>`     the REAL `Simulator` link's `receive` of a `len`-byte reply into `n` acknowledgements
                               `(0xA5,0x5A)` (`ok <n> <fnv of the n elements> <guard changed> 0` / `err`) = `linkReceive`
* `simtx <n> <seed>`           the real link's `send`: what the peer received (`<n> <len> <fnv> same`) = `linkSend`
* `geo <dev;dev;…|->`          dev = 8 words `px py pz rw ri rj rk ss` as 64 hex digits
                               (`msg <devmsg;…> dec <dev;…>`)
* `geodec <devmsg;…|->`        devmsg = `<24 hex|->,<32 hex|->,<8 hex|->` (pos, rot w x y z, sound speed)
                               (`dec <dev;…>`)
* `f32 <mul|add|sub|div|sqrt> <a> <b>`   (`<8 hex>`, NaN canonical)

Every `f32` on an answer line is a bit pattern with NaN canonicalised to `7fc00000`.  `err` = the call
returned `Err(_)` (the harness strips the variant: the property asks for "an error"; the model's is
`DataParseError`), `panic` = it panicked, `crash` (harness only) = the child process died. -/
namespace Autd3.Drv.C18
open Autd3.PbCodec Autd3.Drv Autd3.Gen.PbCodec

structure St where
  lines : Nat := 0

def init : St := {}

/-- cheap byte generator shared with the harness (31-bit LCG, bits 16..23 of each state) -/
def lcgBytes (seed len : Nat) : Array Nat := Id.run do
  let mut s := seed % 2147483648
  let mut out : Array Nat := Array.mkEmpty len
  for _ in [0:len] do
    s := (s * 1103515245 + 12345) % 2147483648
    out := out.push ((s / 65536) % 256)
  return out

def hex8 (w : Nat) : String :=
  toHex2 ((w / 16777216) % 256) ++ toHex2 ((w / 65536) % 256) ++ toHex2 ((w / 256) % 256) ++ toHex2 (w % 256)

def hex16 (w : Nat) : String := hex8 (w / 4294967296) ++ hex8 (w % 4294967296)

/-- big-endian 32-bit words of a hex string whose length is a multiple of 8 -/
def hexWords (s : String) : Option (List Nat) := do
  let bs ← hexBytes s
  if bs.size % 4 ≠ 0 then none
  else
    let rec go (l : List Nat) (fuel : Nat) : List Nat :=
      match fuel, l with
      | fuel + 1, a :: b :: c :: d :: rest => (((a * 256 + b) * 256 + c) * 256 + d) :: go rest fuel
      | _, _ => []
    some (go bs.toList bs.size)

def errStr : Err → String
  | .dataParseError => "err"
  | .panic _ => "panic"

/-- frames for `txenc`: the harness can set every byte of a `TxMessage` through public fields except
the padding byte at offset 1, which stays 0 -/
def mkFrames (n seed : Nat) : List (List Nat) :=
  let bytes := (lcgBytes seed (n * TX_MESSAGE_SIZE)).toList
  (chunks TX_MESSAGE_SIZE n bytes).map fun f => f.take 1 ++ [0] ++ f.drop 2

def txAnswer (r : Except Err (List (List Nat))) : String :=
  match r with
  | .error e => errStr e
  | .ok frames =>
    let all := (asBytes frames).toArray
    let hdr := (frames.flatMap fun f =>
      [f.getD HEADER_MSG_ID_OFFSET 0, f.getD HEADER_SLOT_2_OFFSET 0, f.getD (HEADER_SLOT_2_OFFSET + 1) 0]).toArray
    let pay := (frames.flatMap fun f => (f.drop TX_PAYLOAD_OFFSET).take TX_PAYLOAD_SIZE).toArray
    let re := encodeTx frames
    s!"ok {frames.length} {hex16 (fnv64 all)} {hex16 (fnv64 hdr)} {hex16 (fnv64 pay)} {re.n} {re.data.length} {hex16 (fnv64 re.data.toArray)}"

def rxAnswer (r : Except Err (List Rx)) : String :=
  match r with
  | .error e => errStr e
  | .ok rx =>
    let re := encodeRx rx
    s!"ok {rx.length} {hex16 (fnv64 (rx.map (·.data)).toArray)} {hex16 (fnv64 (rx.map (·.ack)).toArray)} {re.length} {hex16 (fnv64 re.toArray)}"

def optHex (s : String) : Option (Array Nat) := if s = "-" then some #[] else hexBytes s

def poseStr (p : Pose) : String :=
  let c := F32.canon
  hex8 (c p.pos.x) ++ hex8 (c p.pos.y) ++ hex8 (c p.pos.z) ++ "/" ++
  hex8 (c p.rot.w) ++ hex8 (c p.rot.i) ++ hex8 (c p.rot.j) ++ hex8 (c p.rot.k) ++ "/" ++ hex8 (c p.soundSpeed)

def devMsgStr (m : DevMsg) : String :=
  let c := F32.canon
  (match m.pos with | some p => hex8 (c p.x) ++ hex8 (c p.y) ++ hex8 (c p.z) | none => "-") ++ "," ++
  (match m.rot with | some q => hex8 (c q.w) ++ hex8 (c q.x) ++ hex8 (c q.y) ++ hex8 (c q.z) | none => "-") ++ "," ++
  (match m.soundSpeed with | some s => hex8 (c s) | none => "-")

def joinSemi (xs : List String) : String := if xs.isEmpty then "-" else ";".intercalate xs

def parsePose (s : String) : Option Pose := do
  match ← hexWords s with
  | [px, py, pz, rw, ri, rj, rk, ss] => some ⟨⟨px, py, pz⟩, ⟨rw, ri, rj, rk⟩, ss⟩
  | _ => none

def parseDevMsg (s : String) : Option DevMsg := do
  match s.splitOn "," with
  | [p, r, v] =>
    let pos ← if p = "-" then some none else
      match ← hexWords p with | [x, y, z] => some (some (V3.mk x y z)) | _ => none
    let rot ← if r = "-" then some none else
      match ← hexWords r with | [w, x, y, z] => some (some (QuatMsg.mk w x y z)) | _ => none
    let ss ← if v = "-" then some none else
      match ← hexWords v with | [x] => some (some x) | _ => none
    some ⟨pos, rot, ss⟩
  | _ => none

def parseList {α : Type} (f : String → Option α) (s : String) : Option (List α) :=
  if s = "-" then some [] else (s.splitOn ";").mapM f

def decStr (r : Except Err (List Pose)) : String :=
  match r with
  | .error e => errStr e
  | .ok g => "dec " ++ joinSemi (g.map poseStr)

def answer (line : String) : String :=
  match words line with
  | ["sizes"] =>
    s!"{TX_MESSAGE_SIZE} {HEADER_SIZE} {HEADER_MSG_ID_OFFSET} {HEADER_SLOT_2_OFFSET} {TX_PAYLOAD_OFFSET} {TX_PAYLOAD_SIZE} {RX_MESSAGE_SIZE} {RX_DATA_OFFSET} {RX_ACK_OFFSET} {hex8 DEFAULT_SOUND_SPEED_BITS}"
  | ["txenc", n, seed] =>
    match nats [n, seed] with
    | some [n, seed] =>
      let frames := mkFrames n seed
      let msg := linkSend frames
      let rt := match decodeTx msg with
        | .ok f2 => if f2 = frames then "same" else "differ"
        | .error e => errStr e
      s!"{msg.n} {msg.data.length} {hex16 (fnv64 msg.data.toArray)} {rt}"
    | _ => "bad-op"
  | ["txdec", n, len, seed] =>
    match nats [n, len, seed] with
    | some [n, len, seed] =>
      if n < 4294967296 then txAnswer (decodeTx ⟨(lcgBytes seed len).toList, n⟩) else "bad-op"
    | _ => "bad-op"
  | ["txdecx", n, h] =>
    match n.toNat?, optHex h with
    | some n, some data => if n < 4294967296 then txAnswer (decodeTx ⟨data.toList, n⟩) else "bad-op"
    | _, _ => "bad-op"
  | ["rxenc", count, seed] =>
    match nats [count, seed] with
    | some [count, seed] =>
      let rx := rxOfBytes (lcgBytes seed (2 * count)).toList
      let data := encodeRx rx
      let rt := match decodeRx data with
        | .ok r2 => if r2 = rx then "same" else "differ"
        | .error e => errStr e
      s!"{data.length} {hex16 (fnv64 data.toArray)} {rt}"
    | _ => "bad-op"
  | ["rxdec", len, seed] =>
    match nats [len, seed] with
    | some [len, seed] => rxAnswer (decodeRx (lcgBytes seed len).toList)
    | _ => "bad-op"
  | ["rxdecx", h] =>
    match optHex h with
    | some data => rxAnswer (decodeRx data.toList)
    | none => "bad-op"
  | ["simrx", n, len, seed] =>
    match nats [n, len, seed] with
    | some [n, len, seed] =>
      match linkReceive (List.replicate n ⟨0xA5, 0x5A⟩) (lcgBytes seed len).toList with
      | .error e => errStr e
      | .ok (out, _) => s!"ok {n} {hex16 (fnv64 (encodeRx out).toArray)} 0 0"
    | _ => "bad-op"
  | ["simtx", n, seed] =>
    match nats [n, seed] with
    | some [n, seed] =>
      let msg := linkSend (mkFrames n seed)
      s!"{msg.n} {msg.data.length} {hex16 (fnv64 msg.data.toArray)} same"
    | _ => "bad-op"
  | ["geo", devs] =>
    match parseList parsePose devs with
    | some g =>
      let msg := encodeGeometry g
      "msg " ++ joinSemi (msg.map devMsgStr) ++ " " ++ decStr (decodeGeometry msg)
    | none => "bad-op"
  | ["geodec", devs] =>
    match parseList parseDevMsg devs with
    | some msg => decStr (decodeGeometry msg)
    | none => "bad-op"
  | ["f32", op, a, b] =>
    match hexNat a, hexNat b with
    | some a, some b =>
      if a < 4294967296 ∧ b < 4294967296 then
        match op with
        | "mul" => hex8 (F32.canon (F32.mul a b))
        | "add" => hex8 (F32.canon (F32.add a b))
        | "sub" => hex8 (F32.canon (F32.sub a b))
        | "div" => hex8 (F32.canon (F32.div a b))
        | "sqrt" => hex8 (F32.canon (F32.sqrt a))
        | _ => "bad-op"
      else "bad-op"
    | _, _ => "bad-op"
  | _ => "bad-op"

def step (st : St) (line : String) : St × String := ({ lines := st.lines + 1 }, answer line)

end Autd3.Drv.C18
