import Autd3.Model.Wire
import Autd3.Model.Obs
import Autd3.Drv.Common
/-!
`fw` stream: the driver model (`Wire`) feeding the firmware model (`Fw`), observed through `Obs`.
Serves C01 C02 C03 C05 C08 C17 C19.  Grammar (one request per line):

  reset <ndev> <t0>                 new devices (249 transducers), clock t0, tx buffers zeroed
  send <dg>                         full send: pack → deliver → stop at first error ack
  abort <k> <dg>                    as send, but stop after k frames (a send cut by a link failure)
  clk <t>                           update_with_sys_time(t) on every device
  thermo <dev> <0|1>                assert / deassert the thermal sensor
  read                              drives(), modulation() of every device
  obs <dev>                         the full observation record of one device (diagnosis)
  rawframe <dev> <hex>              deliver an arbitrary 626-byte frame (not SDK-producible)
  note <text>                       an implementation-only oracle case ran here (answer: ok)

<dg> ::= clear | sync | fan b | reads b | cpugpio v | gpioin flags | debug v0 v1 v2 v3
       | phasecorr seed | pwe seed | pwedefault | modraw seg tr rep div hex | silsteps i p strict | silrate i p
       | gain seg tr seed | mod seg tr rep div n seed | foci N seg tr rep div ss size seed
       | gainstm mode seg tr rep div size seed | swapgain seg tr | swapmod seg tr | swapfoci seg tr
       | swapgainstm seg tr | firminfo ty | pair <dg> | <dg>
       | fanmask bits | readsmask bits            (bit `dev` of the mask is this device's flag)
       | cpugpiodev v0:v1:… | gpioindev f0:f1:…   (device d gets element d mod length)
       | debugdev v0 v1 v2 v3                     (device d, pin k gets v[(k+d) mod 4])
<tr> ::= - | mode:value
-/
namespace Autd3.Drv.FwS
open Autd3.Drv Autd3.Fw Autd3.Wire

def numTr : Nat := 249

structure Dev where
  fw : State := {}
  tx : Tx := {}
  -- cached parts of the observation hash (recomputed only when the model touched them)
  modH : Nat × Nat := (0, 0)
  stmH : Nat × Nat := (0, 0)
deriving Inhabited

structure St where
  devs : Array Dev := #[]
  t : Nat := 0
  dead : Option String := none     -- a model panic is sticky: every later answer repeats it

def init : St := {}

def parseTr (w : String) : Option Tr :=
  if w = "-" then some none
  else match w.splitOn ":" with
    | [m, v] => do let m ← m.toNat?; let v ← v.toNat?; pure (some (m, v))
    | _ => none

/-- pseudo-random payloads, identical to the harness -/
def gainDrivesOf (seed dev : Nat) : Array Nat :=
  let b := prBytes (seed + 1000003 * dev) (2 * numTr)
  (Array.range numTr).map fun i => rd b (2 * i) + 256 * rd b (2 * i + 1)

def fociRecords (seed n size : Nat) : Array Nat :=
  let b := prBytes seed (size * n * 8)
  (Array.range (size * n)).map fun k =>
    -- coordinates in ±2^15 fixed-point units (±819 mm), intensity/offset byte
    let x := (rd b (8 * k) + 256 * rd b (8 * k + 1)) % 65536
    let y := (rd b (8 * k + 2) + 256 * rd b (8 * k + 3)) % 65536
    let z := (rd b (8 * k + 4) + 256 * rd b (8 * k + 5)) % 65536
    let io := rd b (8 * k + 6)
    let enc (v : Nat) : Nat := if v < 32768 then v else 262144 - (65536 - v)
    enc x + 262144 * enc y + 68719476736 * enc z + 18014398509481984 * io

/-- parse one non-pair datagram for device `dev`; returns it and the remaining words -/
def parseDg1 (ws : List String) (dev : Nat) : Option (Dg × List String) :=
  match ws with
  | "clear" :: r => some (.clear, r)
  | "sync" :: r => some (.sync, r)
  | "fan" :: b :: r => do let b ← b.toNat?; pure (.forceFan (b = 1), r)
  | "reads" :: b :: r => do let b ← b.toNat?; pure (.readsFpgaState (b = 1), r)
  | "cpugpio" :: v :: r => do let v ← v.toNat?; pure (.cpuGpioOut v, r)
  | "gpioin" :: v :: r => do let v ← v.toNat?; pure (.gpioIn v, r)
  | "debug" :: a :: b :: c :: d :: r => do
    let a ← hexNat a; let b ← hexNat b; let c ← hexNat c; let d ← hexNat d
    pure (.debug #[a, b, c, d], r)
  | "phasecorr" :: sd :: r => do let sd ← sd.toNat?; pure (.phaseCorr (prBytes (sd + 1000003 * dev) numTr), r)
  | "pwe" :: sd :: r => do
    let sd ← sd.toNat?
    let b := prBytes sd 512
    pure (.pwe ((Array.range 256).map fun i => (rd b (2 * i) + 256 * rd b (2 * i + 1)) % 512), r)
  | "pwedefault" :: r => some (.pwe ((Array.range 256).map Autd3.Gen.Tables.drvAsin), r)
  | "modraw" :: seg :: tr :: rep :: div :: hx :: r => do
    let seg ← seg.toNat?; let tr ← parseTr tr; let rep ← rep.toNat?; let div ← div.toNat?
    let bytes ← hexBytes hx
    pure (.modulation seg tr rep div bytes, r)
  | "silsteps" :: i :: p :: st :: r => do let i ← i.toNat?; let p ← p.toNat?; let st ← st.toNat?; pure (.silencerSteps i p (st = 1), r)
  | "silrate" :: i :: p :: r => do let i ← i.toNat?; let p ← p.toNat?; pure (.silencerRate i p, r)
  | "gain" :: seg :: tr :: sd :: r => do
    let seg ← seg.toNat?; let tr ← parseTr tr; let sd ← sd.toNat?
    pure (.gain seg tr (gainDrivesOf sd dev), r)
  | "mod" :: seg :: tr :: rep :: div :: n :: sd :: r => do
    let seg ← seg.toNat?; let tr ← parseTr tr; let rep ← rep.toNat?; let div ← div.toNat?
    let n ← n.toNat?; let sd ← sd.toNat?
    pure (.modulation seg tr rep div (prBytes sd n), r)
  | "foci" :: n :: seg :: tr :: rep :: div :: ss :: size :: sd :: r => do
    let n ← n.toNat?; let seg ← seg.toNat?; let tr ← parseTr tr; let rep ← rep.toNat?
    let div ← div.toNat?; let ss ← ss.toNat?; let size ← size.toNat?; let sd ← sd.toNat?
    pure (.fociStm n seg tr rep div ss (fociRecords sd n size), r)
  | "gainstm" :: mode :: seg :: tr :: rep :: div :: size :: sd :: r => do
    let mode ← mode.toNat?; let seg ← seg.toNat?; let tr ← parseTr tr; let rep ← rep.toNat?
    let div ← div.toNat?; let size ← size.toNat?; let sd ← sd.toNat?
    pure (.gainStm mode seg tr rep div ((Array.range size).map fun k => gainDrivesOf (sd + 7919 * k) dev), r)
  | "swapgain" :: seg :: tr :: r => do
    let seg ← seg.toNat?; let tr ← parseTr tr
    match tr with | some (m, v) => pure (.swapGain seg m v, r) | none => none
  | "swapmod" :: seg :: tr :: r => do
    let seg ← seg.toNat?; let tr ← parseTr tr
    match tr with | some (m, v) => pure (.swapMod seg m v, r) | none => none
  | "swapfoci" :: seg :: tr :: r => do
    let seg ← seg.toNat?; let tr ← parseTr tr
    match tr with | some (m, v) => pure (.swapFoci seg m v, r) | none => none
  | "swapgainstm" :: seg :: tr :: r => do
    let seg ← seg.toNat?; let tr ← parseTr tr
    match tr with | some (m, v) => pure (.swapGainStm seg m v, r) | none => none
  | "firminfo" :: ty :: r => do let ty ← ty.toNat?; pure (.firmInfo ty, r)
  -- per-device forms (additive): the user closure of the datagram is evaluated for *this* device
  | "fanmask" :: m :: r => do let m ← m.toNat?; pure (.forceFan (m.testBit dev), r)
  | "readsmask" :: m :: r => do let m ← m.toNat?; pure (.readsFpgaState (m.testBit dev), r)
  | "cpugpiodev" :: l :: r => do
    let xs ← (l.splitOn ":").mapM String.toNat?
    if xs.isEmpty then none else pure (.cpuGpioOut (xs.getD (dev % xs.length) 0), r)
  | "gpioindev" :: l :: r => do
    let xs ← (l.splitOn ":").mapM String.toNat?
    if xs.isEmpty then none else pure (.gpioIn (xs.getD (dev % xs.length) 0), r)
  | "debugdev" :: a :: b :: c :: d :: r => do
    let a ← hexNat a; let b ← hexNat b; let c ← hexNat c; let d ← hexNat d
    let v := #[a, b, c, d]
    pure (.debug ((Array.range 4).map fun k => v.getD ((k + dev) % 4) 0), r)
  | _ => none

/-- a datagram line → the two operations of device `dev` -/
def parseOps (ws : List String) (dev : Nat) : Option (Op × Op) :=
  match ws with
  | "pair" :: r => do
    let (a, r) ← parseDg1 r dev
    match r with
    | "|" :: r => do
      let (b, r) ← parseDg1 r dev
      if r.isEmpty then pure (Op.ofDg a, Op.ofDg b) else none
    | _ => none
  | _ => do
    let (a, r) ← parseDg1 ws dev
    if r.isEmpty then pure (Op.ofDg a, Op.ofDg .null) else none

def errName : Err → String
  | .invalidTransitionMode => "InvalidTransitionMode"
  | .modulationSizeOutOfRange _ => "ModulationSizeOutOfRange"
  | .fociStmTotalSizeOutOfRange _ => "FociSTMTotalSizeOutOfRange"
  | .fociStmNumFociOutOfRange _ => "FociSTMNumFociOutOfRange"
  | .gainStmSizeOutOfRange _ => "GainSTMSizeOutOfRange"

def panicName : Panic → String
  | .unreachable s => "unreachable:" ++ s
  | .index s => "index:" ++ s
  | .overflow s => "overflow:" ++ s
  | .divZero s => "divzero:" ++ s
  | .unwrapNone s => "unwrap:" ++ s

/-! ### observation record -/

def tmodeStr : M TMode → String
  | .ok .syncIdx => "sync"
  | .ok (.sysTime t) => s!"sys{t}"
  | .ok (.gpio g) => s!"gpio{g}"
  | .ok .ext => "ext"
  | .ok .immediate => "imm"
  | .error _ => "P"

def mnat : M Nat → String
  | .ok v => toString v
  | .error _ => "P"

def wordsBytes (ws : Array Nat) : Array Nat := Id.run do
  let mut out := Array.mkEmpty (2 * ws.size)
  for w in ws do
    out := out.push (w % 256)
    out := out.push ((w / 256) % 256)
  return out

/-- indices whose drives enter the STM hash: everything for short sequences, otherwise the ends and
every page boundary ±1 -/
def sampleIdx (cycle unit : Nat) : List Nat :=
  if cycle ≤ 16 then List.range cycle
  else
    let base := [0, 1, 2, cycle - 2, cycle - 1]
    let bs := (List.range 15).flatMap fun j =>
      let b := if unit = 0 then 0 else (4096 * (j + 1)) / unit
      [b - 1, b, b + 1]
    (base ++ bs.filter (· < cycle)).eraseDups

def stmHash (s : State) (seg : Nat) : Nat :=
  let cycle := Obs.stmCycle s seg
  let gain := Obs.isStmGainMode s seg
  let nf := Obs.numFoci s seg
  let idxs := sampleIdx cycle (if gain then 64 else nf)
  idxs.foldl (fun h i =>
    match Obs.drivesAt s seg i with
    | .ok ds => fnv64 (wordsBytes (#[h % 65536, (h / 65536) % 65536, (h / 4294967296) % 65536, h / 281474976710656] ++ ds))
    | .error _ => fnv64 #[0x50, h % 256]) 0

def modHash (s : State) (seg : Nat) : Nat :=
  match Obs.modBuffer s seg with
  | .ok b => fnv64 b
  | .error _ => 0x50

def b2n (b : Bool) : Nat := if b then 1 else 0

def scalarObs (s : State) : String :=
  let steps := match Obs.silencerCompletionSteps s with | .ok (i, p) => s!"{i}/{p}" | .error _ => "P"
  let ur := Obs.silencerUpdateRate s
  let segs (f : Nat → Nat) : String := s!"{f 0}/{f 1}"
  let pwe := match Obs.pweTable s with | .ok t => toString (fnv64 (wordsBytes t)) | .error _ => "P"
  String.intercalate " " [
    s!"ack={s.ack}", s!"rx={s.rxData}", s!"reads={b2n s.readsFpgaState}", s!"sync={b2n s.synchronized}",
    s!"porta={s.portA}", s!"strict={b2n s.strict}", s!"ur={ur.1}/{ur.2}", s!"steps={steps}",
    s!"fixedrate={b2n (Obs.silencerFixedUpdateRateMode s)}",
    s!"modreq={mnat (Obs.reqModSeg s)}", s!"modtr={tmodeStr (Obs.modTransition s)}",
    s!"stmreq={mnat (Obs.reqStmSeg s)}", s!"stmtr={tmodeStr (Obs.stmTransition s)}",
    s!"moddiv={segs (Obs.modDiv s)}", s!"modcycle={segs (Obs.modCycle s)}", s!"modrep={segs (Obs.modRep s)}",
    s!"gainmode={segs (fun g => b2n (Obs.isStmGainMode s g))}", s!"stmdiv={segs (Obs.stmDiv s)}",
    s!"stmcycle={segs (Obs.stmCycle s)}", s!"stmrep={segs (Obs.stmRep s)}", s!"ss={segs (Obs.soundSpeed s)}",
    s!"nf={segs (Obs.numFoci s)}", s!"pwe={pwe}", s!"pc={fnv64 (Obs.phaseCorrection s)}",
    s!"dbgt={Obs.debugTypes s}", s!"dbgv={Obs.debugValues s}", s!"fan={b2n (Obs.isForceFan s)}",
    s!"thermo={b2n (Obs.isThermo s)}", s!"state={Obs.fpgaStateReg s}",
    s!"cur={Obs.currentModSeg s}/{Obs.currentStmSeg s}", s!"idx={Obs.currentModIdx s}/{Obs.currentStmIdx s}",
    s!"gpio={b2n (gpioIn s 0)}{b2n (gpioIn s 1)}{b2n (gpioIn s 2)}{b2n (gpioIn s 3)}"]

def obsHash (d : Dev) : String :=
  s!"{fnv64 ((scalarObs d.fw).toUTF8.toList.toArray.map (fun (b : UInt8) => b.toNat))}:{d.modH.1}:{d.modH.2}:{d.stmH.1}:{d.stmH.2}"

def refresh (d : Dev) (mod stm : Bool) : Dev :=
  let d := if mod then { d with modH := (modHash d.fw 0, modHash d.fw 1) } else d
  if stm then { d with stmH := (stmHash d.fw 0, stmHash d.fw 1) } else d

def touches (o : Op) : Bool × Bool :=
  match o.dg with
  | .clear => (true, true)
  | .modulation .. => (true, false)
  | .gain .. | .fociStm .. | .gainStm .. | .phaseCorr _ => (false, true)
  | _ => (false, false)

/-! ### the send loop (what `Sender::send` does, without the link) -/

structure SendRes where
  devs : Array Dev
  frames : Nat
  fh : Nat
  result : String

def hashFrame (h : Nat) (dev : Nat) (frame : Array Nat) : Nat :=
  fnv64 (#[h % 256, (h / 256) % 256, (h / 65536) % 256, (h / 16777216) % 256, (h / 4294967296) % 256,
           (h / 1099511627776) % 256, (h / 281474976710656) % 256, (h / 72057594037927936) % 256, dev % 256] ++ frame)

/-- one frame for every device: pack in device order (stops at the first pack error), deliver, check acks -/
def sendLoop (devs : Array Dev) (ops : Array (Op × Op)) (maxFrames fuel : Nat) (frames fh : Nat) :
    Except Panic SendRes :=
  match fuel with
  | 0 => .ok { devs, frames, fh, result := "err:model-fuel" }
  | fuel + 1 =>
    if ops.all (fun o => o.1.done && o.2.done) ∨ frames ≥ maxFrames then
      .ok { devs, frames, fh, result := if frames ≥ maxFrames ∧ ¬ ops.all (fun o => o.1.done && o.2.done) then "aborted" else "ok" }
    else Id.run do
      -- pack
      let mut devs := devs
      let mut ops := ops
      for i in [0:devs.size] do
        let d := devs[i]!
        let (o1, o2) := ops[i]!
        match packOp2 o1 o2 numTr d.tx with
        | .error (e, tx) =>
          devs := devs.set! i { d with tx := tx }
          return .ok { devs, frames, fh, result := "err:" ++ errName e }
        | .ok (o1, o2, tx) =>
          devs := devs.set! i { d with tx := tx }
          ops := ops.set! i (o1, o2)
      -- deliver
      let mut fh := fh
      let mut bad : Option Nat := none
      for i in [0:devs.size] do
        let d := devs[i]!
        let frame := d.tx.frame
        fh := hashFrame fh i frame
        match ecatRecv d.fw frame with
        | .error p => return .error p
        | .ok fw =>
          devs := devs.set! i { d with fw := fw }
          if fw.ack &&& 0x80 ≠ 0 ∧ bad.isNone then bad := some fw.ack
      match bad with
      | some a => return .ok { devs, frames := frames + 1, fh, result := s!"err:fw:{a}" }
      | none => return sendLoop devs ops maxFrames fuel (frames + 1) fh

def answerSend (st : St) (ws : List String) (maxFrames : Nat) : St × String :=
  let opsO := (List.range st.devs.size).mapM (parseOps ws)
  match opsO with
  | none => (st, "bad-op")
  | some opsL =>
    let ops := opsL.toArray
    -- payload and slot-2 offset are cleared before every send (the harness does the same)
    let devs := st.devs.map fun d => { d with tx := { msgId := d.tx.msgId } }
    match sendLoop devs ops maxFrames 100000 0 0 with
    | .error p => ({ st with dead := some (panicName p) }, "panic")
    | .ok r =>
      let (tm, ts) := ops.foldl (fun (a : Bool × Bool) o => (a.1 || (touches o.1).1 || (touches o.2).1, a.2 || (touches o.1).2 || (touches o.2).2)) (false, false)
      let devs := r.devs.map fun d => refresh d tm ts
      let obs := " ".intercalate (devs.toList.map obsHash)
      ({ st with devs := devs }, s!"R={r.result} N={r.frames} F={r.fh} O={obs}")

def step (st : St) (line : String) : St × String :=
  let ws := words line
  let st := if ws.head? = some "reset" then { st with dead := none } else st
  match st.dead, ws with
  | some p, _ => (st, "dead:" ++ p)
  | _, ["reset", n, t0] =>
    match n.toNat?, t0.toNat? with
    | some n, some t0 =>
      let mk : Except Panic Dev := do
        let fw ← Fw.new numTr t0
        let fw ← updateWithSysTime fw t0
        pure (refresh { fw := fw } true true)
      match mk with
      | .ok d => ({ devs := Array.replicate n d, t := t0 }, "ok")
      | .error p => ({ st with dead := some (panicName p) }, "panic")
    | _, _ => (st, "bad-op")
  | _, "send" :: ws => answerSend st ws 1000000
  | _, "abort" :: k :: ws =>
    match k.toNat? with
    | some k => answerSend st ws k
    | none => (st, "bad-op")
  | _, ["clk", t] =>
    match t.toNat? with
    | some t =>
      let r := st.devs.mapM fun d => do
        let fw ← updateWithSysTime d.fw t
        pure { d with fw := fw }
      match r with
      | .ok devs => ({ st with devs := devs, t := t },
          "S " ++ " ".intercalate (devs.toList.map fun d => s!"{Obs.fpgaStateReg d.fw}/{d.fw.rxData}/{Obs.currentModSeg d.fw}/{Obs.currentStmSeg d.fw}/{Obs.currentModIdx d.fw}/{Obs.currentStmIdx d.fw}"))
      | .error p => ({ st with dead := some (panicName p) }, "panic")
    | none => (st, "bad-op")
  | _, ["thermo", dv, on] =>
    match dv.toNat?, on.toNat? with
    | some dv, some on =>
      if h : dv < st.devs.size then
        let d := st.devs[dv]
        ({ st with devs := st.devs.set dv { d with fw := setThermo d.fw (on = 1) } }, "ok")
      else (st, "bad-op")
    | _, _ => (st, "bad-op")
  | _, "note" :: _ => (st, "ok")
  | _, ["read"] =>
    let parts := st.devs.toList.map fun d =>
      let dr := match Obs.drives d.fw with | .ok ds => toString (fnv64 (wordsBytes ds)) | .error _ => "P"
      let m := mnat (Obs.modulation d.fw)
      s!"{dr}/{m}"
    (st, "D " ++ " ".intercalate parts)
  | _, ["obs", dv] =>
    match dv.toNat? with
    | some dv =>
      if h : dv < st.devs.size then
        let d := refresh st.devs[dv] true true
        (st, scalarObs d.fw ++ s!" modh={d.modH.1}/{d.modH.2} stmh={d.stmH.1}/{d.stmH.2}")
      else (st, "bad-op")
    | none => (st, "bad-op")
  | _, ["rawframe", dv, hx] =>
    match dv.toNat?, hexBytes hx with
    | some dv, some bytes =>
      if h : dv < st.devs.size then
        let d := st.devs[dv]
        match ecatRecv d.fw bytes with
        | .ok fw =>
          let d := refresh { d with fw := fw } true true
          ({ st with devs := st.devs.set dv d }, s!"A={fw.ack} O={obsHash d}")
        | .error p => ({ st with dead := some (panicName p) }, "panic")
      else (st, "bad-op")
    | _, _ => (st, "bad-op")
  | _, _ => (st, "bad-op")

end Autd3.Drv.FwS
