import Autd3.Model.Silencer
import Autd3.Drv.Common
/-! `silencer` stream: `new <P|I> <fixed 0|1> <value> <initial>` / `apply <t>…` / `handover <fixed 0|1> <value>` -/
namespace Autd3.Drv.C09
open Autd3.Silencer Autd3.Drv

structure St where
  phase : Bool := false
  sil : Sil := Sil.new false 1 0

def init : St := {}

def step (st : St) (line : String) : St × String :=
  match words line with
  | ["new", k, f, v, i] =>
    match nats [f, v, i] with
    | some [f, v, i] =>
      if (k = "P" ∨ k = "I") ∧ f ≤ 1 ∧ 0 < v ∧ v < 65536 ∧ i < 256 then
        ({ phase := k = "P", sil := Sil.new (f = 1) v i }, "ok")
      else (st, "bad-op")
    | _ => (st, "bad-op")
  | ["handover", f, v] =>
    match nats [f, v] with
    | some [f, v] =>
      if f ≤ 1 ∧ 0 < v ∧ v < 65536 then ({ st with sil := st.sil.continueWith (f = 1) v }, "ok")
      else (st, "bad-op")
    | _ => (st, "bad-op")
  | "apply" :: ts =>
    match nats ts with
    | some ts =>
      if ts.all (· < 256) then
        let (s', outs) := if st.phase then st.sil.runP ts else st.sil.runI ts
        ({ st with sil := s' }, joinNats outs)
      else (st, "bad-op")
    | none => (st, "bad-op")
  | _ => (st, "bad-op")

end Autd3.Drv.C09
