import Autd3.Lemmas.Ctl
/-!
# C04 — `send()` reports success only when every enabled device acknowledged every frame

Property theorems only.  The model is `Model/Ctl.lean` (mirror of `Sender::send`, `send_impl`,
`send_receive`, `wait_msg_processed`, `open_impl`, `close_impl`, `check_if_msg_is_processed`,
`check_firmware_err`, `firmware_err`, `OperationHandler::generate`/`pack` with their `dev.enable`
filter and the message-id rule, and the duplicate-id check of `CPUEmulator::ecat_recv`); it is tied to
the Rust code by the `sender` stream (and, for the async copy, `sender_async`).  The specification
side lives in `Lemmas/Ctl.lean` and speaks only about observables: the returned result and the
sequence of calls the link saw, read through the devices' `enable` flags `en` (`St.enable`; a
disabled device receives nothing, so "all devices" in the property means all **enabled** devices;
`masked en xs` is the sub-list of `xs` that belongs to enabled devices) —

* `ackedBeforeNext en none tr`: every transmitted frame (`send tx true`) is followed, before the next
  transmission and before the end, by a `receive` in which every enabled device's acknowledgement is
  exactly that frame's message id for that device;
* `walk tz en ⟨none, .stuck⟩ tr`: the verdict the property prescribes when the last call in `tr` is the
  last thing the link said (`callVerdict`): closed ⇒ `LinkClosed`; a failed `update`/`send`/`receive`
  ⇒ that link error; a `receive` in which all enabled devices acknowledge the last frame ⇒ `Ok`;
  otherwise the first **enabled** device (in order) with the error bit ⇒ `firmware_err(ack)`;
  otherwise `Ok` if the timeout is zero, `ConfirmResponseFailed` if not;
* `blank en rx` wipes what the disabled devices said: two link scripts with the same `blankScript`
  differ only in the bytes disabled devices answer.

All theorems are for every state with one `RxMessage` and one `enable` flag per `TxMessage`
(`St.wf`; established by `open`, preserved by `send`: `open_establishes_wf`, `send_preserves_wf`),
every number of devices, **every enable mask**, every set of operations, every link script.
`Res.stuck` marks an exhausted script (the real loop would still be running); `terminates_*` show
when it cannot occur.
-/
namespace Autd3.Ctl

private theorem send_enable (opt : Option Nat) (d : Datagram) (st : St) (sc : SendScript) :
    (send opt d st sc).2.1.enable = st.enable := by
  simp only [send]
  split
  · rfl
  · simp only [sendImpl]; split
    · rfl
    · exact sendLoop_enable _ _ _ _ _

/-- the state invariant holds after `open`, and `open` starts with every device enabled … -/
theorem open_establishes_wf (isAsync : Bool) (n : Nat) (opt : Option Nat) (o : OpenScript) (st : St)
    (h : (openWithOption isAsync n opt o).2.1 = some st) : st.wf = true ∧ st.enable = List.replicate n true := by
  unfold openWithOption at h
  split at h
  · simp at h
  · simp only [] at h
    split at h
    · simp only [Option.some.injEq] at h
      subst h
      have w0 : ({ tx := List.replicate n ⟨0, 0⟩, rx := List.replicate n ⟨0, 0⟩, enable := List.replicate n true } : St).wf = true := by
        simp [St.wf]
      have send_wf : ∀ (d : Datagram) (s : St) (sc : SendScript), s.wf = true → (send opt d s sc).2.1.wf = true := by
        intro d s sc hs
        simp only [send]
        split
        · exact hs
        · simp only [sendImpl]; split
          · exact hs
          · exact sendLoop_wf _ _ _ _ _ hs
      refine ⟨send_wf _ _ _ (send_wf _ _ _ w0), ?_⟩
      rw [send_enable, send_enable]
    · simp at h

/-- … and is preserved by every `send`, whatever its outcome; `send` never changes an `enable` flag -/
theorem send_preserves_wf (opt : Option Nat) (d : Datagram) (st : St) (sc : SendScript) (h : st.wf = true) :
    (send opt d st sc).2.1.wf = true ∧ (send opt d st sc).2.1.enable = st.enable := by
  refine ⟨?_, send_enable opt d st sc⟩
  simp only [send]
  split
  · exact h
  · simp only [sendImpl]; split
    · exact h
    · exact sendLoop_wf _ _ _ _ _ h

/-- **`ok_sound`**: with a non-zero timeout, `send` returns `Ok` only if every frame it transmitted
was acknowledged by every **enabled** device (a `receive` returned exactly its message id for each of
them) before the next frame went out and before `send` returned — for every enable mask. -/
theorem ok_sound (opt : Option Nat) (d : Datagram) (st : St) (sc : SendScript) (hwf : st.wf = true)
    (hto : opt.getD d.timeoutMs ≠ 0) (hok : (send opt d st sc).1 = .ok) :
    ackedBeforeNext st.enable none (send opt d st sc).2.2 = true := by
  have htz : (opt.getD d.timeoutMs == 0) = false := by simpa using hto
  simp only [send, htz] at hok ⊢
  split at hok
  · simp at hok
  · rename_i hg
    simp only [hg, sendImpl] at hok ⊢
    split at hok
    · simp at hok
    · rename_i hu
      simp only [hu]
      simp only [Bool.false_eq_true, if_false] at hok ⊢
      have := sendLoop_acked d.tag sc.frames st (generate st.enable d.frames) hwf hok []
      simpa [ackedBeforeNext, ackStep] using this

/-- **`err_mapping`**: whatever the link does, the result of `send` is the one the property
prescribes for the last thing the link said (see `callVerdict`): `LinkClosed` iff it said "closed",
the link's error iff a call failed, the first reporting **enabled** device's own `firmware_err` when
the last `receive` carried an error acknowledgement of an enabled device and did not acknowledge the
frame, `ConfirmResponseFailed` when it carried neither and the timeout is non-zero, `Ok` when every
enabled device acknowledged the last frame (or the timeout is zero and no enabled device reported an
error).  What disabled devices answered does not enter the verdict. -/
theorem err_mapping (opt : Option Nat) (d : Datagram) (st : St) (sc : SendScript) (hwf : st.wf = true)
    (hg : d.genFail = false) (hns : (send opt d st sc).1 ≠ .stuck) :
    (walk (opt.getD d.timeoutMs == 0) st.enable ⟨none, .stuck⟩ (send opt d st sc).2.2).verdict = (send opt d st sc).1 := by
  simp only [send, hg, sendImpl] at hns ⊢
  simp only [Bool.false_eq_true, if_false] at hns ⊢
  split
  · simp [walk, walkStep, callVerdict]
  · rename_i hu
    simp only [hu] at hns
    simp only [Bool.false_eq_true, if_false] at hns
    have := sendLoop_walk (opt.getD d.timeoutMs == 0) d.tag sc.frames st (generate st.enable d.frames) hwf
      (walkStep (opt.getD d.timeoutMs == 0) st.enable ⟨none, .stuck⟩ (.update true)) hns
    simpa [walk] using this

/-- **`disabled_acks_irrelevant`**: what a disabled device answers — any bytes: stale error
acknowledgements, the id its frame happens to carry, garbage — never influences anything.  Two runs of
`send` from states that differ only in the receive-buffer entries of disabled devices, against link
scripts that differ only in what disabled devices answer (`blankScript`), return the same result,
leave the same frames, flags and enabled devices' receive entries, and make the same calls on the
link (same frames sent; receives equal up to the disabled devices' entries). -/
theorem disabled_acks_irrelevant (opt : Option Nat) (d : Datagram) (st st' : St) (sc sc' : SendScript)
    (hst : blankSt st = blankSt st') (hsc : blankScript st.enable sc = blankScript st.enable sc') :
    (send opt d st sc).1 = (send opt d st' sc').1 ∧
    blankSt (send opt d st sc).2.1 = blankSt (send opt d st' sc').2.1 ∧
    (send opt d st sc).2.2.map (blankCall st.enable) = (send opt d st' sc').2.2.map (blankCall st.enable) := by
  have hen : st.enable = st'.enable := by
    have : (blankSt st).enable = (blankSt st').enable := congrArg St.enable hst
    exact this
  have a := send_blank opt d st sc
  have b := send_blank opt d st' sc'
  rw [← hen, ← hst, ← hsc] at b
  exact ⟨a.1.symm.trans b.1, a.2.1.symm.trans b.2.1, a.2.2.symm.trans b.2.2⟩

/-- **`disabled_tx_untouched`**: `send` never changes the frame (and so the message id) of a
disabled device, whatever its outcome. -/
theorem disabled_tx_untouched (opt : Option Nat) (d : Datagram) (st : St) (sc : SendScript) (i : Nat)
    (h : st.enable[i]? = some false) : (send opt d st sc).2.1.tx[i]? = st.tx[i]? := by
  simp only [send]
  split
  · rfl
  · simp only [sendImpl]; split
    · rfl
    · exact sendLoop_disabled _ _ _ _ _ i h

/-- **a disabled device receives nothing**: the slot a delivering link hands to a disabled device is
the frame that device has already seen (`disabled_tx_untouched`: same message id), so the device drops
it as a duplicate — its handlers are not invoked and its state, acknowledgement included, stays as it
was.  (`d.lastMsgId = t.msgId` is what a delivering link leaves behind: the id of the last frame.) -/
theorem disabled_device_receives_nothing (tag : Nat) (en : List Bool) (tx : List Tx) (ops : List Nat)
    (ds : List Dev) (i : Nat) (d : Dev) (t : Tx) (h : en[i]? = some false) (hd : ds[i]? = some d)
    (ht : tx[i]? = some t) (hid : d.lastMsgId = t.msgId) :
    (deliver ds (pack tag en tx ops).1)[i]? = some (d, false) := by
  have hp := pack_disabled tag en tx ops i h
  rw [ht] at hp
  rw [deliver_getElem ds _ i d t hd hp]
  simp [ecatRecv, hid]

/-- `close_impl` on an open link enables every device before it sends (so its three datagrams go to
all devices); on a closed link it leaves the state alone -/
theorem close_enables_all (st : St) (c : CloseScript) :
    (closeImpl st c).2.1.enable = if c.isOpen then st.enable.map (fun _ => true) else st.enable := by
  unfold closeImpl
  cases c.isOpen
  · rfl
  · simp only [Bool.not_true, Bool.false_eq_true, if_false, if_true]
    rw [send_enable, send_enable, send_enable]

/-- with every device enabled the enabled sub-list is the whole list: the statements above then
read "all devices", as they did before the mask was modelled -/
theorem all_enabled_is_everything {α : Type} (xs : List α) : masked (List.replicate xs.length true) xs = xs :=
  masked_all_true xs

/-- the error table: the eight codes the driver knows, everything else `UnknownFirmwareError(ack)` —
and no two acknowledgements map to the same error, so "the device's own error" identifies the code -/
theorem firmware_err_injective (a b : Nat) (h : firmwareErr a = firmwareErr b) : a = b := by
  -- a left inverse: the code an error came from
  let code : Err → Nat := fun
    | .notSupportedTag => 0x80 | .invalidMessageID => 0x81 | .invalidInfoType => 0x84
    | .invalidGainSTMMode => 0x85 | .invalidSegmentTransition => 0x88 | .missTransitionTime => 0x8B
    | .invalidSilencerSettings => 0x8E | .invalidTransitionMode => 0x8F
    | .unknownFirmwareError x => x | _ => 0
  have hc : ∀ x, code (firmwareErr x) = x := by
    intro x
    unfold firmwareErr
    repeat' split
    all_goals simp_all [code]
  rw [← hc a, ← hc b, h]

/-- **`zero_timeout_once`**: once the clock has passed the timeout (with a zero timeout: after the
first poll, since `elapsed() > 0`) no further poll is made — later script entries are never
consulted, at most one `receive` is issued — and with a zero timeout the frame counts as done
whatever the acknowledgements are, provided the link is up and no **enabled** device reports an
error (a disabled device may hold any error acknowledgement). -/
theorem zero_timeout_once (tz : Bool) (en : List Bool) (tx : List Tx) (rx : List Rx) (p : Poll) (ps : List Poll)
    (hl : p.late = true) :
    waitMsgProcessed tz en tx rx (p :: ps) = waitMsgProcessed tz en tx rx [p] ∧
    (waitMsgProcessed tz en tx rx (p :: ps)).2.2.countP isRecv ≤ 1 ∧
    (∀ new, tz = true → p.isOpen = true → p.recv = some new → (∀ r ∈ masked en (recvInto rx new), r.ack &&& 0x80 = 0) →
      (waitMsgProcessed tz en tx rx (p :: ps)).1 = .ok) := by
  refine ⟨(wait_late_once tz en tx rx p ps hl).1, (wait_late_once tz en tx rx p ps hl).2, ?_⟩
  intro new htz ho hr hne
  subst htz
  exact wait_zero_not_required en tx rx new p ps hl ho hr hne

/-- **`terminates` (one frame)**: if the script's clock eventually exceeds the timeout, waiting for
a frame ends with a proper result after at most (index of the first late poll + 1) polls. -/
theorem terminates_wait (tz : Bool) (en : List Bool) (tx : List Tx) (rx : List Rx) (polls : List Poll)
    (hfair : polls.any (·.late) = true) :
    (waitMsgProcessed tz en tx rx polls).1 ≠ .stuck ∧
    (waitMsgProcessed tz en tx rx polls).2.2.length ≤ 2 * (polls.findIdx (·.late) + 1) :=
  ⟨wait_not_stuck tz en tx polls rx hfair, wait_polls_bound tz en tx polls rx⟩

/-- **`terminates` (whole send)**: with one generator answer per device, a script of at least
`max 1 (frames still needed by the enabled devices)` turns, each of whose clocks eventually exceeds
the timeout, `send` ends with a proper result and transmits at most
`max 1 (maxOp (generate st.enable d.frames))` frames — the operations of disabled devices are never
generated and do not count. -/
theorem terminates_send (opt : Option Nat) (d : Datagram) (st : St) (updateOk : Bool) (fs : List FrameScript)
    (hlen : d.frames.length = st.tx.length) (hn : max 1 (maxOp (generate st.enable d.frames)) ≤ fs.length)
    (hfair : fs.all (fun f => f.polls.any (·.late)) = true) :
    (send opt d st (constScript updateOk fs)).1 ≠ .stuck ∧
    (send opt d st (constScript updateOk fs)).2.2.countP isSend ≤ max 1 (maxOp (generate st.enable d.frames)) := by
  simp only [send, constScript]
  split
  · simp
  · simp only [sendImpl]
    split
    · simp [isSend]
    · have := sendLoop_terminates (opt.getD d.timeoutMs == 0) d.tag (fs.map fun f _ => f) st (generate st.enable d.frames)
        (by simp only [generate]; exact Nat.le_of_eq (masked_length_eq st.enable d.frames st.tx hlen))
        (by simpa using hn)
        (by
          intro f hf tx
          simp only [List.mem_map] at hf
          obtain ⟨g, hg, rfl⟩ := hf
          simp only [List.all_eq_true] at hfair
          exact hfair g hg)
      refine ⟨this.1, ?_⟩
      simp only [List.countP_cons, isSend]
      simpa using this.2

/-- a packed frame never carries the id of the frame before it (so the acknowledgement of the
previous frame can never be mistaken for the new one), and ids stay below `0x80` (so an error
acknowledgement can never be mistaken for an id) -/
theorem msg_id_never_repeats (tag : Nat) (t : Tx) (rem : Nat) (h : rem ≠ 0) :
    (packOp tag t rem).1.msgId ≠ t.msgId ∧ (packOp tag t rem).1.msgId < 128 :=
  msg_id_fresh tag t rem h

/-- **`open_survives_stale_id`**: whatever `last_msg_id` and `ack` every device was left with by a
previous session (any values, any number of devices), `open_impl` in front of a delivering link
returns `Ok` and the `(Clear, Synchronize)` frame is handed to the handlers on every device — the
throw-away `ForceFan` frame may be swallowed as a duplicate, the initialisation never is. -/
theorem open_survives_stale_id (opt : Option Nat) (ds : List Dev) :
    let b := (openOnDevices opt ds).2
    b.res = .ok ∧ b.processed = List.replicate ds.length true ∧ b.ds = List.replicate ds.length ⟨2, 2⟩ := by
  have := open_on_devices opt ds
  exact ⟨this.1, this.2.1, this.2.2.2.2⟩

/-- `openOnDevices` is `open_with_option` run against that link: same result, same final buffers -/
theorem open_on_devices_is_open (opt : Option Nat) (ds : List Dev) (drop : DropScript) :
    let a := (openOnDevices opt ds).1
    let b := (openOnDevices opt ds).2
    (openWithOption false ds.length opt
      { openOk := true, forceFan := { updateOk := true, frames := [devFrame ds] },
        clearSync := { updateOk := true, frames := [devFrame a.ds] }, drop := drop }).1 = .ok ∧
    (openWithOption false ds.length opt
      { openOk := true, forceFan := { updateOk := true, frames := [devFrame ds] },
        clearSync := { updateOk := true, frames := [devFrame a.ds] }, drop := drop }).2.1 = some b.st := by
  have hb := (open_on_devices opt ds).1
  simp only [openOnDevices, devSend] at hb ⊢
  simp only [openWithOption, Bool.not_true, Bool.false_eq_true, if_false, hb]
  simp

/-- … and the first real datagram after `open` (any one-frame datagram) takes effect on every
device (all of them enabled, as they are after `open`), as does every one after it: once a session's frame has reached the devices, each newly
packed frame is processed (induction step for any id `i`). -/
theorem datagram_after_open_processed (opt : Option Nat) (n tag i t0 : Nat) (rx : List Rx) (hrx : rx.length = n) :
    let r := devSend opt (oneFrame n tag) { tx := List.replicate n ⟨i, t0⟩, rx := rx, enable := List.replicate n true }
      (List.replicate n ⟨i, i⟩)
    r.res = .ok ∧ r.processed = List.replicate n true ∧
    r.st.tx = List.replicate n ⟨(i + 1) % 128, tag⟩ ∧ r.ds = List.replicate n ⟨(i + 1) % 128, (i + 1) % 128⟩ := by
  by_cases hi : i < 128
  · have := devSend_fresh opt n tag i t0 rx (List.replicate n ⟨i, i⟩) (by simp) hrx
      (by intro d hd; simp only [List.mem_replicate] at hd; rw [hd.2]; simp only; omega)
    exact ⟨this.1, this.2.1, this.2.2.1, this.2.2.2.2.1⟩
  · have := devSend_fresh opt n tag i t0 rx (List.replicate n ⟨i, i⟩) (by simp) hrx
      (by intro d hd; simp only [List.mem_replicate] at hd; rw [hd.2]; simp only; omega)
    exact ⟨this.1, this.2.1, this.2.2.1, this.2.2.2.2.1⟩

/-! ## Non-vacuity: concrete scripts meeting the hypotheses, with the outcomes the property names -/

example : st2.wf = true := by decide
example : (send (some 20) { frames := [1, 1], tag := 0xEE } st2 (constScript true lateAck)).1 = .ok := by decide +kernel
example : ackedBeforeNext st2.enable none (send (some 20) { frames := [1, 1], tag := 0xEE } st2 (constScript true lateAck)).2.2 = true := by
  decide +kernel
example : lateAck.all (fun f => f.polls.any (·.late)) = true := by decide
/-- error acknowledgement from the second device only → that device's error -/
example : (send (some 20) { frames := [1, 1], tag := 0xEE } st2
    (constScript true [{ isOpen := true, sendOk := true, polls := [⟨true, some [⟨0, 3⟩, ⟨0, 0x88⟩], true⟩] }])).1
    = .err .invalidSegmentTransition := by decide +kernel
/-- never acknowledged, non-zero timeout → `ConfirmResponseFailed`; zero timeout → `Ok` after one poll -/
example : (send (some 20) { frames := [1, 1], tag := 0xEE } st2
    (constScript true [{ isOpen := true, sendOk := true, polls := [⟨true, some [⟨0, 3⟩, ⟨0, 2⟩], false⟩, ⟨true, some [⟨0, 3⟩, ⟨0, 2⟩], true⟩] }])).1
    = .err .confirmResponseFailed := by decide +kernel
example : (send (some 0) { frames := [1, 1], tag := 0xEE } st2
    (constScript true [{ isOpen := true, sendOk := true, polls := [⟨true, some [⟨0, 3⟩, ⟨0, 2⟩], true⟩] }])).1 = .ok := by
  decide +kernel
/-- the link closing between `send` and `receive` → `LinkClosed` -/
example : (send (some 60000) { frames := [1, 1], tag := 0xEE } st2
    (constScript true [{ isOpen := true, sendOk := true, polls := [⟨false, none, false⟩] }])).1 = .err .linkClosed := by
  decide +kernel
/-- a device left with id 1 swallows `ForceFan` (not processed) but not `(Clear, Synchronize)` -/
example : (openOnDevices (some 20) [⟨1, 1⟩, ⟨2, 2⟩, ⟨0xFF, 0x81⟩]).1.processed = [false, true, true] := by decide +kernel
example : (openOnDevices (some 20) [⟨1, 1⟩, ⟨2, 2⟩, ⟨0xFF, 0x81⟩]).2.processed = [true, true, true] := by decide +kernel
/-- observation (outside the property's quantifier, which pairs the left-over ids with a working
link): if the throw-away frame never reaches a device left with id 2 — `open_impl` ignores its result,
so a link error on that one send goes unnoticed — `(Clear, Synchronize)` (id 2) is swallowed, and
the stale acknowledgement 2 reads as its acknowledgement -/
example : (ecatRecv ⟨2, 2⟩ 2 0) = (⟨2, 2⟩, false) := by decide +kernel
/-- what the throw-away frame is for: without it (`Clear` sent as the first frame, id 1) a device
left with id 1 would swallow the initialisation -/
example : (deliver [⟨1, 1⟩] [⟨1, TAG_CLEAR⟩]).map (·.2) = [false] := by decide +kernel


/-! ### … under a non-trivial enable mask: device 0 disabled (below two enabled ones), holding a stale
error acknowledgement `0x88`; its frame still carries id 2, the enabled devices are at id 5 -/

example : st3m.wf = true := by decide
/-- the enabled devices acknowledge on the second / third poll, the disabled one answers its stale
error throughout: `Ok`, every frame acknowledged by every enabled device, clock fair -/
example : (send (some 20) { frames := [1, 1, 1], tag := 0xEE } st3m (constScript true lateAckMasked)).1 = .ok := by
  decide +kernel
example : ackedBeforeNext st3m.enable none
    (send (some 20) { frames := [1, 1, 1], tag := 0xEE } st3m (constScript true lateAckMasked)).2.2 = true := by
  decide +kernel
example : lateAckMasked.all (fun f => f.polls.any (·.late)) = true := by decide
/-- … and the disabled device's frame (id 2) went out unchanged, the enabled ones moved to id 6 -/
example : (send (some 20) { frames := [1, 1, 1], tag := 0xEE } st3m (constScript true lateAckMasked)).2.1.tx
    = [⟨2, 1⟩, ⟨6, 0xEE⟩, ⟨6, 0xEE⟩] := by decide +kernel
/-- the disabled device "acknowledges" (answers the id its untouched frame carries) while enabled
device 2 never does: `ConfirmResponseFailed`, not `Ok` (a `zip` of the enabled devices with the
per-device flags would judge device 2 by device 1's slot and device 1 by device 0's) -/
example : (send (some 20) { frames := [1, 1, 1], tag := 0xEE } st3m
    (constScript true [{ isOpen := true, sendOk := true, polls := [⟨true, some [⟨0, 2⟩, ⟨0, 6⟩, ⟨0, 5⟩], true⟩] }])).1
    = .err .confirmResponseFailed := by decide +kernel
/-- an enabled device behind the disabled one reports an error: that error, although the two slots
before it look acknowledged -/
example : (send (some 20) { frames := [1, 1, 1], tag := 0xEE } st3m
    (constScript true [{ isOpen := true, sendOk := true, polls := [⟨true, some [⟨0, 2⟩, ⟨0, 6⟩, ⟨0, 0x8E⟩], true⟩] }])).1
    = .err .invalidSilencerSettings := by decide +kernel
/-- the disabled device's stale error is not the result of a send that timed out (non-zero timeout:
`ConfirmResponseFailed`) or that ran with a zero timeout and lagging acknowledgements (`Ok`) -/
example : (send (some 20) { frames := [1, 1, 1], tag := 0xEE } st3m
    (constScript true [{ isOpen := true, sendOk := true, polls := [⟨true, some [⟨0, 0x88⟩, ⟨0, 6⟩, ⟨0, 5⟩], true⟩] }])).1
    = .err .confirmResponseFailed := by decide +kernel
example : (send (some 0) { frames := [1, 1, 1], tag := 0xEE } st3m
    (constScript true [{ isOpen := true, sendOk := true, polls := [⟨true, some [⟨0, 0x88⟩, ⟨0, 6⟩, ⟨0, 5⟩], true⟩] }])).1
    = .ok := by decide +kernel
/-- the hypotheses of `disabled_acks_irrelevant` are met by scripts (and states) that really differ:
stale error `0x88` vs. the id the disabled device's frame carries vs. garbage -/
example : blankSt st3m = blankSt { st3m with rx := [⟨7, 2⟩, ⟨0, 5⟩, ⟨0, 5⟩] } := by decide
example : blankScript st3m.enable (constScript true lateAckMasked) =
    blankScript st3m.enable (constScript true
      [{ isOpen := true, sendOk := true, polls :=
          [⟨true, some [⟨9, 2⟩, ⟨0, 5⟩, ⟨0, 5⟩], false⟩, ⟨true, some [⟨1, 0x55⟩, ⟨0, 6⟩, ⟨0, 5⟩], false⟩,
           ⟨true, some [⟨0, 0x80⟩, ⟨0, 6⟩, ⟨0, 6⟩], true⟩] }]) := by
  rw [blankScript_const, blankScript_const]; exact congrArg (constScript true) (by decide)
/-- the frame counts of a disabled device do not count: it "needs" 9 frames, one is sent -/
example : max 1 (maxOp (generate st3m.enable [9, 1, 1])) = 1 := by decide
/-- a delivering link in front of `st3m`: the disabled device 0 (last id 2 = its frame's id) drops the
frame, the enabled ones process it -/
example : (devSend (some 20) { frames := [1, 1, 1], tag := 0xEE } st3m [⟨2, 0x88⟩, ⟨5, 5⟩, ⟨5, 5⟩]).processed
    = [false, true, true] := by decide +kernel
example : (devSend (some 20) { frames := [1, 1, 1], tag := 0xEE } st3m [⟨2, 0x88⟩, ⟨5, 5⟩, ⟨5, 5⟩]).res = .ok := by
  decide +kernel
/-- `close_impl` re-enables: its frames carry a fresh id for the formerly disabled device too -/
example : (closeImpl st3m ⟨true, constScript false [], constScript false [], constScript false [], true⟩).2.1.enable
    = [true, true, true] := by decide +kernel

end Autd3.Ctl
