import Autd3.Model.Fw
import Autd3.Gen.DriverConsts
/-!
# C17 — what the controller reads back is what the device is doing
`decodeState` mirrors `FPGAState::{from_rx, is_thermal_assert, current_mod_segment,
current_gain_segment, current_stm_segment}` (bit masks generated from `fpga_state.rs`).
-/
namespace Autd3.C17
open Autd3 Autd3.Fw Autd3.Gen

/-- what `Controller::fpga_state()` reports for one device, from the rx data byte:
`none` = state reading disabled; otherwise (thermal, modulation segment, gain segment?, stm segment?) -/
def decodeState (rx : Nat) : Option (Bool × Nat × Option Nat × Option Nat) :=
  if rx &&& Drv.READS_FPGA_STATE_ENABLED ≠ 0 then
    let gainMode := rx &&& Drv.IS_GAIN_MODE_BIT ≠ 0
    some (rx &&& Drv.THERMAL_ASSERT_BIT ≠ 0,
          if rx &&& Drv.CURRENT_MOD_SEGMENT_BIT = 0 then 0 else 1,
          if gainMode then some (if rx &&& Drv.CURRENT_GAIN_SEGMENT_BIT = 0 then 0 else 1) else none,
          if gainMode then none else some (if rx &&& Drv.CURRENT_STM_SEGMENT_BIT = 0 then 0 else 1))
  else none

/-- the state byte as the CPU publishes it when reading is enabled -/
def publishedByte (st curMod curStm stmCycle : Nat) : Nat :=
  (Cpu.FPGA_STATE_READS_FPGA_STATE_ENABLED ||| (fpgaStateWord st curMod curStm stmCycle % 256)) % 256

/-- **state byte round trip**: for every thermal-sensor state, playing modulation segment, playing STM
segment and single-pattern/STM distinction, the byte the firmware publishes decodes to exactly these
four facts (the low four bits of the previous register value are arbitrary). -/
theorem state_byte_roundtrip :
    ∀ (lo : Fin 16) (curMod curStm : Fin 2) (single : Bool),
      decodeState (publishedByte lo.val curMod.val curStm.val (if single then 1 else 2)) =
        some (decide (lo.val % 2 = 1), curMod.val,
              if single then some curStm.val else none, if single then none else some curStm.val) := by
  decide +kernel

/-- with reading disabled the CPU clears bit 7, and the controller then reports `None` -/
theorem disabled_reads_none : ∀ rx : Fin 256,
    decodeState (rx.val &&& (255 - Cpu.FPGA_STATE_READS_FPGA_STATE_ENABLED)) = none := by
  decide +kernel

end Autd3.C17
