import Autd3.Model.Fw
import Autd3.Gen.DriverConsts
import Autd3.Lemmas.P02Read
import Autd3.Lemmas.P02ClearObs
import Autd3.Lemmas.P02Wire
import Autd3.Lemmas.StateByte6
/-!
# C17 — what the controller reads back is what the device is doing
`decodeState` mirrors `FPGAState::{from_rx, is_thermal_assert, current_mod_segment,
current_gain_segment, current_stm_segment}` (bit masks generated from `fpga_state.rs`).
-/
namespace Autd3.C17
open Autd3 Autd3.Fw Autd3.Gen

/-- what `Controller::fpga_state()` reports for one device, from the rx data byte:
`none` = state reading disabled; otherwise (thermal, modulation segment, gain segment?, stm segment?) -/
def decodeState (rx : Nat) : Option (Bool × Nat × Option Nat × Option Nat) :=
  if rx &&& Drv.READS_FPGA_STATE_ENABLED ≠ 0 then
    let gainMode := rx &&& Drv.IS_GAIN_MODE_BIT ≠ 0
    some (rx &&& Drv.THERMAL_ASSERT_BIT ≠ 0,
          if rx &&& Drv.CURRENT_MOD_SEGMENT_BIT = 0 then 0 else 1,
          if gainMode then some (if rx &&& Drv.CURRENT_GAIN_SEGMENT_BIT = 0 then 0 else 1) else none,
          if gainMode then none else some (if rx &&& Drv.CURRENT_STM_SEGMENT_BIT = 0 then 0 else 1))
  else none

/-- the state byte as the CPU publishes it when reading is enabled -/
def publishedByte (st curMod curStm stmCycle : Nat) : Nat :=
  (Cpu.FPGA_STATE_READS_FPGA_STATE_ENABLED ||| (fpgaStateWord st curMod curStm stmCycle % 256)) % 256

theorem state_byte_roundtrip :
    ∀ (lo : Fin 16) (curMod curStm : Fin 2) (single : Bool),
      decodeState (publishedByte lo.val curMod.val curStm.val (if single then 1 else 2)) =
        some (decide (lo.val % 2 = 1), curMod.val,
              if single then some curStm.val else none, if single then none else some curStm.val) := by
  decide +kernel

theorem disabled_reads_none : ∀ rx : Fin 256,
    decodeState (rx.val &&& (255 - Cpu.FPGA_STATE_READS_FPGA_STATE_ENABLED)) = none := by
  decide +kernel

/-! ## second layer -/
open Autd3.P02

/-- round trip for every value of the low byte of the FPGA_STATE register (bits 4–6 are ignored by the
decoder) -/
theorem state_byte_roundtrip_full :
    ∀ (lo : Fin 256) (curMod curStm : Fin 2) (single : Bool),
      decodeState (publishedByte lo.val curMod.val curStm.val (if single then 1 else 2)) =
        some (decide (lo.val % 2 = 1), curMod.val,
              if single then some curStm.val else none, if single then none else some curStm.val) := by
  decide +kernel

/-- with reading disabled the controller reports `None`, for every (unbounded) previous rx value -/
theorem disabled_reads_none_all (rx : Nat) :
    decodeState (rx &&& (255 - Cpu.FPGA_STATE_READS_FPGA_STATE_ENABLED)) = none := by
  unfold decodeState
  have : Drv.READS_FPGA_STATE_ENABLED = Cpu.FPGA_STATE_READS_FPGA_STATE_ENABLED := by decide
  rw [this, bit7_off]
  simp

/-- **rx gate** (`rx_gate_inv`): unless a firmware-version query is in flight, after `read_fpga_state`
bit 7 of the rx byte equals `reads_fpga_state`; when set the byte is `0x80 | low byte of FPGA_STATE`,
when clear the other bits are whatever they were. -/
theorem rx_gate_inv (s : State) (hu : s.isRxDataUsed = false) :
    ((readFpgaState s).rxData &&& Cpu.FPGA_STATE_READS_FPGA_STATE_ENABLED ≠ 0 ↔ s.readsFpgaState = true) ∧
    (s.readsFpgaState = true → (readFpgaState s).rxData =
        (Cpu.FPGA_STATE_READS_FPGA_STATE_ENABLED ||| (reg s Cpu.ADDR_FPGA_STATE % 256)) % 256) ∧
    (s.readsFpgaState = false → (readFpgaState s).rxData =
        s.rxData &&& (255 - Cpu.FPGA_STATE_READS_FPGA_STATE_ENABLED)) ∧
    (decodeState (readFpgaState s).rxData = none ↔ s.readsFpgaState = false) := by
  refine ⟨readFpgaState_bit7 s hu, fun h => by rw [readFpgaState_on s hu h], fun h => by rw [readFpgaState_off s hu h], ?_⟩
  have e : Drv.READS_FPGA_STATE_ENABLED = Cpu.FPGA_STATE_READS_FPGA_STATE_ENABLED := by decide
  have := readFpgaState_bit7 s hu
  unfold decodeState
  rw [e]
  cases hr : s.readsFpgaState
  · have h0 : ¬ ((readFpgaState s).rxData &&& Cpu.FPGA_STATE_READS_FPGA_STATE_ENABLED ≠ 0) := by
      rw [this, hr]; simp
    simp [h0]
  · have h0 : (readFpgaState s).rxData &&& Cpu.FPGA_STATE_READS_FPGA_STATE_ENABLED ≠ 0 := by
      rw [this, hr]
    simp [h0]

/-- **after a clock update the controller reads what the device is doing**: from any state whose rx
gate is open (no version query in flight), after `update_with_sys_time` the decoded rx byte is `None`
exactly when state reading is disabled, and otherwise reports the thermal bit of the FPGA_STATE register,
the modulation segment the swap chain is playing, and the playing STM segment as a *gain* segment when
its cycle register is 0 (single pattern) and as an *STM* segment otherwise.  Holds for every state with
the register file in place (`1 < ctl.size`) and both swap chains on a real segment (`cur ≤ 1`). -/
theorem fpga_state_after_update (s s' : State) (t : Nat) (hsz : 1 < s.ctl.size) (hu : s.isRxDataUsed = false)
    (hr : updateWithSysTime s t = .ok s') (hm : s'.modSwap.cur ≤ 1) (hs : s'.stmSwap.cur ≤ 1) :
    (decodeState s'.rxData = none ↔ s.readsFpgaState = false) ∧
    (s.readsFpgaState = true →
      decodeState s'.rxData =
        some (decide (reg s Cpu.ADDR_FPGA_STATE % 2 = 1), s'.modSwap.cur,
              (if reg s (Cpu.ADDR_STM_CYCLE0 + s'.stmSwap.cur) = 0 then some s'.stmSwap.cur else none),
              (if reg s (Cpu.ADDR_STM_CYCLE0 + s'.stmSwap.cur) = 0 then none else some s'.stmSwap.cur))) ∧
    s'.readsFpgaState = s.readsFpgaState ∧ s'.isRxDataUsed = false := by
  obtain ⟨h1, h2, h3, h4, _⟩ := update_rx s s' t hsz hu hr
  have hon : s.readsFpgaState = true →
      decodeState s'.rxData =
        some (decide (reg s Cpu.ADDR_FPGA_STATE % 2 = 1), s'.modSwap.cur,
              (if reg s (Cpu.ADDR_STM_CYCLE0 + s'.stmSwap.cur) = 0 then some s'.stmSwap.cur else none),
              (if reg s (Cpu.ADDR_STM_CYCLE0 + s'.stmSwap.cur) = 0 then none else some s'.stmSwap.cur)) := by
    intro hrd
    rw [h1 hrd, fpgaStateWord_mod]
    have hlo : reg s Cpu.ADDR_FPGA_STATE % 256 < 256 := Nat.mod_lt _ (by decide)
    by_cases hc : reg s (Cpu.ADDR_STM_CYCLE0 + s'.stmSwap.cur) = 0
    · have := state_byte_roundtrip_full ⟨_, hlo⟩ ⟨s'.modSwap.cur, Nat.lt_succ_of_le hm⟩ ⟨s'.stmSwap.cur, Nat.lt_succ_of_le hs⟩ true
      simp only [publishedByte, if_true] at this
      rw [hc]
      simp only [Nat.zero_add, if_true]
      rw [this]
      simp only [Nat.mod_mod_of_dvd _ (by decide : 2 ∣ 256)]
    · have hw : fpgaStateWord (reg s Cpu.ADDR_FPGA_STATE % 256) s'.modSwap.cur s'.stmSwap.cur
          (reg s (Cpu.ADDR_STM_CYCLE0 + s'.stmSwap.cur) + 1) =
          fpgaStateWord (reg s Cpu.ADDR_FPGA_STATE % 256) s'.modSwap.cur s'.stmSwap.cur 2 := by
        unfold fpgaStateWord
        simp [hc]
      have := state_byte_roundtrip_full ⟨_, hlo⟩ ⟨s'.modSwap.cur, Nat.lt_succ_of_le hm⟩ ⟨s'.stmSwap.cur, Nat.lt_succ_of_le hs⟩ false
      simp only [publishedByte, Bool.false_eq_true, if_false] at this
      rw [hw, this]
      simp only [hc, if_false, Nat.mod_mod_of_dvd _ (by decide : 2 ∣ 256)]
  refine ⟨?_, hon, h3, h4⟩
  cases hrd : s.readsFpgaState
  · rw [h2 hrd, disabled_reads_none_all]; simp
  · rw [hon hrd]; simp

/-- **firmware_version() returns the versions and afterwards state reading works as before**
(`firmware_version_restores`).  Six frames `FirmwareVersion(1) … FirmwareVersion(6)` with fresh message
ids, received by a device with no query in flight: after frame `k ≤ 5` the rx byte is the `k`-th version
byte (CPU major `0xA3`, CPU minor `0`, low byte of the VERSION_NUM_MAJOR register, low byte of
VERSION_NUM_MINOR, high byte of VERSION_NUM_MAJOR = functions); after frame 6 `reads_fpga_state` is what
it was, `is_rx_data_used` is false, and the whole device state is the initial one except for `ack`,
`last_msg_id`, the rx byte (which still holds the last version byte until the next
`read_fpga_state`), the parked copy `readsStore`, and CTL_FLAG (= the CPU's own flag word). -/
theorem firmware_version_restores (s : State) (f1 f2 f3 f4 f5 f6 : Array Nat) (i1 i2 i3 i4 i5 i6 : Nat)
    (h1 : IsFirmInfoFrame f1 i1 Cpu.INFO_TYPE_CPU_VERSION_MAJOR) (h2 : IsFirmInfoFrame f2 i2 Cpu.INFO_TYPE_CPU_VERSION_MINOR)
    (h3 : IsFirmInfoFrame f3 i3 Cpu.INFO_TYPE_FPGA_VERSION_MAJOR) (h4 : IsFirmInfoFrame f4 i4 Cpu.INFO_TYPE_FPGA_VERSION_MINOR)
    (h5 : IsFirmInfoFrame f5 i5 Cpu.INFO_TYPE_FPGA_FUNCTIONS) (h6 : IsFirmInfoFrame f6 i6 Cpu.INFO_TYPE_CLEAR)
    (d0 : s.lastMsgId ≠ i1) (d1 : i1 ≠ i2) (d2 : i2 ≠ i3) (d3 : i3 ≠ i4) (d4 : i4 ≠ i5) (d5 : i5 ≠ i6)
    (hu : s.isRxDataUsed = false) :
    ∃ s1 s2 s3 s4 s5 s6,
      ecatRecv s f1 = .ok s1 ∧ ecatRecv s1 f2 = .ok s2 ∧ ecatRecv s2 f3 = .ok s3 ∧
      ecatRecv s3 f4 = .ok s4 ∧ ecatRecv s4 f5 = .ok s5 ∧ ecatRecv s5 f6 = .ok s6 ∧
      s1.ack = i1 ∧ s2.ack = i2 ∧ s3.ack = i3 ∧ s4.ack = i4 ∧ s5.ack = i5 ∧ s6.ack = i6 ∧
      s1.rxData = Cpu.CPU_VERSION_MAJOR % 256 ∧ s2.rxData = Cpu.CPU_VERSION_MINOR % 256 ∧
      s3.rxData = reg s Cpu.ADDR_VERSION_NUM_MAJOR % 256 ∧ s4.rxData = reg s Cpu.ADDR_VERSION_NUM_MINOR % 256 ∧
      s5.rxData = (reg s Cpu.ADDR_VERSION_NUM_MAJOR >>> 8) % 256 ∧
      s6.readsFpgaState = s.readsFpgaState ∧ s6.isRxDataUsed = false ∧
      s6 = { s with lastMsgId := i6, ack := i6, readsStore := s.readsFpgaState, rxData := s5.rxData,
                    ctl := s.ctl.setIfInBounds 0 (s.flagsInternal % 65536) } :=
  ⟨_, _, _, _, _, _, fv_step1 s f1 i1 h1 d0, fv_step2 s f2 _ _ i2 h2 d1, fv_step3 s f3 _ _ i3 h3 d2,
    fv_step4 s f4 _ _ i4 h4 d3, fv_step5 s f5 _ _ i5 h5 d4, fv_step6 s f6 _ _ i6 h6 d5 hu,
    rfl, rfl, rfl, rfl, rfl, rfl, rfl, rfl, rfl, rfl, rfl, rfl, hu, rfl⟩

/-- the frames the driver model emits for `FirmwareVersion(ty)` from any transmit buffer are such frames,
with consecutive message ids that differ (so the hypotheses of `firmware_version_restores` are met by what
the SDK sends) -/
theorem firmware_version_frames_from_driver (tx : Wire.Tx) (numTr ty : Nat) (hsz : tx.payload.size = 622) (hty : ty < 256) :
    ∃ op t sz, Wire.packOp (Wire.Op.ofDg (.firmInfo ty)) numTr tx = .ok (op, t, sz) ∧
      t.msgId = nextId tx.msgId ∧ t.msgId ≠ tx.msgId ∧ t.payload.size = 622 ∧
      IsFirmInfoFrame t.frame t.msgId ty := by
  obtain ⟨op, t, sz, e1, e2, e3, e4⟩ := packOp_firmInfo tx numTr ty hsz hty
  exact ⟨op, t, sz, e1, e2, by rw [e2]; exact nextId_ne _, e3, by rw [e2]; exact e4⟩

/-- the version bytes of a device whose version registers hold the power-on values
(`(ENABLED_FEATURES_BITS << 8) | VERSION_NUM_MAJOR`, `VERSION_NUM_MINOR`): 0xA3, 0x00, 0xA3, 0x00, 0x80 -/
theorem version_bytes_power_on :
    Cpu.CPU_VERSION_MAJOR % 256 = 0xA3 ∧ Cpu.CPU_VERSION_MINOR % 256 = 0 ∧
    (((Fpga.ENABLED_FEATURES_BITS <<< 8) ||| Fpga.VERSION_NUM_MAJOR) % 65536) % 256 = Fpga.VERSION_NUM_MAJOR ∧
    Fpga.VERSION_NUM_MINOR % 256 = 0 ∧
    ((((Fpga.ENABLED_FEATURES_BITS <<< 8) ||| Fpga.VERSION_NUM_MAJOR) % 65536) >>> 8) % 256 = Fpga.ENABLED_FEATURES_BITS := by
  decide

/-- **interleaving 1 (honest outcome)**: a `ReadsFPGAState(v)` request that arrives between type 1 and
type 6 of a version query is LOST: type 6 overwrites the flag with the copy parked at type 1. -/
theorem firmware_version_interleaved_reads (s : State) (id rx : Nat) (dv d6 : Array Nat)
    (h6 : u8at d6 FwLayout.FirmInfo_ty_off = Cpu.INFO_TYPE_CLEAR) :
    ∃ m s6, configureReadsFpgaState (fvState s id rx) dv = .ok (m, Cpu.NO_ERR) ∧
      m.readsFpgaState = (u8at dv FwLayout.ReadsFPGAState_value_off ≠ 0) ∧
      firmInfo m d6 = .ok (s6, Cpu.NO_ERR) ∧ s6.readsFpgaState = s.readsFpgaState ∧ s6.isRxDataUsed = false :=
  ⟨_, _, rfl, by simp, firmInfo_6 _ _ h6, rfl, rfl⟩

/-- **interleaving 2 (honest outcome)**: `Clear` between type 1 and type 6 neither re-opens the rx gate
nor forgets the parked flag — `clear` does not touch `is_rx_data_used` / `reads_fpga_state_store`.  Until
type 6 arrives `read_fpga_state` leaves the rx byte alone; when it arrives, `reads_fpga_state` goes back
to its value from BEFORE the query although `Clear` had reset it to false. -/
theorem firmware_version_interleaved_clear (s : State) (h : WF s) (id rx : Nat) (d6 : Array Nat)
    (h6 : u8at d6 FwLayout.FirmInfo_ty_off = Cpu.INFO_TYPE_CLEAR) :
    ∃ c s6, clear (fvState s id rx) #[] = .ok (c, Cpu.NO_ERR) ∧
      c.readsFpgaState = false ∧ c.isRxDataUsed = true ∧ c.readsStore = s.readsFpgaState ∧
      readFpgaState c = c ∧
      firmInfo c d6 = .ok (s6, Cpu.NO_ERR) ∧ s6.readsFpgaState = s.readsFpgaState ∧ s6.isRxDataUsed = false := by
  have hw := wf_fvState s id rx h
  exact ⟨_, _, clear_eq _ hw, rfl, rfl, rfl, readFpgaState_used _ rfl, firmInfo_6 _ _ h6, rfl, rfl⟩

/-- the invariant `WF` used by the C02/C17 theorems is preserved by the read-back path: `read_fpga_state` and
every `firm_info` request (which never fails) -/
theorem readback_preserves_wf (s : State) (d : Array Nat) (h : WF s) :
    WF (readFpgaState s) ∧ ∃ s' a, firmInfo s d = .ok (s', a) ∧ WF s' :=
  ⟨wf_readFpgaState s h, wf_firmInfo s d h⟩

/-! ## third layer: histories

`SB.RunE p0 t0 h s t` (`Lemmas/StateByte3.lean`): the history `h` — complete sends of `Hist.Legal` datagrams (every kind
of the vocabulary: Clear, Synchronize, ForceFan, ReadsFPGAState on/off, GPIO, PhaseCorrection, PulseWidthEncoder,
both Silencer forms, Gain, Modulation, FociSTM, GainSTM with every accepted transition mode and finite or infinite
loops, the four SwapSegment datagrams) through the real packer model, interleaved with clock updates
(`update_with_sys_time(t)`, at ANY times) and thermal-sensor toggles — runs from the power-on device.  A clock update
is a member of a history only if it returns: the recorded update panics (F15, F17, F18) are excluded by that
hypothesis and by nothing else. -/
open Autd3.SB Autd3.Hist

theorem decodeState_none_iff (rx : Nat) : decodeState rx = none ↔ rx &&& 0x80 = 0 := by
  unfold decodeState
  have : Drv.READS_FPGA_STATE_ENABLED = 0x80 := by decide
  rw [this]
  by_cases h : rx &&& 0x80 = 0 <;> simp [h]

/-- **the state byte tracks what the device plays, after any history** (`state_byte_tracks_playing`).
From the power-on device (`CPUEmulator::new`, any transducer count ≤ 249, any clock), after ANY history `h` of complete
legal sends, clock updates and sensor toggles, followed by one clock update at any time `tc` that returns:

* both swap chains are on a real segment;
* `Controller::fpga_state()` sees `None` (bit 7 of the rx byte clear) exactly when the history left state reading
  disabled (`readsOf false h`: the last ReadsFPGAState after the last Clear; disabled at power-on);
* otherwise the byte decodes (through the `FPGAState` accessors) to: thermal flag = the sensor as last toggled
  (`thermoOf false h`), modulation segment = the segment the modulation swap chain is CURRENTLY on
  (`Obs.currentModSeg`, not the requested one), and the segment the STM swap chain is currently on, reported as a
  *gain* segment iff the cycle REGISTER of that segment says one pattern (`Obs.stmCycle s' cur = 1`, exactly the test
  of `FPGAEmulator::update_with_sys_time`) and as an *STM* segment otherwise;
* the reads flag and the sensor of the device are the ones the history asks for.

"Holds a single pattern" is the cycle register of the current segment — NOT the cycle the swap chain latched when the
segment was switched to: see `single_pattern_is_register_not_latched_cycle`. -/
theorem state_byte_tracks_playing (numTr now : Nat) (hn : numTr ≤ 249) (p0 : State) (hp0 : Fw.new numTr now = .ok p0)
    (t0 : Wire.Tx) (ht0 : Rt.TxOK t0) (h : List HEv) (s : State) (t : Wire.Tx) (hr : RunE p0 t0 h s t)
    (tc : Nat) (s' : State) (hu : updateWithSysTime s tc = .ok s') :
    (Obs.currentModSeg s' ≤ 1 ∧ Obs.currentStmSeg s' ≤ 1) ∧
    (decodeState s'.rxData = none ↔ readsOf false h = false) ∧
    (s'.rxData &&& 0x80 = 0 ↔ readsOf false h = false) ∧
    (readsOf false h = true →
      decodeState s'.rxData =
        some (thermoOf false h, Obs.currentModSeg s',
              (if Obs.stmCycle s' (Obs.currentStmSeg s') = 1 then some (Obs.currentStmSeg s') else none),
              (if Obs.stmCycle s' (Obs.currentStmSeg s') = 1 then none else some (Obs.currentStmSeg s')))) ∧
    s'.readsFpgaState = readsOf false h ∧ Obs.isThermo s' = thermoOf false h ∧ s'.isRxDataUsed = false := by
  have i := runE_inv hr false false (inv_new numTr now hn p0 hp0 t0 ht0)
  have i' := inv_tick i hu
  have hm : s'.modSwap.cur ≤ 1 := i'.segM.1
  have hs : s'.stmSwap.cur ≤ 1 := i'.segS.1
  have hsz : 1 < s.ctl.size := by rw [i.wf.ctl]; decide
  obtain ⟨a1, a2, a3, a4⟩ := fpga_state_after_update s s' tc hsz i.used hu hm hs
  obtain ⟨mw, sw, st, rx, _, _, _, e⟩ := update_form s s' tc hu
  have hreg : reg s' (Cpu.ADDR_STM_CYCLE0 + s'.stmSwap.cur) = reg s (Cpu.ADDR_STM_CYCLE0 + s'.stmSwap.cur) := by
    have : Cpu.ADDR_STM_CYCLE0 + s'.stmSwap.cur ≠ Cpu.ADDR_FPGA_STATE := by
      simp only [Cpu.ADDR_STM_CYCLE0, Cpu.ADDR_FPGA_STATE]; omega
    have := reg_tickState_ne s mw sw st rx tc _ this
    rw [← e] at this
    exact this
  have hcyc : (Obs.stmCycle s' (Obs.currentStmSeg s') = 1) ↔ reg s (Cpu.ADDR_STM_CYCLE0 + s'.stmSwap.cur) = 0 := by
    unfold Obs.stmCycle Obs.currentStmSeg
    rw [hreg]; omega
  have hth : decide (reg s Cpu.ADDR_FPGA_STATE % 2 = 1) = thermoOf false h := i.thermo
  refine ⟨⟨hm, hs⟩, by rw [a1, i.reads], by rw [← decodeState_none_iff, a1, i.reads], ?_, i'.reads, i'.thermo, a4⟩
  intro hrd
  rw [a2 (by rw [i.reads]; exact hrd), hth]
  unfold Obs.currentModSeg
  by_cases hc : reg s (Cpu.ADDR_STM_CYCLE0 + s'.stmSwap.cur) = 0
  · rw [if_pos hc, if_pos hc, if_pos (hcyc.2 hc), if_pos (hcyc.2 hc)]; rfl
  · rw [if_neg hc, if_neg hc, if_neg (fun x => hc (hcyc.1 x)), if_neg (fun x => hc (hcyc.1 x))]; rfl

/-- **"holds a single pattern" is the cycle REGISTER, not the cycle the swap chain plays**
(`single_pattern_is_register_not_latched_cycle`, a counterexample to reading "gain iff the playing segment holds a single
pattern" as "iff the device plays a single pattern").  `FPGAEmulator::update_with_sys_time` tests
`stm_cycle(current_stm_segment()) == 1` on the controller register, which a write to the playing segment WITHOUT
transition changes at once; the swap chain keeps the cycle it latched at the last `Swapchain::set`.  Both directions,
from power-on, frames as the SDK packs them (`Lemmas/StateByte4.lean`), run by the kernel:

* `latchedA`: the device plays the single pattern of S0 (latched cycle 1, index 0 — the index can never leave 0); a
  GainSTM of 2 patterns is written to S0 without transition.  Register: 2 patterns.  The byte is `0x80`:
  `current_gain_segment() = None`, `current_stm_segment() = Some(S0)`.
* `latchedB`: the device plays a 2-pattern GainSTM in S0 (latched cycle 2); a Gain is written to S0 without
  transition.  Register: 1 pattern.  The byte is `0x88`: `current_gain_segment() = Some(S0)`, while the swap chain is at
  pattern index 1 of 2.

The byte therefore reports what the segment HOLDS (the property's wording), not what the swap chain plays. -/
theorem single_pattern_is_register_not_latched_cycle :
    afterTrace latchedA (fun s =>
      decodeState s.rxData = some (false, 0, none, some 0) ∧ Obs.stmCycle s (Obs.currentStmSeg s) = 2 ∧
      sel s.stmSwap.cycle s.stmSwap.cur = 1 ∧ Obs.currentStmIdx s = 0) := by
  decide +kernel

/-- the other direction (`latchedB` above): the byte says *gain* S0 while the swap chain is at index 1 of a latched
2-pattern cycle -/
theorem gain_flag_is_register_not_latched_cycle :
    afterTrace latchedB (fun s =>
      decodeState s.rxData = some (false, 0, some 0, none) ∧ Obs.stmCycle s (Obs.currentStmSeg s) = 1 ∧
      sel s.stmSwap.cycle s.stmSwap.cur = 2 ∧ Obs.currentStmIdx s = 1) := by
  decide +kernel

/-- **requested ≠ current: the byte follows CURRENT** (`requested_vs_current`).  After any history `h`, a legal
Modulation with a finite loop (`rep ≠ 0xFFFF`) and a SysTime transition at `v` is sent to the segment that is NOT
playing.  The request is accepted and parked: at every clock update before `v` the requested segment
(`req_modulation_segment()`) is `seg`, the swap chain stays on the other segment, and the state byte (if reading is
enabled) reports the segment the swap chain is on — not the requested one. -/
theorem requested_vs_current (numTr now : Nat) (hn : numTr ≤ 249) (p0 : State) (hp0 : Fw.new numTr now = .ok p0)
    (t0 : Wire.Tx) (ht0 : Rt.TxOK t0) (h : List HEv) (s : State) (t : Wire.Tx) (hr : RunE p0 t0 h s t)
    (seg v rep div : Nat) (samples : Array Nat)
    (hL : Legal s (.modulation seg (some (Cpu.TRANSITION_MODE_SYS_TIME, v)) rep div samples))
    (hseg : Obs.currentModSeg s ≠ seg) (hrep : rep ≠ 0xFFFF) (t1 : Wire.Tx) (s1 : State)
    (hS : Rt.Sends (.modulation seg (some (Cpu.TRANSITION_MODE_SYS_TIME, v)) rep div samples) s t t1 s1)
    (tc : Nat) (htc : tc < v) (s2 : State) (hu : updateWithSysTime s1 tc = .ok s2) :
    Obs.reqModSeg s2 = .ok seg ∧ Obs.currentModSeg s2 = Obs.currentModSeg s ∧ Obs.currentModSeg s2 ≠ seg ∧
    (readsOf false h = true →
      ∃ g st, decodeState s2.rxData = some (thermoOf false h, Obs.currentModSeg s, g, st)) := by
  have i := runE_inv hr false false (inv_new numTr now hn p0 hp0 t0 ht0)
  obtain ⟨_, f⟩ := mod_sends s t i.wf i.tx i.fresh seg _ rep div samples hL.1 hL.2.1 hL.2.2
  obtain ⟨_, _, _, held, _, _⟩ := f _ _ hS
  have hq := held.req
  simp only [] at hq
  obtain ⟨q1, _, q3⟩ := hq
  have hmode : Rt.tmodeOf Cpu.TRANSITION_MODE_SYS_TIME v = .sysTime v := rfl
  rw [hmode] at q3
  obtain ⟨c1, c2, c3, _⟩ := q3.later hseg hrep
  obtain ⟨u1, _⟩ := update_swaps s1 s2 tc hu
  obtain ⟨w1, _, _⟩ := update_waiting _ _ _ tc v c3 q3.mode htc u1
  have hcur : Obs.currentModSeg s2 = Obs.currentModSeg s := by
    unfold Obs.currentModSeg; rw [w1, c1]
  obtain ⟨mw, sw, st, rx, _, _, _, e⟩ := update_form s1 s2 tc hu
  have hreq : Obs.reqModSeg s2 = Obs.reqModSeg s1 := by
    unfold Obs.reqModSeg segReg
    have := reg_tickState_ne s1 mw sw st rx tc Cpu.ADDR_MOD_REQ_RD_SEGMENT (by decide)
    rw [← e] at this
    rw [this]
  have hrun : RunE p0 t0 (h ++ [.send (.modulation seg (some (Cpu.TRANSITION_MODE_SYS_TIME, v)) rep div samples)]) s1 t1 :=
    hr.append (RunE.send hL hS (RunE.nil _ _))
  obtain ⟨_, _, _, dec, _⟩ := state_byte_tracks_playing numTr now hn p0 hp0 t0 ht0 _ s1 t1 hrun tc s2 hu
  refine ⟨hreq.trans q1, hcur, by rw [hcur]; exact hseg, ?_⟩
  intro hrd
  have e1 : readsOf false (h ++ [.send (.modulation seg (some (Cpu.TRANSITION_MODE_SYS_TIME, v)) rep div samples)]) =
      readsOf false h := by rw [readsOf_append]; rfl
  have e2 : thermoOf false (h ++ [.send (.modulation seg (some (Cpu.TRANSITION_MODE_SYS_TIME, v)) rep div samples)]) =
      thermoOf false h := by rw [thermoOf_append]; rfl
  rw [e1, e2, hcur] at dec
  exact ⟨_, _, dec hrd⟩

/-- the same situation run by the kernel on the frames the SDK packs (`pendingC`: power-on, Modulation of 4 samples to
S1 with loop count 5 and a SysTime transition far in the future, ReadsFPGAState on, clock): nothing panics, the request
register (`req_modulation_segment()`) says S1, the swap chain waits on S0, the byte is `0x88` — modulation segment S0 -/
theorem requested_vs_current_witness :
    afterTrace pendingC (fun s =>
      reg s Cpu.ADDR_MOD_REQ_RD_SEGMENT = 1 ∧ Obs.currentModSeg s = 0 ∧ s.modSwap.state = .waitStart ∧
      decodeState s.rxData = some (false, 0, some 0, none)) := by
  decide +kernel

/-- **firmware_version() inside a history** (`firmware_version_restores_trace`, PARTIAL).
After ANY history `h` from power-on, the six frames of `firmware_version()` arrive with arbitrary clock updates
`τ1 … τ5` between them (`SB.fvSeq`), followed by one more clock update at `tc`.  Compared with the device that sees
only the clock updates `τ1 ++ … ++ τ5` and then `tc` (hypotheses `hy`, `hb`: those updates return):

* the query runs through (no panic, every clock update returns) and the five bytes read back are the versions of the
  power-on device — `0xA3, 0x00, VERSION_NUM_MAJOR, VERSION_NUM_MINOR, ENABLED_FEATURES_BITS` — whatever the history did;
* afterwards the reads flag is what the history left (`readsOf false h`), the rx gate is open again, and the whole
  device is the one without the query except for `ack`, `last_msg_id`, the parked copy of the reads flag and — only
  while state reading is DISABLED — the low seven bits of the rx byte (the query leaves `0x80 & 0x7F = 0` there, the
  device without the query keeps the bits of its previous byte; `Controller::fpga_state()` sees `None` in both);
* with state reading enabled the rx byte is THE SAME byte; in every case it decodes the same.

PARTIAL — what is missing from the full statement: the query is the LAST send of the history (it may be followed by
any number of clock updates, here one).  For sends AFTER the query one needs that no handler reads `ack`,
`last_msg_id`, `rx_data` (with the gate open and reading on) or `reads_fpga_state_store`: true by inspection (only
`firm_info`, `read_fpga_state` and `ecat_recv`'s duplicate test touch them) but not proved as a simulation over all
handlers.  The version of `firmware_version_restores` over single frames, with Clear or ReadsFPGAState in the middle of
a query, is `firmware_version_interleaved_clear/_reads`; see `firmware_version_aborted_counterexample` for O6. -/
theorem firmware_version_restores_trace_partial (numTr now : Nat) (hn : numTr ≤ 249) (p0 : State)
    (hp0 : Fw.new numTr now = .ok p0) (t0 : Wire.Tx) (ht0 : Rt.TxOK t0) (h : List HEv) (s : State) (t : Wire.Tx)
    (hr : RunE p0 t0 h s t) (f1 f2 f3 f4 f5 f6 : Array Nat) (i1 i2 i3 i4 i5 i6 : Nat)
    (h1 : IsFirmInfoFrame f1 i1 Cpu.INFO_TYPE_CPU_VERSION_MAJOR) (h2 : IsFirmInfoFrame f2 i2 Cpu.INFO_TYPE_CPU_VERSION_MINOR)
    (h3 : IsFirmInfoFrame f3 i3 Cpu.INFO_TYPE_FPGA_VERSION_MAJOR) (h4 : IsFirmInfoFrame f4 i4 Cpu.INFO_TYPE_FPGA_VERSION_MINOR)
    (h5 : IsFirmInfoFrame f5 i5 Cpu.INFO_TYPE_FPGA_FUNCTIONS) (h6 : IsFirmInfoFrame f6 i6 Cpu.INFO_TYPE_CLEAR)
    (d0 : s.lastMsgId ≠ i1) (d1 : i1 ≠ i2) (d2 : i2 ≠ i3) (d3 : i3 ≠ i4) (d4 : i4 ≠ i5) (d5 : i5 ≠ i6)
    (τ1 τ2 τ3 τ4 τ5 : List Nat) (y : State) (hy : ticks s (τ1 ++ τ2 ++ τ3 ++ τ4 ++ τ5) = .ok y)
    (tc : Nat) (b : State) (hb : updateWithSysTime y tc = .ok b) :
    ∃ x a, fvSeq s f1 f2 f3 f4 f5 f6 τ1 τ2 τ3 τ4 τ5 =
        .ok (x, [0xA3, 0x00, Fpga.VERSION_NUM_MAJOR % 256, Fpga.VERSION_NUM_MINOR % 256, Fpga.ENABLED_FEATURES_BITS % 256]) ∧
      updateWithSysTime x tc = .ok a ∧
      a.readsFpgaState = readsOf false h ∧ b.readsFpgaState = readsOf false h ∧ a.isRxDataUsed = false ∧
      decodeState a.rxData = decodeState b.rxData ∧ (readsOf false h = true → a.rxData = b.rxData) ∧
      a = { b with lastMsgId := i6, ack := i6, readsStore := readsOf false h, rxData := a.rxData } := by
  have i := runE_inv hr false false (inv_new numTr now hn p0 hp0 t0 ht0)
  obtain ⟨y4, hy, e5⟩ := ticks_split _ _ _ _ hy
  obtain ⟨y3, hy, e4⟩ := ticks_split _ _ _ _ hy
  obtain ⟨y2, hy, e3⟩ := ticks_split _ _ _ _ hy
  obtain ⟨y1, e1, e2⟩ := ticks_split _ _ _ _ hy
  have j5 := ticks_inv _ _ _ (ticks_inv _ _ _ (ticks_inv _ _ _ (ticks_inv _ _ _ (ticks_inv _ _ _ i e1) e2) e3) e4) e5
  have hseq := fvSeq_eq s i f1 f2 f3 f4 f5 f6 i1 i2 i3 i4 i5 i6 h1 h2 h3 h4 h5 h6 d0 d1 d2 d3 d4 d5 τ1 τ2 τ3 τ4 τ5
    y1 y2 y3 y4 y e1 e2 e3 e4 e5
  obtain ⟨a, ha, hab, hrd, hused, hon, hoff⟩ := tick_closedQ y b i6 (Fpga.ENABLED_FEATURES_BITS % 256) tc
    (by rw [j5.wf.ctl]; decide) j5.used hb
  have hbr : b.readsFpgaState = readsOf false h := (inv_tick j5 hb).reads
  refine ⟨_, a, hseq, ha, hrd.trans hbr, hbr, hused, ?_, ?_, ?_⟩
  · cases hq : y.readsFpgaState
    · obtain ⟨x1, x2⟩ := hoff hq
      rw [x1, x2, disabled_reads_none_all, disabled_reads_none_all]
    · rw [hon hq]
  · intro hq
    exact hon (j5.reads.trans hq)
  · rw [← j5.reads]; exact hab

/-- **O6, reachable only through a FAILED `firmware_version()`** (`firmware_version_aborted_counterexample`).
`Controller::firmware_version(&mut self)` sends its six frames back to back under an exclusive borrow, so no other
datagram of the same controller can fall between them; but each `fetch_firminfo` is a `?`: if the link fails after
frame 1 the call returns `Err` and the closing frame is never sent.  The device is then left with the rx gate closed.
Run by the kernel from power-on: ReadsFPGAState on, clock, FirmwareVersion(type 1) — query aborted here —, Clear,
ReadsFPGAState on, clock.  State reading is enabled, yet the rx byte is still the CPU version `0xA3`, which
`FPGAState::from_rx` accepts (bit 7 set) and decodes as thermal ALARM, modulation segment S1, STM segment S0 — on a
device whose sensor is off and which plays S0/S0 gain.  Only a later complete `firmware_version()` re-opens the gate. -/
theorem firmware_version_aborted_counterexample :
    afterTrace abortedQ (fun s =>
      s.readsFpgaState = true ∧ s.isRxDataUsed = true ∧ s.rxData = 0xA3 ∧
      decodeState s.rxData = some (true, 1, none, some 0) ∧
      Obs.isThermo s = false ∧ Obs.currentModSeg s = 0 ∧ Obs.currentStmSeg s = 0 ∧
      Obs.stmCycle s (Obs.currentStmSeg s) = 1) := by
  decide +kernel

/-! ## non-vacuity -/

/-- a concrete device state (power-on, 249 transducers, state reading enabled) meets the hypotheses of
`fpga_state_after_update`, at every time -/
example (t : Nat) : ∃ s s', 1 < s.ctl.size ∧ s.isRxDataUsed = false ∧ s.readsFpgaState = true ∧
    updateWithSysTime s t = .ok s' ∧ s'.modSwap.cur ≤ 1 ∧ s'.stmSwap.cur ≤ 1 := by
  have hp := wf_preClear 249 0 (by decide)
  have c := cleared_clearResult _ hp
  have w := wf_clearResult _ hp
  have e1 := update_of_swapCleared _ _ _ c.modSwap w.modSwap (by decide)
    (gpioIn { clearResult (preClear 249 0) with readsFpgaState := true }) t
  have e2 := update_of_swapCleared _ _ _ c.stmSwap w.stmSwap (by decide)
    (gpioIn { clearResult (preClear 249 0) with readsFpgaState := true }) t
  refine ⟨{ clearResult (preClear 249 0) with readsFpgaState := true }, _, ?_, rfl, rfl,
    updateWithSysTime_eq _ t _ _ e1 e2, ?_, ?_⟩
  · have := w.ctl
    show 1 < (clearResult (preClear 249 0)).ctl.size
    omega
  · rw [updCore_modSwap]; show (clearResult (preClear 249 0)).modSwap.cur ≤ 1; rw [c.modSwap.cur]; decide
  · rw [updCore_stmSwap]; show (clearResult (preClear 249 0)).stmSwap.cur ≤ 1; rw [c.stmSwap.cur]; decide

/-- the six frames of a version query exist: the driver model produces them from a zeroed transmit buffer -/
example : ∃ f, IsFirmInfoFrame f 1 Cpu.INFO_TYPE_CPU_VERSION_MAJOR := by
  obtain ⟨_, t, _, _, e2, _, _, e5⟩ := firmware_version_frames_from_driver {} 249 1 (by simp [Drv.EC_OUTPUT_FRAME_SIZE, DrvLayout.Header_size]) (by decide)
  have : t.msgId = 1 := by rw [e2]; decide
  rw [this] at e5
  exact ⟨_, e5⟩
/-- a concrete history meets the hypotheses of `state_byte_tracks_playing`, with state reading enabled and the sensor
asserted at its end: sensor on, clock, ReadsFPGAState(true) through the packer, clock, sensor off, sensor on; then the
final clock update at any time -/
example (now tc : Nat) (p0 : State) (hp0 : Fw.new 249 now = .ok p0) (t0 : Wire.Tx) (ht0 : Rt.TxOK t0) :
    ∃ s t s', RunE p0 t0 exHist s t ∧ updateWithSysTime s tc = .ok s' ∧ readsOf false exHist = true ∧
      thermoOf false exHist = true := by
  obtain ⟨s, t, r, c, i⟩ := exHist_runs now p0 hp0 t0 ht0
  obtain ⟨s', u, _⟩ := clSw_tick s i c tc
  exact ⟨s, t, s', r, u, rfl, rfl⟩

/-- … and of `firmware_version_restores_trace_partial`: the same history, clock updates `[3000]`, `[]`, `[4000, 5000]`,
`[]`, `[6000]` between the frames; all of them and the final one return -/
example (now tc : Nat) (p0 : State) (hp0 : Fw.new 249 now = .ok p0) (t0 : Wire.Tx) (ht0 : Rt.TxOK t0) :
    ∃ s t y b, RunE p0 t0 exHist s t ∧ ticks s ([3000] ++ [] ++ [4000, 5000] ++ [] ++ [6000]) = .ok y ∧
      updateWithSysTime y tc = .ok b := by
  obtain ⟨s, t, r, c, i⟩ := exHist_runs now p0 hp0 t0 ht0
  obtain ⟨s1, u1, c1⟩ := clSw_tick s i c 3000
  have i1 := inv_tick i u1
  obtain ⟨s2, u2, c2⟩ := clSw_tick s1 i1 c1 4000
  have i2 := inv_tick i1 u2
  obtain ⟨s3, u3, c3⟩ := clSw_tick s2 i2 c2 5000
  have i3 := inv_tick i2 u3
  obtain ⟨s4, u4, c4⟩ := clSw_tick s3 i3 c3 6000
  have i4 := inv_tick i3 u4
  obtain ⟨b, u5, _⟩ := clSw_tick s4 i4 c4 tc
  refine ⟨s, t, s4, b, r, ?_, u5⟩
  show ticks s [3000, 4000, 5000, 6000] = .ok s4
  simp only [ticks_cons, ticks_nil, u1, u2, u3, u4, P02.ok_bind]

/-- the six frames of `firmware_version_restores_trace_partial` exist for every message id below 0x80 -/
example : IsFirmInfoFrame (frame1 5 [3, 1]) 5 Cpu.INFO_TYPE_CPU_VERSION_MAJOR ∧
    IsFirmInfoFrame (frame1 6 [3, 2]) 6 Cpu.INFO_TYPE_CPU_VERSION_MINOR ∧
    IsFirmInfoFrame (frame1 7 [3, 3]) 7 Cpu.INFO_TYPE_FPGA_VERSION_MAJOR ∧
    IsFirmInfoFrame (frame1 8 [3, 4]) 8 Cpu.INFO_TYPE_FPGA_VERSION_MINOR ∧
    IsFirmInfoFrame (frame1 9 [3, 5]) 9 Cpu.INFO_TYPE_FPGA_FUNCTIONS ∧
    IsFirmInfoFrame (frame1 10 [3, 6]) 10 Cpu.INFO_TYPE_CLEAR := by
  refine ⟨⟨?_, ?_, ?_, ?_, ?_⟩, ⟨?_, ?_, ?_, ?_, ?_⟩, ⟨?_, ?_, ?_, ?_, ?_⟩, ⟨?_, ?_, ?_, ?_, ?_⟩, ⟨?_, ?_, ?_, ?_, ?_⟩,
    ⟨?_, ?_, ?_, ?_, ?_⟩⟩ <;> decide

/-- the datagram of `requested_vs_current` is legal on the power-on device and is accepted: Modulation of 4 samples to
S1 (S0 is playing), loop count 5, SysTime transition at 10¹² ns.  (That the clock update after it returns is shown on
the packed frames by `requested_vs_current_witness`.) -/
example (p0 : State) (hp0 : Fw.new 249 0 = .ok p0) (t0 : Wire.Tx) (ht0 : Rt.TxOK t0) :
    Legal p0 (.modulation 1 (some (Cpu.TRANSITION_MODE_SYS_TIME, 1000000000000)) 5 10 #[1, 2, 3, 4]) ∧
    Obs.currentModSeg p0 ≠ 1 ∧
    ∃ t1 s1, Rt.Sends (.modulation 1 (some (Cpu.TRANSITION_MODE_SYS_TIME, 1000000000000)) 5 10 #[1, 2, 3, 4]) p0 t0 t1 s1 := by
  have e2 := new_eq 249 0 (by decide)
  rw [hp0] at e2
  simp only [Except.ok.injEq] at e2
  have c := cleared_clearResult _ (wf_preClear 249 0 (by decide))
  have hk := clearResult_kept (preClear 249 0)
  rw [← e2] at c hk
  have i0 := inv_new 249 0 (by decide) p0 hp0 t0 ht0
  have hL : Legal p0 (.modulation 1 (some (Cpu.TRANSITION_MODE_SYS_TIME, 1000000000000)) 5 10 #[1, 2, 3, 4]) := by
    refine ⟨⟨by decide, by decide, by decide, ?_, by decide, by decide, ?_⟩, ?_, ?_⟩
    · intro i; unfold rd; by_cases h : i < 4
      · have : i = 0 ∨ i = 1 ∨ i = 2 ∨ i = 3 := by omega
        rcases this with rfl | rfl | rfl | rfl <;> decide
      · simp [h]
    · intro m v hmv
      cases hmv
      refine ⟨Or.inr (Or.inl rfl), by decide, ?_⟩
      rw [hk.2.2.2.2.2.2.2.2.2.2.2.2]
      decide
    · rw [c.modSegment]; decide
    · unfold validateSilencerSettings
      rw [c.strict, c.minDivI, c.minDivP, c.stmDiv, c.stmSegment]; decide
  refine ⟨hL, ?_, ?_⟩
  · unfold Obs.currentModSeg; rw [c.modSwap.cur]; decide
  · obtain ⟨t1, s1, hS⟩ := legal_sends p0 t0 i0.wf i0.tx i0.fresh _ hL
    exact ⟨t1, s1, hS⟩
end Autd3.C17
