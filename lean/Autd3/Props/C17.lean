import Autd3.Model.Fw
import Autd3.Gen.DriverConsts
import Autd3.Lemmas.P02Read
import Autd3.Lemmas.P02ClearObs
import Autd3.Lemmas.P02Wire
/-!
# C17 — what the controller reads back is what the device is doing
`decodeState` mirrors `FPGAState::{from_rx, is_thermal_assert, current_mod_segment,
current_gain_segment, current_stm_segment}` (bit masks generated from `fpga_state.rs`).
-/
namespace Autd3.C17
open Autd3 Autd3.Fw Autd3.Gen

/-- what `Controller::fpga_state()` reports for one device, from the rx data byte:
`none` = state reading disabled; otherwise (thermal, modulation segment, gain segment?, stm segment?) -/
def decodeState (rx : Nat) : Option (Bool × Nat × Option Nat × Option Nat) :=
  if rx &&& Drv.READS_FPGA_STATE_ENABLED ≠ 0 then
    let gainMode := rx &&& Drv.IS_GAIN_MODE_BIT ≠ 0
    some (rx &&& Drv.THERMAL_ASSERT_BIT ≠ 0,
          if rx &&& Drv.CURRENT_MOD_SEGMENT_BIT = 0 then 0 else 1,
          if gainMode then some (if rx &&& Drv.CURRENT_GAIN_SEGMENT_BIT = 0 then 0 else 1) else none,
          if gainMode then none else some (if rx &&& Drv.CURRENT_STM_SEGMENT_BIT = 0 then 0 else 1))
  else none

/-- the state byte as the CPU publishes it when reading is enabled -/
def publishedByte (st curMod curStm stmCycle : Nat) : Nat :=
  (Cpu.FPGA_STATE_READS_FPGA_STATE_ENABLED ||| (fpgaStateWord st curMod curStm stmCycle % 256)) % 256

theorem state_byte_roundtrip :
    ∀ (lo : Fin 16) (curMod curStm : Fin 2) (single : Bool),
      decodeState (publishedByte lo.val curMod.val curStm.val (if single then 1 else 2)) =
        some (decide (lo.val % 2 = 1), curMod.val,
              if single then some curStm.val else none, if single then none else some curStm.val) := by
  decide +kernel

theorem disabled_reads_none : ∀ rx : Fin 256,
    decodeState (rx.val &&& (255 - Cpu.FPGA_STATE_READS_FPGA_STATE_ENABLED)) = none := by
  decide +kernel

/-! ## second layer -/
open Autd3.P02

/-- round trip for every value of the low byte of the FPGA_STATE register (bits 4–6 are ignored by the
decoder) -/
theorem state_byte_roundtrip_full :
    ∀ (lo : Fin 256) (curMod curStm : Fin 2) (single : Bool),
      decodeState (publishedByte lo.val curMod.val curStm.val (if single then 1 else 2)) =
        some (decide (lo.val % 2 = 1), curMod.val,
              if single then some curStm.val else none, if single then none else some curStm.val) := by
  decide +kernel

/-- with reading disabled the controller reports `None`, for every (unbounded) previous rx value -/
theorem disabled_reads_none_all (rx : Nat) :
    decodeState (rx &&& (255 - Cpu.FPGA_STATE_READS_FPGA_STATE_ENABLED)) = none := by
  unfold decodeState
  have : Drv.READS_FPGA_STATE_ENABLED = Cpu.FPGA_STATE_READS_FPGA_STATE_ENABLED := by decide
  rw [this, bit7_off]
  simp

/-- **rx gate** (`rx_gate_inv`): unless a firmware-version query is in flight, after `read_fpga_state`
bit 7 of the rx byte equals `reads_fpga_state`; when set the byte is `0x80 | low byte of FPGA_STATE`,
when clear the other bits are whatever they were. -/
theorem rx_gate_inv (s : State) (hu : s.isRxDataUsed = false) :
    ((readFpgaState s).rxData &&& Cpu.FPGA_STATE_READS_FPGA_STATE_ENABLED ≠ 0 ↔ s.readsFpgaState = true) ∧
    (s.readsFpgaState = true → (readFpgaState s).rxData =
        (Cpu.FPGA_STATE_READS_FPGA_STATE_ENABLED ||| (reg s Cpu.ADDR_FPGA_STATE % 256)) % 256) ∧
    (s.readsFpgaState = false → (readFpgaState s).rxData =
        s.rxData &&& (255 - Cpu.FPGA_STATE_READS_FPGA_STATE_ENABLED)) ∧
    (decodeState (readFpgaState s).rxData = none ↔ s.readsFpgaState = false) := by
  refine ⟨readFpgaState_bit7 s hu, fun h => by rw [readFpgaState_on s hu h], fun h => by rw [readFpgaState_off s hu h], ?_⟩
  have e : Drv.READS_FPGA_STATE_ENABLED = Cpu.FPGA_STATE_READS_FPGA_STATE_ENABLED := by decide
  have := readFpgaState_bit7 s hu
  unfold decodeState
  rw [e]
  cases hr : s.readsFpgaState
  · have h0 : ¬ ((readFpgaState s).rxData &&& Cpu.FPGA_STATE_READS_FPGA_STATE_ENABLED ≠ 0) := by
      rw [this, hr]; simp
    simp [h0]
  · have h0 : (readFpgaState s).rxData &&& Cpu.FPGA_STATE_READS_FPGA_STATE_ENABLED ≠ 0 := by
      rw [this, hr]
    simp [h0]

/-- **after a clock update the controller reads what the device is doing**: from any state whose rx
gate is open (no version query in flight), after `update_with_sys_time` the decoded rx byte is `None`
exactly when state reading is disabled, and otherwise reports the thermal bit of the FPGA_STATE register,
the modulation segment the swap chain is playing, and the playing STM segment as a *gain* segment when
its cycle register is 0 (single pattern) and as an *STM* segment otherwise.  Holds for every state with
the register file in place (`1 < ctl.size`) and both swap chains on a real segment (`cur ≤ 1`). -/
theorem fpga_state_after_update (s s' : State) (t : Nat) (hsz : 1 < s.ctl.size) (hu : s.isRxDataUsed = false)
    (hr : updateWithSysTime s t = .ok s') (hm : s'.modSwap.cur ≤ 1) (hs : s'.stmSwap.cur ≤ 1) :
    (decodeState s'.rxData = none ↔ s.readsFpgaState = false) ∧
    (s.readsFpgaState = true →
      decodeState s'.rxData =
        some (decide (reg s Cpu.ADDR_FPGA_STATE % 2 = 1), s'.modSwap.cur,
              (if reg s (Cpu.ADDR_STM_CYCLE0 + s'.stmSwap.cur) = 0 then some s'.stmSwap.cur else none),
              (if reg s (Cpu.ADDR_STM_CYCLE0 + s'.stmSwap.cur) = 0 then none else some s'.stmSwap.cur))) ∧
    s'.readsFpgaState = s.readsFpgaState ∧ s'.isRxDataUsed = false := by
  obtain ⟨h1, h2, h3, h4, _⟩ := update_rx s s' t hsz hu hr
  have hon : s.readsFpgaState = true →
      decodeState s'.rxData =
        some (decide (reg s Cpu.ADDR_FPGA_STATE % 2 = 1), s'.modSwap.cur,
              (if reg s (Cpu.ADDR_STM_CYCLE0 + s'.stmSwap.cur) = 0 then some s'.stmSwap.cur else none),
              (if reg s (Cpu.ADDR_STM_CYCLE0 + s'.stmSwap.cur) = 0 then none else some s'.stmSwap.cur)) := by
    intro hrd
    rw [h1 hrd, fpgaStateWord_mod]
    have hlo : reg s Cpu.ADDR_FPGA_STATE % 256 < 256 := Nat.mod_lt _ (by decide)
    by_cases hc : reg s (Cpu.ADDR_STM_CYCLE0 + s'.stmSwap.cur) = 0
    · have := state_byte_roundtrip_full ⟨_, hlo⟩ ⟨s'.modSwap.cur, Nat.lt_succ_of_le hm⟩ ⟨s'.stmSwap.cur, Nat.lt_succ_of_le hs⟩ true
      simp only [publishedByte, if_true] at this
      rw [hc]
      simp only [Nat.zero_add, if_true]
      rw [this]
      simp only [Nat.mod_mod_of_dvd _ (by decide : 2 ∣ 256)]
    · have hw : fpgaStateWord (reg s Cpu.ADDR_FPGA_STATE % 256) s'.modSwap.cur s'.stmSwap.cur
          (reg s (Cpu.ADDR_STM_CYCLE0 + s'.stmSwap.cur) + 1) =
          fpgaStateWord (reg s Cpu.ADDR_FPGA_STATE % 256) s'.modSwap.cur s'.stmSwap.cur 2 := by
        unfold fpgaStateWord
        simp [hc]
      have := state_byte_roundtrip_full ⟨_, hlo⟩ ⟨s'.modSwap.cur, Nat.lt_succ_of_le hm⟩ ⟨s'.stmSwap.cur, Nat.lt_succ_of_le hs⟩ false
      simp only [publishedByte, Bool.false_eq_true, if_false] at this
      rw [hw, this]
      simp only [hc, if_false, Nat.mod_mod_of_dvd _ (by decide : 2 ∣ 256)]
  refine ⟨?_, hon, h3, h4⟩
  cases hrd : s.readsFpgaState
  · rw [h2 hrd, disabled_reads_none_all]; simp
  · rw [hon hrd]; simp

/-- **firmware_version() returns the versions and afterwards state reading works as before**
(`firmware_version_restores`).  Six frames `FirmwareVersion(1) … FirmwareVersion(6)` with fresh message
ids, received by a device with no query in flight: after frame `k ≤ 5` the rx byte is the `k`-th version
byte (CPU major `0xA3`, CPU minor `0`, low byte of the VERSION_NUM_MAJOR register, low byte of
VERSION_NUM_MINOR, high byte of VERSION_NUM_MAJOR = functions); after frame 6 `reads_fpga_state` is what
it was, `is_rx_data_used` is false, and the whole device state is the initial one except for `ack`,
`last_msg_id`, the rx byte (which still holds the last version byte until the next
`read_fpga_state`), the parked copy `readsStore`, and CTL_FLAG (= the CPU's own flag word). -/
theorem firmware_version_restores (s : State) (f1 f2 f3 f4 f5 f6 : Array Nat) (i1 i2 i3 i4 i5 i6 : Nat)
    (h1 : IsFirmInfoFrame f1 i1 Cpu.INFO_TYPE_CPU_VERSION_MAJOR) (h2 : IsFirmInfoFrame f2 i2 Cpu.INFO_TYPE_CPU_VERSION_MINOR)
    (h3 : IsFirmInfoFrame f3 i3 Cpu.INFO_TYPE_FPGA_VERSION_MAJOR) (h4 : IsFirmInfoFrame f4 i4 Cpu.INFO_TYPE_FPGA_VERSION_MINOR)
    (h5 : IsFirmInfoFrame f5 i5 Cpu.INFO_TYPE_FPGA_FUNCTIONS) (h6 : IsFirmInfoFrame f6 i6 Cpu.INFO_TYPE_CLEAR)
    (d0 : s.lastMsgId ≠ i1) (d1 : i1 ≠ i2) (d2 : i2 ≠ i3) (d3 : i3 ≠ i4) (d4 : i4 ≠ i5) (d5 : i5 ≠ i6)
    (hu : s.isRxDataUsed = false) :
    ∃ s1 s2 s3 s4 s5 s6,
      ecatRecv s f1 = .ok s1 ∧ ecatRecv s1 f2 = .ok s2 ∧ ecatRecv s2 f3 = .ok s3 ∧
      ecatRecv s3 f4 = .ok s4 ∧ ecatRecv s4 f5 = .ok s5 ∧ ecatRecv s5 f6 = .ok s6 ∧
      s1.ack = i1 ∧ s2.ack = i2 ∧ s3.ack = i3 ∧ s4.ack = i4 ∧ s5.ack = i5 ∧ s6.ack = i6 ∧
      s1.rxData = Cpu.CPU_VERSION_MAJOR % 256 ∧ s2.rxData = Cpu.CPU_VERSION_MINOR % 256 ∧
      s3.rxData = reg s Cpu.ADDR_VERSION_NUM_MAJOR % 256 ∧ s4.rxData = reg s Cpu.ADDR_VERSION_NUM_MINOR % 256 ∧
      s5.rxData = (reg s Cpu.ADDR_VERSION_NUM_MAJOR >>> 8) % 256 ∧
      s6.readsFpgaState = s.readsFpgaState ∧ s6.isRxDataUsed = false ∧
      s6 = { s with lastMsgId := i6, ack := i6, readsStore := s.readsFpgaState, rxData := s5.rxData,
                    ctl := s.ctl.setIfInBounds 0 (s.flagsInternal % 65536) } :=
  ⟨_, _, _, _, _, _, fv_step1 s f1 i1 h1 d0, fv_step2 s f2 _ _ i2 h2 d1, fv_step3 s f3 _ _ i3 h3 d2,
    fv_step4 s f4 _ _ i4 h4 d3, fv_step5 s f5 _ _ i5 h5 d4, fv_step6 s f6 _ _ i6 h6 d5 hu,
    rfl, rfl, rfl, rfl, rfl, rfl, rfl, rfl, rfl, rfl, rfl, rfl, hu, rfl⟩

/-- the frames the driver model emits for `FirmwareVersion(ty)` from any transmit buffer are such frames,
with consecutive message ids that differ (so the hypotheses of `firmware_version_restores` are met by what
the SDK sends) -/
theorem firmware_version_frames_from_driver (tx : Wire.Tx) (numTr ty : Nat) (hsz : tx.payload.size = 622) (hty : ty < 256) :
    ∃ op t sz, Wire.packOp (Wire.Op.ofDg (.firmInfo ty)) numTr tx = .ok (op, t, sz) ∧
      t.msgId = nextId tx.msgId ∧ t.msgId ≠ tx.msgId ∧ t.payload.size = 622 ∧
      IsFirmInfoFrame t.frame t.msgId ty := by
  obtain ⟨op, t, sz, e1, e2, e3, e4⟩ := packOp_firmInfo tx numTr ty hsz hty
  exact ⟨op, t, sz, e1, e2, by rw [e2]; exact nextId_ne _, e3, by rw [e2]; exact e4⟩

/-- the version bytes of a device whose version registers hold the power-on values
(`(ENABLED_FEATURES_BITS << 8) | VERSION_NUM_MAJOR`, `VERSION_NUM_MINOR`): 0xA3, 0x00, 0xA3, 0x00, 0x80 -/
theorem version_bytes_power_on :
    Cpu.CPU_VERSION_MAJOR % 256 = 0xA3 ∧ Cpu.CPU_VERSION_MINOR % 256 = 0 ∧
    (((Fpga.ENABLED_FEATURES_BITS <<< 8) ||| Fpga.VERSION_NUM_MAJOR) % 65536) % 256 = Fpga.VERSION_NUM_MAJOR ∧
    Fpga.VERSION_NUM_MINOR % 256 = 0 ∧
    ((((Fpga.ENABLED_FEATURES_BITS <<< 8) ||| Fpga.VERSION_NUM_MAJOR) % 65536) >>> 8) % 256 = Fpga.ENABLED_FEATURES_BITS := by
  decide

/-- **interleaving 1 (honest outcome)**: a `ReadsFPGAState(v)` request that arrives between type 1 and
type 6 of a version query is LOST: type 6 overwrites the flag with the copy parked at type 1. -/
theorem firmware_version_interleaved_reads (s : State) (id rx : Nat) (dv d6 : Array Nat)
    (h6 : u8at d6 FwLayout.FirmInfo_ty_off = Cpu.INFO_TYPE_CLEAR) :
    ∃ m s6, configureReadsFpgaState (fvState s id rx) dv = .ok (m, Cpu.NO_ERR) ∧
      m.readsFpgaState = (u8at dv FwLayout.ReadsFPGAState_value_off ≠ 0) ∧
      firmInfo m d6 = .ok (s6, Cpu.NO_ERR) ∧ s6.readsFpgaState = s.readsFpgaState ∧ s6.isRxDataUsed = false :=
  ⟨_, _, rfl, by simp, firmInfo_6 _ _ h6, rfl, rfl⟩

/-- **interleaving 2 (honest outcome)**: `Clear` between type 1 and type 6 neither re-opens the rx gate
nor forgets the parked flag — `clear` does not touch `is_rx_data_used` / `reads_fpga_state_store`.  Until
type 6 arrives `read_fpga_state` leaves the rx byte alone; when it arrives, `reads_fpga_state` goes back
to its value from BEFORE the query although `Clear` had reset it to false. -/
theorem firmware_version_interleaved_clear (s : State) (h : WF s) (id rx : Nat) (d6 : Array Nat)
    (h6 : u8at d6 FwLayout.FirmInfo_ty_off = Cpu.INFO_TYPE_CLEAR) :
    ∃ c s6, clear (fvState s id rx) #[] = .ok (c, Cpu.NO_ERR) ∧
      c.readsFpgaState = false ∧ c.isRxDataUsed = true ∧ c.readsStore = s.readsFpgaState ∧
      readFpgaState c = c ∧
      firmInfo c d6 = .ok (s6, Cpu.NO_ERR) ∧ s6.readsFpgaState = s.readsFpgaState ∧ s6.isRxDataUsed = false := by
  have hw := wf_fvState s id rx h
  exact ⟨_, _, clear_eq _ hw, rfl, rfl, rfl, readFpgaState_used _ rfl, firmInfo_6 _ _ h6, rfl, rfl⟩

/-- the invariant `WF` used by the C02/C17 theorems is preserved by the read-back path: `read_fpga_state` and
every `firm_info` request (which never fails) -/
theorem readback_preserves_wf (s : State) (d : Array Nat) (h : WF s) :
    WF (readFpgaState s) ∧ ∃ s' a, firmInfo s d = .ok (s', a) ∧ WF s' :=
  ⟨wf_readFpgaState s h, wf_firmInfo s d h⟩

/-! ## non-vacuity -/

/-- a concrete device state (power-on, 249 transducers, state reading enabled) meets the hypotheses of
`fpga_state_after_update`, at every time -/
example (t : Nat) : ∃ s s', 1 < s.ctl.size ∧ s.isRxDataUsed = false ∧ s.readsFpgaState = true ∧
    updateWithSysTime s t = .ok s' ∧ s'.modSwap.cur ≤ 1 ∧ s'.stmSwap.cur ≤ 1 := by
  have hp := wf_preClear 249 0 (by decide)
  have c := cleared_clearResult _ hp
  have w := wf_clearResult _ hp
  have e1 := update_of_swapCleared _ _ _ c.modSwap w.modSwap (by decide)
    (gpioIn { clearResult (preClear 249 0) with readsFpgaState := true }) t
  have e2 := update_of_swapCleared _ _ _ c.stmSwap w.stmSwap (by decide)
    (gpioIn { clearResult (preClear 249 0) with readsFpgaState := true }) t
  refine ⟨{ clearResult (preClear 249 0) with readsFpgaState := true }, _, ?_, rfl, rfl,
    updateWithSysTime_eq _ t _ _ e1 e2, ?_, ?_⟩
  · have := w.ctl
    show 1 < (clearResult (preClear 249 0)).ctl.size
    omega
  · rw [updCore_modSwap]; show (clearResult (preClear 249 0)).modSwap.cur ≤ 1; rw [c.modSwap.cur]; decide
  · rw [updCore_stmSwap]; show (clearResult (preClear 249 0)).stmSwap.cur ≤ 1; rw [c.stmSwap.cur]; decide

/-- the six frames of a version query exist: the driver model produces them from a zeroed transmit buffer -/
example : ∃ f, IsFirmInfoFrame f 1 Cpu.INFO_TYPE_CPU_VERSION_MAJOR := by
  obtain ⟨_, t, _, _, e2, _, _, e5⟩ := firmware_version_frames_from_driver {} 249 1 (by simp [Drv.EC_OUTPUT_FRAME_SIZE, DrvLayout.Header_size]) (by decide)
  have : t.msgId = 1 := by rw [e2]; decide
  rw [this] at e5
  exact ⟨_, e5⟩
end Autd3.C17
