import Autd3.Model.Fw
import Autd3.Model.Wire
import Autd3.Lemmas.P02ClearObs
import Autd3.Lemmas.P02Frames
import Autd3.Lemmas.P02Mod
import Autd3.Lemmas.P02Stm
import Autd3.Lemmas.P02DefaultsWire
import Autd3.Lemmas.Hist8
import Autd3.Lemmas.RtNew
import Autd3.Lemmas.HistTrace4
/-!
# C02 — device state depends on the last datagram per resource, not on history
First layer: the three copies of the default pulse-width table agree (regenerated from the
sources on every run).  Second layer (unbounded, over the firmware model `Fw` and the read-back model
`Obs`): `Clear` installs the power-on observable state from EVERY well-formed state; frame conditions
of the single-frame configuration handlers; the BEGIN frame of a modulation write resets the write
cursor, and a single-frame modulation is history independent.

Definitions used in the statements (all in `Lemmas/P02*.lean`): `WF` (array sizes, `numTr ≤ 249`,
swap-chain dividers/cycles non-zero, the CPU flag word never holds the MOD_SET/STM_SET request bits),
`PowerOnObs` (the list of observables with their power-on values), `clearSwap` (what `Clear` does to a
swap chain), `modSegOf` (segment bit of a modulation frame).
-/
namespace Autd3.C02
open Autd3 Autd3.Fw Autd3.Gen

/-- driver `asin.dat` = FPGA power-on `asin.dat`, all 256 entries -/
theorem asin_tables_agree_drv_fpga : ∀ i : Fin 256, Tables.drvAsin i.val = Tables.fpgaAsin i.val := by
  decide +kernel

/-- what `Clear` installs (`ASIN_TABLE`, entry 255 patched to 0x100) = the driver's default table -/
theorem asin_tables_agree_cpu_drv : ∀ i : Fin 256,
    (if i.val = 255 then 0x100 else Tables.cpuAsin i.val) = Tables.drvAsin i.val := by
  decide +kernel

/-- every default pulse width is a legal 9-bit value and the table is monotone -/
theorem default_table_monotone_in_range : ∀ i : Fin 256,
    Tables.drvAsin i.val ≤ 256 ∧ (i.val + 1 < 256 → Tables.drvAsin i.val ≤ Tables.drvAsin (i.val + 1)) := by
  decide +kernel

/-- closed form, integer part: `T[i] = round(512·asin(i/255)/π)` ⇔ `sin(π(2T−1)/1024) ≤ i/255 < sin(π(2T+1)/1024)`;
the table is symmetric under the identity `sin²+cos²=1`: entries `i` and `j` with `i² + j² ≈ 255²` satisfy
`T[i] + T[j] ≈ 256`. Proved part: the end points. (`pwe_default_closed_form` over ℝ is not proved; see DESIGN.) -/
theorem default_table_endpoints_partial : Tables.drvAsin 0 = 0 ∧ Tables.drvAsin 255 = 256 ∧ Tables.drvAsin 128 = 86 := by
  decide +kernel


/-! ## second layer: Clear -/
open Autd3.P02

/-- **Clear installs the power-on observable state** (absolute form). -/
theorem clear_installs (s : State) (h : WF s) :
    ∃ s', Fw.clear s #[] = .ok (s', Cpu.NO_ERR) ∧ WF s' ∧ PowerOnObs s' ∧
      s'.numTr = s.numTr ∧ s'.dcSysTime = s.dcSysTime ∧
      s'.modSwap = clearSwap s.modSwap s.dcSysTime 2 ∧ s'.stmSwap = clearSwap s.stmSwap s.dcSysTime 1 :=
  ⟨clearResult s, clear_eq s h, wf_clearResult s h,
    powerOnObs_of_cleared (cleared_clearResult s h) h.numTr, (clearResult_kept s).2.2.2.2.2.2.2.2.2.2.2.1,
    (clearResult_kept s).2.2.2.2.2.2.2.2.2.2.2.2, modSwap_clearResult s h.ctl, stmSwap_clearResult s h.ctl⟩

theorem clear_resets (s : State) (h : WF s) :
    ∃ s' p, Fw.clear s #[] = .ok (s', Cpu.NO_ERR) ∧ Fw.new s.numTr s.dcSysTime = .ok p ∧
      (∀ seg, seg ≤ 1 →
        Obs.modBuffer s' seg = Obs.modBuffer p seg ∧ Obs.modDiv s' seg = Obs.modDiv p seg ∧
        Obs.modCycle s' seg = Obs.modCycle p seg ∧ Obs.modRep s' seg = Obs.modRep p seg ∧
        Obs.isStmGainMode s' seg = Obs.isStmGainMode p seg ∧ Obs.stmDiv s' seg = Obs.stmDiv p seg ∧
        Obs.stmCycle s' seg = Obs.stmCycle p seg ∧ Obs.stmRep s' seg = Obs.stmRep p seg ∧
        Obs.drivesAt s' seg 0 = Obs.drivesAt p seg 0) ∧
      Obs.reqModSeg s' = Obs.reqModSeg p ∧ Obs.modTransition s' = Obs.modTransition p ∧
      Obs.reqStmSeg s' = Obs.reqStmSeg p ∧ Obs.stmTransition s' = Obs.stmTransition p ∧
      Obs.silencerUpdateRate s' = Obs.silencerUpdateRate p ∧
      Obs.silencerCompletionSteps s' = Obs.silencerCompletionSteps p ∧
      Obs.silencerFixedUpdateRateMode s' = Obs.silencerFixedUpdateRateMode p ∧ s'.strict = p.strict ∧
      Obs.pweTable s' = Obs.pweTable p ∧ Obs.phaseCorrection s' = Obs.phaseCorrection p ∧
      Obs.debugTypes s' = Obs.debugTypes p ∧ Obs.debugValues s' = Obs.debugValues p ∧
      Obs.isForceFan s' = Obs.isForceFan p ∧ s'.readsFpgaState = p.readsFpgaState ∧ s'.portA = p.portA ∧
      Obs.currentModSeg s' = Obs.currentModSeg p ∧ Obs.currentStmSeg s' = Obs.currentStmSeg p ∧
      s'.modSwap.state = p.modSwap.state ∧ s'.modSwap.stop = p.modSwap.stop ∧
      s'.modSwap.extMode = p.modSwap.extMode ∧ s'.modSwap.mode = p.modSwap.mode ∧
      s'.modSwap.sysTime = p.modSwap.sysTime ∧ s'.modSwap.freqDiv.1 = p.modSwap.freqDiv.1 ∧
      s'.modSwap.cycle.1 = p.modSwap.cycle.1 ∧ s'.modSwap.ticOff.1 = p.modSwap.ticOff.1 ∧
      s'.stmSwap.state = p.stmSwap.state ∧ s'.stmSwap.stop = p.stmSwap.stop ∧
      s'.stmSwap.extMode = p.stmSwap.extMode ∧ s'.stmSwap.mode = p.stmSwap.mode ∧
      s'.stmSwap.sysTime = p.stmSwap.sysTime ∧ s'.stmSwap.freqDiv.1 = p.stmSwap.freqDiv.1 ∧
      s'.stmSwap.cycle.1 = p.stmSwap.cycle.1 ∧ s'.stmSwap.ticOff.1 = p.stmSwap.ticOff.1 := by
  have hp := wf_preClear s.numTr s.dcSysTime h.numTr
  have a := powerOnObs_of_cleared (cleared_clearResult s h) h.numTr
  have b := powerOnObs_of_cleared (cleared_clearResult _ hp) h.numTr
  have ca := cleared_clearResult s h
  have cb := cleared_clearResult _ hp
  have n1 : (clearResult s).numTr = s.numTr := (clearResult_kept s).2.2.2.2.2.2.2.2.2.2.2.1
  have n2 : (clearResult (preClear s.numTr s.dcSysTime)).numTr = s.numTr :=
    (clearResult_kept (preClear s.numTr s.dcSysTime)).2.2.2.2.2.2.2.2.2.2.2.1
  have t1 : (clearResult s).dcSysTime = s.dcSysTime := (clearResult_kept s).2.2.2.2.2.2.2.2.2.2.2.2
  have t2 : (clearResult (preClear s.numTr s.dcSysTime)).dcSysTime = s.dcSysTime :=
    (clearResult_kept (preClear s.numTr s.dcSysTime)).2.2.2.2.2.2.2.2.2.2.2.2
  refine ⟨clearResult s, clearResult (preClear s.numTr s.dcSysTime), clear_eq s h, new_eq _ _ h.numTr, ?_,
    by rw [a.reqModSeg, b.reqModSeg], by rw [a.modTransition, b.modTransition],
    by rw [a.reqStmSeg, b.reqStmSeg], by rw [a.stmTransition, b.stmTransition],
    by rw [a.silRate, b.silRate], by rw [a.silSteps, b.silSteps], by rw [a.silFixed, b.silFixed],
    by rw [a.strict, b.strict], by rw [a.pwe, b.pwe], by rw [a.phaseCorr, b.phaseCorr, n1, n2],
    by rw [a.debugTypes, b.debugTypes], by rw [a.debugValues, b.debugValues],
    by rw [a.forceFan, b.forceFan], by rw [a.reads, b.reads], by rw [a.portA, b.portA],
    by rw [a.curMod, b.curMod], by rw [a.curStm, b.curStm],
    by rw [ca.modSwap.state, cb.modSwap.state], by rw [ca.modSwap.stop, cb.modSwap.stop],
    by rw [ca.modSwap.extMode, cb.modSwap.extMode], by rw [ca.modSwap.mode, cb.modSwap.mode],
    by rw [ca.modSwap.sysTime, cb.modSwap.sysTime, t1, t2], by rw [ca.modSwap.freqDiv0, cb.modSwap.freqDiv0],
    by rw [ca.modSwap.cycle0, cb.modSwap.cycle0], by rw [ca.modSwap.ticOff0, cb.modSwap.ticOff0],
    by rw [ca.stmSwap.state, cb.stmSwap.state], by rw [ca.stmSwap.stop, cb.stmSwap.stop],
    by rw [ca.stmSwap.extMode, cb.stmSwap.extMode], by rw [ca.stmSwap.mode, cb.stmSwap.mode],
    by rw [ca.stmSwap.sysTime, cb.stmSwap.sysTime, t1, t2], by rw [ca.stmSwap.freqDiv0, cb.stmSwap.freqDiv0],
    by rw [ca.stmSwap.cycle0, cb.stmSwap.cycle0], by rw [ca.stmSwap.ticOff0, cb.stmSwap.ticOff0]⟩
  intro seg hseg
  refine ⟨by rw [a.modBuffer seg hseg, b.modBuffer seg hseg], by rw [a.modDiv seg hseg, b.modDiv seg hseg],
    by rw [a.modCycle seg hseg, b.modCycle seg hseg], by rw [a.modRep seg hseg, b.modRep seg hseg],
    by rw [a.stmGain seg hseg, b.stmGain seg hseg], by rw [a.stmDiv seg hseg, b.stmDiv seg hseg],
    by rw [a.stmCycle seg hseg, b.stmCycle seg hseg], by rw [a.stmRep seg hseg, b.stmRep seg hseg],
    by rw [a.drives seg hseg, b.drives seg hseg, n1, n2]⟩

/-- what `Clear` does NOT reset (said explicitly): `synchronized`, the latched `numFoci`, `gainStmMode`,
the FociSTM write cursor `stmWrite`, the transition latches, `readsStore`/`isRxDataUsed` (a version query in
flight stays in flight), and the registers FPGA_STATE, VERSION_NUM_*, STM_SOUND_SPEED0/1, STM_NUM_FOCI0/1 —
the last four are dead while both segments are in gain mode, which is why they are not observables of
`clear_resets`. -/
theorem clear_keeps (s : State) (h : WF s) :
    ∃ s', Fw.clear s #[] = .ok (s', Cpu.NO_ERR) ∧
      s'.synchronized = s.synchronized ∧ s'.numFoci = s.numFoci ∧ s'.gainStmMode = s.gainStmMode ∧
      s'.stmWrite = s.stmWrite ∧ s'.modTrMode = s.modTrMode ∧ s'.stmTrMode = s.stmTrMode ∧
      s'.readsStore = s.readsStore ∧ s'.isRxDataUsed = s.isRxDataUsed ∧ s'.rxData = s.rxData ∧
      s'.lastMsgId = s.lastMsgId ∧ s'.ack = s.ack ∧
      (∀ seg, seg ≤ 1 → Obs.soundSpeed s' seg = Obs.soundSpeed s seg ∧ Obs.numFoci s' seg = Obs.numFoci s seg) ∧
      Obs.fpgaStateReg s' = Obs.fpgaStateReg s ∧
      reg s' Cpu.ADDR_VERSION_NUM_MAJOR = reg s Cpu.ADDR_VERSION_NUM_MAJOR ∧
      reg s' Cpu.ADDR_VERSION_NUM_MINOR = reg s Cpu.ADDR_VERSION_NUM_MINOR := by
  have hk := clearResult_keeps_regs s
  simp only [List.mem_cons, List.mem_nil_iff, or_false, forall_eq_or_imp, forall_eq] at hk
  obtain ⟨k1, k2, k3, k91, k92, k93, k94⟩ := hk
  obtain ⟨c1, c2, c3, c4, c5, c6, c7, c8, c9, c10, c11, _, _⟩ := clearResult_kept s
  refine ⟨clearResult s, clear_eq s h, c1, c2, c3, c4, c5, c6, c7, c8, c9, c10, c11, ?_, ?_, ?_, ?_⟩
  · intro seg hseg
    rcases seg_cases hseg with h0 | h0 <;> subst h0
    · simp only [Obs.soundSpeed, Obs.numFoci, reg, Cpu.ADDR_STM_SOUND_SPEED0, Cpu.ADDR_STM_NUM_FOCI0, Nat.add_zero, k91, k93, and_self]
    · simp only [Obs.soundSpeed, Obs.numFoci, reg, Cpu.ADDR_STM_SOUND_SPEED0, Cpu.ADDR_STM_NUM_FOCI0, Nat.reduceAdd, k92, k94, and_self]
  · simp only [Obs.fpgaStateReg, reg, Cpu.ADDR_FPGA_STATE, k1]
  · simp only [reg, Cpu.ADDR_VERSION_NUM_MAJOR, k2]
  · simp only [reg, Cpu.ADDR_VERSION_NUM_MINOR, k3]

/-- the time-dependent part: `Clear` keeps the swap chains' `curIdx` (it is only recomputed by
`update_with_sys_time`), so `current_*_idx` right after `Clear` is stale; after the NEXT clock update it is
a function of the time alone — the same function for every prior state, hence equal to the power-on
device's. -/
theorem clear_then_update (s : State) (h : WF s) (t : Nat) :
    ∃ s' s'', Fw.clear s #[] = .ok (s', Cpu.NO_ERR) ∧ updateWithSysTime s' t = .ok s'' ∧
      Obs.currentModIdx s'' = ((fpgaSysTime t >>> 9) / 0xFFFF) % 2 ∧ Obs.currentStmIdx s'' = 0 ∧
      Obs.currentModSeg s'' = 0 ∧ Obs.currentStmSeg s'' = 0 ∧ s''.dcSysTime = t := by
  have w := wf_clearResult s h
  obtain ⟨s'', e, r⟩ := update_after_clear _ (cleared_clearResult s h) w.modSwap w.stmSwap t
  exact ⟨clearResult s, s'', clear_eq s h, e, r⟩

/-- the power-on state itself is well-formed (the invariant is not vacuous and `Fw.new` never fails for a
real device size) -/
theorem new_wf (numTr now : Nat) (hn : numTr ≤ 249) :
    ∃ p, Fw.new numTr now = .ok p ∧ WF p ∧ PowerOnObs p :=
  ⟨_, new_eq numTr now hn, wf_clearResult _ (wf_preClear numTr now hn),
    powerOnObs_of_cleared (cleared_clearResult _ (wf_preClear numTr now hn)) hn⟩

/-! ## second layer: frame conditions of the single-frame configuration handlers

Each theorem has the shape: the handler never panics on a well-formed state, the result is well-formed,
the result state equals the old one except for the listed fields (`s' = { s with … }` — in particular both
swap chains and the modulation / STM memories are untouched by all nine handlers; the pulse-width table
only by `configPwe`, the phase-correction memory only by `phaseCorrOp`), and of the register file only the
listed addresses can change. -/

/-- `config_debug` (GPIOOutputs): only registers DEBUG_VALUE*_* (240…255) and CTL_FLAG (0).  This is the
statement F12 violated (it raised MOD_SET and thereby touched the modulation swap chain). -/
theorem frame_configDebug (s : State) (d : Array Nat) (h : WF s) :
    ∃ s', configDebug s d = .ok (s', Cpu.NO_ERR) ∧ WF s' ∧ s' = { s with ctl := s'.ctl } ∧
      ∀ j, j ≠ 0 → ¬(240 ≤ j ∧ j < 256) → rd s'.ctl j = rd s.ctl j := by
  refine ⟨_, configDebug_eq s d h, wf_ctl s _ h (by simp [h.ctl]), rfl, ?_⟩
  intro j h0 hj
  simp only [P02.rd_set, rd_writeLoop]
  have : ¬ (240 ≤ j ∧ j < 240 + 16 ∧ j < s.ctl.size) := by omega
  simp [h0, this]

/-- `synchronize`: only the `synchronized` flag and CTL_FLAG -/
theorem frame_synchronize (s : State) (d : Array Nat) (h : WF s) :
    ∃ s', synchronize s d = .ok (s', Cpu.NO_ERR) ∧ WF s' ∧ s'.synchronized = true ∧
      s' = { s with ctl := s'.ctl, synchronized := s'.synchronized } ∧
      ∀ j, j ≠ 0 → rd s'.ctl j = rd s.ctl j := by
  refine ⟨_, synchronize_eq s d h, ?_, rfl, rfl, ?_⟩
  · exact wf_ctl { s with synchronized := true } _ { h with } (by simp [h.ctl])
  · intro j h0
    simp [P02.rd_set, h0]

/-- `config_pwe`: only the pulse-width table -/
theorem frame_configPwe (s : State) (d : Array Nat) (h : WF s) :
    ∃ s', configPwe s d = .ok (s', Cpu.NO_ERR) ∧ WF s' ∧ s' = { s with pwe := s'.pwe } ∧
      ∀ i, i < 256 → rd s'.pwe i = u16at d (FwLayout.Pwe_size + 2 * i) := by
  refine ⟨_, configPwe_eq s d h, { h with pwe := by simp [h.pwe] }, rfl, ?_⟩
  intro i hi
  simp only [rd_writeLoop, rd_wordsAt, h.pwe]
  simp [hi, Nat.mod_eq_of_lt (P02.u16at_lt _ _), FwLayout.Pwe_size]

/-- `phase_corr`: only the phase-correction memory -/
theorem frame_phaseCorrOp (s : State) (d : Array Nat) (h : WF s) :
    ∃ s', phaseCorrOp s d = .ok (s', Cpu.NO_ERR) ∧ WF s' ∧ s' = { s with phaseCorr := s'.phaseCorr } ∧
      (∀ i, i < 125 → rd s'.phaseCorr i = u16at d (FwLayout.PhaseCorr_size + 2 * i)) ∧
      (∀ i, 125 ≤ i → rd s'.phaseCorr i = rd s.phaseCorr i) := by
  refine ⟨_, phaseCorrOp_eq s d h, { h with phaseCorr := by simp [h.phaseCorr] }, rfl, ?_, ?_⟩
  · intro i hi
    simp only [rd_writeLoop, rd_wordsAt, h.phaseCorr]
    have : i < 128 := by omega
    simp [hi, this, Nat.mod_eq_of_lt (P02.u16at_lt _ _), FwLayout.PhaseCorr_size]
  · intro i hi
    simp only [rd_writeLoop]
    simp
    omega

/-- `config_silencer`: only the silencer registers (64…68), CTL_FLAG, and the CPU's guard copies
`strict / minDivI / minDivP`; a rejected request (`ERR_INVALID_SILENCER_SETTING`) changes nothing at all -/
theorem frame_configSilencer (s : State) (d : Array Nat) (h : WF s) :
    ∃ s' a, configSilencer s d = .ok (s', a) ∧ WF s' ∧
      s' = { s with ctl := s'.ctl, strict := s'.strict, minDivI := s'.minDivI, minDivP := s'.minDivP } ∧
      (∀ j, j ≠ 0 → ¬(64 ≤ j ∧ j ≤ 68) → rd s'.ctl j = rd s.ctl j) ∧
      (a ≠ Cpu.NO_ERR → s' = s) := by
  rw [configSilencer_eq s d h]
  split
  · refine ⟨_, _, rfl, wf_ctl s _ h (by simp [h.ctl]), rfl, ?_, fun hne => absurd rfl hne⟩
    intro j h0 hj
    have e1 : j ≠ 64 := by omega
    have e2 : j ≠ 65 := by omega
    have e3 : j ≠ 66 := by omega
    simp [P02.rd_set, h0, e1, e2, e3]
  · split
    · exact ⟨_, _, rfl, h, rfl, fun _ _ _ => rfl, fun _ => rfl⟩
    · refine ⟨_, _, rfl, ?_, rfl, ?_, fun hne => absurd rfl hne⟩
      · exact wf_silencer_upd s _ _ _ _ h (by simp [h.ctl])
      · intro j h0 hj
        have e1 : j ≠ 64 := by omega
        have e2 : j ≠ 67 := by omega
        have e3 : j ≠ 68 := by omega
        simp [P02.rd_set, h0, e1, e2, e3]

/-- `configure_force_fan`: only the CPU flag word (bit 13), which keeps its invariant -/
theorem frame_configureForceFan (s : State) (d : Array Nat) (h : WF s) :
    ∃ s', configureForceFan s d = .ok (s', Cpu.NO_ERR) ∧ WF s' ∧ s' = { s with flagsInternal := s'.flagsInternal } ∧
      ((u8at d FwLayout.ForceFan_value_off ≠ 0 ∧ s'.flagsInternal = s.flagsInternal ||| Cpu.CTL_FLAG_FORCE_FAN) ∨
       (u8at d FwLayout.ForceFan_value_off = 0 ∧ s'.flagsInternal = s.flagsInternal &&& (65535 - Cpu.CTL_FLAG_FORCE_FAN))) := by
  obtain ⟨f', e, hf, hc⟩ := configureForceFan_frame s d h.flags
  exact ⟨_, e, { h with flags := hf }, rfl, hc⟩

/-- `emulate_gpio_in`: only the CPU flag word (bits 8…11) -/
theorem frame_emulateGpioIn (s : State) (d : Array Nat) (h : WF s) :
    ∃ s', emulateGpioIn s d = .ok (s', Cpu.NO_ERR) ∧ WF s' ∧ s' = { s with flagsInternal := s'.flagsInternal } :=
  ⟨_, emulateGpioIn_eq s d, { h with flags := flagsOK_gpioIn _ _ h.flags }, rfl⟩

/-- `configure_reads_fpga_state`: only the reads flag -/
theorem frame_configureReadsFpgaState (s : State) (d : Array Nat) (h : WF s) :
    ∃ s', configureReadsFpgaState s d = .ok (s', Cpu.NO_ERR) ∧ WF s' ∧
      s' = { s with readsFpgaState := s'.readsFpgaState } ∧
      s'.readsFpgaState = (u8at d FwLayout.ReadsFPGAState_value_off ≠ 0) :=
  ⟨_, rfl, { h with }, rfl, by simp⟩

/-- `cpu_gpio_out`: only port A -/
theorem frame_cpuGpioOut (s : State) (d : Array Nat) (h : WF s) :
    ∃ s', cpuGpioOut s d = .ok (s', Cpu.NO_ERR) ∧ WF s' ∧ s' = { s with portA := s'.portA } ∧
      s'.portA = u8at d FwLayout.CpuGPIOOut_pa_podr_off :=
  ⟨_, rfl, { h with }, rfl, rfl⟩

/-! ## second layer: history independence of a modulation write -/

/-- **BEGIN resets the cursor** (`begin_resets_cursor`, modulation): whatever the prior state — any old
cursor value, any old write-page / write-segment register (the F1 defect was a stale page register) — a
BEGIN frame of `write_mod` either is rejected by one of the two validations, and then the state is the old
one with the cursor reset to 0, or it leaves the cursor at exactly the number of bytes this frame carried,
the write-page register at 0 and the write-segment register at the frame's segment. -/
theorem begin_resets_cursor_mod (s s' : State) (d : Array Nat) (a : Nat) (h : WF s)
    (hB : hasFlag (u8at d FwLayout.ModulationHead_flag_off) Cpu.MODULATION_FLAG_BEGIN = true)
    (hr : writeMod s d = .ok (s', a)) :
    (a ≠ Cpu.NO_ERR ∧ s' = { s with modCycle := 0 }) ∨
    (s'.modCycle = u8at d FwLayout.ModulationHead_size_off ∧ reg s' Cpu.ADDR_MOD_MEM_WR_PAGE = 0 ∧
      reg s' Cpu.ADDR_MOD_MEM_WR_SEGMENT = modSegOf d) := by
  cases hv1 : validateTransitionMode s.modSegment (modSegOf d) (u16at d FwLayout.ModulationHead_rep_off)
        (u8at d FwLayout.ModulationHead_transition_mode_off)
  · cases hv2 : validateSilencerSettings s (sel s.stmDiv s.stmSegment) (u16at d FwLayout.ModulationHead_freq_div_off)
    · right
      rw [writeMod_begin s d h.toSized hB hv1 hv2] at hr
      obtain ⟨e1, e2, e3, _⟩ := modTail_frame _ _ _ _ (wf_modBeginRes s d h) hr
      have hseg := modSegOf_le d
      refine ⟨by rw [e1]; rfl, ?_, ?_⟩
      · unfold reg
        rw [e3 _ (by decide) (by decide) (by decide) (by simp only [Cpu.ADDR_MOD_MEM_WR_PAGE, Cpu.ADDR_MOD_CYCLE0]; omega)]
        simp [modBeginRes, P02.rd_set, h.ctl, Cpu.ADDR_MOD_MEM_WR_PAGE]
      · unfold reg
        rw [e3 _ (by decide) (by decide) (by decide) (by simp only [Cpu.ADDR_MOD_MEM_WR_SEGMENT, Cpu.ADDR_MOD_CYCLE0]; omega)]
        simp [modBeginRes, P02.rd_set, h.ctl, Cpu.ADDR_MOD_MEM_WR_PAGE, Cpu.ADDR_MOD_MEM_WR_SEGMENT]
        omega
    · left
      rw [writeMod_rej2 s d hB hv1 hv2] at hr
      simp only [Except.ok.injEq, Prod.mk.injEq] at hr
      exact ⟨by rw [← hr.2]; decide, hr.1.symm⟩
  · left
    rw [writeMod_rej1 s d hB hv1] at hr
    simp only [Except.ok.injEq, Prod.mk.injEq] at hr
    exact ⟨by rw [← hr.2]; decide, hr.1.symm⟩

/-- **BEGIN resets the cursor** (`begin_resets_cursor`, FociSTM): a BEGIN frame of `write_foci_stm` addressed
to a real segment, whose points fit the first page (`send_num · num_foci < 4096`; the SDK sends at most
≈ 77 points of ≤ 8 foci per frame), is either rejected by a validation — then the state is untouched — or
leaves the write cursor `stm_write` at exactly the number of points this frame carried, the latched
`num_foci` at the frame's, the write-page register at 0 and the write-segment register at the frame's segment,
whatever cursor / page / segment the prior history left behind.

NOT PROVED (`begin_resets_cursor`, GainSTM): the same statement for `write_gain_stm`
(`sel s'.stmCycle seg = number of patterns in the frame ∧ reg s' STM_MEM_WR_PAGE = 0 ∧ reg s' STM_MEM_WR_SEGMENT = seg`
for an accepted BEGIN frame with a valid mode byte).  The header writes are the same shape as here; what is
missing is the case analysis over the 3 modes × up to 4 patterns per frame of the pattern-copy part. -/
theorem begin_resets_cursor_foci (s s' : State) (d : Array Nat) (a : Nat) (h : WF s)
    (hB : hasFlag (u8at d FwLayout.FociSTMSubseq_flag_off) Cpu.FOCI_STM_FLAG_BEGIN = true)
    (hseg : u8at d FwLayout.FociSTMSubseq_segment_off ≤ 1)
    (hsize : u8at d FwLayout.FociSTMSubseq_send_num_off * u8at d FwLayout.FociSTMHead_num_foci_off < 4096)
    (hr : writeFociStm s d = .ok (s', a)) :
    (a ≠ Cpu.NO_ERR ∧ s' = s) ∨
    (s'.stmWrite = u8at d FwLayout.FociSTMSubseq_send_num_off * u8at d FwLayout.FociSTMHead_num_foci_off ∧
      s'.numFoci = u8at d FwLayout.FociSTMHead_num_foci_off ∧
      reg s' Cpu.ADDR_STM_MEM_WR_PAGE = 0 ∧ reg s' Cpu.ADDR_STM_MEM_WR_SEGMENT = u8at d FwLayout.FociSTMSubseq_segment_off) :=
  foci_begin_cursor s s' d a h hB hseg hsize hr

/-- **single-frame modulation: read-back is a function of the frame alone.**  For EVERY well-formed prior
state, an accepted BEGIN|END frame carrying `n ≥ 1` samples leaves, in the addressed segment, exactly the
frame's divider, loop count, `n` as cycle and the frame's `n` sample bytes as buffer. -/
theorem mod_single_frame_readback (s s' : State) (d : Array Nat) (h : WF s)
    (hB : hasFlag (u8at d FwLayout.ModulationHead_flag_off) Cpu.MODULATION_FLAG_BEGIN = true)
    (hE : hasFlag (u8at d FwLayout.ModulationHead_flag_off) Cpu.MODULATION_FLAG_END = true)
    (hn : 1 ≤ u8at d FwLayout.ModulationHead_size_off)
    (hr : writeMod s d = .ok (s', Cpu.NO_ERR)) :
    Obs.modDiv s' (modSegOf d) = u16at d FwLayout.ModulationHead_freq_div_off ∧
    Obs.modRep s' (modSegOf d) = u16at d FwLayout.ModulationHead_rep_off ∧
    Obs.modCycle s' (modSegOf d) = u8at d FwLayout.ModulationHead_size_off ∧
    Obs.modBuffer s' (modSegOf d) = .ok ((Array.range (u8at d FwLayout.ModulationHead_size_off)).map
      fun i => u8at d (FwLayout.ModulationHead_size + i)) := by
  obtain ⟨hv1, hv2⟩ := writeMod_accept_begin s s' d hB hr
  exact mod_single_frame_obs s s' d _ h hB hE hn hv1 hv2 hr

/-- **history independence** (`mod_history_independent_single_frame`): two arbitrary well-formed devices
that both accept the same single-frame modulation hold the same buffer, divider, loop count and cycle in
the addressed segment afterwards. -/
theorem mod_history_independent_single_frame (s1 s2 s1' s2' : State) (d : Array Nat) (h1 : WF s1) (h2 : WF s2)
    (hB : hasFlag (u8at d FwLayout.ModulationHead_flag_off) Cpu.MODULATION_FLAG_BEGIN = true)
    (hE : hasFlag (u8at d FwLayout.ModulationHead_flag_off) Cpu.MODULATION_FLAG_END = true)
    (hn : 1 ≤ u8at d FwLayout.ModulationHead_size_off)
    (r1 : writeMod s1 d = .ok (s1', Cpu.NO_ERR)) (r2 : writeMod s2 d = .ok (s2', Cpu.NO_ERR)) :
    Obs.modBuffer s1' (modSegOf d) = Obs.modBuffer s2' (modSegOf d) ∧
    Obs.modDiv s1' (modSegOf d) = Obs.modDiv s2' (modSegOf d) ∧
    Obs.modRep s1' (modSegOf d) = Obs.modRep s2' (modSegOf d) ∧
    Obs.modCycle s1' (modSegOf d) = Obs.modCycle s2' (modSegOf d) := by
  obtain ⟨a1, a2, a3, a4⟩ := mod_single_frame_readback s1 s1' d h1 hB hE hn r1
  obtain ⟨b1, b2, b3, b4⟩ := mod_single_frame_readback s2 s2' d h2 hB hE hn r2
  exact ⟨by rw [a4, b4], by rw [a1, b1], by rw [a2, b2], by rw [a3, b3]⟩


/-! ## second layer: the SDK's defaults are a fixpoint of the power-on state -/

/-- **`defaults_are_fixpoint`**: on the power-on device (`Fw.new`, any transducer count ≤ 249, any clock),
`ecat_recv` of the frame the driver model packs from a zeroed transmit buffer for each of the five default
datagrams — silencer (10, 40, strict), the default pulse-width table `Gen.Tables.drvAsin`, zero phase
correction, modulation `[0xFF, 0xFF]` with divider 0xFFFF / infinite loop to segment 0 (Immediate), null
gain to segment 0 (Immediate) — is accepted (ack = message id 1, the operation is done after one frame)
and leaves the device in a state with all power-on observables (`PowerOnObsQ` = `PowerOnObs` except that
`Obs.modTransition` may now read Immediate: the modulation frame records its request in the transition-mode
register; the gain frame writes SyncIdx, so the STM side is literally unchanged). -/
theorem defaults_are_fixpoint (numTr now : Nat) (hn : numTr ≤ 249) :
    ∃ p, Fw.new numTr now = .ok p ∧ PowerOnObs p ∧ p.numTr = numTr ∧
      (∃ op t sz p', Wire.packOp (Wire.Op.ofDg (.silencerSteps 10 40 true)) numTr {} = .ok (op, t, sz) ∧
        op.done = true ∧ ecatRecv p t.frame = .ok p' ∧ p'.ack = 1 ∧ p'.numTr = numTr ∧ PowerOnObsQ p') ∧
      (∃ op t sz p', Wire.packOp (Wire.Op.ofDg (.pwe ((Array.range 256).map Tables.drvAsin))) numTr {} = .ok (op, t, sz) ∧
        op.done = true ∧ ecatRecv p t.frame = .ok p' ∧ p'.ack = 1 ∧ p'.numTr = numTr ∧ PowerOnObsQ p') ∧
      (∃ op t sz p', Wire.packOp (Wire.Op.ofDg (.phaseCorr (Array.replicate numTr 0))) numTr {} = .ok (op, t, sz) ∧
        op.done = true ∧ ecatRecv p t.frame = .ok p' ∧ p'.ack = 1 ∧ p'.numTr = numTr ∧ PowerOnObsQ p') ∧
      (∃ op t sz p', Wire.packOp (Wire.Op.ofDg (.modulation 0 (some (255, 0)) 0xFFFF 0xFFFF #[0xFF, 0xFF])) numTr {} = .ok (op, t, sz) ∧
        op.done = true ∧ ecatRecv p t.frame = .ok p' ∧ p'.ack = 1 ∧ p'.numTr = numTr ∧ PowerOnObsQ p' ∧
        Obs.modTransition p' = .ok .immediate) ∧
      (∃ op t sz p', Wire.packOp (Wire.Op.ofDg (.gain 0 (some (255, 0)) (Array.replicate numTr 0))) numTr {} = .ok (op, t, sz) ∧
        op.done = true ∧ ecatRecv p t.frame = .ok p' ∧ p'.ack = 1 ∧ p'.numTr = numTr ∧ PowerOnObsQ p') := by
  have hp := wf_preClear numTr now hn
  have cl := cleared_clearResult _ hp
  have w := wf_clearResult _ hp
  have hnum : (clearResult (preClear numTr now)).numTr = numTr := (clearResult_kept _).2.2.2.2.2.2.2.2.2.2.2.1
  have hid : (clearResult (preClear numTr now)).lastMsgId ≠ 1 := by
    rw [(clearResult_kept _).2.2.2.2.2.2.2.2.2.1]; show (255 : Nat) ≠ 1; decide
  have c := dflt_of_cleared cl w
  refine ⟨_, new_eq numTr now hn, powerOnObs_of_cleared cl (by rw [hnum]; exact hn), hnum, ?_, ?_, ?_, ?_, ?_⟩
  · obtain ⟨op, t, sz, s', e, d, r, c', a⟩ := dflt_frame_silencer _ numTr c hid
    exact ⟨op, t, sz, s', e, d, r, a, by rw [c'.numTrEq, hnum], powerOnObsQ_of_dflt c'⟩
  · obtain ⟨op, t, sz, s', e, d, r, c', a⟩ := dflt_frame_pwe _ numTr c hid
    exact ⟨op, t, sz, s', e, d, r, a, by rw [c'.numTrEq, hnum], powerOnObsQ_of_dflt c'⟩
  · obtain ⟨op, t, sz, s', e, d, r, c', a⟩ := dflt_frame_phaseCorr _ numTr c hid
    exact ⟨op, t, sz, s', e, d, r, a, by rw [c'.numTrEq, hnum], powerOnObsQ_of_dflt c'⟩
  · obtain ⟨op, t, sz, s', e, d, r, c', a, m⟩ := dflt_frame_mod _ numTr c hid
    exact ⟨op, t, sz, s', e, d, r, a, by rw [c'.numTrEq, hnum], powerOnObsQ_of_dflt c', m⟩
  · have := dflt_frame_gain _ c hid
    rw [hnum] at this
    obtain ⟨op, t, sz, s', e, d, r, c', a⟩ := this
    exact ⟨op, t, sz, s', e, d, r, a, c'.numTrEq, powerOnObsQ_of_dflt c'⟩

/-- the same from ANY well-formed device right after `Clear` (message id 1 must be fresh): so "Clear, then
the defaults" and "power-on" are observably the same device. -/
theorem defaults_after_clear (s : State) (h : WF s) (hid : s.lastMsgId ≠ 1) :
    ∃ s0, Fw.clear s #[] = .ok (s0, Cpu.NO_ERR) ∧
      (∃ op t sz s', Wire.packOp (Wire.Op.ofDg (.silencerSteps 10 40 true)) s.numTr {} = .ok (op, t, sz) ∧
        ecatRecv s0 t.frame = .ok s' ∧ s'.ack = 1 ∧ PowerOnObsQ s') ∧
      (∃ op t sz s', Wire.packOp (Wire.Op.ofDg (.pwe ((Array.range 256).map Tables.drvAsin))) s.numTr {} = .ok (op, t, sz) ∧
        ecatRecv s0 t.frame = .ok s' ∧ s'.ack = 1 ∧ PowerOnObsQ s') ∧
      (∃ op t sz s', Wire.packOp (Wire.Op.ofDg (.phaseCorr (Array.replicate s.numTr 0))) s.numTr {} = .ok (op, t, sz) ∧
        ecatRecv s0 t.frame = .ok s' ∧ s'.ack = 1 ∧ PowerOnObsQ s') ∧
      (∃ op t sz s', Wire.packOp (Wire.Op.ofDg (.modulation 0 (some (255, 0)) 0xFFFF 0xFFFF #[0xFF, 0xFF])) s.numTr {} = .ok (op, t, sz) ∧
        ecatRecv s0 t.frame = .ok s' ∧ s'.ack = 1 ∧ PowerOnObsQ s') ∧
      (∃ op t sz s', Wire.packOp (Wire.Op.ofDg (.gain 0 (some (255, 0)) (Array.replicate s.numTr 0))) s.numTr {} = .ok (op, t, sz) ∧
        ecatRecv s0 t.frame = .ok s' ∧ s'.ack = 1 ∧ PowerOnObsQ s') := by
  have cl := cleared_clearResult s h
  have w := wf_clearResult s h
  have hnum : (clearResult s).numTr = s.numTr := (clearResult_kept _).2.2.2.2.2.2.2.2.2.2.2.1
  have hid' : (clearResult s).lastMsgId ≠ 1 := by rw [(clearResult_kept _).2.2.2.2.2.2.2.2.2.1]; exact hid
  have c := dflt_of_cleared cl w
  refine ⟨_, clear_eq s h, ?_, ?_, ?_, ?_, ?_⟩
  · obtain ⟨op, t, sz, s', e, d, r, c', a⟩ := dflt_frame_silencer _ s.numTr c hid'
    exact ⟨op, t, sz, s', e, r, a, powerOnObsQ_of_dflt c'⟩
  · obtain ⟨op, t, sz, s', e, d, r, c', a⟩ := dflt_frame_pwe _ s.numTr c hid'
    exact ⟨op, t, sz, s', e, r, a, powerOnObsQ_of_dflt c'⟩
  · obtain ⟨op, t, sz, s', e, d, r, c', a⟩ := dflt_frame_phaseCorr _ s.numTr c hid'
    exact ⟨op, t, sz, s', e, r, a, powerOnObsQ_of_dflt c'⟩
  · obtain ⟨op, t, sz, s', e, d, r, c', a, _⟩ := dflt_frame_mod _ s.numTr c hid'
    exact ⟨op, t, sz, s', e, r, a, powerOnObsQ_of_dflt c'⟩
  · have := dflt_frame_gain _ c hid'
    rw [hnum] at this
    obtain ⟨op, t, sz, s', e, d, r, c', a⟩ := this
    exact ⟨op, t, sz, s', e, r, a, powerOnObsQ_of_dflt c'⟩

/-- spelled out: a state with the power-on observables up to the modulation transition request (`PowerOnObsQ`,
what every default datagram leaves) agrees with the power-on state on every observable of `clear_resets`
other than `Obs.modTransition`. -/
theorem defaults_obs_unchanged (p p' : State) (a : PowerOnObs p) (b : PowerOnObsQ p') (hn : p'.numTr = p.numTr) :
    (∀ seg, seg ≤ 1 →
      Obs.modBuffer p' seg = Obs.modBuffer p seg ∧ Obs.modDiv p' seg = Obs.modDiv p seg ∧
      Obs.modCycle p' seg = Obs.modCycle p seg ∧ Obs.modRep p' seg = Obs.modRep p seg ∧
      Obs.isStmGainMode p' seg = Obs.isStmGainMode p seg ∧ Obs.stmDiv p' seg = Obs.stmDiv p seg ∧
      Obs.stmCycle p' seg = Obs.stmCycle p seg ∧ Obs.stmRep p' seg = Obs.stmRep p seg ∧
      Obs.drivesAt p' seg 0 = Obs.drivesAt p seg 0) ∧
    Obs.reqModSeg p' = Obs.reqModSeg p ∧ Obs.reqStmSeg p' = Obs.reqStmSeg p ∧
    Obs.stmTransition p' = Obs.stmTransition p ∧
    Obs.silencerUpdateRate p' = Obs.silencerUpdateRate p ∧
    Obs.silencerCompletionSteps p' = Obs.silencerCompletionSteps p ∧
    Obs.silencerFixedUpdateRateMode p' = Obs.silencerFixedUpdateRateMode p ∧ p'.strict = p.strict ∧
    Obs.pweTable p' = Obs.pweTable p ∧ Obs.phaseCorrection p' = Obs.phaseCorrection p ∧
    Obs.debugTypes p' = Obs.debugTypes p ∧ Obs.debugValues p' = Obs.debugValues p ∧
    Obs.isForceFan p' = Obs.isForceFan p ∧ p'.readsFpgaState = p.readsFpgaState ∧ p'.portA = p.portA ∧
    Obs.currentModSeg p' = Obs.currentModSeg p ∧ Obs.currentStmSeg p' = Obs.currentStmSeg p ∧
    p'.modSwap.state = p.modSwap.state ∧ p'.modSwap.stop = p.modSwap.stop ∧
    p'.stmSwap.state = p.stmSwap.state ∧ p'.stmSwap.stop = p.stmSwap.stop := by
  refine ⟨?_, by rw [a.reqModSeg, b.reqModSeg], by rw [a.reqStmSeg, b.reqStmSeg],
    by rw [a.stmTransition, b.stmTransition], by rw [a.silRate, b.silRate], by rw [a.silSteps, b.silSteps],
    by rw [a.silFixed, b.silFixed], by rw [a.strict, b.strict], by rw [a.pwe, b.pwe],
    by rw [a.phaseCorr, b.phaseCorr, hn], by rw [a.debugTypes, b.debugTypes], by rw [a.debugValues, b.debugValues],
    by rw [a.forceFan, b.forceFan], by rw [a.reads, b.reads], by rw [a.portA, b.portA],
    by rw [a.curMod, b.curMod], by rw [a.curStm, b.curStm],
    by rw [a.modLoop.1, b.modLoop.1], by rw [a.modLoop.2, b.modLoop.2],
    by rw [a.stmLoop.1, b.stmLoop.1], by rw [a.stmLoop.2, b.stmLoop.2]⟩
  intro seg hseg
  exact ⟨by rw [a.modBuffer seg hseg, b.modBuffer seg hseg], by rw [a.modDiv seg hseg, b.modDiv seg hseg],
    by rw [a.modCycle seg hseg, b.modCycle seg hseg], by rw [a.modRep seg hseg, b.modRep seg hseg],
    by rw [a.stmGain seg hseg, b.stmGain seg hseg], by rw [a.stmDiv seg hseg, b.stmDiv seg hseg],
    by rw [a.stmCycle seg hseg, b.stmCycle seg hseg], by rw [a.stmRep seg hseg, b.stmRep seg hseg],
    by rw [a.drives seg hseg, b.drives seg hseg, hn]⟩


/-! ## third layer: history independence and frame conditions of the multi-frame data datagrams

Vocabulary (all in `Lemmas/Hist*.lean`, every observation through `Obs.lean`):
`Hist.ModAccepts / GainAccepts / FociAccepts / GstmAccepts s t …` = the hypotheses of the C01 round trips (the device
`s` is well-formed in the sense `Rt.WF`, the transmit buffer `t` is fresh, the datagram is legal, the firmware's
guards accept it); `Rt.Sends dg s t t' s'` = the driver's send loop delivers every frame of `dg` and each is
acknowledged; `Hist.modObs s seg` = (`modulation_buffer`, division, loop count, size) of a segment;
`Hist.stmHdr s seg` = (gain mode?, number of patterns, division, loop count); `Hist.PhaseSame s1 s2` = same
transducer count and same stored phase correction (a different resource, which `drives_at` adds to what it returns);
`Hist.StmObsSame / ModObsSame / MiscObsSame s s'` = EVERY public accessor of the STM side (both segments, request and
transition registers, swap chain, current drives) / of the modulation side / of silencer, pulse-width table, phase
correction, GPIO-debug outputs, FPGA-state word, thermo, reads flag, port A, `synchronized`, flag word, version
registers reads the same in `s'` as in `s`; `Hist.Settled s` = `CTL_FLAG` equals the CPU's flag word (true after
every accepted frame and after `Clear`).  What legitimately changes on the addressed side is said in each theorem:
the request / transition registers and the swap chain change iff the datagram carries a transition; `ack`,
`lastMsgId`, `rxData` change with every frame and are not observations of a resource. -/

/-- the send loop is a function of (datagram, device, transmit buffer) -/
theorem send_loop_deterministic (dg : Wire.Dg) (s : State) (t t1 t2 : Wire.Tx) (s1 s2 : State)
    (h1 : Rt.Sends dg s t t1 s1) (h2 : Rt.Sends dg s t t2 s2) : t1 = t2 ∧ s1 = s2 :=
  Hist.Sends_unique dg s t t1 t2 s1 s2 h1 h2

/-- **Modulation, history independence** — all legal sizes 2…65536, any two well-formed prior devices (any cursor,
any stale page / segment register, any old content, any swap-chain state): both accept, and after EVERY complete
send the addressed segment reads back the same on both, namely exactly the datagram. -/
theorem mod_history_independent (s1 s2 : State) (t1 t2 : Wire.Tx) (seg : Nat) (tr : Wire.Tr) (rep div : Nat)
    (samples : Array Nat) (A1 : Hist.ModAccepts s1 t1 seg tr rep div samples) (A2 : Hist.ModAccepts s2 t2 seg tr rep div samples) :
    (∃ t1' s1', Rt.Sends (.modulation seg tr rep div samples) s1 t1 t1' s1') ∧
    (∃ t2' s2', Rt.Sends (.modulation seg tr rep div samples) s2 t2 t2' s2') ∧
    ∀ t1' s1' t2' s2', Rt.Sends (.modulation seg tr rep div samples) s1 t1 t1' s1' →
      Rt.Sends (.modulation seg tr rep div samples) s2 t2 t2' s2' →
      Hist.modObs s1' seg = Hist.modObs s2' seg ∧ Hist.modObs s1' seg = (.ok samples, div, rep, samples.size) := by
  obtain ⟨e1, f1⟩ := Hist.mod_sends s1 t1 A1.wf A1.tx A1.fresh seg tr rep div samples A1.ok A1.g1 A1.g2
  obtain ⟨e2, f2⟩ := Hist.mod_sends s2 t2 A2.wf A2.tx A2.fresh seg tr rep div samples A2.ok A2.g1 A2.g2
  refine ⟨e1, e2, ?_⟩
  intro t1' s1' t2' s2' h1 h2
  have a := Hist.modObs_of_held (f1 _ _ h1).2.2.2.1
  have b := Hist.modObs_of_held (f2 _ _ h2).2.2.2.1
  exact ⟨by rw [a, b], a⟩

/-- the corollary asked for: what device `s` holds after the send = what a freshly initialised device
(`CPUEmulator::new`, any clock) holds after the same send -/
theorem mod_same_as_power_on (s : State) (t : Wire.Tx) (seg : Nat) (tr : Wire.Tr) (rep div : Nat) (samples : Array Nat)
    (A : Hist.ModAccepts s t seg tr rep div samples) (numTr now : Nat) (hn : numTr ≤ 249) :
    ∃ p, Fw.new numTr now = .ok p ∧ Rt.WF p ∧ ∀ t2, Hist.ModAccepts p t2 seg tr rep div samples →
      ∀ t' s' t2' p', Rt.Sends (.modulation seg tr rep div samples) s t t' s' →
        Rt.Sends (.modulation seg tr rep div samples) p t2 t2' p' → Hist.modObs s' seg = Hist.modObs p' seg := by
  obtain ⟨p, hp, hw⟩ := Rt.new_WF numTr now hn
  refine ⟨p, hp, hw, ?_⟩
  intro t2 A2 t' s' t2' p' h1 h2
  exact ((mod_history_independent s p t t2 seg tr rep div samples A A2).2.2 _ _ _ _ h1 h2).1

/-- **Gain, history independence**: on two devices with the same phase correction, `drives_at(seg, 0)` and the
segment header are the same after the send, and equal the datagram's drives (phase + stored correction), one
pattern, gain mode, division and loop count 0xFFFF. -/
theorem gain_history_independent (s1 s2 : State) (t1 t2 : Wire.Tx) (seg : Nat) (tr : Wire.Tr) (drives : Array Nat)
    (A1 : Hist.GainAccepts s1 t1 seg tr drives) (A2 : Hist.GainAccepts s2 t2 seg tr drives) (hp : Hist.PhaseSame s1 s2) :
    (∃ t1' s1', Rt.Sends (.gain seg tr drives) s1 t1 t1' s1') ∧ (∃ t2' s2', Rt.Sends (.gain seg tr drives) s2 t2 t2' s2') ∧
    ∀ t1' s1' t2' s2', Rt.Sends (.gain seg tr drives) s1 t1 t1' s1' → Rt.Sends (.gain seg tr drives) s2 t2 t2' s2' →
      Obs.drivesAt s1' seg 0 = Obs.drivesAt s2' seg 0 ∧ Hist.stmHdr s1' seg = Hist.stmHdr s2' seg ∧
      Hist.stmHdr s1' seg = (true, 1, 0xFFFF, 0xFFFF) ∧
      Obs.drivesAt s1' seg 0 = .ok ((Array.range s1.numTr).map fun i =>
        Rt.driveWithCorr (rd drives i) (Obs.phaseCorrAt s1 i)) := by
  obtain ⟨e1, f1⟩ := Hist.gain_sends s1 t1 A1.wf A1.tx A1.fresh seg A1.seg tr A1.tr drives A1.drives
  obtain ⟨e2, f2⟩ := Hist.gain_sends s2 t2 A2.wf A2.tx A2.fresh seg A2.seg tr A2.tr drives A2.drives
  refine ⟨e1, e2, ?_⟩
  intro t1' s1' t2' s2' h1 h2
  have a := (f1 _ _ h1).2.2.2.1
  have b := (f2 _ _ h2).2.2.2.1
  obtain ⟨c1, c2⟩ := Hist.gain_pair a b hp
  exact ⟨c1, c2, (Hist.gainObs_of_held a).2, (Hist.gainObs_of_held a).1⟩

/-- **FociSTM, history independence**, 1…8 foci, 2 ≤ P·N ≤ 65536: on two devices with the same phase correction,
`drives_at(seg, idx)` is the same for every pattern `idx < P` (it is a function of the stored 64-bit records, the
sound speed, the foci count and the phase correction — `Hist.fociDrivesAt_congr`), the stored records are the
datagram's, and header, foci count and sound speed agree. -/
theorem fociStm_history_independent (s1 s2 : State) (t1 t2 : Wire.Tx) (n seg : Nat) (tr : Wire.Tr) (rep div ss : Nat)
    (records : Array Nat) (P : Nat) (A1 : Hist.FociAccepts s1 t1 n seg tr rep div ss records P)
    (A2 : Hist.FociAccepts s2 t2 n seg tr rep div ss records P) (hp : Hist.PhaseSame s1 s2) :
    (∃ t1' s1', Rt.Sends (.fociStm n seg tr rep div ss records) s1 t1 t1' s1') ∧
    (∃ t2' s2', Rt.Sends (.fociStm n seg tr rep div ss records) s2 t2 t2' s2') ∧
    ∀ t1' s1' t2' s2', Rt.Sends (.fociStm n seg tr rep div ss records) s1 t1 t1' s1' →
      Rt.Sends (.fociStm n seg tr rep div ss records) s2 t2 t2' s2' →
      (∀ idx, idx < P → Obs.drivesAt s1' seg idx = Obs.drivesAt s2' seg idx) ∧
      (∀ k, k < P * n → Rt.stmRecord (Obs.stmMem s1' seg) k = rd records k ∧ Rt.stmRecord (Obs.stmMem s2' seg) k = rd records k) ∧
      Hist.stmHdr s1' seg = Hist.stmHdr s2' seg ∧ Hist.stmHdr s1' seg = (false, P, div, rep) ∧
      Obs.numFoci s1' seg = n ∧ Obs.numFoci s2' seg = n ∧ Obs.soundSpeed s1' seg = ss ∧ Obs.soundSpeed s2' seg = ss := by
  obtain ⟨e1, f1⟩ := Hist.foci_sends s1 t1 A1.wf A1.tx A1.fresh n seg tr rep div ss records P A1.ok A1.g1 A1.g2
  obtain ⟨e2, f2⟩ := Hist.foci_sends s2 t2 A2.wf A2.tx A2.fresh n seg tr rep div ss records P A2.ok A2.g1 A2.g2
  refine ⟨e1, e2, ?_⟩
  intro t1' s1' t2' s2' h1 h2
  obtain ⟨w1, _, _, a, x1, _⟩ := f1 _ _ h1
  obtain ⟨w2, _, _, b, x2, _⟩ := f2 _ _ h2
  obtain ⟨c1, _, c3, c4, _, _⟩ := Hist.foci_pair a b w1 w2 x1 x2 hp
  exact ⟨c1, fun k hk => ⟨a.recs k hk, b.recs k hk⟩, c3, c4, a.hnf, b.hnf, a.hss, b.hss⟩

/-- **GainSTM, history independence**, three modes, 2…1024 patterns: on two devices with the same phase correction,
`drives_at(seg, idx)` is the same for every pattern, and the header is (gain mode, size, division, loop count). -/
theorem gainStm_history_independent (s1 s2 : State) (t1 t2 : Wire.Tx) (mode seg : Nat) (tr : Wire.Tr) (rep div : Nat)
    (patterns : Array (Array Nat)) (A1 : Hist.GstmAccepts s1 t1 mode seg tr rep div patterns)
    (A2 : Hist.GstmAccepts s2 t2 mode seg tr rep div patterns) (hp : Hist.PhaseSame s1 s2) :
    (∃ t1' s1', Rt.Sends (.gainStm mode seg tr rep div patterns) s1 t1 t1' s1') ∧
    (∃ t2' s2', Rt.Sends (.gainStm mode seg tr rep div patterns) s2 t2 t2' s2') ∧
    ∀ t1' s1' t2' s2', Rt.Sends (.gainStm mode seg tr rep div patterns) s1 t1 t1' s1' →
      Rt.Sends (.gainStm mode seg tr rep div patterns) s2 t2 t2' s2' →
      (∀ idx, idx < patterns.size → Obs.drivesAt s1' seg idx = Obs.drivesAt s2' seg idx) ∧
      (∀ idx, idx < patterns.size → ∀ i, i < s1.numTr →
        rd (Obs.stmMem s1' seg) (256 * idx + i) = Rt.expDrive mode (rd (Rt.patAt patterns idx) i)) ∧
      Hist.stmHdr s1' seg = Hist.stmHdr s2' seg ∧ Hist.stmHdr s1' seg = (true, patterns.size, div, rep) := by
  obtain ⟨e1, f1⟩ := Hist.gstm_sends s1 t1 A1.wf A1.tx A1.fresh mode seg tr rep div patterns A1.ok A1.g1 A1.g2
  obtain ⟨e2, f2⟩ := Hist.gstm_sends s2 t2 A2.wf A2.tx A2.fresh mode seg tr rep div patterns A2.ok A2.g1 A2.g2
  refine ⟨e1, e2, ?_⟩
  intro t1' s1' t2' s2' h1 h2
  obtain ⟨w1, _, _, a, x1, _⟩ := f1 _ _ h1
  obtain ⟨w2, _, _, b, x2, _⟩ := f2 _ _ h2
  obtain ⟨c1, c2, c3⟩ := Hist.gstm_pair a b w1 w2 x1 x2 hp
  exact ⟨c1, a.rows, c2, c3⟩

/-- **Modulation, frame condition.**  After every complete send to segment `seg`: the OTHER modulation segment reads
back as before; every accessor of the STM / gain side (both segments, all patterns, request, transition, swap chain)
and of silencer, pulse-width table, phase correction, GPIO/debug outputs, state word, flags reads as before; a
settled device stays settled and then the fan flag and the emulated GPIO inputs read as before.  The modulation
request / transition registers and swap chain are untouched iff the datagram carries no transition. -/
theorem mod_frame (s : State) (t : Wire.Tx) (seg : Nat) (tr : Wire.Tr) (rep div : Nat) (samples : Array Nat)
    (A : Hist.ModAccepts s t seg tr rep div samples) :
    (∃ t' s', Rt.Sends (.modulation seg tr rep div samples) s t t' s') ∧
    ∀ t' s', Rt.Sends (.modulation seg tr rep div samples) s t t' s' →
      Hist.modObs s' (1 - seg) = Hist.modObs s (1 - seg) ∧ Hist.StmObsSame s s' ∧ Hist.MiscObsSame s s' ∧
      (Hist.Settled s → Hist.Settled s' ∧ Obs.isForceFan s' = Obs.isForceFan s ∧ ∀ g, Fw.gpioIn s' g = Fw.gpioIn s g) ∧
      (tr = none → s'.modSwap = s.modSwap ∧ Obs.reqModSeg s' = Obs.reqModSeg s ∧
        Obs.modTransition s' = Obs.modTransition s ∧ Obs.currentModSeg s' = Obs.currentModSeg s ∧
        Obs.currentModIdx s' = Obs.currentModIdx s) ∧
      (∀ m v, tr = some (m, v) → Obs.reqModSeg s' = .ok seg ∧ Obs.modTransition s' = .ok (Rt.tmodeOf m v) ∧
        Rt.SwapSet s.modSwap s'.modSwap s.dcSysTime rep div samples.size seg (Rt.tmodeOf m v)) := by
  obtain ⟨e, f⟩ := Hist.mod_sends s t A.wf A.tx A.fresh seg tr rep div samples A.ok A.g1 A.g2
  refine ⟨e, ?_⟩
  intro t' s' h
  obtain ⟨_, _, _, a, x, st⟩ := f _ _ h
  have misc := Hist.miscObsSame_of_modSide x
  refine ⟨Hist.otherMod_same a.otherMem a.otherRegs, Hist.stmObsSame_of_modSide x, misc,
    fun hs => ⟨st hs, misc.fan hs (st hs)⟩, ?_, ?_⟩
  · intro htr; subst htr
    have r := a.req
    exact ⟨r.1, r.2.1, r.2.2, by unfold Obs.currentModSeg; rw [r.1], by unfold Obs.currentModIdx; rw [r.1]⟩
  · intro m v htr; subst htr; exact a.req

/-- the same for EVERY content — no legality hypothesis on sizes, samples, division, transition: whenever the send
loop delivers a Modulation datagram to a well-formed device and every frame is acknowledged, the STM side and the
remaining resources are untouched -/
theorem mod_frame_any_content (s : State) (t t' : Wire.Tx) (s' : State) (seg : Nat) (tr : Wire.Tr) (rep div : Nat)
    (samples : Array Nat) (hW : Rt.WF s) (ht : Rt.TxOK t) (h : Rt.Sends (.modulation seg tr rep div samples) s t t' s') :
    Hist.StmObsSame s s' ∧ Hist.MiscObsSame s s' ∧ (Hist.Settled s → Hist.Settled s') := by
  obtain ⟨x, st⟩ := Hist.sends_mod_side s t t' s' seg tr rep div samples (Hist.Pre_of_WF hW) ht h
  exact ⟨Hist.stmObsSame_of_modSide x, Hist.miscObsSame_of_modSide x, st⟩

/-- the same for the three STM-side datagrams, EVERY content: the modulation side (both segments, buffer, division,
loop count, size, request, transition, swap chain, current sample) and the remaining resources are untouched -/
theorem stm_frame_any_content (s : State) (t t' : Wire.Tx) (s' : State) (dg : Wire.Dg) (hW : Rt.WF s) (ht : Rt.TxOK t)
    (hdg : (∃ seg tr drives, dg = .gain seg tr drives) ∨ (∃ n seg tr rep div ss records, dg = .fociStm n seg tr rep div ss records) ∨
      (∃ mode seg tr rep div patterns, dg = .gainStm mode seg tr rep div patterns))
    (h : Rt.Sends dg s t t' s') :
    Hist.ModObsSame s s' ∧ Hist.MiscObsSame s s' ∧ (Hist.Settled s → Hist.Settled s') := by
  have : Hist.StmSide s s' ∧ (Hist.Settled s → Hist.Settled s') := by
    rcases hdg with ⟨seg, tr, drives, rfl⟩ | ⟨n, seg, tr, rep, div, ss, records, rfl⟩ | ⟨mode, seg, tr, rep, div, patterns, rfl⟩
    · exact Hist.sends_gain_side s t t' s' seg tr drives (Hist.Pre_of_WF hW) ht h
    · exact Hist.sends_foci_side s t t' s' n seg tr rep div ss records (Hist.Pre_of_WF hW) ht h
    · exact Hist.sends_gstm_side s t t' s' mode seg tr rep div patterns (Hist.Pre_of_WF hW) ht h
  exact ⟨Hist.modObsSame_of_stmSide this.1, Hist.miscObsSame_of_stmSide this.1, this.2⟩

/-- what `Hist.SegObsSame s s' g` says, accessor by accessor: EVERY `Obs`-level observation of STM segment `g` — mode,
division, number of patterns, loop count, sound speed, foci count, the raw memory, and `drives_at` for every index —
reads the same in `s'` as in `s` -/
theorem segObsSame_spelled_out {s s' : State} {g : Nat} (h : Hist.SegObsSame s s' g) :
    Obs.isStmGainMode s' g = Obs.isStmGainMode s g ∧ Obs.stmDiv s' g = Obs.stmDiv s g ∧
    Obs.stmCycle s' g = Obs.stmCycle s g ∧ Obs.stmRep s' g = Obs.stmRep s g ∧
    Obs.soundSpeed s' g = Obs.soundSpeed s g ∧ Obs.numFoci s' g = Obs.numFoci s g ∧
    Obs.stmMem s' g = Obs.stmMem s g ∧ ∀ idx, Obs.drivesAt s' g idx = Obs.drivesAt s g idx :=
  ⟨h.gainMode, h.div, h.cycle, h.rep, h.soundSpeed, h.numFoci, h.mem, h.drives⟩

/-- **Gain, frame condition.**  After every complete send to segment `seg`: the whole modulation side and the
remaining resources read as before; EVERY observation of the OTHER STM segment (`Hist.SegObsSame`, spelled out in
`segObsSame_spelled_out`: mode, division, size, loop count, sound speed, foci count, memory, `drives_at` of every
index) is as before — whatever that segment holds: a gain, a GainSTM, or a FociSTM with any number of foci (the C01
footprint `Rt.gain_send_foot` shows that a Gain send never writes the sound-speed / foci-count registers 91…94).
The STM request / transition registers and swap chain are untouched iff the datagram carries no transition. -/
theorem gain_frame (s : State) (t : Wire.Tx) (seg : Nat) (tr : Wire.Tr) (drives : Array Nat)
    (A : Hist.GainAccepts s t seg tr drives) :
    (∃ t' s', Rt.Sends (.gain seg tr drives) s t t' s') ∧
    ∀ t' s', Rt.Sends (.gain seg tr drives) s t t' s' →
      Hist.ModObsSame s s' ∧ Hist.MiscObsSame s s' ∧
      (Hist.Settled s → Hist.Settled s' ∧ Obs.isForceFan s' = Obs.isForceFan s ∧ ∀ g, Fw.gpioIn s' g = Fw.gpioIn s g) ∧
      Hist.SegObsSame s s' (1 - seg) ∧
      (tr = none → s'.stmSwap = s.stmSwap ∧ Obs.reqStmSeg s' = Obs.reqStmSeg s ∧ Obs.stmTransition s' = Obs.stmTransition s) ∧
      (tr.isSome = true → Obs.reqStmSeg s' = .ok seg ∧ Obs.stmTransition s' = .ok .syncIdx ∧
        Rt.SwapSet s.stmSwap s'.stmSwap s.dcSysTime 0xFFFF 0xFFFF 1 seg .syncIdx) := by
  obtain ⟨e, f⟩ := Hist.gain_sends s t A.wf A.tx A.fresh seg A.seg tr A.tr drives A.drives
  refine ⟨e, ?_⟩
  intro t' s' h
  obtain ⟨_, _, _, a, x, st, r1, r2⟩ := f _ _ h
  have misc := Hist.miscObsSame_of_stmSide x
  have hf := Rt.gain_send_foot seg tr drives s t t' s' A.wf.ctl A.wf.flags A.tx h
  obtain ⟨hss, hnf⟩ := Hist.focusRegs_TG hf (1 - seg) (by omega)
  exact ⟨Hist.modObsSame_of_stmSide x, misc, fun hs => ⟨st hs, misc.fan hs (st hs)⟩,
    Hist.segObsSame_of x.phaseCorr x.numTr a.otherMem
      ⟨a.otherRegs.2.1, a.otherRegs.2.2.1, a.otherRegs.1, a.otherRegs.2.2.2⟩ hss hnf, r1, r2⟩

/-- **FociSTM, frame condition**: as `gain_frame`; a FociSTM send writes the sound-speed / foci-count registers of
its OWN segment only (`Rt.foci_send_foot`), so every observation of the other segment — also when that one is a
FociSTM segment with a different foci count and sound speed — is as before. -/
theorem fociStm_frame (s : State) (t : Wire.Tx) (n seg : Nat) (tr : Wire.Tr) (rep div ss : Nat) (records : Array Nat)
    (P : Nat) (A : Hist.FociAccepts s t n seg tr rep div ss records P) :
    (∃ t' s', Rt.Sends (.fociStm n seg tr rep div ss records) s t t' s') ∧
    ∀ t' s', Rt.Sends (.fociStm n seg tr rep div ss records) s t t' s' →
      Hist.ModObsSame s s' ∧ Hist.MiscObsSame s s' ∧
      (Hist.Settled s → Hist.Settled s' ∧ Obs.isForceFan s' = Obs.isForceFan s ∧ ∀ g, Fw.gpioIn s' g = Fw.gpioIn s g) ∧
      Hist.SegObsSame s s' (1 - seg) ∧
      (tr = none → s'.stmSwap = s.stmSwap ∧ Obs.reqStmSeg s' = Obs.reqStmSeg s ∧ Obs.stmTransition s' = Obs.stmTransition s) ∧
      (∀ m v, tr = some (m, v) → Obs.reqStmSeg s' = .ok seg ∧ Obs.stmTransition s' = .ok (Rt.tmodeOf m v) ∧
        Rt.SwapSet s.stmSwap s'.stmSwap s.dcSysTime rep div P seg (Rt.tmodeOf m v)) := by
  obtain ⟨e, f⟩ := Hist.foci_sends s t A.wf A.tx A.fresh n seg tr rep div ss records P A.ok A.g1 A.g2
  refine ⟨e, ?_⟩
  intro t' s' h
  obtain ⟨_, _, _, a, x, st⟩ := f _ _ h
  have misc := Hist.miscObsSame_of_stmSide x
  have hf := Rt.foci_send_foot n seg A.ok.hseg tr rep div ss records s t t' s' A.wf.ctl A.wf.flags A.tx h
  obtain ⟨hss, hnf⟩ := Hist.focusRegs_TF A.ok.hseg hf
  refine ⟨Hist.modObsSame_of_stmSide x, misc, fun hs => ⟨st hs, misc.fan hs (st hs)⟩,
    Hist.segObsSame_of x.phaseCorr x.numTr a.otherMem a.otherRegs hss hnf, ?_, ?_⟩
  · intro htr; subst htr; exact a.req
  · intro m v htr; subst htr; exact a.req

/-- **GainSTM, frame condition** (all three modes): as `gain_frame` (`Rt.gstm_send_foot`: registers 91…94 are never
written) -/
theorem gainStm_frame (s : State) (t : Wire.Tx) (mode seg : Nat) (tr : Wire.Tr) (rep div : Nat)
    (patterns : Array (Array Nat)) (A : Hist.GstmAccepts s t mode seg tr rep div patterns) :
    (∃ t' s', Rt.Sends (.gainStm mode seg tr rep div patterns) s t t' s') ∧
    ∀ t' s', Rt.Sends (.gainStm mode seg tr rep div patterns) s t t' s' →
      Hist.ModObsSame s s' ∧ Hist.MiscObsSame s s' ∧
      (Hist.Settled s → Hist.Settled s' ∧ Obs.isForceFan s' = Obs.isForceFan s ∧ ∀ g, Fw.gpioIn s' g = Fw.gpioIn s g) ∧
      Hist.SegObsSame s s' (1 - seg) ∧
      (tr = none → s'.stmSwap = s.stmSwap ∧ Obs.reqStmSeg s' = Obs.reqStmSeg s ∧ Obs.stmTransition s' = Obs.stmTransition s) ∧
      (∀ m v, tr = some (m, v) → Obs.reqStmSeg s' = .ok seg ∧ Obs.stmTransition s' = .ok (Rt.tmodeOf m v) ∧
        Rt.SwapSet s.stmSwap s'.stmSwap s.dcSysTime rep div patterns.size seg (Rt.tmodeOf m v)) := by
  obtain ⟨e, f⟩ := Hist.gstm_sends s t A.wf A.tx A.fresh mode seg tr rep div patterns A.ok A.g1 A.g2
  refine ⟨e, ?_⟩
  intro t' s' h
  obtain ⟨_, _, _, a, x, st⟩ := f _ _ h
  have misc := Hist.miscObsSame_of_stmSide x
  have hf := Rt.gstm_send_foot mode seg tr rep div patterns s t t' s' A.wf.ctl A.wf.flags A.tx h
  obtain ⟨hss, hnf⟩ := Hist.focusRegs_TG hf (1 - seg) (by omega)
  refine ⟨Hist.modObsSame_of_stmSide x, misc, fun hs => ⟨st hs, misc.fan hs (st hs)⟩,
    Hist.segObsSame_of x.phaseCorr x.numTr a.otherMem a.otherRegs hss hnf, ?_, ?_⟩
  · intro htr; subst htr; exact a.req
  · intro m v htr; subst htr; exact a.req

/-- why `Settled` is a hypothesis of the fan / GPIO clauses of the frame theorems: on a device whose CPU flag word says
"fan on" while `CTL_FLAG` has not been rewritten yet (the state `ecat_recv` leaves when a frame's handler answers
with an error: the early return skips the final `CTL_FLAG` write), the closing step `fin` of ANY accepted frame — of a
Modulation or Gain send as well — makes `is_force_fan` flip from false to true.  The fan request is a different
resource; the data datagram only flushes it. -/
theorem frame_fan_unsettled_counterexample :
    Obs.isForceFan ({ flagsInternal := 0x2000 } : State) = false ∧
    Obs.isForceFan (Rt.fin ({ flagsInternal := 0x2000 } : State) 1) = true ∧
    reg ({ flagsInternal := 0x2000 } : State) Cpu.ADDR_CTL_FLAG ≠ ({ flagsInternal := 0x2000 } : State).flagsInternal % 65536 := by
  decide +kernel

/-! ## third layer: Clear from any well-formed state -/

/-- **`clear_from_any`**: from EVERY well-formed state — in either sense, `P02.WF` (sizes, swap-chain dividers) or
`Rt.WF` (the invariant the round trips maintain), so in particular after any sequence of accepted sends — `Clear`
succeeds and produces a state that satisfies the same absolute description as the power-on device
`Fw.new s.numTr s.dcSysTime`: `Cleared` (every register of `clearedRegs` incl. the write page / segment registers,
the CPU-side cursors `modCycle = 2`, `stmCycle = (1,1)`, `stmMode`, the division / loop copies, current segments,
silencer guard copies, flag word 0 = `CTL_FLAG`, the first sample word of both modulation segments, the first 249
words of both STM segments, phase correction, pulse-width table, both swap chains' `cur / state / stop / extMode / mode /
sysTime / freqDiv.1 / cycle.1 / ticOff.1`) and hence `PowerOnObs` (every `Obs` accessor).  NOT reset (see `clear_keeps`
and `clearSwap`): `synchronized`, `numFoci`, `gainStmMode`, `stmWrite`, the transition latches, `readsStore`,
`isRxDataUsed`, `rxData`, `lastMsgId`, `ack`, registers FPGA_STATE / VERSION / SOUND_SPEED / NUM_FOCI, and of the swap
chains `rep`, `req`, `startLap`, `curIdx`, `extLastLap` and the segment-1 entries. -/
theorem clear_from_any (s : State) (h : WF s ∨ Rt.WF s) :
    ∃ s' p, Fw.clear s #[] = .ok (s', Cpu.NO_ERR) ∧ Fw.new s.numTr s.dcSysTime = .ok p ∧ WF s' ∧
      Cleared s' ∧ Cleared p ∧ PowerOnObs s' ∧ PowerOnObs p ∧ Hist.Settled s' ∧ Hist.Settled p ∧
      s'.numTr = p.numTr ∧ s'.dcSysTime = p.dcSysTime ∧
      s'.modCycle = p.modCycle ∧ s'.stmCycle = p.stmCycle ∧ s'.stmMode = p.stmMode ∧ s'.modDiv = p.modDiv ∧
      s'.modRep = p.modRep ∧ s'.stmDiv = p.stmDiv ∧ s'.stmRep = p.stmRep ∧ s'.modSegment = p.modSegment ∧
      s'.stmSegment = p.stmSegment ∧ s'.flagsInternal = p.flagsInternal ∧ s'.strict = p.strict ∧
      s'.minDivI = p.minDivI ∧ s'.minDivP = p.minDivP ∧
      (∀ q ∈ clearedRegs, reg s' q.1 = reg p q.1) ∧
      (∀ seg, seg ≤ 1 → Hist.modObs s' seg = Hist.modObs p seg ∧ Hist.stmHdr s' seg = Hist.stmHdr p seg ∧
        Obs.drivesAt s' seg 0 = Obs.drivesAt p seg 0) := by
  have hw : WF s := by
    rcases h with h | h
    · exact h
    · exact Hist.p02wf_of_wf h
  have hp := wf_preClear s.numTr s.dcSysTime hw.numTr
  have ca := cleared_clearResult s hw
  have cb := cleared_clearResult _ hp
  have n1 : (clearResult s).numTr = s.numTr := (clearResult_kept s).2.2.2.2.2.2.2.2.2.2.2.1
  have n2 : (clearResult (preClear s.numTr s.dcSysTime)).numTr = s.numTr :=
    (clearResult_kept (preClear s.numTr s.dcSysTime)).2.2.2.2.2.2.2.2.2.2.2.1
  have t1 : (clearResult s).dcSysTime = s.dcSysTime := (clearResult_kept s).2.2.2.2.2.2.2.2.2.2.2.2
  have t2 : (clearResult (preClear s.numTr s.dcSysTime)).dcSysTime = s.dcSysTime :=
    (clearResult_kept (preClear s.numTr s.dcSysTime)).2.2.2.2.2.2.2.2.2.2.2.2
  have a := powerOnObs_of_cleared ca (by rw [n1]; exact hw.numTr)
  have b := powerOnObs_of_cleared cb (by rw [n2]; exact hw.numTr)
  have sa : Hist.Settled (clearResult s) := by
    show rd (clearResult s).ctl 0 = _; rw [ca.flag0, ca.flagsInternal]
  have sb : Hist.Settled (clearResult (preClear s.numTr s.dcSysTime)) := by
    show rd (clearResult (preClear s.numTr s.dcSysTime)).ctl 0 = _; rw [cb.flag0, cb.flagsInternal]
  refine ⟨clearResult s, clearResult (preClear s.numTr s.dcSysTime), clear_eq s hw, new_eq _ _ hw.numTr,
    wf_clearResult s hw, ca, cb, a, b, sa, sb, by rw [n1, n2], by rw [t1, t2], by rw [ca.modCycle, cb.modCycle],
    by rw [ca.stmCycle, cb.stmCycle], by rw [ca.stmMode, cb.stmMode], by rw [ca.modDiv, cb.modDiv],
    by rw [ca.modRep, cb.modRep], by rw [ca.stmDiv, cb.stmDiv], by rw [ca.stmRep, cb.stmRep],
    by rw [ca.modSegment, cb.modSegment], by rw [ca.stmSegment, cb.stmSegment],
    by rw [ca.flagsInternal, cb.flagsInternal], by rw [ca.strict, cb.strict], by rw [ca.minDivI, cb.minDivI],
    by rw [ca.minDivP, cb.minDivP], ?_, ?_⟩
  · intro q hq
    show rd _ q.1 = rd _ q.1
    rw [ca.regs q hq, cb.regs q hq]
  · intro seg hseg
    refine ⟨?_, ?_, by rw [a.drives seg hseg, b.drives seg hseg, n1, n2]⟩
    · unfold Hist.modObs
      rw [a.modBuffer seg hseg, b.modBuffer seg hseg, a.modDiv seg hseg, b.modDiv seg hseg, a.modRep seg hseg,
        b.modRep seg hseg, a.modCycle seg hseg, b.modCycle seg hseg]
    · unfold Hist.stmHdr
      rw [a.stmGain seg hseg, b.stmGain seg hseg, a.stmCycle seg hseg, b.stmCycle seg hseg, a.stmDiv seg hseg,
        b.stmDiv seg hseg, a.stmRep seg hseg, b.stmRep seg hseg]

/-! ## fourth layer: a whole history of accepted sends

Vocabulary (`Lemmas/HistTrace1…3.lean`): `Hist.Legal s dg` = the datagram is well-formed and the guards of device `s`
accept it — kind by kind exactly the hypotheses of the C01 round trip of that kind; `Hist.Run s t h s' t'` = the history
`h : List Wire.Dg` is sent from device `s` / transmit buffer `t`, each datagram legal on the device it reaches and each
of its frames acknowledged (`Rt.Sends`), ending in `(s', t')`; `Hist.lastPc none h` = the bytes of the last
PhaseCorrection datagram of `h` after its last Clear (`none` if there is none); `Hist.refHist h` = `[]` or that one
datagram; `Hist.IsData d` = `d` is a Modulation, Gain, FociSTM or GainSTM datagram; `Hist.DataObsEq a b d` = the resource
`d` addresses reads the same on `a` and `b` (Modulation: buffer, division, loop count, size; Gain: `drives_at(seg, 0)`
and header; FociSTM: `drives_at(seg, idx)` for every pattern, header, foci count, sound speed; GainSTM:
`drives_at(seg, idx)` for every pattern and header).
Kinds a history may contain: Clear, Synchronize, ForceFan, ReadsFPGAState, CpuGPIOOut, EmulateGPIOIn, GPIOOutputs,
PhaseCorrection, PulseWidthEncoder, Silencer (both forms), Gain, Modulation, FociSTM, GainSTM, the four SwapSegment
datagrams, the null datagram — every datagram kind of the driver model except the firmware-version query
(`firmInfo`, which addresses no resource; `Legal` is `False` for it). -/

/-- the definitions behind the trace theorem, spelled out -/
theorem trace_vocabulary (s : State) (t : Wire.Tx) (acc : Option (Array Nat)) (b : Array Nat) (r : List Wire.Dg) :
    Hist.Run s t [] s t ∧
    (∀ dg s1 t1 s' t', Hist.Legal s dg → Rt.Sends dg s t t1 s1 → Hist.Run s1 t1 r s' t' → Hist.Run s t (dg :: r) s' t') ∧
    Hist.lastPc acc [] = acc ∧ Hist.lastPc acc (.clear :: r) = Hist.lastPc none r ∧
    Hist.lastPc acc (.phaseCorr b :: r) = Hist.lastPc (some b) r ∧
    Hist.lastPc acc (.forceFan true :: r) = Hist.lastPc acc r ∧
    (Hist.refHist r = [] ∨ ∃ c, Hist.lastPc none r = some c ∧ Hist.refHist r = [.phaseCorr c]) ∧
    Hist.pcArr s.numTr none = Array.replicate s.numTr 0 ∧ Hist.pcArr s.numTr (some b) = b ∧
    (Hist.Legal s (.phaseCorr b) ↔ b.size = s.numTr ∧ ∀ i, rd b i < 256) ∧ Hist.Legal s .clear := by
  refine ⟨Hist.Run.nil s t, fun dg s1 t1 s' t' l sd tl => Hist.Run.cons l sd tl, rfl, rfl, rfl, rfl, ?_, rfl, rfl, Iff.rfl, trivial⟩
  unfold Hist.refHist
  cases e : Hist.lastPc none r with
  | none => exact Or.inl rfl
  | some c => exact Or.inr ⟨c, rfl, rfl⟩

/-- a legal datagram is always accepted by a well-formed device, and the device stays well-formed: so histories of
every length and composition exist -/
theorem legal_datagram_accepted (s : State) (t : Wire.Tx) (hW : Rt.WF s) (hT : Rt.TxOK t) (hF : Rt.Fresh s t)
    (dg : Wire.Dg) (hL : Hist.Legal s dg) :
    (∃ t' s', Rt.Sends dg s t t' s') ∧
    ∀ t' s', Rt.Sends dg s t t' s' → Rt.WF s' ∧ Rt.TxOK t' ∧ Rt.Fresh s' t' ∧ s'.numTr = s.numTr := by
  refine ⟨Hist.legal_sends s t hW hT hF dg hL, ?_⟩
  intro t' s' h
  have hk : Hist.PcOK s.numTr (some (Obs.phaseCorrection s)) := by
    refine ⟨Hist.size_phaseCorrection s, ?_⟩
    intro i
    unfold Obs.phaseCorrection rd
    by_cases hi : i < s.numTr
    · simp only [Array.size_map, Array.size_range, hi, getElem?_pos, Array.getElem_map, Array.getElem_range, Option.getD_some]
      unfold Obs.phaseCorrAt; simp only []; split <;> omega
    · simp [hi]
  obtain ⟨a, b, c, n, _, _⟩ := Hist.step_inv s t hW hT hF dg hL t' s' h (some (Obs.phaseCorrection s)) rfl hk
  exact ⟨a, b, c, n⟩

/-- **`history_independent_trace`** — the sequence-level statement of the property.  Start from the power-on device
`p0 = CPUEmulator::new` (any transducer count ≤ 249, any clock) and any 622-byte transmit buffer, send ANY history `h` of
legal datagrams (any length, any mix of the kinds listed above, dirty in every way a history can be: stale cursors and
page registers, both segments overwritten many times, silencer / flags / swap chains changed, Clear anywhere), reaching
device `s`.  Let `q` be the power-on device to which only the LAST PhaseCorrection datagram of `h` after its last Clear
was sent (`Hist.refHist h`; nothing at all if there is none) — this run always exists.  Then `s` and `q` are well-formed,
store the same phase correction (`Hist.pcArr numTr (Hist.lastPc none h)`: those bytes, or all zero), and for EVERY data
datagram `d` (Modulation, Gain, FociSTM, GainSTM; all legal sizes and contents) that is legal on both: both accept it, and
after every complete send the resource `d` addresses reads the same on the history-laden device and on the reference
device (`Hist.DataObsEq`; what it reads — exactly the datagram, with the stored phase correction added to the phases —
is said by `mod/gain/fociStm/gainStm_history_independent`).  The proof is one induction over `h` folding WF preservation
(C01 round trips + `clear_roundtrip` / `sync_roundtrip`), the frame conditions for the phase-correction memory
(`Hist.step_inv`) and the pairwise history-independence theorems. -/
theorem history_independent_trace (numTr now : Nat) (hn : numTr ≤ 249) (p0 : State) (hp0 : Fw.new numTr now = .ok p0)
    (t0 : Wire.Tx) (ht0 : Rt.TxOK t0) (h : List Wire.Dg) (s : State) (t : Wire.Tx) (hr : Hist.Run p0 t0 h s t) :
    ∃ q tq, Hist.Run p0 t0 (Hist.refHist h) q tq ∧ Rt.WF s ∧ Rt.TxOK t ∧ Rt.Fresh s t ∧ Rt.WF q ∧ Rt.TxOK tq ∧
      Rt.Fresh q tq ∧ Hist.PhaseSame s q ∧ s.numTr = numTr ∧
      Obs.phaseCorrection s = Hist.pcArr numTr (Hist.lastPc none h) ∧
      ∀ d, Hist.IsData d = true → Hist.Legal s d → Hist.Legal q d →
        (∃ t' s', Rt.Sends d s t t' s') ∧ (∃ tq' q', Rt.Sends d q tq tq' q') ∧
        ∀ t' s' tq' q', Rt.Sends d s t t' s' → Rt.Sends d q tq tq' q' → Hist.DataObsEq s' q' d :=
  Hist.trace_probe numTr now hn p0 hp0 t0 ht0 h s t hr

/-- the case the property text names: if the history contains no PhaseCorrection datagram after its last Clear, the
reference device is the freshly initialised device itself -/
theorem history_independent_trace_power_on (numTr now : Nat) (hn : numTr ≤ 249) (p0 : State)
    (hp0 : Fw.new numTr now = .ok p0) (t0 : Wire.Tx) (ht0 : Rt.TxOK t0) (h : List Wire.Dg) (s : State) (t : Wire.Tx)
    (hr : Hist.Run p0 t0 h s t) (hpc : Hist.lastPc none h = none) :
    Obs.phaseCorrection s = Array.replicate numTr 0 ∧
    ∀ d, Hist.IsData d = true → Hist.Legal s d → Hist.Legal p0 d →
      (∃ t' s', Rt.Sends d s t t' s') ∧ (∃ t0' p', Rt.Sends d p0 t0 t0' p') ∧
      ∀ t' s' t0' p', Rt.Sends d s t t' s' → Rt.Sends d p0 t0 t0' p' → Hist.DataObsEq s' p' d := by
  obtain ⟨q, tq, hq, _, _, _, _, _, _, _, _, p, f⟩ := history_independent_trace numTr now hn p0 hp0 t0 ht0 h s t hr
  have e : Hist.refHist h = [] := by unfold Hist.refHist; rw [hpc]
  rw [e] at hq
  cases hq
  rw [hpc] at p
  exact ⟨p, f⟩

/-- the four cases of `Hist.DataObsEq`, accessor by accessor -/
theorem dataObsEq_spelled_out (a b : State) (seg n mode rep div ss : Nat) (tr : Wire.Tr) (samples drives records : Array Nat)
    (patterns : Array (Array Nat)) :
    (Hist.DataObsEq a b (.modulation seg tr rep div samples) ↔
      (Obs.modBuffer a seg, Obs.modDiv a seg, Obs.modRep a seg, Obs.modCycle a seg) =
      (Obs.modBuffer b seg, Obs.modDiv b seg, Obs.modRep b seg, Obs.modCycle b seg)) ∧
    (Hist.DataObsEq a b (.gain seg tr drives) ↔
      Obs.drivesAt a seg 0 = Obs.drivesAt b seg 0 ∧ Hist.stmHdr a seg = Hist.stmHdr b seg) ∧
    (Hist.DataObsEq a b (.fociStm n seg tr rep div ss records) ↔
      (∀ idx, idx < records.size / n → Obs.drivesAt a seg idx = Obs.drivesAt b seg idx) ∧
      Hist.stmHdr a seg = Hist.stmHdr b seg ∧ Obs.numFoci a seg = Obs.numFoci b seg ∧
      Obs.soundSpeed a seg = Obs.soundSpeed b seg) ∧
    (Hist.DataObsEq a b (.gainStm mode seg tr rep div patterns) ↔
      (∀ idx, idx < patterns.size → Obs.drivesAt a seg idx = Obs.drivesAt b seg idx) ∧
      Hist.stmHdr a seg = Hist.stmHdr b seg) ∧
    Hist.stmHdr a seg = (Obs.isStmGainMode a seg, Obs.stmCycle a seg, Obs.stmDiv a seg, Obs.stmRep a seg) :=
  ⟨Iff.rfl, Iff.rfl, Iff.rfl, Iff.rfl, rfl⟩

/-! ## fifth layer: the time-dependent part — `Swapchain::set`, then `Swapchain::update` -/

/-- **what is playing after an immediate request is a function of the time, the division and the cycle only.**
Straight from `Swap.set` / `Swap.update` (`Model/FwBasic.lean`): take two swap chains with arbitrary content — one
left behind by any history, one fresh; only `freq_div ≥ 1`, `cycle ≥ 1` is assumed of them (`Rt.SwapOK`, part of the
round-trip invariant) — request segment `seg` with loop count 0xFFFF (an infinite loop: the request takes effect at
once) and a transition mode other than Ext (Immediate for Modulation / FociSTM / GainSTM and their SwapSegment
datagrams, SyncIdx for Gain), at arbitrary and different times `ta`, `tb`; then update both at ANY time `t` with
arbitrary GPIO inputs.  Neither `set` nor `update` panics, both chains play segment `seg`, and
`cur_idx = ((fpga_sys_time(t) >> 9) / fd) % cyc` on both. -/
theorem playing_after_immediate_request (w1 w2 : Swap) (h1 : Rt.SwapOK w1) (h2 : Rt.SwapOK w2)
    (ta tb fd cyc seg : Nat) (hfd : 1 ≤ fd) (hcyc : 1 ≤ cyc) (mode : TMode) (hm : mode ≠ .ext)
    (g1 g2 : Nat → Bool) (t : Nat) :
    ∃ a1 b1 a2 b2, w1.set ta 0xFFFF fd cyc seg mode = .ok a1 ∧ a1.update g1 t = .ok b1 ∧
      w2.set tb 0xFFFF fd cyc seg mode = .ok a2 ∧ a2.update g2 t = .ok b2 ∧
      b1.cur = seg ∧ b2.cur = seg ∧ b1.curIdx = ((fpgaSysTime t >>> 9) / fd) % cyc ∧ b2.curIdx = b1.curIdx ∧
      b1.stop = false ∧ b2.stop = false := by
  obtain ⟨a1, b1, e1, u1, c1, i1, _, s1, _⟩ := Hist.set_then_update w1 h1 ta fd cyc seg hfd hcyc mode hm g1 t
  obtain ⟨a2, b2, e2, u2, c2, i2, _, s2, _⟩ := Hist.set_then_update w2 h2 tb fd cyc seg hfd hcyc mode hm g2 t
  exact ⟨a1, b1, a2, b2, e1, u1, e2, u2, c1, c2, i1, by rw [i1, i2], s1, s2⟩

/-- `Hist.Playing w`, spelled out, and where it holds: it is what EVERY successful `Swapchain::set` leaves (any chain,
any arguments); both chains of the power-on device satisfy it; and a complete send of ANY datagram from ANY state
(no hypothesis at all: `Hist.sends_pq` walks through all 19 handlers for arbitrary payloads — the only writer of a
swap chain is `FPGAEmulator::set_and_wait_update`, which installs an output of `set`) keeps it for both chains. -/
theorem playing_invariant :
    (∀ w : Swap, Hist.Playing w ↔
      (w.state = .infiniteLoop → w.stop = false ∧ w.extMode = (w.mode == TMode.ext) ∧ sel w.ticOff w.cur = 0)) ∧
    (∀ (w w' : Swap) (t rep fd cyc seg : Nat) (mode : TMode), w.set t rep fd cyc seg mode = .ok w' → Hist.Playing w') ∧
    (∀ numTr now p0, Fw.new numTr now = .ok p0 → Hist.Playing p0.stmSwap ∧ Hist.Playing p0.modSwap) ∧
    (∀ (dg : Wire.Dg) (s : State) (t t' : Wire.Tx) (s' : State), Rt.Sends dg s t t' s' →
      (Hist.Playing s.stmSwap → Hist.Playing s'.stmSwap) ∧ (Hist.Playing s.modSwap → Hist.Playing s'.modSwap)) :=
  ⟨fun _ => Iff.rfl, Hist.set_playing, Hist.new_playing, Hist.sends_pq⟩

/-- **`playing_after_probe`** — the time-dependent observations after a whole history.  Device `s` is reached from
power-on by ANY history of legal sends.  A probe whose transition takes effect at once — FociSTM / GainSTM / Modulation
with an Immediate transition and loop count 0xFFFF, or a Gain with its (Immediate) transition — is sent, then the clock
is updated ONCE, at ANY time `tc` (`update_with_sys_time`; if it panics there is nothing to observe — the other swap
chain may be in one of the states of the known findings F15 / F18).  Then `current_stm_segment` / `current_stm_idx`
(`current_mod_segment` / `current_mod_idx` for Modulation) are: the probe's segment, and
`((fpga_sys_time(tc) >> 9) / division) % cycle` — a function of the time, the datagram's division and its number of
patterns / samples ONLY.  The history does not enter: the history-laden device and the fresh one (`h = []`) read the
same.  (A Gain has one pattern: index 0.) -/
theorem playing_after_probe (numTr now : Nat) (hn : numTr ≤ 249) (p0 : State) (hp0 : Fw.new numTr now = .ok p0)
    (t0 : Wire.Tx) (ht0 : Rt.TxOK t0) (h : List Wire.Dg) (s : State) (t : Wire.Tx) (hr : Hist.Run p0 t0 h s t) (tc : Nat) :
    (∀ n seg v div ss records t' s' s'',
      Hist.Legal s (.fociStm n seg (some (Drv.TRANSITION_MODE_IMMEDIATE, v)) 0xFFFF div ss records) →
      Rt.Sends (.fociStm n seg (some (Drv.TRANSITION_MODE_IMMEDIATE, v)) 0xFFFF div ss records) s t t' s' →
      updateWithSysTime s' tc = .ok s'' →
      Obs.currentStmSeg s'' = seg ∧ Obs.currentStmIdx s'' = ((fpgaSysTime tc >>> 9) / div) % (records.size / n)) ∧
    (∀ mode seg v div patterns t' s' s'',
      Hist.Legal s (.gainStm mode seg (some (Drv.TRANSITION_MODE_IMMEDIATE, v)) 0xFFFF div patterns) →
      Rt.Sends (.gainStm mode seg (some (Drv.TRANSITION_MODE_IMMEDIATE, v)) 0xFFFF div patterns) s t t' s' →
      updateWithSysTime s' tc = .ok s'' →
      Obs.currentStmSeg s'' = seg ∧ Obs.currentStmIdx s'' = ((fpgaSysTime tc >>> 9) / div) % patterns.size) ∧
    (∀ seg v drives t' s' s'', Hist.Legal s (.gain seg (some (Drv.TRANSITION_MODE_IMMEDIATE, v)) drives) →
      Rt.Sends (.gain seg (some (Drv.TRANSITION_MODE_IMMEDIATE, v)) drives) s t t' s' →
      updateWithSysTime s' tc = .ok s'' → Obs.currentStmSeg s'' = seg ∧ Obs.currentStmIdx s'' = 0) ∧
    (∀ seg v div samples t' s' s'',
      Hist.Legal s (.modulation seg (some (Drv.TRANSITION_MODE_IMMEDIATE, v)) 0xFFFF div samples) →
      Rt.Sends (.modulation seg (some (Drv.TRANSITION_MODE_IMMEDIATE, v)) 0xFFFF div samples) s t t' s' →
      updateWithSysTime s' tc = .ok s'' →
      Obs.currentModSeg s'' = seg ∧ Obs.currentModIdx s'' = ((fpgaSysTime tc >>> 9) / div) % samples.size) := by
  obtain ⟨a, b, c, p1, p2⟩ := Hist.run_playing numTr now hn p0 hp0 t0 ht0 hr
  exact Hist.probe_then_clock s t a b c p1 p2 tc

/-- where the history DOES enter: with an Ext transition `Swapchain::set` records `ext_last_lap` computed with the
chain's OLD division and cycle (`lap_and_idx` is called before `freq_div` / `cycle` are updated), and `update` flips
the playing segment when the lap parity differs.  Two chains that differ only in the stale division of segment 0, same
request (Ext, loop count 0xFFFF, division 512, 4 patterns, at time 1 s), same update time (1 ns later): the chain whose
segment 0 had division 10 keeps playing segment 0 (index 2), the one with the stale division 4000 flips to segment 1.  So the closed form of `playing_after_immediate_request` does not extend to Ext. -/
theorem ext_transition_depends_on_history :
    (do let a ← ({ freqDiv := (10, 10) } : Swap).set 1000000000 0xFFFF 512 4 0 .ext
        let b ← a.update (fun _ => false) 1000000001
        pure (b.cur, b.curIdx) : M (Nat × Nat)).toOption = some (0, 2) ∧
    (do let a ← ({ freqDiv := (4000, 10) } : Swap).set 1000000000 0xFFFF 512 4 0 .ext
        let b ← a.update (fun _ => false) 1000000001
        pure (b.cur, b.curIdx) : M (Nat × Nat)).toOption = some (1, 0) := by
  decide +kernel

/-! ## non-vacuity -/

/-- a concrete, non-trivial state satisfying `WF`: mid-history values everywhere the invariant speaks -/
example : WF { numTr := 249, portA := 5, readsFpgaState := true, flagsInternal := 0x2100, modCycle := 40000,
               modSegment := 1, stmSegment := 1, strict := false,
               modSwap := { cur := 1, req := 1, state := .finiteLoop, rep := 3, freqDiv := (5120, 10), cycle := (100, 3), stop := true },
               stmSwap := { cur := 1, extMode := true, state := .infiniteLoop, freqDiv := (40, 40), cycle := (2, 7) } } := by
  exact { ctl := by simp, phaseCorr := by simp, pwe := by simp, modMem0 := by simp, modMem1 := by simp,
          stmMem0 := by simp, stmMem1 := by simp, numTr := by decide, modSwap := by simp [P02.SwapWF],
          stmSwap := by simp [P02.SwapWF], flags := ⟨by decide, by decide⟩ }

/-- the hypotheses of the modulation theorems are satisfiable: the default-constructed device accepts a
two-sample single-frame modulation (BEGIN|END, no transition, segment 0, divider 0xFFFF) -/
example : ∃ (s s' : State) (d : Array Nat), WF s ∧
    hasFlag (u8at d FwLayout.ModulationHead_flag_off) Cpu.MODULATION_FLAG_BEGIN = true ∧
    hasFlag (u8at d FwLayout.ModulationHead_flag_off) Cpu.MODULATION_FLAG_END = true ∧
    1 ≤ u8at d FwLayout.ModulationHead_size_off ∧ writeMod s d = .ok (s', Cpu.NO_ERR) := by
  have hw : WF ({} : State) := by
    exact { ctl := by simp, phaseCorr := by simp, pwe := by simp, modMem0 := by simp, modMem1 := by simp,
            stmMem0 := by simp, stmMem1 := by simp, numTr := by decide, modSwap := by simp [P02.SwapWF],
            stmSwap := by simp [P02.SwapWF], flags := ⟨by decide, by decide⟩ }
  refine ⟨{}, modTailState (modBeginRes {} #[0x10, 0x03, 2, 0xFE, 0xFF, 0xFF, 0xFF, 0xFF, 0, 0, 0, 0, 0, 0, 0, 0, 0xAA, 0xBB]) #[0x10, 0x03, 2, 0xFE, 0xFF, 0xFF, 0xFF, 0xFF, 0, 0, 0, 0, 0, 0, 0, 0, 0xAA, 0xBB],
    #[0x10, 0x03, 2, 0xFE, 0xFF, 0xFF, 0xFF, 0xFF, 0, 0, 0, 0, 0, 0, 0, 0, 0xAA, 0xBB], hw,
    by decide, by decide, by decide, ?_⟩
  rw [writeMod_begin _ _ hw.toSized (by decide) (by decide) (by decide), modTail_eq]
  have e1 : hasFlag (u8at #[0x10, 0x03, 2, 0xFE, 0xFF, 0xFF, 0xFF, 0xFF, 0, 0, 0, 0, 0, 0, 0, 0, 0xAA, 0xBB]
      FwLayout.ModulationHead_flag_off) Cpu.MODULATION_FLAG_END = true := by decide
  have e2 : hasFlag (u8at #[0x10, 0x03, 2, 0xFE, 0xFF, 0xFF, 0xFF, 0xFF, 0, 0, 0, 0, 0, 0, 0, 0, 0xAA, 0xBB]
      FwLayout.ModulationHead_flag_off) Cpu.MODULATION_FLAG_UPDATE = false := by decide
  simp only [e1, e2, if_true, Bool.false_eq_true, if_false]


/-! ### non-vacuity of the third layer: a dirty device (`Hist.dirtyState`: stale cursors and page registers, latched
foci count, GainSTM mode 2, fan + GPIO flags set and settled, last message id 9) and the power-on-like `Rt.exState`
both meet the hypotheses, with the same phase correction -/

example : Rt.WF Hist.dirtyState ∧ Hist.Settled Hist.dirtyState ∧ Hist.PhaseSame Hist.dirtyState Rt.exState ∧
    Hist.dirtyState.modCycle = 40000 ∧ Hist.dirtyState.stmWrite = 77 ∧ Hist.dirtyState.flagsInternal = 0x2100 :=
  ⟨Hist.WF_dirtyState, Hist.Settled_dirty, Hist.PhaseSame_dirty, rfl, rfl, rfl⟩

/-- 1000-sample modulation (3 frames) to segment 1, SyncIdx transition, finite loop: accepted by both devices -/
example : Hist.ModAccepts Hist.dirtyState Rt.exTx 1 (some (0, 0)) 3 5120 (Array.replicate 1000 7) ∧
    Hist.ModAccepts Rt.exState Rt.exTx 1 (some (0, 0)) 3 5120 (Array.replicate 1000 7) := by
  have H : ∀ s : State, s.dcSysTime = 0 → Rt.ModOK s 1 (some (0, 0)) 3 5120 (Array.replicate 1000 7) := by
    intro s hs
    refine ⟨by decide, by simp, by simp, ?_, by decide, by decide, ?_⟩
    · intro i; unfold rd; by_cases h : i < 1000 <;> simp [h]
    · intro m v h
      simp only [Option.some.injEq, Prod.mk.injEq] at h
      obtain ⟨rfl, rfl⟩ := h
      exact ⟨Or.inl rfl, by decide, by rw [hs]; decide⟩
  exact ⟨⟨Hist.WF_dirtyState, Rt.TxOK_exTx, Hist.Fresh_dirty, H _ rfl, by decide, by decide⟩,
    ⟨Rt.WF_exState, Rt.TxOK_exTx, Rt.Fresh_ex, H _ rfl, by decide, by decide⟩⟩

/-- a 249-transducer Gain to segment 1 without transition -/
example : Hist.GainAccepts Hist.dirtyState Rt.exTx 1 none (Array.replicate 249 0x80FF) ∧
    Hist.GainAccepts Rt.exState Rt.exTx 1 none (Array.replicate 249 0x80FF) := by
  have hd : ∀ i, rd (Array.replicate 249 0x80FF) i < 65536 := by intro i; unfold rd; by_cases h : i < 249 <;> simp [h]
  exact ⟨⟨Hist.WF_dirtyState, Rt.TxOK_exTx, Hist.Fresh_dirty, by decide, Or.inl rfl, hd⟩,
    ⟨Rt.WF_exState, Rt.TxOK_exTx, Rt.Fresh_ex, by decide, Or.inl rfl, hd⟩⟩

/-- a 300-pattern FociSTM with 3 foci per pattern (13 frames) to segment 1, GPIO transition -/
example : Hist.FociAccepts Hist.dirtyState Rt.exTx 3 1 (some (2, 1)) 5 512 340 (Array.replicate 900 12345) 300 ∧
    Hist.FociAccepts Rt.exState Rt.exTx 3 1 (some (2, 1)) 5 512 340 (Array.replicate 900 12345) 300 := by
  have H : ∀ s : State, s.dcSysTime = 0 → Rt.FociOK s 3 1 (some (2, 1)) 5 512 340 (Array.replicate 900 12345) 300 := by
    intro s hs
    refine ⟨by decide, by decide, by simp, by decide, ?_, by decide, by decide, by decide, ?_⟩
    · intro i; unfold rd; by_cases h : i < 900 <;> simp [h]
    · intro m v h
      simp only [Option.some.injEq, Prod.mk.injEq] at h
      obtain ⟨rfl, rfl⟩ := h
      exact ⟨Or.inr (Or.inr (Or.inl ⟨rfl, by decide⟩)), by decide, by rw [hs]; decide⟩
  exact ⟨⟨Hist.WF_dirtyState, Rt.TxOK_exTx, Hist.Fresh_dirty, H _ rfl, by decide, by decide⟩,
    ⟨Rt.WF_exState, Rt.TxOK_exTx, Rt.Fresh_ex, H _ rfl, by decide, by decide⟩⟩

/-- a 7-pattern GainSTM in PhaseHalf mode (2 frames) to segment 0, no transition -/
example : Hist.GstmAccepts Hist.dirtyState Rt.exTx 2 0 none 0xFFFF 4000 (Array.replicate 7 (Array.replicate 249 0x1234)) ∧
    Hist.GstmAccepts Rt.exState Rt.exTx 2 0 none 0xFFFF 4000 (Array.replicate 7 (Array.replicate 249 0x1234)) := by
  have H : ∀ s : State, Rt.GOK s 2 0 none 0xFFFF 4000 (Array.replicate 7 (Array.replicate 249 0x1234)) := by
    intro s
    refine ⟨by decide, by decide, by simp, ?_, by decide, by decide, ?_⟩
    · intro idx i
      unfold Rt.patAt rd
      by_cases h : idx < 7
      · simp [h]; by_cases h2 : i < 249 <;> simp [h2]
      · simp [h]; show (#[] : Array Nat)[i]?.getD 0 < 65536; simp
    · intro m v h; simp at h
  exact ⟨⟨Hist.WF_dirtyState, Rt.TxOK_exTx, Hist.Fresh_dirty, H _, by decide, by decide⟩,
    ⟨Rt.WF_exState, Rt.TxOK_exTx, Rt.Fresh_ex, H _, by decide, by decide⟩⟩

/-- `clear_from_any` applies to the dirty device -/
example : ∃ s' p, Fw.clear Hist.dirtyState #[] = .ok (s', Cpu.NO_ERR) ∧ Fw.new 249 0 = .ok p ∧ PowerOnObs s' ∧
    s'.modCycle = p.modCycle := by
  obtain ⟨s', p, h1, h2, _, _, _, h6, _, _, _, _, _, h12, _⟩ := clear_from_any Hist.dirtyState (Or.inr Hist.WF_dirtyState)
  exact ⟨s', p, h1, h2, h6, h12⟩

/-- non-vacuity of the frame theorems' new clause: the OTHER segment may hold a FociSTM — `Hist.SegObsSame` has no
mode hypothesis -/
example (s s' : State) (h : Hist.SegObsSame s s' 1) (hf : Obs.isStmGainMode s 1 = false) :
    Obs.isStmGainMode s' 1 = false ∧ Obs.numFoci s' 1 = Obs.numFoci s 1 ∧ ∀ idx, Obs.drivesAt s' 1 idx = Obs.drivesAt s 1 idx :=
  ⟨by rw [h.gainMode, hf], h.numFoci, h.drives⟩

/-- non-vacuity of `history_independent_trace`: the concrete dirty history `Hist.dirtyHist` (PhaseCorrection 7…,
Gain to segment 1 with transition, ForceFan, Silencer fixed update rate, Clear, EmulateGPIOIn, PhaseCorrection 9…, Gain
to segment 0) runs from the 249-transducer power-on device; the phase correction in force is the second one; the
reference history is that one datagram; a Gain probe to segment 1 is legal on every device -/
example (now : Nat) (p0 : State) (hp0 : Fw.new 249 now = .ok p0) :
    (∃ s t, Hist.Run p0 {} Hist.dirtyHist s t) ∧ Hist.dirtyHist.length = 8 ∧
    Hist.lastPc none Hist.dirtyHist = some (Array.replicate 249 9) ∧
    Hist.refHist Hist.dirtyHist = [.phaseCorr (Array.replicate 249 9)] ∧
    Hist.IsData (.gain 1 none (Array.replicate 249 0x80FF)) = true ∧
    ∀ x : State, Hist.Legal x (.gain 1 none (Array.replicate 249 0x80FF)) :=
  ⟨Hist.dirtyHist_runs now p0 hp0 {} Rt.TxOK_exTx, rfl, rfl, rfl, rfl,
    fun _ => ⟨by decide, Or.inl rfl, fun i => Hist.rd_replicate_lt _ _ _ _ (by decide)⟩⟩

/-- … and so the theorem applies to it: after the dirty history a Gain probe reads back the same as on the power-on
device that only received the second phase correction -/
example (now : Nat) (p0 : State) (hp0 : Fw.new 249 now = .ok p0) (s : State) (t : Wire.Tx)
    (hr : Hist.Run p0 {} Hist.dirtyHist s t) :
    ∃ q tq, Hist.Run p0 {} [.phaseCorr (Array.replicate 249 9)] q tq ∧
      Obs.phaseCorrection s = Array.replicate 249 9 ∧
      ∀ t' s' tq' q', Rt.Sends (.gain 1 none (Array.replicate 249 0x80FF)) s t t' s' →
        Rt.Sends (.gain 1 none (Array.replicate 249 0x80FF)) q tq tq' q' →
        Obs.drivesAt s' 1 0 = Obs.drivesAt q' 1 0 ∧ Hist.stmHdr s' 1 = Hist.stmHdr q' 1 := by
  obtain ⟨q, tq, hq, _, _, _, _, _, _, _, _, p, f⟩ :=
    history_independent_trace 249 now (by decide) p0 hp0 {} Rt.TxOK_exTx Hist.dirtyHist s t hr
  have hl : ∀ x : State, Hist.Legal x (.gain 1 none (Array.replicate 249 0x80FF)) :=
    fun _ => ⟨by decide, Or.inl rfl, fun i => Hist.rd_replicate_lt _ _ _ _ (by decide)⟩
  exact ⟨q, tq, hq, p, (f _ rfl (hl s) (hl q)).2.2⟩

/-- non-vacuity of `playing_after_immediate_request`: a chain stopped in a finite loop on segment 1 with a stale tick
offset, in Ext mode, and the fresh chain — FociSTM-like request (division 512, 300 patterns) to segment 0 -/
example : Rt.SwapOK { cur := 1, req := 1, state := .finiteLoop, rep := 3, freqDiv := (5120, 10), cycle := (100, 3),
                      stop := true, extMode := true, ticOff := (77, 2), curIdx := 2, extLastLap := 9 } ∧
    Rt.SwapOK {} ∧ (1 : Nat) ≤ 512 ∧ (1 : Nat) ≤ 300 ∧ TMode.immediate ≠ TMode.ext :=
  ⟨⟨by decide, by decide, by decide, by decide⟩, ⟨by decide, by decide, by decide, by decide⟩, by decide, by decide,
    by decide⟩

/-- non-vacuity of `playing_after_probe`: after the dirty history, a Gain probe to segment 1 with its transition is
legal (on every device), so the third clause applies to every clock update that returns -/
example (now : Nat) (p0 : State) (hp0 : Fw.new 249 now = .ok p0) :
    (∃ s t, Hist.Run p0 {} Hist.dirtyHist s t) ∧
    ∀ x : State, Hist.Legal x (.gain 1 (some (Drv.TRANSITION_MODE_IMMEDIATE, 0)) (Array.replicate 249 0x80FF)) :=
  ⟨Hist.dirtyHist_runs now p0 hp0 {} Rt.TxOK_exTx,
    fun _ => ⟨by decide, Or.inr ⟨0, rfl⟩, fun i => Hist.rd_replicate_lt _ _ _ _ (by decide)⟩⟩

end Autd3.C02
