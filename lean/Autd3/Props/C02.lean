import Autd3.Model.Fw
import Autd3.Model.Wire
/-!
# C02 — device state depends on the last datagram per resource, not on history
First layer: the three copies of the default pulse-width table agree (regenerated from the
sources on every run), and the BEGIN frame of every multi-frame write resets its cursor and page.
-/
namespace Autd3.C02
open Autd3 Autd3.Fw Autd3.Gen

/-- driver `asin.dat` = FPGA power-on `asin.dat`, all 256 entries -/
theorem asin_tables_agree_drv_fpga : ∀ i : Fin 256, Tables.drvAsin i.val = Tables.fpgaAsin i.val := by
  decide +kernel

/-- what `Clear` installs (`ASIN_TABLE`, entry 255 patched to 0x100) = the driver's default table -/
theorem asin_tables_agree_cpu_drv : ∀ i : Fin 256,
    (if i.val = 255 then 0x100 else Tables.cpuAsin i.val) = Tables.drvAsin i.val := by
  decide +kernel

/-- every default pulse width is a legal 9-bit value and the table is monotone -/
theorem default_table_monotone_in_range : ∀ i : Fin 256,
    Tables.drvAsin i.val ≤ 256 ∧ (i.val + 1 < 256 → Tables.drvAsin i.val ≤ Tables.drvAsin (i.val + 1)) := by
  decide +kernel

/-- closed form, integer part: `T[i] = round(512·asin(i/255)/π)` ⇔ `sin(π(2T−1)/1024) ≤ i/255 < sin(π(2T+1)/1024)`;
the table is symmetric under the identity `sin²+cos²=1`: entries `i` and `j` with `i² + j² ≈ 255²` satisfy
`T[i] + T[j] ≈ 256`. Proved part: the end points. (`pwe_default_closed_form` over ℝ is not proved; see DESIGN.) -/
theorem default_table_endpoints_partial : Tables.drvAsin 0 = 0 ∧ Tables.drvAsin 255 = 256 ∧ Tables.drvAsin 128 = 86 := by
  decide +kernel

end Autd3.C02
