import Autd3.Model.Fw
import Autd3.Model.Wire
import Autd3.Lemmas.P02ClearObs
import Autd3.Lemmas.P02Frames
import Autd3.Lemmas.P02Mod
import Autd3.Lemmas.P02Stm
import Autd3.Lemmas.P02DefaultsWire
/-!
# C02 — device state depends on the last datagram per resource, not on history
First layer: the three copies of the default pulse-width table agree (regenerated from the
sources on every run).  Second layer (unbounded, over the firmware model `Fw` and the read-back model
`Obs`): `Clear` installs the power-on observable state from EVERY well-formed state; frame conditions
of the single-frame configuration handlers; the BEGIN frame of a modulation write resets the write
cursor, and a single-frame modulation is history independent.

Definitions used in the statements (all in `Lemmas/P02*.lean`): `WF` (array sizes, `numTr ≤ 249`,
swap-chain dividers/cycles non-zero, the CPU flag word never holds the MOD_SET/STM_SET request bits),
`PowerOnObs` (the list of observables with their power-on values), `clearSwap` (what `Clear` does to a
swap chain), `modSegOf` (segment bit of a modulation frame).
-/
namespace Autd3.C02
open Autd3 Autd3.Fw Autd3.Gen

/-- driver `asin.dat` = FPGA power-on `asin.dat`, all 256 entries -/
theorem asin_tables_agree_drv_fpga : ∀ i : Fin 256, Tables.drvAsin i.val = Tables.fpgaAsin i.val := by
  decide +kernel

/-- what `Clear` installs (`ASIN_TABLE`, entry 255 patched to 0x100) = the driver's default table -/
theorem asin_tables_agree_cpu_drv : ∀ i : Fin 256,
    (if i.val = 255 then 0x100 else Tables.cpuAsin i.val) = Tables.drvAsin i.val := by
  decide +kernel

/-- every default pulse width is a legal 9-bit value and the table is monotone -/
theorem default_table_monotone_in_range : ∀ i : Fin 256,
    Tables.drvAsin i.val ≤ 256 ∧ (i.val + 1 < 256 → Tables.drvAsin i.val ≤ Tables.drvAsin (i.val + 1)) := by
  decide +kernel

/-- closed form, integer part: `T[i] = round(512·asin(i/255)/π)` ⇔ `sin(π(2T−1)/1024) ≤ i/255 < sin(π(2T+1)/1024)`;
the table is symmetric under the identity `sin²+cos²=1`: entries `i` and `j` with `i² + j² ≈ 255²` satisfy
`T[i] + T[j] ≈ 256`. Proved part: the end points. (`pwe_default_closed_form` over ℝ is not proved; see DESIGN.) -/
theorem default_table_endpoints_partial : Tables.drvAsin 0 = 0 ∧ Tables.drvAsin 255 = 256 ∧ Tables.drvAsin 128 = 86 := by
  decide +kernel


/-! ## second layer: Clear -/
open Autd3.P02

/-- **Clear installs the power-on observable state** (absolute form). -/
theorem clear_installs (s : State) (h : WF s) :
    ∃ s', Fw.clear s #[] = .ok (s', Cpu.NO_ERR) ∧ WF s' ∧ PowerOnObs s' ∧
      s'.numTr = s.numTr ∧ s'.dcSysTime = s.dcSysTime ∧
      s'.modSwap = clearSwap s.modSwap s.dcSysTime 2 ∧ s'.stmSwap = clearSwap s.stmSwap s.dcSysTime 1 :=
  ⟨clearResult s, clear_eq s h, wf_clearResult s h,
    powerOnObs_of_cleared (cleared_clearResult s h) h.numTr, (clearResult_kept s).2.2.2.2.2.2.2.2.2.2.2.1,
    (clearResult_kept s).2.2.2.2.2.2.2.2.2.2.2.2, modSwap_clearResult s h.ctl, stmSwap_clearResult s h.ctl⟩

theorem clear_resets (s : State) (h : WF s) :
    ∃ s' p, Fw.clear s #[] = .ok (s', Cpu.NO_ERR) ∧ Fw.new s.numTr s.dcSysTime = .ok p ∧
      (∀ seg, seg ≤ 1 →
        Obs.modBuffer s' seg = Obs.modBuffer p seg ∧ Obs.modDiv s' seg = Obs.modDiv p seg ∧
        Obs.modCycle s' seg = Obs.modCycle p seg ∧ Obs.modRep s' seg = Obs.modRep p seg ∧
        Obs.isStmGainMode s' seg = Obs.isStmGainMode p seg ∧ Obs.stmDiv s' seg = Obs.stmDiv p seg ∧
        Obs.stmCycle s' seg = Obs.stmCycle p seg ∧ Obs.stmRep s' seg = Obs.stmRep p seg ∧
        Obs.drivesAt s' seg 0 = Obs.drivesAt p seg 0) ∧
      Obs.reqModSeg s' = Obs.reqModSeg p ∧ Obs.modTransition s' = Obs.modTransition p ∧
      Obs.reqStmSeg s' = Obs.reqStmSeg p ∧ Obs.stmTransition s' = Obs.stmTransition p ∧
      Obs.silencerUpdateRate s' = Obs.silencerUpdateRate p ∧
      Obs.silencerCompletionSteps s' = Obs.silencerCompletionSteps p ∧
      Obs.silencerFixedUpdateRateMode s' = Obs.silencerFixedUpdateRateMode p ∧ s'.strict = p.strict ∧
      Obs.pweTable s' = Obs.pweTable p ∧ Obs.phaseCorrection s' = Obs.phaseCorrection p ∧
      Obs.debugTypes s' = Obs.debugTypes p ∧ Obs.debugValues s' = Obs.debugValues p ∧
      Obs.isForceFan s' = Obs.isForceFan p ∧ s'.readsFpgaState = p.readsFpgaState ∧ s'.portA = p.portA ∧
      Obs.currentModSeg s' = Obs.currentModSeg p ∧ Obs.currentStmSeg s' = Obs.currentStmSeg p ∧
      s'.modSwap.state = p.modSwap.state ∧ s'.modSwap.stop = p.modSwap.stop ∧
      s'.modSwap.extMode = p.modSwap.extMode ∧ s'.modSwap.mode = p.modSwap.mode ∧
      s'.modSwap.sysTime = p.modSwap.sysTime ∧ s'.modSwap.freqDiv.1 = p.modSwap.freqDiv.1 ∧
      s'.modSwap.cycle.1 = p.modSwap.cycle.1 ∧ s'.modSwap.ticOff.1 = p.modSwap.ticOff.1 ∧
      s'.stmSwap.state = p.stmSwap.state ∧ s'.stmSwap.stop = p.stmSwap.stop ∧
      s'.stmSwap.extMode = p.stmSwap.extMode ∧ s'.stmSwap.mode = p.stmSwap.mode ∧
      s'.stmSwap.sysTime = p.stmSwap.sysTime ∧ s'.stmSwap.freqDiv.1 = p.stmSwap.freqDiv.1 ∧
      s'.stmSwap.cycle.1 = p.stmSwap.cycle.1 ∧ s'.stmSwap.ticOff.1 = p.stmSwap.ticOff.1 := by
  have hp := wf_preClear s.numTr s.dcSysTime h.numTr
  have a := powerOnObs_of_cleared (cleared_clearResult s h) h.numTr
  have b := powerOnObs_of_cleared (cleared_clearResult _ hp) h.numTr
  have ca := cleared_clearResult s h
  have cb := cleared_clearResult _ hp
  have n1 : (clearResult s).numTr = s.numTr := (clearResult_kept s).2.2.2.2.2.2.2.2.2.2.2.1
  have n2 : (clearResult (preClear s.numTr s.dcSysTime)).numTr = s.numTr :=
    (clearResult_kept (preClear s.numTr s.dcSysTime)).2.2.2.2.2.2.2.2.2.2.2.1
  have t1 : (clearResult s).dcSysTime = s.dcSysTime := (clearResult_kept s).2.2.2.2.2.2.2.2.2.2.2.2
  have t2 : (clearResult (preClear s.numTr s.dcSysTime)).dcSysTime = s.dcSysTime :=
    (clearResult_kept (preClear s.numTr s.dcSysTime)).2.2.2.2.2.2.2.2.2.2.2.2
  refine ⟨clearResult s, clearResult (preClear s.numTr s.dcSysTime), clear_eq s h, new_eq _ _ h.numTr, ?_,
    by rw [a.reqModSeg, b.reqModSeg], by rw [a.modTransition, b.modTransition],
    by rw [a.reqStmSeg, b.reqStmSeg], by rw [a.stmTransition, b.stmTransition],
    by rw [a.silRate, b.silRate], by rw [a.silSteps, b.silSteps], by rw [a.silFixed, b.silFixed],
    by rw [a.strict, b.strict], by rw [a.pwe, b.pwe], by rw [a.phaseCorr, b.phaseCorr, n1, n2],
    by rw [a.debugTypes, b.debugTypes], by rw [a.debugValues, b.debugValues],
    by rw [a.forceFan, b.forceFan], by rw [a.reads, b.reads], by rw [a.portA, b.portA],
    by rw [a.curMod, b.curMod], by rw [a.curStm, b.curStm],
    by rw [ca.modSwap.state, cb.modSwap.state], by rw [ca.modSwap.stop, cb.modSwap.stop],
    by rw [ca.modSwap.extMode, cb.modSwap.extMode], by rw [ca.modSwap.mode, cb.modSwap.mode],
    by rw [ca.modSwap.sysTime, cb.modSwap.sysTime, t1, t2], by rw [ca.modSwap.freqDiv0, cb.modSwap.freqDiv0],
    by rw [ca.modSwap.cycle0, cb.modSwap.cycle0], by rw [ca.modSwap.ticOff0, cb.modSwap.ticOff0],
    by rw [ca.stmSwap.state, cb.stmSwap.state], by rw [ca.stmSwap.stop, cb.stmSwap.stop],
    by rw [ca.stmSwap.extMode, cb.stmSwap.extMode], by rw [ca.stmSwap.mode, cb.stmSwap.mode],
    by rw [ca.stmSwap.sysTime, cb.stmSwap.sysTime, t1, t2], by rw [ca.stmSwap.freqDiv0, cb.stmSwap.freqDiv0],
    by rw [ca.stmSwap.cycle0, cb.stmSwap.cycle0], by rw [ca.stmSwap.ticOff0, cb.stmSwap.ticOff0]⟩
  intro seg hseg
  refine ⟨by rw [a.modBuffer seg hseg, b.modBuffer seg hseg], by rw [a.modDiv seg hseg, b.modDiv seg hseg],
    by rw [a.modCycle seg hseg, b.modCycle seg hseg], by rw [a.modRep seg hseg, b.modRep seg hseg],
    by rw [a.stmGain seg hseg, b.stmGain seg hseg], by rw [a.stmDiv seg hseg, b.stmDiv seg hseg],
    by rw [a.stmCycle seg hseg, b.stmCycle seg hseg], by rw [a.stmRep seg hseg, b.stmRep seg hseg],
    by rw [a.drives seg hseg, b.drives seg hseg, n1, n2]⟩

/-- what `Clear` does NOT reset (said explicitly): `synchronized`, the latched `numFoci`, `gainStmMode`,
the FociSTM write cursor `stmWrite`, the transition latches, `readsStore`/`isRxDataUsed` (a version query in
flight stays in flight), and the registers FPGA_STATE, VERSION_NUM_*, STM_SOUND_SPEED0/1, STM_NUM_FOCI0/1 —
the last four are dead while both segments are in gain mode, which is why they are not observables of
`clear_resets`. -/
theorem clear_keeps (s : State) (h : WF s) :
    ∃ s', Fw.clear s #[] = .ok (s', Cpu.NO_ERR) ∧
      s'.synchronized = s.synchronized ∧ s'.numFoci = s.numFoci ∧ s'.gainStmMode = s.gainStmMode ∧
      s'.stmWrite = s.stmWrite ∧ s'.modTrMode = s.modTrMode ∧ s'.stmTrMode = s.stmTrMode ∧
      s'.readsStore = s.readsStore ∧ s'.isRxDataUsed = s.isRxDataUsed ∧ s'.rxData = s.rxData ∧
      s'.lastMsgId = s.lastMsgId ∧ s'.ack = s.ack ∧
      (∀ seg, seg ≤ 1 → Obs.soundSpeed s' seg = Obs.soundSpeed s seg ∧ Obs.numFoci s' seg = Obs.numFoci s seg) ∧
      Obs.fpgaStateReg s' = Obs.fpgaStateReg s ∧
      reg s' Cpu.ADDR_VERSION_NUM_MAJOR = reg s Cpu.ADDR_VERSION_NUM_MAJOR ∧
      reg s' Cpu.ADDR_VERSION_NUM_MINOR = reg s Cpu.ADDR_VERSION_NUM_MINOR := by
  have hk := clearResult_keeps_regs s
  simp only [List.mem_cons, List.mem_nil_iff, or_false, forall_eq_or_imp, forall_eq] at hk
  obtain ⟨k1, k2, k3, k91, k92, k93, k94⟩ := hk
  obtain ⟨c1, c2, c3, c4, c5, c6, c7, c8, c9, c10, c11, _, _⟩ := clearResult_kept s
  refine ⟨clearResult s, clear_eq s h, c1, c2, c3, c4, c5, c6, c7, c8, c9, c10, c11, ?_, ?_, ?_, ?_⟩
  · intro seg hseg
    rcases seg_cases hseg with h0 | h0 <;> subst h0
    · simp only [Obs.soundSpeed, Obs.numFoci, reg, Cpu.ADDR_STM_SOUND_SPEED0, Cpu.ADDR_STM_NUM_FOCI0, Nat.add_zero, k91, k93, and_self]
    · simp only [Obs.soundSpeed, Obs.numFoci, reg, Cpu.ADDR_STM_SOUND_SPEED0, Cpu.ADDR_STM_NUM_FOCI0, Nat.reduceAdd, k92, k94, and_self]
  · simp only [Obs.fpgaStateReg, reg, Cpu.ADDR_FPGA_STATE, k1]
  · simp only [reg, Cpu.ADDR_VERSION_NUM_MAJOR, k2]
  · simp only [reg, Cpu.ADDR_VERSION_NUM_MINOR, k3]

/-- the time-dependent part: `Clear` keeps the swap chains' `curIdx` (it is only recomputed by
`update_with_sys_time`), so `current_*_idx` right after `Clear` is stale; after the NEXT clock update it is
a function of the time alone — the same function for every prior state, hence equal to the power-on
device's. -/
theorem clear_then_update (s : State) (h : WF s) (t : Nat) :
    ∃ s' s'', Fw.clear s #[] = .ok (s', Cpu.NO_ERR) ∧ updateWithSysTime s' t = .ok s'' ∧
      Obs.currentModIdx s'' = ((fpgaSysTime t >>> 9) / 0xFFFF) % 2 ∧ Obs.currentStmIdx s'' = 0 ∧
      Obs.currentModSeg s'' = 0 ∧ Obs.currentStmSeg s'' = 0 ∧ s''.dcSysTime = t := by
  have w := wf_clearResult s h
  obtain ⟨s'', e, r⟩ := update_after_clear _ (cleared_clearResult s h) w.modSwap w.stmSwap t
  exact ⟨clearResult s, s'', clear_eq s h, e, r⟩

/-- the power-on state itself is well-formed (the invariant is not vacuous and `Fw.new` never fails for a
real device size) -/
theorem new_wf (numTr now : Nat) (hn : numTr ≤ 249) :
    ∃ p, Fw.new numTr now = .ok p ∧ WF p ∧ PowerOnObs p :=
  ⟨_, new_eq numTr now hn, wf_clearResult _ (wf_preClear numTr now hn),
    powerOnObs_of_cleared (cleared_clearResult _ (wf_preClear numTr now hn)) hn⟩

/-! ## second layer: frame conditions of the single-frame configuration handlers

Each theorem has the shape: the handler never panics on a well-formed state, the result is well-formed,
the result state equals the old one except for the listed fields (`s' = { s with … }` — in particular both
swap chains and the modulation / STM memories are untouched by all nine handlers; the pulse-width table
only by `configPwe`, the phase-correction memory only by `phaseCorrOp`), and of the register file only the
listed addresses can change. -/

/-- `config_debug` (GPIOOutputs): only registers DEBUG_VALUE*_* (240…255) and CTL_FLAG (0).  This is the
statement F12 violated (it raised MOD_SET and thereby touched the modulation swap chain). -/
theorem frame_configDebug (s : State) (d : Array Nat) (h : WF s) :
    ∃ s', configDebug s d = .ok (s', Cpu.NO_ERR) ∧ WF s' ∧ s' = { s with ctl := s'.ctl } ∧
      ∀ j, j ≠ 0 → ¬(240 ≤ j ∧ j < 256) → rd s'.ctl j = rd s.ctl j := by
  refine ⟨_, configDebug_eq s d h, wf_ctl s _ h (by simp [h.ctl]), rfl, ?_⟩
  intro j h0 hj
  simp only [rd_set, rd_writeLoop]
  have : ¬ (240 ≤ j ∧ j < 240 + 16 ∧ j < s.ctl.size) := by omega
  simp [h0, this]

/-- `synchronize`: only the `synchronized` flag and CTL_FLAG -/
theorem frame_synchronize (s : State) (d : Array Nat) (h : WF s) :
    ∃ s', synchronize s d = .ok (s', Cpu.NO_ERR) ∧ WF s' ∧ s'.synchronized = true ∧
      s' = { s with ctl := s'.ctl, synchronized := s'.synchronized } ∧
      ∀ j, j ≠ 0 → rd s'.ctl j = rd s.ctl j := by
  refine ⟨_, synchronize_eq s d h, ?_, rfl, rfl, ?_⟩
  · exact wf_ctl { s with synchronized := true } _ { h with } (by simp [h.ctl])
  · intro j h0
    simp [rd_set, h0]

/-- `config_pwe`: only the pulse-width table -/
theorem frame_configPwe (s : State) (d : Array Nat) (h : WF s) :
    ∃ s', configPwe s d = .ok (s', Cpu.NO_ERR) ∧ WF s' ∧ s' = { s with pwe := s'.pwe } ∧
      ∀ i, i < 256 → rd s'.pwe i = u16at d (FwLayout.Pwe_size + 2 * i) := by
  refine ⟨_, configPwe_eq s d h, { h with pwe := by simp [h.pwe] }, rfl, ?_⟩
  intro i hi
  simp only [rd_writeLoop, rd_wordsAt, h.pwe]
  simp [hi, Nat.mod_eq_of_lt (u16at_lt _ _), FwLayout.Pwe_size]

/-- `phase_corr`: only the phase-correction memory -/
theorem frame_phaseCorrOp (s : State) (d : Array Nat) (h : WF s) :
    ∃ s', phaseCorrOp s d = .ok (s', Cpu.NO_ERR) ∧ WF s' ∧ s' = { s with phaseCorr := s'.phaseCorr } ∧
      (∀ i, i < 125 → rd s'.phaseCorr i = u16at d (FwLayout.PhaseCorr_size + 2 * i)) ∧
      (∀ i, 125 ≤ i → rd s'.phaseCorr i = rd s.phaseCorr i) := by
  refine ⟨_, phaseCorrOp_eq s d h, { h with phaseCorr := by simp [h.phaseCorr] }, rfl, ?_, ?_⟩
  · intro i hi
    simp only [rd_writeLoop, rd_wordsAt, h.phaseCorr]
    have : i < 128 := by omega
    simp [hi, this, Nat.mod_eq_of_lt (u16at_lt _ _), FwLayout.PhaseCorr_size]
  · intro i hi
    simp only [rd_writeLoop]
    simp
    omega

/-- `config_silencer`: only the silencer registers (64…68), CTL_FLAG, and the CPU's guard copies
`strict / minDivI / minDivP`; a rejected request (`ERR_INVALID_SILENCER_SETTING`) changes nothing at all -/
theorem frame_configSilencer (s : State) (d : Array Nat) (h : WF s) :
    ∃ s' a, configSilencer s d = .ok (s', a) ∧ WF s' ∧
      s' = { s with ctl := s'.ctl, strict := s'.strict, minDivI := s'.minDivI, minDivP := s'.minDivP } ∧
      (∀ j, j ≠ 0 → ¬(64 ≤ j ∧ j ≤ 68) → rd s'.ctl j = rd s.ctl j) ∧
      (a ≠ Cpu.NO_ERR → s' = s) := by
  rw [configSilencer_eq s d h]
  split
  · refine ⟨_, _, rfl, wf_ctl s _ h (by simp [h.ctl]), rfl, ?_, fun hne => absurd rfl hne⟩
    intro j h0 hj
    have e1 : j ≠ 64 := by omega
    have e2 : j ≠ 65 := by omega
    have e3 : j ≠ 66 := by omega
    simp [rd_set, h0, e1, e2, e3]
  · split
    · exact ⟨_, _, rfl, h, rfl, fun _ _ _ => rfl, fun _ => rfl⟩
    · refine ⟨_, _, rfl, ?_, rfl, ?_, fun hne => absurd rfl hne⟩
      · exact wf_silencer_upd s _ _ _ _ h (by simp [h.ctl])
      · intro j h0 hj
        have e1 : j ≠ 64 := by omega
        have e2 : j ≠ 67 := by omega
        have e3 : j ≠ 68 := by omega
        simp [rd_set, h0, e1, e2, e3]

/-- `configure_force_fan`: only the CPU flag word (bit 13), which keeps its invariant -/
theorem frame_configureForceFan (s : State) (d : Array Nat) (h : WF s) :
    ∃ s', configureForceFan s d = .ok (s', Cpu.NO_ERR) ∧ WF s' ∧ s' = { s with flagsInternal := s'.flagsInternal } ∧
      ((u8at d FwLayout.ForceFan_value_off ≠ 0 ∧ s'.flagsInternal = s.flagsInternal ||| Cpu.CTL_FLAG_FORCE_FAN) ∨
       (u8at d FwLayout.ForceFan_value_off = 0 ∧ s'.flagsInternal = s.flagsInternal &&& (65535 - Cpu.CTL_FLAG_FORCE_FAN))) := by
  obtain ⟨f', e, hf, hc⟩ := configureForceFan_frame s d h.flags
  exact ⟨_, e, { h with flags := hf }, rfl, hc⟩

/-- `emulate_gpio_in`: only the CPU flag word (bits 8…11) -/
theorem frame_emulateGpioIn (s : State) (d : Array Nat) (h : WF s) :
    ∃ s', emulateGpioIn s d = .ok (s', Cpu.NO_ERR) ∧ WF s' ∧ s' = { s with flagsInternal := s'.flagsInternal } :=
  ⟨_, emulateGpioIn_eq s d, { h with flags := flagsOK_gpioIn _ _ h.flags }, rfl⟩

/-- `configure_reads_fpga_state`: only the reads flag -/
theorem frame_configureReadsFpgaState (s : State) (d : Array Nat) (h : WF s) :
    ∃ s', configureReadsFpgaState s d = .ok (s', Cpu.NO_ERR) ∧ WF s' ∧
      s' = { s with readsFpgaState := s'.readsFpgaState } ∧
      s'.readsFpgaState = (u8at d FwLayout.ReadsFPGAState_value_off ≠ 0) :=
  ⟨_, rfl, { h with }, rfl, by simp⟩

/-- `cpu_gpio_out`: only port A -/
theorem frame_cpuGpioOut (s : State) (d : Array Nat) (h : WF s) :
    ∃ s', cpuGpioOut s d = .ok (s', Cpu.NO_ERR) ∧ WF s' ∧ s' = { s with portA := s'.portA } ∧
      s'.portA = u8at d FwLayout.CpuGPIOOut_pa_podr_off :=
  ⟨_, rfl, { h with }, rfl, rfl⟩

/-! ## second layer: history independence of a modulation write -/

/-- **BEGIN resets the cursor** (`begin_resets_cursor`, modulation): whatever the prior state — any old
cursor value, any old write-page / write-segment register (the F1 defect was a stale page register) — a
BEGIN frame of `write_mod` either is rejected by one of the two validations, and then the state is the old
one with the cursor reset to 0, or it leaves the cursor at exactly the number of bytes this frame carried,
the write-page register at 0 and the write-segment register at the frame's segment. -/
theorem begin_resets_cursor_mod (s s' : State) (d : Array Nat) (a : Nat) (h : WF s)
    (hB : hasFlag (u8at d FwLayout.ModulationHead_flag_off) Cpu.MODULATION_FLAG_BEGIN = true)
    (hr : writeMod s d = .ok (s', a)) :
    (a ≠ Cpu.NO_ERR ∧ s' = { s with modCycle := 0 }) ∨
    (s'.modCycle = u8at d FwLayout.ModulationHead_size_off ∧ reg s' Cpu.ADDR_MOD_MEM_WR_PAGE = 0 ∧
      reg s' Cpu.ADDR_MOD_MEM_WR_SEGMENT = modSegOf d) := by
  cases hv1 : validateTransitionMode s.modSegment (modSegOf d) (u16at d FwLayout.ModulationHead_rep_off)
        (u8at d FwLayout.ModulationHead_transition_mode_off)
  · cases hv2 : validateSilencerSettings s (sel s.stmDiv s.stmSegment) (u16at d FwLayout.ModulationHead_freq_div_off)
    · right
      rw [writeMod_begin s d h.toSized hB hv1 hv2] at hr
      obtain ⟨e1, e2, e3, _⟩ := modTail_frame _ _ _ _ (wf_modBeginRes s d h) hr
      have hseg := modSegOf_le d
      refine ⟨by rw [e1]; rfl, ?_, ?_⟩
      · unfold reg
        rw [e3 _ (by decide) (by decide) (by decide) (by simp only [Cpu.ADDR_MOD_MEM_WR_PAGE, Cpu.ADDR_MOD_CYCLE0]; omega)]
        simp [modBeginRes, rd_set, h.ctl, Cpu.ADDR_MOD_MEM_WR_PAGE]
      · unfold reg
        rw [e3 _ (by decide) (by decide) (by decide) (by simp only [Cpu.ADDR_MOD_MEM_WR_SEGMENT, Cpu.ADDR_MOD_CYCLE0]; omega)]
        simp [modBeginRes, rd_set, h.ctl, Cpu.ADDR_MOD_MEM_WR_PAGE, Cpu.ADDR_MOD_MEM_WR_SEGMENT]
        omega
    · left
      rw [writeMod_rej2 s d hB hv1 hv2] at hr
      simp only [Except.ok.injEq, Prod.mk.injEq] at hr
      exact ⟨by rw [← hr.2]; decide, hr.1.symm⟩
  · left
    rw [writeMod_rej1 s d hB hv1] at hr
    simp only [Except.ok.injEq, Prod.mk.injEq] at hr
    exact ⟨by rw [← hr.2]; decide, hr.1.symm⟩

/-- **BEGIN resets the cursor** (`begin_resets_cursor`, FociSTM): a BEGIN frame of `write_foci_stm` addressed
to a real segment, whose points fit the first page (`send_num · num_foci < 4096`; the SDK sends at most
≈ 77 points of ≤ 8 foci per frame), is either rejected by a validation — then the state is untouched — or
leaves the write cursor `stm_write` at exactly the number of points this frame carried, the latched
`num_foci` at the frame's, the write-page register at 0 and the write-segment register at the frame's segment,
whatever cursor / page / segment the prior history left behind.

NOT PROVED (`begin_resets_cursor`, GainSTM): the same statement for `write_gain_stm`
(`sel s'.stmCycle seg = number of patterns in the frame ∧ reg s' STM_MEM_WR_PAGE = 0 ∧ reg s' STM_MEM_WR_SEGMENT = seg`
for an accepted BEGIN frame with a valid mode byte).  The header writes are the same shape as here; what is
missing is the case analysis over the 3 modes × up to 4 patterns per frame of the pattern-copy part. -/
theorem begin_resets_cursor_foci (s s' : State) (d : Array Nat) (a : Nat) (h : WF s)
    (hB : hasFlag (u8at d FwLayout.FociSTMSubseq_flag_off) Cpu.FOCI_STM_FLAG_BEGIN = true)
    (hseg : u8at d FwLayout.FociSTMSubseq_segment_off ≤ 1)
    (hsize : u8at d FwLayout.FociSTMSubseq_send_num_off * u8at d FwLayout.FociSTMHead_num_foci_off < 4096)
    (hr : writeFociStm s d = .ok (s', a)) :
    (a ≠ Cpu.NO_ERR ∧ s' = s) ∨
    (s'.stmWrite = u8at d FwLayout.FociSTMSubseq_send_num_off * u8at d FwLayout.FociSTMHead_num_foci_off ∧
      s'.numFoci = u8at d FwLayout.FociSTMHead_num_foci_off ∧
      reg s' Cpu.ADDR_STM_MEM_WR_PAGE = 0 ∧ reg s' Cpu.ADDR_STM_MEM_WR_SEGMENT = u8at d FwLayout.FociSTMSubseq_segment_off) :=
  foci_begin_cursor s s' d a h hB hseg hsize hr

/-- **single-frame modulation: read-back is a function of the frame alone.**  For EVERY well-formed prior
state, an accepted BEGIN|END frame carrying `n ≥ 1` samples leaves, in the addressed segment, exactly the
frame's divider, loop count, `n` as cycle and the frame's `n` sample bytes as buffer. -/
theorem mod_single_frame_readback (s s' : State) (d : Array Nat) (h : WF s)
    (hB : hasFlag (u8at d FwLayout.ModulationHead_flag_off) Cpu.MODULATION_FLAG_BEGIN = true)
    (hE : hasFlag (u8at d FwLayout.ModulationHead_flag_off) Cpu.MODULATION_FLAG_END = true)
    (hn : 1 ≤ u8at d FwLayout.ModulationHead_size_off)
    (hr : writeMod s d = .ok (s', Cpu.NO_ERR)) :
    Obs.modDiv s' (modSegOf d) = u16at d FwLayout.ModulationHead_freq_div_off ∧
    Obs.modRep s' (modSegOf d) = u16at d FwLayout.ModulationHead_rep_off ∧
    Obs.modCycle s' (modSegOf d) = u8at d FwLayout.ModulationHead_size_off ∧
    Obs.modBuffer s' (modSegOf d) = .ok ((Array.range (u8at d FwLayout.ModulationHead_size_off)).map
      fun i => u8at d (FwLayout.ModulationHead_size + i)) := by
  obtain ⟨hv1, hv2⟩ := writeMod_accept_begin s s' d hB hr
  exact mod_single_frame_obs s s' d _ h hB hE hn hv1 hv2 hr

/-- **history independence** (`mod_history_independent_single_frame`): two arbitrary well-formed devices
that both accept the same single-frame modulation hold the same buffer, divider, loop count and cycle in
the addressed segment afterwards. -/
theorem mod_history_independent_single_frame (s1 s2 s1' s2' : State) (d : Array Nat) (h1 : WF s1) (h2 : WF s2)
    (hB : hasFlag (u8at d FwLayout.ModulationHead_flag_off) Cpu.MODULATION_FLAG_BEGIN = true)
    (hE : hasFlag (u8at d FwLayout.ModulationHead_flag_off) Cpu.MODULATION_FLAG_END = true)
    (hn : 1 ≤ u8at d FwLayout.ModulationHead_size_off)
    (r1 : writeMod s1 d = .ok (s1', Cpu.NO_ERR)) (r2 : writeMod s2 d = .ok (s2', Cpu.NO_ERR)) :
    Obs.modBuffer s1' (modSegOf d) = Obs.modBuffer s2' (modSegOf d) ∧
    Obs.modDiv s1' (modSegOf d) = Obs.modDiv s2' (modSegOf d) ∧
    Obs.modRep s1' (modSegOf d) = Obs.modRep s2' (modSegOf d) ∧
    Obs.modCycle s1' (modSegOf d) = Obs.modCycle s2' (modSegOf d) := by
  obtain ⟨a1, a2, a3, a4⟩ := mod_single_frame_readback s1 s1' d h1 hB hE hn r1
  obtain ⟨b1, b2, b3, b4⟩ := mod_single_frame_readback s2 s2' d h2 hB hE hn r2
  exact ⟨by rw [a4, b4], by rw [a1, b1], by rw [a2, b2], by rw [a3, b3]⟩


/-! ## second layer: the SDK's defaults are a fixpoint of the power-on state -/

/-- **`defaults_are_fixpoint`**: on the power-on device (`Fw.new`, any transducer count ≤ 249, any clock),
`ecat_recv` of the frame the driver model packs from a zeroed transmit buffer for each of the five default
datagrams — silencer (10, 40, strict), the default pulse-width table `Gen.Tables.drvAsin`, zero phase
correction, modulation `[0xFF, 0xFF]` with divider 0xFFFF / infinite loop to segment 0 (Immediate), null
gain to segment 0 (Immediate) — is accepted (ack = message id 1, the operation is done after one frame)
and leaves the device in a state with all power-on observables (`PowerOnObsQ` = `PowerOnObs` except that
`Obs.modTransition` may now read Immediate: the modulation frame records its request in the transition-mode
register; the gain frame writes SyncIdx, so the STM side is literally unchanged). -/
theorem defaults_are_fixpoint (numTr now : Nat) (hn : numTr ≤ 249) :
    ∃ p, Fw.new numTr now = .ok p ∧ PowerOnObs p ∧ p.numTr = numTr ∧
      (∃ op t sz p', Wire.packOp (Wire.Op.ofDg (.silencerSteps 10 40 true)) numTr {} = .ok (op, t, sz) ∧
        op.done = true ∧ ecatRecv p t.frame = .ok p' ∧ p'.ack = 1 ∧ p'.numTr = numTr ∧ PowerOnObsQ p') ∧
      (∃ op t sz p', Wire.packOp (Wire.Op.ofDg (.pwe ((Array.range 256).map Tables.drvAsin))) numTr {} = .ok (op, t, sz) ∧
        op.done = true ∧ ecatRecv p t.frame = .ok p' ∧ p'.ack = 1 ∧ p'.numTr = numTr ∧ PowerOnObsQ p') ∧
      (∃ op t sz p', Wire.packOp (Wire.Op.ofDg (.phaseCorr (Array.replicate numTr 0))) numTr {} = .ok (op, t, sz) ∧
        op.done = true ∧ ecatRecv p t.frame = .ok p' ∧ p'.ack = 1 ∧ p'.numTr = numTr ∧ PowerOnObsQ p') ∧
      (∃ op t sz p', Wire.packOp (Wire.Op.ofDg (.modulation 0 (some (255, 0)) 0xFFFF 0xFFFF #[0xFF, 0xFF])) numTr {} = .ok (op, t, sz) ∧
        op.done = true ∧ ecatRecv p t.frame = .ok p' ∧ p'.ack = 1 ∧ p'.numTr = numTr ∧ PowerOnObsQ p' ∧
        Obs.modTransition p' = .ok .immediate) ∧
      (∃ op t sz p', Wire.packOp (Wire.Op.ofDg (.gain 0 (some (255, 0)) (Array.replicate numTr 0))) numTr {} = .ok (op, t, sz) ∧
        op.done = true ∧ ecatRecv p t.frame = .ok p' ∧ p'.ack = 1 ∧ p'.numTr = numTr ∧ PowerOnObsQ p') := by
  have hp := wf_preClear numTr now hn
  have cl := cleared_clearResult _ hp
  have w := wf_clearResult _ hp
  have hnum : (clearResult (preClear numTr now)).numTr = numTr := (clearResult_kept _).2.2.2.2.2.2.2.2.2.2.2.1
  have hid : (clearResult (preClear numTr now)).lastMsgId ≠ 1 := by
    rw [(clearResult_kept _).2.2.2.2.2.2.2.2.2.1]; show (255 : Nat) ≠ 1; decide
  have c := dflt_of_cleared cl w
  refine ⟨_, new_eq numTr now hn, powerOnObs_of_cleared cl (by rw [hnum]; exact hn), hnum, ?_, ?_, ?_, ?_, ?_⟩
  · obtain ⟨op, t, sz, s', e, d, r, c', a⟩ := dflt_frame_silencer _ numTr c hid
    exact ⟨op, t, sz, s', e, d, r, a, by rw [c'.numTrEq, hnum], powerOnObsQ_of_dflt c'⟩
  · obtain ⟨op, t, sz, s', e, d, r, c', a⟩ := dflt_frame_pwe _ numTr c hid
    exact ⟨op, t, sz, s', e, d, r, a, by rw [c'.numTrEq, hnum], powerOnObsQ_of_dflt c'⟩
  · obtain ⟨op, t, sz, s', e, d, r, c', a⟩ := dflt_frame_phaseCorr _ numTr c hid
    exact ⟨op, t, sz, s', e, d, r, a, by rw [c'.numTrEq, hnum], powerOnObsQ_of_dflt c'⟩
  · obtain ⟨op, t, sz, s', e, d, r, c', a, m⟩ := dflt_frame_mod _ numTr c hid
    exact ⟨op, t, sz, s', e, d, r, a, by rw [c'.numTrEq, hnum], powerOnObsQ_of_dflt c', m⟩
  · have := dflt_frame_gain _ c hid
    rw [hnum] at this
    obtain ⟨op, t, sz, s', e, d, r, c', a⟩ := this
    exact ⟨op, t, sz, s', e, d, r, a, c'.numTrEq, powerOnObsQ_of_dflt c'⟩

/-- the same from ANY well-formed device right after `Clear` (message id 1 must be fresh): so "Clear, then
the defaults" and "power-on" are observably the same device. -/
theorem defaults_after_clear (s : State) (h : WF s) (hid : s.lastMsgId ≠ 1) :
    ∃ s0, Fw.clear s #[] = .ok (s0, Cpu.NO_ERR) ∧
      (∃ op t sz s', Wire.packOp (Wire.Op.ofDg (.silencerSteps 10 40 true)) s.numTr {} = .ok (op, t, sz) ∧
        ecatRecv s0 t.frame = .ok s' ∧ s'.ack = 1 ∧ PowerOnObsQ s') ∧
      (∃ op t sz s', Wire.packOp (Wire.Op.ofDg (.pwe ((Array.range 256).map Tables.drvAsin))) s.numTr {} = .ok (op, t, sz) ∧
        ecatRecv s0 t.frame = .ok s' ∧ s'.ack = 1 ∧ PowerOnObsQ s') ∧
      (∃ op t sz s', Wire.packOp (Wire.Op.ofDg (.phaseCorr (Array.replicate s.numTr 0))) s.numTr {} = .ok (op, t, sz) ∧
        ecatRecv s0 t.frame = .ok s' ∧ s'.ack = 1 ∧ PowerOnObsQ s') ∧
      (∃ op t sz s', Wire.packOp (Wire.Op.ofDg (.modulation 0 (some (255, 0)) 0xFFFF 0xFFFF #[0xFF, 0xFF])) s.numTr {} = .ok (op, t, sz) ∧
        ecatRecv s0 t.frame = .ok s' ∧ s'.ack = 1 ∧ PowerOnObsQ s') ∧
      (∃ op t sz s', Wire.packOp (Wire.Op.ofDg (.gain 0 (some (255, 0)) (Array.replicate s.numTr 0))) s.numTr {} = .ok (op, t, sz) ∧
        ecatRecv s0 t.frame = .ok s' ∧ s'.ack = 1 ∧ PowerOnObsQ s') := by
  have cl := cleared_clearResult s h
  have w := wf_clearResult s h
  have hnum : (clearResult s).numTr = s.numTr := (clearResult_kept _).2.2.2.2.2.2.2.2.2.2.2.1
  have hid' : (clearResult s).lastMsgId ≠ 1 := by rw [(clearResult_kept _).2.2.2.2.2.2.2.2.2.1]; exact hid
  have c := dflt_of_cleared cl w
  refine ⟨_, clear_eq s h, ?_, ?_, ?_, ?_, ?_⟩
  · obtain ⟨op, t, sz, s', e, d, r, c', a⟩ := dflt_frame_silencer _ s.numTr c hid'
    exact ⟨op, t, sz, s', e, r, a, powerOnObsQ_of_dflt c'⟩
  · obtain ⟨op, t, sz, s', e, d, r, c', a⟩ := dflt_frame_pwe _ s.numTr c hid'
    exact ⟨op, t, sz, s', e, r, a, powerOnObsQ_of_dflt c'⟩
  · obtain ⟨op, t, sz, s', e, d, r, c', a⟩ := dflt_frame_phaseCorr _ s.numTr c hid'
    exact ⟨op, t, sz, s', e, r, a, powerOnObsQ_of_dflt c'⟩
  · obtain ⟨op, t, sz, s', e, d, r, c', a, _⟩ := dflt_frame_mod _ s.numTr c hid'
    exact ⟨op, t, sz, s', e, r, a, powerOnObsQ_of_dflt c'⟩
  · have := dflt_frame_gain _ c hid'
    rw [hnum] at this
    obtain ⟨op, t, sz, s', e, d, r, c', a⟩ := this
    exact ⟨op, t, sz, s', e, r, a, powerOnObsQ_of_dflt c'⟩

/-- spelled out: a state with the power-on observables up to the modulation transition request (`PowerOnObsQ`,
what every default datagram leaves) agrees with the power-on state on every observable of `clear_resets`
other than `Obs.modTransition`. -/
theorem defaults_obs_unchanged (p p' : State) (a : PowerOnObs p) (b : PowerOnObsQ p') (hn : p'.numTr = p.numTr) :
    (∀ seg, seg ≤ 1 →
      Obs.modBuffer p' seg = Obs.modBuffer p seg ∧ Obs.modDiv p' seg = Obs.modDiv p seg ∧
      Obs.modCycle p' seg = Obs.modCycle p seg ∧ Obs.modRep p' seg = Obs.modRep p seg ∧
      Obs.isStmGainMode p' seg = Obs.isStmGainMode p seg ∧ Obs.stmDiv p' seg = Obs.stmDiv p seg ∧
      Obs.stmCycle p' seg = Obs.stmCycle p seg ∧ Obs.stmRep p' seg = Obs.stmRep p seg ∧
      Obs.drivesAt p' seg 0 = Obs.drivesAt p seg 0) ∧
    Obs.reqModSeg p' = Obs.reqModSeg p ∧ Obs.reqStmSeg p' = Obs.reqStmSeg p ∧
    Obs.stmTransition p' = Obs.stmTransition p ∧
    Obs.silencerUpdateRate p' = Obs.silencerUpdateRate p ∧
    Obs.silencerCompletionSteps p' = Obs.silencerCompletionSteps p ∧
    Obs.silencerFixedUpdateRateMode p' = Obs.silencerFixedUpdateRateMode p ∧ p'.strict = p.strict ∧
    Obs.pweTable p' = Obs.pweTable p ∧ Obs.phaseCorrection p' = Obs.phaseCorrection p ∧
    Obs.debugTypes p' = Obs.debugTypes p ∧ Obs.debugValues p' = Obs.debugValues p ∧
    Obs.isForceFan p' = Obs.isForceFan p ∧ p'.readsFpgaState = p.readsFpgaState ∧ p'.portA = p.portA ∧
    Obs.currentModSeg p' = Obs.currentModSeg p ∧ Obs.currentStmSeg p' = Obs.currentStmSeg p ∧
    p'.modSwap.state = p.modSwap.state ∧ p'.modSwap.stop = p.modSwap.stop ∧
    p'.stmSwap.state = p.stmSwap.state ∧ p'.stmSwap.stop = p.stmSwap.stop := by
  refine ⟨?_, by rw [a.reqModSeg, b.reqModSeg], by rw [a.reqStmSeg, b.reqStmSeg],
    by rw [a.stmTransition, b.stmTransition], by rw [a.silRate, b.silRate], by rw [a.silSteps, b.silSteps],
    by rw [a.silFixed, b.silFixed], by rw [a.strict, b.strict], by rw [a.pwe, b.pwe],
    by rw [a.phaseCorr, b.phaseCorr, hn], by rw [a.debugTypes, b.debugTypes], by rw [a.debugValues, b.debugValues],
    by rw [a.forceFan, b.forceFan], by rw [a.reads, b.reads], by rw [a.portA, b.portA],
    by rw [a.curMod, b.curMod], by rw [a.curStm, b.curStm],
    by rw [a.modLoop.1, b.modLoop.1], by rw [a.modLoop.2, b.modLoop.2],
    by rw [a.stmLoop.1, b.stmLoop.1], by rw [a.stmLoop.2, b.stmLoop.2]⟩
  intro seg hseg
  exact ⟨by rw [a.modBuffer seg hseg, b.modBuffer seg hseg], by rw [a.modDiv seg hseg, b.modDiv seg hseg],
    by rw [a.modCycle seg hseg, b.modCycle seg hseg], by rw [a.modRep seg hseg, b.modRep seg hseg],
    by rw [a.stmGain seg hseg, b.stmGain seg hseg], by rw [a.stmDiv seg hseg, b.stmDiv seg hseg],
    by rw [a.stmCycle seg hseg, b.stmCycle seg hseg], by rw [a.stmRep seg hseg, b.stmRep seg hseg],
    by rw [a.drives seg hseg, b.drives seg hseg, hn]⟩

/-! ## non-vacuity -/

/-- a concrete, non-trivial state satisfying `WF`: mid-history values everywhere the invariant speaks -/
example : WF { numTr := 249, portA := 5, readsFpgaState := true, flagsInternal := 0x2100, modCycle := 40000,
               modSegment := 1, stmSegment := 1, strict := false,
               modSwap := { cur := 1, req := 1, state := .finiteLoop, rep := 3, freqDiv := (5120, 10), cycle := (100, 3), stop := true },
               stmSwap := { cur := 1, extMode := true, state := .infiniteLoop, freqDiv := (40, 40), cycle := (2, 7) } } := by
  exact { ctl := by simp, phaseCorr := by simp, pwe := by simp, modMem0 := by simp, modMem1 := by simp,
          stmMem0 := by simp, stmMem1 := by simp, numTr := by decide, modSwap := by simp [SwapWF],
          stmSwap := by simp [SwapWF], flags := ⟨by decide, by decide⟩ }

/-- the hypotheses of the modulation theorems are satisfiable: the default-constructed device accepts a
two-sample single-frame modulation (BEGIN|END, no transition, segment 0, divider 0xFFFF) -/
example : ∃ (s s' : State) (d : Array Nat), WF s ∧
    hasFlag (u8at d FwLayout.ModulationHead_flag_off) Cpu.MODULATION_FLAG_BEGIN = true ∧
    hasFlag (u8at d FwLayout.ModulationHead_flag_off) Cpu.MODULATION_FLAG_END = true ∧
    1 ≤ u8at d FwLayout.ModulationHead_size_off ∧ writeMod s d = .ok (s', Cpu.NO_ERR) := by
  have hw : WF ({} : State) := by
    exact { ctl := by simp, phaseCorr := by simp, pwe := by simp, modMem0 := by simp, modMem1 := by simp,
            stmMem0 := by simp, stmMem1 := by simp, numTr := by decide, modSwap := by simp [SwapWF],
            stmSwap := by simp [SwapWF], flags := ⟨by decide, by decide⟩ }
  refine ⟨{}, modTailState (modBeginRes {} #[0x10, 0x03, 2, 0xFE, 0xFF, 0xFF, 0xFF, 0xFF, 0, 0, 0, 0, 0, 0, 0, 0, 0xAA, 0xBB]) #[0x10, 0x03, 2, 0xFE, 0xFF, 0xFF, 0xFF, 0xFF, 0, 0, 0, 0, 0, 0, 0, 0, 0xAA, 0xBB],
    #[0x10, 0x03, 2, 0xFE, 0xFF, 0xFF, 0xFF, 0xFF, 0, 0, 0, 0, 0, 0, 0, 0, 0xAA, 0xBB], hw,
    by decide, by decide, by decide, ?_⟩
  rw [writeMod_begin _ _ hw.toSized (by decide) (by decide) (by decide), modTail_eq]
  have e1 : hasFlag (u8at #[0x10, 0x03, 2, 0xFE, 0xFF, 0xFF, 0xFF, 0xFF, 0, 0, 0, 0, 0, 0, 0, 0, 0xAA, 0xBB]
      FwLayout.ModulationHead_flag_off) Cpu.MODULATION_FLAG_END = true := by decide
  have e2 : hasFlag (u8at #[0x10, 0x03, 2, 0xFE, 0xFF, 0xFF, 0xFF, 0xFF, 0, 0, 0, 0, 0, 0, 0, 0, 0xAA, 0xBB]
      FwLayout.ModulationHead_flag_off) Cpu.MODULATION_FLAG_UPDATE = false := by decide
  simp only [e1, e2, if_true, Bool.false_eq_true, if_false]

end Autd3.C02
