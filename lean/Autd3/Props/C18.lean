import Autd3.Lemmas.PbCodec
import Autd3.Lemmas.PbCodecF32
/-!
# C18 — remote-link encoding is lossless and refuses malformed messages

Property theorems only (helpers: `Lemmas/PbCodec.lean`).  The model is `Model/PbCodec.lean` (mirror of
the `autd3-protobuf` conversions for `TxRawData`, `RxMessage`, `Geometry` and of the way
`autd3-link-simulator` uses them, **as repaired** by fix-1 and fix-2); element sizes are the generated
`Gen.PbCodec.TX_MESSAGE_SIZE` / `RX_MESSAGE_SIZE`.  It is tied to the Rust code by the `pbcodec`
stream.  Everything is stated for every frame count, every byte value (indeed every `Nat`), every
declared count and every data length — no bound 64 / 16 as in the sampled quantifier.
-/
namespace Autd3.PbCodec
open Autd3.Gen.PbCodec

/-! ## Frames -/

/-- **Frames → message → frames is the identity**, for every number of frames (below the `u32` range
of the count field) and arbitrary frame bytes. -/
theorem tx_roundtrip (frames : List (List Nat))
    (hsize : ∀ f ∈ frames, f.length = TX_MESSAGE_SIZE) (hn : frames.length < 4294967296) :
    decodeTx (encodeTx frames) = .ok frames := by
  have hlen := length_flatten_of_uniform TX_MESSAGE_SIZE frames hsize
  unfold decodeTx encodeTx asBytes
  simp only [Nat.mod_eq_of_lt hn, ne_eq]
  rw [← hlen, copy_full _ _ (by simp)]
  simp only [hlen]
  exact congrArg Except.ok (chunks_flatten TX_MESSAGE_SIZE frames hsize)

/-- **Message → frames → message is the identity** on every well-formed message: decoding succeeds,
yields exactly `n` frames of `TX_MESSAGE_SIZE` bytes, and re-encoding gives the same bytes and the
same count. -/
theorem tx_roundtrip_msg (msg : TxRawData)
    (hlen : msg.data.length = msg.n * TX_MESSAGE_SIZE) (hn : msg.n < 4294967296) :
    ∃ frames, decodeTx msg = .ok frames ∧ encodeTx frames = msg ∧
      frames.length = msg.n ∧ ∀ f ∈ frames, f.length = TX_MESSAGE_SIZE := by
  obtain ⟨h1, h2, h3⟩ := flatten_chunks TX_MESSAGE_SIZE msg.n msg.data hlen
  refine ⟨chunks TX_MESSAGE_SIZE msg.n msg.data, ?_, ?_, h2, h3⟩
  · unfold decodeTx
    simp only [hlen, ne_eq, not_true_eq_false, if_false]
    rw [← hlen, copy_full _ _ (by simp [hlen])]
  · unfold encodeTx asBytes
    rw [h1, h2, Nat.mod_eq_of_lt hn]

/-- **Every mismatch between declared count and byte count is refused** with `DataParseError`
(all `(n, length)` pairs, not a window). -/
theorem tx_rejects_mismatch (msg : TxRawData) (h : msg.data.length ≠ msg.n * TX_MESSAGE_SIZE) :
    decodeTx msg = .error .dataParseError := by
  unfold decodeTx
  simp only [ne_eq, ite_not]
  rw [if_neg (fun e => h e.symm)]

/-- in particular a byte count that is not a whole number of frames is refused whatever `n` says -/
theorem tx_rejects_partial_frame (msg : TxRawData) (h : msg.data.length % TX_MESSAGE_SIZE ≠ 0) :
    decodeTx msg = .error .dataParseError := by
  apply tx_rejects_mismatch
  intro e
  rw [e, Nat.mul_mod_left] at h
  exact h rfl

/-! ## Acknowledgements -/

/-- **Acknowledgements → message → acknowledgements is the identity**, any number of devices. -/
theorem rx_roundtrip (rx : List Rx) : decodeRx (encodeRx rx) = .ok rx := by
  unfold decodeRx refFromBytes
  have : (encodeRx rx).length % RX_MESSAGE_SIZE = 0 := by
    rw [length_encodeRx]; exact Nat.mul_mod_right 2 _
  simp only [this, ne_eq, not_true_eq_false, if_false, rxOfBytes_encodeRx]

/-- **Message → acknowledgements → message is the identity** on every even-length payload. -/
theorem rx_roundtrip_msg (data : List Nat) (h : data.length % RX_MESSAGE_SIZE = 0) :
    ∃ rx, decodeRx data = .ok rx ∧ encodeRx rx = data ∧ RX_MESSAGE_SIZE * rx.length = data.length := by
  have h2 : data.length = 2 * (data.length / 2) := by
    have : data.length % 2 = 0 := h
    omega
  obtain ⟨h3, h4⟩ := encodeRx_rxOfBytes (data.length / 2) data h2
  refine ⟨rxOfBytes data, ?_, h3, ?_⟩
  · unfold decodeRx refFromBytes
    simp only [h, ne_eq, not_true_eq_false, if_false]
  · rw [h4]; exact h2.symm

/-- **A payload that is not a whole number of acknowledgements (odd length) is refused.** -/
theorem rx_rejects_odd (data : List Nat) (h : data.length % RX_MESSAGE_SIZE ≠ 0) :
    decodeRx data = .error .dataParseError := by
  unfold decodeRx refFromBytes
  simp only [h, ne_eq, not_false_eq_true, if_true]

/-! ## No panic, no access outside the buffers -/

/-- the model's raw copy reports **exactly** the calls that would touch memory outside the source or
the destination buffer (so "never `copyOutOfBounds`" below means "never reads or writes outside") -/
theorem copy_flags_exactly_out_of_bounds (src dst : List Nat) (count : Nat) :
    (∃ p, copyNonoverlapping src dst count = .error p) ↔ ¬ (count ≤ src.length ∧ count ≤ dst.length) := by
  unfold copyNonoverlapping
  by_cases h : count ≤ src.length ∧ count ≤ dst.length
  · simp [h]
  · simp [h]

/-- **Decoding is total and memory-safe**: for every message whatsoever (any count, any bytes, any
length) neither decoder panics nor copies outside the buffer sized from the count field; a successful
frame decode fills exactly the `n · TX_MESSAGE_SIZE` bytes of that buffer. -/
theorem decode_total (msg : TxRawData) (data : List Nat) :
    (∀ p, decodeTx msg ≠ .error (.panic p)) ∧
    (∀ p, decodeRx data ≠ .error (.panic p)) ∧
    (∀ frames, decodeTx msg = .ok frames →
      frames.length = msg.n ∧ (asBytes frames).length = msg.n * TX_MESSAGE_SIZE) := by
  refine ⟨?_, ?_, ?_⟩
  · intro p
    by_cases h : msg.data.length = msg.n * TX_MESSAGE_SIZE
    · unfold decodeTx
      simp only [h, ne_eq, not_true_eq_false, if_false]
      rw [← h, copy_full _ _ (by simp [h])]
      intro e; cases e
    · rw [tx_rejects_mismatch msg h]; intro e; cases e
  · intro p
    unfold decodeRx
    split <;> (intro e; cases e)
  · intro frames hd
    by_cases h : msg.data.length = msg.n * TX_MESSAGE_SIZE
    · obtain ⟨h1, h2, _⟩ := flatten_chunks TX_MESSAGE_SIZE msg.n msg.data h
      unfold decodeTx at hd
      simp only [h, ne_eq, not_true_eq_false, if_false] at hd
      rw [← h, copy_full _ _ (by simp [h])] at hd
      cases hd
      exact ⟨h2, by unfold asBytes; rw [h1, h]⟩
    · rw [tx_rejects_mismatch msg h] at hd; cases hd

/-- **The simulator link's `receive` never panics** on any reply: a malformed reply is an error, a
reply for a different number of devices leaves `rx` untouched and reports `false`, and only a reply of
exactly `rx.len()` acknowledgements is copied (so `copy_from_slice` cannot fail). -/
theorem link_receive_total (rx : List Rx) (msg : List Nat) :
    (∀ p, linkReceive rx msg ≠ .error (.panic p)) ∧
    (∀ out ok, linkReceive rx msg = .ok (out, ok) →
      out.length = rx.length ∧ (ok = true ↔ msg.length = RX_MESSAGE_SIZE * rx.length) ∧
      (ok = true → encodeRx out = msg) ∧ (ok = false → out = rx)) := by
  by_cases h : msg.length % RX_MESSAGE_SIZE = 0
  · obtain ⟨rx', hd, henc, hl⟩ := rx_roundtrip_msg msg h
    unfold linkReceive
    rw [hd]
    by_cases hlen : rx.length = rx'.length
    · simp only [hlen, copyFromSlice, if_true]
      refine ⟨fun p e => (by cases e), ?_⟩
      intro out ok e
      cases e
      exact ⟨rfl, (by simp [← hl]), fun _ => henc, fun e => (by cases e)⟩
    · simp only [hlen, if_false]
      refine ⟨fun p e => (by cases e), ?_⟩
      intro out ok e
      cases e
      refine ⟨rfl, ?_, fun e => (by cases e), fun _ => rfl⟩
      constructor
      · intro e; cases e
      · intro e; rw [← hl] at e
        have h2 : (2 : Nat) = RX_MESSAGE_SIZE := rfl
        have : rx'.length = rx.length := by
          have := e; rw [← h2] at this; omega
        exact absurd this.symm hlen
  · unfold linkReceive
    rw [rx_rejects_odd msg h]
    exact ⟨fun p e => (by cases e), fun out ok e => (by cases e)⟩

/-! ## Geometry -/

/-- **Geometry → message → geometry, exactly what is preserved**, for every number of devices and
every bit pattern: the device count; every sound speed bit for bit; the quaternion components are
moved unchanged into the message (`w,i,j,k ↦ w,x,y,z`) and back, the only change being nalgebra's
re-normalisation `normalize`; the position is moved unchanged and re-enters the device as
`translation + rotation·origin`. -/
theorem geometry_roundtrip (g : List Pose) :
    decodeGeometry (encodeGeometry g) = .ok (g.map roundTripPose) ∧
    (g.map roundTripPose).length = g.length ∧
    (g.map roundTripPose).map (·.soundSpeed) = g.map (·.soundSpeed) := by
  refine ⟨?_, by simp, ?_⟩
  · unfold decodeGeometry encodeGeometry
    rw [List.map_map]
    rfl
  · rw [List.map_map]; rfl

/-- **Positions and sound speeds come back bit for bit**: for every device whose re-normalised
rotation is finite and whose position has no NaN / `-0.0` coordinate (every pose a user can build from
finite numbers, since `AUTD3 → Device` already turns `-0.0` into `+0.0`), whatever the rotation does. -/
theorem geometry_roundtrip_position (d : Pose)
    (hq : QFinite (normalize (quatToMsg d.rot))) (hp : PlainV3 d.pos) :
    (roundTripPose d).pos = d.pos ∧ (roundTripPose d).soundSpeed = d.soundSpeed :=
  ⟨firstTransducer_eq d.pos _ hq hp, rfl⟩

/- FULL CLAUSE, NOT PROVED (residue): "for every geometry whose rotations are unit quaternions as nalgebra
   produces them (| ‖q‖ − 1 | a few 2^-24) the round trip returns the same poses": bit for bit this is
   FALSE (counterexample below: the quarter turn about x comes back one ulp off), and the true statement
   "every component of `normalize q` is within 2^-22 of the component of `q`" needs a floating-point
   error analysis of 4 mul, 3 add, sqrt, 4 div that is not done here. The oracle of the `pbcodec` stream
   checks that bound on every generated rotation and prints the drift histogram (about 75 % bit-identical,
   24 % one ulp, 1 % two ulp in a component). What IS proved: the exact data path (`geometry_roundtrip`),
   positions and sound speeds bit for bit (`geometry_roundtrip_position`), and identity on `Stable`
   poses (`geometry_roundtrip_exact_partial`). -/

/-- **Geometry round trip is the identity, bit for bit**, on every geometry all of whose poses are
`Stable` (the rotation is a fixpoint of nalgebra's normalisation; no `-0.0`/NaN coordinate). -/
theorem geometry_roundtrip_exact_partial (g : List Pose) (h : ∀ d ∈ g, Stable d) :
    decodeGeometry (encodeGeometry g) = .ok g := by
  rw [(geometry_roundtrip g).1]
  congr 1
  conv => rhs; rw [← List.map_id g]
  apply List.map_congr_left
  intro d hd
  obtain ⟨h1, h2, h3⟩ := h d hd
  cases d with
  | mk pos rot ss =>
    simp only [roundTripPose, id] at *
    rw [h1, firstTransducer_eq pos rot h2 h3]

/-- **Missing optional fields decode to the documented defaults** (origin, identity rotation, the
device's default sound speed) and never to an error. -/
theorem geometry_decode_defaults :
    decodeGeometry [⟨none, none, none⟩] =
      .ok [⟨⟨0, 0, 0⟩, quatIdentity, DEFAULT_SOUND_SPEED_BITS⟩] := by
  decide +kernel

/-! ## Non-vacuity: concrete, non-trivial instances of the hypotheses -/

/-- two frames with distinct non-zero bytes -/
example : decodeTx (encodeTx [List.replicate 626 7, (List.range 626).map (· % 251)])
    = .ok [List.replicate 626 7, (List.range 626).map (· % 251)] := by decide +kernel
/-- the F14 witnesses: one frame declared, 627 / 625 / 1252 / 0 bytes supplied; zero declared, one byte -/
example : decodeTx ⟨List.replicate 627 1, 1⟩ = .error .dataParseError := by decide +kernel
example : decodeTx ⟨List.replicate 625 1, 1⟩ = .error .dataParseError := by decide +kernel
example : decodeTx ⟨List.replicate 1252 1, 1⟩ = .error .dataParseError := by decide +kernel
example : decodeTx ⟨[], 1⟩ = .error .dataParseError := by decide +kernel
example : decodeTx ⟨[9], 0⟩ = .error .dataParseError := by decide +kernel
example : decodeTx ⟨[], 0⟩ = .ok [] := by decide +kernel
/-- without the length check the very same call is the out-of-bounds copy -/
example : copyNonoverlapping (List.replicate 627 1) (List.replicate 626 0) 627 = .error .copyOutOfBounds := by
  decide +kernel
example : decodeRx [1, 2, 3] = .error .dataParseError := by decide +kernel
example : decodeRx [1, 2, 3, 4] = .ok [⟨1, 2⟩, ⟨3, 4⟩] := by decide +kernel
example : linkReceive [⟨0, 0⟩, ⟨0, 0⟩] [1, 2, 3, 4] = .ok ([⟨1, 2⟩, ⟨3, 4⟩], true) := by decide +kernel
example : linkReceive [⟨0, 0⟩] [1, 2, 3, 4] = .ok ([⟨0, 0⟩], false) := by decide +kernel
/-- stable poses exist and are not only the identity: rotation by 120° about (1,1,1)
(`w=i=j=k=0.5`), position (1.5, -2.25, 1e-3), sound speed 340000 -/
example : Stable ⟨⟨0x3fc00000, 0xc0100000, 0x3a83126f⟩, ⟨0x3f000000, 0x3f000000, 0x3f000000, 0x3f000000⟩, 0x48a60400⟩ := by
  decide +kernel
example : Stable ⟨⟨0, 0, 0⟩, quatIdentity, 0x48a60400⟩ := by decide +kernel
/-- and an unstable one: `-0.0` in the position comes back as `+0.0` (equal as a number) -/
example : ¬ Stable ⟨⟨0x80000000, 0, 0⟩, quatIdentity, 0⟩ := by decide +kernel
example : (roundTripPose ⟨⟨0x80000000, 0x3f800000, 0⟩, quatIdentity, 7⟩).pos = ⟨0, 0x3f800000, 0⟩ := by decide +kernel
/-- the hypothesis of `geometry_roundtrip_exact_partial` cannot be dropped: the quarter turn about x as nalgebra
builds it, `(√½, √½, 0, 0)` = `0x3f3504f3` twice, is re-normalised to `0x3f3504f4` twice (one ulp up),
because `fl(√½)² + fl(√½)²` rounds to a number below 1. "Same pose" holds up to that rounding only. -/
example : normalize (quatToMsg ⟨0x3f3504f3, 0x3f3504f3, 0, 0⟩) = ⟨0x3f3504f4, 0x3f3504f4, 0, 0⟩ := by
  decide +kernel
/-- `geometry_roundtrip_position` applies to it all the same (finite after re-normalisation) -/
example : QFinite (normalize (quatToMsg ⟨0x3f3504f3, 0x3f3504f3, 0, 0⟩)) ∧ PlainV3 ⟨0x42f60000, 0xc1200000, 0⟩ := by
  decide +kernel

end Autd3.PbCodec
