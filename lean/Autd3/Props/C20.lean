import Autd3.Lemmas.Lightweight
/-!
# C20 — the lightweight remote protocol delivers the datagram the client built

Property theorems only (helpers: `Lemmas/Lightweight.lean`).  The model is `Model/Lightweight.lean`: a datagram AST
(`Dg`, every kind of the quantifier with every option field), a message AST mirroring the prost structs (every
`optional` field an `Option`), the client conversions (`toMsg`, `clientSend`) and the server conversions
(`fromMsg`, `intoBoxedDatagram`, `serverSend`, `serverGroup`), written field by field after
`autd3-protobuf/src/traits/**` and `lightweight/{client.rs, server/*.rs}` **with the repairs of this check applied**
(flag-vector length test, `u16::try_from` for `FixedUpdateRate`, no renormalisation of unit vectors, completion
times the message cannot carry are refused by the client, the client entry point takes the geometry and returns a
`Result`).  The same definitions are run by the `lw` correspondence stream (`Drv/C20.lean`).

Vocabulary (lemma file):
* `d.WF n` — the invariants of the Rust types of the datagram `d` (a `u8` is below 256, a `NonZeroU16` in 1..65535,
  a `FociSTM<N, _>` has `N ∈ 1..8` points in each of its ≥ 1 entries, `GainSTMMode` ∈ 0..2, a `GPIOIn` ∈ 0..3, the
  flag vector of `ForceFan`/`ReadsFPGAState` is the closure tabulated over the `n` devices), plus the one genuine
  restriction: a `Duration` that goes through `as_nanos() as u64` (sampling period, sender intervals) is below
  2^64 ns = 584 years.
* `m.Valid n` — what a message has to look like to be accepted: every required field present, every number in the
  range of the Rust type it is converted to, every enum value known, `FociSTM` entries of one size 1..8, one flag
  per device.
* `NoPanic x` — `x ≠ .error .panic`; `panic` is what the model returns where the Rust code would abort
  (`map[dev.idx()]` out of range).
* `Defaults` — the SDK's `Default` values the server substitutes for absent optional fields: a *parameter*; every
  theorem holds for every value of it.

Floats travel as bit patterns (the conversions only wrap and unwrap them), so equality below is structural.
-/
namespace Autd3.Lw

/-! ## The datagram arrives unchanged -/

/-- **Round trip** (`lightweight_roundtrip`): for every datagram of the quantifier — every gain incl. the five
holographic ones with every option and constraint, every modulation in every sampling mode with every option field,
the three silencers, the four `SwapSegment`s, `FociSTM<N>` for every `N` and size, `GainSTM` over any gains,
`Clear`/`Synchronize`/`ForceFan`/`ReadsFPGAState`, `WithSegment`/`WithLoopBehavior` over every admissible inner
datagram with every transition mode and loop behaviour — and for **every value of every field**: whenever the
client-side conversion produces a message, the server rebuilds exactly the datagram the client held, whatever the
SDK's defaults are. -/
theorem lightweight_roundtrip (D : Defaults) (n : Nat) (d : Dg) (hw : d.WF n) (m : MDatagram)
    (hm : d.toMsg = .ok m) : Dg.fromMsg D n m = .ok d :=
  Dg.roundtrip D n d hw m hm

/-- the client conversion is total except for one case, and then it *refuses* (no panic, no rounding):
a `Silencer<FixedCompletionTime>` whose completion time is not a whole number of microseconds below 2^32 µs
— a time no device accepts when sent directly either (it is not a multiple of the 25 µs ultrasound period / is out
of range). -/
theorem toMsg_refuses_only_uncarriable_time (d : Dg) :
    (∃ m, d.toMsg = .ok m) ∨
      (d.toMsg = .error .driver ∧ ∃ i p s, d = .silencer (.time i p s) ∧ ¬ (timeRepresentable i ∧ timeRepresentable p)) := by
  cases d with
  | silencer s =>
    cases s with
    | time i p st =>
      by_cases h : timeRepresentable i ∧ timeRepresentable p
      · left; simp [Dg.toMsg, Silencer.toMsg, h.1, h.2]
      · right
        refine ⟨?_, i, p, st, rfl, h⟩
        have : (timeRepresentable i && timeRepresentable p) = false := by
          cases hi : timeRepresentable i <;> cases hp : timeRepresentable p <;> simp_all
        simp [Dg.toMsg, Silencer.toMsg, this]
    | rate i p => left; simp [Dg.toMsg, Silencer.toMsg]
    | steps i p st => left; simp [Dg.toMsg, Silencer.toMsg]
  | _ => left; simp [Dg.toMsg]

/-- two different datagrams never share a message (no field is dropped or defaulted on the way out) -/
theorem toMsg_injective (n : Nat) (d₁ d₂ : Dg) (h₁ : d₁.WF n) (h₂ : d₂.WF n) (m : MDatagram)
    (e₁ : d₁.toMsg = .ok m) (e₂ : d₂.toMsg = .ok m) : d₁ = d₂ := by
  have r₁ := Dg.roundtrip Defaults.sdk n d₁ h₁ m e₁
  have r₂ := Dg.roundtrip Defaults.sdk n d₂ h₂ m e₂
  rw [r₁] at r₂
  exact Except.ok.inj r₂

/-- **Send, alone or as a pair, with or without sender options** (`send_roundtrip`): the request built by the
client's `Controller::send` / `Sender::send` is parsed by `LightweightServer::send` into the very tuple and sender
option the client held, and generating the operations for every device then succeeds (the per-device closures of
`ForceFan`/`ReadsFPGAState` are defined on every device). A single datagram arrives as `(d, NullDatagram)`. -/
theorem send_roundtrip (D : Defaults) (n : Nat) (t : Tuple) (o : Option SenderOpt) (ht : t.WF n)
    (ho : ∀ x, o = some x → x.WF) (req : MSendReq) (hreq : clientSend t o = .ok req) :
    serve D n req = .ok (t, o) := by
  simp only [clientSend, bind_eq_ok] at hreq
  obtain ⟨m, hm, hreq⟩ := hreq
  simp at hreq; subst hreq
  have h1 := Tuple.roundtrip D n t ht m hm
  have hf : t.flagsOk n := Tuple.fromMsg_flagsOk D n m t h1
  have hs : serverSend D n ⟨some m, o.map SenderOpt.toMsg⟩ = .ok (t, o) := by
    cases o with
    | none => simp [serverSend, okOr, h1]
    | some x => simp [serverSend, okOr, h1, SenderOpt.roundtrip x (ho x rfl)]
  simp [serve, hs, generateAll_ok n t hf n (Nat.le_refl n)]

/-- the sender option alone: every field (intervals, timeout incl. `None`, parallel mode, the three sleepers with
their parameters) comes back as sent -/
theorem sender_option_roundtrip (o : SenderOpt) (h : o.WF) : SenderOpt.fromMsg o.toMsg = .ok o :=
  SenderOpt.roundtrip o h

/-- **group_send**: the server hands its controller exactly the key vector (`-1 ↦ None`, `k ↦ Some(k)`), the
datagram tuples and the sender option of the request; the tuple it selects for device `idx` is the one the key of
that device points to. -/
theorem group_send_roundtrip (D : Defaults) (n : Nat) (keys : List Int) (ts : List Tuple) (ms : List MTuple)
    (o : Option SenderOpt) (hw : ∀ t ∈ ts, t.WF n) (ho : ∀ x, o = some x → x.WF)
    (hm : mapR Tuple.toMsg ts = .ok ms) (hk : keys.length = n) :
    serverGroup D n ⟨keys, ms, o.map SenderOpt.toMsg⟩ = .ok (.go (keys.map decodeKey) ts o) ∧
      ∀ idx, idx < n → ∀ (hi : idx < keys.length),
        serverSelect (keys.map decodeKey) ts idx = (if keys[idx] < 0 then none else ts[keys[idx].toNat]?) :=
  ⟨serverGroup_roundtrip D n keys ts ms o hw ho hm hk, fun idx _ hi => serverSelect_spec keys ts idx hi⟩

/-- a key vector whose length is not the number of devices is answered with the length error (never indexed) -/
theorem group_send_key_length (D : Defaults) (n : Nat) (req : MGroupReq) (ds : List Tuple)
    (hd : mapR (Tuple.fromMsg D n) req.datagrams = .ok ds) (hk : req.keys.length ≠ n) :
    serverGroup D n req = .ok .lengthMismatch :=
  serverGroup_length D n req ds hd hk

/-! ## Malformed messages are answered with an error, never a panic -/

/-- **Totality** (`fromMsg_total`): for *every* request — any field missing, any number, any list lengths — parsing
it and then generating the operations for every device does not abort. (The only aborting operation of the
conversions, `map[dev.idx()]` of a rebuilt `ForceFan`/`ReadsFPGAState`, is guarded by the length test.) -/
theorem fromMsg_total (D : Defaults) (n : Nat) (req : MSendReq) : NoPanic (serve D n req) :=
  serve_noPanic D n req

/-- the same for `group_send` -/
theorem group_send_total (D : Defaults) (n : Nat) (req : MGroupReq) : NoPanic (serverGroup D n req) :=
  serverGroup_noPanic D n req

/-- **Missing required field / out-of-range number ⇒ error** (`missing_required_is_error`, one statement for every
required field and every ranged number): a request the server accepts is `Valid` — every required field is present
(datagram, `oneof`s, positions, directions, option structs, sampling configuration, transition mode of a
`SwapSegment`, loop behaviour, sleeper, …), every number fits the Rust type it is converted to (`u8` intensities
and phases, non-zero `u16` divisions/steps/rates/repetitions, non-zero `repeat`/`k_max`/`phase_div`), every enum
value is known (segment, GPIO pin, GainSTM mode, parallel mode, spin strategy), FociSTM entries have one size in
1..8, flag vectors have one entry per device, and the sleeper is available on this platform. -/
theorem accepted_is_valid (D : Defaults) (n : Nat) (req : MSendReq) (r : Tuple × Option SenderOpt)
    (h : serverSend D n req = .ok r) : req.Valid n :=
  serverSend_valid h

/-- the contrapositive, with the no-panic clause: an invalid request is answered with an error that is not a panic -/
theorem invalid_is_error (D : Defaults) (n : Nat) (req : MSendReq) (h : ¬ req.Valid n) :
    ∃ e, serve D n req = .error e ∧ e ≠ .panic := by
  cases hs : serverSend D n req with
  | ok r => exact absurd (serverSend_valid hs) h
  | error e =>
    refine ⟨e, by simp [serve, hs], ?_⟩
    intro he; subst he
    exact (serverSend_noPanic D n req).ne hs

/-- **Absent optional field ≡ default** (`absent_optional_is_default`): writing the SDK default into every absent
optional field of a message (`fill`: gain/modulation option fields, holo constraint/repeat/eps/tau/k_max/phase_div,
silencer steps/times/strict mode, focus phase offsets and intensities, GainSTM mode) changes nothing — the server
substitutes exactly the SDK's `Default` value, for whatever values the SDK defines (`D.WF`: they are values of
their Rust types). An absent transition mode of a wrapper stays `None`, an absent second datagram `NullDatagram`. -/
theorem absent_optional_is_default (D : Defaults) (hD : D.WF) (n : Nat) (m : MTuple) :
    Tuple.fromMsg D n (m.fill D) = Tuple.fromMsg D n m :=
  Tuple.fill_eq D hD n m

/-! ## Dispatch -/

/-- **Dispatch** (`dispatch_correct`): the constructor the server builds is the one the message names — the
datagram variant, the gain / modulation variant inside it (also inside `WithSegment`, `WithLoopBehavior` and for
every element of a `GainSTM`), `FociSTM<N>` with `N` the number of points of the first entry, the silencer and
swap kinds. -/
theorem dispatch_correct (D : Defaults) (n : Nat) (m : MDatagram) (d : Dg) (h : Dg.fromMsg D n m = .ok d) :
    m.datagram.bind MDatagramV.kind = some d.kind := by
  simp only [Dg.fromMsg, bind_eq_ok, okOr_eq_ok] at h
  obtain ⟨v, hv, h⟩ := h
  simp [hv, intoBoxedDatagram_kind h]

/-! ## Non-vacuity: concrete instances of the hypotheses, and witnesses that they are needed -/

/-- a pair of wrapped datagrams with every option field off its default -/
def exTuple : Tuple :=
  .two
    (.withLoop (.modulation (.sineNearest 0x43160000 ⟨200, 100, 0x3FC90FDB, true, .periodNearest 250777⟩))
      (.finite 7) 1 (some (.gpio 3)))
    (.withSegment (.foci ⟨2, [⟨[⟨⟨1, 2, 3⟩, 4⟩, ⟨⟨5, 6, 7⟩, 255⟩], 9⟩, ⟨[⟨⟨8, 9, 10⟩, 0⟩, ⟨⟨11, 12, 13⟩, 1⟩], 255⟩], .division 5⟩)
      0 (some (.sysTime 123456789)))

example : exTuple.WF 2 := by
  simp [exTuple, Tuple.WF, Dg.WF, LoopInner.WF, SegInner.WF, Modulation.WF, SineOpt.WF, SamplingCfg.WF, Loop.WF,
    optTrWF, Transition.WF, FociStm.WF, ControlPoints.WF, ControlPoint.WF]

example : (SenderOpt.mk 1000 2000 (some 0) 2 (.spin 125000 1)).WF := by
  simp [SenderOpt.WF, Sleeper.WF]

/-- the model on the witness: the server rebuilds it (here with the SDK's current defaults) -/
example : (do let req ← clientSend exTuple (some ⟨1000, 2000, some 0, 2, .spin 125000 1⟩); serve Defaults.sdk 2 req)
    = .ok (exTuple, some ⟨1000, 2000, some 0, 2, .spin 125000 1⟩) := by decide +kernel

example : (Dg.gainStm ⟨[.lm [(⟨1, 2, 3⟩, 4)] (.clamp 3 200) 5 6 7 8 [9, 10], .greedy [] (.uniform 7) 255, .null], .freqNearest 99, 2⟩).WF 3 := by
  simp [Dg.WF, GainStm.WF, Gain.WF, Constraint.WF, SamplingCfg.WF]

example : Defaults.sdk.WF := Defaults.sdk_WF

/-- a required field missing: `Focus` without its position -/
example : serve Defaults.sdk 1 ⟨some ⟨some ⟨some (.gain ⟨some (.focus none (some ⟨none, none⟩))⟩)⟩, none⟩, none⟩
    = .error .parse := by decide +kernel
/-- an out-of-range number: `FixedUpdateRate` 65537 (used to wrap to 1) -/
example : serve Defaults.sdk 1 ⟨some ⟨some ⟨some (.silencer ⟨some (.rate 65537 3)⟩)⟩, none⟩, none⟩
    = .error .int := by decide +kernel
/-- a flag vector shorter than the device list (used to panic) -/
example : serve Defaults.sdk 2 ⟨some ⟨some ⟨some (.forceFan [true])⟩, none⟩, none⟩ = .error .parse := by decide +kernel
/-- an absent optional field is not an error: the default is substituted -/
example : serve Defaults.sdk 1 ⟨some ⟨some ⟨some (.gain ⟨some (.focus (some ⟨1, 2, 3⟩) (some ⟨none, some 7⟩))⟩)⟩, none⟩, none⟩
    = .ok (.one (.gain (.focus ⟨1, 2, 3⟩ ⟨255, 7⟩)), none) := by decide +kernel

/-- the `Duration` bound of `WF` is needed: a sampling period of 2^64 ns + 250 µs is truncated by the client's
`as_nanos() as u64` (documented residue: 584 years) -/
example : SamplingCfg.fromMsg (SamplingCfg.period (2^64 + 250000)).toMsg = .ok (.period 250000) := by decide +kernel
/-- a completion time of 25.5 µs is refused by the client (it used to arrive as 25 µs) -/
example : (Dg.silencer (.time 25500 1000000 true)).toMsg = .error .driver := by decide +kernel

end Autd3.Lw
