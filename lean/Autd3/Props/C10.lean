import Autd3.Lemmas.ParPack
import Autd3.Lemmas.HoloFill
/-!
# C10 — parallel and serial execution put identical bytes on the wire (partial)

Property theorems only.  Models: `Model/ParPack.lean` (the zip/filter/zip chain of
`OperationHandler::pack`, task execution in an arbitrary order, the send loop, the parallel
decision, the operation vector of `group_send`), instantiated with `Model/Wire.lean`
(`packOp2`, every `Operation::pack`), and `Model/HoloFill.lean` (the raw-pointer fill of
`generate_propagation_matrix`).  The `parallel` stream runs exactly these definitions
(`pack` with `shuffle` schedules, `sendLoop`, `fill`, `isParallel`, `groupOps`).

**Proved**, for every number of devices, every enable mask, every operation state and every `tx`
content: whatever order the thread pool runs the per-device tasks in, the result of a `pack` call
that succeeds serially is the serial result; hence every frame of a send and the number of frames
are the serial ones; the iterator chain pairs the `k`-th enabled device with its own `tx` slot and
with the `k`-th operation; the pointer ranges of the matrix fill are pairwise disjoint, inside the
allocation and cover it, so that the filled matrix is the one the safe branch builds, in any order.

**Residue** (not carried by a theorem): that each per-device closure reads and writes only the two
cells it borrows (`&mut` exclusivity of the `tx.iter_mut()` / `operations.iter_mut()` items) and that
a data-race-free execution is *some* interleaving of the threads' steps (sequential consistency for
race-free programs) are trusted to `rustc` / the memory model.  Given that, `pack_order_independent`
covers every order of whole closures and `interleaving_independent` every interleaving of finer steps;
for the `unsafe` fill the ownership premise itself is what `holo_fill_*` discharge.  After a `pack` call that *fails*, `rayon`'s `try_for_each`
may have run any subset of the other tasks: which message ids were advanced in the (never sent)
`tx` buffers, and which of several failing devices supplies the error value, then depend on the
schedule (see `pack_error_agreement` and the `example` below it); no frame is sent in that case.
-/
namespace Autd3.ParPack
open Autd3.Wire

/-! ## the iterator chain -/

/-- **zip/filter/zip alignment** (`OperationHandler::pack`): the chain yields, for `j < nOps`, the
`j`-th *enabled* device among the first `nTx`, together with the `tx` slot of the same index and
operation slot `j`; consequently no two items share a `tx` slot or an operation slot, and all
indices are inside their slices. -/
theorem zip_filter_alignment (en : List Bool) (nTx nOps : Nat) :
    (pairing en nTx nOps).map (·.dev) = (devices (en.take nTx)).take nOps ∧
    (∀ t ∈ pairing en nTx nOps, t.tx = t.dev ∧ t.dev < en.length ∧ t.dev < nTx ∧ en[t.dev]? = some true ∧ t.op < nOps) ∧
    (pairing en nTx nOps).map (·.op) = List.range (pairing en nTx nOps).length ∧
    ((pairing en nTx nOps).map (·.tx)).Nodup ∧ ((pairing en nTx nOps).map (·.op)).Nodup := by
  obtain ⟨h1, h2, h3⟩ := pairingFrom_spec en 0 nTx 0 nOps
  have hd := devicesFrom_lt (en.take nTx) 0
  have hlen : (pairing en nTx nOps).length ≤ nOps := by
    have : ((pairing en nTx nOps).map (·.dev)).length ≤ nOps := by
      unfold pairing; rw [h1]; simp [List.length_take]; omega
    simpa using this
  refine ⟨h1, ?_, ?_, ?_, ?_⟩
  · intro t ht
    have hdev : t.dev ∈ (pairing en nTx nOps).map (·.dev) := List.mem_map_of_mem ht
    have htx : t.tx = t.dev := by
      have hmap : (pairing en nTx nOps).map (·.tx) = (pairing en nTx nOps).map (·.dev) := by
        unfold pairing; rw [h1, h2]
      have := List.map_eq_map_iff.mp hmap t ht
      exact this
    unfold pairing at hdev
    rw [h1] at hdev
    have hmem := List.mem_of_mem_take hdev
    obtain ⟨_, hlt, hget⟩ := hd.2 _ hmem
    simp only [Nat.zero_add, Nat.sub_zero, List.length_take] at hlt hget
    have hlt' : t.dev < nTx ∧ t.dev < en.length := by omega
    rw [List.getElem?_take] at hget
    simp only [hlt'.1, if_true] at hget
    have hop : t.op ∈ (pairing en nTx nOps).map (·.op) := List.mem_map_of_mem ht
    unfold pairing at hop
    rw [h3, List.mem_range'_1] at hop
    refine ⟨htx, hlt'.2, hlt'.1, hget, ?_⟩
    unfold pairing at hlen
    omega
  · unfold pairing; rw [h3, List.range_eq_range']
  · unfold pairing; rw [h2]
    exact (hd.1.sublist (List.take_sublist _ _)).imp (fun h => Nat.ne_of_lt h)
  · unfold pairing; rw [h3]; exact List.nodup_range' 1

/-- what `Sender::send` passes: `tx.len()` = number of devices, one operation per enabled device
(`OperationHandler::generate`): every enabled device is served, the `k`-th one by operation `k`. -/
theorem zip_filter_alignment_sender (en : List Bool) (gen : Nat → Op × Op) :
    (pairing en en.length (generate gen en).size).map (·.dev) = devices en ∧
    (pairing en en.length (generate gen en).size).map (·.op) = List.range (numDevices en) := by
  have h := zip_filter_alignment en en.length (generate gen en).size
  have hsize : (generate gen en).size = (devices en).length := by simp [generate]
  have h1 : (pairing en en.length (generate gen en).size).map (·.dev) = devices en := by
    rw [h.1, List.take_length, hsize, List.take_length]
  refine ⟨h1, ?_⟩
  rw [h.2.2.1]
  have : (pairing en en.length (generate gen en).size).length = (devices en).length := by
    rw [← h1]; simp
  rw [this]; rfl

example : pairing [true, false, true, true] 4 3 = [⟨0, 0, 0⟩, ⟨2, 2, 1⟩, ⟨3, 3, 2⟩] := by decide

/-! ## order independence of one `pack` call -/

/-- **pack_order_independent** (general form): tasks that own pairwise different `tx` cells and
pairwise different operation cells, executed in *any* permutation `l₂` of the serial order `l₁`,
leave the same `(operations, tx)` as the serial `try_for_each`, whenever the serial run succeeds.
`step` is arbitrary (it only sees the two cells it is given — this is the type of the closure). -/
theorem pack_order_independent {α β ε : Type} (step : Nat → α → β → α × β × Option ε)
    {l₁ l₂ : List Task} (hp : l₁.Perm l₂)
    (htx : (l₁.map (·.tx)).Nodup) (hop : (l₁.map (·.op)).Nodup) (c c' : Cells α β)
    (h : runTasks step l₁ c = (c', none)) : runTasks step l₂ c = (c', none) :=
  runTasks_perm_ok step hp htx hop c c' h

/-- **pack_order_independent**, instantiated: `OperationHandler::pack` on the `Wire` model
(`pack_op2` of every operation kind) with the thread pool running the device closures in any order
`sched` gives the `(operations, tx)` of the serial branch, for every geometry, enable mask,
operation state and buffer content. -/
theorem pack_schedule_independent (numTr : Nat → Nat) (en : List Bool) (sched : List Task → List Task)
    (hs : ∀ ts, (sched ts).Perm ts) (c c' : Cells Slot Tx)
    (h : pack numTr en id c = (c', none)) : pack numTr en sched c = (c', none) := by
  unfold pack at h ⊢
  obtain ⟨_, _, _, htx, hop⟩ := zip_filter_alignment en c.tx.size c.ops.size
  exact runTasks_perm_ok _ (hs _).symm htx hop c c' h

/-- **failing packs**: a schedule fails iff the serial order fails (so a send aborts at the same
`pack` call in both modes), and the error any schedule returns is the error some device's
`pack_op2` produces on the *initial* content of its own cells. -/
theorem pack_error_agreement (numTr : Nat → Nat) (en : List Bool) (sched : List Task → List Task)
    (hs : ∀ ts, (sched ts).Perm ts) (c : Cells Slot Tx) :
    ((pack numTr en sched c).2.isSome = (pack numTr en id c).2.isSome) ∧
    (∀ c' e, pack numTr en sched c = (c', some e) →
      ∃ t ∈ pairing en c.tx.size c.ops.size, ∃ o x, c.ops[t.op]? = some o ∧ c.tx[t.tx]? = some x ∧
        (devStep numTr t.dev o x).2.2 = some e) := by
  obtain ⟨_, _, _, htx, hop⟩ := zip_filter_alignment en c.tx.size c.ops.size
  have hp := hs (pairing en c.tx.size c.ops.size)
  constructor
  · unfold pack
    rcases h1 : runTasks (devStep numTr) (sched (pairing en c.tx.size c.ops.size)) c with ⟨c1, e1⟩
    rcases h2 : runTasks (devStep numTr) (id (pairing en c.tx.size c.ops.size)) c with ⟨c2, e2⟩
    cases e1 with
    | none =>
      have := runTasks_perm_ok _ hp ((hp.map (·.tx)).symm.nodup htx) ((hp.map (·.op)).symm.nodup hop) c c1 h1
      simp only [id] at h2
      rw [this] at h2
      cases h2; rfl
    | some e1 =>
      cases e2 with
      | some e2 => rfl
      | none =>
        have := runTasks_perm_ok _ hp.symm htx hop c c2 h2
        rw [this] at h1
        cases h1
  · intro c' e h
    unfold pack at h
    obtain ⟨t, ht, rest⟩ := runTasks_error_origin _ _ ((hp.map (·.tx)).symm.nodup htx)
      ((hp.map (·.op)).symm.nodup hop) c c' e h
    exact ⟨t, hp.subset ht, rest⟩

/-- **interleaving_independent**: finer than whole closures.  Let `l` be *any* global sequence of
steps executed by `n` threads (an arbitrary interleaving of the threads' instruction streams), where
thread `k` owns `tx[k]` and an operation cell of its own and every step touches only the cells of
its thread (`step` receives nothing else).  Then the interleaved execution gives the result of the
execution that runs thread 0 to completion, then thread 1, … (`serialise`), whenever that succeeds. -/
theorem interleaving_independent {α β ε : Type} (step : Nat → α → β → α × β × Option ε)
    (n : Nat) (opOf : Nat → Nat) (hinj : ∀ a b, opOf a = opOf b → a = b)
    (l : List Task) (hl : ∀ t ∈ l, t.tx < n ∧ t.op = opOf t.tx) (c c' : Cells α β)
    (h : runTasks step (serialise n l) c = (c', none)) : runTasks step l c = (c', none) :=
  runTasks_traceEq step (serialise_traceEq n opOf hinj l hl) c c' h

/-- two threads, two steps each (the `dev` field numbers the steps), interleaved 1-2-3-4: the
hypotheses hold and the result is that of running thread 0 (steps 1, 3) then thread 1 (steps 2, 4) -/
example :
    let l : List Task := [⟨1, 0, 0⟩, ⟨2, 1, 1⟩, ⟨3, 0, 0⟩, ⟨4, 1, 1⟩]
    let step : Nat → Nat → Nat → Nat × Nat × Option Unit := fun id a b => (10 * a + id, 2 * b + id, none)
    serialise 2 l = [⟨1, 0, 0⟩, ⟨3, 0, 0⟩, ⟨2, 1, 1⟩, ⟨4, 1, 1⟩] ∧
    (∀ t ∈ l, t.tx < 2 ∧ t.op = id t.tx) ∧
    (runTasks step (serialise 2 l) ⟨#[0, 0], #[0, 0]⟩).2 = none ∧
    (runTasks step l ⟨#[0, 0], #[0, 0]⟩).1.ops = #[13, 24] ∧
    (runTasks step (serialise 2 l) ⟨#[0, 0], #[0, 0]⟩).1.ops = #[13, 24] := by decide

/-- the schedules the driver uses for the "thread pool" lines are permutations, for every seed list -/
theorem shuffle_is_schedule (rs : List Nat) (ts : List Task) : (shuffle rs ts).Perm ts := shuffle_perm rs ts

/-! ## the whole send -/

/-- **same frames, same number of frames**: the loop of `Sender::send_impl` with an arbitrary
schedule for every `pack` call produces the frame sequence of the all-serial loop and stops after
the same number of frames; when the serial send returns `Ok` so does the scheduled one, with the
same final buffers.  (`fuel` bounds the model's loop only; the statement holds for every bound.) -/
theorem send_schedule_independent (numTr : Nat → Nat) (en : List Bool) (sched : Nat → List Task → List Task)
    (hs : ∀ i ts, (sched i ts).Perm ts) (fuel i : Nat) (c : Cells Slot Tx) (acc : List (Array Tx)) :
    let par := sendLoop numTr en sched fuel i c acc
    let ser := sendLoop numTr en (fun _ => id) fuel i c acc
    par.frames = ser.frames ∧ par.result.isSome = ser.result.isSome ∧
    (ser.result = none → par.result = none ∧ par.cells.ops = ser.cells.ops ∧ par.cells.tx = ser.cells.tx) := by
  induction fuel generalizing i c acc with
  | zero => simp [sendLoop]
  | succ fuel ih =>
    simp only [sendLoop]
    have herr := (pack_error_agreement numTr en (sched i) (hs i) c).1
    rcases hser : pack numTr en id c with ⟨cs, es⟩
    rcases hpar : pack numTr en (sched i) c with ⟨cp, ep⟩
    rw [hser, hpar] at herr
    cases es with
    | some e =>
      cases ep with
      | none => simp at herr
      | some e' => simp
    | none =>
      have := pack_schedule_independent numTr en (sched i) (hs i) c cs hser
      rw [this] at hpar
      cases hpar
      simp only []
      split
      · simp
      · exact ih (i + 1) cs (acc ++ [cs.tx])

/-- the same for `Sender::send` as a whole (generator built first — a datagram refused there sends
nothing in either mode —, then one operation pair per enabled device, then the loop): this is the
function the `parallel` driver evaluates for every `send` line, with `shuffle` schedules. -/
theorem send_frames_schedule_independent (numTr : Nat → Nat) (en : List Bool) (sched : Nat → List Task → List Task)
    (hs : ∀ i ts, (sched i ts).Perm ts) (fuel : Nat) (check : Option Err) (gen : Nat → Op × Op) (tx : Array Tx) :
    (send numTr en sched fuel check gen tx).frames = (send numTr en (fun _ => id) fuel check gen tx).frames ∧
    (send numTr en sched fuel check gen tx).result.isSome = (send numTr en (fun _ => id) fuel check gen tx).result.isSome := by
  unfold send
  cases check with
  | some e => simp
  | none =>
    have h := send_schedule_independent numTr en sched hs fuel 0 { ops := generate gen en, tx := tx } []
    exact ⟨h.1, h.2.1⟩

/-- **pack_error_sends_nothing**: when a `pack` call fails — under whatever schedule — the send
returns that error and no further frame reaches the link (the frames sent so far are exactly those
of the earlier, successful `pack` calls). -/
theorem pack_error_sends_nothing (numTr : Nat → Nat) (en : List Bool) (sched : Nat → List Task → List Task)
    (fuel i : Nat) (c c' : Cells Slot Tx) (acc : List (Array Tx)) (e : Err)
    (h : pack numTr en (sched i) c = (c', some e)) :
    (sendLoop numTr en sched (fuel + 1) i c acc).frames = acc ∧
    (sendLoop numTr en sched (fuel + 1) i c acc).result = some (some e) := by
  simp [sendLoop, h]

/-! ## the parallel decision -/

/-- **is_parallel_decision**: `On` and `Off` force the mode; `Auto` runs in parallel exactly when the
number of *enabled* devices exceeds the datagram's threshold; a tuple uses the smaller threshold, so
it is parallel under `Auto` iff one of its members would be. -/
theorem is_parallel_decision (en : List Bool) (thr thr' : Nat) :
    sendDecision .on en thr = true ∧ sendDecision .off en thr = false ∧
    (sendDecision .auto en thr = true ↔ thr < en.count true) ∧
    sendDecision .auto en (thresholdPair thr thr') = (sendDecision .auto en thr || sendDecision .auto en thr') := by
  have hn : numDevices en = en.count true := by
    unfold numDevices devices
    have : ∀ s, (devicesFrom en s).length = en.count true := by
      induction en with
      | nil => intro s; simp [devicesFrom]
      | cons e es ih => intro s; rw [devicesFrom_cons]; cases e <;> simp [ih]
    exact this 0
  refine ⟨rfl, rfl, ?_, ?_⟩
  · simp [sendDecision, isParallel, hn]
  · simp only [sendDecision, isParallel, thresholdPair, hn]
    rw [Bool.eq_iff_iff]
    simp only [Bool.or_eq_true, decide_eq_true_eq]
    omega

/-- the decision does not matter for what is sent: whichever mode, threshold and enable mask, the
frames are those of the serial loop (the parallel branch being any family of schedules). -/
theorem decision_irrelevant (m : ParallelMode) (thr : Nat) (numTr : Nat → Nat) (en : List Bool)
    (pool : Nat → List Task → List Task) (hs : ∀ i ts, (pool i ts).Perm ts) (fuel : Nat) (c : Cells Slot Tx) :
    (sendLoop numTr en (if sendDecision m en thr then pool else fun _ => id) fuel 0 c []).frames
      = (sendLoop numTr en (fun _ => id) fuel 0 c []).frames := by
  split
  · exact (send_schedule_independent numTr en pool hs fuel 0 c []).1
  · rfl

/-! ## `group_send` -/

/-- **group_ops_alignment** (`Sender::group_send`): whatever order the `HashMap` of filters is
iterated in (`order`, any list of keys, repetitions allowed), operation `j` of the vector handed to
`pack` belongs to the `j`-th *enabled* device and is built by the datagram of that device's key
(`None` when the device has no key or its key was not visited) — so together with
`zip_filter_alignment` every device is packed with its own group's operation. -/
theorem group_ops_alignment {γ : Type} (en : List Bool) (keys : List (Option Nat)) (gen : Nat → Nat → γ)
    (hl : keys.length = en.length) (order : List Nat) :
    groupOps en keys gen order = some ((devices en).map fun d =>
      match keyOf keys d with
      | some k => if k ∈ order then some (gen k d) else none
      | none => none) := by
  have h := groupOps_spec en keys gen hl order []
  have h0 : (devices en).map (groupSlot keys gen []) = (devices en).map fun _ => (none : Option γ) := by
    apply List.map_congr_left
    intro d _
    unfold groupSlot
    cases keyOf keys d <;> simp
  rw [h0] at h
  simp only [List.nil_append] at h
  unfold groupOps
  rw [h]
  rfl

example :
    groupOps [true, false, true, true] [some 1, some 0, none, some 0] (fun k d => (k, d)) [0, 1]
      = some [some (1, 0), none, some (0, 3)] ∧
    groupOps [true, false, true, true] [some 1, some 0, none, some 0] (fun k d => (k, d)) [1, 0]
      = some [some (1, 0), none, some (0, 3)] := by decide

end Autd3.ParPack

namespace Autd3.HoloFill

/-! ## the raw-pointer fill of `generate_propagation_matrix` -/

/-- **holo_fill_disjoint** (ranges): under `WF`, the task of the enabled device with index `i`
writes exactly the cells `[m·P[i], m·P[i+1])` (`P` = `num_transducers`, the prefix sums over *all*
devices with disabled ones counting 0), each once, in increasing order; the ranges of two different
enabled devices are disjoint and every range lies inside the `m × n` allocation. -/
theorem holo_fill_disjoint (hf : Bool) (m : Nat) (devs : List HDev) (hw : WF hf devs = true)
    (i : Nat) (d : HDev) (hd : devs[i]? = some d) (he : d.enable = true) :
    ∃ lo hi ws, (prefixSums hf devs)[i]? = some lo ∧ (prefixSums hf devs)[i + 1]? = some hi ∧ lo ≤ hi ∧
      devWrites hf m (prefixSums hf devs) i d = .ok ws ∧
      ws.map (·.1) = List.range' (m * lo) (m * hi - m * lo) ∧
      m * hi ≤ m * totalCols hf devs ∧
      (∀ j d', i < j → devs[j]? = some d' → ∀ lo', (prefixSums hf devs)[j]? = some lo' → m * hi ≤ m * lo') := by
  have hlt : i < devs.length := by
    rcases Nat.lt_or_ge i devs.length with h | h
    · exact h
    · rw [List.getElem?_eq_none h] at hd; simp at hd
  have hwd : WFd hf d := (WF_iff hf devs).mp hw d (List.mem_of_getElem? hd)
  have hlo := prefix_get hf devs i (Nat.le_of_lt hlt)
  have hhi := prefix_get hf devs (i + 1) hlt
  have hstep : sumCount hf (devs.take (i + 1)) = sumCount hf (devs.take i) + countOf hf d := by
    rw [List.take_add_one, hd]; simp [sumCount]
  have hmono : ∀ j, i + 1 ≤ j → sumCount hf (devs.take (i + 1)) ≤ sumCount hf (devs.take j) := by
    intro j hj
    obtain ⟨k, rfl⟩ : ∃ k, j = (i + 1) + k := ⟨j - (i + 1), by omega⟩
    have happ : ∀ a b : List HDev, sumCount hf (a ++ b) = sumCount hf a + sumCount hf b := by
      intro a b; simp [sumCount]
    rw [show List.take (i + 1 + k) devs = List.take (i + 1) devs ++ List.take k (List.drop (i + 1) devs)
      from List.take_add, happ]
    omega
  refine ⟨_, _, _, hlo, hhi, by omega, devWrites_spec hf m _ i _ d hwd he hlo, ?_, ?_, ?_⟩
  · rw [place_addrs, devTags_length hf m i d hwd, hstep, Nat.mul_add]
    congr 1; omega
  · rw [totalCols_eq]
    apply Nat.mul_le_mul_left
    have := hmono devs.length hlt
    rwa [List.take_length] at this
  · intro j d' hij hj lo' hlo'
    have hjlt : j < devs.length := by
      rcases Nat.lt_or_ge j devs.length with h | h
      · exact h
      · rw [List.getElem?_eq_none h] at hj; simp at hj
    rw [prefix_get hf devs j (Nat.le_of_lt hjlt)] at hlo'
    cases hlo'
    exact Nat.mul_le_mul_left _ (hmono j hij)

/-- **holo_fill_exact** (cover): run serially, the tasks write cell `0, 1, …, m·n − 1` in this order,
each exactly once, and cell `m·j + i` receives `propagate(j-th selected transducer, focus i)` — the
column-major storage of the matrix the *safe* branch builds (`safeMatrix`).  No cell of the
uninitialised allocation is left unwritten, none is written twice, none outside is touched. -/
theorem holo_fill_exact (hf : Bool) (m : Nat) (devs : List HDev) (hw : WF hf devs = true) :
    ∃ ws, serialWrites hf m devs = .ok ws ∧
      ws.map (·.1) = List.range (m * totalCols hf devs) ∧ ws.map (·.2) = safeMatrix hf m devs := by
  refine ⟨_, serialWrites_spec hf m devs hw, ?_, ?_⟩
  · rw [place_addrs, allTags_length hf m devs 0 ((WF_iff hf devs).mp hw), totalCols_eq, List.range_eq_range']
  · rw [place_tags, safeMatrix_eq]

/-- **holo_fill_order_independent**: with the device tasks run in *any* order (`par_bridge`), the
matrix is completely initialised and equals the safe branch's matrix. -/
theorem holo_fill_order_independent (hf : Bool) (m : Nat) (devs : List HDev) (hw : WF hf devs = true)
    (tasks : List (Nat × HDev)) (hp : tasks.Perm (enabledDevs devs)) :
    fill hf m devs tasks = .ok ((safeMatrix hf m devs).map some).toArray := by
  have hwd := (WF_iff hf devs).mp hw
  have hser := writesFrom_any hf m devs (enabledDevs devs) [] hwd (fun _ h => h)
  have hpar := writesFrom_any hf m devs tasks [] hwd (fun t ht => hp.subset ht)
  have hspec := serialWrites_spec hf m devs hw
  unfold serialWrites writesIn at hspec
  rw [hser] at hspec
  simp only [List.nil_append, Except.ok.injEq] at hspec
  have hperm : ((enabledDevs devs).flatMap (blockOf hf m devs)).Perm (tasks.flatMap (blockOf hf m devs)) :=
    hp.symm.flatMap_right _
  have hlen : (allTags hf m devs 0).length = m * totalCols hf devs := by
    rw [allTags_length hf m devs 0 hwd, totalCols_eq]
  unfold fill writesIn
  rw [hpar]
  simp only [List.nil_append]
  rw [← hlen]
  have hnd : (((enabledDevs devs).flatMap (blockOf hf m devs)).map (·.1)).Nodup := by
    rw [hspec, place_addrs]; exact List.nodup_range' 1
  have hin : ∀ w ∈ (enabledDevs devs).flatMap (blockOf hf m devs),
      w.1 < (Array.replicate (allTags hf m devs 0).length (none : Option Tag)).size := by
    intro w hw'
    have : w.1 ∈ ((enabledDevs devs).flatMap (blockOf hf m devs)).map (·.1) := List.mem_map_of_mem hw'
    rw [hspec, place_addrs, List.mem_range'_1] at this
    simpa using this.2
  rw [applyWrites_perm _ _ _ hperm hnd hin, hspec, applyWrites_place, safeMatrix_eq]

/-- the hypotheses are met by a real configuration: 3 devices, the middle one disabled, a filter
with one bit per transducer — and the fill is exact there (checked by evaluation as well) -/
example :
    let devs : List HDev := [⟨true, 3, some [true, false, true]⟩, ⟨false, 2, none⟩, ⟨true, 2, some [false, true]⟩]
    WF true devs = true ∧ totalCols true devs = 3 ∧
    (serialWrites true 2 devs).toOption.map (·.map (·.1)) = some [0, 1, 2, 3, 4, 5] := by decide

/-- `holo_fill_order_independent` applied: the same devices with the tasks in reverse order -/
example :
    let devs : List HDev := [⟨true, 3, some [true, false, true]⟩, ⟨false, 2, none⟩, ⟨true, 2, some [false, true]⟩]
    fill true 2 devs (enabledDevs devs).reverse = .ok ((safeMatrix true 2 devs).map some).toArray :=
  holo_fill_order_independent true 2 _ (by decide) _ (List.reverse_perm _)

/-- `WF` is needed: a filter with a set bit beyond the transducers of its device makes
`count_ones()` over-count and leaves cells of the uninitialised matrix unwritten … -/
example :
    let devs : List HDev := [⟨true, 2, some [true, true, true]⟩]
    WF true devs = false ∧ totalCols true devs = 3 ∧
    (serialWrites true 1 devs).toOption.map (·.length) = some 2 := by decide

/-- … and a filter shorter than the device panics (`filter[tr.idx()]`). -/
example :
    (serialWrites true 1 [⟨true, 2, some [true]⟩]).toOption = none := by decide

end Autd3.HoloFill

namespace Autd3.ParPack
open Autd3.Wire

/-- non-vacuity of `pack_schedule_independent` / `send_schedule_independent`: three devices, the
middle one disabled, different operations per device; the serial `pack` succeeds, and the reversed
schedule (a permutation) gives the same cells. -/
example :
    let c : Cells Slot Tx :=
      { ops := #[some (Op.ofDg (.forceFan true), Op.ofDg .null), some (Op.ofDg .sync, Op.ofDg (.readsFpgaState true))],
        tx := #[{ payload := Array.replicate 8 0 }, { payload := Array.replicate 8 0 }, { msgId := 0x7F, payload := Array.replicate 8 0 }] }
    (pack (fun _ => 249) [true, false, true] id c).2 = none ∧
    ((pack (fun _ => 249) [true, false, true] List.reverse c).1.tx.map Tx.frame)
      = ((pack (fun _ => 249) [true, false, true] id c).1.tx.map Tx.frame) ∧
    ((pack (fun _ => 249) [true, false, true] id c).1.tx.map (·.msgId)) = #[1, 0, 0] := by
  decide +kernel

/-- after a *failing* `pack` the leftover buffers depend on the schedule (here: which message ids
were advanced) — this is why `pack_schedule_independent` needs the serial run to succeed.  Device 0
fails (`Gain` with a non-immediate transition), device 1 would succeed. -/
example :
    let c : Cells Slot Tx :=
      { ops := #[some (Op.ofDg (.gain 0 (some (0, 0)) #[]), Op.ofDg .null), some (Op.ofDg .clear, Op.ofDg .null)],
        tx := #[{ payload := Array.replicate 8 0 }, { payload := Array.replicate 8 0 }] }
    (pack (fun _ => 249) [true, true] id c).2 = some .invalidTransitionMode ∧
    (pack (fun _ => 249) [true, true] List.reverse c).2 = some .invalidTransitionMode ∧
    ((pack (fun _ => 249) [true, true] id c).1.tx.map (·.msgId)) = #[1, 0] ∧
    ((pack (fun _ => 249) [true, true] List.reverse c).1.tx.map (·.msgId)) = #[1, 1] := by
  decide +kernel

end Autd3.ParPack
