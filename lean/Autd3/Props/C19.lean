import Autd3.Model.Fw
import Autd3.Lemmas.SwapWF
import Autd3.Lemmas.FwExamples
import Autd3.Lemmas.FwTraceWitness
import Autd3.Lemmas.FwTraceF17
/-!
# C19 — the firmware model never aborts on anything the SDK can send
First layer: the swap chain's `set` never leaves it in the state its `update` declares unreachable,
provided the request is one the CPU's own validation lets through for the *actual* current segment.
(The full trace theorem `no_panic` needs the segment belief = request invariant that F15 shows is not
inductive on the current tree; see DESIGN section 6 and the `known:` findings.)
-/
namespace Autd3.C19
open Autd3 Autd3.Fw

/-- after `Swapchain::set`, `state = WaitStart` only in the finite-loop-to-other-segment branch, and the
transition mode is exactly the one requested -/
theorem set_state (w : Swap) (t rep fd cyc req : Nat) (m : TMode) (w' : Swap)
    (h : w.set t rep fd cyc req m = .ok w') :
    w'.mode = m ∧ (w'.state = .waitStart → w.cur ≠ req ∧ rep ≠ 0xFFFF) := by
  unfold Swap.set at h
  by_cases h1 : w.cur = req
  · simp only [h1, if_true, bind, Except.bind] at h
    split at h
    · cases h
    · simp only [pure, Except.pure] at h
      cases h
      exact ⟨rfl, by intro hs; cases hs⟩
  · by_cases h2 : rep = 0xFFFF
    · simp only [h1, h2, if_true, if_false, bind, Except.bind] at h
      split at h
      · cases h
      · simp only [pure, Except.pure] at h
        cases h
        exact ⟨rfl, by intro hs; cases hs⟩
    · simp only [h1, h2, if_false, bind, Except.bind, pure, Except.pure] at h
      cases h
      exact ⟨rfl, fun _ => ⟨h1, h2⟩⟩

/-- a mode byte the SDK can emit (`TransitionMode::mode()`) that `validate_transition_mode` accepts for a
finite loop to the *other* segment is one of the three that `update` handles in `WaitStart`
(so reaching the `unreachable!()` arm needs a stale segment belief) -/
theorem accepted_finite_other_is_waitable :
    ∀ mode ∈ [Autd3.Gen.Cpu.TRANSITION_MODE_SYNC_IDX, Autd3.Gen.Cpu.TRANSITION_MODE_SYS_TIME,
              Autd3.Gen.Cpu.TRANSITION_MODE_GPIO, Autd3.Gen.Cpu.TRANSITION_MODE_EXT,
              Autd3.Gen.Cpu.TRANSITION_MODE_IMMEDIATE],
      ∀ rep : Nat, rep ≠ 0xFFFF → validateTransitionMode 0 1 rep mode = false →
        mode = 0 ∨ mode = 1 ∨ mode = 2 := by
  intro mode hm rep hr h
  unfold validateTransitionMode at h
  simp only [List.mem_cons, List.mem_nil_iff, or_false] at hm
  rcases hm with rfl | rfl | rfl | rfl | rfl <;> simp_all [Autd3.Gen.Cpu.TRANSITION_MODE_NONE,
    Autd3.Gen.Cpu.TRANSITION_MODE_SYNC_IDX, Autd3.Gen.Cpu.TRANSITION_MODE_SYS_TIME, Autd3.Gen.Cpu.TRANSITION_MODE_GPIO,
    Autd3.Gen.Cpu.TRANSITION_MODE_EXT, Autd3.Gen.Cpu.TRANSITION_MODE_IMMEDIATE]


/-! ## (5) the swap-chain invariant

`SwapWF w` (Lemmas/SwapWF.lean): `cur, req ∈ {0,1}`; `freq_div ≥ 1` and `cycle ≥ 1` for both segments;
`state = WaitStart → mode ∈ {SyncIdx, SysTime _, GPIO _}` and `req ≠ cur`; and for both segments
`tic_idx_offset[seg] ≤ cycle[seg]` unless `seg` is the target of the pending transition. -/

/-- `Swapchain::update` never panics from a well-formed swap chain — for every GPIO input and every time
(monotone or not) — keeps it well formed, leaves `freq_div`/`cycle` alone and produces `cur_idx < cycle[cur]` -/
theorem swap_update_no_panic (w : Swap) (g : Nat → Bool) (t : Nat) (h : SwapWF w) :
    ∃ w', w.update g t = .ok w' ∧ SwapWF w' ∧ w'.curIdx < sel w'.cycle w'.cur ∧
      w'.freqDiv = w.freqDiv ∧ w'.cycle = w.cycle :=
  update_ok w g t h

/-- hence any number of clock updates at arbitrary times never panics -/
theorem swap_updates_no_panic (g : Nat → Nat → Bool) (ts : List Nat) (w : Swap) (h : SwapWF w) :
    ∃ w', ts.foldlM (fun w t => w.update (g t) t) w = .ok w' ∧ SwapWF w' := by
  induction ts generalizing w with
  | nil => exact ⟨w, rfl, h⟩
  | cons t ts ih =>
    obtain ⟨w1, h1, wf1, _⟩ := update_ok w (g t) t h
    obtain ⟨w2, h2, wf2⟩ := ih w1 wf1
    exact ⟨w2, by simp only [List.foldlM_cons, h1, bind, Except.bind]; exact h2, wf2⟩

/-- `Swapchain::set` never panics from a well-formed swap chain and keeps it well formed when the request is
for a segment in `{0,1}` with non-zero division and cycle, Immediate/Ext only go to the current segment or
carry an infinite loop, and the current segment is not re-requested while a transition is pending (`SetOK`).
The result has the requested mode, division and cycle, and is pending exactly for a finite loop to the other
segment -/
theorem swap_set_preserves (w : Swap) (t rep fd cyc req : Nat) (m : TMode) (h : SwapWF w)
    (hs : SetOK w rep fd cyc req m) :
    ∃ w', w.set t rep fd cyc req m = .ok w' ∧ SwapWF w' ∧ w'.mode = m ∧
      sel w'.freqDiv req = fd ∧ sel w'.cycle req = cyc ∧
      (w'.state = .waitStart ↔ (w.cur ≠ req ∧ rep ≠ 0xFFFF)) ∧
      (w'.cur = if w.cur ≠ req ∧ rep ≠ 0xFFFF then w.cur else req) :=
  set_ok w t rep fd cyc req m h hs

/-- the CPU's `validate_transition_mode` provides the mode side condition of `SetOK` **when its belief is the
swap chain's current segment**: an accepted Ext/Immediate request (any mode byte but `NONE`) goes to the
current segment or carries an infinite loop -/
theorem validate_gives_set_side_condition (belief seg rep modeByte value : Nat) (site : String) (m : TMode)
    (w : Swap) (hb : modeByte < 256) (hne : modeByte ≠ Autd3.Gen.Cpu.TRANSITION_MODE_NONE)
    (hv : validateTransitionMode belief seg rep modeByte = false)
    (hd : decodeTMode modeByte value site = .ok m) (hbel : belief = w.cur) :
    m.waitable = false → w.cur = seg ∨ rep = 0xFFFF :=
  validate_gives_mode belief seg rep modeByte value site m w.cur hb hne hv hd hbel

/-- characterisation of the panics of `Swapchain::update` when only the divisions and cycles are non-zero:
the `unreachable!()` of a pending transition whose mode is Ext/Immediate (F15), or the underflow of
`idx + cycle - tic_idx_offset` (stale start offset, F17/F18) — nothing else -/
theorem swap_update_panics (w : Swap) (g : Nat → Bool) (t : Nat) (e : Panic)
    (fd0 : 1 ≤ w.freqDiv.1) (fd1 : 1 ≤ w.freqDiv.2) (cy0 : 1 ≤ w.cycle.1) (cy1 : 1 ≤ w.cycle.2)
    (h : w.update g t = .error e) :
    (e = .unreachable "Swapchain::update: WaitStart with Ext/Immediate" ∧ w.state = .waitStart ∧
      w.mode.waitable = false) ∨
    e = .overflow "Swapchain::update: idx + cycle - tic_idx_offset" :=
  update_error_cases w g t e fd0 fd1 cy0 cy1 h

/-- **F15 is real in the model** (swap-chain level): a pending finite-loop SyncIdx request to S1 followed by a
finite-loop Immediate request to S1 (accepted by the CPU because its belief already is S1) makes the next
`update` reach `unreachable!()`.  So `SetOK.mode` cannot be dropped. -/
theorem f15_unreachable :
    f15SwapTrace = .error (.unreachable "Swapchain::update: WaitStart with Ext/Immediate") := by rfl

/-- **new finding (F18), swap-chain level**: `SetOK.pending` cannot be dropped either — re-requesting the
current segment with Ext while a transition to a segment with a stale start offset is pending makes a later
`update` underflow `idx + cycle - tic_idx_offset` (a `usize` subtraction: panic in a build with overflow
checks, a wild `cur_idx` otherwise) -/
theorem f18_stale_offset_underflow :
    f18SwapTrace = .error (.overflow "Swapchain::update: idx + cycle - tic_idx_offset") := by rfl

/-! ### non-vacuity: the power-on swap chains are well formed, and so is a pending one -/

example (now : Nat) : SwapWF (powerOnSwap now) :=
  ⟨Nat.zero_le _, Nat.zero_le _, by simp [powerOnSwap], by simp [powerOnSwap], by simp [powerOnSwap],
   by simp [powerOnSwap], (nomatch ·), (nomatch ·),
   fun seg _ => Or.inr (by unfold sel powerOnSwap; split <;> simp)⟩

example : ∃ w, (powerOnSwap 0).set 5 3 40 100 1 (.gpio 2) = .ok w ∧ SwapWF w ∧ w.state = .waitStart := by
  refine ⟨_, rfl, ?_, rfl⟩
  exact ⟨by decide, by decide, by decide, by decide, by decide, by decide, fun _ => rfl, fun _ => by decide,
    fun seg hseg => by
      by_cases h : seg = 1
      · exact Or.inl ⟨rfl, h⟩
      · have : seg = 0 := by omega
        subst this; exact Or.inr (by decide)⟩


/-! ## (6) the firmware state: `FwWF`, clock updates, frames

`FwWF s` (Lemmas/FwSafe.lean): the seven BRAM arrays have their sizes and `numTr ≤ 256`; the internal flag word
carries none of the `MOD_SET`/`STM_SET` request bits; the four sampling-division registers are `≥ 1`; the four
loop-count registers equal the CPU's copies; both swap chains satisfy `SwapWF`.
`Settled s`: the CPU's segment beliefs are the swap chains' current segments and no transition is pending. -/

/-- a clock update (`update_with_sys_time` + `read_fpga_state`) never panics from a well-formed state, at any
time, and keeps it well formed -/
theorem update_no_panic (s : State) (t : Nat) (h : FwWF s) :
    ∃ s', updateWithSysTime s t = .ok s' ∧ FwWF s' ∧ s'.modSegment = s.modSegment ∧ s'.stmSegment = s.stmSegment :=
  updateWithSysTime_safe s t h

/-- every configuration handler (Synchronize, firmware-info, Silencer, force-fan, reads-FPGA-state, PWE table,
phase correction, GPIO outputs, emulate-GPIO-in, CPU-GPIO-out) and every unknown tag: `handle_payload`
returns `.ok`, keeps `FwWF` and does not touch swap chains, loop counts, sampling divisions or beliefs -/
theorem payload_config_no_panic (s : State) (d : Array Nat) (hc : IsCfg d) (h : FwWF s) :
    ∃ s' ack, handlePayload s d = .ok (s', ack) ∧ FwWF s' ∧ SameCore s s' :=
  payload_cfg_safe s d hc h

/-- **no_panic_single**: `ecat_recv` never panics on ANY complete single-frame SDK frame — every tag of the
dispatch table: Clear, Synchronize, firmware-info, Modulation (BEGIN∧END), SwapSegment::Modulation, Silencer,
Gain, SwapSegment::Gain, GainSTM (BEGIN∧END), FociSTM (BEGIN∧END), SwapSegment::{GainSTM,FociSTM}, force-fan,
reads-FPGA-state, PWE, phase correction, GPIO outputs, emulate-GPIO-in, CPU-GPIO-out, and unknown tags — with
the header fields the SDK's packers produce (`FrameOK`/`SwapPayloadOK`: segment ≤ 1, sampling division ≥ 1,
a real transition mode with GPIO pin < 4 when the TRANSITION flag is set, 1 ≤ foci per pattern, the foci of
the frame fit the first page), in one or two slots with at most one swap-type operation per frame, from a
well-formed state in which no transition is pending and the CPU's beliefs are the current segments; and the
state stays well formed.  (Two swap-type operations in one frame can reproduce F15 within a single frame;
a pending transition is exactly the F15/F18 situation — see `f15_unreachable`, `f18_stale_offset_underflow`.) -/
theorem no_panic_single (s : State) (frame : Array Nat) (h : FwWF s) (hst : Settled s)
    (hf : FrameOK frame) : ∃ s', ecatRecv s frame = .ok s' ∧ FwWF s' :=
  ecatRecv_safe s frame h hst hf

/-- per-handler form, every tag of the dispatch table (and unknown tags) -/
theorem payload_no_panic (s : State) (d : Array Nat) (hp : SwapPayloadOK d) (h : FwWF s) (hst : Settled s) :
    ∃ s' ack, handlePayload s d = .ok (s', ack) ∧ FwWF s' :=
  payload_swap_safe s d hp h hst

/-- `Clear` additionally re-establishes `Settled` -/
theorem clear_no_panic (s : State) (d : Array Nat) (h : FwWF s) (hst : Settled s) :
    ∃ s' ack, clear s d = .ok (s', ack) ∧ FwWF s' ∧ Settled s' :=
  clear_safe s d h hst

/-- **power-on**: `CPUEmulator::new(_, numTr)` with `numTr ≤ 256` never panics, whatever the wall clock reads,
and yields a well-formed settled state (so the hypotheses of the theorems above hold at power-on) -/
theorem power_on_wf (numTr now : Nat) (hn : numTr ≤ 256) :
    ∃ s, Fw.new numTr now = .ok s ∧ FwWF s ∧ Settled s :=
  new_safe numTr now hn

/-- configuration frames need no `Settled`, and keep it -/
theorem no_panic_config_frame (s : State) (frame : Array Nat) (h : FwWF s) (hf : CfgFrame frame) :
    ∃ s', ecatRecv s frame = .ok s' ∧ FwWF s' ∧ (Settled s → Settled s') :=
  ecatRecv_cfg_safe s frame h hf

/-- **unbounded trace theorem for the configuration sub-alphabet**: any sequence of configuration frames
(one or two slots) interleaved with clock updates at arbitrary times never panics from a well-formed state -/
theorem no_panic_config_trace (evs : List Ev) (s : State) (h : FwWF s)
    (hall : ∀ f, Ev.frame f ∈ evs → CfgFrame f) : ∃ s', evs.foldlM runEv s = .ok s' ∧ FwWF s' :=
  cfg_trace_safe evs s h hall

/-- the same from power-on: a device created with 249 transducers at any wall-clock time survives every history
of configuration frames and clock updates -/
theorem no_panic_config_trace_from_power_on (now : Nat) (evs : List Ev)
    (hall : ∀ f, Ev.frame f ∈ evs → CfgFrame f) :
    ∃ s', (Fw.new 249 now >>= fun s => evs.foldlM runEv s) = .ok s' ∧ FwWF s' := by
  obtain ⟨s, e, wf, _⟩ := new_safe 249 now (by omega)
  obtain ⟨s', e', wf'⟩ := cfg_trace_safe evs s wf hall
  exact ⟨s', by rw [e]; exact e', wf'⟩

/-- a swap-type frame directly after power-on (or after any `Clear`) is always safe -/
theorem no_panic_first_frame (now : Nat) (frame : Array Nat) (hf : FrameOK frame) :
    ∃ s', (Fw.new 249 now >>= fun s => ecatRecv s frame) = .ok s' ∧ FwWF s' := by
  obtain ⟨s, e, wf, st⟩ := new_safe 249 now (by omega)
  obtain ⟨s', e', wf'⟩ := ecatRecv_safe s frame wf st hf
  exact ⟨s', by rw [e]; exact e', wf'⟩

/-! ### non-vacuity -/

example : FwWF wfExample ∧ Settled wfExample := ⟨wfExample_wf, wfExample_settled⟩
example : CfgFrame silencerFrame := silencerFrame_cfg
example : FrameOK gainSwapFrame := gainSwapFrame_ok
example : ModFrameOK modPayload := modPayload_ok
example : FociFrameOK fociPayload := fociPayload_ok
example : ∃ s' ack, writeMod wfExample modPayload = .ok (s', ack) ∧ FwWF s' :=
  writeMod_safe _ _ wfExample_wf wfExample_settled modPayload_ok
example : ∃ s', ecatRecv wfExample gainSwapFrame = .ok s' ∧ FwWF s' :=
  no_panic_single _ _ wfExample_wf wfExample_settled gainSwapFrame_ok


/-! ## (7) trace level: the inductive invariant `Safe`, the restriction, `no_panic_trace_partial`

Full statement wanted (DESIGN section 5): `SdkTrace tr → run power_on tr ≠ panic` for every interleaving of SDK frames,
clock updates and read-backs.  It is FALSE on the current tree (F15, F17, F18, all recorded) and false for two more
read-back shapes found while proving this section (`stale_index_drives_out_of_range`, `zero_sound_speed_div_zero`).
Proved instead, for all traces, states and payload bytes (induction, no bounds):

* `Safe s = Base s ∧ Chain s` (Lemmas/FwTraceCore.lean).
  `Base`: BRAM shapes, `numTr ≤ 256`, no `*_SET` bit in the internal flag word, the four sampling divisions `≥ 1`, the
  four cycle registers 16-bit, modulation write page `≤ 1`, CPU foci count in `1..8`, foci-count registers `≤ 8`, a segment in
  focus mode has non-zero sound speed and foci count, and for both swap chains `cur, req ≤ 1`, divisions/cycles `≥ 1`,
  cycles `≤ 65536`, `cur_idx < 65536`.
  `Chain`: `SwapWF` of both swap chains (pending ⇒ waitable mode, target ≠ current; start offsets within cycles) and
  `(cycle register + 1) × foci per pattern ≤ 65536`, `swap-chain cycle × foci per pattern ≤ 65536` for both STM segments.
* **alphabet** (`EvOK`, `FrameOKs`, `PayloadOK`; decidable): what the SDK's packers guarantee.  Per payload: segment
  `≤ 1`; sampling division `≥ 1`; a real transition mode (GPIO pin `< 4`) whenever the TRANSITION flag is set on an END frame;
  FociSTM BEGIN: `1 ≤ foci per pattern ≤ 8`, sound speed `≥ 1`; a continuation frame continues the write in progress (its
  segment is the write-segment register; STM write page `≤ 15`; FociSTM: the segment's foci register is the CPU's count and
  the total stays `≤ 65536` foci; GainSTM: total `≤ 1024` patterns; Modulation: size field `≤ 32768`); second-slot offset
  inside the frame.  No condition at all on configuration tags, Clear, unknown tags, payload data bytes, loop counts,
  transition values, clock times (monotone or not), message ids.  Both slots of a frame may carry any operation.
* **finding exclusions** (`EvExcl`, `FrameExcl`, `PayloadExcl`; decidable; only about the `Swapchain::set` a frame
  triggers, the FociSTM BEGIN block, and read-backs):
  - **F15 shape** (`SetGuard.f15`): a request with mode Ext/Immediate and a finite loop whose segment is not the swap
    chain's actual current segment (the CPU lets it through exactly when its *belief* is that segment: a transition to it
    is still pending, or Ext flipped away from it, or the send that moved the belief was cut / missed its SysTime).
  - **F18 shape** (`SetGuard.f18`): a request (any mode, incl. the ones issued by Gain and Clear) for the swap chain's
    current segment while a transition is pending whose target segment has a stale start offset
    (`tic_idx_offset[req] > cycle[req]`).
  - **F17 shape** (`FociExcl.f17s/f17r`): an accepted FociSTM BEGIN frame whose foci-per-pattern count times the cycle the
    swap chain still plays for that segment, or times the segment's cycle register, exceeds 65536.  (Also excludes the
    harmless case that the same frame ends with an accepted transition that would overwrite the cycle.)
  - **stale index (new)** (`Fresh`): a read-back is preceded by a clock update since the last accepted STM request
    (`Swapchain::set` moves `cur`/`cycle`, not `cur_idx`).
  Missing for the full statement: the CPU's "current segment" would have to be the swap chain's (F15/F18), the foci count
  latched with the cycle (F17), `set` would have to reset `cur_idx`, and the packer reject a zero sound speed. -/

/-- `Swapchain::set` NEVER panics when divisions and cycles are non-zero — for any request, any mode, pending or not — and
keeps the unconditional part of the invariant; it keeps `SwapWF` under `SetGuard` (strictly weaker than `SetOK` of
`swap_set_preserves`: a pending transition may be overridden if the target's start offset is not stale) -/
theorem swap_set_no_panic (w : Swap) (t rep fd cyc req : Nat) (m : TMode) (mode : Nat) (hb : SwapBase w)
    (hreq : req ≤ 1) (hfd : 1 ≤ fd) (hc1 : 1 ≤ cyc) (hc2 : cyc ≤ 65536)
    (hm : m.waitable = false → mode = Autd3.Gen.Cpu.TRANSITION_MODE_EXT ∨ mode = Autd3.Gen.Cpu.TRANSITION_MODE_IMMEDIATE) :
    ∃ w', w.set t rep fd cyc req m = .ok w' ∧ SwapBase w' ∧ w'.curIdx = w.curIdx ∧
      w'.cycle = setSel w.cycle req cyc ∧ (SwapWF w → SetGuard w req rep mode → SwapWF w') :=
  set_step w t rep fd cyc req m mode hb hreq hfd hc1 hc2 hm

/-- **`Safe power_on`**: `CPUEmulator::new(_, numTr)`, `numTr ≤ 256`, any wall clock, never panics and is `Safe` -/
theorem power_on_safe (numTr now : Nat) (hn : numTr ≤ 256) : ∃ s, Fw.new numTr now = .ok s ∧ Safe s :=
  new_safe' numTr now hn

/-- **memory bounds and handler safety without any restriction on transitions**: from a `Base` state, `handle_payload`
returns `.ok` for EVERY tag and every alphabet payload — first, middle and last frames of Modulation / FociSTM / GainSTM
writes, Gain, the four segment swaps, Clear, all configuration tags, unknown tags; any data bytes; accepted or refused;
whatever transition is pending — so no `Memory::write` leaves its BRAM, no `unreachable!()`, no overflow, no division by
zero inside a handler; `Base` is kept.  (All panics of the unchanged tree sit in `update` and `drives`.)
`Chain` is kept under the finding exclusions -/
theorem payload_no_panic_all (s : State) (d : Array Nat) (hB : Base s) (hp : PayloadOK s d) :
    ∃ s' ack, handlePayload s d = .ok (s', ack) ∧ Base s' ∧ (Chain s → PayloadExcl s d → Chain s') :=
  payload_step s d hB hp

/-- in particular the out-of-range branches of `Memory::write` (`.index _`) are unreachable -/
theorem payload_never_index_error (s : State) (d : Array Nat) (hB : Base s) (hp : PayloadOK s d) (site : String) :
    handlePayload s d ≠ .error (.index site) := by
  obtain ⟨s', ack, e, _⟩ := payload_step s d hB hp
  rw [e]; intro h; cases h

/-- one frame (one or two slots, any two operations): `ecat_recv` never panics from a `Base` state, keeps `Base`, and keeps
`Chain` under the frame's finding exclusions -/
theorem frame_no_panic (s : State) (frame : Array Nat) (hB : Base s) (hf : FrameOKs s frame) :
    ∃ s', ecatRecv s frame = .ok s' ∧ Base s' ∧ (Chain s → FrameExcl s frame → Chain s') :=
  ecatRecv_step s frame hB hf

/-- **unrestricted frame sequences**: any sequence of alphabet frames — including the F15, F17 and F18 histories — is
handled without panic and without an out-of-bounds BRAM write, from any `Base` state -/
theorem no_panic_frames (fs : List (Array Nat)) (s : State) (h : Base s) (hr : FramesOK s fs) :
    ∃ s', fs.foldlM ecatRecv s = .ok s' ∧ Base s' :=
  frames_safe fs s h hr

/-- a clock update never panics from a `Safe` state, at any time, keeps `Safe` and makes the STM index `Fresh` -/
theorem update_safe (s : State) (t : Nat) (h : Safe s) :
    ∃ s', updateWithSysTime s t = .ok s' ∧ Safe s' ∧ Fresh s' :=
  updateWithSysTime_step s t h

/-- `drives()` never panics from a `Safe` state with a `Fresh` STM index: every focus record read lies inside the STM
BRAM, sound speed and foci count are non-zero -/
theorem drives_no_panic (s : State) (h : Safe s) (hf : Fresh s) : ∃ v, Obs.drives s = .ok v :=
  drives_ok s h hf

/-- `modulation()` never panics from a `Base` state (no exclusion needed) -/
theorem modulation_no_panic (s : State) (h : Base s) : ∃ v, Obs.modulation s = .ok v :=
  modulation_ok s h

/-- **no_panic_trace_partial**: from a `Safe` state every `Restricted` trace of frames, clock updates and read-backs
of the current output runs without panic and ends in a `Safe` state -/
theorem no_panic_trace_partial (tr : List TEv) (s : State) (h : Safe s) (hr : Restricted s tr) :
    ∃ s', tr.foldlM runT s = .ok s' ∧ Safe s' :=
  trace_safe tr s h hr

/-- the same from power-on -/
theorem no_panic_trace_from_power_on_partial (numTr now : Nat) (hn : numTr ≤ 256) (tr : List TEv)
    (hr : ∀ s, Fw.new numTr now = .ok s → Restricted s tr) :
    ∃ s', (Fw.new numTr now >>= fun s => tr.foldlM runT s) = .ok s' ∧ Safe s' := by
  obtain ⟨s, e, h⟩ := new_safe' numTr now hn
  obtain ⟨s', e', h'⟩ := trace_safe tr s h (hr s e)
  exact ⟨s', by rw [e]; exact e', h'⟩

/-! ### the excluded shapes are real (kernel-checked runs of the model) -/

/-- the F15 history consists of alphabet frames only (so `no_panic_frames` covers it: no handler panics) but violates
`SetGuard.f15`, and the clock update after it reaches `unreachable!()` -/
theorem f15_trace_outside_restriction :
    FramesOKFromPowerOn f15Frames ∧ ¬ RestrictedFromPowerOn (f15Frames.map TEv.frame) ∧
    acksFromPowerOn (f15Frames.map TEv.frame ++ [.tick 5]) =
      ([1, 2], some (.unreachable "Swapchain::update: WaitStart with Ext/Immediate")) := by
  decide +kernel

/-- **the F17 panic in general**: whenever the current STM segment is in focus mode, the device has a transducer, and
`cur_idx × foci per pattern` points beyond the BRAM (4 words per focus record), `drives()` aborts with a slice index out
of range — exactly what `Chain.fcs` together with `Fresh` excludes -/
theorem drives_index_panic (s : State) (hmode : Obs.isStmGainMode s s.stmSwap.cur = false) (hnt : 1 ≤ s.numTr)
    (hn : 1 ≤ Obs.numFoci s s.stmSwap.cur)
    (hb : 4 * (s.stmSwap.curIdx * Obs.numFoci s s.stmSwap.cur) + 4 > (Obs.stmMem s s.stmSwap.cur).size) :
    Obs.drives s = .error (.index "foci_stm_drives: stm_bram") :=
  drives_index_error s hmode hnt hn hb

/-- **F17 is real in the model** (`f17Pre`, Lemmas/FwTraceF17.lean): power-on; a 65536-pattern single-focus FociSTM to S0
with an Immediate transition (BEGIN frame, the 884 middle frames replaced by their effect on `stm_write` and the write page,
END|TRANSITION frame); a complete FociSTM of 2 patterns × 8 foci to the SAME segment WITHOUT transition (alphabet frame,
acknowledged; violates `FociExcl.f17s`); clock at 50 s.  The history runs, and `drives()` then indexes outside the STM BRAM
(register facts by kernel evaluation, BRAM size from `Base` along the history) -/
theorem f17_drives_out_of_range :
    ∃ s, f17Pre = .ok s ∧ Obs.drives s = .error (.index "foci_stm_drives: stm_bram") :=
  f17_run

/-- **new finding, "stale index"** (same call site and oracle key as F17, different shape): the same 65536-pattern FociSTM
plays in S0 at pattern index 50000; a complete FociSTM of 2 patterns × 8 foci goes to S1 with an Immediate transition —
accepted, `Swapchain::set` makes S1 current at once but leaves `cur_idx = 50000`; `drives()` BEFORE the next clock update
indexes outside the STM BRAM.  All frames satisfy the alphabet and the F15/F17/F18 exclusions; only `Fresh` fails -/
theorem stale_index_drives_out_of_range :
    ∃ s, stalePre = .ok s ∧ Obs.drives s = .error (.index "foci_stm_drives: stm_bram") :=
  stale_run

/-- **new finding, zero sound speed, in general**: current segment in focus mode with sound-speed register 0 and an
index inside the BRAM: `drives()` divides by zero (`FociOK.ss` excludes such BEGIN frames from the alphabet) -/
theorem zero_sound_speed_div_zero (s : State) (hmode : Obs.isStmGainMode s s.stmSwap.cur = false) (hnt : 1 ≤ s.numTr)
    (hn : 1 ≤ Obs.numFoci s s.stmSwap.cur) (hc : Obs.soundSpeed s s.stmSwap.cur = 0)
    (hb : 4 * (s.stmSwap.curIdx * Obs.numFoci s s.stmSwap.cur) + 4 ≤ (Obs.stmMem s s.stmSwap.cur).size) :
    Obs.drives s = .error (.divZero "foci_stm_drives: sound_speed") :=
  drives_div_zero s hmode hnt hn hc hb

/-- … and such a state is reached by ONE acknowledged frame from power-on: a complete FociSTM whose header carries sound
speed 0 (`Device::sound_speed` below 7.8 mm/s rounds to 0 in the packer), Immediate, then a clock update (kernel-checked):
S0 current, focus mode, sound-speed register 0, one focus per pattern, index < 2 -/
theorem zero_sound_speed_reachable :
    fromM zssPre (fun s => s.stmSwap.cur = 0 ∧ rd s.ctl 89 = 0 ∧ rd s.ctl 91 = 0 ∧ rd s.ctl 93 = 1 ∧
      s.stmSwap.curIdx < 2 ∧ s.numTr = 249 ∧ s.ack = 1) :=
  zss_facts

/-! ### non-vacuity of the trace theorems -/

/-- a concrete history with a pending finite-loop transition, a multi-frame Modulation with transition, a refused swap,
a Gain with update, clock updates and read-backs satisfies `Restricted` from power-on … -/
example : RestrictedFromPowerOn legalTraceA := legalTraceA_ok

/-- … and so runs without panic, ending `Safe` -/
example : ∃ s', (Fw.new 249 0 >>= fun s => legalTraceA.foldlM runT s) = .ok s' ∧ Safe s' :=
  no_panic_trace_from_power_on_partial 249 0 (by omega) legalTraceA
    (fun s e => fromM_ok (P := fun s => Restricted s legalTraceA) legalTraceA_ok e)

/-- a three-frame GainSTM with a GPIO transition and a finite loop, clock, read-back, Clear, clock, read-back -/
example : RestrictedFromPowerOn legalTraceB := legalTraceB_ok

end Autd3.C19
