import Autd3.Model.Fw
import Autd3.Lemmas.SwapWF
import Autd3.Lemmas.FwExamples
/-!
# C19 — the firmware model never aborts on anything the SDK can send
First layer: the swap chain's `set` never leaves it in the state its `update` declares unreachable,
provided the request is one the CPU's own validation lets through for the *actual* current segment.
(The full trace theorem `no_panic` needs the segment belief = request invariant that F15 shows is not
inductive on the current tree; see DESIGN section 6 and the `known:` findings.)
-/
namespace Autd3.C19
open Autd3 Autd3.Fw

/-- after `Swapchain::set`, `state = WaitStart` only in the finite-loop-to-other-segment branch, and the
transition mode is exactly the one requested -/
theorem set_state (w : Swap) (t rep fd cyc req : Nat) (m : TMode) (w' : Swap)
    (h : w.set t rep fd cyc req m = .ok w') :
    w'.mode = m ∧ (w'.state = .waitStart → w.cur ≠ req ∧ rep ≠ 0xFFFF) := by
  unfold Swap.set at h
  by_cases h1 : w.cur = req
  · simp only [h1, if_true, bind, Except.bind] at h
    split at h
    · cases h
    · simp only [pure, Except.pure] at h
      cases h
      exact ⟨rfl, by intro hs; cases hs⟩
  · by_cases h2 : rep = 0xFFFF
    · simp only [h1, h2, if_true, if_false, bind, Except.bind] at h
      split at h
      · cases h
      · simp only [pure, Except.pure] at h
        cases h
        exact ⟨rfl, by intro hs; cases hs⟩
    · simp only [h1, h2, if_false, bind, Except.bind, pure, Except.pure] at h
      cases h
      exact ⟨rfl, fun _ => ⟨h1, h2⟩⟩

/-- a mode byte the SDK can emit (`TransitionMode::mode()`) that `validate_transition_mode` accepts for a
finite loop to the *other* segment is one of the three that `update` handles in `WaitStart`
(so reaching the `unreachable!()` arm needs a stale segment belief) -/
theorem accepted_finite_other_is_waitable :
    ∀ mode ∈ [Autd3.Gen.Cpu.TRANSITION_MODE_SYNC_IDX, Autd3.Gen.Cpu.TRANSITION_MODE_SYS_TIME,
              Autd3.Gen.Cpu.TRANSITION_MODE_GPIO, Autd3.Gen.Cpu.TRANSITION_MODE_EXT,
              Autd3.Gen.Cpu.TRANSITION_MODE_IMMEDIATE],
      ∀ rep : Nat, rep ≠ 0xFFFF → validateTransitionMode 0 1 rep mode = false →
        mode = 0 ∨ mode = 1 ∨ mode = 2 := by
  intro mode hm rep hr h
  unfold validateTransitionMode at h
  simp only [List.mem_cons, List.mem_nil_iff, or_false] at hm
  rcases hm with rfl | rfl | rfl | rfl | rfl <;> simp_all [Autd3.Gen.Cpu.TRANSITION_MODE_NONE,
    Autd3.Gen.Cpu.TRANSITION_MODE_SYNC_IDX, Autd3.Gen.Cpu.TRANSITION_MODE_SYS_TIME, Autd3.Gen.Cpu.TRANSITION_MODE_GPIO,
    Autd3.Gen.Cpu.TRANSITION_MODE_EXT, Autd3.Gen.Cpu.TRANSITION_MODE_IMMEDIATE]


/-! ## (5) the swap-chain invariant

`SwapWF w` (Lemmas/SwapWF.lean): `cur, req ∈ {0,1}`; `freq_div ≥ 1` and `cycle ≥ 1` for both segments;
`state = WaitStart → mode ∈ {SyncIdx, SysTime _, GPIO _}` and `req ≠ cur`; and for both segments
`tic_idx_offset[seg] ≤ cycle[seg]` unless `seg` is the target of the pending transition. -/

/-- `Swapchain::update` never panics from a well-formed swap chain — for every GPIO input and every time
(monotone or not) — keeps it well formed, leaves `freq_div`/`cycle` alone and produces `cur_idx < cycle[cur]` -/
theorem swap_update_no_panic (w : Swap) (g : Nat → Bool) (t : Nat) (h : SwapWF w) :
    ∃ w', w.update g t = .ok w' ∧ SwapWF w' ∧ w'.curIdx < sel w'.cycle w'.cur ∧
      w'.freqDiv = w.freqDiv ∧ w'.cycle = w.cycle :=
  update_ok w g t h

/-- hence any number of clock updates at arbitrary times never panics -/
theorem swap_updates_no_panic (g : Nat → Nat → Bool) (ts : List Nat) (w : Swap) (h : SwapWF w) :
    ∃ w', ts.foldlM (fun w t => w.update (g t) t) w = .ok w' ∧ SwapWF w' := by
  induction ts generalizing w with
  | nil => exact ⟨w, rfl, h⟩
  | cons t ts ih =>
    obtain ⟨w1, h1, wf1, _⟩ := update_ok w (g t) t h
    obtain ⟨w2, h2, wf2⟩ := ih w1 wf1
    exact ⟨w2, by simp only [List.foldlM_cons, h1, bind, Except.bind]; exact h2, wf2⟩

/-- `Swapchain::set` never panics from a well-formed swap chain and keeps it well formed when the request is
for a segment in `{0,1}` with non-zero division and cycle, Immediate/Ext only go to the current segment or
carry an infinite loop, and the current segment is not re-requested while a transition is pending (`SetOK`).
The result has the requested mode, division and cycle, and is pending exactly for a finite loop to the other
segment -/
theorem swap_set_preserves (w : Swap) (t rep fd cyc req : Nat) (m : TMode) (h : SwapWF w)
    (hs : SetOK w rep fd cyc req m) :
    ∃ w', w.set t rep fd cyc req m = .ok w' ∧ SwapWF w' ∧ w'.mode = m ∧
      sel w'.freqDiv req = fd ∧ sel w'.cycle req = cyc ∧
      (w'.state = .waitStart ↔ (w.cur ≠ req ∧ rep ≠ 0xFFFF)) ∧
      (w'.cur = if w.cur ≠ req ∧ rep ≠ 0xFFFF then w.cur else req) :=
  set_ok w t rep fd cyc req m h hs

/-- the CPU's `validate_transition_mode` provides the mode side condition of `SetOK` **when its belief is the
swap chain's current segment**: an accepted Ext/Immediate request (any mode byte but `NONE`) goes to the
current segment or carries an infinite loop -/
theorem validate_gives_set_side_condition (belief seg rep modeByte value : Nat) (site : String) (m : TMode)
    (w : Swap) (hb : modeByte < 256) (hne : modeByte ≠ Autd3.Gen.Cpu.TRANSITION_MODE_NONE)
    (hv : validateTransitionMode belief seg rep modeByte = false)
    (hd : decodeTMode modeByte value site = .ok m) (hbel : belief = w.cur) :
    m.waitable = false → w.cur = seg ∨ rep = 0xFFFF :=
  validate_gives_mode belief seg rep modeByte value site m w.cur hb hne hv hd hbel

/-- characterisation of the panics of `Swapchain::update` when only the divisions and cycles are non-zero:
the `unreachable!()` of a pending transition whose mode is Ext/Immediate (F15), or the underflow of
`idx + cycle - tic_idx_offset` (stale start offset, F17/F18) — nothing else -/
theorem swap_update_panics (w : Swap) (g : Nat → Bool) (t : Nat) (e : Panic)
    (fd0 : 1 ≤ w.freqDiv.1) (fd1 : 1 ≤ w.freqDiv.2) (cy0 : 1 ≤ w.cycle.1) (cy1 : 1 ≤ w.cycle.2)
    (h : w.update g t = .error e) :
    (e = .unreachable "Swapchain::update: WaitStart with Ext/Immediate" ∧ w.state = .waitStart ∧
      w.mode.waitable = false) ∨
    e = .overflow "Swapchain::update: idx + cycle - tic_idx_offset" :=
  update_error_cases w g t e fd0 fd1 cy0 cy1 h

/-- **F15 is real in the model** (swap-chain level): a pending finite-loop SyncIdx request to S1 followed by a
finite-loop Immediate request to S1 (accepted by the CPU because its belief already is S1) makes the next
`update` reach `unreachable!()`.  So `SetOK.mode` cannot be dropped. -/
theorem f15_unreachable :
    f15SwapTrace = .error (.unreachable "Swapchain::update: WaitStart with Ext/Immediate") := by rfl

/-- **new finding (F18), swap-chain level**: `SetOK.pending` cannot be dropped either — re-requesting the
current segment with Ext while a transition to a segment with a stale start offset is pending makes a later
`update` underflow `idx + cycle - tic_idx_offset` (a `usize` subtraction: panic in a build with overflow
checks, a wild `cur_idx` otherwise) -/
theorem f18_stale_offset_underflow :
    f18SwapTrace = .error (.overflow "Swapchain::update: idx + cycle - tic_idx_offset") := by rfl

/-! ### non-vacuity: the power-on swap chains are well formed, and so is a pending one -/

example (now : Nat) : SwapWF (powerOnSwap now) :=
  ⟨Nat.zero_le _, Nat.zero_le _, by simp [powerOnSwap], by simp [powerOnSwap], by simp [powerOnSwap],
   by simp [powerOnSwap], (nomatch ·), (nomatch ·),
   fun seg _ => Or.inr (by unfold sel powerOnSwap; split <;> simp)⟩

example : ∃ w, (powerOnSwap 0).set 5 3 40 100 1 (.gpio 2) = .ok w ∧ SwapWF w ∧ w.state = .waitStart := by
  refine ⟨_, rfl, ?_, rfl⟩
  exact ⟨by decide, by decide, by decide, by decide, by decide, by decide, fun _ => rfl, fun _ => by decide,
    fun seg hseg => by
      by_cases h : seg = 1
      · exact Or.inl ⟨rfl, h⟩
      · have : seg = 0 := by omega
        subst this; exact Or.inr (by decide)⟩


/-! ## (6) the firmware state: `FwWF`, clock updates, frames

`FwWF s` (Lemmas/FwSafe.lean): the seven BRAM arrays have their sizes and `numTr ≤ 256`; the internal flag word
carries none of the `MOD_SET`/`STM_SET` request bits; the four sampling-division registers are `≥ 1`; the four
loop-count registers equal the CPU's copies; both swap chains satisfy `SwapWF`.
`Settled s`: the CPU's segment beliefs are the swap chains' current segments and no transition is pending. -/

/-- a clock update (`update_with_sys_time` + `read_fpga_state`) never panics from a well-formed state, at any
time, and keeps it well formed -/
theorem update_no_panic (s : State) (t : Nat) (h : FwWF s) :
    ∃ s', updateWithSysTime s t = .ok s' ∧ FwWF s' ∧ s'.modSegment = s.modSegment ∧ s'.stmSegment = s.stmSegment :=
  updateWithSysTime_safe s t h

/-- every configuration handler (Synchronize, firmware-info, Silencer, force-fan, reads-FPGA-state, PWE table,
phase correction, GPIO outputs, emulate-GPIO-in, CPU-GPIO-out) and every unknown tag: `handle_payload`
returns `.ok`, keeps `FwWF` and does not touch swap chains, loop counts, sampling divisions or beliefs -/
theorem payload_config_no_panic (s : State) (d : Array Nat) (hc : IsCfg d) (h : FwWF s) :
    ∃ s' ack, handlePayload s d = .ok (s', ack) ∧ FwWF s' ∧ SameCore s s' :=
  payload_cfg_safe s d hc h

/-- **no_panic_single**: `ecat_recv` never panics on ANY complete single-frame SDK frame — every tag of the
dispatch table: Clear, Synchronize, firmware-info, Modulation (BEGIN∧END), SwapSegment::Modulation, Silencer,
Gain, SwapSegment::Gain, GainSTM (BEGIN∧END), FociSTM (BEGIN∧END), SwapSegment::{GainSTM,FociSTM}, force-fan,
reads-FPGA-state, PWE, phase correction, GPIO outputs, emulate-GPIO-in, CPU-GPIO-out, and unknown tags — with
the header fields the SDK's packers produce (`FrameOK`/`SwapPayloadOK`: segment ≤ 1, sampling division ≥ 1,
a real transition mode with GPIO pin < 4 when the TRANSITION flag is set, 1 ≤ foci per pattern, the foci of
the frame fit the first page), in one or two slots with at most one swap-type operation per frame, from a
well-formed state in which no transition is pending and the CPU's beliefs are the current segments; and the
state stays well formed.  (Two swap-type operations in one frame can reproduce F15 within a single frame;
a pending transition is exactly the F15/F18 situation — see `f15_unreachable`, `f18_stale_offset_underflow`.) -/
theorem no_panic_single (s : State) (frame : Array Nat) (h : FwWF s) (hst : Settled s)
    (hf : FrameOK frame) : ∃ s', ecatRecv s frame = .ok s' ∧ FwWF s' :=
  ecatRecv_safe s frame h hst hf

/-- per-handler form, every tag of the dispatch table (and unknown tags) -/
theorem payload_no_panic (s : State) (d : Array Nat) (hp : SwapPayloadOK d) (h : FwWF s) (hst : Settled s) :
    ∃ s' ack, handlePayload s d = .ok (s', ack) ∧ FwWF s' :=
  payload_swap_safe s d hp h hst

/-- `Clear` additionally re-establishes `Settled` -/
theorem clear_no_panic (s : State) (d : Array Nat) (h : FwWF s) (hst : Settled s) :
    ∃ s' ack, clear s d = .ok (s', ack) ∧ FwWF s' ∧ Settled s' :=
  clear_safe s d h hst

/-- **power-on**: `CPUEmulator::new(_, numTr)` with `numTr ≤ 256` never panics, whatever the wall clock reads,
and yields a well-formed settled state (so the hypotheses of the theorems above hold at power-on) -/
theorem power_on_wf (numTr now : Nat) (hn : numTr ≤ 256) :
    ∃ s, Fw.new numTr now = .ok s ∧ FwWF s ∧ Settled s :=
  new_safe numTr now hn

/-- configuration frames need no `Settled`, and keep it -/
theorem no_panic_config_frame (s : State) (frame : Array Nat) (h : FwWF s) (hf : CfgFrame frame) :
    ∃ s', ecatRecv s frame = .ok s' ∧ FwWF s' ∧ (Settled s → Settled s') :=
  ecatRecv_cfg_safe s frame h hf

/-- **unbounded trace theorem for the configuration sub-alphabet**: any sequence of configuration frames
(one or two slots) interleaved with clock updates at arbitrary times never panics from a well-formed state -/
theorem no_panic_config_trace (evs : List Ev) (s : State) (h : FwWF s)
    (hall : ∀ f, Ev.frame f ∈ evs → CfgFrame f) : ∃ s', evs.foldlM runEv s = .ok s' ∧ FwWF s' :=
  cfg_trace_safe evs s h hall

/-- the same from power-on: a device created with 249 transducers at any wall-clock time survives every history
of configuration frames and clock updates -/
theorem no_panic_config_trace_from_power_on (now : Nat) (evs : List Ev)
    (hall : ∀ f, Ev.frame f ∈ evs → CfgFrame f) :
    ∃ s', (Fw.new 249 now >>= fun s => evs.foldlM runEv s) = .ok s' ∧ FwWF s' := by
  obtain ⟨s, e, wf, _⟩ := new_safe 249 now (by omega)
  obtain ⟨s', e', wf'⟩ := cfg_trace_safe evs s wf hall
  exact ⟨s', by rw [e]; exact e', wf'⟩

/-- a swap-type frame directly after power-on (or after any `Clear`) is always safe -/
theorem no_panic_first_frame (now : Nat) (frame : Array Nat) (hf : FrameOK frame) :
    ∃ s', (Fw.new 249 now >>= fun s => ecatRecv s frame) = .ok s' ∧ FwWF s' := by
  obtain ⟨s, e, wf, st⟩ := new_safe 249 now (by omega)
  obtain ⟨s', e', wf'⟩ := ecatRecv_safe s frame wf st hf
  exact ⟨s', by rw [e]; exact e', wf'⟩

/-! ### non-vacuity -/

example : FwWF wfExample ∧ Settled wfExample := ⟨wfExample_wf, wfExample_settled⟩
example : CfgFrame silencerFrame := silencerFrame_cfg
example : FrameOK gainSwapFrame := gainSwapFrame_ok
example : ModFrameOK modPayload := modPayload_ok
example : FociFrameOK fociPayload := fociPayload_ok
example : ∃ s' ack, writeMod wfExample modPayload = .ok (s', ack) ∧ FwWF s' :=
  writeMod_safe _ _ wfExample_wf wfExample_settled modPayload_ok
example : ∃ s', ecatRecv wfExample gainSwapFrame = .ok s' ∧ FwWF s' :=
  no_panic_single _ _ wfExample_wf wfExample_settled gainSwapFrame_ok

end Autd3.C19
