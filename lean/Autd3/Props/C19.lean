import Autd3.Model.Fw
/-!
# C19 — the firmware model never aborts on anything the SDK can send
First layer: the swap chain's `set` never leaves it in the state its `update` declares unreachable,
provided the request is one the CPU's own validation lets through for the *actual* current segment.
(The full trace theorem `no_panic` needs the segment belief = request invariant that F15 shows is not
inductive on the current tree; see DESIGN section 6 and the `known:` findings.)
-/
namespace Autd3.C19
open Autd3 Autd3.Fw

/-- after `Swapchain::set`, `state = WaitStart` only in the finite-loop-to-other-segment branch, and the
transition mode is exactly the one requested -/
theorem set_state (w : Swap) (t rep fd cyc req : Nat) (m : TMode) (w' : Swap)
    (h : w.set t rep fd cyc req m = .ok w') :
    w'.mode = m ∧ (w'.state = .waitStart → w.cur ≠ req ∧ rep ≠ 0xFFFF) := by
  unfold Swap.set at h
  by_cases h1 : w.cur = req
  · simp only [h1, if_true, bind, Except.bind] at h
    split at h
    · cases h
    · simp only [pure, Except.pure] at h
      cases h
      exact ⟨rfl, by intro hs; cases hs⟩
  · by_cases h2 : rep = 0xFFFF
    · simp only [h1, h2, if_true, if_false, bind, Except.bind] at h
      split at h
      · cases h
      · simp only [pure, Except.pure] at h
        cases h
        exact ⟨rfl, by intro hs; cases hs⟩
    · simp only [h1, h2, if_false, bind, Except.bind, pure, Except.pure] at h
      cases h
      exact ⟨rfl, fun _ => ⟨h1, h2⟩⟩

/-- a mode byte the SDK can emit (`TransitionMode::mode()`) that `validate_transition_mode` accepts for a
finite loop to the *other* segment is one of the three that `update` handles in `WaitStart`
(so reaching the `unreachable!()` arm needs a stale segment belief) -/
theorem accepted_finite_other_is_waitable :
    ∀ mode ∈ [Autd3.Gen.Cpu.TRANSITION_MODE_SYNC_IDX, Autd3.Gen.Cpu.TRANSITION_MODE_SYS_TIME,
              Autd3.Gen.Cpu.TRANSITION_MODE_GPIO, Autd3.Gen.Cpu.TRANSITION_MODE_EXT,
              Autd3.Gen.Cpu.TRANSITION_MODE_IMMEDIATE],
      ∀ rep : Nat, rep ≠ 0xFFFF → validateTransitionMode 0 1 rep mode = false →
        mode = 0 ∨ mode = 1 ∨ mode = 2 := by
  intro mode hm rep hr h
  unfold validateTransitionMode at h
  simp only [List.mem_cons, List.mem_nil_iff, or_false] at hm
  rcases hm with rfl | rfl | rfl | rfl | rfl <;> simp_all [Autd3.Gen.Cpu.TRANSITION_MODE_NONE,
    Autd3.Gen.Cpu.TRANSITION_MODE_SYNC_IDX, Autd3.Gen.Cpu.TRANSITION_MODE_SYS_TIME, Autd3.Gen.Cpu.TRANSITION_MODE_GPIO,
    Autd3.Gen.Cpu.TRANSITION_MODE_EXT, Autd3.Gen.Cpu.TRANSITION_MODE_IMMEDIATE]

end Autd3.C19
