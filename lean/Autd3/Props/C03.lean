import Autd3.Model.Wire
import Autd3.Lemmas.WireSend
/-!
# C03 — a tuple datagram equals its parts sent in order; frames are well formed
Theorems about `Wire.packOp` / `Wire.packOp2` (mirror of `OperationHandler::{pack_op, pack_op2}`).
-/
namespace Autd3.C03
open Autd3 Autd3.Wire Autd3.Gen
open Autd3.Fw (rd)

/-- the message-id rule: for every previous id byte the new id is in `0..=0x7F` and differs from it -/
theorem msgid_fresh : ∀ m : Fin 256,
    (((m.val + 1) % 256) &&& Drv.MSG_ID_MAX) ≤ 0x7F ∧ (((m.val + 1) % 256) &&& Drv.MSG_ID_MAX) ≠ m.val := by
  decide +kernel

/-- `pack_op` always installs a fresh id and clears the second-slot offset -/
theorem packOp_header (o : Op) (n : Nat) (t : Tx) (o' : Op) (t' : Tx) (sz : Nat)
    (h : packOp o n t = .ok (o', t', sz)) :
    t'.msgId = (((t.msgId + 1) % 256) &&& Drv.MSG_ID_MAX) ∧ t'.slot2 = 0 := by
  unfold packOp at h
  simp only [] at h
  split at h
  · cases h
  · cases h; exact ⟨rfl, rfl⟩

/-- second-slot offset after `pack_op2`: either 0, or exactly the size reported by the first
operation's `pack` of this very frame; and whenever anything was packed the id is fresh -/
theorem slot2_is_first_size (o1 o2 : Op) (n : Nat) (t : Tx) (o1' o2' : Op) (t' : Tx)
    (h : packOp2 o1 o2 n t = .ok (o1', o2', t')) :
    (o1.done = true ∧ o2.done = true ∧ t' = t) ∨
    (t'.msgId = (((t.msgId + 1) % 256) &&& Drv.MSG_ID_MAX) ∧
      (t'.slot2 = 0 ∨ ∃ o1'' t1 sz1, packOp o1 n t = .ok (o1'', t1, sz1) ∧ t'.slot2 = sz1 ∧
          o2.required n ≤ t1.payload.size - sz1)) := by
  unfold packOp2 at h
  split at h
  · cases h; left; simp_all
  · split at h
    · cases h
    · rename_i o2n tn sz heq
      cases h
      right; exact ⟨(packOp_header _ _ _ _ _ _ heq).1, Or.inl (packOp_header _ _ _ _ _ _ heq).2⟩
  · split at h
    · cases h
    · rename_i o1n tn sz heq
      cases h
      right; exact ⟨(packOp_header _ _ _ _ _ _ heq).1, Or.inl (packOp_header _ _ _ _ _ _ heq).2⟩
  · split at h
    · cases h
    · rename_i o1n tn sz1 heq
      have hh := packOp_header _ _ _ _ _ _ heq
      split at h
      · rename_i hfit
        split at h
        · cases h
        · cases h
          right; exact ⟨hh.1, Or.inr ⟨_, _, _, heq, rfl, hfit⟩⟩
      · cases h
        right; exact ⟨hh.1, Or.inl hh.2⟩


/-! ## (1) per-operation contract of `Operation::pack` — every datagram kind, every buffer, every offset

Hypotheses: `o.Inv` (`sent ≤ total`, a `NullOp` is done: holds for `Op.ofDg d` and is preserved), the space
`b.size - off` is even (622 and every first-slot size are even) and the announced `required` size fits. -/

/-- `pack` returns an even size that fits, keeps the buffer size, never writes below `off` (slot 2 never
overwrites slot 1), keeps the datagram and the invariant, never moves `sent` backwards, and makes progress
(`done` or strictly more sent); a pending operation reports at least 2 bytes -/
theorem pack_contract_all (o : Op) (n : Nat) (b : Array Nat) (off : Nat) (o' : Op) (b' : Array Nat) (sz : Nat)
    (hinv : o.Inv) (heven : (b.size - off) % 2 = 0) (hreq : off + o.required n ≤ b.size) (hoff : off ≤ b.size)
    (h : o.pack n b off = .ok (o', b', sz)) :
    sz % 2 = 0 ∧ sz ≤ b.size - off ∧ b'.size = b.size ∧ (∀ i, i < off → rd b' i = rd b i) ∧
    o'.dg = o.dg ∧ o'.Inv ∧ o.sent ≤ o'.sent ∧ (o'.done = true ∨ o.sent < o'.sent) ∧
    (o.done = false → 2 ≤ sz) := by
  obtain ⟨c, k⟩ := Wire.pack_contract hinv heven (by omega) h
  exact ⟨c.even, c.le_avail, k.1, k.2, c.dg, c.inv, c.mono, c.progress, c.pos⟩

/-- `required_is_upper_bound`: a single-frame operation is done after one `pack` and reports exactly the
size `required_size` announced -/
theorem required_is_upper_bound (o : Op) (n : Nat) (b : Array Nat) (off : Nat) (o' : Op) (b' : Array Nat) (sz : Nat)
    (hinv : o.Inv) (heven : (b.size - off) % 2 = 0) (hreq : off + o.required n ≤ b.size)
    (hsingle : o.multi = false) (hpend : o.done = false)
    (h : o.pack n b off = .ok (o', b', sz)) : o'.done = true ∧ sz = o.required n := by
  obtain ⟨c, _⟩ := Wire.pack_contract hinv heven (by omega) h
  exact ⟨(c.single hsingle).1, (c.single hsingle).2 hpend⟩

/-- the termination measure (0 when done, else 1 + units left) strictly decreases with every `pack` -/
theorem pack_measure_decreases (o : Op) (n : Nat) (b : Array Nat) (off : Nat) (o' : Op) (b' : Array Nat) (sz : Nat)
    (hinv : o.Inv) (heven : (b.size - off) % 2 = 0) (hreq : off + o.required n ≤ b.size) (hpend : o.done = false)
    (h : o.pack n b off = .ok (o', b', sz)) : o'.mu < o.mu := by
  obtain ⟨c, _⟩ := Wire.pack_contract hinv heven (by omega) h
  exact c.mu hpend

/-- a datagram that satisfies the SDK's static validity conditions is never rejected by `pack`, in any
reachable state, at any offset -/
theorem pack_accepts_valid (o : Op) (n : Nat) (b : Array Nat) (off : Nat) (hv : o.dg.Valid) (hinv : o.Inv) :
    ∃ o' b' sz, o.pack n b off = .ok (o', b', sz) := by
  obtain ⟨o', sz, h⟩ := next_ok o n (b.size - off) hv hinv
  obtain ⟨b', hb⟩ := next_ok_pack h
  exact ⟨o', b', sz, hb⟩

/-- the state and size computed by `pack` do not depend on the buffer contents, only on the space available -/
theorem pack_state_indep_of_contents (o : Op) (n : Nat) (b c : Array Nat) (off off' : Nat)
    (hsz : b.size - off = c.size - off') : projPack (o.pack n b off) = projPack (o.pack n c off') := by
  rw [pack_next, pack_next, hsz]

/-- with 249 transducers every valid datagram's first frame fits the 622-byte payload -/
theorem valid_fits_622 (d : Dg) (hv : d.Valid) : (Op.ofDg d).required 249 ≤ 622 := by
  cases d <;> simp only [Op.required, Op.ofDg, DrvLayout.Clear_size,
      DrvLayout.Sync_size, DrvLayout.ForceFan_size, DrvLayout.ReadsFPGAState_size, DrvLayout.CpuGPIOOut_size,
      DrvLayout.EmulateGPIOIn_size, DrvLayout.DebugSetting_size, DrvLayout.PhaseCorr_size, DrvLayout.Pwe_size,
      DrvLayout.SilencerFixedCompletionSteps_size, DrvLayout.SilencerFixedUpdateRate_size, DrvLayout.FirmInfo_size,
      DrvLayout.SwapSegmentTWithTransition_size, DrvLayout.SwapSegmentT_size, DrvLayout.Gain_size,
      DrvLayout.ModulationHead_size, DrvLayout.FociSTMHead_size, DrvLayout.GainSTMHead_size, Drv.PWE_BUF_SIZE,
      if_true] <;> try omega
  case fociStm nf _ _ _ _ _ _ =>
    simp only [Dg.Valid, Drv.FOCI_STM_FOCI_NUM_MAX] at hv
    omega

/-! ## (2) `slot2_wellformed` -/

/-- every frame produced by `pack_op2` from reachable operation states into an even-sized payload that can
hold each operation alone: the payload keeps its size; if anything was packed the id is fresh (`≤ 0x7F`,
different from the previous id byte); and the second-slot offset is 0 or else it is exactly the size `sz1`
reported by the first `pack` of this frame, even, non-zero, the second operation was packed at that offset
into the buffer left by the first, `sz1 + sz2` fits the payload, and the bytes of the first slot are intact -/
theorem slot2_wellformed (o1 o2 : Op) (n : Nat) (t : Tx) (o1' o2' : Op) (t' : Tx)
    (hi1 : o1.Inv) (hi2 : o2.Inv) (hS : t.payload.size % 2 = 0)
    (hf1 : o1.done = false → o1.required n ≤ t.payload.size)
    (hf2 : o2.done = false → o2.required n ≤ t.payload.size)
    (h : packOp2 o1 o2 n t = .ok (o1', o2', t')) :
    t'.payload.size = t.payload.size ∧ o1'.Inv ∧ o2'.Inv ∧
    (¬(o1.done = true ∧ o2.done = true) →
      (t'.msgId ≤ 0x7F ∧ (t.msgId < 256 → t'.msgId ≠ t.msgId)) ∧
      (t'.slot2 = 0 ∨ ∃ b1 sz1 sz2, o1.pack n t.payload 0 = .ok (o1', b1, sz1) ∧
        o2.pack n b1 sz1 = .ok (o2', t'.payload, sz2) ∧ t'.slot2 = sz1 ∧ sz1 % 2 = 0 ∧ 2 ≤ sz1 ∧
        sz1 + sz2 ≤ t.payload.size ∧ (∀ i, i < sz1 → rd t'.payload i = rd b1 i))) := by
  have w := packOp2_wf o1 o2 n t o1' o2' t' hi1 hi2 hS hf1 hf2 h
  refine ⟨w.size, w.inv1, w.inv2, fun hnd => ⟨(w.msgid hnd).2, ?_⟩⟩
  rcases w.slot2 hnd with h0 | ⟨b1, sz1, sz2, p1, p2, e, ev, pos, _, fit, _, k⟩
  · exact Or.inl h0
  · exact Or.inr ⟨b1, sz1, sz2, p1, p2, e, ev, pos, fit, k.2⟩

/-- the same for the real device: 249 transducers, the 622-byte payload of a `TxMessage`, valid datagrams -/
theorem slot2_wellformed_622 (o1 o2 : Op) (t : Tx) (o1' o2' : Op) (t' : Tx)
    (hv1 : o1.dg.Valid) (hv2 : o2.dg.Valid) (hi1 : o1.Inv) (hi2 : o2.Inv) (hS : t.payload.size = 622)
    (h : packOp2 o1 o2 249 t = .ok (o1', o2', t')) :
    t'.payload.size = 622 ∧
    (¬(o1.done = true ∧ o2.done = true) →
      (t'.msgId ≤ 0x7F ∧ (t.msgId < 256 → t'.msgId ≠ t.msgId)) ∧
      (t'.slot2 = 0 ∨ ∃ b1 sz1 sz2, o1.pack 249 t.payload 0 = .ok (o1', b1, sz1) ∧
        o2.pack 249 b1 sz1 = .ok (o2', t'.payload, sz2) ∧ t'.slot2 = sz1 ∧ sz1 % 2 = 0 ∧ 2 ≤ sz1 ∧
        sz1 + sz2 ≤ 622 ∧ (∀ i, i < sz1 → rd t'.payload i = rd b1 i))) := by
  have f1 := Nat.le_trans (required_le_first o1 249) (valid_fits_622 o1.dg hv1)
  have f2 := Nat.le_trans (required_le_first o2 249) (valid_fits_622 o2.dg hv2)
  have := slot2_wellformed o1 o2 249 t o1' o2' t' hi1 hi2 (by rw [hS]) (fun _ => by rw [hS]; exact f1)
    (fun _ => by rw [hS]; exact f2) h
  rw [hS] at this
  exact ⟨this.1, this.2.2.2⟩

/-- every frame the sender loop transmits for a pair of datagrams is well formed in the sense of
`slot2_wellformed` (`StepWF` relates frame `i` to the sender state it was packed from: the initial state for
`i = 0`, the state after frame `i-1` otherwise) — including the frames sent before a rejection -/
theorem send_frames_wellformed (A B : Dg) (n : Nat) (t : Tx) (hS : t.payload.size % 2 = 0)
    (hfA : (Op.ofDg A).required n ≤ t.payload.size) (hfB : (Op.ofDg B).required n ≤ t.payload.size) :
    let s : SendSt := (Op.ofDg A, Op.ofDg B, t)
    ∀ (i : Nat) (h : i < (sendLoop n s).1.length),
      StepWF ((s :: (sendLoop n s).1)[i]'(by simp; omega)).1 ((s :: (sendLoop n s).1)[i]'(by simp; omega)).2.1 n
        ((s :: (sendLoop n s).1)[i]'(by simp; omega)).2.2
        ((sendLoop n s).1[i]).1 ((sendLoop n s).1[i]).2.1 ((sendLoop n s).1[i]).2.2 := by
  intro s
  exact sendLoop_stepwf hS s ⟨ofDg_inv A, ofDg_inv B, rfl, hfA, hfB⟩

/-! ## (3) termination of the pack loop and `frames_bounded` -/

/-- the sender loop (defined by recursion on the remaining units, no fuel) for two valid datagrams is never
rejected and never stuck, transmits at least one and at most `max 1 (μ A + μ B)` frames
(`μ d = 1 + number of samples / patterns` for a multi-frame datagram, `1` for a single-frame one, `0` for
`NullOp`), and ends with both operations done -/
theorem send_terminates (A B : Dg) (n : Nat) (t : Tx) (hS : t.payload.size % 2 = 0) (hA : A.Valid) (hB : B.Valid)
    (hfA : (Op.ofDg A).required n ≤ t.payload.size) (hfB : (Op.ofDg B).required n ≤ t.payload.size) :
    let r := sendLoop n (Op.ofDg A, Op.ofDg B, t)
    r.2 = none ∧ 1 ≤ r.1.length ∧ r.1.length ≤ max 1 ((Op.ofDg A).mu + (Op.ofDg B).mu) ∧
    ∃ q, r.1.getLast? = some q ∧ q.1.done = true ∧ q.2.1.done = true := by
  intro r
  have hl := sendLoop_opLoop n (Op.ofDg A, Op.ofDg B, t)
  obtain ⟨e1, e2, e3, q, e4, e5⟩ := opLoop_finishes n t.payload.size hS (Op.ofDg A, Op.ofDg B)
    (good_ofDg hA hfA) (good_ofDg hB hfB)
  simp only [frames2] at e2 e3
  simp only at hl
  rw [hl] at e1 e2 e3 e4
  simp only [List.length_map, Option.map_eq_none_iff] at e1 e2 e3
  refine ⟨e1, e2, e3, ?_⟩
  simp only [List.getLast?_map, Option.map_eq_some_iff] at e4
  obtain ⟨x, hx, hxq⟩ := e4
  refine ⟨x, hx, ?_⟩
  subst hxq
  simpa [fin2] using e5

/-- **frames_bounded**: the tuple `(A, B)` never needs more frames than `A` alone (sent with `NullOp`, as the
SDK does for a single datagram) plus `B` alone — whatever the contents and message ids of the three
transmit buffers, for every number of transducers and every even payload size in which each fits -/
theorem frames_bounded (A B : Dg) (n : Nat) (t tA tB : Tx) (hS : t.payload.size % 2 = 0)
    (hsA : tA.payload.size = t.payload.size) (hsB : tB.payload.size = t.payload.size)
    (hA : A.Valid) (hB : B.Valid)
    (hfA : (Op.ofDg A).required n ≤ t.payload.size) (hfB : (Op.ofDg B).required n ≤ t.payload.size) :
    framesOf A B n t ≤ framesOf A .null n tA + framesOf .null B n tB := by
  have h := frames2_bounded n t.payload.size hS (Op.ofDg A) (Op.ofDg B) (good_ofDg hA hfA) (good_ofDg hB hfB)
  have l := sendLoop_opLoop n (Op.ofDg A, Op.ofDg B, t)
  have lA := sendLoop_opLoop n (Op.ofDg A, Op.ofDg .null, tA)
  have lB := sendLoop_opLoop n (Op.ofDg .null, Op.ofDg B, tB)
  simp only [hsA, hsB] at l lA lB
  simp only [frames2, nullOp, l, lA, lB, List.length_map] at h
  exact h

/-- the same for the real device -/
theorem frames_bounded_622 (A B : Dg) (t tA tB : Tx) (hS : t.payload.size = 622)
    (hsA : tA.payload.size = 622) (hsB : tB.payload.size = 622) (hA : A.Valid) (hB : B.Valid) :
    framesOf A B 249 t ≤ framesOf A .null 249 tA + framesOf .null B 249 tB :=
  frames_bounded A B 249 t tA tB (by rw [hS]) (by rw [hS, hsA]) (by rw [hS, hsB]) hA hB
    (by rw [hS]; exact valid_fits_622 A hA) (by rw [hS]; exact valid_fits_622 B hB)

/-! ### non-vacuity -/

example : ({} : Tx).payload.size = 622 := by
  simp [Drv.EC_OUTPUT_FRAME_SIZE, DrvLayout.Header_size]
example : (Op.ofDg (.modulation 0 none 0xFFFF 10 (Array.replicate 40000 7))).Inv := ofDg_inv _
example : (Dg.modulation 0 none 0xFFFF 10 (Array.replicate 40000 7)).Valid := by
  simp [Dg.Valid, Drv.MOD_BUF_SIZE_MIN, Drv.MOD_BUF_SIZE_MAX]
example : (Dg.gain 1 (some (255, 0)) (Array.replicate 249 0x80FF)).Valid := by
  intro m v h; cases h; rfl
example : (Dg.fociStm 8 0 none 0xFFFF 4000 340 (Array.replicate 800 5)).Valid := by
  simp [Dg.Valid, Drv.FOCI_STM_FOCI_NUM_MAX, Drv.STM_BUF_SIZE_MIN, Drv.FOCI_STM_BUF_SIZE_MAX]

end Autd3.C03
