import Autd3.Model.Wire
import Autd3.Model.Fw
import Autd3.Lemmas.WireSend
import Autd3.Lemmas.TupleSend
import Autd3.Lemmas.P02ClearObs
import Autd3.Lemmas.Tuple2CfgPairs
/-!
# C03 — a tuple datagram equals its parts sent in order; frames are well formed
Theorems about `Wire.packOp` / `Wire.packOp2` (mirror of `OperationHandler::{pack_op, pack_op2}`).
-/
namespace Autd3.C03
open Autd3 Autd3.Wire Autd3.Gen
open Autd3.Fw (rd)

/-- the message-id rule: for every previous id byte the new id is in `0..=0x7F` and differs from it -/
theorem msgid_fresh : ∀ m : Fin 256,
    (((m.val + 1) % 256) &&& Drv.MSG_ID_MAX) ≤ 0x7F ∧ (((m.val + 1) % 256) &&& Drv.MSG_ID_MAX) ≠ m.val := by
  decide +kernel

/-- `pack_op` always installs a fresh id and clears the second-slot offset -/
theorem packOp_header (o : Op) (n : Nat) (t : Tx) (o' : Op) (t' : Tx) (sz : Nat)
    (h : packOp o n t = .ok (o', t', sz)) :
    t'.msgId = (((t.msgId + 1) % 256) &&& Drv.MSG_ID_MAX) ∧ t'.slot2 = 0 := by
  unfold packOp at h
  simp only [] at h
  split at h
  · cases h
  · cases h; exact ⟨rfl, rfl⟩

/-- second-slot offset after `pack_op2`: either 0, or exactly the size reported by the first
operation's `pack` of this very frame; and whenever anything was packed the id is fresh -/
theorem slot2_is_first_size (o1 o2 : Op) (n : Nat) (t : Tx) (o1' o2' : Op) (t' : Tx)
    (h : packOp2 o1 o2 n t = .ok (o1', o2', t')) :
    (o1.done = true ∧ o2.done = true ∧ t' = t) ∨
    (t'.msgId = (((t.msgId + 1) % 256) &&& Drv.MSG_ID_MAX) ∧
      (t'.slot2 = 0 ∨ ∃ o1'' t1 sz1, packOp o1 n t = .ok (o1'', t1, sz1) ∧ t'.slot2 = sz1 ∧
          o2.required n ≤ t1.payload.size - sz1)) := by
  unfold packOp2 at h
  split at h
  · cases h; left; simp_all
  · split at h
    · cases h
    · rename_i o2n tn sz heq
      cases h
      right; exact ⟨(packOp_header _ _ _ _ _ _ heq).1, Or.inl (packOp_header _ _ _ _ _ _ heq).2⟩
  · split at h
    · cases h
    · rename_i o1n tn sz heq
      cases h
      right; exact ⟨(packOp_header _ _ _ _ _ _ heq).1, Or.inl (packOp_header _ _ _ _ _ _ heq).2⟩
  · split at h
    · cases h
    · rename_i o1n tn sz1 heq
      have hh := packOp_header _ _ _ _ _ _ heq
      split at h
      · rename_i hfit
        split at h
        · cases h
        · cases h
          right; exact ⟨hh.1, Or.inr ⟨_, _, _, heq, rfl, hfit⟩⟩
      · cases h
        right; exact ⟨hh.1, Or.inl hh.2⟩


/-! ## (1) per-operation contract of `Operation::pack` — every datagram kind, every buffer, every offset

Hypotheses: `o.Inv` (`sent ≤ total`, a `NullOp` is done: holds for `Op.ofDg d` and is preserved), the space
`b.size - off` is even (622 and every first-slot size are even) and the announced `required` size fits. -/

/-- `pack` returns an even size that fits, keeps the buffer size, never writes below `off` (slot 2 never
overwrites slot 1), keeps the datagram and the invariant, never moves `sent` backwards, and makes progress
(`done` or strictly more sent); a pending operation reports at least 2 bytes -/
theorem pack_contract_all (o : Op) (n : Nat) (b : Array Nat) (off : Nat) (o' : Op) (b' : Array Nat) (sz : Nat)
    (hinv : o.Inv) (heven : (b.size - off) % 2 = 0) (hreq : off + o.required n ≤ b.size) (hoff : off ≤ b.size)
    (h : o.pack n b off = .ok (o', b', sz)) :
    sz % 2 = 0 ∧ sz ≤ b.size - off ∧ b'.size = b.size ∧ (∀ i, i < off → rd b' i = rd b i) ∧
    o'.dg = o.dg ∧ o'.Inv ∧ o.sent ≤ o'.sent ∧ (o'.done = true ∨ o.sent < o'.sent) ∧
    (o.done = false → 2 ≤ sz) := by
  obtain ⟨c, k⟩ := Wire.pack_contract hinv heven (by omega) h
  exact ⟨c.even, c.le_avail, k.1, k.2, c.dg, c.inv, c.mono, c.progress, c.pos⟩

/-- `required_is_upper_bound`: a single-frame operation is done after one `pack` and reports exactly the
size `required_size` announced -/
theorem required_is_upper_bound (o : Op) (n : Nat) (b : Array Nat) (off : Nat) (o' : Op) (b' : Array Nat) (sz : Nat)
    (hinv : o.Inv) (heven : (b.size - off) % 2 = 0) (hreq : off + o.required n ≤ b.size)
    (hsingle : o.multi = false) (hpend : o.done = false)
    (h : o.pack n b off = .ok (o', b', sz)) : o'.done = true ∧ sz = o.required n := by
  obtain ⟨c, _⟩ := Wire.pack_contract hinv heven (by omega) h
  exact ⟨(c.single hsingle).1, (c.single hsingle).2 hpend⟩

/-- the termination measure (0 when done, else 1 + units left) strictly decreases with every `pack` -/
theorem pack_measure_decreases (o : Op) (n : Nat) (b : Array Nat) (off : Nat) (o' : Op) (b' : Array Nat) (sz : Nat)
    (hinv : o.Inv) (heven : (b.size - off) % 2 = 0) (hreq : off + o.required n ≤ b.size) (hpend : o.done = false)
    (h : o.pack n b off = .ok (o', b', sz)) : o'.mu < o.mu := by
  obtain ⟨c, _⟩ := Wire.pack_contract hinv heven (by omega) h
  exact c.mu hpend

/-- a datagram that satisfies the SDK's static validity conditions is never rejected by `pack`, in any
reachable state, at any offset -/
theorem pack_accepts_valid (o : Op) (n : Nat) (b : Array Nat) (off : Nat) (hv : o.dg.Valid) (hinv : o.Inv) :
    ∃ o' b' sz, o.pack n b off = .ok (o', b', sz) := by
  obtain ⟨o', sz, h⟩ := next_ok o n (b.size - off) hv hinv
  obtain ⟨b', hb⟩ := next_ok_pack h
  exact ⟨o', b', sz, hb⟩

/-- the state and size computed by `pack` do not depend on the buffer contents, only on the space available -/
theorem pack_state_indep_of_contents (o : Op) (n : Nat) (b c : Array Nat) (off off' : Nat)
    (hsz : b.size - off = c.size - off') : projPack (o.pack n b off) = projPack (o.pack n c off') := by
  rw [pack_next, pack_next, hsz]

/-- with 249 transducers every valid datagram's first frame fits the 622-byte payload -/
theorem valid_fits_622 (d : Dg) (hv : d.Valid) : (Op.ofDg d).required 249 ≤ 622 := by
  cases d <;> simp only [Op.required, Op.ofDg, DrvLayout.Clear_size,
      DrvLayout.Sync_size, DrvLayout.ForceFan_size, DrvLayout.ReadsFPGAState_size, DrvLayout.CpuGPIOOut_size,
      DrvLayout.EmulateGPIOIn_size, DrvLayout.DebugSetting_size, DrvLayout.PhaseCorr_size, DrvLayout.Pwe_size,
      DrvLayout.SilencerFixedCompletionSteps_size, DrvLayout.SilencerFixedUpdateRate_size, DrvLayout.FirmInfo_size,
      DrvLayout.SwapSegmentTWithTransition_size, DrvLayout.SwapSegmentT_size, DrvLayout.Gain_size,
      DrvLayout.ModulationHead_size, DrvLayout.FociSTMHead_size, DrvLayout.GainSTMHead_size, Drv.PWE_BUF_SIZE,
      if_true] <;> try omega
  case fociStm nf _ _ _ _ _ _ =>
    simp only [Dg.Valid, Drv.FOCI_STM_FOCI_NUM_MAX] at hv
    omega

/-! ## (2) `slot2_wellformed` -/

/-- every frame produced by `pack_op2` from reachable operation states into an even-sized payload that can
hold each operation alone: the payload keeps its size; if anything was packed the id is fresh (`≤ 0x7F`,
different from the previous id byte); and the second-slot offset is 0 or else it is exactly the size `sz1`
reported by the first `pack` of this frame, even, non-zero, the second operation was packed at that offset
into the buffer left by the first, `sz1 + sz2` fits the payload, and the bytes of the first slot are intact -/
theorem slot2_wellformed (o1 o2 : Op) (n : Nat) (t : Tx) (o1' o2' : Op) (t' : Tx)
    (hi1 : o1.Inv) (hi2 : o2.Inv) (hS : t.payload.size % 2 = 0)
    (hf1 : o1.done = false → o1.required n ≤ t.payload.size)
    (hf2 : o2.done = false → o2.required n ≤ t.payload.size)
    (h : packOp2 o1 o2 n t = .ok (o1', o2', t')) :
    t'.payload.size = t.payload.size ∧ o1'.Inv ∧ o2'.Inv ∧
    (¬(o1.done = true ∧ o2.done = true) →
      (t'.msgId ≤ 0x7F ∧ (t.msgId < 256 → t'.msgId ≠ t.msgId)) ∧
      (t'.slot2 = 0 ∨ ∃ b1 sz1 sz2, o1.pack n t.payload 0 = .ok (o1', b1, sz1) ∧
        o2.pack n b1 sz1 = .ok (o2', t'.payload, sz2) ∧ t'.slot2 = sz1 ∧ sz1 % 2 = 0 ∧ 2 ≤ sz1 ∧
        sz1 + sz2 ≤ t.payload.size ∧ (∀ i, i < sz1 → rd t'.payload i = rd b1 i))) := by
  have w := packOp2_wf o1 o2 n t o1' o2' t' hi1 hi2 hS hf1 hf2 h
  refine ⟨w.size, w.inv1, w.inv2, fun hnd => ⟨(w.msgid hnd).2, ?_⟩⟩
  rcases w.slot2 hnd with h0 | ⟨b1, sz1, sz2, p1, p2, e, ev, pos, _, fit, _, k⟩
  · exact Or.inl h0
  · exact Or.inr ⟨b1, sz1, sz2, p1, p2, e, ev, pos, fit, k.2⟩

/-- the same for the real device: 249 transducers, the 622-byte payload of a `TxMessage`, valid datagrams -/
theorem slot2_wellformed_622 (o1 o2 : Op) (t : Tx) (o1' o2' : Op) (t' : Tx)
    (hv1 : o1.dg.Valid) (hv2 : o2.dg.Valid) (hi1 : o1.Inv) (hi2 : o2.Inv) (hS : t.payload.size = 622)
    (h : packOp2 o1 o2 249 t = .ok (o1', o2', t')) :
    t'.payload.size = 622 ∧
    (¬(o1.done = true ∧ o2.done = true) →
      (t'.msgId ≤ 0x7F ∧ (t.msgId < 256 → t'.msgId ≠ t.msgId)) ∧
      (t'.slot2 = 0 ∨ ∃ b1 sz1 sz2, o1.pack 249 t.payload 0 = .ok (o1', b1, sz1) ∧
        o2.pack 249 b1 sz1 = .ok (o2', t'.payload, sz2) ∧ t'.slot2 = sz1 ∧ sz1 % 2 = 0 ∧ 2 ≤ sz1 ∧
        sz1 + sz2 ≤ 622 ∧ (∀ i, i < sz1 → rd t'.payload i = rd b1 i))) := by
  have f1 := Nat.le_trans (required_le_first o1 249) (valid_fits_622 o1.dg hv1)
  have f2 := Nat.le_trans (required_le_first o2 249) (valid_fits_622 o2.dg hv2)
  have := slot2_wellformed o1 o2 249 t o1' o2' t' hi1 hi2 (by rw [hS]) (fun _ => by rw [hS]; exact f1)
    (fun _ => by rw [hS]; exact f2) h
  rw [hS] at this
  exact ⟨this.1, this.2.2.2⟩

/-- every frame the sender loop transmits for a pair of datagrams is well formed in the sense of
`slot2_wellformed` (`StepWF` relates frame `i` to the sender state it was packed from: the initial state for
`i = 0`, the state after frame `i-1` otherwise) — including the frames sent before a rejection -/
theorem send_frames_wellformed (A B : Dg) (n : Nat) (t : Tx) (hS : t.payload.size % 2 = 0)
    (hfA : (Op.ofDg A).required n ≤ t.payload.size) (hfB : (Op.ofDg B).required n ≤ t.payload.size) :
    let s : SendSt := (Op.ofDg A, Op.ofDg B, t)
    ∀ (i : Nat) (h : i < (sendLoop n s).1.length),
      StepWF ((s :: (sendLoop n s).1)[i]'(by simp; omega)).1 ((s :: (sendLoop n s).1)[i]'(by simp; omega)).2.1 n
        ((s :: (sendLoop n s).1)[i]'(by simp; omega)).2.2
        ((sendLoop n s).1[i]).1 ((sendLoop n s).1[i]).2.1 ((sendLoop n s).1[i]).2.2 := by
  intro s
  exact sendLoop_stepwf hS s ⟨ofDg_inv A, ofDg_inv B, rfl, hfA, hfB⟩

/-! ## (3) termination of the pack loop and `frames_bounded` -/

/-- the sender loop (defined by recursion on the remaining units, no fuel) for two valid datagrams is never
rejected and never stuck, transmits at least one and at most `max 1 (μ A + μ B)` frames
(`μ d = 1 + number of samples / patterns` for a multi-frame datagram, `1` for a single-frame one, `0` for
`NullOp`), and ends with both operations done -/
theorem send_terminates (A B : Dg) (n : Nat) (t : Tx) (hS : t.payload.size % 2 = 0) (hA : A.Valid) (hB : B.Valid)
    (hfA : (Op.ofDg A).required n ≤ t.payload.size) (hfB : (Op.ofDg B).required n ≤ t.payload.size) :
    let r := sendLoop n (Op.ofDg A, Op.ofDg B, t)
    r.2 = none ∧ 1 ≤ r.1.length ∧ r.1.length ≤ max 1 ((Op.ofDg A).mu + (Op.ofDg B).mu) ∧
    ∃ q, r.1.getLast? = some q ∧ q.1.done = true ∧ q.2.1.done = true := by
  intro r
  have hl := sendLoop_opLoop n (Op.ofDg A, Op.ofDg B, t)
  obtain ⟨e1, e2, e3, q, e4, e5⟩ := opLoop_finishes n t.payload.size hS (Op.ofDg A, Op.ofDg B)
    (good_ofDg hA hfA) (good_ofDg hB hfB)
  simp only [frames2] at e2 e3
  simp only at hl
  rw [hl] at e1 e2 e3 e4
  simp only [List.length_map, Option.map_eq_none_iff] at e1 e2 e3
  refine ⟨e1, e2, e3, ?_⟩
  simp only [List.getLast?_map, Option.map_eq_some_iff] at e4
  obtain ⟨x, hx, hxq⟩ := e4
  refine ⟨x, hx, ?_⟩
  subst hxq
  simpa [fin2] using e5

/-- **frames_bounded**: the tuple `(A, B)` never needs more frames than `A` alone (sent with `NullOp`, as the
SDK does for a single datagram) plus `B` alone — whatever the contents and message ids of the three
transmit buffers, for every number of transducers and every even payload size in which each fits -/
theorem frames_bounded (A B : Dg) (n : Nat) (t tA tB : Tx) (hS : t.payload.size % 2 = 0)
    (hsA : tA.payload.size = t.payload.size) (hsB : tB.payload.size = t.payload.size)
    (hA : A.Valid) (hB : B.Valid)
    (hfA : (Op.ofDg A).required n ≤ t.payload.size) (hfB : (Op.ofDg B).required n ≤ t.payload.size) :
    framesOf A B n t ≤ framesOf A .null n tA + framesOf .null B n tB := by
  have h := frames2_bounded n t.payload.size hS (Op.ofDg A) (Op.ofDg B) (good_ofDg hA hfA) (good_ofDg hB hfB)
  have l := sendLoop_opLoop n (Op.ofDg A, Op.ofDg B, t)
  have lA := sendLoop_opLoop n (Op.ofDg A, Op.ofDg .null, tA)
  have lB := sendLoop_opLoop n (Op.ofDg .null, Op.ofDg B, tB)
  simp only [hsA, hsB] at l lA lB
  simp only [frames2, nullOp, l, lA, lB, List.length_map] at h
  exact h

/-- the same for the real device -/
theorem frames_bounded_622 (A B : Dg) (t tA tB : Tx) (hS : t.payload.size = 622)
    (hsA : tA.payload.size = 622) (hsB : tB.payload.size = 622) (hA : A.Valid) (hB : B.Valid) :
    framesOf A B 249 t ≤ framesOf A .null 249 tA + framesOf .null B 249 tB :=
  frames_bounded A B 249 t tA tB (by rw [hS]) (by rw [hS, hsA]) (by rw [hS, hsB]) hA hB
    (by rw [hS]; exact valid_fits_622 A hA) (by rw [hS]; exact valid_fits_622 B hB)


/-! ## (4) tuple = sequence: the firmware side (`Fw.ecatRecv`) and the send loops (`Wire` ∘ `Fw`)

Definitions used below (all in `Lemmas/Tuple*.lean`, `Lemmas/RtSend.lean`):
`Rt.pre s id` = `read_fpga_state` of `s` with `lastMsgId := id` (what the handlers see);
`Rt.fin s id` = `s` with `CTL_FLAG := flagsInternal`, `ack := id` (end of an accepted frame);
`Tuple.Eqv s s'`: all fields of the device state equal except `ack`, `lastMsgId`, `rxData`;
`Tuple.Eqv0 s s'`: additionally the register `CTL_FLAG` (`ctl[0]`) may differ;
`Tuple.RelRes` / `Tuple.RelFinal`: equality of handler / frame results up to these relations;
`Rt.Sends A s t t' s'` (send loop of one datagram: `pack_op`, deliver, stop on error ack, until done) and
`Tuple.Sends2 A B s t t' s'` (the same loop with `pack_op2` for the pair). -/

open Autd3.Fw Autd3.Tuple in
/-- **slot2_is_sequential** — exactly what `ecat_recv` does with a frame, for EVERY state and EVERY frame:
a repeated message id is ignored; an id with bit 7 is refused; otherwise slot 1 is handled on the state with
the id latched; if slot 1 is rejected (error bit in its ack) the frame ends there — slot 2 is NOT executed and
the ack is slot 1's error; if the header announces no second slot the frame is finished; a second-slot offset
beyond the frame is a panic (index out of range) — raised only after slot 1 has been executed; otherwise slot 2
is handled on exactly the state slot 1 left (with `ack` = slot 1's code) and its rejection ends the frame with
its error, else the frame is finished.  I.e. the device handles `a` and then `b`, in this order, and nothing
happens in between. -/
theorem slot2_is_sequential (s : State) (frame : Array Nat) :
    ecatRecv s frame =
      if s.lastMsgId = u8at frame 0 then .ok s
      else if u8at frame 0 &&& 0x80 ≠ 0 then .ok { Rt.pre s (u8at frame 0) with ack := Cpu.ERR_INVALID_MSG_ID }
      else
        match handlePayload (Rt.pre s (u8at frame 0)) (frame.extract 4 frame.size) with
        | .error e => .error e
        | .ok (s1, a1) =>
          if a1 &&& Cpu.ERR_BIT ≠ 0 then .ok { s1 with ack := a1 }
          else if u16at frame 2 = 0 then .ok (Rt.fin s1 (u8at frame 0))
          else if 4 + u16at frame 2 > frame.size then .error (.index "ecat_recv: slot 2 offset")
          else
            match handlePayload { s1 with ack := a1 } (frame.extract (4 + u16at frame 2) frame.size) with
            | .error e => .error e
            | .ok (s2, a2) =>
              if a2 &&& Cpu.ERR_BIT ≠ 0 then .ok { s2 with ack := a2 } else .ok (Rt.fin s2 (u8at frame 0)) := by
  rw [ecatRecv_body]; rfl

open Autd3.Fw Autd3.Tuple in
/-- **one frame with two slots against two single-slot frames** (any state, any payloads).  `F` carries both
operations (slot-2 offset `k ≠ 0` inside the frame), `F1` is `F` with the slot-2 offset cleared, `F2` carries the
slot-2 part of `F`'s payload under a different id.  Slot 1 returns `(s1, a1)`.
* If slot 1 is rejected, `F` and `F1` leave the device in the same state: slot 2 is skipped.
* If slot 1 is accepted and the slot-2 handler run does not depend on `ack`, `lastMsgId`, `rxData`, `CTL_FLAG`
  (hypothesis `hins`; `cfg_handlers_insensitive` discharges it for the configuration handlers), then `F` and
  `F1; F2` end the same way (`RelFinal`): both acknowledged and the states equal except `ack`, `lastMsgId`, `rxData`;
  or both rejected by slot 2 with the same code (states equal except those and `CTL_FLAG`); or the same panic. -/
theorem slot2_equals_two_frames (s : State) (F F1 F2 : Array Nat) (id id2 k : Nat) (s1 : State) (a1 : Nat)
    (hF : u8at F 0 = id ∧ u16at F 2 = k) (hF1 : u8at F1 0 = id ∧ u16at F1 2 = 0)
    (hF2 : u8at F2 0 = id2 ∧ u16at F2 2 = 0)
    (hP1 : F1.extract 4 F1.size = F.extract 4 F.size) (hP2 : F2.extract 4 F2.size = F.extract (4 + k) F.size)
    (hfresh : s.lastMsgId ≠ id) (hid : id &&& 0x80 = 0) (hid2 : id2 &&& 0x80 = 0)
    (hk : k ≠ 0) (hfit : 4 + k ≤ F.size)
    (h1 : handlePayload (Rt.pre s id) (F.extract 4 F.size) = .ok (s1, a1)) (hl : s1.lastMsgId ≠ id2)
    (hins : ∀ s', Eqv0 { s1 with ack := a1 } s' →
      RelRes (handlePayload { s1 with ack := a1 } (F.extract (4 + k) F.size)) (handlePayload s' (F.extract (4 + k) F.size))) :
    (a1 &&& Cpu.ERR_BIT ≠ 0 → ecatRecv s F = .ok { s1 with ack := a1 } ∧ ecatRecv s F1 = .ok { s1 with ack := a1 }) ∧
    (a1 &&& Cpu.ERR_BIT = 0 → ecatRecv s F1 = .ok (Rt.fin s1 id) ∧
      RelFinal id id2 (ecatRecv s F) (ecatRecv (Rt.fin s1 id) F2)) :=
  two_slots_two_frames s F F1 F2 id id2 k s1 a1 hF hF1 hF2 hP1 hP2 hfresh hid hid2 hk hfit h1 hl hins

open Autd3.Fw Autd3.Tuple in
/-- the eight configuration handlers (Synchronize, Silencer — both modes —, ForceFan, ReadsFPGAState,
pulse-width table, GPIO outputs/debug, GPIO-in emulation, CPU GPIO out; selected by the tag byte, `cfgTable`)
do not depend on `ack`, `lastMsgId`, `rxData`, `CTL_FLAG`, on every well-formed state and for every payload -/
theorem cfg_handlers_insensitive (K : Nat) (s s' : State) (p : Array Nat) (hW : P02.WF s)
    (hK : (u8at p 0, K) ∈ cfgTable) (e : Eqv0 s s') : RelRes (handlePayload s p) (handlePayload s' p) :=
  cfg_insensitive K s s' p hW hK e

open Autd3.Fw Autd3.Tuple Autd3.Rt in
/-- **tuple_equiv_single_frame** (partial in the datagram kinds only).  For every pair `A`, `B` of the nine
single-frame configuration datagrams `IsCfg` = Synchronize, ForceFan, ReadsFPGAState, CpuGPIOOut, EmulateGPIOIn,
GPIOOutputs (debug), pulse-width table, Silencer fixed-completion-steps (strict or not), Silencer fixed-update-rate;
every well-formed device state `s`; every transmit buffer `t` with a 622-byte payload (stale content and message
id arbitrary) whose next id the device has not just processed: the tuple `(A, B)` sent through
`pack_op2`/`ecat_recv` is accepted if and only if `A` and then `B` sent as two datagrams are accepted, and the
final device states are equal in every field except `ack`, `lastMsgId`, `rxData`.  No "different resources"
hypothesis: the device executes slot 1 before slot 2, so order is preserved (even for `A`, `B` of the same kind,
and for Silencer against anything).  When `A` and `B` do not fit one frame (two pulse-width tables) the tuple
sends exactly the frames of the sequence.

Not covered (why this is `_partial`): Gain, the four SwapSegment operations, Clear, FirmwareVersion (no closed form
of their handlers on all well-formed states in `Lemmas/P02*`; their slot-2 insensitivity is not proved), and
PhaseCorrection, for which the statement is FALSE for the raw state — see `phaseCorr_padding_counterexample`.
`rxData` cannot be added to the relation — see `tuple_rxData_counterexample`. -/
theorem tuple_equiv_single_frame_partial (A B : Dg) (hA : IsCfg A = true) (hB : IsCfg B = true) (s : State) (t : Tx)
    (hW : P02.WF s) (ht : TxOK t) (hf : Fresh s t) :
    (∀ t2 s2, Tuple.Sends2 A B s t t2 s2 → ∃ tA sA tB sB, Sends A s t tA sA ∧ Sends B sA tA tB sB ∧ Eqv s2 sB) ∧
    (∀ tA sA tB sB, Sends A s t tA sA → Sends B sA tA tB sB → ∃ t2 s2, Tuple.Sends2 A B s t t2 s2 ∧ Eqv s2 sB) :=
  tuple_equiv_cfg A B hA hB s t hW ht hf

/-- the bytes of a configuration operation do not depend on where in the frame it is packed nor on the stale
content of the buffer (every byte of the operation is written) — what makes slot 2 of the tuple frame carry the
same operation as the second frame of the sequence -/
theorem cfg_bytes_translation_invariant (X : Dg) (hX : Tuple.IsCfg X = true) (n : Nat) (b c : Array Nat) (off off' : Nat)
    (hb : off + Tuple.cfgLen X ≤ b.size) (hc : off' + Tuple.cfgLen X ≤ c.size) :
    ∃ b' c', (Op.ofDg X).pack n b off = .ok ({ dg := X, sent := 0, done := true }, b', Tuple.cfgLen X) ∧
      (Op.ofDg X).pack n c off' = .ok ({ dg := X, sent := 0, done := true }, c', Tuple.cfgLen X) ∧
      ∀ i, i < Tuple.cfgLen X → Fw.u8at b' (off + i) = Fw.u8at c' (off' + i) :=
  ⟨_, _, Tuple.cfg_pack X hX n b off hb, Tuple.cfg_pack X hX n c off' hc, Tuple.cfg_ti X hX b c off off' hb hc⟩

/-- **general tuples, structural part** (the equivalence for multi-frame members is `tuple_equiv_mod_stm` /
`tuple_equiv_stm_mod` below).  Every frame of the tuple's send loop is one of: (i) first operation done —
`pack_op` of the second, the very frame of the sequence; (ii) second done — `pack_op` of the first; (iii) both
pending and the second does not fit behind the first — `pack_op` of the first alone, again the very frame of the
sequence (same id, same bytes); the only frames that differ from the sequence's are those where both are pending
and the second fits (`slot2_wellformed`).  Named `_partial` because it is only the structural half of the
statement. -/
theorem tuple_frames_partial (o1 o2 : Op) (n : Nat) (t : Tx) :
    (o1.done = true → o2.done = false →
      packOp2 o1 o2 n t = match packOp o2 n t with
        | .error e => .error (e, { t with msgId := ((t.msgId + 1) % 256) &&& Drv.MSG_ID_MAX, slot2 := 0 })
        | .ok (o2', t', _) => .ok (o1, o2', t')) ∧
    (o1.done = false → o2.done = true →
      packOp2 o1 o2 n t = match packOp o1 n t with
        | .error e => .error (e, { t with msgId := ((t.msgId + 1) % 256) &&& Drv.MSG_ID_MAX, slot2 := 0 })
        | .ok (o1', t', _) => .ok (o1', o2, t')) ∧
    (o1.done = false → o2.done = false → ∀ o1' t' sz1, packOp o1 n t = .ok (o1', t', sz1) →
      ¬ t'.payload.size - sz1 ≥ o2.required n → packOp2 o1 o2 n t = .ok (o1', o2, t')) :=
  ⟨Tuple.packOp2_first_done o1 o2 n t, Tuple.packOp2_second_done o1 o2 n t,
    fun h1 h2 o1' t' sz1 hp hfit => Tuple.packOp2_nofit o1 o2 n t h1 h2 o1' t' sz1 hp hfit⟩

/-! ## (5) general tuples: Modulation × {Gain, FociSTM, GainSTM}, multi-frame members, both orders

Machinery (`Lemmas/Tuple2*.lean`).  A datagram kind is described as a *chunk protocol* (`Tuple2.Proto`): operation
states `opAt c`, a readiness condition for the BEGIN frame (`Ready`: well-formed state, integer-level side conditions,
the two firmware guards), an invariant between frames (`Mid`), the final characterisation (`Done`: the C01 round-trip
facts `ModHeld` / `GainDone` / `FociHeld` / `GHeld` relative to the state the BEGIN handler saw, the CPU latches the
other member's strict-silencer guard reads, and the exact swap chain `Swap.set` produced), a footprint `Own` of one
handler call and a relation `Other` under which `Mid` / `Done` are invariant.  The law `step` is proved for each of
the four data datagrams at ANY even offset `k` that leaves room (`k = 0`: slot 1; `k` = size of the first operation:
slot 2, with the reduced capacity and therefore different cut points), for ANY buffer that agrees with the packed
one on the bytes the operation reported (stale bytes elsewhere are arbitrary).  The engine `Tuple2.pair_roundtrip`
then runs `Rt.sendLoop2` (= `pack_op2` + `ecat_recv` with both slots) for two protocols whose footprints are harmless
to each other, by induction on the units still to send, whatever the interleaving `A1 B1 A2 B2 …` is.
Where the sides couple — each BEGIN frame's `validate_silencer_settings` reads the OTHER side's division latch
(`mod_begin_reads_across`, `stm_begin_reads_across`) — the value read is the one the other member's BEGIN frame
latched, which precedes it in the tuple and in the sequence alike, and which no continuation frame changes.

The equivalence is OBSERVATIONAL (`Tuple2.TupleObsEq`, spelled out in `tupleObsEq_spelled_out`): every read-back
accessor of `Model/Obs.lean` agrees.  Equality of the raw states (`Tuple.Eqv`) is FALSE for these pairs — see
`mod_padding_counterexample`. -/

/-- the pair loop of `Lemmas/TupleSend.lean` (used by `tuple_equiv_single_frame_partial`) and the one of
`Lemmas/Rt2Slot.lean` (used by C01 and below) are the same function -/
theorem sends2_defs_agree (A B : Dg) (s : Fw.State) (t t' : Tx) (s' : Fw.State) :
    Tuple.Sends2 A B s t t' s' ↔ Rt.Sends2 A B s t t' s' := by
  have h : ∀ fuel o1 o2 s t, Tuple.sendLoop2 fuel o1 o2 s t = Rt.sendLoop2 fuel o1 o2 s t := by
    intro fuel
    induction fuel with
    | zero => intro o1 o2 s t; rfl
    | succ fuel ih =>
      intro o1 o2 s t
      unfold Tuple.sendLoop2 Rt.sendLoop2
      split
      · rfl
      · cases packOp2 o1 o2 s.numTr t with
        | error e => rfl
        | ok r =>
          obtain ⟨o1', o2', t'⟩ := r
          simp only []
          cases Fw.ecatRecv s t'.frame with
          | error e => rfl
          | ok s1 => simp only [ih]
  unfold Tuple.Sends2 Rt.Sends2
  simp only [h]

open Autd3.Fw Autd3.Rt Autd3.Tuple2 in
/-- the side conditions `StmOK` of the second member, by kind -/
theorem stmOK_def (s : State) :
    (∀ seg tr drives, StmOK s (.gain seg tr drives) ↔
      (seg ≤ 1 ∧ (tr = none ∨ ∃ v, tr = some (Drv.TRANSITION_MODE_IMMEDIATE, v)) ∧ ∀ i, rd drives i < 65536)) ∧
    (∀ n seg tr rep div ss records, StmOK s (.fociStm n seg tr rep div ss records) ↔
      ∃ P, FociOK s n seg tr rep div ss records P) ∧
    (∀ mode seg tr rep div patterns, StmOK s (.gainStm mode seg tr rep div patterns) ↔
      GOK s mode seg tr rep div patterns) :=
  ⟨fun _ _ _ => Iff.rfl, fun _ _ _ _ _ _ _ => Iff.rfl, fun _ _ _ _ _ _ => Iff.rfl⟩

open Autd3.Fw Autd3.Rt Autd3.Tuple2 in
/-- **tuple_equiv_mod_stm** — `A` = Modulation (any size 2..65536, segment, loop count, division, transition: `ModOK`),
`B` ∈ {Gain, FociSTM (1..8 foci, total 2..65536), GainSTM (three modes, 2..1024 patterns)} (`StmOK`).  From every
well-formed device state `s` and every transmit buffer `t` (622-byte payload, stale content arbitrary, next id fresh):
if `A` sent alone is accepted and ends in `(sA, tA)`, and `B` sent alone from there is accepted and ends in `(sB, tB)`,
then the tuple `(A, B)` sent from `(s, t)` through `pack_op2` / `ecat_recv` is accepted, and its final state `s2`
agrees with `sB` in EVERY read-back observation (`TupleObsEq`: modulation buffers / division / loop count / size of
both segments, request and transition registers and the exact modulation swap chain; STM mode, size, division, loop
count, sound speed, focus count and `drives_at` for every pattern of both segments, request and transition registers
and the exact STM swap chain; phase correction, pulse-width table, silencer, debug, FPGA-state registers, CPU
configuration, and `CTL_FLAG` — fan flag, emulated GPIO inputs).  No guard hypothesis: that the firmware guards passed is derived from acceptance. -/
theorem tuple_equiv_mod_stm (s : State) (t : Tx) (hW : WF s) (ht : TxOK t) (hf : Fresh s t)
    (seg : Nat) (tr : Tr) (rep div : Nat) (samples : Array Nat) (HA : ModOK s seg tr rep div samples)
    (B : Dg) (HB : StmOK s B) (tA : Tx) (sA : State) (tB : Tx) (sB : State)
    (hA : Sends (.modulation seg tr rep div samples) s t tA sA) (hB : Sends B sA tA tB sB) :
    ∃ t2 s2, Sends2 (.modulation seg tr rep div samples) B s t t2 s2 ∧ WF s2 ∧ TxOK t2 ∧ Fresh s2 t2 ∧
      TupleObsEq sB s2 :=
  tuple_mod_stm s t hW ht hf seg tr rep div samples HA B HB tA sA tB sB hA hB

open Autd3.Fw Autd3.Rt Autd3.Tuple2 in
/-- **tuple_equiv_stm_mod** — the symmetric order: `B` (Gain / FociSTM / GainSTM) first, the Modulation second; the
Modulation's chunks then travel in slot 2 behind `B`'s frames with reduced capacity (e.g. 104 samples behind a
Gain, 92 / 118 behind a first / following GainSTM frame), interleaved `B1 A1 B2 A2 …` — same statement -/
theorem tuple_equiv_stm_mod (s : State) (t : Tx) (hW : WF s) (ht : TxOK t) (hf : Fresh s t)
    (seg : Nat) (tr : Tr) (rep div : Nat) (samples : Array Nat) (HA : ModOK s seg tr rep div samples)
    (B : Dg) (HB : StmOK s B) (tB : Tx) (sB : State) (tA : Tx) (sA : State)
    (hB : Sends B s t tB sB) (hA : Sends (.modulation seg tr rep div samples) sB tB tA sA) :
    ∃ t2 s2, Sends2 B (.modulation seg tr rep div samples) s t t2 s2 ∧ WF s2 ∧ TxOK t2 ∧ Fresh s2 t2 ∧
      TupleObsEq sA s2 :=
  tuple_stm_mod s t hW ht hf seg tr rep div samples HA B HB tB sB tA sA hB hA

open Autd3.Fw Autd3.Rt Autd3.Tuple2 in
/-- what `TupleObsEq s s'` says, accessor by accessor (`Model/Obs.lean`) -/
theorem tupleObsEq_spelled_out {s s' : State} (h : TupleObsEq s s') :
    (∀ g, g ≤ 1 → Obs.modBuffer s' g = Obs.modBuffer s g ∧ Obs.modDiv s' g = Obs.modDiv s g ∧
      Obs.modRep s' g = Obs.modRep s g ∧ Obs.modCycle s' g = Obs.modCycle s g) ∧
    Obs.reqModSeg s' = Obs.reqModSeg s ∧ Obs.modTransition s' = Obs.modTransition s ∧ s'.modSwap = s.modSwap ∧
    Obs.currentModSeg s' = Obs.currentModSeg s ∧ Obs.currentModIdx s' = Obs.currentModIdx s ∧
    (∀ g, g ≤ 1 → Obs.isStmGainMode s' g = Obs.isStmGainMode s g ∧ Obs.stmCycle s' g = Obs.stmCycle s g ∧
      Obs.stmDiv s' g = Obs.stmDiv s g ∧ Obs.stmRep s' g = Obs.stmRep s g ∧
      Obs.soundSpeed s' g = Obs.soundSpeed s g ∧ Obs.numFoci s' g = Obs.numFoci s g ∧
      ∀ idx, idx < Obs.stmCycle s g → Obs.drivesAt s' g idx = Obs.drivesAt s g idx) ∧
    Obs.reqStmSeg s' = Obs.reqStmSeg s ∧ Obs.stmTransition s' = Obs.stmTransition s ∧ s'.stmSwap = s.stmSwap ∧
    Obs.currentStmSeg s' = Obs.currentStmSeg s ∧ Obs.currentStmIdx s' = Obs.currentStmIdx s ∧
    Obs.phaseCorrection s' = Obs.phaseCorrection s ∧ Obs.pweTable s' = Obs.pweTable s ∧
    Obs.silencerUpdateRate s' = Obs.silencerUpdateRate s ∧ Obs.silencerCompletionSteps s' = Obs.silencerCompletionSteps s ∧
    Obs.silencerFixedUpdateRateMode s' = Obs.silencerFixedUpdateRateMode s ∧
    Obs.debugTypes s' = Obs.debugTypes s ∧ Obs.debugValues s' = Obs.debugValues s ∧ Obs.fpgaStateReg s' = Obs.fpgaStateReg s ∧
    s'.strict = s.strict ∧ s'.minDivI = s.minDivI ∧ s'.minDivP = s.minDivP ∧ s'.flagsInternal = s.flagsInternal ∧
    Obs.isForceFan s' = Obs.isForceFan s ∧ Obs.isThermo s' = Obs.isThermo s ∧ (∀ g, gpioIn s' g = gpioIn s g) := by
  obtain ⟨r1, r2, r3, r4, r5, r6, r7, r8⟩ := obs_rest_same h.rest
  refine ⟨h.mod.obs, h.mod.req, h.mod.transition, h.mod.swap, by unfold Obs.currentModSeg; rw [h.mod.swap],
    by unfold Obs.currentModIdx; rw [h.mod.swap], ?_, h.stm.req, h.stm.transition, h.stm.swap,
    by unfold Obs.currentStmSeg; rw [h.stm.swap], by unfold Obs.currentStmIdx; rw [h.stm.swap],
    r1, r2, r3, r4, r5, r6, r7, r8, h.rest.cpu.1, h.rest.cpu.2.1, h.rest.cpu.2.2.1, h.rest.cpu.2.2.2.2.2.1,
    by unfold Obs.isForceFan; rw [h.ctlFlag], by unfold Obs.isThermo; unfold Obs.fpgaStateReg at r8; rw [r8],
    fun g => by unfold gpioIn; rw [h.ctlFlag]⟩
  intro g hg
  obtain ⟨a, b, c, d⟩ := h.stm.hdr g hg
  obtain ⟨e, f⟩ := h.stm.foci g hg
  exact ⟨a, b, c, d, e, f, h.stm.drives g hg⟩

open Autd3.Fw Autd3.Rt Autd3.Tuple2 in
/-- **what the Modulation's BEGIN frame reads across sides** (`writeMod_reads_only_mod_side`, BEGIN part): its
acceptance (`Ready` = well-formed, `ModOK`, `validate_transition_mode`, `validate_silencer_settings`) on a state `x`
follows from its acceptance on `y` as soon as `x` is well formed and agrees with `y` on the current modulation
segment, on the division latch of the CURRENT STM segment, on the silencer configuration and on the clock — nothing
else of the STM side is read -/
theorem mod_begin_reads_across (seg : Nat) (tr : Tr) (rep div : Nat) (samples : Array Nat) {y x : State}
    (h : (modProto seg tr rep div samples).Ready y) (hW : WF x) (h1 : x.modSegment = y.modSegment)
    (h2 : sel x.stmDiv x.stmSegment = sel y.stmDiv y.stmSegment) (h3 : x.strict = y.strict)
    (h4 : x.minDivI = y.minDivI) (h5 : x.minDivP = y.minDivP) (h6 : x.dcSysTime = y.dcSysTime) :
    (modProto seg tr rep div samples).Ready x :=
  modReady_congr seg tr rep div samples h hW h1 h2 h3 h4 h5 h6

open Autd3.Fw Autd3.Rt Autd3.Tuple2 in
/-- **the Modulation's frames after BEGIN read nothing of the STM side, and nothing of it is written by any of its
frames** (`writeMod_reads_only_mod_side`, continuation part): the invariant between two Modulation frames (`Mid`: `c`
samples in place, write registers behind them, latches) and the final characterisation (`Done`) carry over to every
well-formed state that agrees on the modulation side (`KeepM`: both modulation memories, the modulation swap chain,
the CPU's modulation latches, registers 32..45, clock, transducer count) — e.g. the state after any STM-side frame;
and one `write_mod` call on ANY payload leaves the whole STM side as it was (`KeepS`) -/
theorem mod_frames_ignore_stm_side (seg : Nat) (tr : Tr) (rep div : Nat) (samples : Array Nat)
    (hn2 : 2 ≤ samples.size) (hn3 : samples.size ≤ 65536) :
    (∀ s0 s s' c, (modProto seg tr rep div samples).Mid s0 s c → KeepM s s' → WF s' →
      (modProto seg tr rep div samples).Mid s0 s' c) ∧
    (∀ s0 s s', (modProto seg tr rep div samples).Done s0 s → KeepM s s' → WF s' →
      (modProto seg tr rep div samples).Done s0 s') ∧
    (∀ (s : State) (d : Array Nat) s' a, WF s → writeMod s d = .ok (s', a) → KeepS s s') :=
  ⟨(modProto_laws seg tr rep div samples hn2 hn3).mid_other, (modProto_laws seg tr rep div samples hn2 hn3).done_other,
    fun s d s' a hW h => KeepS_of_footM (writeMod_foot s d hW.ctl hW.flags s' a h)⟩

open Autd3.Fw Autd3.Rt Autd3.Tuple2 in
/-- **the STM-side handlers, symmetrically**: acceptance of a FociSTM / GainSTM BEGIN frame depends on the modulation
side only through the division latch of the current modulation segment (and the silencer configuration, the clock,
the current STM segment); their invariants survive every modulation-side change (`KeepS` kept); one handler call on
ANY payload leaves the whole modulation side as it was (`KeepM`) -/
theorem stm_begin_reads_across {P : Proto} {Ld : State → Nat × Nat} {Ls : State → Nat} (K : SKind P Ld Ls) :
    (∀ y x, P.Ready y → WF x → x.stmSegment = y.stmSegment →
      sel x.modDiv x.modSegment = sel y.modDiv y.modSegment → x.strict = y.strict → x.minDivI = y.minDivI →
      x.minDivP = y.minDivP → x.dcSysTime = y.dcSysTime → P.Ready x) ∧
    (∀ s0 s s' c, P.Mid s0 s c → KeepS s s' → WF s' → P.Mid s0 s' c) ∧
    (∀ s0 s s', P.Done s0 s → KeepS s s' → WF s' → P.Done s0 s') ∧
    (∀ (s : State) (d : Array Nat) s' a, WF s →
      (writeGain s d = .ok (s', a) ∨ (u8at d FwLayout.FociSTMSubseq_segment_off ≤ 1 ∧ writeFociStm s d = .ok (s', a)) ∨
        writeGainStm s d = .ok (s', a)) → KeepM s s') := by
  refine ⟨K.readyCongr, fun s0 s s' c h k w => K.laws.mid_other s0 s s' c h (K.other _ _ k) w,
    fun s0 s s' h k w => K.laws.done_other s0 s s' h (K.other _ _ k) w, ?_⟩
  intro s d s' a hW h
  rcases h with h | ⟨hseg, h⟩ | h
  · exact KeepM_of_footS ((writeGain_foot s d hW.ctl hW.flags s' a h).mono TG_TS)
  · exact KeepM_of_footS ((writeFociStm_foot s d hW.ctl hW.flags s' a h).mono (TF_TS _ hseg))
  · exact KeepM_of_footS ((writeGainStm_foot s d hW.ctl hW.flags s' a h).mono TG_TS)

open Autd3.Tuple2 in
/-- the three STM-side protocols are such `SKind`s -/
theorem stm_kinds :
    (∀ seg tr drives, seg ≤ 1 → (tr = none ∨ ∃ v, tr = some (Drv.TRANSITION_MODE_IMMEDIATE, v)) →
      ∃ Ld Ls, SKind (gainProto seg tr drives) Ld Ls) ∧
    (∀ n seg tr rep div ss records P, (1 ≤ n ∧ n ≤ 8) → records.size = P * n → (2 ≤ P * n ∧ P * n ≤ 65536) →
      ∃ Ld Ls, SKind (fociProto n seg tr rep div ss records P) Ld Ls) ∧
    (∀ mode seg tr rep div patterns, mode ≤ 2 → (2 ≤ patterns.size ∧ patterns.size ≤ 1024) →
      ∃ Ld Ls, SKind (gstmProto mode seg tr rep div patterns) Ld Ls) :=
  ⟨fun seg tr drives h1 h2 => ⟨_, _, gainKind seg tr drives h1 h2⟩,
    fun n seg tr rep div ss records P h1 h2 h3 => ⟨_, _, fociKind n seg tr rep div ss records P h1 h2 h3⟩,
    fun mode seg tr rep div patterns h1 h2 => ⟨_, _, gstmKind mode seg tr rep div patterns h1 h2⟩⟩

/-! ## (6) configuration × data datagram, both orders -/

open Autd3.Fw Autd3.Rt Autd3.Tuple2 in
/-- the side conditions `DataOK` of a data datagram: `ModOK` for a Modulation, `StmOK` for Gain / FociSTM / GainSTM -/
theorem dataOK_def (s : State) :
    (∀ seg tr rep div samples, DataOK s (.modulation seg tr rep div samples) ↔ ModOK s seg tr rep div samples) ∧
    (∀ seg tr drives, DataOK s (.gain seg tr drives) ↔ StmOK s (.gain seg tr drives)) ∧
    (∀ n seg tr rep div ss records, DataOK s (.fociStm n seg tr rep div ss records) ↔
      StmOK s (.fociStm n seg tr rep div ss records)) ∧
    (∀ mode seg tr rep div patterns, DataOK s (.gainStm mode seg tr rep div patterns) ↔
      StmOK s (.gainStm mode seg tr rep div patterns)) :=
  ⟨fun _ _ _ _ _ => Iff.rfl, fun _ _ _ => Iff.rfl, fun _ _ _ _ _ _ _ => Iff.rfl, fun _ _ _ _ _ _ => Iff.rfl⟩

open Autd3.Fw Autd3.Rt Autd3.Tuple2 in
/-- **tuple_equiv_cfg_data** — `X` one of the nine single-frame configuration datagrams of
`tuple_equiv_single_frame_partial` (`IsCfg`: Synchronize, ForceFan, ReadsFPGAState, CpuGPIOOut, EmulateGPIOIn,
GPIOOutputs, pulse-width table, Silencer fixed-completion-steps — strict or not —, Silencer fixed-update-rate), `D` one
of the four data datagrams (Modulation, Gain, FociSTM, GainSTM; `DataOK`), every well-formed state, every transmit
buffer: if `X` alone then `D` alone are accepted, the tuple `(X, D)` is accepted and the final states agree in every
observation.  `D`'s first chunk travels in slot 2 behind `X` with reduced capacity, its later chunks alone.
**Silencer × data**: the strict-mode guard of `D`'s BEGIN frame reads the silencer configuration that `X`'s handler has
just written, in the tuple (slot 2 of the same frame) exactly as in the sequence (next frame) — no counterexample. -/
theorem tuple_equiv_cfg_data (X : Dg) (hX : Tuple.IsCfg X = true) (s : State) (t : Tx) (hW : WF s) (ht : TxOK t)
    (hf : Fresh s t) (D : Dg) (HD : DataOK s D) (tA : Tx) (sA : State) (tB : Tx) (sB : State)
    (hA : Sends X s t tA sA) (hB : Sends D sA tA tB sB) :
    ∃ t2 s2, Sends2 X D s t t2 s2 ∧ WF s2 ∧ TxOK t2 ∧ Fresh s2 t2 ∧ TupleObsEq sB s2 :=
  tuple_cfg_data X hX s t hW ht hf D HD tA sA tB sB hA hB

open Autd3.Fw Autd3.Rt Autd3.Tuple2 in
/-- **tuple_equiv_data_cfg** — the symmetric order `(D, X)`: the configuration datagram travels in slot 2 behind `D`'s
first frame that leaves room (frame 1 for a Modulation: `A1 X A2 A3 …` against `A1 A2 … X` in the sequence), so its
handler runs BEFORE `D`'s remaining frames.  Same statement.  **data × Silencer**: `config_silencer` validates the new
setting against the division latches of the current segments; `D`'s BEGIN frame — which precedes `X` in both orders —
is the only frame that writes them, so both orders validate against the same values (and `D`'s later frames do not
re-validate) — no counterexample. -/
theorem tuple_equiv_data_cfg (X : Dg) (hX : Tuple.IsCfg X = true) (s : State) (t : Tx) (hW : WF s) (ht : TxOK t)
    (hf : Fresh s t) (D : Dg) (HD : DataOK s D) (tA : Tx) (sA : State) (tB : Tx) (sB : State)
    (hA : Sends D s t tA sA) (hB : Sends X sA tA tB sB) :
    ∃ t2 s2, Sends2 D X s t t2 s2 ∧ WF s2 ∧ TxOK t2 ∧ Fresh s2 t2 ∧ TupleObsEq sB s2 :=
  tuple_data_cfg X hX s t hW ht hf D HD tA sA tB sB hA hB

/-! ### what the equivalence cannot include -/

set_option maxRecDepth 100000 in
open Autd3.Fw Autd3.Tuple in
/-- **rxData is not preserved** (why `Eqv` excludes it).  Power-on-like state; frame `[id 1 | slot2 = 2 |
ReadsFPGAState(true) | ForceFan(true)]` against the two frames `[id 1 | ReadsFPGAState(true)]`,
`[id 2 | ForceFan(true)]`: both are acknowledged, but after the tuple the rx byte is `0x00` (no FPGA state, the
"enabled" bit 7 clear: `read_fpga_state` ran before slot 1 switched reading on and is not run again), after the
sequence it is `0x80` (the second frame's `read_fpga_state` sees reading enabled).  The difference disappears with
the next frame or clock update; a controller that reads `fpga_state()` right after the tuple sees `None`. -/
theorem tuple_rxData_counterexample :
    rxOf (ecatRecv {} #[1, 0, 2, 0, 0x61, 1, 0x60, 1]) = some (1, 0) ∧
    rxOf (ecatRecv {} #[1, 0, 0, 0, 0x61, 1] >>= fun m => ecatRecv m #[2, 0, 0, 0, 0x60, 1]) = some (2, 128) := by
  decide +kernel

/-- `PhaseCorrection::pack` for 249 transducers reports 252 bytes but writes 251: the last byte keeps whatever the
transmit buffer held (every buffer, every offset) -/
theorem phaseCorr_pack_leaves_padding (bytes b : Array Nat) (off : Nat) :
    ∃ o' b', (Op.ofDg (.phaseCorr bytes)).pack 249 b off = .ok (o', b', 252) ∧
      Fw.u8at b' (off + 251) = Fw.u8at b (off + 251) := by
  refine ⟨_, _, rfl, ?_⟩
  simp only [Rt.u8at_putBytes, tagValue, Rt.u8at_put8, Rt.size_put8]
  rw [if_neg (by simp only [DrvLayout.PhaseCorr_size]; omega), if_neg (by omega), if_neg (by omega)]

set_option maxRecDepth 100000 in
open Autd3.Fw Autd3.Tuple in
/-- **PhaseCorrection is excluded from `tuple_equiv_single_frame_partial` for a reason**: the firmware copies 125
words = 250 bytes, i.e. it reads the padding byte `pack` never writes (`phaseCorr_pack_leaves_padding`).  Two frames
`[id 1 | slot2 = 2 | ForceFan(true) | PhaseCorrection(249 × 7) | padding]` that differ only in the stale padding
byte (0xAB / 0x00 — in the tuple it is the buffer's old byte 253, in the sequence the old byte 251) are both
acknowledged and leave different words in the phase-correction memory at index 124 (high byte = transducer 249,
which does not exist: not observable through `phase_correction()`, but the raw states differ). -/
theorem phaseCorr_padding_counterexample :
    pcOf (ecatRecv {} (#[1, 0, 2, 0, 0x60, 1, 0x80, 0] ++ Array.replicate 249 7 ++ #[0xAB])) 124 = some (1, 0xAB07) ∧
    pcOf (ecatRecv {} (#[1, 0, 2, 0, 0x60, 1, 0x80, 0] ++ Array.replicate 249 7 ++ #[0x00])) 124 = some (1, 0x0007) := by
  decide +kernel

set_option maxRecDepth 100000 in
open Autd3.Fw Autd3.Tuple2 in
/-- **why `tuple_equiv_mod_stm` is observational and not `Tuple.Eqv`**: a Modulation of odd length travels padded to a
whole 16-bit word; `pack` does not write the pad byte (it keeps whatever the transmit buffer held there — in the tuple
the other member's bytes of an earlier frame, in the sequence older content), and `write_mod` copies whole words.  Two
single-frame modulations `[id 1 | Modulation BEGIN+END, 3 samples 7 8 9, division 10 | pad]` that differ only in the
pad byte (0xAB / 0x00) are both acknowledged and leave different words at index 1 of the modulation memory (high
byte = sample 3, which the cycle register — 3 samples — excludes: not observable through `modulation_buffer`, but the
raw states differ) -/
theorem mod_padding_counterexample :
    mmOf (ecatRecv {} #[1, 0, 0, 0, 16, 3, 3, 254, 10, 0, 255, 255, 0, 0, 0, 0, 0, 0, 0, 0, 7, 8, 9, 0xAB]) 1 = some (1, 0xAB09) ∧
    mmOf (ecatRecv {} #[1, 0, 0, 0, 16, 3, 3, 254, 10, 0, 255, 255, 0, 0, 0, 0, 0, 0, 0, 0, 7, 8, 9, 0x00]) 1 = some (1, 0x0009) := by
  decide +kernel

/-! ### non-vacuity of (4) -/

/-- a well-formed device state (a device right after `CPUEmulator::new`), a 622-byte transmit buffer and a fresh
id: the hypotheses of `tuple_equiv_single_frame_partial` hold together, for a non-trivial pair -/
example : ∃ (s : Fw.State) (t : Tx), P02.WF s ∧ Rt.TxOK t ∧ Rt.Fresh s t ∧
    Tuple.IsCfg (.silencerSteps 10 40 true) = true ∧ Tuple.IsCfg (.pwe (Array.replicate 256 0x100)) = true :=
  ⟨{ P02.clearResult (P02.preClear 249 0) with lastMsgId := 0xFF }, {},
    { P02.wf_clearResult _ (P02.wf_preClear 249 0 (by decide)) with }, by simp [Rt.TxOK, Drv.EC_OUTPUT_FRAME_SIZE, DrvLayout.Header_size],
    by show (0xFF : Nat) ≠ _; decide, rfl, rfl⟩

/-- the frame shape hypotheses of `slot2_equals_two_frames` hold for the frames of `tuple_rxData_counterexample` -/
example : let F : Array Nat := #[1, 0, 2, 0, 0x61, 1, 0x60, 1]; let F1 : Array Nat := #[1, 0, 0, 0, 0x61, 1, 0x60, 1]
    let F2 : Array Nat := #[2, 0, 0, 0, 0x60, 1]
    (Fw.u8at F 0 = 1 ∧ Fw.u16at F 2 = 2) ∧ (Fw.u8at F1 0 = 1 ∧ Fw.u16at F1 2 = 0) ∧ (Fw.u8at F2 0 = 2 ∧ Fw.u16at F2 2 = 0) ∧
    F1.extract 4 F1.size = F.extract 4 F.size ∧ F2.extract 4 F2.size = F.extract (4 + 2) F.size ∧ 4 + 2 ≤ F.size ∧
    (Fw.u8at (F.extract (4 + 2) F.size) 0, 2) ∈ Tuple.cfgTable := by
  decide

/-! ### non-vacuity -/

example : ({} : Tx).payload.size = 622 := by
  simp [Drv.EC_OUTPUT_FRAME_SIZE, DrvLayout.Header_size]
example : (Op.ofDg (.modulation 0 none 0xFFFF 10 (Array.replicate 40000 7))).Inv := ofDg_inv _
example : (Dg.modulation 0 none 0xFFFF 10 (Array.replicate 40000 7)).Valid := by
  simp [Dg.Valid, Drv.MOD_BUF_SIZE_MIN, Drv.MOD_BUF_SIZE_MAX]
example : (Dg.gain 1 (some (255, 0)) (Array.replicate 249 0x80FF)).Valid := by
  intro m v h; cases h; rfl
example : (Dg.fociStm 8 0 none 0xFFFF 4000 340 (Array.replicate 800 5)).Valid := by
  simp [Dg.Valid, Drv.FOCI_STM_FOCI_NUM_MAX, Drv.STM_BUF_SIZE_MIN, Drv.FOCI_STM_BUF_SIZE_MAX]

/-! ### non-vacuity of (5) and (6): concrete multi-frame instances on the power-on-like state -/

section
open Autd3.Fw Autd3.Rt Autd3.Tuple2

private theorem exA_ok : ModOK exState 1 (some (0, 0)) 3 5120 (Array.replicate 1000 7) := by
  refine ⟨by decide, by simp, by simp, ?_, by decide, by decide, ?_⟩
  · intro i; unfold rd; by_cases h : i < 1000 <;> simp [h]
  · intro m v h
    simp only [Option.some.injEq, Prod.mk.injEq] at h
    obtain ⟨rfl, rfl⟩ := h
    exact ⟨Or.inl rfl, by decide, by decide⟩

private theorem exF_ok : FociOK exState 3 1 (some (2, 1)) 5 512 340 (Array.replicate 900 12345) 300 := by
  refine ⟨by decide, by decide, by simp, by decide, ?_, by decide, by decide, by decide, ?_⟩
  · intro i; unfold rd; by_cases h : i < 900 <;> simp [h]
  · intro m v h
    simp only [Option.some.injEq, Prod.mk.injEq] at h
    obtain ⟨rfl, rfl⟩ := h
    exact ⟨Or.inr (Or.inr (Or.inl ⟨rfl, by decide⟩)), by decide, by decide⟩

private theorem exG_ok : GOK exState 2 0 none 0xFFFF 4000 (Array.replicate 7 (Array.replicate 249 0x1234)) := by
  refine ⟨by decide, by decide, by simp, ?_, by decide, by decide, by intro m v h; simp at h⟩
  intro idx i
  unfold patAt rd
  by_cases h : idx < 7
  · simp [h]; by_cases h2 : i < 249 <;> simp [h2]
  · simp [h]; show (#[] : Array Nat)[i]?.getD 0 < 65536; simp

/-- the modulation's BEGIN handler is ready on every well-formed state that has the power-on defaults in the fields
the two guards read -/
private theorem exA_ready (x : State) (hW : WF x) (h1 : x.modSegment = 0) (h2 : sel x.stmDiv x.stmSegment ≥ 40)
    (h3 : x.minDivI = 10) (h4 : x.minDivP = 40) (h5 : x.dcSysTime = 0) :
    (modProto 1 (some (0, 0)) 3 5120 (Array.replicate 1000 7)).Ready x := by
  rw [modProto_ready]
  refine ⟨hW, ModOK_time exA_ok (by rw [h5]; rfl), by rw [h1]; decide, ?_⟩
  unfold validateSilencerSettings
  rw [h3, h4]
  generalize sel x.stmDiv x.stmSegment = d at h2
  cases x.strict <;> simp <;> omega

/-- (5), order (Modulation, FociSTM): a 1000-sample Modulation (3 frames alone) to segment 1 with a SyncIdx transition,
then a 300-pattern × 3-foci FociSTM (13 frames alone) to segment 1 with a GPIO transition: both are accepted one after
the other from the power-on-like state, so `tuple_equiv_mod_stm` applies; in the tuple the FociSTM's first chunk
travels behind the Modulation's first frame (capacity 352 bytes: 13 patterns instead of 24) -/
example : ∃ tA sA tB sB, ModOK exState 1 (some (0, 0)) 3 5120 (Array.replicate 1000 7) ∧
    StmOK exState (.fociStm 3 1 (some (2, 1)) 5 512 340 (Array.replicate 900 12345)) ∧
    Sends (.modulation 1 (some (0, 0)) 3 5120 (Array.replicate 1000 7)) exState exTx tA sA ∧
    Sends (.fociStm 3 1 (some (2, 1)) 5 512 340 (Array.replicate 900 12345)) sA tA tB sB ∧
    ∃ t2 s2, Sends2 (.modulation 1 (some (0, 0)) 3 5120 (Array.replicate 1000 7))
      (.fociStm 3 1 (some (2, 1)) 5 512 340 (Array.replicate 900 12345)) exState exTx t2 s2 ∧ TupleObsEq sB s2 := by
  obtain ⟨p1, p2, p3, _, _, p6, p7, p8, _, _⟩ := pre_fields exState (nextId exTx)
  have hRA := exA_ready (pre exState (nextId exTx)) (WF_pre WF_exState _) (by rw [p3]; rfl) (by rw [p2, p1]; decide)
    (by rw [p6]; rfl) (by rw [p7]; rfl) (by rw [p8]; rfl)
  obtain ⟨tA, sA, hSA, hWA, hTA, hFA, kR, kS, l1, l2⟩ := sends_of_ready_mod exState exTx WF_exState TxOK_exTx Fresh_ex 1
    (some (0, 0)) 3 5120 (Array.replicate 1000 7) (by simp) (by simp) hRA
  obtain ⟨q1, _, q3, q4, q5, q6, q7, q8, _, _⟩ := pre_fields sA (nextId tA)
  have hRB : (fociProto 3 1 (some (2, 1)) 5 512 340 (Array.replicate 900 12345) 300).Ready (pre sA (nextId tA)) := by
    rw [fociProto_ready]
    refine ⟨WF_pre hWA _, FociOK_time exF_ok (by rw [q8, kR.time]), by rw [q1, kS.segment]; decide, ?_⟩
    unfold validateSilencerSettings
    rw [q3, q4, q5, q6, q7, l1, l2, kR.strict, kR.minDivI, kR.minDivP]
    decide
  obtain ⟨tB, sB, hSB, _⟩ := sends_of_ready_kind (fociKind 3 1 (some (2, 1)) 5 512 340 (Array.replicate 900 12345) 300
    exF_ok.hn exF_ok.size exF_ok.total) sA tA hWA hTA hFA hRB
  obtain ⟨t2, s2, h2, _, _, _, h6⟩ := tuple_equiv_mod_stm exState exTx WF_exState TxOK_exTx Fresh_ex 1 (some (0, 0)) 3 5120
    (Array.replicate 1000 7) exA_ok (.fociStm 3 1 (some (2, 1)) 5 512 340 (Array.replicate 900 12345)) ⟨300, exF_ok⟩ tA sA tB sB hSA hSB
  exact ⟨tA, sA, tB, sB, exA_ok, ⟨300, exF_ok⟩, hSA, hSB, t2, s2, h2, h6⟩

/-- (5), order (GainSTM, Modulation): a 7-pattern PhaseHalf GainSTM (2 frames) to segment 0, then the 1000-sample
Modulation; in the tuple the Modulation's chunks travel behind the GainSTM frames (92 and 118 samples), then alone -/
example : ∃ tB sB tA sA, StmOK exState (.gainStm 2 0 none 0xFFFF 4000 (Array.replicate 7 (Array.replicate 249 0x1234))) ∧
    Sends (.gainStm 2 0 none 0xFFFF 4000 (Array.replicate 7 (Array.replicate 249 0x1234))) exState exTx tB sB ∧
    Sends (.modulation 1 (some (0, 0)) 3 5120 (Array.replicate 1000 7)) sB tB tA sA ∧
    ∃ t2 s2, Sends2 (.gainStm 2 0 none 0xFFFF 4000 (Array.replicate 7 (Array.replicate 249 0x1234)))
      (.modulation 1 (some (0, 0)) 3 5120 (Array.replicate 1000 7)) exState exTx t2 s2 ∧ TupleObsEq sA s2 := by
  obtain ⟨p1, _, p3, p4, p5, p6, p7, p8, _, _⟩ := pre_fields exState (nextId exTx)
  have hRB : (gstmProto 2 0 none 0xFFFF 4000 (Array.replicate 7 (Array.replicate 249 0x1234))).Ready (pre exState (nextId exTx)) := by
    rw [gstmProto_ready]
    refine ⟨WF_pre WF_exState _, GOK_time exG_ok (by rw [p8]), by rw [p1]; decide, ?_⟩
    unfold validateSilencerSettings
    rw [p3, p4, p5, p6, p7]
    decide
  have K := gstmKind 2 0 none 0xFFFF 4000 (Array.replicate 7 (Array.replicate 249 0x1234)) exG_ok.hmode exG_ok.size
  obtain ⟨tB, sB, hSB, hWB, hTB, hFB, kR, kM, l1, l2⟩ := sends_of_ready_kind K exState exTx WF_exState TxOK_exTx Fresh_ex hRB
  obtain ⟨q1, q2, q3, _, _, q6, q7, q8, _, _⟩ := pre_fields sB (nextId tB)
  have hRA := exA_ready (pre sB (nextId tB)) (WF_pre hWB _) (by rw [q3, kM.segment]; rfl)
    (by rw [q2, q1, l1, l2]; decide) (by rw [q6, kR.minDivI]; rfl) (by rw [q7, kR.minDivP]; rfl) (by rw [q8, kR.time]; rfl)
  obtain ⟨tA, sA, hSA, _⟩ := sends_of_ready_mod sB tB hWB hTB hFB 1 (some (0, 0)) 3 5120 (Array.replicate 1000 7)
    (by simp) (by simp) hRA
  obtain ⟨t2, s2, h2, _, _, _, h6⟩ := tuple_equiv_stm_mod exState exTx WF_exState TxOK_exTx Fresh_ex 1 (some (0, 0)) 3 5120
    (Array.replicate 1000 7) exA_ok (.gainStm 2 0 none 0xFFFF 4000 (Array.replicate 7 (Array.replicate 249 0x1234))) exG_ok tB sB tA sA hSB hSA
  exact ⟨tB, sB, tA, sA, exG_ok, hSB, hSA, t2, s2, h2, h6⟩

/-- (6), Silencer × Modulation: a strict Silencer (10, 40) in slot 1, the 1000-sample Modulation behind it -/
example : ∃ tA sA tB sB, Tuple.IsCfg (.silencerSteps 10 40 true) = true ∧
    DataOK exState (.modulation 1 (some (0, 0)) 3 5120 (Array.replicate 1000 7)) ∧
    Sends (.silencerSteps 10 40 true) exState exTx tA sA ∧
    Sends (.modulation 1 (some (0, 0)) 3 5120 (Array.replicate 1000 7)) sA tA tB sB ∧
    ∃ t2 s2, Sends2 (.silencerSteps 10 40 true) (.modulation 1 (some (0, 0)) 3 5120 (Array.replicate 1000 7)) exState exTx t2 s2 ∧
      TupleObsEq sB s2 := by
  obtain ⟨p1, p2, p3, p4, _⟩ := pre_fields exState (nextId exTx)
  have hX : Tuple.IsCfg (.silencerSteps 10 40 true) = true := rfl
  have hRX : (cfgProto (.silencerSteps 10 40 true)).Ready (pre exState (nextId exTx)) := by
    rw [cfgProto_ready]
    refine ⟨WF_pre WF_exState _, rfl, ?_⟩
    unfold CfgAccepts
    rw [cfgRejects_congr (.silencerSteps 10 40 true) (y := exState) ⟨p2, p1, p4, p3⟩]
    decide
  obtain ⟨tA, sA, hSA, hWA, hTA, hFA, hOA, hDA⟩ := single_roundtrip (cfgProto_laws _ hX) exState exTx WF_exState TxOK_exTx
    Fresh_ex hRX
  have hOA' : KeepM exState sA ∧ KeepS exState sA := hOA
  obtain ⟨_, s1, h1, k1⟩ := cfgProto_done _ hDA
  obtain ⟨_, _, _, _, _, _, hsil, _⟩ := cfg_handler_keeps _ hX (WF_pre WF_exState _) h1
  obtain ⟨_, e2, e3⟩ := hsil 10 40 true rfl
  obtain ⟨q1, q2, q3, _, _, q6, q7, q8, _, _⟩ := pre_fields sA (nextId tA)
  have hRA := exA_ready (pre sA (nextId tA)) (WF_pre hWA _) (by rw [q3, hOA'.1.segment]; rfl)
    (by rw [q2, q1, hOA'.2.div, hOA'.2.segment]; decide) (by rw [q6, k1.minDivI, e2]) (by rw [q7, k1.minDivP, e3])
    (by rw [q8, hOA'.1.time]; rfl)
  obtain ⟨tB, sB, hSB, _⟩ := sends_of_ready_mod sA tA hWA hTA hFA 1 (some (0, 0)) 3 5120 (Array.replicate 1000 7)
    (by simp) (by simp) hRA
  obtain ⟨t2, s2, h2, _, _, _, h6⟩ := tuple_equiv_cfg_data _ hX exState exTx WF_exState TxOK_exTx Fresh_ex
    (.modulation 1 (some (0, 0)) 3 5120 (Array.replicate 1000 7)) exA_ok tA sA tB sB hSA hSB
  exact ⟨tA, sA, tB, sB, rfl, exA_ok, hSA, hSB, t2, s2, h2, h6⟩

end

end Autd3.C03
