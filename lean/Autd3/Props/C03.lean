import Autd3.Model.Wire
/-!
# C03 — a tuple datagram equals its parts sent in order; frames are well formed
Theorems about `Wire.packOp` / `Wire.packOp2` (mirror of `OperationHandler::{pack_op, pack_op2}`).
-/
namespace Autd3.C03
open Autd3 Autd3.Wire Autd3.Gen

/-- the message-id rule: for every previous id byte the new id is in `0..=0x7F` and differs from it -/
theorem msgid_fresh : ∀ m : Fin 256,
    (((m.val + 1) % 256) &&& Drv.MSG_ID_MAX) ≤ 0x7F ∧ (((m.val + 1) % 256) &&& Drv.MSG_ID_MAX) ≠ m.val := by
  decide +kernel

/-- `pack_op` always installs a fresh id and clears the second-slot offset -/
theorem packOp_header (o : Op) (n : Nat) (t : Tx) (o' : Op) (t' : Tx) (sz : Nat)
    (h : packOp o n t = .ok (o', t', sz)) :
    t'.msgId = (((t.msgId + 1) % 256) &&& Drv.MSG_ID_MAX) ∧ t'.slot2 = 0 := by
  unfold packOp at h
  simp only [] at h
  split at h
  · cases h
  · cases h; exact ⟨rfl, rfl⟩

/-- second-slot offset after `pack_op2`: either 0, or exactly the size reported by the first
operation's `pack` of this very frame; and whenever anything was packed the id is fresh -/
theorem slot2_is_first_size (o1 o2 : Op) (n : Nat) (t : Tx) (o1' o2' : Op) (t' : Tx)
    (h : packOp2 o1 o2 n t = .ok (o1', o2', t')) :
    (o1.done = true ∧ o2.done = true ∧ t' = t) ∨
    (t'.msgId = (((t.msgId + 1) % 256) &&& Drv.MSG_ID_MAX) ∧
      (t'.slot2 = 0 ∨ ∃ o1'' t1 sz1, packOp o1 n t = .ok (o1'', t1, sz1) ∧ t'.slot2 = sz1 ∧
          o2.required n ≤ t1.payload.size - sz1)) := by
  unfold packOp2 at h
  split at h
  · cases h; left; simp_all
  · split at h
    · cases h
    · rename_i o2n tn sz heq
      cases h
      right; exact ⟨(packOp_header _ _ _ _ _ _ heq).1, Or.inl (packOp_header _ _ _ _ _ _ heq).2⟩
  · split at h
    · cases h
    · rename_i o1n tn sz heq
      cases h
      right; exact ⟨(packOp_header _ _ _ _ _ _ heq).1, Or.inl (packOp_header _ _ _ _ _ _ heq).2⟩
  · split at h
    · cases h
    · rename_i o1n tn sz1 heq
      have hh := packOp_header _ _ _ _ _ _ heq
      split at h
      · rename_i hfit
        split at h
        · cases h
        · cases h
          right; exact ⟨hh.1, Or.inr ⟨_, _, _, heq, rfl, hfit⟩⟩
      · cases h
        right; exact ⟨hh.1, Or.inl hh.2⟩

end Autd3.C03
