import Autd3.Lemmas.FociE2E
/-!
# C07 — foci appear where requested: Focus gain, FociSTM and physics agree

Property theorems only (helpers: `Lemmas/FociTables.lean` — facts decided over complete tables —
and `Lemmas/Foci.lean`).  The model is `Model/Foci.lean`; the `foci` stream ties it to the code.

Units: lengths of the firmware side are fixed-point units (1/40 mm), `lam` is the wavelength in those
units (numerically the sound speed in m/s: `one_turn_per_wavelength`), phases are steps of 1/256 turn.
A wave emitted with phase byte `b` arrives after a distance `D` with phase `b + 256·D/lam` (mod 256)
(`autd3-core/src/acoustics/mod.rs::propagate`: `exp(i·k·dist)`).

What is proved, and what is not (residue):

* firmware integer arithmetic, all inputs: (i) `fw_single_focus_phase`, `fw_single_focus_drive`;
  (ii) `fw_q_enclosure`; (iii) `trpos_matches_layout`, `trpos_within_two_fifths`,
  `grid_enumerates_present_cells`, `one_turn_per_wavelength`.
* (iv) `focus_cancels_propagation`: every phase byte that the **executable** admissibility test of the
  stream accepts for a Focus gain cancels the propagation phase within `1/2 + S/2^20` steps;
  `pose_is_isometry`, `local_point_inverts_pose`: the device-local coordinates the model checks the
  records against are the inverse pose of the global point, and the pose preserves distances — for
  every rotation quaternion and translation.
* (v) `fw_q_vs_ideal_phase` (general, symbolic error budget) and its instances `fw_vs_focus_bound`
  (poses within ~1 m: difference in −4..6 steps) and `fw_vs_focus_bound_far` (within ~5 m: −5..7).
  The `f32` evaluation of the SDK enters only through explicit hypotheses (`|record − ideal| ≤ 3/5`
  etc.); `record_test_sound`, `sound_speed_test_sound` show that the executable tests run on every
  case of the stream establish exactly such hypotheses, and `fw_vs_focus_end_to_end` chains everything:
  its hypotheses are the executable tests themselves plus decidable range conditions.
* (vi) multi-focus: `fw_multi_depends_on_avg`, `fw_multi_avg_enclosure`, `atan_angle_consistent`,
  `fw_multi_follows_phasor_sum_partial`, `fw_first_focus_has_no_offset`,
  `fw_intensity_is_first_record`, `record_bytes_relative_to_first`.

Residue (not carried by a theorem): the `f32`/nalgebra evaluation itself (bounded per case by the
executable tests, not for all inputs); the link `|sin.dat[k] − (127.5·sin(2πk/256) + 127.5)| ≤ 1/2` of
the sine table to the real sine (so the multi-focus statement is about the *table's* phasors, and the
single-focus one needs no trigonometry at all).
-/
namespace Autd3.Foci
open Autd3.Gen Autd3.Gen.Foci

/-! ## (i) single focus: the table pipeline returns `−q` within one step -/

/-- for all 256 phases `q`: `atan[(sin[q]/2) << 7 | sin[q+64]/2] + q ≡ −1, 0, 1 (mod 256)` -/
theorem fw_single_focus_phase : ∀ q, q < 256 →
    let φ := atanLookup (Tables.sinTable q / 2) (Tables.sinTable ((q + 64) % 256) / 2)
    (φ + q) % 256 = 255 ∨ (φ + q) % 256 = 0 ∨ (φ + q) % 256 = 1 :=
  table_single

/-- the firmware drive of a one-focus pattern, any sound-speed word `c > 0`, any record, any
transducer: phase `≡ −q ± 1`, intensity = the record's byte -/
theorem fw_single_focus_drive (c : ℕ) (hc : 0 < c) (r : Rec) (tr : ℕ) :
    ∃ φ, fwDrive c [r] tr = .ok (φ, r.io) ∧
      ((φ + qOf c r tr) % 256 = 255 ∨ (φ + qOf c r tr) % 256 = 0 ∨ (φ + qOf c r tr) % 256 = 1) :=
  fw_single_drive c hc r tr

/-! ## (ii) `q` encloses `√d₂ · 2¹⁴ / c` -/

/-- `X − 2¹⁴/c − 1 < q ≤ X` with `X = √d₂·2¹⁴/c`, for every record, transducer and `c > 0` -/
theorem fw_q_enclosure (c : ℕ) (hc : 0 < c) (r : Rec) (tr : ℕ) :
    (qOf c r tr : ℝ) ≤ Real.sqrt ((d2 r tr : ℤ) : ℝ) * 16384 / c ∧
    Real.sqrt ((d2 r tr : ℤ) : ℝ) * 16384 / c - 16384 / c - 1 < (qOf c r tr : ℝ) := by
  have hnn : 0 ≤ d2 r tr := by
    unfold d2
    nlinarith [mul_self_nonneg (r.x - trX tr), mul_self_nonneg (r.y - trY tr), mul_self_nonneg (r.z - trZ tr)]
  have hcast : (((d2 r tr).toNat : ℕ) : ℝ) = ((d2 r tr : ℤ) : ℝ) := by
    have h := congrArg (fun z : ℤ => (z : ℝ)) (Int.toNat_of_nonneg hnn)
    simp only [Int.cast_natCast] at h
    exact h
  have h := q_enclosure (d2 r tr).toNat c hc
  rw [hcast] at h
  exact h

/-! ## (iii) the firmware's transducer table is the SDK's AUTD3 layout -/

/-- all 249 `tr_pos` entries = round(grid index · 10.16 mm / 0.025 mm), z = 0; the grid function,
the pitch and the unit are regenerated from `autd3_device.rs` / `fpga/mod.rs` -/
theorem trpos_matches_layout : ∀ i, i < NUM_TRANS_IN_UNIT →
    trX i = (roundDiv ((gridId i).1 * TRANS_SPACING_NUM * UNITS_PER_MM) TRANS_SPACING_DEN : Nat) ∧
    trY i = (roundDiv ((gridId i).2 * TRANS_SPACING_NUM * UNITS_PER_MM) TRANS_SPACING_DEN : Nat) ∧
    trZ i = 0 :=
  trpos_table

/-- … hence within 2/5 unit (0.01 mm) of the exact position -/
theorem trpos_within_two_fifths : ∀ i, i < NUM_TRANS_IN_UNIT →
    5 * (trX i * TRANS_SPACING_DEN - ((gridId i).1 * TRANS_SPACING_NUM * UNITS_PER_MM : Nat)).natAbs ≤ 2 * TRANS_SPACING_DEN ∧
    5 * (trY i * TRANS_SPACING_DEN - ((gridId i).2 * TRANS_SPACING_NUM * UNITS_PER_MM : Nat)).natAbs ≤ 2 * TRANS_SPACING_DEN ∧
    trZ i = 0 :=
  trpos_close

/-- transducer `i` of the SDK's device sits in grid cell `grid_id i`: the row-major enumeration with
the three missing cells skipped is `grid_id 0, …, grid_id 248` -/
theorem grid_enumerates_present_cells :
    ((List.range (NUM_TRANS_X * NUM_TRANS_Y)).filter fun u => !isMissing (u % NUM_TRANS_X) (u / NUM_TRANS_X)).map
        (fun u => (u % NUM_TRANS_X, u / NUM_TRANS_X))
      = (List.range NUM_TRANS_IN_UNIT).map gridId :=
  grid_enumeration

/-- the scales fit: `2^Q_SHIFT / SOUND_SPEED_SCALE` steps per (unit / (m/s)) is one turn of 256 steps
per wavelength `c / f` (0.025 mm unit, factor 64, shift 14, 40 kHz — all regenerated from the sources) -/
theorem one_turn_per_wavelength :
    STEPS_PER_TURN_NUM = 256 * STEPS_PER_TURN_DEN ∧
    2 ^ Q_SHIFT * (METER * UNITS_PER_MM) = 256 * (SOUND_SPEED_SCALE * ULTRASOUND_FREQ) := by
  decide

/-! ## (iv) Focus gain cancels the propagation phase; the pose is an isometry -/

/-- every byte `b` in the admissible set the stream checks the Focus gain against is `offset − n` for
an integer `n` within `1/2 + S/2²⁰` of the propagation phase `S = 256·f·√D2 / C` (steps): the
contribution arrives with phase `b − offset + S ≡ S − n`, i.e. within half a step (plus the stated
float allowance) of phase zero.  `D2`, `C` are the exact squared distance and sound speed (any common
scale). -/
theorem focus_cancels_propagation (D2 C : ℤ) (off b : ℕ) (hC : 0 < C) (h : b ∈ focusBytes D2 C off) :
    ∃ n : ℕ, b = (off % 256 + 256 - n % 256) % 256 ∧
      |(stepsK : ℝ) * Real.sqrt D2 / C - n| ≤ 1 / 2 + ((stepsK : ℝ) * Real.sqrt D2 / C) / 1048576 := by
  obtain ⟨n, hn, hb⟩ := focusBytes_sound D2 C off b h
  exact ⟨n, hb, by simpa using focus_test_real D2 C n hC hn⟩

/-- for every rotation quaternion `q` and origin `t0`: the device-local images of two global points
are exactly as far apart as the points (`|q|⁴`-scaled integer identity; `local = localNum / |q|²`) -/
theorem pose_is_isometry (q : Quat) (t0 p t : V3) :
    ((localNum q t0 p).sub (localNum q t0 t)).norm2 = q.n2 * q.n2 * (p.sub t).norm2 :=
  pose_preserves_distance q t0 p t

/-- the local point is the **inverse** pose of the global one: rotating it back by `R(q)` and adding
`t0` returns `p` (a transform applied the wrong way round does not satisfy this) -/
theorem local_point_inverts_pose (q : Quat) (t0 p : V3) :
    q.mul (localNum q t0 p) =
      ⟨q.n2 * q.n2 * (p.x - t0.x), q.n2 * q.n2 * (p.y - t0.y), q.n2 * q.n2 * (p.z - t0.z)⟩ :=
  local_inverts_pose q t0 p

/-- the executable record test establishes `|X − ideal local coordinate| ≤ 1/2 + ε_rec` -/
theorem record_test_sound (X num n2 A B : ℤ) (hn : 0 < n2) (h : recOk1 X num n2 A B = true) :
    |(X : ℝ) - UNITS_PER_MM * (num : ℝ) / (n2 * sigma)|
      ≤ 1 / 2 + UNITS_PER_MM * (A : ℝ) / (sigma * 4194304) + UNITS_PER_MM * (B : ℝ) / (sigma * 524288) :=
  recOk1_real X num n2 A B hn h

/-- the executable sound-speed test establishes `|word − 64·c[m/s]| ≤ 1/2 + 1/64` -/
theorem sound_speed_test_sound (cw : ℕ) (C : ℤ) (h : ssOk cw C = true) :
    |(cw : ℝ) - SOUND_SPEED_SCALE * ((C : ℝ) / sigma / METER)| ≤ 33 / 64 :=
  ssOk_real cw C h

/-! ## (v) firmware phase against the ideal and against the Focus gain -/

/-- **error budget of the firmware's `q`**, symbolic.  `(px,py,pz)`, `(ux,uy,uz)`: ideal local focus and
transducer; `e`: per-coordinate error of (record − table entry); `e3`: error of the sound-speed word;
`L`: bound on the true distance.  Then
`256·D/λ − (2¹⁴/cw)(7/4·e + 1 + L·e3/(64λ)) − 1 < q ≤ 256·D/λ + (2¹⁴/cw)(7/4·e + L·e3/(64λ))`. -/
theorem fw_q_vs_ideal_phase (X Y Z tx ty tz : ℤ) (cw : ℕ) (px py pz ux uy uz lam e e3 L : ℝ)
    (hx : |((X - tx : ℤ) : ℝ) - (px - ux)| ≤ e) (hy : |((Y - ty : ℤ) : ℝ) - (py - uy)| ≤ e)
    (hz : |((Z - tz : ℤ) : ℝ) - (pz - uz)| ≤ e)
    (hcw : 0 < cw) (hlam : 0 < lam) (hc : |(cw : ℝ) - 64 * lam| ≤ e3)
    (hL : norm3 (px - ux) (py - uy) (pz - uz) ≤ L) :
    let q : ℕ := (Nat.sqrt ((X - tx) * (X - tx) + (Y - ty) * (Y - ty) + (Z - tz) * (Z - tz)).toNat * 16384) / cw
    let ideal := 256 * norm3 (px - ux) (py - uy) (pz - uz) / lam
    ideal - 16384 / cw * (7 / 4 * e + 1 + L * e3 / (64 * lam)) - 1 < q ∧
    (q : ℝ) ≤ ideal + 16384 / cw * (7 / 4 * e + L * e3 / (64 * lam)) :=
  fw_q_vs_ideal X Y Z tx ty tz cw px py pz ux uy uz lam e e3 L hx hy hz hcw hlam hc hL

/-- **FociSTM vs Focus gain**, single focus.  Hypotheses (each established per case by an executable
test of the stream, or by `trpos_within_two_fifths`): record within 3/5 unit of the ideal local focus,
table entry within 2/5 of the ideal local transducer, sound-speed word within 33/64 of `64λ`,
`λ ≥ 300` (c ≥ 300 m/s), focus within 50000 units (1250 mm) of the transducer, the physical distance
`Dg` (global frame) within 1/5 unit of the local one, and the Focus byte `b` cancelling the propagation
phase `256·Dg/λ` within `1/2 + 1/8`.  Then the firmware phase differs from `b` by `k ∈ [−4, 6]`
steps (mod 256). -/
theorem fw_vs_focus_bound
    (r : Rec) (tr cw : ℕ) (px py pz ux uy uz lam Dg : ℝ) (b : ℕ)
    (hx : |(r.x : ℝ) - px| ≤ 3 / 5) (hy : |(r.y : ℝ) - py| ≤ 3 / 5) (hz : |(r.z : ℝ) - pz| ≤ 3 / 5)
    (htx : |(trX tr : ℝ) - ux| ≤ 2 / 5) (hty : |(trY tr : ℝ) - uy| ≤ 2 / 5) (htz : |(trZ tr : ℝ) - uz| ≤ 2 / 5)
    (hlam : 300 ≤ lam) (hc : |(cw : ℝ) - 64 * lam| ≤ 33 / 64)
    (hL : norm3 (px - ux) (py - uy) (pz - uz) ≤ 50000)
    (hDg : |Dg - norm3 (px - ux) (py - uy) (pz - uz)| ≤ 1 / 5)
    (hb : ∃ m : ℤ, |(b : ℝ) + 256 * Dg / lam - 256 * m| ≤ 1 / 2 + 1 / 8) :
    ∃ φ, fwDrive cw [r] tr = .ok (φ, r.io) ∧ ∃ k j : ℤ, (φ : ℤ) - b = k + 256 * j ∧ -4 ≤ k ∧ k ≤ 6 :=
  fw_vs_focus_bound_near r tr cw px py pz ux uy uz lam Dg b hx hy hz htx hty htz hlam hc hL hDg hb

/-- the same with the looser float allowances of a device several metres from the origin (record
within 4/5, distance within 7/10 unit): `k ∈ [−5, 7]` -/
theorem fw_vs_focus_bound_far
    (r : Rec) (tr cw : ℕ) (px py pz ux uy uz lam Dg : ℝ) (b : ℕ)
    (hx : |(r.x : ℝ) - px| ≤ 4 / 5) (hy : |(r.y : ℝ) - py| ≤ 4 / 5) (hz : |(r.z : ℝ) - pz| ≤ 4 / 5)
    (htx : |(trX tr : ℝ) - ux| ≤ 2 / 5) (hty : |(trY tr : ℝ) - uy| ≤ 2 / 5) (htz : |(trZ tr : ℝ) - uz| ≤ 2 / 5)
    (hlam : 300 ≤ lam) (hc : |(cw : ℝ) - 64 * lam| ≤ 33 / 64)
    (hL : norm3 (px - ux) (py - uy) (pz - uz) ≤ 50000)
    (hDg : |Dg - norm3 (px - ux) (py - uy) (pz - uz)| ≤ 7 / 10)
    (hb : ∃ m : ℤ, |(b : ℝ) + 256 * Dg / lam - 256 * m| ≤ 1 / 2 + 1 / 8) :
    ∃ φ, fwDrive cw [r] tr = .ok (φ, r.io) ∧ ∃ k j : ℤ, (φ : ℤ) - b = k + 256 * j ∧ -5 ≤ k ∧ k ≤ 7 :=
  fw_vs_focus_far_aux r tr cw px py pz ux uy uz lam Dg b hx hy hz htx hty htz hlam hc hL hDg hb

/-- **end to end, hypotheses = the executable tests of the stream.**  For every rotation quaternion
`q ≠ 0`, requested position `pos`, stored transducer positions `t0`, `ti` (transducer `i < 249`), global
focal point `p`, sound speed `C` (all exact values `·σ` of `f32`s, or any integers), sound-speed word,
record `r` and Focus byte `b`: if the record, the word and the two stored positions pass the model's
admissibility tests, `b` is in the Focus gain's admissible set for the physical distance `‖p − ti‖`,
and (decidable ranges) `c ≥ 300 m/s`, the device is within 1 m of the origin per axis, `‖p‖₁ + ‖t0‖₁ ≤ 8 m`,
`‖p − t0‖₁ ≤ 2.2 m`, `‖p − ti‖ ≤ 49999 units` (1250 mm) — then the firmware's single-focus phase for
transducer `i` differs from `b` by `k ∈ [−5, 7]` steps (mod 256).  No real-number hypothesis is left:
what remains outside is only that the implementation's outputs pass these tests, which the stream
checks on every case. -/
theorem fw_vs_focus_end_to_end
    (q : Quat) (pos t0 ti p : V3) (C : ℤ) (cw i b : ℕ) (r : Rec)
    (hi : i < NUM_TRANS_IN_UNIT) (hq : 0 < q.n2)
    (hrec : recOk q t0 p r = true) (hss : ssOk cw C = true)
    (ht0 : trOk q pos 0 t0 = true) (hti : trOk q pos i ti = true)
    (hb : b ∈ focusBytes (p.sub ti).norm2 C 0)
    (hC : 300000 * (sigma : ℤ) ≤ C)
    (hpos : pos.x.natAbs ≤ 1000 * sigma ∧ pos.y.natAbs ≤ 1000 * sigma ∧ pos.z.natAbs ≤ 1000 * sigma)
    (hA : (p.abs1 + t0.abs1).natAbs ≤ 8000 * sigma) (hB : ((p.sub t0).abs1).natAbs ≤ 2200 * sigma)
    (hD : (p.sub ti).norm2 * (UNITS_PER_MM * UNITS_PER_MM) ≤ (49999 * sigma : ℕ) * (49999 * sigma : ℕ)) :
    ∃ φ, fwDrive cw [r] i = .ok (φ, r.io) ∧ ∃ k j : ℤ, (φ : ℤ) - b = k + 256 * j ∧ -5 ≤ k ∧ k ≤ 7 :=
  fw_vs_focus_e2e q pos t0 ti p C cw i b r hi hq hrec hss ht0 hti hb hC hpos hA hB hD

/-! ## (vi) several foci per pattern -/

/-- for every pattern (any number ≥ 1 of foci) and `c > 0` the drive is a function of the two 7-bit
averages of the per-focus sine/cosine look-ups only; the intensity is the first record's byte -/
theorem fw_multi_depends_on_avg (c : ℕ) (hc : 0 < c) (recs : List Rec) (hne : recs ≠ []) (tr : ℕ) :
    fwDrive c recs tr =
      .ok (atanLookup (avg7 (sinSum c tr recs) recs.length) (avg7 (cosSum c tr recs) recs.length), intensityOf recs) :=
  fwDrive_ok c hc recs hne tr

/-- the doubled averages enclose the mean of the table look-ups: `N·2a ≤ Σ < N·(2a + 2)` -/
theorem fw_multi_avg_enclosure (c tr : ℕ) (recs : List Rec) (hne : recs ≠ []) :
    (recs.length * (2 * avg7 (sinSum c tr recs) recs.length) ≤ sinSum c tr recs ∧
      sinSum c tr recs < recs.length * (2 * avg7 (sinSum c tr recs) recs.length + 2)) ∧
    (recs.length * (2 * avg7 (cosSum c tr recs) recs.length) ≤ cosSum c tr recs ∧
      cosSum c tr recs < recs.length * (2 * avg7 (cosSum c tr recs) recs.length + 2)) := by
  have hl : 0 < recs.length := List.length_pos_iff.mpr hne
  exact ⟨avg7_enclosure _ _ hl, avg7_enclosure _ _ hl⟩

/-- all 16384 arctangent entries answer an angle within `atan(1/20)` (2.04 steps) of their input
vector when its radius² exceeds 1170 (27 % of full scale), within `atan(1/10)` (4.06 steps) above 242
(12 %); angles are measured against the sine table's own vectors (`atanOk`) -/
theorem atan_angle_consistent : ∀ s, s < 128 → ∀ c, c < 128 →
    atanOk 1 20 1170 s c = true ∧ atanOk 1 10 242 s c = true :=
  fun s hs c hc => ⟨atan_consistent_20 s hs c hc, atan_consistent_10 s hs c hc⟩

/- Full clause of the property: "with several foci the firmware phase follows the argument of the sum
of the per-focus phasors, offsets relative to the first focus, whenever that sum is not close to zero".
In real-number form this is `|φ + (256/2π)·arg Σ_j exp(2πi(q_j + o_j)/256)| ≤ δ(|Σ|/N)`.
Proved below: the same statement with the phasors of the *sine table* in place of `exp` (integer
cross/dot products).  Missing for the full clause: `|sin.dat[k] − (127.5 sin(2πk/256) + 127.5)| ≤ 1/2`
for the 256 entries (true numerically; needs verified enclosures of `Real.sin`). -/
/-- for every pattern and `c > 0`: with `V = (2·avg_sin − 127, 2·avg_cos − 127)` (which encloses the
mean table phasor by `fw_multi_avg_enclosure`), the emitted phase `φ` satisfies the angle-consistency
predicate: either `|V|²` is below the radius threshold or `V` is within `atan(1/20)` resp. `atan(1/10)`
of the sine-table vector at angle `−φ` -/
theorem fw_multi_follows_phasor_sum_partial (c : ℕ) (hc : 0 < c) (recs : List Rec) (hne : recs ≠ []) (tr : ℕ) :
    ∃ s k : ℕ, s = avg7 (sinSum c tr recs) recs.length ∧ k = avg7 (cosSum c tr recs) recs.length ∧
      s < 128 ∧ k < 128 ∧
      fwDrive c recs tr = .ok (atanLookup s k, intensityOf recs) ∧
      atanOk 1 20 1170 s k = true ∧ atanOk 1 10 242 s k = true := by
  have hl : 0 < recs.length := List.length_pos_iff.mpr hne
  have hs := avg7_lt _ _ hl (sinSum_le c tr recs)
  have hk := avg7_lt _ _ hl (cosSum_le c tr recs)
  exact ⟨_, _, rfl, rfl, hs, hk, fwDrive_ok c hc recs hne tr, atan_consistent_20 _ hs _ hk, atan_consistent_10 _ hs _ hk⟩

/-- the first focus of a pattern enters with offset 0: its record byte (the intensity) does not
influence the phase sums -/
theorem fw_first_focus_has_no_offset (c tr : ℕ) (r : Rec) (rs : List Rec) (x : ℕ) :
    sinSum c tr ({ r with io := x } :: rs) = sinSum c tr (r :: rs) ∧
    cosSum c tr ({ r with io := x } :: rs) = cosSum c tr (r :: rs) :=
  sums_ignore_first_byte c tr r rs x

/-- the emitted intensity is the byte of the first record, whatever the other records are -/
theorem fw_intensity_is_first_record (c : ℕ) (r : Rec) (rs : List Rec) (tr φ i : ℕ)
    (h : fwDrive c (r :: rs) tr = .ok (φ, i)) : i = r.io := by
  unfold fwDrive at h
  simp only [List.length_cons, Nat.add_one_ne_zero, if_false] at h
  split at h
  · cases h
  · simp only [intensityOf, Except.ok.injEq, Prod.mk.injEq] at h
    exact h.2.symm

/-- the driver's record bytes depend on the phase offsets only through their differences to the first:
adding any constant to all offsets leaves every byte unchanged; the first byte is the intensity -/
theorem record_bytes_relative_to_first (intensity k : ℕ) (offs : List ℕ) :
    ioBytes intensity (offs.map fun o => (o + k) % 256) = ioBytes intensity offs ∧
    (∀ o0 rest, offs = o0 :: rest → (ioBytes intensity offs).head? = some (intensity % 256)) := by
  constructor
  · cases offs with
    | nil => rfl
    | cons o0 rest =>
      simp only [List.map_cons, ioBytes, List.map_map, List.cons.injEq, true_and]
      apply List.map_congr_left
      intro o _
      simp only [Function.comp]
      omega
  · intro o0 rest h; subst h; rfl

/-! ## non-vacuity: concrete instances -/

/-- device at the origin, focus 150 mm above transducer 0, c = 340 m/s (word 21760): `q = 4517`,
phase 91 = −4517 mod 256 (+0), intensity 255 -/
example : fwDrive 21760 [⟨0, 0, 6000, 255⟩] 0 = .ok (91, 255) := by decide +kernel
example : qOf 21760 ⟨0, 0, 6000, 255⟩ 0 = 4517 := by decide +kernel

/-- the Focus gain's admissible set for the same geometry (distance 150 mm, c = 340000 mm/s, both
scaled by `σ`) is the single byte 90 = −4517.65 rounded -/
example : focusBytes ((150 * sigma : ℕ) * (150 * sigma : ℕ) : ℕ) ((340000 * sigma : ℕ) : ℤ) 0 = [90] := by
  decide +kernel

/-- the hypotheses of `fw_vs_focus_bound` hold for that case (`b = 90`, `Dg = 6000` units, `λ = 340`) -/
example : ∃ φ, fwDrive 21760 [⟨0, 0, 6000, 255⟩] 0 = .ok (φ, 255) ∧
    ∃ k j : ℤ, (φ : ℤ) - (90 : ℕ) = k + 256 * j ∧ -4 ≤ k ∧ k ≤ 6 := by
  have hn : norm3 (0 - 0) (0 - 0) (6000 - 0) = 6000 := by
    unfold norm3
    rw [show ((0 : ℝ) - 0) * (0 - 0) + (0 - 0) * (0 - 0) + (6000 - 0) * (6000 - 0) = 6000 * 6000 by norm_num]
    exact Real.sqrt_mul_self (by norm_num)
  have h0 : trX 0 = 0 ∧ trY 0 = 0 ∧ trZ 0 = 0 := by decide +kernel
  refine fw_vs_focus_bound ⟨0, 0, 6000, 255⟩ 0 21760 0 0 6000 0 0 0 340 6000 90 ?_ ?_ ?_ ?_ ?_ ?_ ?_ ?_ ?_ ?_ ?_
  · norm_num
  · norm_num
  · norm_num
  · rw [h0.1]; norm_num
  · rw [h0.2.1]; norm_num
  · rw [h0.2.2]; norm_num
  · norm_num
  · norm_num
  · rw [hn]; norm_num
  · rw [hn]; norm_num
  · refine ⟨18, ?_⟩
    rw [abs_le]; constructor <;> norm_num

/-- every hypothesis of `fw_vs_focus_end_to_end` is decidable and holds for: identity pose at the
origin, transducer 5 (stored at 50.8 mm on the x axis), focus (0, 0, 150 mm), c = 340 m/s, word 21760,
record (0, 0, 6000), Focus byte 94; the firmware answers 95 -/
example : ∃ φ, fwDrive 21760 [⟨0, 0, 6000, 255⟩] 5 = .ok (φ, 255) ∧
    ∃ k j : ℤ, (φ : ℤ) - (94 : ℕ) = k + 256 * j ∧ -5 ≤ k ∧ k ≤ 7 :=
  fw_vs_focus_end_to_end ⟨sigma, 0, 0, 0⟩ ⟨0, 0, 0⟩ ⟨0, 0, 0⟩ ⟨((254 * sigma) / 5 : ℕ), 0, 0⟩ ⟨0, 0, (150 * sigma : ℕ)⟩
    ((340000 * sigma : ℕ) : ℤ) 21760 5 94 ⟨0, 0, 6000, 255⟩
    (by decide) (by decide +kernel) (by decide +kernel) (by decide +kernel) (by decide +kernel) (by decide +kernel)
    (by decide +kernel) (by decide +kernel) (by decide +kernel) (by decide +kernel) (by decide +kernel) (by decide +kernel)
example : fwDrive 21760 [⟨0, 0, 6000, 255⟩] 5 = .ok (95, 255) := by decide +kernel

/-- a rotated, translated pose: quaternion (1,1,0,0) (90° about x, unnormalised), origin (8,16,24),
global point (8, 16−3, 24+2)·… — the record (40, 80, 120) passes the executable test and the
counter-rotated one does not -/
example :
    recOk ⟨sigma, sigma, 0, 0⟩ ⟨8 * sigma, 16 * sigma, 24 * sigma⟩ ⟨9 * sigma, 13 * sigma, 26 * sigma⟩ ⟨40, 80, 120, 0⟩ = true ∧
    recOk ⟨sigma, sigma, 0, 0⟩ ⟨8 * sigma, 16 * sigma, 24 * sigma⟩ ⟨9 * sigma, 13 * sigma, 26 * sigma⟩ ⟨40, -80, -120, 0⟩ = false := by
  decide +kernel

/-- two foci with opposite phasors: the averages are the centre (63, 63) and the radius test of
`atanOk` is what excuses the entry -/
example : fwDrive 21760 [⟨0, 0, 6000, 7⟩, ⟨0, 0, 6000, 128⟩] 0 = .ok (atanLookup 63 63, 7) := by decide +kernel

end Autd3.Foci
