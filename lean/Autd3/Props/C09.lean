import Autd3.Lemmas.SilencerRate
/-!
# C09 — the silencer filter completes on time, by the shortest way, without overshoot

Property theorems only (helpers live in `Lemmas/Silencer*.lean`).  The model is
`Model/Silencer.lean` (mirror of `fpga/emulator/silencer.rs`); it is tied to the Rust code by the
`silencer` correspondence stream.  All statements are for **every** step count / rate `v > 0`
(not only `v ≤ 65535`), every pair of bytes, and every settled state (arbitrary `diff_mem`,
`step_rem_mem`).
-/
namespace Autd3.Silencer

/-- a settled fixed-completion-steps filter resting on byte `c0` with arbitrary rate memory -/
def settled (v c0 dm rm : Nat) : Sil :=
  { current := (c0 : Int) * 256, fixedUpdateRate := false, value := v,
    currentTarget := c0, diffMem := dm, stepRemMem := rm }

private theorem acc_full (D v k : Nat) (hv : 0 < v) (hk : v ≤ k) :
    D ≤ k * (D / v) + min (D % v) (k - 1) := by
  have h1 : v * (D / v) + D % v = D := Nat.div_add_mod D v
  have h2 : D % v < v := Nat.mod_lt _ hv
  have h3 : v * (D / v) ≤ k * (D / v) := Nat.mul_le_mul_right _ hk
  omega

/-- **Intensity, completion**: after a step change from a settled state the filter sits exactly on
the new target after `v` updates (and stays there for every later update). -/
theorem intensity_completes (c0 t v dm rm k : Nat) (hv : 0 < v) (hne : t ≠ c0) (hk : v ≤ k) :
    (iterI (settled v c0 dm rm) t k).current = (t : Int) * 256 ∧
    outByte (iterI (settled v c0 dm rm) t k).current = t % 256 := by
  obtain ⟨n, rfl⟩ : ∃ n, k = n + 1 := ⟨k - 1, by omega⟩
  have hpos : posI c0 t v (n + 1) = (t : Int) * 256 := by
    have hacc := acc_full (absDiff t c0 * 256) v (n + 1) hv hk
    unfold posI; simp only []
    generalize (n + 1) * (absDiff t c0 * 256 / v) + min (absDiff t c0 * 256 % v) (n + 1 - 1) = acc at *
    rcases Nat.lt_or_gt_of_ne hne with h | h
    · have hab : absDiff t c0 = c0 - t := by unfold absDiff; simp [h]
      have h1 : ¬ c0 < t := by omega
      rw [hab] at hacc ⊢; simp only [h1, if_false]; omega
    · have hab : absDiff t c0 = t - c0 := by unfold absDiff; simp [Nat.not_lt.mpr (Nat.le_of_lt h)]
      rw [hab] at hacc ⊢; simp only [h, if_true]; omega
  unfold settled
  rw [iterI_inv c0 t v dm rm hv hne n]
  simp only [hpos, outByte]
  refine ⟨trivial, ?_⟩
  omega

/-- **Intensity, monotone and no overshoot** (any state, any mode, any rate): one update leaves the
internal value between where it was and the target. -/
theorem intensity_monotone_no_overshoot (s : Sil) (t : Nat) :
    let c := s.current; let c' := (s.applyI t).1.current; let T := (t : Int) * 256
    (c ≤ T → c ≤ c' ∧ c' ≤ T) ∧ (T ≤ c → T ≤ c' ∧ c' ≤ c) := by
  have hcur : ∀ (s : Sil) (x : Nat), (s.updateRateI x).1.current = s.current := by
    intro s x; unfold Sil.updateRateI Sil.rateOfDiff
    split
    · rfl
    · simp only []; split <;> (try split) <;> rfl
  simp only [Sil.applyI]
  have hb := moveBy_between (s.updateRateI t).1.current ((t : Int) * 256 - (s.updateRateI t).1.current) (s.updateRateI t).2
  rw [hcur] at hb ⊢
  constructor <;> intro h
  · by_cases h0 : (0 : Int) ≤ (t : Int) * 256 - s.current
    · have := hb.1 h0; omega
    · omega
  · by_cases h0 : (t : Int) * 256 - s.current < 0
    · have := hb.2 h0; omega
    · have := hb.1 (by omega); omega

/-- **Intensity, exact trajectory**: the position after `k ≥ 1` updates is the closed form `posI`,
a function of `(start, target, v, k)` only — independent of the rate memory of the settled state. -/
theorem intensity_trajectory (c0 t v dm rm n : Nat) (hv : 0 < v) (hne : t ≠ c0) :
    (iterI (settled v c0 dm rm) t (n + 1)).current = posI c0 t v (n + 1) := by
  unfold settled; rw [iterI_inv c0 t v dm rm hv hne n]

/-- **Phase, completion**: `v` updates after a step change the filter sits on the new target. -/
theorem phase_completes (c0 t v dm rm k : Nat) (hv : 0 < v) (hne : t ≠ c0)
    (hc : c0 < 256) (ht : t < 256) (hk : v ≤ k) :
    (iterP (settled v c0 dm rm) t k).current = (t : Int) * 256 ∧
    outByte (iterP (settled v c0 dm rm) t k).current = t := by
  obtain ⟨n, rfl⟩ : ∃ n, k = n + 1 := ⟨k - 1, by omega⟩
  have hpos : posP c0 t v (n + 1) = (t : Int) * 256 := by
    have hacc := acc_full (circDist t c0 * 256) v (n + 1) hv hk
    have hD : (circDist t c0 : Int) * 256 = wrapStep ((t : Int) * 256 - (c0 : Int) * 256) ∨
              -((circDist t c0 : Int) * 256) = wrapStep ((t : Int) * 256 - (c0 : Int) * 256) := by
      unfold circDist absDiff wrapStep; simp only []; split <;> split <;> split <;> split <;> omega
    have hd : circDist t c0 ≠ 0 := by
      unfold circDist absDiff; simp only []; split <;> split <;> omega
    have hwr := wrapStep_range ((t : Int) * 256 - (c0 : Int) * 256) (by omega)
    unfold posP; simp only []
    generalize (n + 1) * (circDist t c0 * 256 / v) + min (circDist t c0 * 256 % v) (n + 1 - 1) = acc at *
    generalize wrapStep ((t : Int) * 256 - (c0 : Int) * 256) = w at *
    generalize circDist t c0 = d at *
    split <;> omega
  unfold settled
  rw [iterP_inv c0 t v dm rm hv hne hc ht n]
  simp only [hpos, outByte]
  refine ⟨trivial, ?_⟩
  omega

/-- **Phase, shorter arc, no overshoot**: at every moment of the transition the filter has travelled
`m ≤ 256·circDist(start,target) ≤ 32768` sixteen-bit units from the start in one fixed direction,
and that direction is the one in which the target lies `256·circDist` away. -/
theorem phase_shorter_arc (c0 t v dm rm n : Nat) (hv : 0 < v) (hne : t ≠ c0)
    (hc : c0 < 256) (ht : t < 256) :
    circDist t c0 ≤ 128 ∧
    ∃ m : Nat, m ≤ circDist t c0 * 256 ∧
      (((iterP (settled v c0 dm rm) t (n + 1)).current = ((c0 : Int) * 256 + m) % 65536 ∧
        ((c0 : Int) * 256 + (circDist t c0 * 256 : Nat)) % 65536 = (t : Int) * 256) ∨
       ((iterP (settled v c0 dm rm) t (n + 1)).current = ((c0 : Int) * 256 - m) % 65536 ∧
        ((c0 : Int) * 256 - (circDist t c0 * 256 : Nat)) % 65536 = (t : Int) * 256)) := by
  have hcd : circDist t c0 ≤ 128 := by unfold circDist absDiff; simp only []; split <;> split <;> omega
  refine ⟨hcd, ?_⟩
  have hD : (circDist t c0 : Int) * 256 = wrapStep ((t : Int) * 256 - (c0 : Int) * 256) ∨
            -((circDist t c0 : Int) * 256) = wrapStep ((t : Int) * 256 - (c0 : Int) * 256) := by
    unfold circDist absDiff wrapStep; simp only []; split <;> split <;> split <;> split <;> omega
  have hd : circDist t c0 ≠ 0 := by
    unfold circDist absDiff; simp only []; split <;> split <;> omega
  have hwr := wrapStep_range ((t : Int) * 256 - (c0 : Int) * 256) (by omega)
  unfold settled
  rw [iterP_inv c0 t v dm rm hv hne hc ht n]
  simp only [posP]
  refine ⟨min (circDist t c0 * 256) ((n + 1) * (circDist t c0 * 256 / v) + min (circDist t c0 * 256 % v) (n + 1 - 1)), Nat.min_le_left _ _, ?_⟩
  generalize min (circDist t c0 * 256) ((n + 1) * (circDist t c0 * 256 / v) + min (circDist t c0 * 256 % v) (n + 1 - 1)) = m
  generalize wrapStep ((t : Int) * 256 - (c0 : Int) * 256) = w at *
  generalize circDist t c0 = d at *
  split
  · left; constructor
    · rfl
    · omega
  · right; constructor
    · rfl
    · omega

/-- the travelled distance `m` of `phase_shorter_arc` is non-decreasing in the number of updates -/
theorem phase_travel_monotone (D v k : Nat) :
    min D (k * (D / v) + min (D % v) (k - 1)) ≤ min D ((k + 1) * (D / v) + min (D % v) (k + 1 - 1)) := by
  rw [Nat.succ_mul]
  generalize D / v = q
  generalize D % v = r
  generalize k * q = kq
  omega

/-- **Phase, no winding state**: after any update, from any state, the internal value is a 16-bit
quantity: there is no component of the state in which full turns could accumulate. -/
theorem phase_current_in_range (s : Sil) (t : Nat) :
    0 ≤ (s.applyP t).1.current ∧ (s.applyP t).1.current < 65536 := by
  simp only [Sil.applyP]; omega

/-- **Phase, history independence**: the response to a step change is the closed form `posP`, a
function of `(start byte, target byte, v, k)` only; neither the rate memory nor anything that
happened before the filter settled on `c0` enters. -/
theorem phase_trajectory (c0 t v dm rm n : Nat) (hv : 0 < v) (hne : t ≠ c0)
    (hc : c0 < 256) (ht : t < 256) :
    (iterP (settled v c0 dm rm) t (n + 1)).current = posP c0 t v (n + 1) := by
  unfold settled; rw [iterP_inv c0 t v dm rm hv hne hc ht n]

/-- **Fixed update rate mode**: no update moves the internal value by more than the configured rate
(intensity: on the line; phase: on the 16-bit circle). -/
theorem rate_mode_bounded_intensity (s : Sil) (t : Nat) (hf : s.fixedUpdateRate = true) :
    (s.applyI t).1.current - s.current ≤ s.value ∧ s.current - (s.applyI t).1.current ≤ s.value := by
  simp only [Sil.applyI, Sil.updateRateI, hf, if_true]
  exact moveBy_rate _ _ _

theorem rate_mode_bounded_phase (s : Sil) (t : Nat) (hf : s.fixedUpdateRate = true)
    (_hc : 0 ≤ s.current ∧ s.current < 65536) :
    ((s.applyP t).1.current - s.current) % 65536 ≤ s.value ∨
    (s.current - (s.applyP t).1.current) % 65536 ≤ s.value := by
  simp only [Sil.applyP, Sil.updateRateP, hf, if_true]
  have h := moveBy_rate s.current (wrapStep ((t : Int) * 256 - s.current)) s.value
  generalize moveBy s.current (wrapStep ((t : Int) * 256 - s.current)) s.value = c' at *
  by_cases hle : s.current ≤ c'
  · left; omega
  · right; omega

/-- **Fixed update rate mode, intensity, exact trajectory from ANY state** (the mode keeps no rate memory, so no
"settled" hypothesis is needed): `n` updates toward `t` move the internal value by `n · rate` toward `t · 256` and
stop there; nothing else in the filter changes. -/
theorem rate_mode_trajectory_intensity (s : Sil) (t n : Nat) (hf : s.fixedUpdateRate = true) :
    iterI s t n = { s with current := posRI s.current ((t : Int) * 256) s.value n } ∧
    (s.current ≤ (t : Int) * 256 →
      (iterI s t n).current = min (s.current + ((n * s.value : Nat) : Int)) ((t : Int) * 256)) ∧
    ((t : Int) * 256 < s.current →
      (iterI s t n).current = max (s.current - ((n * s.value : Nat) : Int)) ((t : Int) * 256)) := by
  have h := iterI_rate s t hf n
  refine ⟨h, ?_, ?_⟩ <;> intro hle <;> rw [h] <;> simp only [posRI]
  · rw [if_pos hle]
  · rw [if_neg (by omega)]

/-- **Fixed update rate mode, intensity, completion**: as soon as `k · rate` covers the distance the filter sits
exactly on the target (and stays): completion within `⌈distance · 256 / rate⌉` updates, from any state. -/
theorem rate_mode_completes_intensity (s : Sil) (t k : Nat) (hf : s.fixedUpdateRate = true) (ht : t < 256)
    (hk : (t : Int) * 256 - s.current ≤ ((k * s.value : Nat) : Int) ∧
          s.current - (t : Int) * 256 ≤ ((k * s.value : Nat) : Int)) :
    (iterI s t k).current = (t : Int) * 256 ∧ outByte (iterI s t k).current = t := by
  have h := iterI_rate s t hf k
  have hc : (iterI s t k).current = (t : Int) * 256 := by
    rw [h]; simp only [posRI]; split <;> omega
  refine ⟨hc, ?_⟩
  rw [hc]; unfold outByte; omega

/-- **Fixed update rate mode, phase, exact trajectory on the 16-bit circle from any state**: with
`d = wrapStep (t·256 − current)` the signed shorter arc to the target (|d| ≤ 32768), after `n` updates the remaining
signed arc is `d` shortened by `min |d| (n · rate)` — same direction throughout (shorter way, never the long way round),
never past the target (no overshoot), non-increasing in `n` (monotone) — the internal value stays a 16-bit number and is
the start moved along that arc. -/
theorem rate_mode_trajectory_phase (s : Sil) (t n : Nat) (hf : s.fixedUpdateRate = true)
    (hc : 0 ≤ s.current ∧ s.current < 65536) (ht : t < 256) :
    (0 ≤ (iterP s t n).current ∧ (iterP s t n).current < 65536) ∧
    (0 ≤ wrapStep ((t : Int) * 256 - s.current) →
      wrapStep ((t : Int) * 256 - (iterP s t n).current) =
        wrapStep ((t : Int) * 256 - s.current) - min (wrapStep ((t : Int) * 256 - s.current)) ((n * s.value : Nat) : Int)) ∧
    (wrapStep ((t : Int) * 256 - s.current) < 0 →
      wrapStep ((t : Int) * 256 - (iterP s t n).current) =
        wrapStep ((t : Int) * 256 - s.current) + min (-wrapStep ((t : Int) * 256 - s.current)) ((n * s.value : Nat) : Int)) ∧
    (iterP s t n).current =
      (s.current + wrapStep ((t : Int) * 256 - s.current) - wrapStep ((t : Int) * 256 - (iterP s t n).current)) % 65536 := by
  obtain ⟨cn, e, hcn, hp, hn⟩ := iterP_rate s t hf hc ht n
  have ec : (iterP s t n).current = cn := by rw [e]
  rw [ec]
  refine ⟨hcn, hp, hn, ?_⟩
  have h1 := wrapStep_range ((t : Int) * 256 - s.current) (by omega)
  have h2 := wrapStep_range ((t : Int) * 256 - cn) (by omega)
  omega

/-- **Fixed update rate mode, phase, completion**: as soon as `k · rate` covers the shorter arc the filter sits on
the target: within `⌈arc · 256 / rate⌉` updates, from any 16-bit state. -/
theorem rate_mode_completes_phase (s : Sil) (t k : Nat) (hf : s.fixedUpdateRate = true)
    (hc : 0 ≤ s.current ∧ s.current < 65536) (ht : t < 256)
    (hk : wrapStep ((t : Int) * 256 - s.current) ≤ ((k * s.value : Nat) : Int) ∧
          -wrapStep ((t : Int) * 256 - s.current) ≤ ((k * s.value : Nat) : Int)) :
    (iterP s t k).current = (t : Int) * 256 ∧ outByte (iterP s t k).current = t := by
  obtain ⟨cn, e, hcn, hp, hn⟩ := iterP_rate s t hf hc ht k
  have ec : (iterP s t k).current = cn := by rw [e]
  have h2 := wrapStep_range ((t : Int) * 256 - cn) (by omega)
  have h0 : wrapStep ((t : Int) * 256 - cn) = 0 := by
    by_cases hd : 0 ≤ wrapStep ((t : Int) * 256 - s.current)
    · have := hp hd; omega
    · have := hn (by omega); omega
  have hcn' : cn = (t : Int) * 256 := by omega
  rw [ec, hcn']
  refine ⟨rfl, ?_⟩
  unfold outByte; omega

/-! non-vacuity of the update-rate theorems: a filter in update-rate mode in mid-range, targets on both sides and
across the 255→0 wrap (F9's direction), rate 1000: ⌈distance·256/1000⌉ updates suffice and one fewer do not. -/
example : (iterI (Sil.new true 1000 10) 128 31).current = 128 * 256 ∧ (iterI (Sil.new true 1000 10) 128 30).current ≠ 128 * 256 := by
  decide +kernel
example : (iterP (Sil.new true 1000 250) 5 3).current = 5 * 256 ∧ (iterP (Sil.new true 1000 250) 5 2).current = 464 := by
  decide +kernel
example : wrapStep ((5 : Int) * 256 - (Sil.new true 1000 250).current) = 2816 := by decide +kernel

/-! Non-vacuity: concrete settled states meet the hypotheses, and the F9 witness
(targets 85,170,0,85,170,0 with 40 steps) now completes every step in 40 updates. -/
example : (iterI (settled 10 10 0 0) 128 10).current = 128 * 256 := by decide +kernel
example : (iterP (settled 40 170 85 0) 0 40).current = 0 := by decide +kernel
example :
    ((Sil.new false 40 0).runP (List.replicate 40 85 ++ List.replicate 40 170 ++ List.replicate 40 0
      ++ List.replicate 40 85 ++ List.replicate 40 170 ++ List.replicate 40 0)).2.getLast? = some 0 := by
  decide +kernel

/-! Hand-over (`silencer_emulator_*_continue_with`): a new emulator object that takes over a running filter under
the same configuration is the same filter — in particular the remainder counter of a transition in flight
survives, so the completion theorems above hold across hand-overs — and under a new configuration exactly the
mode and the value change. -/
theorem continueWith_same_config (s : Sil) : s.continueWith s.fixedUpdateRate s.value = s := by
  cases s; rfl

theorem continueWith_keeps (s : Sil) (f : Bool) (v : Nat) :
    (s.continueWith f v).current = s.current ∧ (s.continueWith f v).currentTarget = s.currentTarget ∧
    (s.continueWith f v).diffMem = s.diffMem ∧ (s.continueWith f v).stepRemMem = s.stepRemMem ∧
    (s.continueWith f v).fixedUpdateRate = f ∧ (s.continueWith f v).value = v := by
  simp [Sil.continueWith]

/-- a transition handed over after `j` updates completes on time: with the hand-over it is the same run -/
theorem handover_run_invisible (s : Sil) (ts us : List Nat) :
    ((s.runP ts).1.continueWith (s.runP ts).1.fixedUpdateRate (s.runP ts).1.value).runP us = (s.runP ts).1.runP us ∧
    ((s.runI ts).1.continueWith (s.runI ts).1.fixedUpdateRate (s.runI ts).1.value).runI us = (s.runI ts).1.runI us := by
  simp [continueWith_same_config]

example : ((Sil.new false 10 10).runI [128, 128, 128, 128, 128]).1.stepRemMem ≠ 0 := by decide +kernel

end Autd3.Silencer
