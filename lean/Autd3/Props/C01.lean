import Autd3.Model.Wire
import Autd3.Model.Obs
import Autd3.Lemmas.RtExample
import Autd3.Lemmas.RtNew
import Autd3.Lemmas.RtOps6
import Autd3.Lemmas.RtFoci8
import Autd3.Lemmas.RtGstm10
import Autd3.Lemmas.RtMulti
import Autd3.Lemmas.Rt2Obs
import Autd3.Lemmas.Rt2SlotEx
import Autd3.Lemmas.Rt2SlotGain
import Autd3.Lemmas.Rt2Modes
import Autd3.Lemmas.Tuple2C01
/-!
# C01 — what is sent is what the device holds

First layer (regenerated from the sources on every run): the driver and the firmware model agree on
every wire header layout, every tag is dispatched, flag bits agree, page geometry fits the memories.
The round-trip theorems over `Wire ∘ Fw ∘ Obs` are in the second half of this file.

Second layer (this file, from "round trips" on): for EVERY well-formed prior state `s` (`Rt.WF`: the seven
memories have their hardware sizes, ≤ 249 transducers, no strobe bit latched in the CPU's flag word,
swap chains with positive divisions/cycles, positive sampling-division registers), every transmit
buffer `t` with a 622-byte payload (`Rt.TxOK`, stale content arbitrary) whose next message id the device
has not just processed (`Rt.Fresh`), and every content: the datagram is packed by `Wire.Op.pack` /
`packOp`, framed by `Tx.frame`, delivered by `Fw.ecatRecv` frame by frame until the operation is done
(`Rt.Sends`, the send loop of one device), every frame is acknowledged without error, and the read-back
accessors `Obs.*` then return what the user supplied.  Each theorem also re-establishes `WF`, `TxOK`,
`Fresh`, so the theorems chain over arbitrary sequences of datagrams.  Firmware-side guards
(`validate_transition_mode`, `validate_silencer_settings`, the SysTime margin) appear as explicit
hypotheses on the prior state: they are exactly the conditions under which the firmware accepts.
-/
namespace Autd3.C01
open Autd3 Autd3.Gen

/-- driver header layout = firmware header layout, field by field, for all 23 shared headers -/
theorem header_layouts_agree :
    ∀ p ∈ headerPairs, p.2.2.1 = p.2.2.2.1 ∧ p.2.2.2.2.1 = p.2.2.2.2.2 := by decide

/-- every tag the driver can emit is dispatched by `handle_payload` (no `ERR_NOT_SUPPORTED_TAG`) -/
theorem every_tag_dispatched :
    ∀ t ∈ allTags, (Dispatch.arms.find? (fun a => a.1 = t.2)).isSome = true := by decide

/-- every dispatched handler exists in the model -/
theorem every_arm_modelled :
    ∀ a ∈ Dispatch.arms, (Fw.handlerOf a.2).isSome = true := by decide

/-- control-flag bits of the driver's bitflags = the firmware's constants -/
theorem flag_bits_agree :
    Drv.ModulationControlFlags_BEGIN = Cpu.MODULATION_FLAG_BEGIN ∧
    Drv.ModulationControlFlags_END = Cpu.MODULATION_FLAG_END ∧
    Drv.ModulationControlFlags_TRANSITION = Cpu.MODULATION_FLAG_UPDATE ∧
    Drv.ModulationControlFlags_SEGMENT = Cpu.MODULATION_FLAG_SEGMENT ∧
    Drv.GainControlFlags_UPDATE = Cpu.GAIN_FLAG_UPDATE ∧
    Drv.FociSTMControlFlags_BEGIN = Cpu.FOCI_STM_FLAG_BEGIN ∧
    Drv.FociSTMControlFlags_END = Cpu.FOCI_STM_FLAG_END ∧
    Drv.FociSTMControlFlags_TRANSITION = Cpu.FOCI_STM_FLAG_UPDATE ∧
    Drv.GainSTMControlFlags_BEGIN = Cpu.GAIN_STM_FLAG_BEGIN ∧
    Drv.GainSTMControlFlags_END = Cpu.GAIN_STM_FLAG_END ∧
    Drv.GainSTMControlFlags_TRANSITION = Cpu.GAIN_STM_FLAG_UPDATE ∧
    Drv.GainSTMControlFlags_SEGMENT = Cpu.GAIN_STM_FLAG_SEGMENT ∧
    Drv.GainSTMControlFlags_SEND_BIT0 = 64 ∧ Drv.GainSTMControlFlags_SEND_BIT1 = 128 ∧
    Drv.SilencerControlFlags_FIXED_UPDATE_RATE = Cpu.SILENCER_FLAG_FIXED_UPDATE_RATE_MODE ∧
    Drv.SilencerControlFlags_STRICT_MODE = Cpu.SILENCER_FLAG_STRICT_MODE ∧
    Drv.GainSTMMode_PhaseIntensityFull = Cpu.GAIN_STM_MODE_INTENSITY_PHASE_FULL ∧
    Drv.GainSTMMode_PhaseFull = Cpu.GAIN_STM_MODE_PHASE_FULL ∧
    Drv.GainSTMMode_PhaseHalf = Cpu.GAIN_STM_MODE_PHASE_HALF ∧
    Drv.TRANSITION_MODE_SYNC_IDX = Cpu.TRANSITION_MODE_SYNC_IDX ∧
    Drv.TRANSITION_MODE_SYS_TIME = Cpu.TRANSITION_MODE_SYS_TIME ∧
    Drv.TRANSITION_MODE_GPIO = Cpu.TRANSITION_MODE_GPIO ∧
    Drv.TRANSITION_MODE_EXT = Cpu.TRANSITION_MODE_EXT ∧
    Drv.TRANSITION_MODE_NONE = Cpu.TRANSITION_MODE_NONE ∧
    Drv.TRANSITION_MODE_IMMEDIATE = Cpu.TRANSITION_MODE_IMMEDIATE := by decide

/-- the CPU's and the FPGA's copies of the register map agree on every address the model uses -/
theorem register_maps_agree :
    Cpu.ADDR_CTL_FLAG = Fpga.ADDR_CTL_FLAG ∧ Cpu.ADDR_FPGA_STATE = Fpga.ADDR_FPGA_STATE ∧
    Cpu.ADDR_MOD_MEM_WR_SEGMENT = Fpga.ADDR_MOD_MEM_WR_SEGMENT ∧ Cpu.ADDR_MOD_MEM_WR_PAGE = Fpga.ADDR_MOD_MEM_WR_PAGE ∧
    Cpu.ADDR_MOD_REQ_RD_SEGMENT = Fpga.ADDR_MOD_REQ_RD_SEGMENT ∧ Cpu.ADDR_MOD_CYCLE0 = Fpga.ADDR_MOD_CYCLE0 ∧
    Cpu.ADDR_MOD_CYCLE1 = Fpga.ADDR_MOD_CYCLE1 ∧ Cpu.ADDR_MOD_FREQ_DIV0 = Fpga.ADDR_MOD_FREQ_DIV0 ∧
    Cpu.ADDR_MOD_FREQ_DIV1 = Fpga.ADDR_MOD_FREQ_DIV1 ∧ Cpu.ADDR_MOD_REP0 = Fpga.ADDR_MOD_REP0 ∧
    Cpu.ADDR_MOD_REP1 = Fpga.ADDR_MOD_REP1 ∧ Cpu.ADDR_MOD_TRANSITION_MODE = Fpga.ADDR_MOD_TRANSITION_MODE ∧
    Cpu.ADDR_MOD_TRANSITION_VALUE_0 = Fpga.ADDR_MOD_TRANSITION_VALUE_0 ∧
    Cpu.ADDR_STM_MEM_WR_SEGMENT = Fpga.ADDR_STM_MEM_WR_SEGMENT ∧ Cpu.ADDR_STM_MEM_WR_PAGE = Fpga.ADDR_STM_MEM_WR_PAGE ∧
    Cpu.ADDR_STM_REQ_RD_SEGMENT = Fpga.ADDR_STM_REQ_RD_SEGMENT ∧ Cpu.ADDR_STM_CYCLE0 = Fpga.ADDR_STM_CYCLE0 ∧
    Cpu.ADDR_STM_CYCLE1 = Fpga.ADDR_STM_CYCLE1 ∧ Cpu.ADDR_STM_FREQ_DIV0 = Fpga.ADDR_STM_FREQ_DIV0 ∧
    Cpu.ADDR_STM_FREQ_DIV1 = Fpga.ADDR_STM_FREQ_DIV1 ∧ Cpu.ADDR_STM_REP0 = Fpga.ADDR_STM_REP0 ∧
    Cpu.ADDR_STM_REP1 = Fpga.ADDR_STM_REP1 ∧ Cpu.ADDR_STM_MODE0 = Fpga.ADDR_STM_MODE0 ∧ Cpu.ADDR_STM_MODE1 = Fpga.ADDR_STM_MODE1 ∧
    Cpu.ADDR_STM_SOUND_SPEED0 = Fpga.ADDR_STM_SOUND_SPEED0 ∧ Cpu.ADDR_STM_SOUND_SPEED1 = Fpga.ADDR_STM_SOUND_SPEED1 ∧
    Cpu.ADDR_STM_NUM_FOCI0 = Fpga.ADDR_STM_NUM_FOCI0 ∧ Cpu.ADDR_STM_NUM_FOCI1 = Fpga.ADDR_STM_NUM_FOCI1 ∧
    Cpu.ADDR_STM_TRANSITION_MODE = Fpga.ADDR_STM_TRANSITION_MODE ∧ Cpu.ADDR_STM_TRANSITION_VALUE_0 = Fpga.ADDR_STM_TRANSITION_VALUE_0 ∧
    Cpu.ADDR_SILENCER_FLAG = Fpga.ADDR_SILENCER_FLAG ∧
    Cpu.ADDR_SILENCER_UPDATE_RATE_INTENSITY = Fpga.ADDR_SILENCER_UPDATE_RATE_INTENSITY ∧
    Cpu.ADDR_SILENCER_UPDATE_RATE_PHASE = Fpga.ADDR_SILENCER_UPDATE_RATE_PHASE ∧
    Cpu.ADDR_SILENCER_COMPLETION_STEPS_INTENSITY = Fpga.ADDR_SILENCER_COMPLETION_STEPS_INTENSITY ∧
    Cpu.ADDR_SILENCER_COMPLETION_STEPS_PHASE = Fpga.ADDR_SILENCER_COMPLETION_STEPS_PHASE ∧
    Cpu.ADDR_DEBUG_VALUE0_0 = Fpga.ADDR_DEBUG_VALUE0_0 ∧ Cpu.ADDR_DEBUG_VALUE3_3 = Fpga.ADDR_DEBUG_VALUE3_3 ∧
    Cpu.BRAM_SELECT_CONTROLLER = Fpga.BRAM_SELECT_CONTROLLER ∧ Cpu.BRAM_SELECT_MOD = Fpga.BRAM_SELECT_MOD ∧
    Cpu.BRAM_SELECT_PWE_TABLE = Fpga.BRAM_SELECT_PWE_TABLE ∧ Cpu.BRAM_SELECT_STM = Fpga.BRAM_SELECT_STM ∧
    Cpu.BRAM_CNT_SEL_PHASE_CORR = Fpga.BRAM_CNT_SEL_PHASE_CORR ∧
    Cpu.CTL_FLAG_MOD_SET_BIT = Fpga.CTL_FLAG_MOD_SET_BIT ∧ Cpu.CTL_FLAG_STM_SET_BIT = Fpga.CTL_FLAG_STM_SET_BIT ∧
    Cpu.CTL_FLAG_BIT_GPIO_IN_0 = Fpga.CTL_FLAG_BIT_GPIO_IN_0 ∧ Cpu.CTL_FLAG_FORCE_FAN_BIT = Fpga.CTL_FLAG_FORCE_FAN_BIT ∧
    Cpu.STM_MODE_GAIN = Fpga.STM_MODE_GAIN := by decide

/-- page geometry: a page register value the handlers can produce addresses memory inside the BRAM -/
theorem page_geometry :
    Cpu.MOD_BUF_PAGE_SIZE = 32768 ∧ 2 * (Cpu.MOD_BUF_PAGE_SIZE / 2) = 32768 ∧
    Cpu.FOCI_STM_BUF_PAGE_SIZE * 4 = 16384 ∧ 16 * 16384 = 262144 ∧
    Cpu.GAIN_STM_BUF_PAGE_SIZE * 256 = 16384 ∧
    Drv.MOD_BUF_SIZE_MAX = 2 * Cpu.MOD_BUF_PAGE_SIZE ∧
    Drv.FOCI_STM_BUF_SIZE_MAX = 16 * Cpu.FOCI_STM_BUF_PAGE_SIZE ∧
    Drv.GAIN_STM_BUF_SIZE_MAX = 16 * Cpu.GAIN_STM_BUF_PAGE_SIZE ∧
    Drv.EC_OUTPUT_FRAME_SIZE - DrvLayout.Header_size = 622 := by decide

/-! ## round trips -/

open Autd3.Fw Autd3.Wire Autd3.Rt

/-- the executable loop `Rt.sendLoop` is what `Rt.Sends` abbreviates (no hidden assumptions) -/
theorem sends_def (dg : Dg) (s : State) (t t' : Tx) (s' : State) :
    Sends dg s t t' s' ↔ ∃ fuel, sendLoop fuel (Op.ofDg dg) s t = some (t', s') := Iff.rfl

/-- `WF` is not vacuous: a concrete power-on-like state, the default transmit buffer -/
theorem wf_nonvacuous : WF exState ∧ TxOK exTx ∧ Fresh exState exTx := ⟨WF_exState, TxOK_exTx, Fresh_ex⟩

/-- `WF` holds for a freshly created device (`CPUEmulator::new` = allocate + `clear`): `init()` does not
panic and leaves a well-formed state, for every clock reading and every transducer count ≤ 249 -/
theorem wf_of_new (numTr now : Nat) (hn : numTr ≤ 249) : ∃ s, Fw.new numTr now = .ok s ∧ WF s :=
  new_WF numTr now hn

/-- `handle_payload` dispatches a modulation tag to `write_mod` (representative; one per tag in Lemmas) -/
theorem dispatch_modulation (s : State) (d : Array Nat) (h : u8at d 0 = Cpu.TAG_MODULATION) :
    handlePayload s d = writeMod s d := dispatch_mod s d h

/-- the payload of a frame is the tx buffer's payload, the header carries id and slot-2 offset -/
theorem frame_indexing (t : Tx) :
    (Tx.frame t).extract DrvLayout.Header_size (Tx.frame t).size = t.payload ∧
    u8at (Tx.frame t) DrvLayout.Header_msg_id_off = t.msgId % 256 ∧
    u16at (Tx.frame t) DrvLayout.Header_slot_2_offset_off = t.slot2 % 65536 :=
  ⟨frame_extract t, frame_id t, frame_slot2 t⟩

/-- byte/word packing: a field written by the driver's `put*` is read back by the firmware's `u*at` -/
theorem put_get (b : Array Nat) (i v : Nat) :
    (i < b.size → u8at (put8 b i v) i = v % 256) ∧
    (i + 1 < b.size → u16at (put16 b i v) i = v % 65536) ∧
    (i + 7 < b.size → u64at (put64 b i v) i = v % 18446744073709551616) :=
  ⟨fun h => by rw [u8at_put8, if_pos ⟨rfl, h⟩], u16at_put16_same b i v, u64at_put64_same b i v⟩

/-- `bram_cpy` = pointwise write: closed forms of the four bulk writers -/
theorem bulk_writes_closed_form (m : Array Nat) (off : Nat) (ws : Array Nat) (j : Nat) :
    (wrWords m off ws).size = m.size ∧
    rd (wrWords m off ws) j =
      if off ≤ j ∧ j < off + ws.size ∧ j < m.size then rd ws (j - off) % 65536 else rd m j :=
  ⟨size_wrWords m off ws, rd_wrWords m off ws j⟩

theorem modWriteWords_closed_form (s : State) (base : Nat) (words : Array Nat)
    (hseg : reg s Cpu.ADDR_MOD_MEM_WR_SEGMENT ≤ 1) (hb : base % 16384 + words.size ≤ 16384)
    (hp : reg s Cpu.ADDR_MOD_MEM_WR_PAGE * 16384 + base % 16384 + words.size ≤ 32768) :
    modWriteWords s base words =
      .ok (setModMem s (reg s Cpu.ADDR_MOD_MEM_WR_SEGMENT)
        (wrWords (Obs.modMem s (reg s Cpu.ADDR_MOD_MEM_WR_SEGMENT))
          (reg s Cpu.ADDR_MOD_MEM_WR_PAGE * 16384 + base % 16384) words)) :=
  modWriteWords_eq s base words hseg hb hp

theorem stmWriteWords_closed_form (s : State) (base : Nat) (words : Array Nat)
    (hseg : reg s Cpu.ADDR_STM_MEM_WR_SEGMENT ≤ 1) (hb : base % 16384 + words.size ≤ 16384)
    (hp : reg s Cpu.ADDR_STM_MEM_WR_PAGE * 16384 + base % 16384 + words.size ≤ 262144) :
    stmWriteWords s base words =
      .ok (setStmMem s (reg s Cpu.ADDR_STM_MEM_WR_SEGMENT)
        (wrWords (Obs.stmMem s (reg s Cpu.ADDR_STM_MEM_WR_SEGMENT))
          (reg s Cpu.ADDR_STM_MEM_WR_PAGE * 16384 + base % 16384) words)) :=
  stmWriteWords_eq s base words hseg hb hp

/-- `ecat_recv` on a fresh single-slot frame whose handler acknowledges: CTL_FLAG rewritten, ack = id -/
theorem ecatRecv_fresh_frame (s : State) (t : Tx) (hid : t.msgId < 128) (hslot : t.slot2 = 0)
    (hfresh : s.lastMsgId ≠ t.msgId) (s1 : State)
    (hh : handlePayload (pre s t.msgId) t.payload = .ok (s1, Cpu.NO_ERR)) :
    ecatRecv s t.frame = .ok (fin s1 t.msgId) := ecatRecv_single s t hid hslot hfresh s1 hh

/-! ### one-frame datagrams -/

theorem forceFan_roundtrip (s : State) (t : Tx) (v : Bool) (hWF : WF s) (ht : TxOK t) (hf : Fresh s t) :
    ∃ t' s', Sends (.forceFan v) s t t' s' ∧ WF s' ∧ TxOK t' ∧ Fresh s' t' ∧ Obs.isForceFan s' = v :=
  forceFan_roundtrip' s t v hWF ht hf

theorem readsFpgaState_roundtrip (s : State) (t : Tx) (hWF : WF s) (ht : TxOK t) (hf : Fresh s t) (v : Bool) :
    ∃ t' s', Sends (.readsFpgaState v) s t t' s' ∧ WF s' ∧ TxOK t' ∧ Fresh s' t' ∧ s'.readsFpgaState = v :=
  readsFpgaState_roundtrip' s t hWF ht hf v

theorem cpuGpioOut_roundtrip (s : State) (t : Tx) (hWF : WF s) (ht : TxOK t) (hf : Fresh s t) (v : Nat) (hv : v < 256) :
    ∃ t' s', Sends (.cpuGpioOut v) s t t' s' ∧ WF s' ∧ TxOK t' ∧ Fresh s' t' ∧ s'.portA = v :=
  cpuGpioOut_roundtrip' s t hWF ht hf v hv

/-- GPIO-in emulation: the four request bits appear as the FPGA's GPIO inputs -/
theorem gpioIn_roundtrip (s : State) (t : Tx) (hWF : WF s) (ht : TxOK t) (hf : Fresh s t) (flags : Nat)
    (hfl : flags < 256) :
    ∃ t' s', Sends (.gpioIn flags) s t t' s' ∧ WF s' ∧ TxOK t' ∧ Fresh s' t' ∧
      Fw.gpioIn s' 0 = hasFlag flags Cpu.GPIO_IN_FLAG_0 ∧ Fw.gpioIn s' 1 = hasFlag flags Cpu.GPIO_IN_FLAG_1 ∧
      Fw.gpioIn s' 2 = hasFlag flags Cpu.GPIO_IN_FLAG_2 ∧ Fw.gpioIn s' 3 = hasFlag flags Cpu.GPIO_IN_FLAG_3 :=
  gpioIn_roundtrip' s t hWF ht hf flags hfl

/-- Silencer, fixed completion steps (accepted case: the firmware's guard is the explicit hypothesis) -/
theorem silencerSteps_roundtrip (s : State) (t : Tx) (hWF : WF s) (ht : TxOK t) (hf : Fresh s t)
    (i p : Nat) (strict : Bool) (hi : 0 < i ∧ i < 65536) (hp : 0 < p ∧ p < 65536)
    (hg : validateSilencerSettings { s with strict := strict, minDivI := i, minDivP := p }
      (sel s.stmDiv s.stmSegment) (sel s.modDiv s.modSegment) = false) :
    ∃ t' s', Sends (.silencerSteps i p strict) s t t' s' ∧ WF s' ∧ TxOK t' ∧ Fresh s' t' ∧
      Obs.silencerCompletionSteps s' = .ok (i, p) ∧ Obs.silencerFixedUpdateRateMode s' = false ∧
      s'.strict = strict :=
  silencerSteps_roundtrip' s t hWF ht hf i p strict hi hp hg

/-- Silencer, fixed update rate (always accepted) -/
theorem silencerRate_roundtrip (s : State) (t : Tx) (hWF : WF s) (ht : TxOK t) (hf : Fresh s t)
    (i p : Nat) (hi : i < 65536) (hp : p < 65536) :
    ∃ t' s', Sends (.silencerRate i p) s t t' s' ∧ WF s' ∧ TxOK t' ∧ Fresh s' t' ∧
      Obs.silencerUpdateRate s' = (i, p) ∧ Obs.silencerFixedUpdateRateMode s' = true ∧ s'.strict = s.strict :=
  silencerRate_roundtrip' s t hWF ht hf i p hi hp

/-- pulse-width table: all 256 entries -/
theorem pwe_roundtrip (s : State) (t : Tx) (hWF : WF s) (ht : TxOK t) (hf : Fresh s t) (table : Array Nat)
    (hsz : table.size = 256) (hv : ∀ i, rd table i < 512) :
    ∃ t' s', Sends (.pwe table) s t t' s' ∧ WF s' ∧ TxOK t' ∧ Fresh s' t' ∧ Obs.pweTable s' = .ok table :=
  pwe_roundtrip' s t hWF ht hf table hsz hv

/-- phase correction: one byte per transducer -/
theorem phaseCorr_roundtrip (s : State) (t : Tx) (hWF : WF s) (ht : TxOK t) (hf : Fresh s t) (bytes : Array Nat)
    (hsz : bytes.size = s.numTr) (hv : ∀ i, rd bytes i < 256) :
    ∃ t' s', Sends (.phaseCorr bytes) s t t' s' ∧ WF s' ∧ TxOK t' ∧ Fresh s' t' ∧ Obs.phaseCorrection s' = bytes :=
  phaseCorr_roundtrip' s t hWF ht hf bytes hsz hv

/-- GPIO outputs: the four 64-bit debug values (type byte and 56-bit value) -/
theorem debug_roundtrip (s : State) (t : Tx) (hWF : WF s) (ht : TxOK t) (hf : Fresh s t) (vals : Array Nat)
    (hv : ∀ i, rd vals i < 18446744073709551616) :
    ∃ t' s', Sends (.debug vals) s t t' s' ∧ WF s' ∧ TxOK t' ∧ Fresh s' t' ∧
      Obs.debugValues s' = #[rd vals 0 % 72057594037927936, rd vals 1 % 72057594037927936,
        rd vals 2 % 72057594037927936, rd vals 3 % 72057594037927936] ∧
      Obs.debugTypes s' = #[rd vals 0 / 72057594037927936, rd vals 1 / 72057594037927936,
        rd vals 2 / 72057594037927936, rd vals 3 / 72057594037927936] :=
  debug_roundtrip' s t hWF ht hf vals hv

/-! ### segment swaps -/

/-- SwapSegment::Modulation: request register, transition, swap-chain `set`, nothing else of the
modulation resources moves -/
theorem swapMod_roundtrip (s : State) (t : Tx) (hWF : WF s) (ht : TxOK t) (hf : Fresh s t)
    (seg mode value : Nat) (hseg : seg ≤ 1) (hv : ValidTr mode value) (hval : value < 18446744073709551616)
    (g1 : validateTransitionMode s.modSegment seg (sel s.modRep seg) mode = false)
    (g2 : validateSilencerSettings s (sel s.stmDiv s.stmSegment) (sel s.modDiv seg) = false)
    (hmiss : ¬(mode = Cpu.TRANSITION_MODE_SYS_TIME ∧ value < s.dcSysTime + Cpu.SYS_TIME_TRANSITION_MARGIN)) :
    ∃ t' s', Sends (.swapMod seg mode value) s t t' s' ∧ WF s' ∧ TxOK t' ∧ Fresh s' t' ∧
      Obs.reqModSeg s' = .ok seg ∧ Obs.modTransition s' = .ok (tmodeOf mode value) ∧ s'.modSegment = seg ∧
      SwapSet s.modSwap s'.modSwap s.dcSysTime (Obs.modRep s seg) (Obs.modDiv s seg) (Obs.modCycle s seg) seg
        (tmodeOf mode value) ∧
      s'.modMem0 = s.modMem0 ∧ s'.modMem1 = s.modMem1 ∧
      (∀ g, g ≤ 1 → Obs.modDiv s' g = Obs.modDiv s g ∧ Obs.modCycle s' g = Obs.modCycle s g ∧
        Obs.modRep s' g = Obs.modRep s g) :=
  swapMod_roundtrip' s t hWF ht hf seg mode value hseg hv hval g1 g2 hmiss

theorem swapFoci_roundtrip (s : State) (t : Tx) (hWF : WF s) (ht : TxOK t) (hf : Fresh s t)
    (seg mode value : Nat) (hseg : seg ≤ 1) (hv : ValidTr mode value) (hval : value < 18446744073709551616)
    (g0 : sel s.stmMode seg = Cpu.STM_MODE_FOCUS)
    (g1 : validateTransitionMode s.stmSegment seg (sel s.stmRep seg) mode = false)
    (g2 : validateSilencerSettings s (sel s.stmDiv seg) (sel s.modDiv s.modSegment) = false)
    (hmiss : ¬(mode = Cpu.TRANSITION_MODE_SYS_TIME ∧ value < s.dcSysTime + Cpu.SYS_TIME_TRANSITION_MARGIN)) :
    ∃ t' s', Sends (.swapFoci seg mode value) s t t' s' ∧ WF s' ∧ TxOK t' ∧ Fresh s' t' ∧
      Obs.reqStmSeg s' = .ok seg ∧ Obs.stmTransition s' = .ok (tmodeOf mode value) ∧ s'.stmSegment = seg ∧
      SwapSet s.stmSwap s'.stmSwap s.dcSysTime (Obs.stmRep s seg) (Obs.stmDiv s seg) (Obs.stmCycle s seg) seg
        (tmodeOf mode value) ∧
      s'.stmMem0 = s.stmMem0 ∧ s'.stmMem1 = s.stmMem1 ∧
      (∀ g, g ≤ 1 → Obs.stmDiv s' g = Obs.stmDiv s g ∧ Obs.stmCycle s' g = Obs.stmCycle s g ∧
        Obs.stmRep s' g = Obs.stmRep s g ∧ Obs.isStmGainMode s' g = Obs.isStmGainMode s g) :=
  swapFoci_roundtrip' s t hWF ht hf seg mode value hseg hv hval g0 g1 g2 hmiss

theorem swapGainStm_roundtrip (s : State) (t : Tx) (hWF : WF s) (ht : TxOK t) (hf : Fresh s t)
    (seg mode value : Nat) (hseg : seg ≤ 1) (hv : ValidTr mode value) (hval : value < 18446744073709551616)
    (g0 : sel s.stmMode seg = Cpu.STM_MODE_GAIN ∧ sel s.stmCycle seg ≠ 1)
    (g1 : validateTransitionMode s.stmSegment seg (sel s.stmRep seg) mode = false)
    (g2 : validateSilencerSettings s (sel s.stmDiv seg) (sel s.modDiv s.modSegment) = false)
    (hmiss : ¬(mode = Cpu.TRANSITION_MODE_SYS_TIME ∧ value < s.dcSysTime + Cpu.SYS_TIME_TRANSITION_MARGIN)) :
    ∃ t' s', Sends (.swapGainStm seg mode value) s t t' s' ∧ WF s' ∧ TxOK t' ∧ Fresh s' t' ∧
      Obs.reqStmSeg s' = .ok seg ∧ Obs.stmTransition s' = .ok (tmodeOf mode value) ∧ s'.stmSegment = seg ∧
      SwapSet s.stmSwap s'.stmSwap s.dcSysTime (Obs.stmRep s seg) (Obs.stmDiv s seg) (Obs.stmCycle s seg) seg
        (tmodeOf mode value) ∧
      s'.stmMem0 = s.stmMem0 ∧ s'.stmMem1 = s.stmMem1 ∧
      (∀ g, g ≤ 1 → Obs.stmDiv s' g = Obs.stmDiv s g ∧ Obs.stmCycle s' g = Obs.stmCycle s g ∧
        Obs.stmRep s' g = Obs.stmRep s g ∧ Obs.isStmGainMode s' g = Obs.isStmGainMode s g) :=
  swapGainStm_roundtrip' s t hWF ht hf seg mode value hseg hv hval g0 g1 g2 hmiss

theorem swapGain_roundtrip (s : State) (t : Tx) (hWF : WF s) (ht : TxOK t) (hf : Fresh s t)
    (seg value : Nat) (hseg : seg ≤ 1)
    (g0 : sel s.stmMode seg = Cpu.STM_MODE_GAIN ∧ sel s.stmCycle seg = 1)
    (g2 : validateSilencerSettings s (sel s.stmDiv seg) (sel s.modDiv s.modSegment) = false) :
    ∃ t' s', Sends (.swapGain seg Drv.TRANSITION_MODE_IMMEDIATE value) s t t' s' ∧ WF s' ∧ TxOK t' ∧ Fresh s' t' ∧
      Obs.reqStmSeg s' = .ok seg ∧ Obs.stmTransition s' = .ok .syncIdx ∧ s'.stmSegment = seg ∧
      SwapSet s.stmSwap s'.stmSwap s.dcSysTime (Obs.stmRep s seg) (Obs.stmDiv s seg) (Obs.stmCycle s seg) seg .syncIdx ∧
      s'.stmMem0 = s.stmMem0 ∧ s'.stmMem1 = s.stmMem1 ∧
      (∀ g, g ≤ 1 → Obs.stmDiv s' g = Obs.stmDiv s g ∧ Obs.stmCycle s' g = Obs.stmCycle s g ∧
        Obs.stmRep s' g = Obs.stmRep s g ∧ Obs.isStmGainMode s' g = Obs.isStmGainMode s g) :=
  swapGain_roundtrip' s t hWF ht hf seg value hseg g0 g2

/-! ### Gain -/

/-- Gain: `drives_at(seg, 0)` = the user's drives (phase + stored phase correction, intensity kept),
cycle 1, gain mode, division/loop 0xFFFF, the other segment's memory and registers untouched; the CPU
records the segment as a gain segment (`GainCpu`: `stm_mode[seg] = GAIN`, other segment's copy
unchanged); the request register is written (segment current at once: loop count 0xFFFF) iff the
datagram carries a transition, otherwise the request/transition registers and the swap chain are
untouched -/
theorem gain_roundtrip (s : State) (t : Tx) (hWF : WF s) (ht : TxOK t) (hf : Fresh s t)
    (seg : Nat) (hseg : seg ≤ 1) (tr : Tr)
    (htr : tr = none ∨ ∃ v, tr = some (Drv.TRANSITION_MODE_IMMEDIATE, v))
    (drives : Array Nat) (hdr : ∀ i, rd drives i < 65536) :
    ∃ t' s', Sends (.gain seg tr drives) s t t' s' ∧ WF s' ∧ TxOK t' ∧ Fresh s' t' ∧
      GainHeld s s' seg drives ∧ GainCpu s s' seg ∧
      (tr = none → s'.stmSwap = s.stmSwap ∧ Obs.reqStmSeg s' = Obs.reqStmSeg s ∧
        Obs.stmTransition s' = Obs.stmTransition s ∧ s'.stmSegment = s.stmSegment) ∧
      (tr.isSome = true → Obs.reqStmSeg s' = .ok seg ∧ Obs.stmTransition s' = .ok .syncIdx ∧
        Obs.currentStmSeg s' = seg ∧ s'.stmSegment = seg ∧
        SwapSet s.stmSwap s'.stmSwap s.dcSysTime 0xFFFF 0xFFFF 1 seg .syncIdx) := by
  rcases htr with h | ⟨v, h⟩
  · subst h
    obtain ⟨t', s', h1, h2, h3, h4, h5, a1, a2, a3, a4, hc⟩ := gain_roundtrip_noupd s t hWF ht hf seg hseg drives hdr
    exact ⟨t', s', h1, h2, h3, h4, h5, GainCpu_of hseg hc, fun _ => ⟨a1, a2, a3, a4⟩, fun h => by simp at h⟩
  · subst h
    obtain ⟨t', s', h1, h2, h3, h4, h5, a1, a2, a3, a4, a5, hc⟩ := gain_roundtrip_upd s t hWF ht hf seg v hseg drives hdr
    exact ⟨t', s', h1, h2, h3, h4, h5, GainCpu_of hseg hc, fun h => by simp at h, fun _ => ⟨a1, a2, a3, a4, a5⟩⟩

/-- the two spelled-out facts about the CPU copy after a Gain -/
theorem gain_sets_cpu_mode {s s' : State} {seg : Nat} (h : GainCpu s s' seg) :
    sel s'.stmMode seg = Cpu.STM_MODE_GAIN ∧ sel s'.stmMode (1 - seg) = sel s.stmMode (1 - seg) := ⟨h.mode, h.modeOther⟩

/-- **Gain then SwapSegment::Gain is accepted after ANY history** (repair of the stale-`stm_mode`
defect): from every well-formed state, a Gain to segment `seg` (with or without transition) followed
by SwapSegment::Gain(`seg`, Immediate) is accepted — both sends acknowledged without error, request
register = `seg` — provided the silencer guard accepts the gain's division 0xFFFF: in strict mode the
completion steps are ≤ 0xFFFF and the intensity steps ≤ the current modulation division -/
theorem gain_then_swapGain_accepted (s : State) (t : Tx) (hWF : WF s) (ht : TxOK t) (hf : Fresh s t)
    (seg value : Nat) (hseg : seg ≤ 1) (tr : Tr)
    (htr : tr = none ∨ ∃ v, tr = some (Drv.TRANSITION_MODE_IMMEDIATE, v))
    (drives : Array Nat) (hdr : ∀ i, rd drives i < 65536)
    (hg : s.strict = true → s.minDivI ≤ 0xFFFF ∧ s.minDivP ≤ 0xFFFF ∧ s.minDivI ≤ sel s.modDiv s.modSegment) :
    ∃ t1 s1 t2 s2, Sends (.gain seg tr drives) s t t1 s1 ∧
      Sends (.swapGain seg Drv.TRANSITION_MODE_IMMEDIATE value) s1 t1 t2 s2 ∧ WF s2 ∧ TxOK t2 ∧ Fresh s2 t2 ∧
      Obs.reqStmSeg s2 = .ok seg ∧ s2.stmSegment = seg ∧
      (∀ g, Obs.stmMem s2 g = Obs.stmMem s1 g) ∧ GainHeld s s1 seg drives := by
  obtain ⟨t1, s1, hS1, hW1, hT1, hF1, hH, hC, _, _⟩ := gain_roundtrip s t hWF ht hf seg hseg tr htr drives hdr
  have g2 : validateSilencerSettings s1 (sel s1.stmDiv seg) (sel s1.modDiv s1.modSegment) = false := by
    unfold validateSilencerSettings
    rw [hC.div, hC.modDiv, hC.modSegment, hC.strict, hC.minDivI, hC.minDivP]
    by_cases hs : s.strict = true
    · obtain ⟨a, b, c⟩ := hg hs
      simp only [hs, true_and, decide_eq_false_iff_not]; omega
    · simp [hs]
  obtain ⟨t2, s2, hS2, hW2, hT2, hF2, hreq, _, hseg2, _, hm0, hm1, _⟩ :=
    swapGain_roundtrip s1 t1 hW1 hT1 hF1 seg value hseg ⟨hC.mode, hC.cycle⟩ g2
  refine ⟨t1, s1, t2, s2, hS1, hS2, hW2, hT2, hF2, hreq, hseg2, ?_, hH⟩
  intro g; unfold Obs.stmMem; rw [hm0, hm1]

/-- the driver refuses any other transition mode for a Gain (nothing is packed) -/
theorem gain_other_transition_rejected (seg m v : Nat) (drives : Array Nat) (n : Nat) (b : Array Nat)
    (hm : m ≠ Drv.TRANSITION_MODE_IMMEDIATE) :
    (Op.ofDg (.gain seg (some (m, v)) drives)).pack n b 0 = .error .invalidTransitionMode := by
  unfold Op.pack; simp [Op.ofDg, hm]

/-! ### Modulation -/

/-- chunk arithmetic, driver side: the first frame carries `min n 254` samples with the full header -/
theorem mod_pack_first (seg : Nat) (tr : Tr) (rep div : Nat) (samples : Array Nat) (nt : Nat) (b : Array Nat)
    (hb : b.size = 622) (hn : 2 ≤ samples.size) (hn' : samples.size ≤ 65536) :
    (Op.ofDg (.modulation seg tr rep div samples)).pack nt b 0 =
      .ok ({ dg := .modulation seg tr rep div samples, sent := min samples.size 254,
             done := decide (samples.size ≤ 254) },
        modFirstPayload b samples (min samples.size 254)
          (modFlagByte true (decide (samples.size ≤ 254)) seg tr.isSome) (trMode tr) div rep (trValue tr),
        16 + ((min samples.size 254 + 1) / 2) * 2) :=
  pack_mod_first seg tr rep div samples nt b hb hn hn'

/-- chunk arithmetic, driver side: every later frame carries `min (n - sent) 618` samples -/
theorem mod_pack_next (seg : Nat) (tr : Tr) (rep div : Nat) (samples : Array Nat) (nt : Nat) (b : Array Nat) (c : Nat)
    (hb : b.size = 622) (hc0 : 0 < c) (hcn : c < samples.size) (hn : samples.size ≤ 65536) (hn2 : 2 ≤ samples.size) :
    ({ dg := .modulation seg tr rep div samples, sent := c, done := false } : Op).pack nt b 0 =
      .ok ({ dg := .modulation seg tr rep div samples, sent := c + min (samples.size - c) 618,
             done := decide (samples.size - c ≤ 618) },
        modNextPayload b samples c (min (samples.size - c) 618)
          (modFlagByte false (decide (samples.size - c ≤ 618)) seg tr.isSome),
        4 + ((min (samples.size - c) 618 + 1) / 2) * 2) :=
  pack_mod_next seg tr rep div samples nt b c hb hc0 hcn hn hn2

/-- every non-final chunk is even, hence the cursor `254 + 618·k` is even at every chunk start -/
theorem mod_cursor_even (n k : Nat) : (254 + 618 * k) % 2 = 0 ∧ (n > 254 → min n 254 % 2 = 0) ∧
    (∀ c, n - c > 618 → min (n - c) 618 % 2 = 0) := by
  refine ⟨by omega, fun h => by omega, fun c h => by omega⟩

/-- page-crossing lemma, firmware side: with an even cursor `c` pointing into the page selected by the
write-page register, the copy part of `write_mod` puts the `w` frame bytes at `c … c+w-1` of the
target segment — also when the chunk crosses or exactly reaches the 32768-sample page boundary
(split copy, page register advanced) — and touches nothing below the cursor, nothing in the other
segment, no register but the write page -/
theorem mod_copy_with_page_split (s : State) (hW : WF s) (d : Array Nat) (off w seg c : Nat)
    (hc : s.modCycle = c) (hc2 : c % 2 = 0) (hcw : c + w ≤ 65536) (hc3 : c < 65536)
    (hsr : reg s Cpu.ADDR_MOD_MEM_WR_SEGMENT = seg) (hseg : seg ≤ 1)
    (hpage : reg s Cpu.ADDR_MOD_MEM_WR_PAGE = c / 32768) :
    ∃ s', modDataPart s d off w = .ok s' ∧ ModCopied s s' seg c w d off :=
  modDataPart_ok s hW d off w seg c hc hc2 hcw hc3 hsr hseg hpage

/-- `write_mod` is header ∘ copy ∘ end (following frames) -/
theorem writeMod_following_frame (s : State) (d : Array Nat)
    (hb : hasFlag (u8at d FwLayout.ModulationHead_flag_off) Cpu.MODULATION_FLAG_BEGIN = false) :
    writeMod s d = (do
      let s2 ← modDataPart s d FwLayout.ModulationSubseq_size (u16at d FwLayout.ModulationSubseq_size_off)
      modEndPart s2 (u8at d FwLayout.ModulationHead_flag_off)
        (if u8at d FwLayout.ModulationHead_flag_off &&& Cpu.MODULATION_FLAG_SEGMENT ≠ 0 then 1 else 0)) :=
  writeMod_subseq s d hb

/-- **Modulation round trip for every legal size 2 ≤ n ≤ 65536** (`ModOK`: segment 0/1, sizes, byte
samples, 16-bit loop count, non-zero 16-bit division, decodable transition with 64-bit value not
missing the SysTime margin), by induction over the frames: `modulation_buffer(seg)` = the samples,
division, loop count and cycle read back, the other segment's memory and registers are untouched,
and the request register / transition / swap chain are written iff a transition is given
(`ModHeld`).  `g1`, `g2` are the firmware's acceptance guards at the BEGIN frame. -/
theorem mod_roundtrip (s : State) (t : Tx) (hWF : WF s) (ht : TxOK t) (hf : Fresh s t)
    (seg : Nat) (tr : Tr) (rep div : Nat) (samples : Array Nat) (H : ModOK s seg tr rep div samples)
    (g1 : validateTransitionMode s.modSegment seg rep (trMode tr) = false)
    (g2 : validateSilencerSettings s (sel s.stmDiv s.stmSegment) div = false) :
    ∃ t' s', Sends (.modulation seg tr rep div samples) s t t' s' ∧ WF s' ∧ TxOK t' ∧ Fresh s' t' ∧
      ModHeld s s' seg tr rep div samples :=
  mod_roundtrip' s t hWF ht hf seg tr rep div samples H g1 g2

/-- what `ModHeld` says, spelled out with the read-back accessors -/
theorem modHeld_spelled_out {s0 s' : State} {seg : Nat} {tr : Tr} {rep div : Nat} {samples : Array Nat}
    (h : ModHeld s0 s' seg tr rep div samples) :
    Obs.modBuffer s' seg = .ok samples ∧ Obs.modDiv s' seg = div ∧ Obs.modRep s' seg = rep ∧
    Obs.modCycle s' seg = samples.size ∧ Obs.modMem s' (1 - seg) = Obs.modMem s0 (1 - seg) ∧
    Obs.modDiv s' (1 - seg) = Obs.modDiv s0 (1 - seg) ∧ Obs.modRep s' (1 - seg) = Obs.modRep s0 (1 - seg) ∧
    Obs.modCycle s' (1 - seg) = Obs.modCycle s0 (1 - seg) ∧
    (tr = none → s'.modSwap = s0.modSwap ∧ Obs.reqModSeg s' = Obs.reqModSeg s0 ∧
      Obs.modTransition s' = Obs.modTransition s0) ∧
    (∀ m v, tr = some (m, v) → Obs.reqModSeg s' = .ok seg ∧ Obs.modTransition s' = .ok (tmodeOf m v) ∧
      SwapSet s0.modSwap s'.modSwap s0.dcSysTime rep div samples.size seg (tmodeOf m v)) := by
  refine ⟨h.buffer, h.hdiv, h.hrep, h.hcycle, h.otherMem, h.otherRegs.1, h.otherRegs.2.1, h.otherRegs.2.2, ?_, ?_⟩
  · intro htr; subst htr; exact h.req
  · intro m v htr; subst htr; exact h.req


/-! ### FociSTM -/

/-- page-crossing lemma for FociSTM (4096-point pages, 16 pages): the copy part of `write_foci_stm` puts
the `sn·n` 64-bit records of the frame at cursor `c …` of the target segment, also across a page
boundary, and touches nothing else -/
theorem foci_copy_with_page_split (s : State) (hW : WF s) (d : Array Nat) (off sn seg c n : Nat)
    (hc : s.stmWrite = c) (hn : s.numFoci = n) (hw : sn * n < 65536) (hcw : c + sn * n ≤ 65536) (hc3 : c < 65536)
    (hsr : reg s Cpu.ADDR_STM_MEM_WR_SEGMENT = seg) (hseg : seg ≤ 1) (hpage : reg s Cpu.ADDR_STM_MEM_WR_PAGE = c / 4096)
    (hwp : sn * n ≤ 4096) :
    ∃ s', fociDataPart s d off sn = .ok s' ∧ FociCopied s s' seg c (sn * n) d off :=
  fociDataPart_ok s hW d off sn seg c n hc hn hw hcw hc3 hsr hseg hpage hwp

/-- chunk arithmetic, driver side: `598/(8N)` patterns in the first frame, `618/(8N)` in every later one -/
theorem foci_pack_first (n seg : Nat) (tr : Tr) (rep div ss : Nat) (records : Array Nat) (P nt : Nat) (b : Array Nat)
    (hb : b.size = 622) (hn : 1 ≤ n ∧ n ≤ 8) (hP : records.size = P * n) (ht : 2 ≤ P * n ∧ P * n ≤ 65536) :
    (Op.ofDg (.fociStm n seg tr rep div ss records)).pack nt b 0 =
      .ok ({ dg := .fociStm n seg tr rep div ss records, sent := min P (598 / (8 * n)),
             done := decide (P = min P (598 / (8 * n))) },
        fociFirstPayload b records n (min P (598 / (8 * n)))
          (fociFlagByte true (decide (P = min P (598 / (8 * n)))) tr.isSome) seg (trMode tr) div rep (trValue tr) ss,
        24 + 8 * min P (598 / (8 * n)) * n) :=
  pack_foci_first n seg tr rep div ss records P nt b hb hn hP ht

/-- **FociSTM round trip**, N = 1..8 foci per pattern, `P` patterns, 2 ≤ P·N ≤ 65536 (`FociOK`), by
induction over the frames: the stored 64-bit records equal the datagram's records (`stmRecord` is the
word combination `foci_stm_drives` decodes), `num_foci`, sound speed, cycle = P, division, loop count,
focus mode, the other segment's memory and registers untouched, and the request register / transition /
swap chain written iff a transition is given (`FociHeld`).  `g1`, `g2` are the firmware's guards at BEGIN. -/
theorem fociStm_roundtrip (s : State) (t : Tx) (hWF : WF s) (ht : TxOK t) (hf : Fresh s t)
    (n seg : Nat) (tr : Tr) (rep div ss : Nat) (records : Array Nat) (P : Nat)
    (H : FociOK s n seg tr rep div ss records P)
    (g1 : validateTransitionMode s.stmSegment seg rep (trMode tr) = false)
    (g2 : validateSilencerSettings s div (sel s.modDiv s.modSegment) = false) :
    ∃ t' s', Sends (.fociStm n seg tr rep div ss records) s t t' s' ∧ WF s' ∧ TxOK t' ∧ Fresh s' t' ∧
      FociHeld s s' seg tr rep div ss n records P :=
  fociStm_roundtrip' s t hWF ht hf n seg tr rep div ss records P H g1 g2

/-- what `FociHeld` says, spelled out -/
theorem fociHeld_spelled_out {s0 s' : State} {seg : Nat} {tr : Tr} {rep div ss n : Nat} {records : Array Nat} {P : Nat}
    (h : FociHeld s0 s' seg tr rep div ss n records P) :
    (∀ k, k < P * n → stmRecord (Obs.stmMem s' seg) k = rd records k) ∧ Obs.stmCycle s' seg = P ∧
    Obs.numFoci s' seg = n ∧ Obs.soundSpeed s' seg = ss ∧ Obs.stmDiv s' seg = div ∧ Obs.stmRep s' seg = rep ∧
    Obs.isStmGainMode s' seg = false ∧ Obs.stmMem s' (1 - seg) = Obs.stmMem s0 (1 - seg) ∧
    (tr = none → s'.stmSwap = s0.stmSwap ∧ Obs.reqStmSeg s' = Obs.reqStmSeg s0 ∧
      Obs.stmTransition s' = Obs.stmTransition s0) ∧
    (∀ m v, tr = some (m, v) → Obs.reqStmSeg s' = .ok seg ∧ Obs.stmTransition s' = .ok (tmodeOf m v) ∧
      SwapSet s0.stmSwap s'.stmSwap s0.dcSysTime rep div P seg (tmodeOf m v)) := by
  refine ⟨h.recs, h.hcycle, h.hnf, h.hss, h.hdiv, h.hrep, h.hmode, h.otherMem, ?_, ?_⟩
  · intro htr; subst htr; exact h.req
  · intro m v htr; subst htr; exact h.req

/-- the record read by `stmRecord` is the 64-bit value `foci_stm_drives` decodes -/
theorem stmRecord_def (m : Array Nat) (k : Nat) :
    stmRecord m k = rd m (4 * k) + 65536 * rd m (4 * k + 1) + 4294967296 * rd m (4 * k + 2) +
      281474976710656 * rd m (4 * k + 3) := rfl


/-! ### GainSTM -/

/-- the firmware's mode functions applied to the words the driver packed give the expected drive word of
the mode: full word; (0xFF, phase); (0xFF, (phase >> 4)·0x11) — byte/nibble packing of modes 1 and 2 -/
theorem gainStm_packing (mode hoff nt : Nat) (patterns : Array (Array Nat)) (c : Nat) (b : Array Nat) (send : Nat)
    (d : Array Nat) (hm : mode ≤ 2) (hb : b.size = 622) (hfit : hoff + 2 * nt ≤ 622) (hs : 1 ≤ send ∧ send ≤ perFrame mode)
    (hdx : ∀ x, hoff ≤ x → u8at d x = u8at (gstmData mode hoff nt patterns c b send) x)
    (hw : ∀ idx i, rd (patAt patterns idx) i < 65536) :
    ∀ j, j < (gstmFns mode send).length → ∀ i, i < nt →
      nthF (gstmFns mode send) j (u16at d (hoff + 2 * i)) % 65536 = expDrive mode (rd (patAt patterns (c + j)) i) :=
  gstm_hd mode hoff nt patterns c b send d hm hb hfit hs hdx hw

/-- what the FPGA holds for a drive word in each GainSTM mode -/
theorem expDrive_modes (w : Nat) :
    expDrive 0 w = w ∧ expDrive 1 w = 0xFF00 + w % 256 ∧ expDrive 2 w = 0xFF00 + (w % 256 / 16) * 0x11 := ⟨rfl, rfl, rfl⟩

/-- **GainSTM round trip**, the three modes, 2 ≤ size ≤ 1024 (`GOK`), by induction over the frames
(1, 2 or 4 patterns per frame): for every pattern `idx` and transducer `i` the STM BRAM word
`256·idx + i` of the segment is the expected drive word of the mode, cycle = size, gain mode (register and
CPU copy), division, loop count, the other segment's memory and registers untouched, the request
register / transition / swap chain written iff a transition is given (`GHeld`) -/
theorem gainStm_roundtrip (s : State) (t : Tx) (hWF : WF s) (ht : TxOK t) (hf : Fresh s t)
    (mode seg : Nat) (tr : Tr) (rep div : Nat) (patterns : Array (Array Nat)) (H : GOK s mode seg tr rep div patterns)
    (g1 : validateTransitionMode s.stmSegment seg rep (trMode tr) = false)
    (g2 : validateSilencerSettings s div (sel s.modDiv s.modSegment) = false) :
    ∃ t' s', Sends (.gainStm mode seg tr rep div patterns) s t t' s' ∧ WF s' ∧ TxOK t' ∧ Fresh s' t' ∧
      GHeld s s' seg tr rep div mode patterns :=
  gainStm_roundtrip' s t hWF ht hf mode seg tr rep div patterns H g1 g2

/-- what `GHeld` says, spelled out -/
theorem gHeld_spelled_out {s0 s' : State} {seg : Nat} {tr : Tr} {rep div mode : Nat} {patterns : Array (Array Nat)}
    (h : GHeld s0 s' seg tr rep div mode patterns) :
    (∀ idx, idx < patterns.size → ∀ i, i < s0.numTr →
      rd (Obs.stmMem s' seg) (256 * idx + i) = expDrive mode (rd (patAt patterns idx) i)) ∧
    Obs.stmCycle s' seg = patterns.size ∧ Obs.isStmGainMode s' seg = true ∧ Obs.stmDiv s' seg = div ∧
    Obs.stmRep s' seg = rep ∧ sel s'.stmMode seg = Cpu.STM_MODE_GAIN ∧ Obs.stmMem s' (1 - seg) = Obs.stmMem s0 (1 - seg) ∧
    (tr = none → s'.stmSwap = s0.stmSwap ∧ Obs.reqStmSeg s' = Obs.reqStmSeg s0 ∧
      Obs.stmTransition s' = Obs.stmTransition s0) ∧
    (∀ m v, tr = some (m, v) → Obs.reqStmSeg s' = .ok seg ∧ Obs.stmTransition s' = .ok (tmodeOf m v) ∧
      SwapSet s0.stmSwap s'.stmSwap s0.dcSysTime rep div patterns.size seg (tmodeOf m v)) := by
  refine ⟨h.rows, h.hcycle, h.hmode, h.hdiv, h.hrep, h.cpuMode, h.otherMem, ?_, ?_⟩
  · intro htr; subst htr; exact h.req
  · intro m v htr; subst htr; exact h.req


/-! ### nothing written elsewhere: the footprint of a whole send

The round-trip theorems above say what the addressed segment holds and that the other segment of the
*same* resource is untouched.  The theorems below bound everything else, and they hold for **every** run
of the send loop (`∀ t' s', Sends … → …`, no acceptance hypothesis, any payload content, any size): the
proofs walk through each handler for an arbitrary payload (`Rt.writeMod_foot`, `writeGain_foot`,
`writeFociStm_foot`, `writeGainStm_foot`) and through `ecat_recv` and the loop.  `Rt.StmSame s s'` /
`Rt.ModSame s s'` / `Rt.RestSame s s'`: both memories of the resource, its swap chain, all of its controller
registers (segment-indexed ones of both segments, request, transition), the CPU copies; phase correction,
pulse-width table, silencer/debug/state registers and the CPU configuration are equal in `s` and `s'`. -/

/-- the send loop is a function: a datagram sent from `(s, t)` has exactly one outcome, so the facts of the
`∃`-shaped round-trip theorems and of the `∀`-shaped footprint theorems are about the same final state -/
theorem sends_deterministic {dg : Dg} {s : State} {t t1 t2 : Tx} {s1 s2 : State}
    (h1 : Sends dg s t t1 s1) (h2 : Sends dg s t t2 s2) : t1 = t2 ∧ s1 = s2 := Sends_unique h1 h2

/-- **Modulation writes nothing outside the modulation resources**: both STM memories, the STM swap chain,
every STM register of both segments, phase correction, pulse-width table, silencer and debug registers are
exactly as before — for every size, every content, accepted or not up to the frame that ends the send -/
theorem mod_touches_only_modulation (s : State) (t t' : Tx) (s' : State) (hWF : WF s) (ht : TxOK t)
    (seg : Nat) (tr : Tr) (rep div : Nat) (samples : Array Nat)
    (h : Sends (.modulation seg tr rep div samples) s t t' s') : StmSame s s' ∧ RestSame s s' :=
  StmSame_of_foot (mod_send_foot seg tr rep div samples s t t' s' hWF.ctl hWF.flags ht h)

/-- **Gain writes nothing outside the STM resources**, and of those never the sound-speed / focus-count
registers of either segment -/
theorem gain_touches_only_stm (s : State) (t t' : Tx) (s' : State) (hWF : WF s) (ht : TxOK t)
    (seg : Nat) (tr : Tr) (drives : Array Nat) (h : Sends (.gain seg tr drives) s t t' s') :
    ModSame s s' ∧ RestSame s s' ∧
      ∀ g, g ≤ 1 → Obs.soundSpeed s' g = Obs.soundSpeed s g ∧ Obs.numFoci s' g = Obs.numFoci s g := by
  have hf := gain_send_foot seg tr drives s t t' s' hWF.ctl hWF.flags ht h
  obtain ⟨a, b⟩ := ModSame_of_foot hf TG_sub
  refine ⟨a, b, fun g hg => ⟨?_, ?_⟩⟩
  · unfold Obs.soundSpeed; rw [hf.regs _ (by simp only [TG, Cpu.ADDR_STM_SOUND_SPEED0]; omega)]
  · unfold Obs.numFoci; rw [hf.regs _ (by simp only [TG, Cpu.ADDR_STM_NUM_FOCI0]; omega)]

/-- **FociSTM writes nothing outside the STM resources**; the other segment's sound speed and focus count
stay (with `fociHeld_spelled_out`: its memory, cycle, division, loop count and mode too) -/
theorem fociStm_touches_only_stm (s : State) (t t' : Tx) (s' : State) (hWF : WF s) (ht : TxOK t)
    (n seg : Nat) (hseg : seg ≤ 1) (tr : Tr) (rep div ss : Nat) (records : Array Nat)
    (h : Sends (.fociStm n seg tr rep div ss records) s t t' s') :
    ModSame s s' ∧ RestSame s s' ∧
      Obs.soundSpeed s' (1 - seg) = Obs.soundSpeed s (1 - seg) ∧ Obs.numFoci s' (1 - seg) = Obs.numFoci s (1 - seg) := by
  have hf := foci_send_foot n seg hseg tr rep div ss records s t t' s' hWF.ctl hWF.flags ht h
  obtain ⟨a, b⟩ := ModSame_of_foot hf (TF_sub seg hseg)
  refine ⟨a, b, ?_, ?_⟩
  · unfold Obs.soundSpeed; rw [hf.regs _ (by simp only [TF, TG, Cpu.ADDR_STM_SOUND_SPEED0]; omega)]
  · unfold Obs.numFoci; rw [hf.regs _ (by simp only [TF, TG, Cpu.ADDR_STM_NUM_FOCI0]; omega)]

/-- **GainSTM (all three modes) writes nothing outside the STM resources**, and never the sound-speed /
focus-count registers of either segment -/
theorem gainStm_touches_only_stm (s : State) (t t' : Tx) (s' : State) (hWF : WF s) (ht : TxOK t)
    (mode seg : Nat) (tr : Tr) (rep div : Nat) (patterns : Array (Array Nat))
    (h : Sends (.gainStm mode seg tr rep div patterns) s t t' s') :
    ModSame s s' ∧ RestSame s s' ∧
      ∀ g, g ≤ 1 → Obs.soundSpeed s' g = Obs.soundSpeed s g ∧ Obs.numFoci s' g = Obs.numFoci s g := by
  have hf := gstm_send_foot mode seg tr rep div patterns s t t' s' hWF.ctl hWF.flags ht h
  obtain ⟨a, b⟩ := ModSame_of_foot hf TG_sub
  refine ⟨a, b, fun g hg => ⟨?_, ?_⟩⟩
  · unfold Obs.soundSpeed; rw [hf.regs _ (by simp only [TG, Cpu.ADDR_STM_SOUND_SPEED0]; omega)]
  · unfold Obs.numFoci; rw [hf.regs _ (by simp only [TG, Cpu.ADDR_STM_NUM_FOCI0]; omega)]

/-- what `StmSame` means for the read-back accessors: every STM observation of both segments is unchanged,
including the drives computed by `drives_at` for every index -/
theorem stmSame_spelled_out {s s' : State} (h : StmSame s s') :
    (∀ g, Obs.stmMem s' g = Obs.stmMem s g) ∧
    (∀ g, g ≤ 1 → Obs.stmCycle s' g = Obs.stmCycle s g ∧ Obs.stmDiv s' g = Obs.stmDiv s g ∧
      Obs.stmRep s' g = Obs.stmRep s g ∧ Obs.isStmGainMode s' g = Obs.isStmGainMode s g ∧
      Obs.soundSpeed s' g = Obs.soundSpeed s g ∧ Obs.numFoci s' g = Obs.numFoci s g ∧
      ∀ idx, Obs.drivesAt s' g idx = Obs.drivesAt s g idx) ∧
    Obs.reqStmSeg s' = Obs.reqStmSeg s ∧ Obs.stmTransition s' = Obs.stmTransition s ∧
    Obs.currentStmSeg s' = Obs.currentStmSeg s ∧ Obs.currentStmIdx s' = Obs.currentStmIdx s := obs_stm_same h

/-- what `ModSame` means for the read-back accessors -/
theorem modSame_spelled_out {s s' : State} (h : ModSame s s') :
    (∀ g, Obs.modMem s' g = Obs.modMem s g) ∧
    (∀ g, g ≤ 1 → Obs.modCycle s' g = Obs.modCycle s g ∧ Obs.modDiv s' g = Obs.modDiv s g ∧
      Obs.modRep s' g = Obs.modRep s g ∧ Obs.modBuffer s' g = Obs.modBuffer s g) ∧
    Obs.reqModSeg s' = Obs.reqModSeg s ∧ Obs.modTransition s' = Obs.modTransition s ∧
    Obs.currentModSeg s' = Obs.currentModSeg s ∧ Obs.currentModIdx s' = Obs.currentModIdx s := obs_mod_same h

/-- what `RestSame` means for the read-back accessors -/
theorem restSame_spelled_out {s s' : State} (h : RestSame s s') :
    Obs.phaseCorrection s' = Obs.phaseCorrection s ∧ Obs.pweTable s' = Obs.pweTable s ∧
    Obs.silencerUpdateRate s' = Obs.silencerUpdateRate s ∧ Obs.silencerCompletionSteps s' = Obs.silencerCompletionSteps s ∧
    Obs.silencerFixedUpdateRateMode s' = Obs.silencerFixedUpdateRateMode s ∧
    Obs.debugTypes s' = Obs.debugTypes s ∧ Obs.debugValues s' = Obs.debugValues s ∧
    Obs.fpgaStateReg s' = Obs.fpgaStateReg s := obs_rest_same h

/-- **nothing padded into view** (Modulation): the played buffer is the user's samples and nothing else — its
length is the user's length, although the driver pads odd chunks to 16-bit words and the firmware copies
whole words (the pad byte lands at index `n`, which the cycle register excludes) -/
theorem mod_nothing_beyond_length {s0 s' : State} {seg : Nat} {tr : Tr} {rep div : Nat} {samples : Array Nat}
    (h : ModHeld s0 s' seg tr rep div samples) :
    ∃ buf, Obs.modBuffer s' seg = .ok buf ∧ buf.size = samples.size ∧ Obs.modCycle s' seg = samples.size ∧
      ∀ i, i < samples.size → rd buf i = rd samples i :=
  ⟨samples, h.buffer, rfl, h.hcycle, fun _ _ => rfl⟩

/-! ### the second tuple slot

`Rt.sendLoop2` is the send loop of a *pair* of operations on one device: `OperationHandler::pack_op2`
(`Wire.packOp2`: operation 1 at offset 0, operation 2 at offset = size of operation 1 if it fits), `ecat_recv`
with the slot-2 offset in the header, until both are done.  Operation 1 is generic: any datagram that is
done after one frame of `k` bytes (`k` even, room left), whose handler reads only those `k` bytes and accepts,
leaving the well-formed state `s1`.

FociSTM and GainSTM in the second slot (`fociStm_roundtrip_slot2`, `gainStm_roundtrip_slot2`,
`fociStm_roundtrip_slot2_after_config`, `gainStm_roundtrip_slot2_after_config`) are instances of the general pair
loop of `Lemmas/Tuple2Engine.lean` (`Tuple2.pair_roundtrip`): operation 1 is a Modulation of ANY legal size (both
members multi-frame, the second one's chunks at whatever offset and capacity the first one's chunk leaves) or any
single-frame configuration datagram; the hypotheses are the integer-level side conditions and the firmware guards
on the start state only. -/

/-- the executable pair loop is what `Rt.Sends2` abbreviates -/
theorem sends2_def (dg1 dg2 : Dg) (s : State) (t t' : Tx) (s' : State) :
    Sends2 dg1 dg2 s t t' s' ↔ ∃ fuel, sendLoop2 fuel (Op.ofDg dg1) (Op.ofDg dg2) s t = some (t', s') := Iff.rfl

/-- once operation 1 is done, the pair loop *is* the single-operation loop of the round-trip theorems -/
theorem pair_loop_after_first_done (fuel : Nat) (o1 o2 : Op) (s : State) (t : Tx) (h : o1.done = true) :
    sendLoop2 fuel o1 o2 s t = sendLoop fuel o2 s t := sendLoop2_done1 fuel o1 o2 s t h

/-- driver side, slot 2: a modulation packed at offset `k` carries `min n (min (606 - k) 254)` samples in its
first frame — the cut points differ from slot 1 (`min n 254`) as soon as `k > 352` -/
theorem mod_pack_first_slot2 (seg : Nat) (tr : Tr) (rep div : Nat) (samples : Array Nat) (nt : Nat) (b : Array Nat) (k : Nat)
    (hb : b.size = 622) (hk : k + 18 ≤ 622) (hn : 2 ≤ samples.size) (hn' : samples.size ≤ 65536) :
    (Op.ofDg (.modulation seg tr rep div samples)).pack nt b k =
      .ok ({ dg := .modulation seg tr rep div samples, sent := min samples.size (min (606 - k) 254),
             done := decide (samples.size ≤ min (606 - k) 254) },
        modFirstPayloadAt b samples k (min samples.size (min (606 - k) 254))
          (modFlagByte true (decide (samples.size ≤ min (606 - k) 254)) seg tr.isSome) (trMode tr) div rep (trValue tr),
        16 + ((min samples.size (min (606 - k) 254) + 1) / 2) * 2) :=
  pack_mod_first_at seg tr rep div samples nt b k hb hk hn hn'

/-- `ecat_recv` on a fresh two-slot frame: both handlers run, the second on `payload[slot2..]` -/
theorem ecatRecv_two_slot_frame (s : State) (t : Tx) (hid : t.msgId < 128) (hk0 : 0 < t.slot2)
    (hk : t.slot2 ≤ t.payload.size) (hk16 : t.slot2 < 65536) (hfresh : s.lastMsgId ≠ t.msgId) (s1 s2 : State)
    (hh1 : handlePayload (pre s t.msgId) t.payload = .ok (s1, Cpu.NO_ERR))
    (hh2 : handlePayload { s1 with ack := Cpu.NO_ERR } (t.payload.extract t.slot2 t.payload.size) = .ok (s2, Cpu.NO_ERR)) :
    ecatRecv s t.frame = .ok (fin s2 t.msgId) := ecatRecv_two s t hid hk0 hk hk16 hfresh s1 s2 hh1 hh2

/-- **Modulation round trip in the second slot, every legal size**: with any one-frame operation of `k`
bytes in slot 1 (`k` even, `k ≤ 604`), the modulation's first chunk travels at offset `k` with the reduced
capacity, the remaining chunks in slot 1 of the following frames; all frames are acknowledged and the device
holds exactly what `mod_roundtrip` gives for the modulation sent alone from `s1` (`ModHeld s1 s'`): the
content that reaches the device does not depend on the slot offset -/
theorem mod_roundtrip_slot2 (s : State) (t : Tx) (ht : TxOK t) (hf : Fresh s t)
    (dg1 : Dg) (o1' : Op) (b1 : Array Nat) (k : Nat) (s1 : State)
    (hnd1 : (Op.ofDg dg1).done = false)
    (hp1 : (Op.ofDg dg1).pack s.numTr t.payload 0 = .ok (o1', b1, k)) (hd1 : o1'.done = true)
    (hk : 0 < k ∧ k % 2 = 0 ∧ k + 18 ≤ 622)
    (hh1 : ∀ b', Keeps k b1 b' → handlePayload (pre s (nextId t)) b' = .ok (s1, Cpu.NO_ERR))
    (hW1 : WF s1) (hl1 : s1.lastMsgId = nextId t)
    (seg : Nat) (tr : Tr) (rep div : Nat) (samples : Array Nat) (H : ModOK s1 seg tr rep div samples)
    (g1 : validateTransitionMode s1.modSegment seg rep (trMode tr) = false)
    (g2 : validateSilencerSettings s1 (sel s1.stmDiv s1.stmSegment) div = false) :
    ∃ t' s', Sends2 dg1 (.modulation seg tr rep div samples) s t t' s' ∧ WF s' ∧ TxOK t' ∧ Fresh s' t' ∧
      ModHeld s1 s' seg tr rep div samples :=
  mod_roundtrip_slot2' s t ht hf dg1 o1' b1 k s1 hnd1 hp1 hd1 hk hh1 hW1 hl1 seg tr rep div samples H g1 g2

/-- **Gain round trip in the second slot**, every device size that leaves room (`k + 4 + 2·numTr ≤ 622`):
the same `GainHeld` / `GainCpu` / request facts as `gain_roundtrip`, relative to the state `s1` the slot-1
operation leaves -/
theorem gain_roundtrip_slot2 (s : State) (t : Tx) (ht : TxOK t) (hf : Fresh s t)
    (dg1 : Dg) (o1' : Op) (b1 : Array Nat) (k : Nat) (s1 : State)
    (hnd1 : (Op.ofDg dg1).done = false)
    (hp1 : (Op.ofDg dg1).pack s.numTr t.payload 0 = .ok (o1', b1, k)) (hd1 : o1'.done = true)
    (hk : 0 < k ∧ k % 2 = 0 ∧ k + 4 + 2 * s.numTr ≤ 622)
    (hh1 : ∀ b', Keeps k b1 b' → handlePayload (pre s (nextId t)) b' = .ok (s1, Cpu.NO_ERR))
    (hW1 : WF s1) (hl1 : s1.lastMsgId = nextId t) (hnt : s1.numTr = s.numTr)
    (seg : Nat) (hseg : seg ≤ 1) (tr : Tr) (htr : tr = none ∨ ∃ v, tr = some (Drv.TRANSITION_MODE_IMMEDIATE, v))
    (drives : Array Nat) (hdr : ∀ i, rd drives i < 65536) :
    ∃ t' s', Sends2 dg1 (.gain seg tr drives) s t t' s' ∧ WF s' ∧ TxOK t' ∧ Fresh s' t' ∧
      GainHeld s1 s' seg drives ∧ GainCpu s1 s' seg ∧
      (tr = none → s'.stmSwap = s1.stmSwap ∧ Obs.reqStmSeg s' = Obs.reqStmSeg s1 ∧
        Obs.stmTransition s' = Obs.stmTransition s1 ∧ s'.stmSegment = s1.stmSegment) ∧
      (tr.isSome = true → Obs.reqStmSeg s' = .ok seg ∧ Obs.stmTransition s' = .ok .syncIdx ∧
        Obs.currentStmSeg s' = seg ∧ s'.stmSegment = seg ∧
        SwapSet s1.stmSwap s'.stmSwap s1.dcSysTime 0xFFFF 0xFFFF 1 seg .syncIdx) :=
  gain_roundtrip_slot2' s t ht hf dg1 o1' b1 k s1 hnd1 hp1 hd1 hk hh1 hW1 hl1 hnt seg hseg tr htr drives hdr

/-- **FociSTM round trip in the second slot behind a Modulation, every legal size of both**: the tuple
`(Modulation, FociSTM)` sent through `pack_op2` / `ecat_recv` from a well-formed state.  Both members are
multi-frame: the FociSTM's chunks travel in slot 2 (at the offset and with the capacity the Modulation's chunk of
the same frame leaves) until the Modulation is done, then in slot 1.  Hypotheses are the integer-level side
conditions (`ModOK`, `FociOK`) and the four firmware guards on the start state `s`; the FociSTM's strict-silencer
guard `gB2` is evaluated against the modulation division/segment the Modulation's BEGIN frame has latched — the
value it has when the two are sent one after the other.  All frames are acknowledged and the device holds both:
`ModHeld` relative to `pre s id` (as in `mod_roundtrip`) and `FociHeld` relative to the state `b2` the FociSTM's
BEGIN handler saw, whose whole STM side is that of `s` (`Tuple2.KeepS s b2`) -/
theorem fociStm_roundtrip_slot2 (s : State) (t : Tx) (hWF : WF s) (ht : TxOK t) (hf : Fresh s t)
    (segA : Nat) (trA : Tr) (repA divA : Nat) (samples : Array Nat) (HA : ModOK s segA trA repA divA samples)
    (gA1 : validateTransitionMode s.modSegment segA repA (trMode trA) = false)
    (gA2 : validateSilencerSettings s (sel s.stmDiv s.stmSegment) divA = false)
    (n seg : Nat) (tr : Tr) (rep div ss : Nat) (records : Array Nat) (P : Nat)
    (HB : FociOK s n seg tr rep div ss records P)
    (gB1 : validateTransitionMode s.stmSegment seg rep (trMode tr) = false)
    (gB2 : validateSilencerSettings s div
      (sel (setSel s.modDiv segA divA) (if trMode trA = Cpu.TRANSITION_MODE_NONE then s.modSegment else segA)) = false) :
    ∃ t' s' b2, Sends2 (.modulation segA trA repA divA samples) (.fociStm n seg tr rep div ss records) s t t' s' ∧
      WF s' ∧ TxOK t' ∧ Fresh s' t' ∧ ModHeld (pre s (nextId t)) s' segA trA repA divA samples ∧
      FociHeld b2 s' seg tr rep div ss n records P ∧ Tuple2.KeepS s b2 :=
  Tuple2.fociStm_roundtrip_slot2_mod s t hWF ht hf segA trA repA divA samples HA gA1 gA2 n seg tr rep div ss records P HB gB1 gB2

/-- **GainSTM round trip in the second slot behind a Modulation, every legal size, every mode**: as
`fociStm_roundtrip_slot2` with `GOK` / `GHeld` -/
theorem gainStm_roundtrip_slot2 (s : State) (t : Tx) (hWF : WF s) (ht : TxOK t) (hf : Fresh s t)
    (segA : Nat) (trA : Tr) (repA divA : Nat) (samples : Array Nat) (HA : ModOK s segA trA repA divA samples)
    (gA1 : validateTransitionMode s.modSegment segA repA (trMode trA) = false)
    (gA2 : validateSilencerSettings s (sel s.stmDiv s.stmSegment) divA = false)
    (mode seg : Nat) (tr : Tr) (rep div : Nat) (patterns : Array (Array Nat))
    (HB : GOK s mode seg tr rep div patterns)
    (gB1 : validateTransitionMode s.stmSegment seg rep (trMode tr) = false)
    (gB2 : validateSilencerSettings s div
      (sel (setSel s.modDiv segA divA) (if trMode trA = Cpu.TRANSITION_MODE_NONE then s.modSegment else segA)) = false) :
    ∃ t' s' b2, Sends2 (.modulation segA trA repA divA samples) (.gainStm mode seg tr rep div patterns) s t t' s' ∧
      WF s' ∧ TxOK t' ∧ Fresh s' t' ∧ ModHeld (pre s (nextId t)) s' segA trA repA divA samples ∧
      GHeld b2 s' seg tr rep div mode patterns ∧ Tuple2.KeepS s b2 :=
  Tuple2.gainStm_roundtrip_slot2_mod s t hWF ht hf segA trA repA divA samples HA gA1 gA2 mode seg tr rep div patterns HB gB1 gB2

/-- **FociSTM round trip in the second slot behind any single-frame configuration datagram** `X` (`Tuple.IsCfg`:
Synchronize, ForceFan, ReadsFPGAState, CpuGPIOOut, GPIOIn, Debug, PulseWidthEncoder, Silencer with completion
steps or with update rates), every legal size: `X` is accepted on `pre s id` (`Tuple2.CfgAccepts`: the Silencer's
own guard, `True` for the others); the first FociSTM chunk travels at offset `cfgLen X` with the capacity left,
the remaining chunks in slot 1.  The FociSTM's strict-silencer guard `gB2` reads the settings of
`Tuple2.cfgF X (pre s id)`, the closed form of the configuration handler's result — a Silencer in slot 1 is
validated against exactly as in the sequence.  The device holds the FociSTM relative to `b2` (STM side of `s`),
and everything outside the two data sides is what the configuration handler left (`Tuple2.KeepR`) -/
theorem fociStm_roundtrip_slot2_after_config (X : Dg) (hX : Tuple.IsCfg X = true) (s : State) (t : Tx) (hWF : WF s)
    (ht : TxOK t) (hf : Fresh s t) (hacc : Tuple2.CfgAccepts X (pre s (nextId t)))
    (n seg : Nat) (tr : Tr) (rep div ss : Nat) (records : Array Nat) (P : Nat)
    (HB : FociOK s n seg tr rep div ss records P)
    (gB1 : validateTransitionMode s.stmSegment seg rep (trMode tr) = false)
    (gB2 : validateSilencerSettings (Tuple2.cfgF X (pre s (nextId t))) div (sel s.modDiv s.modSegment) = false) :
    ∃ t' s' b2, Sends2 X (.fociStm n seg tr rep div ss records) s t t' s' ∧ WF s' ∧ TxOK t' ∧ Fresh s' t' ∧
      FociHeld b2 s' seg tr rep div ss n records P ∧ Tuple2.KeepS s b2 ∧
      Tuple2.KeepR (Tuple2.cfgF X (pre s (nextId t))) s' :=
  Tuple2.fociStm_roundtrip_slot2_cfg X hX s t hWF ht hf hacc n seg tr rep div ss records P HB gB1 gB2

/-- **GainSTM round trip in the second slot behind any single-frame configuration datagram**: as
`fociStm_roundtrip_slot2_after_config` with `GOK` / `GHeld` -/
theorem gainStm_roundtrip_slot2_after_config (X : Dg) (hX : Tuple.IsCfg X = true) (s : State) (t : Tx) (hWF : WF s)
    (ht : TxOK t) (hf : Fresh s t) (hacc : Tuple2.CfgAccepts X (pre s (nextId t)))
    (mode seg : Nat) (tr : Tr) (rep div : Nat) (patterns : Array (Array Nat))
    (HB : GOK s mode seg tr rep div patterns)
    (gB1 : validateTransitionMode s.stmSegment seg rep (trMode tr) = false)
    (gB2 : validateSilencerSettings (Tuple2.cfgF X (pre s (nextId t))) div (sel s.modDiv s.modSegment) = false) :
    ∃ t' s' b2, Sends2 X (.gainStm mode seg tr rep div patterns) s t t' s' ∧ WF s' ∧ TxOK t' ∧ Fresh s' t' ∧
      GHeld b2 s' seg tr rep div mode patterns ∧ Tuple2.KeepS s b2 ∧
      Tuple2.KeepR (Tuple2.cfgF X (pre s (nextId t))) s' :=
  Tuple2.gainStm_roundtrip_slot2_cfg X hX s t hWF ht hf hacc mode seg tr rep div patterns HB gB1 gB2

/-! ### transition request fields

`modHeld_spelled_out`, `fociHeld_spelled_out`, `gHeld_spelled_out` and `gain_roundtrip` already state, for every
transition the firmware can decode (`ValidTr`: SyncIdx, SysTime t, GPIO g, Ext, Immediate): request segment
register = target segment, transition mode/value registers = the user's, loop-count and division registers of
the segment = the user's, swap chain `set` with exactly these; and for `none`: request/transition registers
and swap chain untouched.  The guard `g1` of those theorems is satisfiable exactly as follows. -/

/-- **which (segment, loop count, transition) combinations the firmware accepts** (`validate_transition_mode`
returns "invalid" = `true`): no transition — always; to the *current* segment or with an infinite loop count —
every mode but SyncIdx/SysTime/GPIO (i.e. Immediate, Ext); to the other segment with a finite loop count —
every mode but Immediate/Ext (i.e. SyncIdx, SysTime, GPIO) -/
theorem transition_acceptance_table (cur seg rep m : Nat) :
    validateTransitionMode cur seg rep m = false ↔
      (m = Cpu.TRANSITION_MODE_NONE ∨
       ((cur = seg ∨ rep = 0xFFFF) ∧ m ≠ Cpu.TRANSITION_MODE_SYNC_IDX ∧ m ≠ Cpu.TRANSITION_MODE_SYS_TIME ∧
          m ≠ Cpu.TRANSITION_MODE_GPIO) ∨
       (cur ≠ seg ∧ rep ≠ 0xFFFF ∧ m ≠ Cpu.TRANSITION_MODE_IMMEDIATE ∧ m ≠ Cpu.TRANSITION_MODE_EXT)) :=
  transition_acceptance cur seg rep m

/-- ForceFan (2 bytes) is such a slot-1 operation, from every well-formed state -/
theorem forceFan_is_slot1_operation (s : State) (t : Tx) (v : Bool) (hWF : WF s) (ht : TxOK t) :
    (Op.ofDg (.forceFan v)).done = false ∧
    (Op.ofDg (.forceFan v)).pack s.numTr t.payload 0 =
      .ok ({ dg := .forceFan v, sent := 0, done := true }, tagValue t.payload 0 Drv.TAG_ForceFan (if v then 1 else 0), 2) ∧
    (∀ b', Keeps 2 (tagValue t.payload 0 Drv.TAG_ForceFan (if v then 1 else 0)) b' →
      handlePayload (pre s (nextId t)) b' = .ok (fanState s (nextId t) v, Cpu.NO_ERR)) ∧
    WF (fanState s (nextId t) v) ∧ (fanState s (nextId t) v).lastMsgId = nextId t := slot1_forceFan s t v hWF ht

/-! ### GainSTM modes: what "exactly the content" means -/

/-- the drive word the FPGA holds for a user drive word `w = phase | intensity << 8` (`w < 65536`):
PhaseIntensityFull keeps it; PhaseFull keeps the phase and forces intensity 0xFF; PhaseHalf forces intensity
0xFF and keeps the top four bits of the phase, replicated into the low four (so a phase whose two nibbles
are equal is kept exactly, and the error is otherwise at most 15/256 of a turn) -/
theorem expDrive_meaning (w : Nat) :
    expDrive 0 w = w ∧
    (expDrive 1 w % 256 = w % 256 ∧ expDrive 1 w / 256 = 0xFF) ∧
    (expDrive 2 w / 256 = 0xFF ∧ expDrive 2 w % 256 / 16 = w % 256 / 16 ∧ expDrive 2 w % 256 % 16 = w % 256 / 16 ∧
      (w % 256 % 17 = 0 → expDrive 2 w % 256 = w % 256) ∧
      (expDrive 2 w % 256 : Int) - (w % 256 : Nat) ≤ 15 ∧ ((w % 256 : Nat) : Int) - (expDrive 2 w % 256 : Nat) ≤ 15) := by
  obtain ⟨e0, e1, e2⟩ := expDrive_modes w
  rw [e0, e1, e2]
  generalize hp : w % 256 = p
  have hp2 : p < 256 := by omega
  generalize hq : p / 16 = q
  have hq2 : q ≤ 15 ∧ 16 * q ≤ p ∧ p < 16 * q + 16 := by omega
  have k1 : (0xFF00 + q * 0x11) / 256 = 255 := by omega
  have k2 : (0xFF00 + q * 0x11) % 256 = 17 * q := by omega
  have k3 : (0xFF00 + p) / 256 = 255 := by omega
  have k4 : (0xFF00 + p) % 256 = p := by omega
  rw [k1, k2, k3, k4]
  refine ⟨rfl, ⟨rfl, rfl⟩, rfl, by omega, by omega, by omega, by omega, by omega⟩

/-- **GainSTM at the read-back level, all three modes, all sizes**: after the round trip `drives_at(seg, idx)`
returns, for every pattern and transducer, the mode's drive word with the stored phase correction added —
for PhaseIntensityFull that is the user's drive itself -/
theorem gainStm_drives_readback {s0 s' : State} {seg : Nat} {tr : Tr} {rep div mode : Nat} {patterns : Array (Array Nat)}
    (h : GHeld s0 s' seg tr rep div mode patterns) (hW : WF s') (hnt : s'.numTr = s0.numTr) (hP : patterns.size ≤ 1024)
    (hdr : ∀ idx i, rd (patAt patterns idx) i < 65536) (idx : Nat) (hidx : idx < patterns.size) :
    Obs.drivesAt s' seg idx = .ok ((Array.range s0.numTr).map fun i =>
      driveWithCorr (expDrive mode (rd (patAt patterns idx) i)) (Obs.phaseCorrAt s' i)) :=
  gstm_drivesAt h hW hnt hP hdr idx hidx

/-! ### 1..n devices -/

/-- **device independence**: the controller's lockstep rounds (one frame per device per round, devices
whose operation is done are skipped) give, for every device, exactly the result of running that device
alone — device `i`'s final state is a function of its own operation, state and tx buffer only -/
theorem device_independent (n : Nat) (devs : List Dev) : lockstep n devs = devs.mapM (devRun n) :=
  lockstep_pointwise n devs

/-- the per-device rounds are the send loop of the round-trip theorems: whenever `Sends dg s t t' s'` holds
(with `fuel` frames), `n ≥ fuel - 1` rounds leave device `(Op.ofDg dg, s, t)` in `(done, s', t')`; together
with `device_independent` every `*_roundtrip` theorem lifts to any number of devices -/
theorem device_rounds_are_sendLoop (fuel : Nat) (o : Op) (s : State) (t t' : Tx) (s' : State)
    (h : sendLoop fuel o s t = some (t', s')) (n : Nat) (hn : fuel ≤ n + 1) :
    ∃ o', devRun n (o, s, t) = some (o', s', t') ∧ o'.done = true :=
  devRun_of_sendLoop fuel o s t t' s' h n hn

/-- a device that is re-sent the frame it has already processed ignores it -/
theorem resent_frame_ignored (s : State) (t : Tx) (h : s.lastMsgId = t.msgId % 256) : ecatRecv s t.frame = .ok s :=
  ecatRecv_idle s t h

/-! ### non-vacuity: concrete inputs meeting the hypotheses -/

/-- the theorems apply to the power-on state of a 249-transducer device and a fresh tx buffer
(`lastMsgId = 0xFF`, first message id 1) -/
example : ∃ s, Fw.new 249 0 = .ok s ∧ WF s ∧ TxOK exTx := by
  obtain ⟨s, h1, h2⟩ := wf_of_new 249 0 (by decide)
  exact ⟨s, h1, h2, TxOK_exTx⟩

example : ∃ t' s', Sends (.forceFan true) exState exTx t' s' ∧ Obs.isForceFan s' = true := by
  obtain ⟨t', s', h, _, _, _, h5⟩ := forceFan_roundtrip exState exTx true WF_exState TxOK_exTx Fresh_ex
  exact ⟨t', s', h, h5⟩

/-- a 1000-sample modulation (3 frames: 254 + 618 + 128) to segment 1 with a SyncIdx transition and a
finite loop, on the power-on-like state -/
example : ∃ t' s', Sends (.modulation 1 (some (0, 0)) 3 5120 (Array.replicate 1000 7)) exState exTx t' s' ∧
    Obs.modBuffer s' 1 = .ok (Array.replicate 1000 7) ∧ Obs.reqModSeg s' = .ok 1 := by
  have H : ModOK exState 1 (some (0, 0)) 3 5120 (Array.replicate 1000 7) := by
    refine ⟨by decide, by simp, by simp, ?_, by decide, by decide, ?_⟩
    · intro i; unfold rd; by_cases h : i < 1000 <;> simp [h]
    · intro m v h
      simp only [Option.some.injEq, Prod.mk.injEq] at h
      obtain ⟨rfl, rfl⟩ := h
      exact ⟨Or.inl rfl, by decide, by decide⟩
  obtain ⟨t', s', h, _, _, _, h5⟩ := mod_roundtrip exState exTx WF_exState TxOK_exTx Fresh_ex 1 (some (0, 0)) 3 5120
    (Array.replicate 1000 7) H (by decide) (by decide)
  exact ⟨t', s', h, h5.buffer, h5.req.1⟩

example : ∃ t' s', Sends (.gain 1 none (Array.replicate 249 0x80FF)) exState exTx t' s' ∧ Obs.stmCycle s' 1 = 1 := by
  obtain ⟨t', s', h, _, _, _, h5, _⟩ := gain_roundtrip exState exTx WF_exState TxOK_exTx Fresh_ex 1 (by decide) none
    (Or.inl rfl) (Array.replicate 249 0x80FF) (by intro i; unfold rd; by_cases h : i < 249 <;> simp [h])
  exact ⟨t', s', h, h5.cycle⟩

/-- a 300-pattern FociSTM with 3 foci per pattern (900 records, 13 frames) to segment 1, GPIO transition -/
example : ∃ t' s', Sends (.fociStm 3 1 (some (2, 1)) 5 512 340 (Array.replicate 900 12345)) exState exTx t' s' ∧
    Obs.stmCycle s' 1 = 300 ∧ Obs.numFoci s' 1 = 3 := by
  have H : FociOK exState 3 1 (some (2, 1)) 5 512 340 (Array.replicate 900 12345) 300 := by
    refine ⟨by decide, by decide, by simp, by decide, ?_, by decide, by decide, by decide, ?_⟩
    · intro i; unfold rd; by_cases h : i < 900 <;> simp [h]
    · intro m v h
      simp only [Option.some.injEq, Prod.mk.injEq] at h
      obtain ⟨rfl, rfl⟩ := h
      exact ⟨Or.inr (Or.inr (Or.inl ⟨rfl, by decide⟩)), by decide, by decide⟩
  obtain ⟨t', s', h, _, _, _, h5⟩ := fociStm_roundtrip exState exTx WF_exState TxOK_exTx Fresh_ex 3 1 (some (2, 1)) 5
    512 340 (Array.replicate 900 12345) 300 H (by decide) (by decide)
  exact ⟨t', s', h, h5.hcycle, h5.hnf⟩

/-- a 7-pattern GainSTM in PhaseHalf mode (2 frames: 4 + 3 patterns) to segment 0, no transition -/
example : ∃ t' s', Sends (.gainStm 2 0 none 0xFFFF 4000 (Array.replicate 7 (Array.replicate 249 0x1234))) exState exTx t' s' ∧
    Obs.stmCycle s' 0 = 7 := by
  have H : GOK exState 2 0 none 0xFFFF 4000 (Array.replicate 7 (Array.replicate 249 0x1234)) := by
    refine ⟨by decide, by decide, by simp, ?_, by decide, by decide, ?_⟩
    · intro idx i
      unfold patAt rd
      by_cases h : idx < 7
      · simp [h]; by_cases h2 : i < 249 <;> simp [h2]
      · simp [h]; show (#[] : Array Nat)[i]?.getD 0 < 65536; simp
    · intro m v h; simp at h
  obtain ⟨t', s', h, _, _, _, h5⟩ := gainStm_roundtrip exState exTx WF_exState TxOK_exTx Fresh_ex 2 0 none 0xFFFF 4000
    (Array.replicate 7 (Array.replicate 249 0x1234)) H (by decide) (by decide)
  refine ⟨t', s', h, ?_⟩
  have := h5.hcycle
  simpa using this

/-! ### non-vacuity of the footprint, slot-2, mode and transition theorems -/

/-- dirty prior state: a Gain to segment 1 with transition from the power-on-like state, then a 1000-sample
modulation to segment 1; the modulation is accepted and the whole STM side — in particular the drives of the
gain just written — reads back unchanged -/
example : ∃ t1 s1 t2 s2, Sends (.gain 1 (some (Drv.TRANSITION_MODE_IMMEDIATE, 0)) (Array.replicate 249 0x80FF)) exState exTx t1 s1 ∧
    Sends (.modulation 1 (some (0, 0)) 3 5120 (Array.replicate 1000 7)) s1 t1 t2 s2 ∧
    Obs.modBuffer s2 1 = .ok (Array.replicate 1000 7) ∧ StmSame s1 s2 ∧ RestSame s1 s2 ∧
    (∀ idx, Obs.drivesAt s2 1 idx = Obs.drivesAt s1 1 idx) ∧ Obs.stmCycle s2 1 = 1 := by
  obtain ⟨t1, s1, hS1, hW1, hT1, hF1, hH, hC, _, hreq⟩ := gain_roundtrip exState exTx WF_exState TxOK_exTx Fresh_ex 1 (by decide)
    (some (Drv.TRANSITION_MODE_IMMEDIATE, 0)) (Or.inr ⟨0, rfl⟩) (Array.replicate 249 0x80FF)
    (by intro i; unfold rd; by_cases h : i < 249 <;> simp [h])
  obtain ⟨_, _, _, hseg1, _⟩ := hreq rfl
  have H : ModOK s1 1 (some (0, 0)) 3 5120 (Array.replicate 1000 7) := by
    refine ⟨by decide, by simp, by simp, ?_, by decide, by decide, ?_⟩
    · intro i; unfold rd; by_cases h : i < 1000 <;> simp [h]
    · intro m v h
      simp only [Option.some.injEq, Prod.mk.injEq] at h
      obtain ⟨rfl, rfl⟩ := h
      exact ⟨Or.inl rfl, by decide, fun hh => absurd hh.1 (by decide)⟩
  have g1 : validateTransitionMode s1.modSegment 1 3 (trMode (some (0, 0))) = false := by rw [hC.modSegment]; decide
  have g2 : validateSilencerSettings s1 (sel s1.stmDiv s1.stmSegment) 5120 = false := by
    unfold validateSilencerSettings; rw [hseg1, hC.div, hC.strict, hC.minDivI, hC.minDivP]; decide
  obtain ⟨t2, s2, hS2, _, _, _, hM⟩ := mod_roundtrip s1 t1 hW1 hT1 hF1 1 (some (0, 0)) 3 5120 (Array.replicate 1000 7) H g1 g2
  obtain ⟨hA, hB⟩ := mod_touches_only_modulation s1 t1 t2 s2 hW1 hT1 1 (some (0, 0)) 3 5120 (Array.replicate 1000 7) hS2
  obtain ⟨_, hO, _⟩ := stmSame_spelled_out hA
  obtain ⟨hc, _, _, _, _, _, hd⟩ := hO 1 (by decide)
  exact ⟨t1, s1, t2, s2, hS1, hS2, hM.buffer, hA, hB, hd, by rw [hc]; exact hH.cycle⟩

/-- dirty prior state on the STM side: a 7-pattern PhaseHalf GainSTM to segment 0, then a 300×3 FociSTM to
segment 1; the modulation side is untouched by both, segment 0 keeps its 7 patterns, its sound speed and
focus count registers, and `drives_at(0, 3)` of the GainSTM reads back the PhaseHalf drive words -/
example : ∃ t1 s1 t2 s2,
    Sends (.gainStm 2 0 none 0xFFFF 4000 (Array.replicate 7 (Array.replicate 249 0x1234))) exState exTx t1 s1 ∧
    Sends (.fociStm 3 1 none 5 512 340 (Array.replicate 900 12345)) s1 t1 t2 s2 ∧
    ModSame exState s1 ∧ ModSame s1 s2 ∧ RestSame s1 s2 ∧ Obs.stmCycle s2 0 = 7 ∧ Obs.stmCycle s2 1 = 300 ∧
    Obs.soundSpeed s2 0 = Obs.soundSpeed s1 0 ∧ Obs.numFoci s2 0 = Obs.numFoci s1 0 ∧
    Obs.drivesAt s1 0 3 = .ok ((Array.range 249).map fun i => driveWithCorr (expDrive 2 0x1234) (Obs.phaseCorrAt s1 i)) := by
  have hdr : ∀ idx i, rd (patAt (Array.replicate 7 (Array.replicate 249 0x1234)) idx) i < 65536 := by
    intro idx i
    unfold patAt rd
    by_cases h : idx < 7
    · simp [h]; by_cases h2 : i < 249 <;> simp [h2]
    · simp [h]; show (#[] : Array Nat)[i]?.getD 0 < 65536; simp
  have HG : GOK exState 2 0 none 0xFFFF 4000 (Array.replicate 7 (Array.replicate 249 0x1234)) :=
    ⟨by decide, by decide, by simp, hdr, by decide, by decide, by intro m v h; simp at h⟩
  obtain ⟨t1, s1, hS1, hW1, hT1, hF1, hG⟩ := gainStm_roundtrip exState exTx WF_exState TxOK_exTx Fresh_ex 2 0 none 0xFFFF 4000
    (Array.replicate 7 (Array.replicate 249 0x1234)) HG (by decide) (by decide)
  obtain ⟨hA1, hB1, _⟩ := gainStm_touches_only_stm exState exTx t1 s1 WF_exState TxOK_exTx 2 0 none 0xFFFF 4000 _ hS1
  have HF : FociOK s1 3 1 none 5 512 340 (Array.replicate 900 12345) 300 := by
    refine ⟨by decide, by decide, by simp, by decide, ?_, by decide, by decide, by decide, by intro m v h; simp at h⟩
    intro i; unfold rd; by_cases h : i < 900 <;> simp [h]
  have g2 : validateSilencerSettings s1 512 (sel s1.modDiv s1.modSegment) = false := by
    unfold validateSilencerSettings
    rw [hA1.cpu.1, hA1.cpu.2.2, hB1.cpu.1, hB1.cpu.2.1, hB1.cpu.2.2.1]; decide
  obtain ⟨t2, s2, hS2, _, _, _, hF⟩ := fociStm_roundtrip s1 t1 hW1 hT1 hF1 3 1 none 5 512 340 (Array.replicate 900 12345) 300 HF
    (by unfold validateTransitionMode trMode; rfl) g2
  obtain ⟨hA2, hB2, hss, hnf⟩ := fociStm_touches_only_stm s1 t1 t2 s2 hW1 hT1 3 1 (by decide) none 5 512 340 _ hS2
  have hrd := gainStm_drives_readback hG hW1 hB1.cpu.2.2.2.2.2.2.2.1 (by simp) hdr 3 (by simp)
  refine ⟨t1, s1, t2, s2, hS1, hS2, hA1, hA2, hB2, ?_, hF.hcycle, hss, hnf, ?_⟩
  · have := hF.otherRegs.2.2.1
    rw [show 1 - 1 = 0 from rfl] at this
    rw [this]; simpa using hG.hcycle
  · rw [hrd]
    have e : patAt (Array.replicate 7 (Array.replicate 249 0x1234)) 3 = Array.replicate 249 0x1234 := by
      unfold patAt; simp
    rw [e]
    refine congrArg Except.ok ?_
    refine range_map_congr 249 _ _ ?_
    intro i hi
    have e2 : rd (Array.replicate 249 0x1234) i = 0x1234 := by
      unfold rd; rw [Array.getElem?_eq_getElem (by simpa using hi)]; simp
    rw [e2]

/-- second slot: ForceFan (2 bytes) in slot 1 and a 1000-sample modulation (first chunk at offset 2, then
618 + 128 in slot 1) to segment 1 with a SyncIdx transition; then the same with a Gain of 249 transducers -/
example : ∃ t' s', Sends2 (.forceFan true) (.modulation 1 (some (0, 0)) 3 5120 (Array.replicate 1000 7)) exState exTx t' s' ∧
    Obs.modBuffer s' 1 = .ok (Array.replicate 1000 7) ∧ Obs.reqModSeg s' = .ok 1 ∧ Obs.modCycle s' 1 = 1000 := by
  obtain ⟨h1, h2, h3, h4, h5⟩ := forceFan_is_slot1_operation exState exTx true WF_exState TxOK_exTx
  have H : ModOK (fanState exState (nextId exTx) true) 1 (some (0, 0)) 3 5120 (Array.replicate 1000 7) := by
    refine ⟨by decide, by simp, by simp, ?_, by decide, by decide, ?_⟩
    · intro i; unfold rd; by_cases h : i < 1000 <;> simp [h]
    · intro m v h
      simp only [Option.some.injEq, Prod.mk.injEq] at h
      obtain ⟨rfl, rfl⟩ := h
      exact ⟨Or.inl rfl, by decide, by decide⟩
  obtain ⟨t', s', hS, _, _, _, hM⟩ := mod_roundtrip_slot2 exState exTx TxOK_exTx Fresh_ex (.forceFan true) _ _ 2 _ h1 h2 rfl
    (by decide) h3 h4 h5 1 (some (0, 0)) 3 5120 (Array.replicate 1000 7) H (by decide) (by decide)
  exact ⟨t', s', hS, hM.buffer, hM.req.1, by simpa using hM.hcycle⟩

example : ∃ t' s', Sends2 (.forceFan true) (.gain 1 none (Array.replicate 249 0x80FF)) exState exTx t' s' ∧
    Obs.stmCycle s' 1 = 1 := by
  obtain ⟨h1, h2, h3, h4, h5⟩ := forceFan_is_slot1_operation exState exTx true WF_exState TxOK_exTx
  obtain ⟨t', s', hS, _, _, _, hH, _⟩ := gain_roundtrip_slot2 exState exTx TxOK_exTx Fresh_ex (.forceFan true) _ _ 2 _ h1 h2 rfl
    (by decide) h3 h4 h5 rfl 1 (by decide) none (Or.inl rfl) (Array.replicate 249 0x80FF)
    (by intro i; unfold rd; by_cases h : i < 249 <;> simp [h])
  exact ⟨t', s', hS, hH.cycle⟩

/-- second slot, both members multi-frame: a 1000-sample modulation to segment 1 (SyncIdx, 3 loops) and a
300-pattern × 3-foci FociSTM to segment 1 (GPIO transition) as one tuple from the power-on-like state -/
example : ∃ t' s', Sends2 (.modulation 1 (some (0, 0)) 3 5120 (Array.replicate 1000 7))
      (.fociStm 3 1 (some (2, 1)) 5 512 340 (Array.replicate 900 12345)) exState exTx t' s' ∧
    Obs.modCycle s' 1 = 1000 ∧ Obs.modBuffer s' 1 = .ok (Array.replicate 1000 7) ∧
    Obs.stmCycle s' 1 = 300 ∧ Obs.numFoci s' 1 = 3 ∧ Obs.reqStmSeg s' = .ok 1 := by
  have HA : ModOK exState 1 (some (0, 0)) 3 5120 (Array.replicate 1000 7) := by
    refine ⟨by decide, by simp, by simp, ?_, by decide, by decide, ?_⟩
    · intro i; unfold rd; by_cases h : i < 1000 <;> simp [h]
    · intro m v h
      simp only [Option.some.injEq, Prod.mk.injEq] at h
      obtain ⟨rfl, rfl⟩ := h
      exact ⟨Or.inl rfl, by decide, by decide⟩
  have HB : FociOK exState 3 1 (some (2, 1)) 5 512 340 (Array.replicate 900 12345) 300 := by
    refine ⟨by decide, by decide, by simp, by decide, ?_, by decide, by decide, by decide, ?_⟩
    · intro i; unfold rd; by_cases h : i < 900 <;> simp [h]
    · intro m v h
      simp only [Option.some.injEq, Prod.mk.injEq] at h
      obtain ⟨rfl, rfl⟩ := h
      exact ⟨Or.inr (Or.inr (Or.inl ⟨rfl, by decide⟩)), by decide, by decide⟩
  obtain ⟨t', s', b2, hS, _, _, _, hM, hF, _⟩ := fociStm_roundtrip_slot2 exState exTx WF_exState TxOK_exTx Fresh_ex
    1 (some (0, 0)) 3 5120 (Array.replicate 1000 7) HA (by decide) (by decide)
    3 1 (some (2, 1)) 5 512 340 (Array.replicate 900 12345) 300 HB (by decide) (by decide)
  exact ⟨t', s', hS, by simpa using hM.hcycle, hM.buffer, hF.hcycle, hF.hnf, hF.req.1⟩

/-- the same Modulation with a 7-pattern PhaseHalf GainSTM (249 transducers) to segment 0 behind it -/
example : ∃ t' s', Sends2 (.modulation 1 (some (0, 0)) 3 5120 (Array.replicate 1000 7))
      (.gainStm 2 0 none 0xFFFF 4000 (Array.replicate 7 (Array.replicate 249 0x1234))) exState exTx t' s' ∧
    Obs.modCycle s' 1 = 1000 ∧ Obs.stmCycle s' 0 = 7 := by
  have HA : ModOK exState 1 (some (0, 0)) 3 5120 (Array.replicate 1000 7) := by
    refine ⟨by decide, by simp, by simp, ?_, by decide, by decide, ?_⟩
    · intro i; unfold rd; by_cases h : i < 1000 <;> simp [h]
    · intro m v h
      simp only [Option.some.injEq, Prod.mk.injEq] at h
      obtain ⟨rfl, rfl⟩ := h
      exact ⟨Or.inl rfl, by decide, by decide⟩
  have HB : GOK exState 2 0 none 0xFFFF 4000 (Array.replicate 7 (Array.replicate 249 0x1234)) := by
    refine ⟨by decide, by decide, by simp, ?_, by decide, by decide, ?_⟩
    · intro idx i
      unfold patAt rd
      by_cases h : idx < 7
      · simp [h]; by_cases h2 : i < 249 <;> simp [h2]
      · simp [h]; show (#[] : Array Nat)[i]?.getD 0 < 65536; simp
    · intro m v h; simp at h
  obtain ⟨t', s', b2, hS, _, _, _, hM, hG, _⟩ := gainStm_roundtrip_slot2 exState exTx WF_exState TxOK_exTx Fresh_ex
    1 (some (0, 0)) 3 5120 (Array.replicate 1000 7) HA (by decide) (by decide)
    2 0 none 0xFFFF 4000 (Array.replicate 7 (Array.replicate 249 0x1234)) HB (by decide) (by decide)
  exact ⟨t', s', hS, by simpa using hM.hcycle, by simpa using hG.hcycle⟩

/-- second slot behind a configuration datagram: a Silencer (8 / 500 completion steps, strict) in slot 1 and the
300 × 3 FociSTM with division 512 ≥ 500 behind it; the FociSTM is validated against the NEW Silencer settings,
which the device keeps -/
example : ∃ t' s', Sends2 (.silencerSteps 8 500 true) (.fociStm 3 1 (some (2, 1)) 5 512 340 (Array.replicate 900 12345))
      exState exTx t' s' ∧
    Obs.stmCycle s' 1 = 300 ∧ Obs.numFoci s' 1 = 3 ∧ s'.strict = true ∧ s'.minDivI = 8 ∧ s'.minDivP = 500 := by
  have HB : FociOK exState 3 1 (some (2, 1)) 5 512 340 (Array.replicate 900 12345) 300 := by
    refine ⟨by decide, by decide, by simp, by decide, ?_, by decide, by decide, by decide, ?_⟩
    · intro i; unfold rd; by_cases h : i < 900 <;> simp [h]
    · intro m v h
      simp only [Option.some.injEq, Prod.mk.injEq] at h
      obtain ⟨rfl, rfl⟩ := h
      exact ⟨Or.inr (Or.inr (Or.inl ⟨rfl, by decide⟩)), by decide, by decide⟩
  obtain ⟨p1, p2, p3, p4, _⟩ := Tuple2.pre_fields exState (nextId exTx)
  have hacc : Tuple2.CfgAccepts (.silencerSteps 8 500 true) (pre exState (nextId exTx)) := by
    show Tuple2.silRejects true (8 % 65536) (500 % 65536) (sel (pre exState (nextId exTx)).stmDiv
      (pre exState (nextId exTx)).stmSegment) (sel (pre exState (nextId exTx)).modDiv (pre exState (nextId exTx)).modSegment) = false
    rw [p1, p2, p3, p4]; decide
  obtain ⟨t', s', b2, hS, _, _, _, hF, _, hR⟩ := fociStm_roundtrip_slot2_after_config (.silencerSteps 8 500 true) rfl
    exState exTx WF_exState TxOK_exTx Fresh_ex hacc 3 1 (some (2, 1)) 5 512 340 (Array.replicate 900 12345) 300 HB
    (by decide) (by decide)
  exact ⟨t', s', hS, hF.hcycle, hF.hnf, hR.strict, hR.minDivI, hR.minDivP⟩

/-- ForceFan in slot 1 and the 7-pattern PhaseHalf GainSTM behind it (first chunk at offset 2) -/
example : ∃ t' s', Sends2 (.forceFan true) (.gainStm 2 0 none 0xFFFF 4000 (Array.replicate 7 (Array.replicate 249 0x1234)))
      exState exTx t' s' ∧ Obs.stmCycle s' 0 = 7 ∧ Obs.isStmGainMode s' 0 = true := by
  have HB : GOK exState 2 0 none 0xFFFF 4000 (Array.replicate 7 (Array.replicate 249 0x1234)) := by
    refine ⟨by decide, by decide, by simp, ?_, by decide, by decide, ?_⟩
    · intro idx i
      unfold patAt rd
      by_cases h : idx < 7
      · simp [h]; by_cases h2 : i < 249 <;> simp [h2]
      · simp [h]; show (#[] : Array Nat)[i]?.getD 0 < 65536; simp
    · intro m v h; simp at h
  obtain ⟨t', s', b2, hS, _, _, _, hG, _, _⟩ := gainStm_roundtrip_slot2_after_config (.forceFan true) rfl
    exState exTx WF_exState TxOK_exTx Fresh_ex (Tuple2.cfgAccepts_other _ _ (by intro i p st h; cases h))
    2 0 none 0xFFFF 4000 (Array.replicate 7 (Array.replicate 249 0x1234)) HB (by decide) (by decide)
  exact ⟨t', s', hS, by simpa using hG.hcycle, hG.hmode⟩

/-- every transition mode has an accepted instance: SyncIdx / SysTime / GPIO to the other segment with a finite
loop count, Ext / Immediate with an infinite one (or to the current segment), none always -/
example : validateTransitionMode 0 1 3 Cpu.TRANSITION_MODE_SYNC_IDX = false ∧
    validateTransitionMode 0 1 3 Cpu.TRANSITION_MODE_SYS_TIME = false ∧
    validateTransitionMode 0 1 3 Cpu.TRANSITION_MODE_GPIO = false ∧
    validateTransitionMode 0 1 0xFFFF Cpu.TRANSITION_MODE_EXT = false ∧
    validateTransitionMode 0 0 3 Cpu.TRANSITION_MODE_IMMEDIATE = false ∧
    validateTransitionMode 0 1 3 Cpu.TRANSITION_MODE_NONE = false := by decide

end Autd3.C01
