import Autd3.Model.Wire
import Autd3.Model.Obs
import Autd3.Lemmas.RtExample
import Autd3.Lemmas.RtNew
import Autd3.Lemmas.RtOps6
import Autd3.Lemmas.RtFoci8
import Autd3.Lemmas.RtGstm10
import Autd3.Lemmas.RtMulti
/-!
# C01 — what is sent is what the device holds

First layer (regenerated from the sources on every run): the driver and the firmware model agree on
every wire header layout, every tag is dispatched, flag bits agree, page geometry fits the memories.
The round-trip theorems over `Wire ∘ Fw ∘ Obs` are in the second half of this file.

Second layer (this file, from "round trips" on): for EVERY well-formed prior state `s` (`Rt.WF`: the seven
memories have their hardware sizes, ≤ 249 transducers, no strobe bit latched in the CPU's flag word,
swap chains with positive divisions/cycles, positive sampling-division registers), every transmit
buffer `t` with a 622-byte payload (`Rt.TxOK`, stale content arbitrary) whose next message id the device
has not just processed (`Rt.Fresh`), and every content: the datagram is packed by `Wire.Op.pack` /
`packOp`, framed by `Tx.frame`, delivered by `Fw.ecatRecv` frame by frame until the operation is done
(`Rt.Sends`, the send loop of one device), every frame is acknowledged without error, and the read-back
accessors `Obs.*` then return what the user supplied.  Each theorem also re-establishes `WF`, `TxOK`,
`Fresh`, so the theorems chain over arbitrary sequences of datagrams.  Firmware-side guards
(`validate_transition_mode`, `validate_silencer_settings`, the SysTime margin) appear as explicit
hypotheses on the prior state: they are exactly the conditions under which the firmware accepts.
-/
namespace Autd3.C01
open Autd3 Autd3.Gen

/-- driver header layout = firmware header layout, field by field, for all 23 shared headers -/
theorem header_layouts_agree :
    ∀ p ∈ headerPairs, p.2.2.1 = p.2.2.2.1 ∧ p.2.2.2.2.1 = p.2.2.2.2.2 := by decide

/-- every tag the driver can emit is dispatched by `handle_payload` (no `ERR_NOT_SUPPORTED_TAG`) -/
theorem every_tag_dispatched :
    ∀ t ∈ allTags, (Dispatch.arms.find? (fun a => a.1 = t.2)).isSome = true := by decide

/-- every dispatched handler exists in the model -/
theorem every_arm_modelled :
    ∀ a ∈ Dispatch.arms, (Fw.handlerOf a.2).isSome = true := by decide

/-- control-flag bits of the driver's bitflags = the firmware's constants -/
theorem flag_bits_agree :
    Drv.ModulationControlFlags_BEGIN = Cpu.MODULATION_FLAG_BEGIN ∧
    Drv.ModulationControlFlags_END = Cpu.MODULATION_FLAG_END ∧
    Drv.ModulationControlFlags_TRANSITION = Cpu.MODULATION_FLAG_UPDATE ∧
    Drv.ModulationControlFlags_SEGMENT = Cpu.MODULATION_FLAG_SEGMENT ∧
    Drv.GainControlFlags_UPDATE = Cpu.GAIN_FLAG_UPDATE ∧
    Drv.FociSTMControlFlags_BEGIN = Cpu.FOCI_STM_FLAG_BEGIN ∧
    Drv.FociSTMControlFlags_END = Cpu.FOCI_STM_FLAG_END ∧
    Drv.FociSTMControlFlags_TRANSITION = Cpu.FOCI_STM_FLAG_UPDATE ∧
    Drv.GainSTMControlFlags_BEGIN = Cpu.GAIN_STM_FLAG_BEGIN ∧
    Drv.GainSTMControlFlags_END = Cpu.GAIN_STM_FLAG_END ∧
    Drv.GainSTMControlFlags_TRANSITION = Cpu.GAIN_STM_FLAG_UPDATE ∧
    Drv.GainSTMControlFlags_SEGMENT = Cpu.GAIN_STM_FLAG_SEGMENT ∧
    Drv.GainSTMControlFlags_SEND_BIT0 = 64 ∧ Drv.GainSTMControlFlags_SEND_BIT1 = 128 ∧
    Drv.SilencerControlFlags_FIXED_UPDATE_RATE = Cpu.SILENCER_FLAG_FIXED_UPDATE_RATE_MODE ∧
    Drv.SilencerControlFlags_STRICT_MODE = Cpu.SILENCER_FLAG_STRICT_MODE ∧
    Drv.GainSTMMode_PhaseIntensityFull = Cpu.GAIN_STM_MODE_INTENSITY_PHASE_FULL ∧
    Drv.GainSTMMode_PhaseFull = Cpu.GAIN_STM_MODE_PHASE_FULL ∧
    Drv.GainSTMMode_PhaseHalf = Cpu.GAIN_STM_MODE_PHASE_HALF ∧
    Drv.TRANSITION_MODE_SYNC_IDX = Cpu.TRANSITION_MODE_SYNC_IDX ∧
    Drv.TRANSITION_MODE_SYS_TIME = Cpu.TRANSITION_MODE_SYS_TIME ∧
    Drv.TRANSITION_MODE_GPIO = Cpu.TRANSITION_MODE_GPIO ∧
    Drv.TRANSITION_MODE_EXT = Cpu.TRANSITION_MODE_EXT ∧
    Drv.TRANSITION_MODE_NONE = Cpu.TRANSITION_MODE_NONE ∧
    Drv.TRANSITION_MODE_IMMEDIATE = Cpu.TRANSITION_MODE_IMMEDIATE := by decide

/-- the CPU's and the FPGA's copies of the register map agree on every address the model uses -/
theorem register_maps_agree :
    Cpu.ADDR_CTL_FLAG = Fpga.ADDR_CTL_FLAG ∧ Cpu.ADDR_FPGA_STATE = Fpga.ADDR_FPGA_STATE ∧
    Cpu.ADDR_MOD_MEM_WR_SEGMENT = Fpga.ADDR_MOD_MEM_WR_SEGMENT ∧ Cpu.ADDR_MOD_MEM_WR_PAGE = Fpga.ADDR_MOD_MEM_WR_PAGE ∧
    Cpu.ADDR_MOD_REQ_RD_SEGMENT = Fpga.ADDR_MOD_REQ_RD_SEGMENT ∧ Cpu.ADDR_MOD_CYCLE0 = Fpga.ADDR_MOD_CYCLE0 ∧
    Cpu.ADDR_MOD_CYCLE1 = Fpga.ADDR_MOD_CYCLE1 ∧ Cpu.ADDR_MOD_FREQ_DIV0 = Fpga.ADDR_MOD_FREQ_DIV0 ∧
    Cpu.ADDR_MOD_FREQ_DIV1 = Fpga.ADDR_MOD_FREQ_DIV1 ∧ Cpu.ADDR_MOD_REP0 = Fpga.ADDR_MOD_REP0 ∧
    Cpu.ADDR_MOD_REP1 = Fpga.ADDR_MOD_REP1 ∧ Cpu.ADDR_MOD_TRANSITION_MODE = Fpga.ADDR_MOD_TRANSITION_MODE ∧
    Cpu.ADDR_MOD_TRANSITION_VALUE_0 = Fpga.ADDR_MOD_TRANSITION_VALUE_0 ∧
    Cpu.ADDR_STM_MEM_WR_SEGMENT = Fpga.ADDR_STM_MEM_WR_SEGMENT ∧ Cpu.ADDR_STM_MEM_WR_PAGE = Fpga.ADDR_STM_MEM_WR_PAGE ∧
    Cpu.ADDR_STM_REQ_RD_SEGMENT = Fpga.ADDR_STM_REQ_RD_SEGMENT ∧ Cpu.ADDR_STM_CYCLE0 = Fpga.ADDR_STM_CYCLE0 ∧
    Cpu.ADDR_STM_CYCLE1 = Fpga.ADDR_STM_CYCLE1 ∧ Cpu.ADDR_STM_FREQ_DIV0 = Fpga.ADDR_STM_FREQ_DIV0 ∧
    Cpu.ADDR_STM_FREQ_DIV1 = Fpga.ADDR_STM_FREQ_DIV1 ∧ Cpu.ADDR_STM_REP0 = Fpga.ADDR_STM_REP0 ∧
    Cpu.ADDR_STM_REP1 = Fpga.ADDR_STM_REP1 ∧ Cpu.ADDR_STM_MODE0 = Fpga.ADDR_STM_MODE0 ∧ Cpu.ADDR_STM_MODE1 = Fpga.ADDR_STM_MODE1 ∧
    Cpu.ADDR_STM_SOUND_SPEED0 = Fpga.ADDR_STM_SOUND_SPEED0 ∧ Cpu.ADDR_STM_SOUND_SPEED1 = Fpga.ADDR_STM_SOUND_SPEED1 ∧
    Cpu.ADDR_STM_NUM_FOCI0 = Fpga.ADDR_STM_NUM_FOCI0 ∧ Cpu.ADDR_STM_NUM_FOCI1 = Fpga.ADDR_STM_NUM_FOCI1 ∧
    Cpu.ADDR_STM_TRANSITION_MODE = Fpga.ADDR_STM_TRANSITION_MODE ∧ Cpu.ADDR_STM_TRANSITION_VALUE_0 = Fpga.ADDR_STM_TRANSITION_VALUE_0 ∧
    Cpu.ADDR_SILENCER_FLAG = Fpga.ADDR_SILENCER_FLAG ∧
    Cpu.ADDR_SILENCER_UPDATE_RATE_INTENSITY = Fpga.ADDR_SILENCER_UPDATE_RATE_INTENSITY ∧
    Cpu.ADDR_SILENCER_UPDATE_RATE_PHASE = Fpga.ADDR_SILENCER_UPDATE_RATE_PHASE ∧
    Cpu.ADDR_SILENCER_COMPLETION_STEPS_INTENSITY = Fpga.ADDR_SILENCER_COMPLETION_STEPS_INTENSITY ∧
    Cpu.ADDR_SILENCER_COMPLETION_STEPS_PHASE = Fpga.ADDR_SILENCER_COMPLETION_STEPS_PHASE ∧
    Cpu.ADDR_DEBUG_VALUE0_0 = Fpga.ADDR_DEBUG_VALUE0_0 ∧ Cpu.ADDR_DEBUG_VALUE3_3 = Fpga.ADDR_DEBUG_VALUE3_3 ∧
    Cpu.BRAM_SELECT_CONTROLLER = Fpga.BRAM_SELECT_CONTROLLER ∧ Cpu.BRAM_SELECT_MOD = Fpga.BRAM_SELECT_MOD ∧
    Cpu.BRAM_SELECT_PWE_TABLE = Fpga.BRAM_SELECT_PWE_TABLE ∧ Cpu.BRAM_SELECT_STM = Fpga.BRAM_SELECT_STM ∧
    Cpu.BRAM_CNT_SEL_PHASE_CORR = Fpga.BRAM_CNT_SEL_PHASE_CORR ∧
    Cpu.CTL_FLAG_MOD_SET_BIT = Fpga.CTL_FLAG_MOD_SET_BIT ∧ Cpu.CTL_FLAG_STM_SET_BIT = Fpga.CTL_FLAG_STM_SET_BIT ∧
    Cpu.CTL_FLAG_BIT_GPIO_IN_0 = Fpga.CTL_FLAG_BIT_GPIO_IN_0 ∧ Cpu.CTL_FLAG_FORCE_FAN_BIT = Fpga.CTL_FLAG_FORCE_FAN_BIT ∧
    Cpu.STM_MODE_GAIN = Fpga.STM_MODE_GAIN := by decide

/-- page geometry: a page register value the handlers can produce addresses memory inside the BRAM -/
theorem page_geometry :
    Cpu.MOD_BUF_PAGE_SIZE = 32768 ∧ 2 * (Cpu.MOD_BUF_PAGE_SIZE / 2) = 32768 ∧
    Cpu.FOCI_STM_BUF_PAGE_SIZE * 4 = 16384 ∧ 16 * 16384 = 262144 ∧
    Cpu.GAIN_STM_BUF_PAGE_SIZE * 256 = 16384 ∧
    Drv.MOD_BUF_SIZE_MAX = 2 * Cpu.MOD_BUF_PAGE_SIZE ∧
    Drv.FOCI_STM_BUF_SIZE_MAX = 16 * Cpu.FOCI_STM_BUF_PAGE_SIZE ∧
    Drv.GAIN_STM_BUF_SIZE_MAX = 16 * Cpu.GAIN_STM_BUF_PAGE_SIZE ∧
    Drv.EC_OUTPUT_FRAME_SIZE - DrvLayout.Header_size = 622 := by decide

/-! ## round trips -/

open Autd3.Fw Autd3.Wire Autd3.Rt

/-- the executable loop `Rt.sendLoop` is what `Rt.Sends` abbreviates (no hidden assumptions) -/
theorem sends_def (dg : Dg) (s : State) (t t' : Tx) (s' : State) :
    Sends dg s t t' s' ↔ ∃ fuel, sendLoop fuel (Op.ofDg dg) s t = some (t', s') := Iff.rfl

/-- `WF` is not vacuous: a concrete power-on-like state, the default transmit buffer -/
theorem wf_nonvacuous : WF exState ∧ TxOK exTx ∧ Fresh exState exTx := ⟨WF_exState, TxOK_exTx, Fresh_ex⟩

/-- `WF` holds for a freshly created device (`CPUEmulator::new` = allocate + `clear`): `init()` does not
panic and leaves a well-formed state, for every clock reading and every transducer count ≤ 249 -/
theorem wf_of_new (numTr now : Nat) (hn : numTr ≤ 249) : ∃ s, Fw.new numTr now = .ok s ∧ WF s :=
  new_WF numTr now hn

/-- `handle_payload` dispatches a modulation tag to `write_mod` (representative; one per tag in Lemmas) -/
theorem dispatch_modulation (s : State) (d : Array Nat) (h : u8at d 0 = Cpu.TAG_MODULATION) :
    handlePayload s d = writeMod s d := dispatch_mod s d h

/-- the payload of a frame is the tx buffer's payload, the header carries id and slot-2 offset -/
theorem frame_indexing (t : Tx) :
    (Tx.frame t).extract DrvLayout.Header_size (Tx.frame t).size = t.payload ∧
    u8at (Tx.frame t) DrvLayout.Header_msg_id_off = t.msgId % 256 ∧
    u16at (Tx.frame t) DrvLayout.Header_slot_2_offset_off = t.slot2 % 65536 :=
  ⟨frame_extract t, frame_id t, frame_slot2 t⟩

/-- byte/word packing: a field written by the driver's `put*` is read back by the firmware's `u*at` -/
theorem put_get (b : Array Nat) (i v : Nat) :
    (i < b.size → u8at (put8 b i v) i = v % 256) ∧
    (i + 1 < b.size → u16at (put16 b i v) i = v % 65536) ∧
    (i + 7 < b.size → u64at (put64 b i v) i = v % 18446744073709551616) :=
  ⟨fun h => by rw [u8at_put8, if_pos ⟨rfl, h⟩], u16at_put16_same b i v, u64at_put64_same b i v⟩

/-- `bram_cpy` = pointwise write: closed forms of the four bulk writers -/
theorem bulk_writes_closed_form (m : Array Nat) (off : Nat) (ws : Array Nat) (j : Nat) :
    (wrWords m off ws).size = m.size ∧
    rd (wrWords m off ws) j =
      if off ≤ j ∧ j < off + ws.size ∧ j < m.size then rd ws (j - off) % 65536 else rd m j :=
  ⟨size_wrWords m off ws, rd_wrWords m off ws j⟩

theorem modWriteWords_closed_form (s : State) (base : Nat) (words : Array Nat)
    (hseg : reg s Cpu.ADDR_MOD_MEM_WR_SEGMENT ≤ 1) (hb : base % 16384 + words.size ≤ 16384)
    (hp : reg s Cpu.ADDR_MOD_MEM_WR_PAGE * 16384 + base % 16384 + words.size ≤ 32768) :
    modWriteWords s base words =
      .ok (setModMem s (reg s Cpu.ADDR_MOD_MEM_WR_SEGMENT)
        (wrWords (Obs.modMem s (reg s Cpu.ADDR_MOD_MEM_WR_SEGMENT))
          (reg s Cpu.ADDR_MOD_MEM_WR_PAGE * 16384 + base % 16384) words)) :=
  modWriteWords_eq s base words hseg hb hp

theorem stmWriteWords_closed_form (s : State) (base : Nat) (words : Array Nat)
    (hseg : reg s Cpu.ADDR_STM_MEM_WR_SEGMENT ≤ 1) (hb : base % 16384 + words.size ≤ 16384)
    (hp : reg s Cpu.ADDR_STM_MEM_WR_PAGE * 16384 + base % 16384 + words.size ≤ 262144) :
    stmWriteWords s base words =
      .ok (setStmMem s (reg s Cpu.ADDR_STM_MEM_WR_SEGMENT)
        (wrWords (Obs.stmMem s (reg s Cpu.ADDR_STM_MEM_WR_SEGMENT))
          (reg s Cpu.ADDR_STM_MEM_WR_PAGE * 16384 + base % 16384) words)) :=
  stmWriteWords_eq s base words hseg hb hp

/-- `ecat_recv` on a fresh single-slot frame whose handler acknowledges: CTL_FLAG rewritten, ack = id -/
theorem ecatRecv_fresh_frame (s : State) (t : Tx) (hid : t.msgId < 128) (hslot : t.slot2 = 0)
    (hfresh : s.lastMsgId ≠ t.msgId) (s1 : State)
    (hh : handlePayload (pre s t.msgId) t.payload = .ok (s1, Cpu.NO_ERR)) :
    ecatRecv s t.frame = .ok (fin s1 t.msgId) := ecatRecv_single s t hid hslot hfresh s1 hh

/-! ### one-frame datagrams -/

theorem forceFan_roundtrip (s : State) (t : Tx) (v : Bool) (hWF : WF s) (ht : TxOK t) (hf : Fresh s t) :
    ∃ t' s', Sends (.forceFan v) s t t' s' ∧ WF s' ∧ TxOK t' ∧ Fresh s' t' ∧ Obs.isForceFan s' = v :=
  forceFan_roundtrip' s t v hWF ht hf

theorem readsFpgaState_roundtrip (s : State) (t : Tx) (hWF : WF s) (ht : TxOK t) (hf : Fresh s t) (v : Bool) :
    ∃ t' s', Sends (.readsFpgaState v) s t t' s' ∧ WF s' ∧ TxOK t' ∧ Fresh s' t' ∧ s'.readsFpgaState = v :=
  readsFpgaState_roundtrip' s t hWF ht hf v

theorem cpuGpioOut_roundtrip (s : State) (t : Tx) (hWF : WF s) (ht : TxOK t) (hf : Fresh s t) (v : Nat) (hv : v < 256) :
    ∃ t' s', Sends (.cpuGpioOut v) s t t' s' ∧ WF s' ∧ TxOK t' ∧ Fresh s' t' ∧ s'.portA = v :=
  cpuGpioOut_roundtrip' s t hWF ht hf v hv

/-- GPIO-in emulation: the four request bits appear as the FPGA's GPIO inputs -/
theorem gpioIn_roundtrip (s : State) (t : Tx) (hWF : WF s) (ht : TxOK t) (hf : Fresh s t) (flags : Nat)
    (hfl : flags < 256) :
    ∃ t' s', Sends (.gpioIn flags) s t t' s' ∧ WF s' ∧ TxOK t' ∧ Fresh s' t' ∧
      Fw.gpioIn s' 0 = hasFlag flags Cpu.GPIO_IN_FLAG_0 ∧ Fw.gpioIn s' 1 = hasFlag flags Cpu.GPIO_IN_FLAG_1 ∧
      Fw.gpioIn s' 2 = hasFlag flags Cpu.GPIO_IN_FLAG_2 ∧ Fw.gpioIn s' 3 = hasFlag flags Cpu.GPIO_IN_FLAG_3 :=
  gpioIn_roundtrip' s t hWF ht hf flags hfl

/-- Silencer, fixed completion steps (accepted case: the firmware's guard is the explicit hypothesis) -/
theorem silencerSteps_roundtrip (s : State) (t : Tx) (hWF : WF s) (ht : TxOK t) (hf : Fresh s t)
    (i p : Nat) (strict : Bool) (hi : 0 < i ∧ i < 65536) (hp : 0 < p ∧ p < 65536)
    (hg : validateSilencerSettings { s with strict := strict, minDivI := i, minDivP := p }
      (sel s.stmDiv s.stmSegment) (sel s.modDiv s.modSegment) = false) :
    ∃ t' s', Sends (.silencerSteps i p strict) s t t' s' ∧ WF s' ∧ TxOK t' ∧ Fresh s' t' ∧
      Obs.silencerCompletionSteps s' = .ok (i, p) ∧ Obs.silencerFixedUpdateRateMode s' = false ∧
      s'.strict = strict :=
  silencerSteps_roundtrip' s t hWF ht hf i p strict hi hp hg

/-- Silencer, fixed update rate (always accepted) -/
theorem silencerRate_roundtrip (s : State) (t : Tx) (hWF : WF s) (ht : TxOK t) (hf : Fresh s t)
    (i p : Nat) (hi : i < 65536) (hp : p < 65536) :
    ∃ t' s', Sends (.silencerRate i p) s t t' s' ∧ WF s' ∧ TxOK t' ∧ Fresh s' t' ∧
      Obs.silencerUpdateRate s' = (i, p) ∧ Obs.silencerFixedUpdateRateMode s' = true ∧ s'.strict = s.strict :=
  silencerRate_roundtrip' s t hWF ht hf i p hi hp

/-- pulse-width table: all 256 entries -/
theorem pwe_roundtrip (s : State) (t : Tx) (hWF : WF s) (ht : TxOK t) (hf : Fresh s t) (table : Array Nat)
    (hsz : table.size = 256) (hv : ∀ i, rd table i < 512) :
    ∃ t' s', Sends (.pwe table) s t t' s' ∧ WF s' ∧ TxOK t' ∧ Fresh s' t' ∧ Obs.pweTable s' = .ok table :=
  pwe_roundtrip' s t hWF ht hf table hsz hv

/-- phase correction: one byte per transducer -/
theorem phaseCorr_roundtrip (s : State) (t : Tx) (hWF : WF s) (ht : TxOK t) (hf : Fresh s t) (bytes : Array Nat)
    (hsz : bytes.size = s.numTr) (hv : ∀ i, rd bytes i < 256) :
    ∃ t' s', Sends (.phaseCorr bytes) s t t' s' ∧ WF s' ∧ TxOK t' ∧ Fresh s' t' ∧ Obs.phaseCorrection s' = bytes :=
  phaseCorr_roundtrip' s t hWF ht hf bytes hsz hv

/-- GPIO outputs: the four 64-bit debug values (type byte and 56-bit value) -/
theorem debug_roundtrip (s : State) (t : Tx) (hWF : WF s) (ht : TxOK t) (hf : Fresh s t) (vals : Array Nat)
    (hv : ∀ i, rd vals i < 18446744073709551616) :
    ∃ t' s', Sends (.debug vals) s t t' s' ∧ WF s' ∧ TxOK t' ∧ Fresh s' t' ∧
      Obs.debugValues s' = #[rd vals 0 % 72057594037927936, rd vals 1 % 72057594037927936,
        rd vals 2 % 72057594037927936, rd vals 3 % 72057594037927936] ∧
      Obs.debugTypes s' = #[rd vals 0 / 72057594037927936, rd vals 1 / 72057594037927936,
        rd vals 2 / 72057594037927936, rd vals 3 / 72057594037927936] :=
  debug_roundtrip' s t hWF ht hf vals hv

/-! ### segment swaps -/

/-- SwapSegment::Modulation: request register, transition, swap-chain `set`, nothing else of the
modulation resources moves -/
theorem swapMod_roundtrip (s : State) (t : Tx) (hWF : WF s) (ht : TxOK t) (hf : Fresh s t)
    (seg mode value : Nat) (hseg : seg ≤ 1) (hv : ValidTr mode value) (hval : value < 18446744073709551616)
    (g1 : validateTransitionMode s.modSegment seg (sel s.modRep seg) mode = false)
    (g2 : validateSilencerSettings s (sel s.stmDiv s.stmSegment) (sel s.modDiv seg) = false)
    (hmiss : ¬(mode = Cpu.TRANSITION_MODE_SYS_TIME ∧ value < s.dcSysTime + Cpu.SYS_TIME_TRANSITION_MARGIN)) :
    ∃ t' s', Sends (.swapMod seg mode value) s t t' s' ∧ WF s' ∧ TxOK t' ∧ Fresh s' t' ∧
      Obs.reqModSeg s' = .ok seg ∧ Obs.modTransition s' = .ok (tmodeOf mode value) ∧ s'.modSegment = seg ∧
      SwapSet s.modSwap s'.modSwap s.dcSysTime (Obs.modRep s seg) (Obs.modDiv s seg) (Obs.modCycle s seg) seg
        (tmodeOf mode value) ∧
      s'.modMem0 = s.modMem0 ∧ s'.modMem1 = s.modMem1 ∧
      (∀ g, g ≤ 1 → Obs.modDiv s' g = Obs.modDiv s g ∧ Obs.modCycle s' g = Obs.modCycle s g ∧
        Obs.modRep s' g = Obs.modRep s g) :=
  swapMod_roundtrip' s t hWF ht hf seg mode value hseg hv hval g1 g2 hmiss

theorem swapFoci_roundtrip (s : State) (t : Tx) (hWF : WF s) (ht : TxOK t) (hf : Fresh s t)
    (seg mode value : Nat) (hseg : seg ≤ 1) (hv : ValidTr mode value) (hval : value < 18446744073709551616)
    (g0 : sel s.stmMode seg = Cpu.STM_MODE_FOCUS)
    (g1 : validateTransitionMode s.stmSegment seg (sel s.stmRep seg) mode = false)
    (g2 : validateSilencerSettings s (sel s.stmDiv seg) (sel s.modDiv s.modSegment) = false)
    (hmiss : ¬(mode = Cpu.TRANSITION_MODE_SYS_TIME ∧ value < s.dcSysTime + Cpu.SYS_TIME_TRANSITION_MARGIN)) :
    ∃ t' s', Sends (.swapFoci seg mode value) s t t' s' ∧ WF s' ∧ TxOK t' ∧ Fresh s' t' ∧
      Obs.reqStmSeg s' = .ok seg ∧ Obs.stmTransition s' = .ok (tmodeOf mode value) ∧ s'.stmSegment = seg ∧
      SwapSet s.stmSwap s'.stmSwap s.dcSysTime (Obs.stmRep s seg) (Obs.stmDiv s seg) (Obs.stmCycle s seg) seg
        (tmodeOf mode value) ∧
      s'.stmMem0 = s.stmMem0 ∧ s'.stmMem1 = s.stmMem1 ∧
      (∀ g, g ≤ 1 → Obs.stmDiv s' g = Obs.stmDiv s g ∧ Obs.stmCycle s' g = Obs.stmCycle s g ∧
        Obs.stmRep s' g = Obs.stmRep s g ∧ Obs.isStmGainMode s' g = Obs.isStmGainMode s g) :=
  swapFoci_roundtrip' s t hWF ht hf seg mode value hseg hv hval g0 g1 g2 hmiss

theorem swapGainStm_roundtrip (s : State) (t : Tx) (hWF : WF s) (ht : TxOK t) (hf : Fresh s t)
    (seg mode value : Nat) (hseg : seg ≤ 1) (hv : ValidTr mode value) (hval : value < 18446744073709551616)
    (g0 : sel s.stmMode seg = Cpu.STM_MODE_GAIN ∧ sel s.stmCycle seg ≠ 1)
    (g1 : validateTransitionMode s.stmSegment seg (sel s.stmRep seg) mode = false)
    (g2 : validateSilencerSettings s (sel s.stmDiv seg) (sel s.modDiv s.modSegment) = false)
    (hmiss : ¬(mode = Cpu.TRANSITION_MODE_SYS_TIME ∧ value < s.dcSysTime + Cpu.SYS_TIME_TRANSITION_MARGIN)) :
    ∃ t' s', Sends (.swapGainStm seg mode value) s t t' s' ∧ WF s' ∧ TxOK t' ∧ Fresh s' t' ∧
      Obs.reqStmSeg s' = .ok seg ∧ Obs.stmTransition s' = .ok (tmodeOf mode value) ∧ s'.stmSegment = seg ∧
      SwapSet s.stmSwap s'.stmSwap s.dcSysTime (Obs.stmRep s seg) (Obs.stmDiv s seg) (Obs.stmCycle s seg) seg
        (tmodeOf mode value) ∧
      s'.stmMem0 = s.stmMem0 ∧ s'.stmMem1 = s.stmMem1 ∧
      (∀ g, g ≤ 1 → Obs.stmDiv s' g = Obs.stmDiv s g ∧ Obs.stmCycle s' g = Obs.stmCycle s g ∧
        Obs.stmRep s' g = Obs.stmRep s g ∧ Obs.isStmGainMode s' g = Obs.isStmGainMode s g) :=
  swapGainStm_roundtrip' s t hWF ht hf seg mode value hseg hv hval g0 g1 g2 hmiss

theorem swapGain_roundtrip (s : State) (t : Tx) (hWF : WF s) (ht : TxOK t) (hf : Fresh s t)
    (seg value : Nat) (hseg : seg ≤ 1)
    (g0 : sel s.stmMode seg = Cpu.STM_MODE_GAIN ∧ sel s.stmCycle seg = 1)
    (g2 : validateSilencerSettings s (sel s.stmDiv seg) (sel s.modDiv s.modSegment) = false) :
    ∃ t' s', Sends (.swapGain seg Drv.TRANSITION_MODE_IMMEDIATE value) s t t' s' ∧ WF s' ∧ TxOK t' ∧ Fresh s' t' ∧
      Obs.reqStmSeg s' = .ok seg ∧ Obs.stmTransition s' = .ok .syncIdx ∧ s'.stmSegment = seg ∧
      SwapSet s.stmSwap s'.stmSwap s.dcSysTime (Obs.stmRep s seg) (Obs.stmDiv s seg) (Obs.stmCycle s seg) seg .syncIdx ∧
      s'.stmMem0 = s.stmMem0 ∧ s'.stmMem1 = s.stmMem1 ∧
      (∀ g, g ≤ 1 → Obs.stmDiv s' g = Obs.stmDiv s g ∧ Obs.stmCycle s' g = Obs.stmCycle s g ∧
        Obs.stmRep s' g = Obs.stmRep s g ∧ Obs.isStmGainMode s' g = Obs.isStmGainMode s g) :=
  swapGain_roundtrip' s t hWF ht hf seg value hseg g0 g2

/-! ### Gain -/

/-- Gain: `drives_at(seg, 0)` = the user's drives (phase + stored phase correction, intensity kept),
cycle 1, gain mode, division/loop 0xFFFF, the other segment's memory and registers untouched; the CPU
records the segment as a gain segment (`GainCpu`: `stm_mode[seg] = GAIN`, other segment's copy
unchanged); the request register is written (segment current at once: loop count 0xFFFF) iff the
datagram carries a transition, otherwise the request/transition registers and the swap chain are
untouched -/
theorem gain_roundtrip (s : State) (t : Tx) (hWF : WF s) (ht : TxOK t) (hf : Fresh s t)
    (seg : Nat) (hseg : seg ≤ 1) (tr : Tr)
    (htr : tr = none ∨ ∃ v, tr = some (Drv.TRANSITION_MODE_IMMEDIATE, v))
    (drives : Array Nat) (hdr : ∀ i, rd drives i < 65536) :
    ∃ t' s', Sends (.gain seg tr drives) s t t' s' ∧ WF s' ∧ TxOK t' ∧ Fresh s' t' ∧
      GainHeld s s' seg drives ∧ GainCpu s s' seg ∧
      (tr = none → s'.stmSwap = s.stmSwap ∧ Obs.reqStmSeg s' = Obs.reqStmSeg s ∧
        Obs.stmTransition s' = Obs.stmTransition s ∧ s'.stmSegment = s.stmSegment) ∧
      (tr.isSome = true → Obs.reqStmSeg s' = .ok seg ∧ Obs.stmTransition s' = .ok .syncIdx ∧
        Obs.currentStmSeg s' = seg ∧ s'.stmSegment = seg ∧
        SwapSet s.stmSwap s'.stmSwap s.dcSysTime 0xFFFF 0xFFFF 1 seg .syncIdx) := by
  rcases htr with h | ⟨v, h⟩
  · subst h
    obtain ⟨t', s', h1, h2, h3, h4, h5, a1, a2, a3, a4, hc⟩ := gain_roundtrip_noupd s t hWF ht hf seg hseg drives hdr
    exact ⟨t', s', h1, h2, h3, h4, h5, GainCpu_of hseg hc, fun _ => ⟨a1, a2, a3, a4⟩, fun h => by simp at h⟩
  · subst h
    obtain ⟨t', s', h1, h2, h3, h4, h5, a1, a2, a3, a4, a5, hc⟩ := gain_roundtrip_upd s t hWF ht hf seg v hseg drives hdr
    exact ⟨t', s', h1, h2, h3, h4, h5, GainCpu_of hseg hc, fun h => by simp at h, fun _ => ⟨a1, a2, a3, a4, a5⟩⟩

/-- the two spelled-out facts about the CPU copy after a Gain -/
theorem gain_sets_cpu_mode {s s' : State} {seg : Nat} (h : GainCpu s s' seg) :
    sel s'.stmMode seg = Cpu.STM_MODE_GAIN ∧ sel s'.stmMode (1 - seg) = sel s.stmMode (1 - seg) := ⟨h.mode, h.modeOther⟩

/-- **Gain then SwapSegment::Gain is accepted after ANY history** (repair of the stale-`stm_mode`
defect): from every well-formed state, a Gain to segment `seg` (with or without transition) followed
by SwapSegment::Gain(`seg`, Immediate) is accepted — both sends acknowledged without error, request
register = `seg` — provided the silencer guard accepts the gain's division 0xFFFF: in strict mode the
completion steps are ≤ 0xFFFF and the intensity steps ≤ the current modulation division -/
theorem gain_then_swapGain_accepted (s : State) (t : Tx) (hWF : WF s) (ht : TxOK t) (hf : Fresh s t)
    (seg value : Nat) (hseg : seg ≤ 1) (tr : Tr)
    (htr : tr = none ∨ ∃ v, tr = some (Drv.TRANSITION_MODE_IMMEDIATE, v))
    (drives : Array Nat) (hdr : ∀ i, rd drives i < 65536)
    (hg : s.strict = true → s.minDivI ≤ 0xFFFF ∧ s.minDivP ≤ 0xFFFF ∧ s.minDivI ≤ sel s.modDiv s.modSegment) :
    ∃ t1 s1 t2 s2, Sends (.gain seg tr drives) s t t1 s1 ∧
      Sends (.swapGain seg Drv.TRANSITION_MODE_IMMEDIATE value) s1 t1 t2 s2 ∧ WF s2 ∧ TxOK t2 ∧ Fresh s2 t2 ∧
      Obs.reqStmSeg s2 = .ok seg ∧ s2.stmSegment = seg ∧
      (∀ g, Obs.stmMem s2 g = Obs.stmMem s1 g) ∧ GainHeld s s1 seg drives := by
  obtain ⟨t1, s1, hS1, hW1, hT1, hF1, hH, hC, _, _⟩ := gain_roundtrip s t hWF ht hf seg hseg tr htr drives hdr
  have g2 : validateSilencerSettings s1 (sel s1.stmDiv seg) (sel s1.modDiv s1.modSegment) = false := by
    unfold validateSilencerSettings
    rw [hC.div, hC.modDiv, hC.modSegment, hC.strict, hC.minDivI, hC.minDivP]
    by_cases hs : s.strict = true
    · obtain ⟨a, b, c⟩ := hg hs
      simp only [hs, true_and, decide_eq_false_iff_not]; omega
    · simp [hs]
  obtain ⟨t2, s2, hS2, hW2, hT2, hF2, hreq, _, hseg2, _, hm0, hm1, _⟩ :=
    swapGain_roundtrip s1 t1 hW1 hT1 hF1 seg value hseg ⟨hC.mode, hC.cycle⟩ g2
  refine ⟨t1, s1, t2, s2, hS1, hS2, hW2, hT2, hF2, hreq, hseg2, ?_, hH⟩
  intro g; unfold Obs.stmMem; rw [hm0, hm1]

/-- the driver refuses any other transition mode for a Gain (nothing is packed) -/
theorem gain_other_transition_rejected (seg m v : Nat) (drives : Array Nat) (n : Nat) (b : Array Nat)
    (hm : m ≠ Drv.TRANSITION_MODE_IMMEDIATE) :
    (Op.ofDg (.gain seg (some (m, v)) drives)).pack n b 0 = .error .invalidTransitionMode := by
  unfold Op.pack; simp [Op.ofDg, hm]

/-! ### Modulation -/

/-- chunk arithmetic, driver side: the first frame carries `min n 254` samples with the full header -/
theorem mod_pack_first (seg : Nat) (tr : Tr) (rep div : Nat) (samples : Array Nat) (nt : Nat) (b : Array Nat)
    (hb : b.size = 622) (hn : 2 ≤ samples.size) (hn' : samples.size ≤ 65536) :
    (Op.ofDg (.modulation seg tr rep div samples)).pack nt b 0 =
      .ok ({ dg := .modulation seg tr rep div samples, sent := min samples.size 254,
             done := decide (samples.size ≤ 254) },
        modFirstPayload b samples (min samples.size 254)
          (modFlagByte true (decide (samples.size ≤ 254)) seg tr.isSome) (trMode tr) div rep (trValue tr),
        16 + ((min samples.size 254 + 1) / 2) * 2) :=
  pack_mod_first seg tr rep div samples nt b hb hn hn'

/-- chunk arithmetic, driver side: every later frame carries `min (n - sent) 618` samples -/
theorem mod_pack_next (seg : Nat) (tr : Tr) (rep div : Nat) (samples : Array Nat) (nt : Nat) (b : Array Nat) (c : Nat)
    (hb : b.size = 622) (hc0 : 0 < c) (hcn : c < samples.size) (hn : samples.size ≤ 65536) (hn2 : 2 ≤ samples.size) :
    ({ dg := .modulation seg tr rep div samples, sent := c, done := false } : Op).pack nt b 0 =
      .ok ({ dg := .modulation seg tr rep div samples, sent := c + min (samples.size - c) 618,
             done := decide (samples.size - c ≤ 618) },
        modNextPayload b samples c (min (samples.size - c) 618)
          (modFlagByte false (decide (samples.size - c ≤ 618)) seg tr.isSome),
        4 + ((min (samples.size - c) 618 + 1) / 2) * 2) :=
  pack_mod_next seg tr rep div samples nt b c hb hc0 hcn hn hn2

/-- every non-final chunk is even, hence the cursor `254 + 618·k` is even at every chunk start -/
theorem mod_cursor_even (n k : Nat) : (254 + 618 * k) % 2 = 0 ∧ (n > 254 → min n 254 % 2 = 0) ∧
    (∀ c, n - c > 618 → min (n - c) 618 % 2 = 0) := by
  refine ⟨by omega, fun h => by omega, fun c h => by omega⟩

/-- page-crossing lemma, firmware side: with an even cursor `c` pointing into the page selected by the
write-page register, the copy part of `write_mod` puts the `w` frame bytes at `c … c+w-1` of the
target segment — also when the chunk crosses or exactly reaches the 32768-sample page boundary
(split copy, page register advanced) — and touches nothing below the cursor, nothing in the other
segment, no register but the write page -/
theorem mod_copy_with_page_split (s : State) (hW : WF s) (d : Array Nat) (off w seg c : Nat)
    (hc : s.modCycle = c) (hc2 : c % 2 = 0) (hcw : c + w ≤ 65536) (hc3 : c < 65536)
    (hsr : reg s Cpu.ADDR_MOD_MEM_WR_SEGMENT = seg) (hseg : seg ≤ 1)
    (hpage : reg s Cpu.ADDR_MOD_MEM_WR_PAGE = c / 32768) :
    ∃ s', modDataPart s d off w = .ok s' ∧ ModCopied s s' seg c w d off :=
  modDataPart_ok s hW d off w seg c hc hc2 hcw hc3 hsr hseg hpage

/-- `write_mod` is header ∘ copy ∘ end (following frames) -/
theorem writeMod_following_frame (s : State) (d : Array Nat)
    (hb : hasFlag (u8at d FwLayout.ModulationHead_flag_off) Cpu.MODULATION_FLAG_BEGIN = false) :
    writeMod s d = (do
      let s2 ← modDataPart s d FwLayout.ModulationSubseq_size (u16at d FwLayout.ModulationSubseq_size_off)
      modEndPart s2 (u8at d FwLayout.ModulationHead_flag_off)
        (if u8at d FwLayout.ModulationHead_flag_off &&& Cpu.MODULATION_FLAG_SEGMENT ≠ 0 then 1 else 0)) :=
  writeMod_subseq s d hb

/-- **Modulation round trip for every legal size 2 ≤ n ≤ 65536** (`ModOK`: segment 0/1, sizes, byte
samples, 16-bit loop count, non-zero 16-bit division, decodable transition with 64-bit value not
missing the SysTime margin), by induction over the frames: `modulation_buffer(seg)` = the samples,
division, loop count and cycle read back, the other segment's memory and registers are untouched,
and the request register / transition / swap chain are written iff a transition is given
(`ModHeld`).  `g1`, `g2` are the firmware's acceptance guards at the BEGIN frame. -/
theorem mod_roundtrip (s : State) (t : Tx) (hWF : WF s) (ht : TxOK t) (hf : Fresh s t)
    (seg : Nat) (tr : Tr) (rep div : Nat) (samples : Array Nat) (H : ModOK s seg tr rep div samples)
    (g1 : validateTransitionMode s.modSegment seg rep (trMode tr) = false)
    (g2 : validateSilencerSettings s (sel s.stmDiv s.stmSegment) div = false) :
    ∃ t' s', Sends (.modulation seg tr rep div samples) s t t' s' ∧ WF s' ∧ TxOK t' ∧ Fresh s' t' ∧
      ModHeld s s' seg tr rep div samples :=
  mod_roundtrip' s t hWF ht hf seg tr rep div samples H g1 g2

/-- what `ModHeld` says, spelled out with the read-back accessors -/
theorem modHeld_spelled_out {s0 s' : State} {seg : Nat} {tr : Tr} {rep div : Nat} {samples : Array Nat}
    (h : ModHeld s0 s' seg tr rep div samples) :
    Obs.modBuffer s' seg = .ok samples ∧ Obs.modDiv s' seg = div ∧ Obs.modRep s' seg = rep ∧
    Obs.modCycle s' seg = samples.size ∧ Obs.modMem s' (1 - seg) = Obs.modMem s0 (1 - seg) ∧
    Obs.modDiv s' (1 - seg) = Obs.modDiv s0 (1 - seg) ∧ Obs.modRep s' (1 - seg) = Obs.modRep s0 (1 - seg) ∧
    Obs.modCycle s' (1 - seg) = Obs.modCycle s0 (1 - seg) ∧
    (tr = none → s'.modSwap = s0.modSwap ∧ Obs.reqModSeg s' = Obs.reqModSeg s0 ∧
      Obs.modTransition s' = Obs.modTransition s0) ∧
    (∀ m v, tr = some (m, v) → Obs.reqModSeg s' = .ok seg ∧ Obs.modTransition s' = .ok (tmodeOf m v) ∧
      SwapSet s0.modSwap s'.modSwap s0.dcSysTime rep div samples.size seg (tmodeOf m v)) := by
  refine ⟨h.buffer, h.hdiv, h.hrep, h.hcycle, h.otherMem, h.otherRegs.1, h.otherRegs.2.1, h.otherRegs.2.2, ?_, ?_⟩
  · intro htr; subst htr; exact h.req
  · intro m v htr; subst htr; exact h.req


/-! ### FociSTM -/

/-- page-crossing lemma for FociSTM (4096-point pages, 16 pages): the copy part of `write_foci_stm` puts
the `sn·n` 64-bit records of the frame at cursor `c …` of the target segment, also across a page
boundary, and touches nothing else -/
theorem foci_copy_with_page_split (s : State) (hW : WF s) (d : Array Nat) (off sn seg c n : Nat)
    (hc : s.stmWrite = c) (hn : s.numFoci = n) (hw : sn * n < 65536) (hcw : c + sn * n ≤ 65536) (hc3 : c < 65536)
    (hsr : reg s Cpu.ADDR_STM_MEM_WR_SEGMENT = seg) (hseg : seg ≤ 1) (hpage : reg s Cpu.ADDR_STM_MEM_WR_PAGE = c / 4096)
    (hwp : sn * n ≤ 4096) :
    ∃ s', fociDataPart s d off sn = .ok s' ∧ FociCopied s s' seg c (sn * n) d off :=
  fociDataPart_ok s hW d off sn seg c n hc hn hw hcw hc3 hsr hseg hpage hwp

/-- chunk arithmetic, driver side: `598/(8N)` patterns in the first frame, `618/(8N)` in every later one -/
theorem foci_pack_first (n seg : Nat) (tr : Tr) (rep div ss : Nat) (records : Array Nat) (P nt : Nat) (b : Array Nat)
    (hb : b.size = 622) (hn : 1 ≤ n ∧ n ≤ 8) (hP : records.size = P * n) (ht : 2 ≤ P * n ∧ P * n ≤ 65536) :
    (Op.ofDg (.fociStm n seg tr rep div ss records)).pack nt b 0 =
      .ok ({ dg := .fociStm n seg tr rep div ss records, sent := min P (598 / (8 * n)),
             done := decide (P = min P (598 / (8 * n))) },
        fociFirstPayload b records n (min P (598 / (8 * n)))
          (fociFlagByte true (decide (P = min P (598 / (8 * n)))) tr.isSome) seg (trMode tr) div rep (trValue tr) ss,
        24 + 8 * min P (598 / (8 * n)) * n) :=
  pack_foci_first n seg tr rep div ss records P nt b hb hn hP ht

/-- **FociSTM round trip**, N = 1..8 foci per pattern, `P` patterns, 2 ≤ P·N ≤ 65536 (`FociOK`), by
induction over the frames: the stored 64-bit records equal the datagram's records (`stmRecord` is the
word combination `foci_stm_drives` decodes), `num_foci`, sound speed, cycle = P, division, loop count,
focus mode, the other segment's memory and registers untouched, and the request register / transition /
swap chain written iff a transition is given (`FociHeld`).  `g1`, `g2` are the firmware's guards at BEGIN. -/
theorem fociStm_roundtrip (s : State) (t : Tx) (hWF : WF s) (ht : TxOK t) (hf : Fresh s t)
    (n seg : Nat) (tr : Tr) (rep div ss : Nat) (records : Array Nat) (P : Nat)
    (H : FociOK s n seg tr rep div ss records P)
    (g1 : validateTransitionMode s.stmSegment seg rep (trMode tr) = false)
    (g2 : validateSilencerSettings s div (sel s.modDiv s.modSegment) = false) :
    ∃ t' s', Sends (.fociStm n seg tr rep div ss records) s t t' s' ∧ WF s' ∧ TxOK t' ∧ Fresh s' t' ∧
      FociHeld s s' seg tr rep div ss n records P :=
  fociStm_roundtrip' s t hWF ht hf n seg tr rep div ss records P H g1 g2

/-- what `FociHeld` says, spelled out -/
theorem fociHeld_spelled_out {s0 s' : State} {seg : Nat} {tr : Tr} {rep div ss n : Nat} {records : Array Nat} {P : Nat}
    (h : FociHeld s0 s' seg tr rep div ss n records P) :
    (∀ k, k < P * n → stmRecord (Obs.stmMem s' seg) k = rd records k) ∧ Obs.stmCycle s' seg = P ∧
    Obs.numFoci s' seg = n ∧ Obs.soundSpeed s' seg = ss ∧ Obs.stmDiv s' seg = div ∧ Obs.stmRep s' seg = rep ∧
    Obs.isStmGainMode s' seg = false ∧ Obs.stmMem s' (1 - seg) = Obs.stmMem s0 (1 - seg) ∧
    (tr = none → s'.stmSwap = s0.stmSwap ∧ Obs.reqStmSeg s' = Obs.reqStmSeg s0 ∧
      Obs.stmTransition s' = Obs.stmTransition s0) ∧
    (∀ m v, tr = some (m, v) → Obs.reqStmSeg s' = .ok seg ∧ Obs.stmTransition s' = .ok (tmodeOf m v) ∧
      SwapSet s0.stmSwap s'.stmSwap s0.dcSysTime rep div P seg (tmodeOf m v)) := by
  refine ⟨h.recs, h.hcycle, h.hnf, h.hss, h.hdiv, h.hrep, h.hmode, h.otherMem, ?_, ?_⟩
  · intro htr; subst htr; exact h.req
  · intro m v htr; subst htr; exact h.req

/-- the record read by `stmRecord` is the 64-bit value `foci_stm_drives` decodes -/
theorem stmRecord_def (m : Array Nat) (k : Nat) :
    stmRecord m k = rd m (4 * k) + 65536 * rd m (4 * k + 1) + 4294967296 * rd m (4 * k + 2) +
      281474976710656 * rd m (4 * k + 3) := rfl


/-! ### GainSTM -/

/-- the firmware's mode functions applied to the words the driver packed give the expected drive word of
the mode: full word; (0xFF, phase); (0xFF, (phase >> 4)·0x11) — byte/nibble packing of modes 1 and 2 -/
theorem gainStm_packing (mode hoff nt : Nat) (patterns : Array (Array Nat)) (c : Nat) (b : Array Nat) (send : Nat)
    (d : Array Nat) (hm : mode ≤ 2) (hb : b.size = 622) (hfit : hoff + 2 * nt ≤ 622) (hs : 1 ≤ send ∧ send ≤ perFrame mode)
    (hdx : ∀ x, hoff ≤ x → u8at d x = u8at (gstmData mode hoff nt patterns c b send) x)
    (hw : ∀ idx i, rd (patAt patterns idx) i < 65536) :
    ∀ j, j < (gstmFns mode send).length → ∀ i, i < nt →
      nthF (gstmFns mode send) j (u16at d (hoff + 2 * i)) % 65536 = expDrive mode (rd (patAt patterns (c + j)) i) :=
  gstm_hd mode hoff nt patterns c b send d hm hb hfit hs hdx hw

/-- what the FPGA holds for a drive word in each GainSTM mode -/
theorem expDrive_modes (w : Nat) :
    expDrive 0 w = w ∧ expDrive 1 w = 0xFF00 + w % 256 ∧ expDrive 2 w = 0xFF00 + (w % 256 / 16) * 0x11 := ⟨rfl, rfl, rfl⟩

/-- **GainSTM round trip**, the three modes, 2 ≤ size ≤ 1024 (`GOK`), by induction over the frames
(1, 2 or 4 patterns per frame): for every pattern `idx` and transducer `i` the STM BRAM word
`256·idx + i` of the segment is the expected drive word of the mode, cycle = size, gain mode (register and
CPU copy), division, loop count, the other segment's memory and registers untouched, the request
register / transition / swap chain written iff a transition is given (`GHeld`) -/
theorem gainStm_roundtrip (s : State) (t : Tx) (hWF : WF s) (ht : TxOK t) (hf : Fresh s t)
    (mode seg : Nat) (tr : Tr) (rep div : Nat) (patterns : Array (Array Nat)) (H : GOK s mode seg tr rep div patterns)
    (g1 : validateTransitionMode s.stmSegment seg rep (trMode tr) = false)
    (g2 : validateSilencerSettings s div (sel s.modDiv s.modSegment) = false) :
    ∃ t' s', Sends (.gainStm mode seg tr rep div patterns) s t t' s' ∧ WF s' ∧ TxOK t' ∧ Fresh s' t' ∧
      GHeld s s' seg tr rep div mode patterns :=
  gainStm_roundtrip' s t hWF ht hf mode seg tr rep div patterns H g1 g2

/-- what `GHeld` says, spelled out -/
theorem gHeld_spelled_out {s0 s' : State} {seg : Nat} {tr : Tr} {rep div mode : Nat} {patterns : Array (Array Nat)}
    (h : GHeld s0 s' seg tr rep div mode patterns) :
    (∀ idx, idx < patterns.size → ∀ i, i < s0.numTr →
      rd (Obs.stmMem s' seg) (256 * idx + i) = expDrive mode (rd (patAt patterns idx) i)) ∧
    Obs.stmCycle s' seg = patterns.size ∧ Obs.isStmGainMode s' seg = true ∧ Obs.stmDiv s' seg = div ∧
    Obs.stmRep s' seg = rep ∧ sel s'.stmMode seg = Cpu.STM_MODE_GAIN ∧ Obs.stmMem s' (1 - seg) = Obs.stmMem s0 (1 - seg) ∧
    (tr = none → s'.stmSwap = s0.stmSwap ∧ Obs.reqStmSeg s' = Obs.reqStmSeg s0 ∧
      Obs.stmTransition s' = Obs.stmTransition s0) ∧
    (∀ m v, tr = some (m, v) → Obs.reqStmSeg s' = .ok seg ∧ Obs.stmTransition s' = .ok (tmodeOf m v) ∧
      SwapSet s0.stmSwap s'.stmSwap s0.dcSysTime rep div patterns.size seg (tmodeOf m v)) := by
  refine ⟨h.rows, h.hcycle, h.hmode, h.hdiv, h.hrep, h.cpuMode, h.otherMem, ?_, ?_⟩
  · intro htr; subst htr; exact h.req
  · intro m v htr; subst htr; exact h.req


/-! ### 1..n devices -/

/-- **device independence**: the controller's lockstep rounds (one frame per device per round, devices
whose operation is done are skipped) give, for every device, exactly the result of running that device
alone — device `i`'s final state is a function of its own operation, state and tx buffer only -/
theorem device_independent (n : Nat) (devs : List Dev) : lockstep n devs = devs.mapM (devRun n) :=
  lockstep_pointwise n devs

/-- the per-device rounds are the send loop of the round-trip theorems: whenever `Sends dg s t t' s'` holds
(with `fuel` frames), `n ≥ fuel - 1` rounds leave device `(Op.ofDg dg, s, t)` in `(done, s', t')`; together
with `device_independent` every `*_roundtrip` theorem lifts to any number of devices -/
theorem device_rounds_are_sendLoop (fuel : Nat) (o : Op) (s : State) (t t' : Tx) (s' : State)
    (h : sendLoop fuel o s t = some (t', s')) (n : Nat) (hn : fuel ≤ n + 1) :
    ∃ o', devRun n (o, s, t) = some (o', s', t') ∧ o'.done = true :=
  devRun_of_sendLoop fuel o s t t' s' h n hn

/-- a device that is re-sent the frame it has already processed ignores it -/
theorem resent_frame_ignored (s : State) (t : Tx) (h : s.lastMsgId = t.msgId % 256) : ecatRecv s t.frame = .ok s :=
  ecatRecv_idle s t h

/-! ### non-vacuity: concrete inputs meeting the hypotheses -/

/-- the theorems apply to the power-on state of a 249-transducer device and a fresh tx buffer
(`lastMsgId = 0xFF`, first message id 1) -/
example : ∃ s, Fw.new 249 0 = .ok s ∧ WF s ∧ TxOK exTx := by
  obtain ⟨s, h1, h2⟩ := wf_of_new 249 0 (by decide)
  exact ⟨s, h1, h2, TxOK_exTx⟩

example : ∃ t' s', Sends (.forceFan true) exState exTx t' s' ∧ Obs.isForceFan s' = true := by
  obtain ⟨t', s', h, _, _, _, h5⟩ := forceFan_roundtrip exState exTx true WF_exState TxOK_exTx Fresh_ex
  exact ⟨t', s', h, h5⟩

/-- a 1000-sample modulation (3 frames: 254 + 618 + 128) to segment 1 with a SyncIdx transition and a
finite loop, on the power-on-like state -/
example : ∃ t' s', Sends (.modulation 1 (some (0, 0)) 3 5120 (Array.replicate 1000 7)) exState exTx t' s' ∧
    Obs.modBuffer s' 1 = .ok (Array.replicate 1000 7) ∧ Obs.reqModSeg s' = .ok 1 := by
  have H : ModOK exState 1 (some (0, 0)) 3 5120 (Array.replicate 1000 7) := by
    refine ⟨by decide, by simp, by simp, ?_, by decide, by decide, ?_⟩
    · intro i; unfold rd; by_cases h : i < 1000 <;> simp [h]
    · intro m v h
      simp only [Option.some.injEq, Prod.mk.injEq] at h
      obtain ⟨rfl, rfl⟩ := h
      exact ⟨Or.inl rfl, by decide, by decide⟩
  obtain ⟨t', s', h, _, _, _, h5⟩ := mod_roundtrip exState exTx WF_exState TxOK_exTx Fresh_ex 1 (some (0, 0)) 3 5120
    (Array.replicate 1000 7) H (by decide) (by decide)
  exact ⟨t', s', h, h5.buffer, h5.req.1⟩

example : ∃ t' s', Sends (.gain 1 none (Array.replicate 249 0x80FF)) exState exTx t' s' ∧ Obs.stmCycle s' 1 = 1 := by
  obtain ⟨t', s', h, _, _, _, h5, _⟩ := gain_roundtrip exState exTx WF_exState TxOK_exTx Fresh_ex 1 (by decide) none
    (Or.inl rfl) (Array.replicate 249 0x80FF) (by intro i; unfold rd; by_cases h : i < 249 <;> simp [h])
  exact ⟨t', s', h, h5.cycle⟩

/-- a 300-pattern FociSTM with 3 foci per pattern (900 records, 13 frames) to segment 1, GPIO transition -/
example : ∃ t' s', Sends (.fociStm 3 1 (some (2, 1)) 5 512 340 (Array.replicate 900 12345)) exState exTx t' s' ∧
    Obs.stmCycle s' 1 = 300 ∧ Obs.numFoci s' 1 = 3 := by
  have H : FociOK exState 3 1 (some (2, 1)) 5 512 340 (Array.replicate 900 12345) 300 := by
    refine ⟨by decide, by decide, by simp, by decide, ?_, by decide, by decide, by decide, ?_⟩
    · intro i; unfold rd; by_cases h : i < 900 <;> simp [h]
    · intro m v h
      simp only [Option.some.injEq, Prod.mk.injEq] at h
      obtain ⟨rfl, rfl⟩ := h
      exact ⟨Or.inr (Or.inr (Or.inl ⟨rfl, by decide⟩)), by decide, by decide⟩
  obtain ⟨t', s', h, _, _, _, h5⟩ := fociStm_roundtrip exState exTx WF_exState TxOK_exTx Fresh_ex 3 1 (some (2, 1)) 5
    512 340 (Array.replicate 900 12345) 300 H (by decide) (by decide)
  exact ⟨t', s', h, h5.hcycle, h5.hnf⟩

/-- a 7-pattern GainSTM in PhaseHalf mode (2 frames: 4 + 3 patterns) to segment 0, no transition -/
example : ∃ t' s', Sends (.gainStm 2 0 none 0xFFFF 4000 (Array.replicate 7 (Array.replicate 249 0x1234))) exState exTx t' s' ∧
    Obs.stmCycle s' 0 = 7 := by
  have H : GOK exState 2 0 none 0xFFFF 4000 (Array.replicate 7 (Array.replicate 249 0x1234)) := by
    refine ⟨by decide, by decide, by simp, ?_, by decide, by decide, ?_⟩
    · intro idx i
      unfold patAt rd
      by_cases h : idx < 7
      · simp [h]; by_cases h2 : i < 249 <;> simp [h2]
      · simp [h]; show (#[] : Array Nat)[i]?.getD 0 < 65536; simp
    · intro m v h; simp at h
  obtain ⟨t', s', h, _, _, _, h5⟩ := gainStm_roundtrip exState exTx WF_exState TxOK_exTx Fresh_ex 2 0 none 0xFFFF 4000
    (Array.replicate 7 (Array.replicate 249 0x1234)) H (by decide) (by decide)
  refine ⟨t', s', h, ?_⟩
  have := h5.hcycle
  simpa using this

end Autd3.C01
