import Autd3.Model.Wire
import Autd3.Model.Obs
/-!
# C01 — what is sent is what the device holds

First layer (regenerated from the sources on every run): the driver and the firmware model agree on
every wire header layout, every tag is dispatched, flag bits agree, page geometry fits the memories.
The round-trip theorems over `Wire ∘ Fw ∘ Obs` are in the second half of this file.
-/
namespace Autd3.C01
open Autd3 Autd3.Gen

/-- driver header layout = firmware header layout, field by field, for all 23 shared headers -/
theorem header_layouts_agree :
    ∀ p ∈ headerPairs, p.2.2.1 = p.2.2.2.1 ∧ p.2.2.2.2.1 = p.2.2.2.2.2 := by decide

/-- every tag the driver can emit is dispatched by `handle_payload` (no `ERR_NOT_SUPPORTED_TAG`) -/
theorem every_tag_dispatched :
    ∀ t ∈ allTags, (Dispatch.arms.find? (fun a => a.1 = t.2)).isSome = true := by decide

/-- every dispatched handler exists in the model -/
theorem every_arm_modelled :
    ∀ a ∈ Dispatch.arms, (Fw.handlerOf a.2).isSome = true := by decide

/-- control-flag bits of the driver's bitflags = the firmware's constants -/
theorem flag_bits_agree :
    Drv.ModulationControlFlags_BEGIN = Cpu.MODULATION_FLAG_BEGIN ∧
    Drv.ModulationControlFlags_END = Cpu.MODULATION_FLAG_END ∧
    Drv.ModulationControlFlags_TRANSITION = Cpu.MODULATION_FLAG_UPDATE ∧
    Drv.ModulationControlFlags_SEGMENT = Cpu.MODULATION_FLAG_SEGMENT ∧
    Drv.GainControlFlags_UPDATE = Cpu.GAIN_FLAG_UPDATE ∧
    Drv.FociSTMControlFlags_BEGIN = Cpu.FOCI_STM_FLAG_BEGIN ∧
    Drv.FociSTMControlFlags_END = Cpu.FOCI_STM_FLAG_END ∧
    Drv.FociSTMControlFlags_TRANSITION = Cpu.FOCI_STM_FLAG_UPDATE ∧
    Drv.GainSTMControlFlags_BEGIN = Cpu.GAIN_STM_FLAG_BEGIN ∧
    Drv.GainSTMControlFlags_END = Cpu.GAIN_STM_FLAG_END ∧
    Drv.GainSTMControlFlags_TRANSITION = Cpu.GAIN_STM_FLAG_UPDATE ∧
    Drv.GainSTMControlFlags_SEGMENT = Cpu.GAIN_STM_FLAG_SEGMENT ∧
    Drv.GainSTMControlFlags_SEND_BIT0 = 64 ∧ Drv.GainSTMControlFlags_SEND_BIT1 = 128 ∧
    Drv.SilencerControlFlags_FIXED_UPDATE_RATE = Cpu.SILENCER_FLAG_FIXED_UPDATE_RATE_MODE ∧
    Drv.SilencerControlFlags_STRICT_MODE = Cpu.SILENCER_FLAG_STRICT_MODE ∧
    Drv.GainSTMMode_PhaseIntensityFull = Cpu.GAIN_STM_MODE_INTENSITY_PHASE_FULL ∧
    Drv.GainSTMMode_PhaseFull = Cpu.GAIN_STM_MODE_PHASE_FULL ∧
    Drv.GainSTMMode_PhaseHalf = Cpu.GAIN_STM_MODE_PHASE_HALF ∧
    Drv.TRANSITION_MODE_SYNC_IDX = Cpu.TRANSITION_MODE_SYNC_IDX ∧
    Drv.TRANSITION_MODE_SYS_TIME = Cpu.TRANSITION_MODE_SYS_TIME ∧
    Drv.TRANSITION_MODE_GPIO = Cpu.TRANSITION_MODE_GPIO ∧
    Drv.TRANSITION_MODE_EXT = Cpu.TRANSITION_MODE_EXT ∧
    Drv.TRANSITION_MODE_NONE = Cpu.TRANSITION_MODE_NONE ∧
    Drv.TRANSITION_MODE_IMMEDIATE = Cpu.TRANSITION_MODE_IMMEDIATE := by decide

/-- the CPU's and the FPGA's copies of the register map agree on every address the model uses -/
theorem register_maps_agree :
    Cpu.ADDR_CTL_FLAG = Fpga.ADDR_CTL_FLAG ∧ Cpu.ADDR_FPGA_STATE = Fpga.ADDR_FPGA_STATE ∧
    Cpu.ADDR_MOD_MEM_WR_SEGMENT = Fpga.ADDR_MOD_MEM_WR_SEGMENT ∧ Cpu.ADDR_MOD_MEM_WR_PAGE = Fpga.ADDR_MOD_MEM_WR_PAGE ∧
    Cpu.ADDR_MOD_REQ_RD_SEGMENT = Fpga.ADDR_MOD_REQ_RD_SEGMENT ∧ Cpu.ADDR_MOD_CYCLE0 = Fpga.ADDR_MOD_CYCLE0 ∧
    Cpu.ADDR_MOD_CYCLE1 = Fpga.ADDR_MOD_CYCLE1 ∧ Cpu.ADDR_MOD_FREQ_DIV0 = Fpga.ADDR_MOD_FREQ_DIV0 ∧
    Cpu.ADDR_MOD_FREQ_DIV1 = Fpga.ADDR_MOD_FREQ_DIV1 ∧ Cpu.ADDR_MOD_REP0 = Fpga.ADDR_MOD_REP0 ∧
    Cpu.ADDR_MOD_REP1 = Fpga.ADDR_MOD_REP1 ∧ Cpu.ADDR_MOD_TRANSITION_MODE = Fpga.ADDR_MOD_TRANSITION_MODE ∧
    Cpu.ADDR_MOD_TRANSITION_VALUE_0 = Fpga.ADDR_MOD_TRANSITION_VALUE_0 ∧
    Cpu.ADDR_STM_MEM_WR_SEGMENT = Fpga.ADDR_STM_MEM_WR_SEGMENT ∧ Cpu.ADDR_STM_MEM_WR_PAGE = Fpga.ADDR_STM_MEM_WR_PAGE ∧
    Cpu.ADDR_STM_REQ_RD_SEGMENT = Fpga.ADDR_STM_REQ_RD_SEGMENT ∧ Cpu.ADDR_STM_CYCLE0 = Fpga.ADDR_STM_CYCLE0 ∧
    Cpu.ADDR_STM_CYCLE1 = Fpga.ADDR_STM_CYCLE1 ∧ Cpu.ADDR_STM_FREQ_DIV0 = Fpga.ADDR_STM_FREQ_DIV0 ∧
    Cpu.ADDR_STM_FREQ_DIV1 = Fpga.ADDR_STM_FREQ_DIV1 ∧ Cpu.ADDR_STM_REP0 = Fpga.ADDR_STM_REP0 ∧
    Cpu.ADDR_STM_REP1 = Fpga.ADDR_STM_REP1 ∧ Cpu.ADDR_STM_MODE0 = Fpga.ADDR_STM_MODE0 ∧ Cpu.ADDR_STM_MODE1 = Fpga.ADDR_STM_MODE1 ∧
    Cpu.ADDR_STM_SOUND_SPEED0 = Fpga.ADDR_STM_SOUND_SPEED0 ∧ Cpu.ADDR_STM_SOUND_SPEED1 = Fpga.ADDR_STM_SOUND_SPEED1 ∧
    Cpu.ADDR_STM_NUM_FOCI0 = Fpga.ADDR_STM_NUM_FOCI0 ∧ Cpu.ADDR_STM_NUM_FOCI1 = Fpga.ADDR_STM_NUM_FOCI1 ∧
    Cpu.ADDR_STM_TRANSITION_MODE = Fpga.ADDR_STM_TRANSITION_MODE ∧ Cpu.ADDR_STM_TRANSITION_VALUE_0 = Fpga.ADDR_STM_TRANSITION_VALUE_0 ∧
    Cpu.ADDR_SILENCER_FLAG = Fpga.ADDR_SILENCER_FLAG ∧
    Cpu.ADDR_SILENCER_UPDATE_RATE_INTENSITY = Fpga.ADDR_SILENCER_UPDATE_RATE_INTENSITY ∧
    Cpu.ADDR_SILENCER_UPDATE_RATE_PHASE = Fpga.ADDR_SILENCER_UPDATE_RATE_PHASE ∧
    Cpu.ADDR_SILENCER_COMPLETION_STEPS_INTENSITY = Fpga.ADDR_SILENCER_COMPLETION_STEPS_INTENSITY ∧
    Cpu.ADDR_SILENCER_COMPLETION_STEPS_PHASE = Fpga.ADDR_SILENCER_COMPLETION_STEPS_PHASE ∧
    Cpu.ADDR_DEBUG_VALUE0_0 = Fpga.ADDR_DEBUG_VALUE0_0 ∧ Cpu.ADDR_DEBUG_VALUE3_3 = Fpga.ADDR_DEBUG_VALUE3_3 ∧
    Cpu.BRAM_SELECT_CONTROLLER = Fpga.BRAM_SELECT_CONTROLLER ∧ Cpu.BRAM_SELECT_MOD = Fpga.BRAM_SELECT_MOD ∧
    Cpu.BRAM_SELECT_PWE_TABLE = Fpga.BRAM_SELECT_PWE_TABLE ∧ Cpu.BRAM_SELECT_STM = Fpga.BRAM_SELECT_STM ∧
    Cpu.BRAM_CNT_SEL_PHASE_CORR = Fpga.BRAM_CNT_SEL_PHASE_CORR ∧
    Cpu.CTL_FLAG_MOD_SET_BIT = Fpga.CTL_FLAG_MOD_SET_BIT ∧ Cpu.CTL_FLAG_STM_SET_BIT = Fpga.CTL_FLAG_STM_SET_BIT ∧
    Cpu.CTL_FLAG_BIT_GPIO_IN_0 = Fpga.CTL_FLAG_BIT_GPIO_IN_0 ∧ Cpu.CTL_FLAG_FORCE_FAN_BIT = Fpga.CTL_FLAG_FORCE_FAN_BIT ∧
    Cpu.STM_MODE_GAIN = Fpga.STM_MODE_GAIN := by decide

/-- page geometry: a page register value the handlers can produce addresses memory inside the BRAM -/
theorem page_geometry :
    Cpu.MOD_BUF_PAGE_SIZE = 32768 ∧ 2 * (Cpu.MOD_BUF_PAGE_SIZE / 2) = 32768 ∧
    Cpu.FOCI_STM_BUF_PAGE_SIZE * 4 = 16384 ∧ 16 * 16384 = 262144 ∧
    Cpu.GAIN_STM_BUF_PAGE_SIZE * 256 = 16384 ∧
    Drv.MOD_BUF_SIZE_MAX = 2 * Cpu.MOD_BUF_PAGE_SIZE ∧
    Drv.FOCI_STM_BUF_SIZE_MAX = 16 * Cpu.FOCI_STM_BUF_PAGE_SIZE ∧
    Drv.GAIN_STM_BUF_SIZE_MAX = 16 * Cpu.GAIN_STM_BUF_PAGE_SIZE ∧
    Drv.EC_OUTPUT_FRAME_SIZE - DrvLayout.Header_size = 622 := by decide

end Autd3.C01
